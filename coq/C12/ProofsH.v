(* C12/ProofsH.v — histories of calls sharing a persistent InSitu struct (ModelH.v):
   under the two frame conditions (a call writes only InSitu buffers and what it allocates; it stores no reference
   to anything that existed before the call into the InSitu struct) EVERY object the caller holds stays as it is
   through EVERY history; without the second condition this fails (the seeded regression); the concrete wrapper
   over C10's storage heap. *)
From Coq Require Import ZArith List Bool Arith Lia.
From ADV Require Import Base.Corr C10.Gen C10.Model C10.Spec C10.ProofsViews C12.ModelM C12.ProofsM C12.ModelH.
Import ListNotations.
Open Scope nat_scope.

Section Abstract.
Context {V : Type}.
Notation hst := (hst V). Notation hbody := (hbody V). Notation hev := (hev V).

(* ---- the frame conditions of one call, at the state it is made in ---- *)
Definition body_ok (b : hbody) (args : list nat) (s : hst) : Prop :=
  hs_next s <= hs_next (fst (b args s)) /\
  (* F1  writes only InSitu buffers (and what it allocates itself) *)
  (forall l, l < hs_next s -> ~ In l (hs_refs s) -> hs_heap (fst (b args s)) l = hs_heap s l) /\
  (* F2  stores NO reference to a pre-existing object into the InSitu struct: what the struct references after
         the call was referenced before, or is new *)
  (forall l, In l (hs_refs (fst (b args s))) -> In l (hs_refs s) \/ hs_next s <= l) /\
  (* allocation discipline *)
  (forall l, In l (hs_refs (fst (b args s))) -> l < hs_next (fst (b args s))) /\
  (forall l, In l (snd (b args s)) -> l < hs_next (fst (b args s))).

Definition ev_ok (sp : hst * list nat) (e : hev) : Prop :=
  match e with
  | HCall b args => body_ok b args (fst sp)
  | HPass l => l < hs_next (fst sp)
  | _ => True
  end.
Fixpoint evs_ok (sp : hst * list nat) (evs : list hev) : Prop :=
  match evs with [] => True | e :: r => ev_ok sp e /\ evs_ok (hstep sp e) r end.

(* the invariant: nothing the caller holds is referenced by the InSitu struct *)
Definition HInv (sp : hst * list nat) : Prop :=
  (forall l, In l (snd sp) -> l < hs_next (fst sp) /\ ~ In l (hs_refs (fst sp))) /\
  (forall l, In l (hs_refs (fst sp)) -> l < hs_next (fst sp)).

Lemma memb_In l ls : memb l ls = true <-> In l ls.
Proof.
  unfold memb. rewrite existsb_exists. split.
  - intros (x & I & E). apply Nat.eqb_eq in E. subst. exact I.
  - intros I. exists l. split; [exact I | apply Nat.eqb_refl].
Qed.

Lemma hupd_other (h : nat -> V) l v q : q <> l -> hupd h l v q = h q.
Proof. intros N. unfold hupd. destruct (Nat.eqb q l) eqn:E; [apply Nat.eqb_eq in E; contradiction | reflexivity]. Qed.

(* one step: invariant kept, allocation pointer monotone, held objects keep their content, objects that leave
   P never come back *)
Lemma hstep_facts sp e : HInv sp -> ev_ok sp e ->
  HInv (hstep sp e) /\
  hs_next (fst sp) <= hs_next (fst (hstep sp e)) /\
  (forall l, In l (snd sp) -> In l (snd (hstep sp e)) -> hs_heap (fst (hstep sp e)) l = hs_heap (fst sp) l) /\
  (forall l, l < hs_next (fst sp) -> ~ In l (snd sp) -> ~ In l (snd (hstep sp e))).
Proof.
  destruct sp as [s P]. intros [I1 I2] OK. destruct e as [v|v|l0| |b args]; simpl in *.
  - (* HNew *) split; [split|split; [lia|split]]; simpl.
    + intros l [<-|I]; [split; [lia|]; intros R; apply I2 in R; lia |]. destruct (I1 l I) as [A B]. split; [lia|exact B].
    + intros l I. apply I2 in I. lia.
    + intros l I _. apply hupd_other. destruct (I1 l I). lia.
    + intros l L N [E|I]; [lia | contradiction].
  - (* HBuf *) split; [split|split; [lia|split]]; simpl.
    + intros l I. destruct (I1 l I) as [A B]. split; [lia|]. intros [E|R]; [lia | contradiction].
    + intros l [<-|I]; [lia|]. apply I2 in I. lia.
    + intros l I _. apply hupd_other. destruct (I1 l I). lia.
    + intros l L N I. contradiction.
  - (* HPass *) split; [split|split; [lia|split]]; simpl.
    + intros l I. apply filter_In in I. destruct I as [I Q]. destruct (I1 l I) as [A B]. split; [exact A|].
      intros [E|R]; [subst; rewrite Nat.eqb_refl in Q; discriminate | contradiction].
    + intros l [<-|I]; [exact OK | apply I2; exact I].
    + reflexivity.
    + intros l L N I. apply filter_In in I. destruct I. contradiction.
  - (* HFresh *) split; [split|split; [lia|split]]; simpl.
    + intros l I. destruct (I1 l I). split; [assumption | intros []].
    + intros l [].
    + reflexivity.
    + intros l L N I. contradiction.
  - (* HCall *) unfold body_ok in OK. simpl in OK. destruct (b args s) as [s' outs] eqn:EB. simpl in *.
    destruct OK as (Nx & F1 & F2 & A1 & A2).
    split; [split|split; [exact Nx|split]]; simpl.
    + intros l I. apply in_app_or in I. destruct I as [I|I].
      * apply filter_In in I. destruct I as [I Q]. apply andb_true_iff in Q. destruct Q as [Q1 Q2].
        split; [apply A2; exact I|]. intros R. apply memb_In in R. rewrite R in Q2. discriminate.
      * destruct (I1 l I) as [A B]. split; [lia|]. intros R. destruct (F2 l R) as [R'|R']; [contradiction | lia].
    + exact A1.
    + intros l I _. destruct (I1 l I) as [A B]. apply F1; assumption.
    + intros l L N I. apply in_app_or in I. destruct I as [I|I]; [|contradiction].
      apply filter_In in I. destruct I as [_ Q]. apply andb_true_iff in Q. destruct Q as [Q1 _].
      apply Nat.leb_le in Q1. lia.
Qed.

Lemma hrun_facts evs : forall sp, HInv sp -> evs_ok sp evs ->
  HInv (hrun sp evs) /\
  hs_next (fst sp) <= hs_next (fst (hrun sp evs)) /\
  (forall l, In l (snd sp) -> In l (snd (hrun sp evs)) -> hs_heap (fst (hrun sp evs)) l = hs_heap (fst sp) l) /\
  (forall l, l < hs_next (fst sp) -> ~ In l (snd sp) -> ~ In l (snd (hrun sp evs))).
Proof.
  induction evs as [|e r IH]; intros sp I OK; simpl.
  - split; [exact I|]. split; [lia|]. split; [reflexivity | auto].
  - destruct OK as [O1 O2]. destruct (hstep_facts sp e I O1) as (I' & N1 & K1 & B1).
    destruct (IH (hstep sp e) I' O2) as (I'' & N2 & K2 & B2).
    split; [exact I''|]. split; [lia|]. split.
    + intros l Il Il'. destruct (in_dec Nat.eq_dec l (snd (hstep sp e))) as [M|M].
      * rewrite (K2 l M Il'). apply K1; assumption.
      * exfalso. apply (B2 l); [|exact M|exact Il']. destruct I as [I1 _]. destruct (I1 l Il). lia.
    + intros l L N. apply B2; [lia | apply B1; assumption].
Qed.

(* THE HISTORY THEOREM: every object the caller holds at any point of a history and still holds at the end (he did
   not pass it as a buffer himself) has at the end the content it had at that point — whatever the calls compute,
   in whatever order, with whatever option combinations, as long as each call satisfies the frame conditions. *)
Theorem history_frame evs1 evs2 sp : HInv sp -> evs_ok sp (evs1 ++ evs2) ->
  forall l, In l (snd (hrun sp evs1)) -> In l (snd (hrun sp (evs1 ++ evs2))) ->
  hs_heap (fst (hrun sp (evs1 ++ evs2))) l = hs_heap (fst (hrun sp evs1)) l.
Proof.
  intros I OK l I1 I2. unfold hrun in *. rewrite fold_left_app in *.
  assert (S : forall e1 sp0, HInv sp0 -> evs_ok sp0 (e1 ++ evs2) -> HInv (hrun sp0 e1) /\ evs_ok (hrun sp0 e1) evs2).
  { induction e1 as [|e r IH]; intros sp0 I0 O0; simpl in *; [split; assumption|].
    destruct O0 as [Oa Ob]. destruct (hstep_facts sp0 e I0 Oa) as (I' & _). apply IH; assumption. }
  destruct (S evs1 sp I OK) as [Ia Oa].
  destruct (hrun_facts evs2 _ Ia Oa) as (_ & _ & K & _). apply K; assumption.
Qed.

(* and the InSitu struct never references an object the caller holds: the "no retained reference" invariant
   that the harness observes through storage identity after every call *)
Theorem history_no_retained_reference evs sp : HInv sp -> evs_ok sp evs ->
  forall l, In l (snd (hrun sp evs)) -> ~ In l (hs_refs (fst (hrun sp evs))).
Proof. intros I OK l Il. destruct (hrun_facts evs sp I OK) as ([I1 _] & _). apply I1. exact Il. Qed.

Lemma HInv_init (h : nat -> V) : HInv (mkHS h 0 [], []).
Proof. split; simpl; intros l []. Qed.

(* the wrapper of /repo satisfies the frame conditions in every state with well-formed references *)
Lemma b_clone_ok (f : V -> V) args s : (forall l, In l (hs_refs s) -> l < hs_next s) -> body_ok (b_clone f) args s.
Proof.
  intros W. unfold body_ok, b_clone. destruct args as [|a args]; simpl.
  - split; [lia|]. split; [reflexivity|]. split; [auto|]. split; [exact W | intros l []].
  - destruct (hs_refs s) as [|h r] eqn:ER; simpl.
    + split; [lia|]. split; [intros l L _; apply hupd_other; lia|]. split; [intros l [<-|[]]; right; lia|].
      split; intros l [<-|[]]; lia.
    + split; [lia|]. split; [intros l L N; apply hupd_other; intros ->; apply N; left; reflexivity|].
      split; [intros l I; left; exact I|]. split; [exact W|]. intros l [<-|[]]. apply W. left. reflexivity.
Qed.
(* ... the regression satisfies F1 (it writes nothing at all) but not F2 *)
Lemma b_retain_writes_nothing args s l : hs_heap (fst (b_retain (V:=V) args s)) l = hs_heap s l.
Proof. reflexivity. Qed.
Lemma b_scribble_F1 v args s l : ~ In l (hs_refs s) -> hs_heap (fst (b_scribble (V:=V) v args s)) l = hs_heap s l.
Proof.
  intros N. unfold b_scribble. simpl. destruct (memb l (hs_refs s)) eqn:E; [apply memb_In in E; contradiction | reflexivity].
Qed.
End Abstract.

(* necessity of F2, the seeded regression in the abstract: both calls write only InSitu buffers, the first one
   retains its argument — and the second call destroys the FIRST call's input (location 0 held 1, holds 9) *)
Lemma retained_reference_refuted :
  let evs := [HNew 1%Z; HCall b_retain [0]; HNew 2%Z; HCall (b_scribble 9%Z) [1]] in
  let sp := hrun (mkHS (fun _ => 0%Z) 0 [], []) evs in
  In 0 (snd sp) /\ hs_heap (fst sp) 0 = 9%Z /\
  hs_heap (fst (hrun (mkHS (fun _ => 0%Z) 0 [], []) [HNew 1%Z; HCall b_retain [0]])) 0 = 1%Z /\
  ~ body_ok b_retain [0] (fst (hrun (mkHS (fun _ => 0%Z) 0 [], []) [HNew 1%Z])).
Proof.
  cbv zeta. split; [vm_compute; auto|]. split; [reflexivity|]. split; [reflexivity|].
  unfold body_ok. simpl. intros (_ & _ & F2 & _). destruct (F2 0 (or_introl eq_refl)) as [[]|L]. lia.
Qed.
(* the same history with the code of /repo (clone, then in-place work on the clone) keeps both inputs *)
Lemma clone_history_example :
  let evs := [HNew 1%Z; HCall (b_clone Z.succ) [0]; HNew 2%Z; HCall (b_clone Z.succ) [2]] in
  let sp := hrun (mkHS (fun _ => 0%Z) 0 [], []) evs in
  evs_ok (mkHS (fun _ => 0%Z) 0 [], []) evs /\ In 0 (snd sp) /\ In 2 (snd sp) /\
  hs_heap (fst sp) 0 = 1%Z /\ hs_heap (fst sp) 2 = 2%Z /\ hs_heap (fst sp) 1 = 3%Z /\ hs_refs (fst sp) = [1].
Proof.
  cbv zeta. split.
  - cbn [evs_ok ev_ok]. split; [exact I|]. split; [apply b_clone_ok; simpl; intros l []|]. split; [exact I|].
    split; [apply b_clone_ok; simpl; intros l [<-|[]]; lia | exact I].
  - vm_compute. repeat split; auto.
Qed.

(* ------------------------------------------------------------------ the concrete wrapper over C10's heap *)
Section Concrete.
Variable real : bool.

Lemma mClone_facts (H : heap) (a : mat) : forall H1 w, mClone H a = (H1, w) ->
  d_values w = length H /\ length H1 = S (length H) /\ (forall l, l < length H -> store_of H1 l = store_of H l).
Proof.
  intros H1 w E. unfold mClone in E. pose proof (alloc_spec H (store_of H (d_values a))) as AS.
  destruct (alloc H (store_of H (d_values a))) as [Hx lx]. injection E as <- <-. simpl.
  destruct AS as (A1 & _ & A3 & A4). split; [exact A1|]. split; [exact A4|exact A3].
Qed.

(* one call of the clone-or-Set wrapper with a persistent struct: only the storage the struct referenced may
   change, the heap only grows, and what the struct references afterwards is what it referenced before or NEW *)
Lemma entry_p_frame body H init a buf H' w : body_frames body ->
  entry_p real body H init a buf = ROk (H', w) ->
  length H <= length H' /\
  (forall l, l < length H -> (forall b, buf = Some b -> l <> d_values b) -> store_of H' l = store_of H l) /\
  match buf with Some b => w = b | None => d_values w = length H end.
Proof.
  intros BF. unfold entry_p. destruct buf as [b|].
  - destruct (if init && negb (same_obj b a) then mSet real H b a else ROk H) as [H1| |] eqn:ES; simpl; try discriminate.
    destruct (body H1 b) as [H2| |] eqn:EB; simpl; try discriminate. intros E. injection E as <- <-.
    destruct (BF _ _ _ EB) as [B1 B2].
    assert (O : only (d_values b) H H1).
    { destruct (init && negb (same_obj b a)); [exact (mSet_only real _ _ _ _ ES) | injection ES as <-; apply only_refl]. }
    destruct O as [O1 O2]. split; [lia|]. split; [|reflexivity].
    intros l L N. specialize (N b eq_refl). rewrite B1 by (try lia; exact N). apply O1. exact N.
  - destruct (mClone H a) as [H1 c] eqn:EC. destruct (mClone_facts H a H1 c EC) as (C1 & C2 & C3).
    destruct (body H1 c) as [H2| |] eqn:EB; simpl; try discriminate. intros E. injection E as <- <-.
    destruct (BF _ _ _ EB) as [B1 B2]. split; [lia|]. split; [|exact C1].
    intros l L _. rewrite B1 by lia. apply C3. exact L.
Qed.

(* ANY history of calls of the wrapper with the struct threaded through — any number of calls, any inputs, any
   InitializeH flags, starting without or with a caller-supplied buffer — leaves every storage that existed at the
   start unchanged, except the storage of the buffer the caller supplied himself *)
Theorem entry_seq_frame body : body_frames body -> forall calls H buf H' buf',
  entry_seq (entry_p real body) H buf calls = ROk (H', buf') ->
  forall l, l < length H -> (forall b, buf = Some b -> l <> d_values b) -> store_of H' l = store_of H l.
Proof.
  intros BF. induction calls as [|[init a] r IH]; intros H buf H' buf' E l L N; simpl in E.
  - injection E as <- <-. reflexivity.
  - destruct (entry_p real body H init a buf) as [[H1 w]| |] eqn:E1; simpl in E; try discriminate.
    destruct (entry_p_frame body H init a buf H1 w BF E1) as (Le & Fr & Wb).
    rewrite (IH H1 (Some w) H' buf' E l); [apply Fr; assumption | lia |].
    intros b Eb. injection Eb as <-. destruct buf as [b0|]; [subst w; apply N; reflexivity | lia].
Qed.
End Concrete.

(* the seeded regression on the concrete heap: symmetric-style body that does not touch its matrix in the first
   call (the tridiagonalisation works on its own copy), InitializeH = true in the second call: the second call
   overwrites the FIRST call's input matrix (storage 0: [1;2;3;4] becomes [5;6;7;8]); the code of /repo keeps it *)
Lemma entry_retain_refuted :
  let H0 : heap := [[1;2;3;4]; [5;6;7;8]]%Z in
  let a1 := new_mat 0 2 2 in let a2 := new_mat 1 2 2 in
  let body := fun (H : heap) (_ : mat) => ROk H in
  (exists H' b, entry_seq (entry_p_retain false body) H0 None [(true, a1); (true, a2)] = ROk (H', b) /\
                store_of H' 0 = [5;6;7;8]%Z) /\
  (exists H' b, entry_seq (entry_p false body) H0 None [(true, a1); (true, a2)] = ROk (H', b) /\
                store_of H' 0 = [1;2;3;4]%Z /\ store_of H' 2 = [5;6;7;8]%Z).
Proof. cbv zeta. split; eexists; eexists; vm_compute; repeat split. Qed.
