(* C12/ModelS.v — scalars and dense vectors of magic scalars as a WORLD over the
   shared register file of C01/Model.v.

   A Go scalar object (pointer to Real64 or Real32) is a register id; a DenseReal64Vector
   (a slice of such pointers) is the list of the ids of its elements.  Two vectors alias iff
   they hold the same id (v[i:j], append(v, w...), ToDenseReal64Matrix share the
   element objects; Clone / CloneVector / AsDenseReal64Vector allocate new ones).
   Fresh objects get the ids  next, next+1, ...  in allocation order, which the
   harness reproduces with a pointer -> id table, so the correspondence compares
   the ALIASING STRUCTURE itself (which object sits in which slot), not only the
   values read.

   Clone of a scalar is the Go text   r := NewReal64(0.0); r.Set(a); return r
   on top of C01's [set_reg] (the faithful Set with its Order-before-Alloc quirk).
   Vector operations are the loops of vector_dense_real_template*.in: one scalar
   instruction of C01's table per element, in index order.

   Not modelled: slice capacity (append into spare capacity of a sub-slice — see
   corpus/C12 and the hunt), out-of-range slicing (the generator never does it).
   No proofs in this file. *)
From Coq Require Import ZArith List Bool Arith.
From ADV Require Import Base.Fl C01.Model.
Import ListNotations.

Section S.
Context {A : Type} (F : Fl A) (r32 : A -> A).

(* func (a *Real64) Clone() *Real64 { r := NewReal64(0.0); r.Set(a); return r }   into the fresh id c *)
Definition conv_reg (k : kind) (c a : nat) (s : @St A) : res (@St A) :=
  set_reg F r32 c (Rg a) (upd s c (null_reg F k)).
Definition clone_reg (c a : nat) (s : @St A) : res (@St A) := conv_reg (rk (s a)) c a s.

(* result[i] = v[i].Clone(), i ascending, fresh ids c, c+1, ...   (kf = rk: Clone keeps the type of each element)
   AsDenseRealXVector(v) for a v of ANOTHER type:  r := NullDenseRealXVector(n); r.AT(i).Set(v.ConstAt(i))
   (kf = fun _ => k: every new element has the target type) *)
Fixpoint conv_list (kf : Reg A -> kind) (ids : list nat) (c : nat) (s : @St A) : res (@St A) :=
  match ids with
  | [] => Ok s
  | a :: r => bind (conv_reg (kf (s a)) c a s) (conv_list kf r (S c))
  end.
Definition clone_list := conv_list (@rk A).

(* NewReal64(v) / NewReal32(float32(v)) into id c *)
Definition new_reg (k : kind) (v : A) : Reg A := mkReg k (rndk r32 k v) 0 0 [] [].
Fixpoint new_list (k : kind) (vals : list A) (c : nat) (s : @St A) : @St A :=
  match vals with
  | [] => s
  | v :: r => new_list k r (S c) (upd s c (new_reg k v))
  end.

Record SW := mkSW { w_st : @St A; w_next : nat; w_vecs : list (list nat) }.
Definition getv (w : SW) (t : nat) : list nat := nth t (w_vecs w) [].

Inductive sop :=
| SNew (k : kind) (vals : list A)        (* NewDenseReal64Vector(values) (a scalar is a vector of length 1) *)
| SClone (t : nat)                       (* v.Clone() = v.CloneVector() = AsDenseReal64Vector(v) *)
| SConv (k : kind) (t : nat)             (* AsDenseReal64Vector / AsDenseReal32Vector of a vector of the OTHER type: a copy by construction *)
| SSlice (t i j : nat)                   (* v.Slice(i,j) = v[i:j], i <= j <= len: SHARES the elements *)
| SAppend (t u : nat)                    (* v.AppendVector(w) = append(v, w...) with cap(v) = len(v): shares the elements of both *)
| SIns (i : instr A)                     (* one scalar operation of C01's table on element objects *)
| SVec2 (op : dop) (r a b : nat)         (* r.VaddV / VsubV / VmulV / VdivV (a, b) *)
| SVecS (op : dop) (r a : nat) (b : opd A)   (* r.VaddS / VsubS / VmulS / VdivS (a, s) *)
| SVSet (r a : nat)                      (* r.Set(a) *)
| SVReset (r : nat).                     (* r.Reset() *)

Fixpoint zip3 (r a b : list nat) : list (nat * nat * nat) :=
  match r, a, b with
  | x :: r', y :: a', z :: b' => (x, y, z) :: zip3 r' a' b'
  | _, _, _ => []
  end.

(* the scalar program a vector operation unfolds to; None = the dimension check panics *)
Definition compile (w : SW) (o : sop) : option (list (instr A)) :=
  match o with
  | SIns i => Some [i]
  | SVec2 op r a b =>
      let vr := getv w r in let va := getv w a in let vb := getv w b in
      if Nat.eqb (length va) (length vr) && Nat.eqb (length vb) (length vr)
      then Some (map (fun x => let '(c, p, q) := x in IDy op c (Rg p) (Rg q)) (zip3 vr va vb))
      else None
  | SVecS op r a b =>
      let vr := getv w r in let va := getv w a in
      if Nat.eqb (length va) (length vr)
      then Some (map (fun x => IDy op (fst x) (Rg (snd x)) b) (combine vr va))
      else None
  | SVSet r a =>
      let vr := getv w r in let va := getv w a in
      if Nat.eqb (length va) (length vr)
      then Some (map (fun x => ISet (fst x) (Rg (snd x))) (combine vr va))
      else None
  | SVReset r => Some (map (fun c => IReset c) (getv w r))
  | _ => Some []
  end.

Definition addv (w : SW) (s : @St A) (n : nat) (v : list nat) : SW :=
  mkSW s (w_next w + n) (w_vecs w ++ [v]).

(* one operation; Panic loses the state (as in C01: a panicking call ends the history) *)
Definition sstep (w : SW) (o : sop) : res SW :=
  match o with
  | SNew k vals =>
      let n := length vals in
      Ok (addv w (new_list k vals (w_next w) (w_st w)) n (seq (w_next w) n))
  | SClone t =>
      let v := getv w t in
      bind (clone_list v (w_next w) (w_st w)) (fun s => Ok (addv w s (length v) (seq (w_next w) (length v))))
  | SConv k t =>
      let v := getv w t in
      bind (conv_list (fun _ => k) v (w_next w) (w_st w)) (fun s => Ok (addv w s (length v) (seq (w_next w) (length v))))
  | SSlice t i j =>
      let v := getv w t in
      if (i <=? j) && (j <=? length v) then Ok (addv w (w_st w) 0 (firstn (j - i) (skipn i v))) else Panic EIndex
  | SAppend t u => Ok (addv w (w_st w) 0 (getv w t ++ getv w u))
  | _ =>
      match compile w o with
      | None => Panic EDiffN
      | Some p => bind (run F r32 p (w_st w)) (fun s => Ok (mkSW s (w_next w) (w_vecs w)))
      end
  end.

Fixpoint srun (w : SW) (ops : list sop) : res SW :=
  match ops with
  | [] => Ok w
  | o :: r => bind (sstep w o) (fun w' => srun w' r)
  end.

Definition init_st : @St A := fun _ => mkReg K64 (fofZ F 0) 0 0 [] [].
Definition sinit : SW := mkSW init_st 0 [].

(* the registers an operation may write: receiver(s) and the temporaries it names *)
Definition writes (i : instr A) : list nat :=
  match i with
  | IMon _ c _ | IDy _ c _ _ | IPow c _ _ | ISet c _ | IReset c | ISetF c _ | ISetVar c _ _ _
  | IMin c _ _ | IMax c _ _ | IAbs c _ | IABSc c _ | ILog1pExp c _ | ILogistic c _ | ISqrt c _
  | IVmean c _ | IMtrace c _ => [c]
  | ILogAdd c _ _ t | ILogSub c _ _ t | ISigmoid c _ t | IVdotV c _ _ t | IVnorm c _ t | IMnorm c _ t => [c; t]
  | ISmoothMax r _ _ t0 t1 => [r; t0; t1]
  | ILogSmoothMax r _ _ t0 t1 t2 => [r; t0; t1; t2]
  end.
(* the registers it reads as operands *)
Definition opd_regs (o : opd A) : list nat := match o with Rg k => [k] | Im _ => [] end.
Definition reads (i : instr A) : list nat :=
  match i with
  | IMon _ _ a | ISet _ a | IAbs _ a | IABSc _ a | ILog1pExp _ a | ILogistic _ a | ISqrt _ a | ISigmoid _ a _ => opd_regs a
  | IDy _ _ a b | IPow _ a b | IMin _ a b | IMax _ a b | ILogAdd _ a b _ | ILogSub _ a b _ => opd_regs a ++ opd_regs b
  | IReset _ | ISetF _ _ | ISetVar _ _ _ _ => []
  | ISmoothMax _ xs _ _ _ | ILogSmoothMax _ xs _ _ _ _ | IVmean _ xs | IVnorm _ xs _ | IMtrace _ xs | IMnorm _ xs _ =>
      flat_map opd_regs xs
  | IVdotV _ xs ys _ => flat_map opd_regs xs ++ flat_map opd_regs ys
  end.
(* footprint of a world operation: the registers it may write, given the world *)
Definition swrites (w : SW) (o : sop) : list nat :=
  match o with
  | SNew _ vals => seq (w_next w) (length vals)
  | SClone t | SConv _ t => seq (w_next w) (length (getv w t))
  | SSlice _ _ _ | SAppend _ _ => []
  | SIns i => writes i
  | SVec2 _ r _ _ | SVecS _ r _ _ | SVSet r _ | SVReset r => getv w r
  end.

(* what is observed of a scalar: Value, Order, N, the guarded getters over 0..N-1 *)
Definition obs_reg (r : Reg A) : A * nat * nat * list A * list A :=
  (rval r, rorder r, rn r, map (gd F r) (seq 0 (rn r)),
   map (fun p => gh F r (fst p) (snd p)) (allpairs (rn r))).
Definition obs_vec (s : @St A) (v : list nat) := map (fun k => obs_reg (s k)) v.

End S.
Arguments SW A : clear implicits.
Arguments sop A : clear implicits.
