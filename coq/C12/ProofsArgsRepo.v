(* C12/ProofsArgsRepo.v — the option-list check evaluated on the program regenerated from /repo (GenArgs.v). *)
From Coq Require Import List Arith Bool Lia.
From ADV Require Import C12.ModelArgs C12.ProofsArgs C12.GenArgs.
Import ListNotations.

Lemma repo_args_safe : args_safe repo_prog repo_roots = true.
Proof. vm_compute. reflexivity. Qed.

Lemma repo_entry_points_frame :
  forall r, In r repo_roots -> forall s h e' h', slen s <= scap s ->
  exec repo_prog r (param_env s) h e' h' ->
  (forall a i, a < next h -> cells h' a i = cells h a i) /\
  (sarr s < next h -> view h' s = view h s /\ window h' s = window h s).
Proof.
  intros r Hr s h e' h' Hws Hex. split.
  - exact (safe_program_frame repo_prog repo_roots repo_args_safe r Hr s h e' h' Hws Hex).
  - intros Ha. exact (safe_program_keeps_option_list repo_prog repo_roots repo_args_safe r Hr s h e' h' Hws Ha Hex).
Qed.

(* non-vacuity on the real program: matrixInverse.Run (function 18) with the PositiveDefinite path — a fresh list is
   built, one option is copied into it, mInversePositiveDefinite (20) appends IN PLACE to that list and forwards it
   to gaussJordan.Run (10); the caller's slice has spare capacity and stays as it was *)
Definition hx : heap := mkHp (fun a i => if Nat.eqb a 0 then (if Nat.eqb i 0 then 11 else 99) else 0) 1.
Definition sx : slice := mkSl 0 0 1 3.

Lemma repo_matrixInverse_runs :
  nth 18 repo_prog [] = [SFresh 1; SRange 0; SAppend 1 1; SCallSpread 20 1; SCallSpread 21 1; SCallSpread 19 1] /\
  In 18 repo_roots /\
  exists e' h', exec repo_prog 18 (param_env sx) hx e' h' /\ next h' = 2 /\ cells h' 1 0 = 5 /\ cells h' 1 1 = 6.
Proof.
  split; [vm_compute; reflexivity|split; [vm_compute; tauto|]].
  eexists. eexists. split; [|split; [|split]].
  - eapply ex_local; [left; reflexivity|apply (ls_fresh 1 (param_env sx) hx (fun _ => 0) 0 2)|].
    eapply ex_local; [right; right; left; reflexivity| |].
    { apply (ls_append_inplace 1 1 _ _ [5]). vm_compute. lia. }
    eapply ex_call_spread; [right; right; right; left; reflexivity| |apply ex_done].
    eapply ex_local; [right; right; left; reflexivity| |].
    { apply (ls_append_inplace 0 0 _ _ [6]). vm_compute. lia. }
    eapply ex_call_spread; [right; right; right; left; reflexivity|apply ex_done|apply ex_done].
  - vm_compute. reflexivity.
  - vm_compute. reflexivity.
  - vm_compute. reflexivity.
Qed.
