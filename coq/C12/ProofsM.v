(* C12/ProofsM.v — dense matrix world: every operation writes only the storage of
   its receiver; histories; Clone is fresh and observes like its source; Slice /
   ConstSlice / T are reference views (both directions); the entry-point wrapper. *)
From Coq Require Import ZArith List Bool Lia.
From ADV Require Import C10.Gen C10.Model C10.Spec C10.ProofsViews C12.ModelM.
Import ListNotations.
Open Scope Z_scope.

(* [only l H H']: nothing but storage l differs, nothing is allocated or freed *)
Definition only (l : nat) (H H' : heap) : Prop :=
  (forall l', l' <> l -> store_of H' l' = store_of H l') /\ length H' = length H.
Lemma only_refl l H : only l H H.
Proof. split; auto. Qed.
Lemma only_trans l A B C : only l A B -> only l B C -> only l A C.
Proof. intros [a1 a2] [b1 b2]. split; [intros l' Hl; rewrite b1, a1; auto | lia]. Qed.
Lemma only_set_store l H s : only l H (set_store H l s).
Proof.
  split.
  - intros l' Hl. apply store_set_other. auto.
  - unfold set_store. apply upd_length.
Qed.

Lemma foldR_only {X} l (f : heap -> X -> R heap) :
  (forall H x H', f H x = ROk H' -> only l H H') ->
  forall xs H H', foldR f xs H = ROk H' -> only l H H'.
Proof.
  intros Hf. induction xs as [|x xs IH]; intros H H' E; simpl in E.
  - injection E as <-. apply only_refl.
  - destruct (f H x) as [H1| |] eqn:E1; simpl in E; try discriminate.
    eapply only_trans; [apply (Hf _ _ _ E1) | apply (IH _ _ E)].
Qed.

Section D.
Variable real : bool.

Lemma mSET_only H m i j v H' : mSET real H m i j v = ROk H' -> only (d_values m) H H'.
Proof.
  unfold mSET. destruct (idx real m i j) as [k| |]; simpl; try discriminate.
  destruct (put (store_of H (d_values m)) k v) as [s| |]; simpl; try discriminate.
  intros E. injection E as <-. apply only_set_store.
Qed.
Lemma mReset_only H m H' : mReset real H m = ROk H' -> only (d_values m) H H'.
Proof. unfold mReset. apply foldR_only. intros H0 p H1. apply mSET_only. Qed.
Lemma mSetIdentity_only H m H' : mSetIdentity real H m = ROk H' -> only (d_values m) H H'.
Proof. unfold mSetIdentity. apply foldR_only. intros H0 p H1. apply mSET_only. Qed.
Lemma mSet_only H a b H' : mSet real H a b = ROk H' -> only (d_values a) H H'.
Proof.
  unfold mSet. destruct (negb (dims_eq real a b)); [discriminate|].
  apply foldR_only. intros H0 p H1.
  destruct (idx real a (fst p) (snd p)) as [k| |]; simpl; try discriminate.
  destruct (mAT real H0 b (fst p) (snd p)) as [v| |]; simpl; try discriminate.
  apply mSET_only.
Qed.
Lemma mEw_only f H r a b H' : mEw real f H r a b = ROk H' -> only (d_values r) H H'.
Proof.
  unfold mEw. destruct (negb _); [discriminate|].
  apply foldR_only. intros H0 p H1.
  destruct (idx real r (fst p) (snd p)) as [k| |]; simpl; try discriminate.
  destruct (mAT real H0 a (fst p) (snd p)) as [x| |]; simpl; try discriminate.
  destruct (mAT real H0 b (fst p) (snd p)) as [y| |]; simpl; try discriminate.
  apply mSET_only.
Qed.
Lemma mMdotM_only H r a b H' : mMdotM real H r a b = ROk H' -> only (d_values r) H H'.
Proof.
  unfold mMdotM. destruct (k_dims real r) as [n m]. destruct (k_dims real a) as [n1 m1]. destruct (k_dims real b) as [n2 m2].
  destruct (negb _); [discriminate|].
  destruct (storage_location H r) as [lr| |]; simpl; try discriminate.
  destruct (storage_location H b) as [lb| |]; simpl; try discriminate.
  destruct (Nat.eqb lr lb).
  - apply foldR_only. intros H0 j H1.
    destruct (mapR _ _) as [t3| |]; simpl; try discriminate.
    apply foldR_only. intros H2 it H3. apply mSET_only.
  - apply foldR_only. intros H0 i H1.
    destruct (mapR _ _) as [t3| |]; simpl; try discriminate.
    apply foldR_only. intros H2 it H3. apply mSET_only.
Qed.
Lemma mSwap_only H m i1 j1 i2 j2 H' : mSwap real H m i1 j1 i2 j2 = ROk H' -> only (d_values m) H H'.
Proof.
  unfold mSwap. destruct (idx real m i1 j1) as [k1| |]; simpl; try discriminate.
  destruct (idx real m i2 j2) as [k2| |]; simpl; try discriminate.
  destruct (get _ k1) as [v1| |]; simpl; try discriminate.
  destruct (get _ k2) as [v2| |]; simpl; try discriminate.
  destruct (put _ k1 v2) as [s1| |]; simpl; try discriminate.
  destruct (put s1 k2 v1) as [s2| |]; simpl; try discriminate.
  intros E. injection E as <-. apply only_set_store.
Qed.
Lemma mSwapRows_only H m i j H' e : mSwapRows real H m i j = ROk (H', e) -> only (d_values m) H H'.
Proof.
  unfold mSwapRows. destruct (k_dims real m) as [n k]. destruct (negb (n =? k)).
  - intros E. injection E as <- _. apply only_refl.
  - destruct (foldR _ _ H) as [H1| |] eqn:E1; simpl; try discriminate. intros E. injection E as <- _.
    revert E1. apply foldR_only. intros H0 c H2. apply mSwap_only.
Qed.
Lemma mSwapCols_only H m i j H' e : mSwapCols real H m i j = ROk (H', e) -> only (d_values m) H H'.
Proof.
  unfold mSwapCols. destruct (k_dims real m) as [n k]. destruct (negb (n =? k)).
  - intros E. injection E as <- _. apply only_refl.
  - destruct (foldR _ _ H) as [H1| |] eqn:E1; simpl; try discriminate. intros E. injection E as <- _.
    revert E1. apply foldR_only. intros H0 c H2. apply mSwap_only.
Qed.

(* ---- one operation of the world ---- *)
Lemma getm_app (w : MW) l t : (t < length (m_mats w))%nat -> nth t (m_mats w ++ l) (new_mat 0 0 0) = getm w t.
Proof. intros L. unfold getm. apply app_nth1. exact L. Qed.

(* existing storages other than the receiver's keep their content; existing handles keep their header *)
Lemma mstep_frame (w w' : MW) o : mstep real w o = ROk w' ->
  (forall l, (l < length (m_heap w))%nat -> mwrites w o <> Some l -> store_of (m_heap w') l = store_of (m_heap w) l) /\
  (length (m_heap w) <= length (m_heap w'))%nat /\
  (exists ms, m_mats w' = m_mats w ++ ms).
Proof.
  intros E.
  assert (G : forall l H', only l (m_heap w) H' -> mwrites w o = Some l -> w' = seth w H' ->
     (forall l0, (l0 < length (m_heap w))%nat -> mwrites w o <> Some l0 -> store_of (m_heap w') l0 = store_of (m_heap w) l0) /\
     (length (m_heap w) <= length (m_heap w'))%nat /\ (exists ms, m_mats w' = m_mats w ++ ms)).
  { intros l H' [O1 O2] Wr ->. simpl. split; [|split; [lia | exists []; rewrite app_nil_r; reflexivity]].
    intros l0 _ Hn. apply O1. intros ->. apply Hn. exact Wr. }
  destruct o; simpl in E.
  - destruct (_ || _); [discriminate|]. injection E as <-. simpl.
    split; [|split; [rewrite app_length; simpl; lia | eexists; reflexivity]].
    intros l L _. unfold store_of. apply app_nth1. exact L.
  - injection E as <-. simpl.
    split; [|split; [rewrite app_length; simpl; lia | eexists; reflexivity]].
    intros l L _. unfold store_of. apply app_nth1. exact L.
  - destruct (slice_ok real (getm w t) v); [|discriminate]. injection E as <-. simpl.
    split; [auto | split; [lia | eexists; reflexivity]].
  - destruct (mSET real _ _ _ _ _) as [H'| |] eqn:E1; simpl in E; try discriminate. injection E as <-.
    eapply G; [apply (mSET_only _ _ _ _ _ _ E1) | reflexivity | reflexivity].
  - destruct (mReset real _ _) as [H'| |] eqn:E1; simpl in E; try discriminate. injection E as <-.
    eapply G; [apply (mReset_only _ _ _ E1) | reflexivity | reflexivity].
  - destruct (mSetIdentity real _ _) as [H'| |] eqn:E1; simpl in E; try discriminate. injection E as <-.
    eapply G; [apply (mSetIdentity_only _ _ _ E1) | reflexivity | reflexivity].
  - destruct (mSet real _ _ _) as [H'| |] eqn:E1; simpl in E; try discriminate. injection E as <-.
    eapply G; [apply (mSet_only _ _ _ _ E1) | reflexivity | reflexivity].
  - destruct (mEw real _ _ _ _ _) as [H'| |] eqn:E1; simpl in E; try discriminate. injection E as <-.
    eapply G; [apply (mEw_only _ _ _ _ _ _ E1) | reflexivity | reflexivity].
  - destruct (mMdotM real _ _ _ _) as [H'| |] eqn:E1; simpl in E; try discriminate. injection E as <-.
    eapply G; [apply (mMdotM_only _ _ _ _ _ E1) | reflexivity | reflexivity].
  - destruct (mSwap real _ _ _ _ _ _) as [H'| |] eqn:E1; simpl in E; try discriminate. injection E as <-.
    eapply G; [apply (mSwap_only _ _ _ _ _ _ _ E1) | reflexivity | reflexivity].
  - destruct (mSwapRows real _ _ _ _) as [[H' e]| |] eqn:E1; simpl in E; try discriminate. injection E as <-.
    eapply G; [apply (mSwapRows_only _ _ _ _ _ _ E1) | reflexivity | reflexivity].
  - destruct (mSwapCols real _ _ _ _) as [[H' e]| |] eqn:E1; simpl in E; try discriminate. injection E as <-.
    eapply G; [apply (mSwapCols_only _ _ _ _ _ _ E1) | reflexivity | reflexivity].
Qed.

Lemma mstep_getm (w w' : MW) o t : mstep real w o = ROk w' -> (t < length (m_mats w))%nat -> getm w' t = getm w t.
Proof.
  intros E L. destruct (mstep_frame w w' o E) as (_ & _ & ms & EQ). unfold getm at 1. rewrite EQ. apply getm_app. exact L.
Qed.

(* ---- histories: every operation's receiver storage lies outside the protected set ---- *)
Fixpoint avoids (P : nat -> Prop) (w : MW) (ops : list mop) : Prop :=
  match ops with
  | [] => True
  | o :: r => (forall l, mwrites w o = Some l -> ~ P l) /\
              match mstep real w o with ROk w' => avoids P w' r | _ => True end
  end.
Lemma mrun_frame P ops : forall w w', avoids P w ops -> mrun real w ops = ROk w' ->
  forall l, (l < length (m_heap w))%nat -> P l -> store_of (m_heap w') l = store_of (m_heap w) l.
Proof.
  induction ops as [|o r IH]; intros w w' Av E l L Pl; simpl in *.
  - injection E as <-. reflexivity.
  - destruct Av as [A1 A2]. destruct (mstep real w o) as [w1| |] eqn:S1; simpl in E; try discriminate.
    destruct (mstep_frame w w1 o S1) as (F1 & F2 & _).
    rewrite (IH w1 w' A2 E l) by (try lia; exact Pl).
    apply F1; [exact L|]. intros X. exact (A1 l X Pl).
Qed.

(* what a matrix observes depends on its header and on ITS storage only *)
Lemma read_all_store H H' (m : mat) : store_of H' (d_values m) = store_of H (d_values m) -> read_all real H' m = read_all real H m.
Proof.
  intros E. unfold read_all. generalize (mpos real m). induction l as [|p l IH]; simpl; [reflexivity|].
  unfold mAT at 1 3. rewrite E. rewrite IH. reflexivity.
Qed.
Lemma obs_store H H' (m : mat) : store_of H' (d_values m) = store_of H (d_values m) -> obs_mat real H' m = obs_mat real H m.
Proof. intros E. unfold obs_mat. rewrite (read_all_store H H' m E). reflexivity. Qed.

(* ---- Clone ---- *)
Lemma clone_world (w : MW) t : wf_in (m_heap w) (getm w t) ->
  exists w', mstep real w (MClone t) = ROk w' /\
    let c := getm w' (length (m_mats w)) in
    d_values c = length (m_heap w) /\                                     (* fresh storage ... *)
    (forall u, (u < length (m_mats w))%nat -> (d_values (getm w u) < length (m_heap w))%nat -> d_values c <> d_values (getm w u)) /\
    (forall l, (l < length (m_heap w))%nat -> store_of (m_heap w') l = store_of (m_heap w) l) /\   (* nothing written *)
    hdr_list c = hdr_list (getm w t) /\                                  (* same dimensions and view shape *)
    read_all real (m_heap w') c = read_all real (m_heap w) (getm w t) /\ (* same elements *)
    wf_in (m_heap w') c.
Proof.
  intros W. unfold mstep. pose proof (clone_fresh real (m_heap w) (getm w t) W) as CF.
  destruct (mClone (m_heap w) (getm w t)) as [H' c] eqn:EC. destruct CF as (C1 & C2 & C3 & C4 & C5).
  exists (addm w H' c). split; [reflexivity|]. cbv zeta.
  assert (G : getm (addm w H' c) (length (m_mats w)) = c).
  { unfold getm, addm. simpl. rewrite app_nth2, Nat.sub_diag by lia. reflexivity. }
  rewrite G. change (m_heap (addm w H' c)) with H'. split; [exact C1|]. split; [intros u _ Lu; lia|]. split; [exact C4|]. split.
  - unfold mClone in EC. destruct (alloc _ _) as [H1 l1]. injection EC as <- <-. reflexivity.
  - split; [|exact C3]. unfold read_all.
    assert (D : mpos real c = mpos real (getm w t)).
    { unfold mClone in EC. destruct (alloc _ _) as [H1 l1]. injection EC as <- <-. unfold mpos, k_dims. destruct real; reflexivity. }
    rewrite D. generalize (mpos real (getm w t)). induction l as [|p l IH]; simpl; [reflexivity|].
    rewrite C5, IH. reflexivity.
Qed.

(* ---- reference views: same storage, so a write through either is seen through the other ---- *)
Lemma view_world (w : MW) t v : slice_ok real (getm w t) v = true ->
  exists w', mstep real w (MView t v) = ROk w' /\
    m_heap w' = m_heap w /\
    d_values (getm w' (length (m_mats w))) = d_values (getm w t) /\
    getm w' (length (m_mats w)) = apply1 real (getm w t) v.
Proof.
  intros G. unfold mstep. rewrite G. eexists. split; [reflexivity|]. split; [reflexivity|].
  assert (X : getm (addm w (m_heap w) (apply1 real (getm w t) v)) (length (m_mats w)) = apply1 real (getm w t) v).
  { unfold getm, addm. simpl. rewrite app_nth2, Nat.sub_diag by lia. reflexivity. }
  rewrite X. split; [apply apply1_values | reflexivity].
Qed.

(* ---- entry points ---- *)
(* the algorithm proper writes existing storage only at the location of the work matrix it is handed *)
Definition body_frames (body : heap -> mat -> R heap) : Prop :=
  forall H m H', body H m = ROk H' ->
    (forall l, (l < length H)%nat -> l <> d_values m -> store_of H' l = store_of H l) /\ (length H <= length H')%nat.

Lemma entry_no_insitu body H a H' r : body_frames body -> wf_in H a ->
  entry real body H a None = ROk (H', r) ->
  (forall l, (l < length H)%nat -> store_of H' l = store_of H l) /\ d_values r = length H.
Proof.
  intros BF W. unfold entry. pose proof (clone_fresh real H a W) as CF.
  destruct (mClone H a) as [H1 c] eqn:EC. destruct CF as (C1 & C2 & C3 & C4 & C5).
  destruct (body H1 c) as [H2| |] eqn:EB; simpl; try discriminate. intros E. injection E as <- <-.
  destruct (BF _ _ _ EB) as [B1 B2]. split; [|exact C1].
  intros l L. destruct C3 as [C3 _]. rewrite B1; [apply C4; exact L | | lia].
  unfold mClone in EC. destruct (alloc H _) as [Hx lx] eqn:EA. injection EC as <- <-.
  pose proof (alloc_spec H (store_of H (d_values a))) as AS. rewrite EA in AS. destruct AS as (_ & _ & _ & AL). lia.
Qed.

Lemma entry_insitu body H a b H' r : body_frames body ->
  entry real body H a (Some b) = ROk (H', r) ->
  r = b /\ forall l, (l < length H)%nat -> l <> d_values b -> store_of H' l = store_of H l.
Proof.
  intros BF. unfold entry. destruct (mSet real H b a) as [H1| |] eqn:ES; simpl; try discriminate.
  destruct (body H1 b) as [H2| |] eqn:EB; simpl; try discriminate. intros E. injection E as <- <-.
  split; [reflexivity|]. intros l L Hn. destruct (mSet_only _ _ _ _ ES) as [S1 S2]. destruct (BF _ _ _ EB) as [B1 _].
  rewrite B1 by (try lia; exact Hn). apply S1. exact Hn.
Qed.

(* any program of world operations whose receivers are the work matrix (or views of it / fresh objects) is such a body *)
Definition prog_body (ops : mat -> list mop) (H : heap) (m : mat) : R heap :=
  w <- mrun real (mkMW H [m]) (ops m) ;; ROk (m_heap w).

End D.
