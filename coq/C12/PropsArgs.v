(* C12/PropsArgs.v — property C12, round 6: the caller's option list is an input too.
   Statement-only; the proofs are in ProofsArgs.v / ProofsArgsRepo.v.

   Model (ModelArgs.v): Go's slice semantics (heap of arrays, headers (array, offset, len, cap), append writes behind
   len when there is room and reallocates otherwise, reslicing keeps the array, `f(x, v...)` passes v's header,
   `f(x, e1..en)` a new array); a function is the list of things its body does with []interface{} variables, an
   execution is ANY sequence of them with calls nested to any depth.  GenArgs.repo_prog is regenerated from
   /repo/algorithm by go2coq_c12 on every run. *)
From Coq Require Import List Arith Bool.
From ADV Require Import C12.ModelArgs C12.ProofsArgs C12.GenArgs C12.ProofsArgsRepo.
Import ListNotations.

(* 1. A program accepted by the static check, entered at an analysed entry point with ANY slice header on ANY heap:
      no execution writes a cell of an array that existed at entry (the caller's option array, every other slice he
      holds), whatever capacity the caller left behind len. *)
Theorem accepted_program_writes_no_existing_array :
  forall P roots, args_safe P roots = true ->
  forall r, In r roots -> forall s h e' h', slen s <= scap s ->
  exec P r (param_env s) h e' h' ->
  forall a i, a < next h -> cells h' a i = cells h a i.
Proof. exact safe_program_frame. Qed.

(* 2. What the caller observes: his len elements and the whole capacity window read as before — a second call with
      the same slice runs with the same options. *)
Theorem accepted_program_keeps_callers_option_list :
  forall P roots, args_safe P roots = true ->
  forall r, In r roots -> forall s h e' h', slen s <= scap s -> sarr s < next h ->
  exec P r (param_env s) h e' h' ->
  view h' s = view h s /\ window h' s = window h s.
Proof. exact safe_program_keeps_option_list. Qed.

(* 3. The entry points of /repo/algorithm as regenerated from the source (27 exported Run* functions, 9 helpers). *)
Theorem repo_entry_points_keep_callers_option_list :
  forall r, In r repo_roots -> forall s h e' h', slen s <= scap s ->
  exec repo_prog r (param_env s) h e' h' ->
  (forall a i, a < next h -> cells h' a i = cells h a i) /\
  (sarr s < next h -> view h' s = view h s /\ window h' s = window h s).
Proof. exact repo_entry_points_frame. Qed.

Example repo_entry_points_nonvacuous :
  nth 18 repo_prog [] = [SFresh 1; SRange 0; SAppend 1 1; SCallSpread 20 1; SCallSpread 21 1; SCallSpread 19 1] /\
  In 18 repo_roots /\
  exists e' h', exec repo_prog 18 (param_env sx) hx e' h' /\ next h' = 2 /\ cells h' 1 0 = 5 /\ cells h' 1 1 = 6.
Proof. exact repo_matrixInverse_runs. Qed.

(* 4. The check is not vacuous and the two idioms it rejects are real violations:
      (a) args = append(args, o) writes the capacity window of the caller's slice; *)
Theorem append_in_place_changes_callers_window_refuted :
  args_safe prog_append [0] = false /\
  exists e' h', exec prog_append 0 (param_env s0) h0 e' h' /\ window h0 s0 = [11; 99] /\ window h' s0 = [11; 42].
Proof. exact (conj append_in_place_rejected append_in_place_writes_callers_window). Qed.

(*    (b) out := args[:0]; out = append(out, a) overwrites the caller's own elements: his next call with the same
          slice runs with other options. *)
Theorem filter_in_place_changes_callers_options_refuted :
  args_safe prog_filter [0] = false /\
  exists e' h', exec prog_filter 0 (param_env s1) h1 e' h' /\ view h1 s1 = [11; 22] /\ view h' s1 = [22; 22].
Proof. exact (conj filter_in_place_rejected filter_in_place_changes_callers_options). Qed.

(* 5. Copy first, then do the same: accepted, and the execution (allocation, append with room, forward, callee
      appends in place to the copy) leaves the caller's window alone. *)
Example copy_then_forward_is_accepted_and_runs :
  args_safe prog_copy [0] = true /\
  exists e' h', exec prog_copy 0 (param_env s0) h0 e' h' /\ next h' = 2 /\ window h' s0 = window h0 s0
                /\ cells h' 1 0 = 7 /\ cells h' 1 1 = 8.
Proof. exact (conj copy_then_forward_accepted copy_then_forward_runs). Qed.

(* ------------------------------------------------------------------------------------------------------------------
   Stores into the caller's InSitu struct (ModelIS.v): the frame condition F2 of Props.insitu histories ("a call stores
   no reference to a pre-existing object into the struct") for the assignments  inSitu.<field> = <expr>  AS CODED. *)
From ADV Require Import C12.ModelIS C12.ProofsIS C12.GenInSitu C12.ProofsISRepo.

(* 6. A store table whose right-hand sides are all new objects, nil / numbers, or things the struct references already:
      after ANY sequence of those stores the struct references only what it referenced at entry or objects allocated
      since — never an input of this or an earlier call. *)
Theorem accepted_stores_retain_no_callers_object :
  forall T, stores_ok T = true ->
  forall s s', iexec T s s' -> (forall x, referenced s x -> x < inext s) ->
  forall x, referenced s' x -> referenced s x \/ inext s <= x.
Proof. exact accepted_stores_retain_nothing. Qed.

(* 7. The 100 stores of /repo/algorithm into a struct that may be the caller's, regenerated from the source. *)
Theorem repo_insitu_stores_retain_no_callers_object :
  forall s s', iexec repo_insitu_stores s s' -> (forall x, referenced s x -> x < inext s) ->
  forall x, referenced s' x -> referenced s x \/ inext s <= x.
Proof. exact repo_stores_retain_nothing. Qed.

Example repo_insitu_stores_nonvacuous :
  length repo_insitu_stores >= 90 /\
  existsb (fun st => match snd st with RFresh => true | _ => false end) repo_insitu_stores = true /\
  existsb (fun st => match snd st with RField => true | _ => false end) repo_insitu_stores = true.
Proof. exact repo_stores_nonvacuous. Qed.

(* 8. The regression `inSitu.A = a` is rejected and is a violation of F2 (the struct references the caller's object). *)
Theorem retained_parameter_store_refuted :
  stores_ok retain_table = false /\
  exists s', iexec retain_table is0 s' /\ referenced s' 7 /\ ~ referenced is0 7 /\ 7 < inext is0.
Proof. exact (conj retained_parameter_rejected retained_parameter_breaks_f2). Qed.

Example clone_or_set_stores_accepted_and_run :
  stores_ok clone_table = true /\
  exists s', iexec clone_table is0 s' /\ refs s' 0 = [10] /\ refs s' 1 = [10] /\ inext s' = 11.
Proof. exact clone_table_accepted_and_runs. Qed.
