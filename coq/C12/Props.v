(* C12 — copies are independent and read-only inputs are left unchanged.
   Statements only (proofs: ProofsS / ProofsClone / ProofsSW scalars and dense vectors of magic scalars over
   C01's register file; ProofsM dense matrices over C10's storage heap and the entry-point wrapper; ProofsV
   sparse vectors over C11's cell heap).  Everything is universally quantified: every carrier (reals,
   binary64, ...), every register file / heap, every operation of the models' tables, every history. *)
From Coq Require Import ZArith List Bool Arith Lia Sorted.
From ADV Require Import Base.Fl C01.Model C10.Gen C10.Model C10.Spec C10.ProofsViews
  C11.Model C11.Spec C11.Dense C11.ProofsShare
  C12.Spec C12.ModelS C12.ModelM C12.ModelH C12.ProofsSWExample C12.ProofsS C12.ProofsClone C12.ProofsSW C12.ProofsM C12.ProofsV C12.ProofsH.
Import ListNotations.
Open Scope nat_scope.

(* ====================================================================== scalars, dense vectors of scalars *)
Section Scalars.
Context {A : Type} (F : Fl A) (r32 : A -> A).

(* (2)+(3) FRAME / READ-ONLY OPERANDS, one statement over the WHOLE instruction table of C01 (24 instruction
   forms: the 8 chain-rule combinators behind 20 monadic and 5 dyadic operations, Pow, Set, Reset, SetFloat64,
   SetVariable, Min, Max, Abs/ABS, LogAdd, LogSub, Log1pExp, Sigmoid, Logistic, Sqrt, SmoothMax, LogSmoothMax,
   Vmean, VdotV, Vnorm, Mtrace, Mnorm): a call that returns changes NO register except its receiver and the
   temporaries it names — whole registers (value, order, N, derivative and Hessian storage), not only what
   they observe.  In particular every operand that is not the receiver is left exactly as it was. *)
Theorem scalar_op_frame : forall (i : instr A) (s s' : @C01.Model.St A),
  exec F r32 i s = Ok s' -> forall q, ~ In q (writes i) -> s' q = s q.
Proof. intros i s s' E. exact (frames_exec F r32 i s s' E). Qed.
Theorem scalar_op_readonly_operands : forall (i : instr A) (s s' : @C01.Model.St A) a,
  exec F r32 i s = Ok s' -> In a (reads i) -> ~ In a (writes i) -> s' a = s a.
Proof. intros i s s' a E _ N. exact (frames_exec F r32 i s s' E a N). Qed.
(* ... for every straight-line history of scalar operations *)
Theorem scalar_history_frame : forall (p : list (instr A)) (s s' : @C01.Model.St A),
  C01.Model.run F r32 p s = Ok s' -> forall q, ~ In q (pwrites p) -> s' q = s q.
Proof. intros p s s' E. exact (frames_run F r32 p s s' E). Qed.

(* (1) CLONE of a scalar (r := NewReal(0.0); r.Set(a)) into a fresh object c: never panics, changes nothing but c,
   and c observes like a: value, order, N and all guarded derivative / Hessian getters (the storage rounding of
   Real32 is the identity on what a Real32 holds; [rnd_fixes] is trivially true for Real64) *)
Theorem scalar_clone_fresh : forall c a (s : @C01.Model.St A), a <> c ->
  exists s', clone_reg F r32 c a s = Ok s' /\
    (forall q, q <> c -> s' q = s q) /\
    (rnd_fixes F r32 (rk (s a)) (s a) -> obs_reg F (s' c) = obs_reg F (s a)).
Proof.
  intros c a s Hac. destruct (clone_reg_eq F r32 c a s Hac c) as (s' & E & Qc). exists s'. split; [exact E|]. split.
  - intros q Hq. destruct (clone_reg_eq F r32 c a s Hac q) as (s2 & E2 & Q). rewrite E in E2. injection E2 as <-.
    rewrite Q, upd_q. destruct (Nat.eqb q c) eqn:Eq; [apply Nat.eqb_eq in Eq; contradiction | reflexivity].
  - intros Fx. rewrite Qc, upd_q, Nat.eqb_refl. apply copy_of_obs_eq. exact Fx.
Qed.
Theorem real64_rounding_is_identity : forall (ra : Reg A), rnd_fixes F r32 K64 ra.
Proof. exact (rnd_fixes_64 F r32). Qed.

(* world of vectors: the invariant "every element object lies below the allocation pointer" holds in every
   reachable world *)
Theorem world_invariant_all_histories : forall ops (w : SW A), srun F r32 (sinit F) ops = Ok w -> wfw w.
Proof. intros ops w E. exact (srun_wfw F r32 ops (sinit F) w (wfw_init F) E). Qed.

(* (1) CLONE / CloneVector / AsDenseRealVector of a vector (o = SClone t), and the As-conversion to the other
   Real type (o = SConv k t): never panics; the copy consists of NEW objects only (disjoint from the source and
   from every existing vector), no existing object is written, and the copy observes like the source *)
Theorem vector_clone_fresh : forall (w : SW A) o t kf, copy_op o = Some (t, kf) -> wfw w ->
  exists w', sstep F r32 w o = Ok w' /\
    let u := length (w_vecs w) in
    disjoint (ModelS.getv w' u) (ModelS.getv w t) /\
    (forall t', disjoint (ModelS.getv w' u) (ModelS.getv w t')) /\
    (forall q, q < w_next w -> w_st w' q = w_st w q) /\
    ((forall a, In a (ModelS.getv w t) -> rnd_fixes F r32 (kf (w_st w a)) (w_st w a)) ->
       obs_vec F (w_st w') (ModelS.getv w' u) = obs_vec F (w_st w) (ModelS.getv w t)).
Proof.
  intros w o t kf CO W. destruct (clone_vec_fresh F r32 w o t kf CO W) as (w' & E & U & D1 & D2 & Oth & Cp).
  exists w'. split; [exact E|]. cbv zeta. split; [exact D1|]. split.
  - intros t' a Ia Ib. exact (D2 a Ia t' a Ib eq_refl).
  - split; [exact Oth|]. intros Fx. exact (clone_vec_obs F r32 w w' o t kf CO W E Fx).
Qed.

(* (2) FRAME of every world operation (New, Clone, As-conversion, Slice, Append, every scalar instruction on an
   element, VaddV/VsubV/VmulV/VdivV, V*S, Set, Reset): it writes only the elements of its receiver / the new objects *)
Theorem world_op_frame : forall (w w' : SW A) o, sstep F r32 w o = Ok w' ->
  forall q, ~ In q (swrites w o) -> w_st w' q = w_st w q.
Proof. intros w w' o E. exact (sstep_frame F r32 w w' o E). Qed.
(* (1)+(2) INDEPENDENCE UNDER ANY HISTORY: after ANY sequence of operations none of which has an object of the
   protected set P among its receivers' elements, every object of P is exactly as before.  With P = the footprint
   of one copy and operations addressed at the other copy (disjoint by vector_clone_fresh and kept disjoint because
   handles never change their elements, world_handles_stable) this is "mutation of either is never visible through
   the other", in both directions. *)
Theorem world_history_frame : forall (P : nat -> Prop) ops (w w' : SW A),
  ProofsSW.avoids F r32 P w ops -> srun F r32 w ops = Ok w' -> forall q, P q -> w_st w' q = w_st w q.
Proof. exact (srun_frame F r32). Qed.
Theorem world_handles_stable : forall (w w' : SW A) o, sstep F r32 w o = Ok w' ->
  w_next w <= w_next w' /\ forall t, t < length (w_vecs w) -> ModelS.getv w' t = ModelS.getv w t.
Proof. intros w w' o E. destruct (sstep_vecs F r32 w w' o E) as (N & _ & G). split; assumption. Qed.

(* Reference views are NOT copies: Slice(i,j) and AppendVector hand out the SAME element objects (so a write through
   the view IS a write to the parent, and conversely — the footprints coincide on those slots) *)
Theorem vector_slice_aliases : forall (w w' : SW A) t i j, sstep F r32 w (SSlice t i j) = Ok w' ->
  w_st w' = w_st w /\ forall p, p < j - i -> nth p (ModelS.getv w' (length (w_vecs w))) 0 = nth (i + p) (ModelS.getv w t) 0.
Proof. exact (slice_aliases F r32). Qed.
Theorem vector_append_aliases : forall (w w' : SW A) t u, sstep F r32 w (SAppend t u) = Ok w' ->
  w_st w' = w_st w /\ ModelS.getv w' (length (w_vecs w)) = ModelS.getv w t ++ ModelS.getv w u.
Proof. exact (append_aliases F r32). Qed.
End Scalars.

(* non-trivial instance: clone a vector holding a variable with gradient and Hessian, then overwrite the copy *)
Example clone_then_mutate_nontrivial :
  let F := ProofsSWExample.FQ in
  match srun F (fun x => x) (sinit F)
          [SNew K64 [3%Z; 4%Z]; SIns (ISetVar 0 1 2 2); SClone 0; SIns (IDy OMul 2 (Rg 2) (Rg 3)); SVReset 1] with
  | Ok w => ModelS.getv w 1 = [2; 3] /\ rval (w_st w 0) = 3%Z /\ rderiv (w_st w 0) = [0%Z; 1%Z] /\
            rval (w_st w 2) = 0%Z /\ rorder (w_st w 0) = 2
  | Panic _ => False
  end.
Proof. vm_compute. repeat split. Qed.

(* ====================================================================== dense matrices *)
(* (2) FRAME: SetAt, Reset, SetIdentity, Set, MaddM/MsubM/MmulM, MdotM (both branches of its aliasing test), Swap,
   SwapRows, SwapColumns write only the storage of their receiver; New / Clone allocate; views write nothing *)
Theorem matrix_op_frame : forall real (w w' : MW) o, mstep real w o = ROk w' ->
  (forall l, (l < length (m_heap w))%nat -> mwrites w o <> Some l -> store_of (m_heap w') l = store_of (m_heap w) l) /\
  (exists ms, m_mats w' = m_mats w ++ ms).
Proof. intros real w w' o E. destruct (mstep_frame real w w' o E) as (A & _ & B). split; assumption. Qed.
Theorem matrix_history_frame : forall real (P : nat -> Prop) ops w w',
  ProofsM.avoids real P w ops -> mrun real w ops = ROk w' ->
  forall l, (l < length (m_heap w))%nat -> P l -> store_of (m_heap w') l = store_of (m_heap w) l.
Proof. exact mrun_frame. Qed.
(* what a matrix observes (dimensions, view shape, every element) depends on ITS storage only *)
Theorem matrix_obs_depends_on_own_storage : forall real H H' (m : mat),
  store_of H' (d_values m) = store_of H (d_values m) -> obs_mat real H' m = obs_mat real H m.
Proof. exact obs_store. Qed.
(* (1) CLONE (also of a view: the whole parent storage is copied, the view header kept): fresh storage, nothing
   existing written, same dimensions / view shape / elements *)
Theorem matrix_clone_fresh : forall real (w : MW) t, wf_in (m_heap w) (getm w t) ->
  exists w', mstep real w (MClone t) = ROk w' /\
    let c := getm w' (length (m_mats w)) in
    d_values c = length (m_heap w) /\
    (forall l, (l < length (m_heap w))%nat -> store_of (m_heap w') l = store_of (m_heap w) l) /\
    hdr_list c = hdr_list (getm w t) /\
    read_all real (m_heap w') c = read_all real (m_heap w) (getm w t).
Proof.
  intros real w t W. destruct (clone_world real w t W) as (w' & E & C1 & _ & C3 & C4 & C5 & _).
  exists w'. split; [exact E|]. cbv zeta. auto.
Qed.
(* hence: ANY history whose receivers avoid the source's storage leaves everything the source observes unchanged
   (and symmetrically with the copy's storage protected) *)
Theorem matrix_copy_independent_all_histories : forall real (w w1 w2 : MW) t ops,
  wf_in (m_heap w) (getm w t) -> mstep real w (MClone t) = ROk w1 ->
  ProofsM.avoids real (fun l => l = d_values (getm w t)) w1 ops -> mrun real w1 ops = ROk w2 ->
  obs_mat real (m_heap w2) (getm w t) = obs_mat real (m_heap w) (getm w t).
Proof.
  intros real w w1 w2 t ops W E1 Av E2. destruct W as [L Wf0].
  destruct (mstep_frame real w w1 (MClone t) E1) as (F1 & Le & _).
  apply obs_store. rewrite (mrun_frame real _ ops w1 w2 Av E2 (d_values (getm w t))) by (try lia; reflexivity).
  apply F1; [exact L | simpl; discriminate].
Qed.
(* Reference views ARE aliases: Slice / ConstSlice / T share the storage location; a write through a view is the
   write to the denoted element of the base and to nothing else (C10.view_write_through, restated) *)
Theorem matrix_view_shares_storage : forall real (w : MW) t v, slice_ok real (getm w t) v = true ->
  exists w', mstep real w (MView t v) = ROk w' /\ m_heap w' = m_heap w /\
    d_values (getm w' (length (m_mats w))) = d_values (getm w t).
Proof. intros real w t v G. destruct (view_world real w t v G) as (w' & E & H & D & _). eauto. Qed.
Theorem matrix_view_write_through : forall real H l (m : mat) i j v H',
  wf_in H m -> guards l (d_rows m, d_cols m) ->
  mSET real H (apply_views real m l) i j v = ROk H' ->
  let p := coord l (i, j) in
  mAT real H' m (fst p) (snd p) = ROk v /\
  (forall loc, loc <> d_values m -> store_of H' loc = store_of H loc).
Proof.
  intros real H l m i j v H' W G E. destruct (ProofsViews.view_write_through real H l m i j v H' W G E) as (_ & A & _ & B).
  split; assumption.
Qed.

(* (4) ENTRY POINTS with the InSitu idiom: for ANY algorithm body that writes existing storage only through the work
   matrix it is handed — without InSitu nothing the caller owns is written (the result lives in fresh storage);
   with a caller-supplied buffer b exactly the storage of b may change *)
Theorem entry_without_insitu_writes_nothing : forall real body H a H' r, body_frames body -> wf_in H a ->
  entry real body H a None = ROk (H', r) ->
  (forall l, (l < length H)%nat -> store_of H' l = store_of H l) /\ d_values r = length H.
Proof. exact entry_no_insitu. Qed.
Theorem entry_with_insitu_writes_only_the_buffer : forall real body H a b H' r, body_frames body ->
  entry real body H a (Some b) = ROk (H', r) ->
  r = b /\ forall l, (l < length H)%nat -> l <> d_values b -> store_of H' l = store_of H l.
Proof. exact entry_insitu. Qed.
Example body_frames_satisfiable : forall real, body_frames (fun H m => mSetIdentity real H m).
Proof.
  intros real H m H' E. destruct (mSetIdentity_only real H m H' E) as [O1 O2]. split; [|lia].
  intros l _ Hn. apply O1. exact Hn.
Qed.

(* ====================================================================== sparse vectors (C11's heap model) *)
Theorem sparse_clone_is_fresh : forall h v, Inv v -> Wf h v ->
  (forall l, In l (cells_of (snd (clone h v))) -> (length h <= l)%nat) /\
  (exists e, fst (clone h v) = h ++ e) /\
  abs (fst (clone h v)) (snd (clone h v)) = abs h v /\
  idx (snd (clone h v)) = idx v /\ dim (snd (clone h v)) = dim v.
Proof. intros h v I W. destruct (sparse_clone_fresh h v I W) as (A & B & C & D & E & _). auto. Qed.
(* ANY valid history of the 25 sparse-vector operations that does not use the two sharing operations (Slice,
   AppendVector(sparse) — reference views by design, known finding C11-SLICEWT): no two vectors ever hold a common
   scalar, and the world reads exactly like the run on plain dense lists with COPY semantics — so a Clone is
   independent of its source under every later mutation of either side (C11.run_noshare, restated) *)
Theorem sparse_copies_independent_all_histories : forall ops,
  valid init ops -> Forall no_share ops ->
  absw (C11.Model.run init ops) = dense_run [] ops /\ Sep (C11.Model.run init ops).
Proof. intros ops V N. destruct (run_noshare ops V N) as (A & _ & S). split; assumption. Qed.
(* (3) the iterator exception, explicit: iterating a read-only sparse operand (ConstIterator with skip()) keeps
   everything it observes, but DOES change its representation *)
Theorem sparse_iteration_keeps_observation : forall h v, Inv v ->
  exists v1 s, iterate h v = Some (v1, s) /\ abs h v1 = abs h v /\ dim v1 = dim v.
Proof. intros h v I. destruct (iterate_keeps_obs h v I) as (v1 & s & A & B & C & _). eauto. Qed.
Theorem sparse_iteration_changes_representation :
  let h := [0; 5]%Z in let v := {| vals := [(1, 0%nat); (3, 1%nat)]%Z; idx := [1; 3]%Z; dim := 4%Z |} in
  Inv v /\ exists v1 s, iterate h v = Some (v1, s) /\ idx v1 = [3%Z] /\ vals v1 = [(3%Z, 1%nat)] /\ abs h v1 = abs h v.
Proof. exact iterate_changes_representation. Qed.

(* ====================================================================== HISTORIES with a persistent InSitu struct *)
(* Round 2.  The algorithm packages take a POINTER to the caller's InSitu struct and store what they allocate in it;
   callers (newton.go) reuse the struct for the next input.  What the struct references after call k is written by
   call k+1.  Abstract heap model (any content type V), the struct = the list of locations it references, a call =
   an ARBITRARY state transformer; between calls the caller creates inputs (HNew), creates buffers and puts them in
   the struct (HBuf), passes one of his own objects as buffer (HPass: opt-in to in-place work), or starts over with
   an empty struct (HFresh).  Frame conditions of one call ([body_ok]):
     F1  it writes only locations the struct referenced before the call, and what it allocates itself;
     F2  it stores NO reference to a pre-existing object into the struct: footprint(struct after) is contained in
         footprint(struct before) + new allocations — in particular disjoint from every input the caller did not pass
         as a buffer himself.
   (5) Under F1 + F2 for every call, ANY history leaves EVERY object the caller holds — the inputs of ALL earlier
   calls and every returned object that does not alias the struct — exactly as it was when he obtained it. *)
Theorem history_inputs_unchanged : forall (V : Type) (evs1 evs2 : list (hev V)) (sp : hst V * list nat),
  HInv sp -> evs_ok sp (evs1 ++ evs2) ->
  forall l, In l (snd (hrun sp evs1)) -> In l (snd (hrun sp (evs1 ++ evs2))) ->
  hs_heap (fst (hrun sp (evs1 ++ evs2))) l = hs_heap (fst (hrun sp evs1)) l.
Proof. intros V. exact (@history_frame V). Qed.
(* ... and after every history the struct references nothing the caller holds (what the harness observes through
   storage identity after every call) *)
Theorem history_struct_retains_nothing : forall (V : Type) (evs : list (hev V)) (sp : hst V * list nat),
  HInv sp -> evs_ok sp evs -> forall l, In l (snd (hrun sp evs)) -> ~ In l (hs_refs (fst (hrun sp evs))).
Proof. intros V. exact (@history_no_retained_reference V). Qed.
Theorem history_starts_anywhere : forall (V : Type) (h : nat -> V), HInv (mkHS h 0 [], []).
Proof. intros V. exact (@HInv_init V). Qed.
(* the hypotheses are satisfiable by the code of /repo (clone into a new location kept in the struct, then in-place
   work on it): two calls on one struct, both inputs kept, the struct references only the clone *)
Example history_clone_nontrivial :
  let evs := [HNew 1%Z; HCall (b_clone Z.succ) [0]; HNew 2%Z; HCall (b_clone Z.succ) [2]] in
  let sp := hrun (mkHS (fun _ => 0%Z) 0 [], []) evs in
  evs_ok (mkHS (fun _ => 0%Z) 0 [], []) evs /\ In 0 (snd sp) /\ In 2 (snd sp) /\
  hs_heap (fst sp) 0 = 1%Z /\ hs_heap (fst sp) 2 = 2%Z /\ hs_heap (fst sp) 1 = 3%Z /\ hs_refs (fst sp) = [1].
Proof. exact clone_history_example. Qed.
Theorem clone_wrapper_satisfies_frame : forall (V : Type) (f : V -> V) args (s : hst V),
  (forall l, In l (hs_refs s) -> l < hs_next s) -> body_ok (b_clone f) args s.
Proof. intros V. exact (@b_clone_ok V). Qed.
(* F2 is NECESSARY (the seeded regression `inSitu.H = a`): a call that writes nothing at all but retains its
   argument in the struct violates F2 and only F2, and the NEXT call (which writes only struct buffers) destroys the
   first call's input: location 0 held 1 after call 1 and holds 9 after call 2 *)
Theorem retained_reference_breaks_history_refuted :
  let evs := [HNew 1%Z; HCall b_retain [0]; HNew 2%Z; HCall (b_scribble 9%Z) [1]] in
  let sp := hrun (mkHS (fun _ => 0%Z) 0 [], []) evs in
  In 0 (snd sp) /\ hs_heap (fst sp) 0 = 9%Z /\
  hs_heap (fst (hrun (mkHS (fun _ => 0%Z) 0 [], []) [HNew 1%Z; HCall b_retain [0]])) 0 = 1%Z /\
  ~ body_ok b_retain [0] (fst (hrun (mkHS (fun _ => 0%Z) 0 [], []) [HNew 1%Z])).
Proof. exact retained_reference_refuted. Qed.

(* (5') the concrete wrapper over C10's storage heap with the buffer kept in the caller's struct across calls
   (qrAlgorithm.Run / svd.Run / hessenbergReduction.Run ...: clone when the struct is empty, else Set when asked to
   initialise, then ANY body that writes only its work matrix): ANY number of calls with ANY inputs and flags leaves
   every storage that existed at the start unchanged, except the buffer the caller supplied himself *)
Theorem entry_history_writes_only_the_callers_buffer : forall real body, body_frames body -> forall calls H buf H' buf',
  entry_seq (entry_p real body) H buf calls = ROk (H', buf') ->
  forall l, (l < length H)%nat -> (forall b, buf = Some b -> l <> d_values b) -> store_of H' l = store_of H l.
Proof. exact entry_seq_frame. Qed.
(* the seeded regression on the concrete heap: first call with a body that leaves its matrix alone (the symmetric path:
   the tridiagonalisation works on its own copy), second call InitializeH = true: storage 0 = the FIRST input is
   overwritten with the second input; the code of /repo keeps it *)
Theorem entry_retain_overwrites_first_input_refuted :
  let H0 : C10.Model.heap := [[1;2;3;4]; [5;6;7;8]]%Z in
  let a1 := new_mat 0 2 2 in let a2 := new_mat 1 2 2 in
  let body := fun (H : C10.Model.heap) (_ : mat) => ROk H in
  (exists H' b, entry_seq (entry_p_retain false body) H0 None [(true, a1); (true, a2)] = ROk (H', b) /\
                store_of H' 0 = [5;6;7;8]%Z) /\
  (exists H' b, entry_seq (entry_p false body) H0 None [(true, a1); (true, a2)] = ROk (H', b) /\
                store_of H' 0 = [1;2;3;4]%Z /\ store_of H' 2 = [5;6;7;8]%Z).
Proof. exact entry_retain_refuted. Qed.

(* ====================================================================== round 3: slice identities, jets *)
From Coq Require Import Floats.
From ADV Require Import C12.ModelId C12.ProofsId C12.ModelJ C12.ProofsJ C12.ProofsRefuted3 C12.Corr.
Section Round3.
Context {A : Type} (F : Fl A) (r32 : A -> A).

(* (1) FOOTPRINTS WITH SLICE IDENTITIES (ModelId.v: every register maps to the ids of the backing arrays of its
   Derivative, of its Hessian row headers and of EVERY Hessian row; Alloc keeps them or takes fresh ones).
   EVERY instruction of C01's table (typed and generic spellings are the same instructions), from ANY state that
   satisfies the invariant: afterwards ids are below the counter, no slice occurs twice, the slice footprints of
   two different registers are disjoint; registers the instruction does not write keep their identities; every
   identity of a written register is its own old one or a fresh one — never another register's. *)
Theorem every_instruction_keeps_slices_apart : forall (i : instr A) s iw s' iw',
  iwf iw -> id_exec F r32 i (s, iw) = Ok (s', iw') -> id_step_ok (writes i) iw iw'.
Proof. exact (id_exec_ok F r32). Qed.
(* the same statement as scalar_clone_fresh, for every COPYING instruction (ISet = Set/SET, IMin, IMax = MIN/MAX,
   IAbs, IABSc = Abs/ABS, ILogAdd, ILogSub = LOGADD/LOGSUB with their operand-copying short cuts): the receiver's
   footprint — value cell (the register), derivative slice, Hessian header slice, each Hessian row — is disjoint
   from the footprint of every operand that is not the receiver or a named temporary, and that operand keeps its
   identities *)
Theorem copying_instruction_receiver_footprint_disjoint : forall (i : instr A) c ops s iw s' iw' a,
  copying i = Some (c, ops) -> iwf iw -> id_exec F r32 i (s, iw) = Ok (s', iw') -> In (Rg a) ops -> ~ In a (writes i) ->
  disjoint [c] [a] /\ disjoint (ir_ids (iw_ids iw' c)) (ir_ids (iw_ids iw' a)) /\ iw_ids iw' a = iw_ids iw a.
Proof. exact (copying_receiver_disjoint F r32). Qed.
(* ALL histories of the world of ModelS (New, Clone, As-conversions, Slice, Append, every scalar instruction,
   the vector loops) from the empty world: two live scalars never share a backing array *)
Theorem no_history_shares_a_slice : forall ops (w : SW A) iw,
  id_srun F r32 (sinit F) iinit ops = Ok (w, iw) -> iwf iw.
Proof. intros ops w iw E. eapply (iwf_id_srun F r32); [exact iwf_init | exact E]. Qed.

(* (2) nullScalar ON JETS and the iterator exception.  For every carrier with 0.0 == 0.0: the coded test (order
   guards, FULL square scan of the Hessian) answers true exactly for the jets all of whose slots are zero *)
Theorem nullScalar_is_null_on_jets : feq F (C01.Model.zero F) (C01.Model.zero F) = true -> forall r : Reg A, null_coded F r = null_jet F r.
Proof. exact (null_coded_is_null_jet F). Qed.
(* a complete iterator loop over a sparse vector of jets (skip() deletes what nullScalar reports) keeps the
   observation of every slot (value, d[k], h[k][l]) at every position; it drops ONLY entries whose whole jet is
   zero and keeps every entry with a non-zero slot *)
Theorem sparse_jet_iteration_keeps_observation : feq F (C01.Model.zero F) (C01.Model.zero F) = true -> forall v : jvec,
  NoDup (map fst v) -> forall i sl, oeq F (jobs F (jiterate (null_coded F) v) i sl) (jobs F v i sl).
Proof. exact (jiterate_keeps_observation F). Qed.
Theorem sparse_jet_iteration_drops_only_null_jets : feq F (C01.Model.zero F) (C01.Model.zero F) = true -> forall (v : jvec) e,
  In e v -> ~ In e (jiterate (null_coded F) v) -> null_jet F (snd e) = true.
Proof. exact (jiterate_drops_only_null F). Qed.
End Round3.

(* the two seeded regressions of round 3 as models *)
Theorem shared_hessian_rows_break_invariant_refuted :
  exists iw, sh_iw2 = Some iw /\ exists x, In x (ir_h (iw_ids iw 1)) /\ In x (ir_h (iw_ids iw 0)) /\ ~ iwf iw.
Proof. exact shared_rows_break_invariant_refuted. Qed.
Theorem nullScalar_without_diagonal_refuted :
  null_triangle FlP diag_jet = true /\ null_jet FlP diag_jet = false /\ null_coded FlP diag_jet = false /\
  jiterate (null_triangle FlP) [(3%Z, diag_jet)] = [] /\
  jobs FlP [(3%Z, diag_jet)] 3%Z (SH 0 0) = 2%float /\
  jobs FlP (jiterate (null_triangle FlP) [(3%Z, diag_jet)]) 3%Z (SH 0 0) = 0%float /\
  jiterate (null_coded FlP) [(3%Z, diag_jet)] = [(3%Z, diag_jet)].
Proof. exact null_triangle_drops_diagonal_jet_refuted. Qed.
(* the hypotheses are satisfiable: binary64 has 0.0 == 0.0, and the invariant holds at the start *)
Example round3_hypotheses_satisfiable : feq FlP (C01.Model.zero FlP) (C01.Model.zero FlP) = true /\ iwf iinit.
Proof. split; [vm_compute; reflexivity | exact iwf_init]. Qed.

(* ====================================================================================================
   Round 5.  (A) As-CONVERSIONS between representations, at the granularity of scalar cells (ModelConv.v);
             (B) CLONES OF ITERATORS, plain and joint (ModelIt.v).
   ==================================================================================================== *)
From ADV Require Import C12.ModelConv C12.ProofsConv C12.ModelIt C12.ProofsIt.
Section Round5A.
Context {V : Type} (vzero : V) (vnull : V -> bool).
(* "null" reads like an absent entry: exact carriers (on binary64 a dropped stored -0.0 reads 0.0; the executed tie
   compares up to the sign of zero) *)
Hypothesis null_reads_zero : forall x, vnull x = true -> x = vzero.

(* every As-conversion (same concrete type = Clone; to dense; to sparse through the source's iterator): every cell of
   the result is NEW — in particular none is a cell of the source —, no existing cell is written *)
Theorem conversion_allocates_only_new_cells : forall kind same iter (h h' : ModelConv.heap) src src' r,
  ModelConv.conv vzero vnull kind same iter h src = (h', src', r) ->
  (forall l, In l (ModelConv.locs r) -> h_next h <= l < h_next h') /\
  (forall l, l < h_next h -> h_val h' l = h_val h l) /\ h_next h <= h_next h' /\ NoDup (ModelConv.locs r).
Proof. exact (ProofsConv.conv_fresh vzero vnull). Qed.
(* the result reads like the source at every position *)
Theorem conversion_result_observes_like_source : forall kind same iter (h h' : ModelConv.heap) src src' r,
  NoDup (ModelConv.stored src) -> ModelConv.conv vzero vnull kind same iter h src = (h', src', r) ->
  ModelConv.obs vzero h' r = ModelConv.obs vzero h src.
Proof. exact (ProofsConv.conv_obs_list vzero vnull null_reads_zero). Qed.
(* the source keeps its observation; its own iterator may have dropped stored nulls (representation only) *)
Theorem conversion_leaves_source_observation : forall kind same iter (h h' : ModelConv.heap) src src' r,
  NoDup (ModelConv.stored src) -> ModelConv.conv vzero vnull kind same iter h src = (h', src', r) ->
  (forall l, In l (ModelConv.locs src') -> In l (ModelConv.locs src)) /\ NoDup (ModelConv.stored src') /\
  c_dim src' = c_dim src /\ forall p, ModelConv.rd vzero h src' p = ModelConv.rd vzero h src p.
Proof. exact (ProofsConv.conv_source vzero vnull null_reads_zero). Qed.
(* in a world of containers with pairwise disjoint cell sets: the conversion appends a container that reads like the
   source, the source reads as before, the two cell sets are disjoint, and the world stays well formed *)
Theorem conversion_is_a_deep_copy : forall h cs kind same iter s, ProofsConv.wf (h, cs) -> s < length cs ->
  let w' := ModelConv.cstep vzero vnull (h, cs) (OConv kind same iter s) in
  length (snd w') = S (length cs) /\ ProofsConv.wf w' /\
  ProofsConv.wobs vzero w' (length cs) = ProofsConv.wobs vzero (h, cs) s /\
  ProofsConv.wobs vzero w' s = ProofsConv.wobs vzero (h, cs) s /\
  ProofsConv.disj (ModelConv.locs (nth (length cs) (snd w') dummy)) (ModelConv.locs (nth s (snd w') dummy)).
Proof. exact (ProofsConv.conversion_in_world vzero vnull null_reads_zero). Qed.
(* ALL later histories — further conversions of anything, new containers, any number of mutations (arbitrary
   receiver-only transformers: element writes, Reset, in-place arithmetic, Set, iterator loops) addressed at OTHER
   containers: a container reads the same.  With the previous theorem: mutating the result (source) of a conversion,
   for ever, is invisible through the source (result). *)
Theorem mutation_after_conversion_invisible_through_the_other : forall ops w c,
  ProofsConv.wf w -> Forall ProofsConv.valid ops -> c < length (snd w) ->
  (forall o, In o ops -> ModelConv.target o <> Some c) ->
  ProofsConv.wf (ModelConv.crun vzero vnull w ops) /\ c < length (snd (ModelConv.crun vzero vnull w ops)) /\
  ProofsConv.wobs vzero (ModelConv.crun vzero vnull w ops) c = ProofsConv.wobs vzero w c.
Proof. exact (ProofsConv.history_independent vzero vnull null_reads_zero). Qed.
End Round5A.
(* the seeded regression class (a to-sparse "fast path" storing the source's cells) breaks it *)
Theorem conversion_sharing_cells_refuted :
  let w := ProofsConv.share_world in
  let w' := ModelConv.cstep 0 (Nat.eqb 0) w (OHavoc 1 [0; 1] [9; 9]) in
  ProofsConv.wobs 0 w 0 = [7; 5] /\ ProofsConv.wobs 0 w' 0 = [9; 9].
Proof. exact ProofsConv.shared_cells_break_independence_refuted. Qed.
Example round5A_hypotheses_satisfiable :
  (forall x, Nat.eqb 0 x = true -> x = 0) /\
  ProofsConv.wf (ModelConv.cstep 0 (Nat.eqb 0) (mkH 0 (fun _ => 0), []) (ONew 2 3 [0; 2] [4; 0; 5])).
Proof.
  split; [intros x H; apply Nat.eqb_eq in H; auto|].
  apply (ProofsConv.cstep_frame 0 (Nat.eqb 0)).
  - intros x H; apply Nat.eqb_eq in H; auto.
  - split; simpl; intros; lia.
  - simpl. repeat constructor; simpl; intuition discriminate.
Qed.

Section Round5B.
Context {V : Type} (vzero : V).
(* Next() of an iterator object (plain or joint) is Next() on its resolved state and writes only its OWN cursor objects *)
Theorem iterator_next_writes_own_cursors_only : forall (h h' : ModelIt.iheap) it it',
  ProofsIt.okit h it -> ModelIt.inext vzero h it = (h', it') ->
  ModelIt.view_of h' it' = ModelIt.vnext vzero (ModelIt.view_of h it) /\ ModelIt.ids it' = ModelIt.ids it /\
  length h' = length h /\ forall i, ~ In i (ModelIt.ids it) -> nth i h' [] = nth i h [].
Proof. exact (ProofsIt.inext_spec vzero). Qed.
(* Clone() (plain: one, joint: BOTH operand cursors) makes new cursor objects and starts in the source's state *)
Theorem iterator_clone_equals_source : forall h its k, ProofsIt.wf (h, its) -> k < length its ->
  let w' := ModelIt.istep vzero (h, its) (IClone k) in
  length (snd w') = S (length its) /\ ProofsIt.wview w' (length its) = ProofsIt.wview (h, its) k /\
  ProofsIt.wview w' k = ProofsIt.wview (h, its) k.
Proof. exact (ProofsIt.clone_equal vzero). Qed.
(* ALL histories (new iterators, Next on anything, clones, clones of clones): afterwards an iterator is in its old
   state advanced by exactly the Next() calls addressed at IT — advancing a copy never advances, skips or re-reads
   either operand cursor of another *)
Theorem iterator_clones_independent : forall ops w c, ProofsIt.wf w -> c < length (snd w) ->
  ProofsIt.wf (ModelIt.irun vzero w ops) /\ c < length (snd (ModelIt.irun vzero w ops)) /\
  ProofsIt.wview (ModelIt.irun vzero w ops) c = ProofsIt.iterate (ModelIt.vnext vzero) (ModelIt.nexts_of c ops) (ProofsIt.wview w c).
Proof. exact (ProofsIt.iterator_history_independent vzero). Qed.
End Round5B.
(* the seeded regression class (a joint clone keeping the source's it2 pointer) breaks it *)
Theorem joint_clone_sharing_second_cursor_refuted :
  let w1 := ModelIt.istep 0%Z ProofsIt.share_it_world (INext 1) in
  let w2 := ModelIt.istep 0%Z (ModelIt.istep 0%Z ProofsIt.share_it_world (INext 0)) (INext 1) in
  ModelIt.iobs 0%Z (Z.eqb 0) w1 1 = (true, 1%Z, Some 2%Z, 20%Z) /\ ModelIt.iobs 0%Z (Z.eqb 0) w2 1 = (true, 1%Z, Some 2%Z, 0%Z).
Proof. exact ProofsIt.shared_it2_breaks_independence_refuted. Qed.
Example round5B_hypotheses_satisfiable : ProofsIt.wf (([] : list (list (Z * Z))), ([] : list (@ModelIt.iter Z))).
Proof. split; simpl; intros; lia. Qed.
