(* C12/PropsCtor.v — property C12, round 7: constructors and entry points whose copy of the caller's object
   depends on a flag / on a rarely taken branch.  Statement-only; the proofs are in ProofsCtor.v.

   Model (ModelCtor.v): a body is a straight-line list of  d := s.Clone()  /  d := s  /  "rewrite x in place with ANY
   function of its old contents"  over container variables (variable 0 = the caller's object), a container is the list
   of cells it owns, the body depends on a boolean.  [ctor_safe] = no in-place write through a variable that may hold
   cells that existed at entry, and the returned variable holds only cells allocated by the body. *)
From Coq Require Import List Arith Bool.
From ADV Require Import C12.ModelCtor C12.ProofsCtor C12.GenCtor C12.ProofsCtorRepo.
Import ListNotations.

(* 1. An accepted body on ANY heap with ANY environment: no cell that existed at entry is written (the caller's
      object and everything else he holds read as before), the result consists of new cells only. *)
Theorem accepted_body_writes_no_existing_cell :
  forall (A : Type) (p : list (@stmt A)) (res : nat), ctor_safe p res = true ->
  forall (h : @heap A) (e : env),
    (forall l, l < h_next h -> h_val (fst (run p (h, e))) l = h_val h l) /\
    (forall l, In l (snd (run p (h, e)) res) -> h_next h <= l) /\
    h_next h <= h_next (fst (run p (h, e))).
Proof. exact @safe_body_frame_l. Qed.

(* 2. Deep copy for BOTH values of the flag, on observations, with the write-after clauses in both directions:
      c is any object that existed at entry (in particular the argument); a later change confined to old cells is
      invisible through the result, a later change confined to new cells is invisible through c. *)
Theorem flagged_constructor_is_a_deep_copy :
  forall (A : Type) (p : bool -> list (@stmt A)) (res : nat), ctor_safe_both p res = true ->
  forall (flag : bool) (h : @heap A) (e : env) (c : list loc),
    (forall l, In l c -> l < h_next h) ->
    let h' := fst (run (p flag) (h, e)) in
    let r := snd (run (p flag) (h, e)) res in
    rdc h' c = rdc h c /\
    (forall l, In l r -> ~ In l c) /\
    (forall h2 : @heap A, (forall l, h_next h <= l -> h_val h2 l = h_val h' l) -> rdc h2 r = rdc h' r) /\
    (forall h2 : @heap A, (forall l, l < h_next h -> h_val h2 l = h_val h' l) -> rdc h2 c = rdc h c).
Proof. exact @flagged_ctor_deep_copy_l. Qed.

(* 3. The bodies as coded are accepted whatever the log transform / normalisation / elimination compute:
      NewHmmProbabilityVector, NewHmmTransitionMatrix, NewChmmTransitionMatrix, NewHhmmTransitionMatrix (isLog) and
      bfgs.Run's use of the option-carried Hessian{B0} (flag: B0 is singular). *)
Theorem hmm_constructors_as_coded_accepted :
  forall (A : Type) (logf norm : list A -> list A), ctor_safe_both (hmm_ctor_coded logf norm) 1 = true.
Proof. exact @hmm_ctor_coded_safe. Qed.
Theorem bfgs_hessian_option_as_coded_accepted :
  forall (A : Type) (gauss : list A -> list A), ctor_safe_both (bfgs_b0_coded gauss) 1 = true.
Proof. exact @bfgs_b0_coded_safe. Qed.

Example hmm_constructor_nonvacuous :
  forall flag, rdc (fst (run (hmm_ctor_coded bump halve flag) (h0, e0))) [0; 1] = [2; 6]
            /\ snd (run (hmm_ctor_coded bump halve flag) (h0, e0)) 1 = [2; 3].
Proof. exact coded_keeps_arg_example. Qed.

(* 4. The regressions: accepted on the branch every test takes, rejected on the other one, and real violations there. *)
Theorem clone_on_one_branch_refuted :
  (forall (A : Type) (logf norm : list A -> list A),
     ctor_safe (hmm_ctor_onebranch logf norm false) 1 = true /\ ctor_safe (hmm_ctor_onebranch logf norm true) 1 = false) /\
  rdc (fst (run (hmm_ctor_onebranch bump halve false) (h0, e0))) [0; 1] = [2; 6] /\
  rdc (fst (run (hmm_ctor_onebranch bump halve true) (h0, e0))) [0; 1] = [1; 3] /\
  snd (run (hmm_ctor_onebranch bump halve true) (h0, e0)) 1 = [0; 1].
Proof. exact onebranch_refuted_full. Qed.

Theorem regularise_callers_matrix_on_fallback_refuted :
  (forall (A : Type) (gauss reg : list A -> list A),
     ctor_safe (bfgs_b0_regularise gauss reg false) 1 = true /\ ctor_safe (bfgs_b0_regularise gauss reg true) 1 = false) /\
  rdc (fst (run (bfgs_b0_regularise halve bump false) (h0, e0))) [0; 1] = [2; 6] /\
  rdc (fst (run (bfgs_b0_regularise halve bump true) (h0, e0))) [0; 1] = [3; 7].
Proof. exact regularise_refuted_full. Qed.

(* 5. The constructors of statistics/generic with a container parameter and an isLog flag, as REGENERATED from the Go
      source by go2coq_c12k on every run (GenCtor.repo_ctors: result variable, flag -> body; every in-place use of a
      tracked container is an arbitrary transformer g k): deep copies for both values of the flag. *)
Theorem repo_flagged_constructors_are_deep_copies :
  forall (A : Type) (g : nat -> list A -> list A) rp, In rp (repo_ctors g) ->
  forall (flag : bool) (h : @heap A) (e : env) (c : list loc),
    (forall l, In l c -> l < h_next h) ->
    let h' := fst (run (snd rp flag) (h, e)) in
    let r := snd (run (snd rp flag) (h, e)) (fst rp) in
    rdc h' c = rdc h c /\
    (forall l, In l r -> ~ In l c) /\
    (forall h2 : @heap A, (forall l, h_next h <= l -> h_val h2 l = h_val h' l) -> rdc h2 r = rdc h' r) /\
    (forall h2 : @heap A, (forall l, l < h_next h -> h_val h2 l = h_val h' l) -> rdc h2 c = rdc h c).
Proof. exact repo_ctors_deep_copy_l. Qed.

Example repo_flagged_constructors_nonvacuous :
  length (repo_ctors (fun (_ : nat) (xs : list nat) => halve xs)) = repo_ctor_count /\ 4 <= repo_ctor_count /\
  ctor_bad_from 0 (repo_ctors (fun (_ : nat) (xs : list nat) => halve xs)) = [].
Proof. exact repo_ctors_nonvacuous_l. Qed.
