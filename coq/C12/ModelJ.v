(* C12/ModelJ.v — sparse vectors of JETS (round 3, additive).

   C11's sparse model (and stream V) stores plain numbers, where "null" means value == 0.  For the Real element
   types an entry is a jet (value, gradient, Hessian: a register of C01) and the iterators' skip() asks
   nullScalar(), scalar_real_template.in:

       if a.Value != 0 { return false }
       if a.GetOrder() >= 1 { for i < N        { if a.GetDerivative(i) != 0.0 { return false } } }
       if a.GetOrder() >= 2 { for i < N, j < N { if a.GetHessian(i, j)  != 0.0 { return false } } }     -- FULL square
       return true

   and DELETES the entries for which it answers true from the vector being traversed — also when that vector is a
   const operand.  That is invisible exactly when such an entry reads like an absent one in every slot.

   A sparse vector of jets is the association list of its stored entries (position -> register); what is
   observed at position i is every slot of the jet (value, d[k], h[k][l] for all k, l), zero for an absent entry
   and beyond N.  No proofs in this file. *)
From Coq Require Import ZArith List Bool Arith.
From ADV Require Import Base.Fl C01.Model.
Import ListNotations.

Section J.
Context {A : Type} (F : Fl A).

Definition isz (x : A) : bool := feq F x (zero F).        (* Go:  !(x != 0.0)  *)

(* nullScalar() as coded *)
Definition null_coded (r : Reg A) : bool :=
  isz (rval r)
  && (if 1 <=? rorder r then forallb (fun i => isz (gd F r i)) (seq 0 (rn r)) else true)
  && (if 2 <=? rorder r then forallb (fun p => isz (gh F r (fst p) (snd p))) (allpairs (rn r)) else true).

(* the seeded regression: "the Hessian is symmetric, look at one triangle" with  for j := 0; j < i; j++  *)
Definition lpairs (n : nat) : list (nat * nat) := flat_map (fun i => map (pair i) (seq 0 i)) (seq 0 n).
Definition null_triangle (r : Reg A) : bool :=
  isz (rval r)
  && (if 1 <=? rorder r then forallb (fun i => isz (gd F r i)) (seq 0 (rn r)) else true)
  && (if 2 <=? rorder r then forallb (fun p => isz (gh F r (fst p) (snd p))) (lpairs (rn r)) else true).

(* null in the sense of the mathematical jet: EVERY slot the getters can return is zero *)
Definition null_jet (r : Reg A) : bool :=
  isz (rval r) && forallb (fun i => isz (gd F r i)) (seq 0 (rn r))
  && forallb (fun p => isz (gh F r (fst p) (snd p))) (allpairs (rn r)).

Definition jvec := list (Z * Reg A).
Definition jlook (v : jvec) (i : Z) : option (Reg A) :=
  match find (fun e => Z.eqb (fst e) i) v with Some e => Some (snd e) | None => None end.

(* the slots observed at position i *)
Inductive slot := SVal | SD (k : nat) | SH (k l : nat).
Definition reg_slot (r : Reg A) (sl : slot) : A :=
  match sl with
  | SVal => rval r
  | SD k => if k <? rn r then gd F r k else zero F
  | SH k l => if (k <? rn r) && (l <? rn r) then gh F r k l else zero F
  end.
Definition jobs (v : jvec) (i : Z) (sl : slot) : A :=
  match jlook v i with Some r => reg_slot r sl | None => zero F end.

(* a complete iterator loop with skip() governed by the null test [nul]: the stored entries afterwards *)
Definition jiterate (nul : Reg A -> bool) (v : jvec) : jvec := filter (fun e => negb (nul (snd e))) v.

End J.
