(* C12/ModelIS.v — what the entry points STORE INTO the caller's InSitu struct (round 6).

   ModelH / ProofsH prove: if every call (F1) writes only what the struct referenced before or new objects and (F2)
   stores no reference to a pre-existing object into the struct, then every history leaves every object the caller
   holds as it was.  F2 is a statement about the assignments  inSitu.<field> = <expr>  of the code.  Every such
   assignment of /repo/algorithm is REGENERATED from the source by go2coq_c12 (GenInSitu.v) with the class of its
   right-hand side:
     RFresh   a new object (Null*/New*/Clone*/As* call, composite literal)
     RNone    nil / a boolean / a number
     RField   something the struct already references (another field, a view of one, a local that holds one)
     RParam   a parameter of the function, an option value, or a view / alias of one: the CALLER's object
     ROther   anything the translator cannot classify.
   The model: the struct maps a field to the set of object ids it references; ids below the allocation counter at
   entry are the caller's (or the struct's own old buffers).  An execution is any sequence of the stores. *)
From Coq Require Import List Arith Bool.
Import ListNotations.

Inductive rhs := RFresh | RNone | RField | RParam | ROther.
Definition istore := (nat * rhs)%type.

Record istate := mkIS { refs : nat -> list nat; inext : nat }.
Definition set_field (s : istate) (f : nat) (l : list nat) (n : nat) : istate :=
  mkIS (fun g => if Nat.eqb g f then l else refs s g) n.
Definition referenced (s : istate) (x : nat) : Prop := exists g, In x (refs s g).

Inductive istep : istore -> istate -> istate -> Prop :=
| is_fresh f s : istep (f, RFresh) s (set_field s f [inext s] (S (inext s)))
| is_none f s : istep (f, RNone) s (set_field s f [] (inext s))
| is_field f s l : (forall x, In x l -> referenced s x) -> istep (f, RField) s (set_field s f l (inext s))
| is_param f s l : istep (f, RParam) s (set_field s f l (inext s))
| is_other f s l : istep (f, ROther) s (set_field s f l (inext s)).

Inductive iexec (T : list istore) : istate -> istate -> Prop :=
| ie_done s : iexec T s s
| ie_step st s s1 s2 : In st T -> istep st s s1 -> iexec T s1 s2 -> iexec T s s2.

Definition rhs_ok (r : rhs) : bool := match r with RFresh | RNone | RField => true | _ => false end.
Definition stores_ok (T : list istore) : bool := forallb (fun st => rhs_ok (snd st)) T.
Fixpoint bad_stores_from (i : nat) (T : list istore) : list nat :=
  match T with
  | [] => []
  | st :: r => (if rhs_ok (snd st) then [] else [i]) ++ bad_stores_from (S i) r
  end.
