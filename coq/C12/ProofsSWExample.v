(* an exact integer carrier for Examples: + - * are Z's, division is Z.div, every libm field is a dummy *)
From Coq Require Import ZArith QArith.
From ADV Require Import Base.Fl.
Definition i1 (x : Z) : Z := x.
Definition i2 (x y : Z) : Z := x.
Definition FQ : Fl Z :=
  mkFl Z Z.add Z.sub Z.mul Z.div Z.opp Z.ltb Z.leb Z.eqb
    (fun q => Qnum q) (fun z => z) 0%Z (fun s => s) (fun _ => false) (fun _ _ => false)
    Z.abs i1 i1 i1 i1
    i1 i1 i1 i1 i1 i1
    i1 i1 i1 i1 (fun _ => 1%Z)
    i2 (fun x _ => x) i1
    3%Z 2%Z
    i1 i1 i1 (fun x _ => x)
    i2 i2 i2
    i2 i2.
