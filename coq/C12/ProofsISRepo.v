(* C12/ProofsISRepo.v — the store check evaluated on the table regenerated from /repo (GenInSitu.v). *)
From Coq Require Import List Arith Bool Lia.
From ADV Require Import C12.ModelIS C12.ProofsIS C12.GenInSitu.
Import ListNotations.

Lemma repo_stores_ok : stores_ok repo_insitu_stores = true.
Proof. vm_compute. reflexivity. Qed.

Lemma repo_stores_retain_nothing :
  forall s s', iexec repo_insitu_stores s s' -> (forall x, referenced s x -> x < inext s) ->
  forall x, referenced s' x -> referenced s x \/ inext s <= x.
Proof. exact (accepted_stores_retain_nothing repo_insitu_stores repo_stores_ok). Qed.

Lemma repo_stores_nonvacuous :
  length repo_insitu_stores >= 90 /\
  existsb (fun st => match snd st with RFresh => true | _ => false end) repo_insitu_stores = true /\
  existsb (fun st => match snd st with RField => true | _ => false end) repo_insitu_stores = true.
Proof. vm_compute. repeat split; lia. Qed.
