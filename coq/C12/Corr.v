(* C12 correspondence.  Four streams, all evaluated by vm_compute:
   S  scalars / dense vectors of magic scalars (ModelS.v over C01's register file, binary64 bit-exact):
      the model state is threaded through a whole history; after every operation the harness reports
      the registers whose content CHANGED (or are new) and the handles whose element list changed; the
      check demands model = reported for those and model-unchanged for all others (so an unexpected
      write of the implementation is a mismatch), plus the aliasing structure (object ids per slot).
   M  dense matrices (ModelM.v over C10's storage heap, exact integers): same scheme on storages/headers.
   V  sparse vectors: C11's world model replayed on clone-then-mutate histories (per-step checksum of
      the observation of the whole world).
   E  algorithm entry points and distribution constructors: snapshots before/after of every caller
      object; every object not declared writable must be bit-identical. *)
From Coq Require Import ZArith QArith List Bool Floats Uint63.
From ADV Require Import Base.Fl Base.Num Base.Corr C01.Model C01.Corr C12.ModelS.
Import ListNotations.

(* ------------------------------------------------------------------ stream S *)
Definition FlP : Fl float := FlF [].        (* no libm call occurs in the operations of this stream *)

Record sobs := mkSO {
  so_op : sop float;
  so_kind : nat;                            (* 0 = returned, 1 = panicked *)
  so_regs : list (nat * Reg float);         (* registers that are new or whose content changed *)
  so_vecs : list (nat * list nat) }.        (* handles that are new or whose element list changed *)

Fixpoint alookup {X} (k : nat) (l : list (nat * X)) : option X :=
  match l with [] => None | (k', x) :: r => if Nat.eqb k k' then Some x else alookup k r end.

Definition check_regs (w w' : SW float) (o : sobs) : bool :=
  forallb (fun q => match alookup q (so_regs o) with
                    | Some r => reg_eqb (w_st w' q) r
                    | None => reg_eqb (w_st w' q) (w_st w q) && Nat.ltb q (w_next w)
                    end) (seq 0 (w_next w'))
  && forallb (fun qr => Nat.ltb (fst qr) (w_next w')) (so_regs o).
Definition check_vecs (w w' : SW float) (o : sobs) : bool :=
  forallb (fun t => match alookup t (so_vecs o) with
                    | Some ids => list_eqb Nat.eqb (getv w' t) ids
                    | None => Nat.ltb t (length (w_vecs w))
                    end) (seq 0 (length (w_vecs w')))
  && forallb (fun tv => Nat.ltb (fst tv) (length (w_vecs w'))) (so_vecs o).

Fixpoint scheck_from (w : SW float) (l : list sobs) : bool :=
  match l with
  | [] => true
  | o :: r =>
      match sstep FlP round32 w (so_op o) with
      | Panic _ => Nat.eqb (so_kind o) 1 && match r with [] => true | _ => false end
      | Ok w' => Nat.eqb (so_kind o) 0 && check_regs w w' o && check_vecs w w' o && scheck_from w' r
      end
  end.
Definition scase := list sobs.
Definition scheck (c : scase) : bool := scheck_from (sinit FlP) c.
Definition smism (cs : list scase) : list nat := mismatches scheck cs.
(* diagnosis: index of the first step that fails *)
Fixpoint sdiverge_from (n : nat) (w : SW float) (l : list sobs) : option nat :=
  match l with
  | [] => None
  | o :: r =>
      match sstep FlP round32 w (so_op o) with
      | Panic _ => if Nat.eqb (so_kind o) 1 then None else Some n
      | Ok w' => if Nat.eqb (so_kind o) 0 && check_regs w w' o && check_vecs w w' o then sdiverge_from (S n) w' r else Some n
      end
  end.
Definition sdiverge (c : scase) := sdiverge_from 0 (sinit FlP) c.

(* ------------------------------------------------------------------ stream E *)
Record ecase := mkE { e_id : nat; e_opt : nat; e_modelled : bool;
                      e_objs : list (bool * list float * list float) }.
Definition echeck (c : ecase) : bool :=
  forallb (fun o => let '(w, b, a) := o in w || list_eqb feqb b a) (e_objs c).
Definition emism (cs : list ecase) : list nat := mismatches echeck cs.
