(* C12/ProofsJ.v — nullScalar on jets and the iterator exception for sparse vectors of jets. *)
From Coq Require Import ZArith List Bool Arith Lia.
From ADV Require Import Base.Fl C01.Model C12.ModelJ.
Import ListNotations.

Section P.
Context {A : Type} (F : Fl A).
Hypothesis zero_is_zero : feq F (zero F) (zero F) = true.      (* 0.0 == 0.0 *)

Lemma forallb_all_true {X} (f : X -> bool) (l : list X) : (forall x, f x = true) -> forallb f l = true.
Proof. intros H. induction l; simpl; [reflexivity|]. rewrite H. exact IHl. Qed.

(* the coded test (order guards, full square scan) IS the mathematical one *)
Lemma null_coded_is_null_jet r : null_coded F r = null_jet F r.
Proof.
  unfold null_coded, null_jet. f_equal; [f_equal|].
  - destruct (1 <=? rorder r) eqn:O; [reflexivity|]. symmetry.
    apply forallb_all_true. intros i. unfold gd, isz. rewrite O. exact zero_is_zero.
  - destruct (2 <=? rorder r) eqn:O; [reflexivity|]. symmetry.
    apply forallb_all_true. intros p. unfold gh, isz. rewrite O. exact zero_is_zero.
Qed.

Lemma in_allpairs n k l : k < n -> l < n -> In (k, l) (allpairs n).
Proof.
  intros Hk Hl. unfold allpairs. apply in_flat_map. exists k. split; [apply in_seq; lia|].
  apply in_map. apply in_seq. lia.
Qed.

(* a null jet reads zero in every slot *)
Lemma null_jet_slots r sl : null_jet F r = true -> isz F (reg_slot F r sl) = true.
Proof.
  unfold null_jet. intros H. apply andb_true_iff in H as [H H3]. apply andb_true_iff in H as [H1 H2].
  destruct sl as [|k|k l]; simpl.
  - exact H1.
  - destruct (k <? rn r) eqn:K; [|exact zero_is_zero]. apply Nat.ltb_lt in K.
    rewrite forallb_forall in H2. apply H2. apply in_seq. lia.
  - destruct ((k <? rn r) && (l <? rn r)) eqn:K; [|exact zero_is_zero]. apply andb_true_iff in K as [K L].
    apply Nat.ltb_lt in K, L. rewrite forallb_forall in H3. apply (H3 (k, l)). apply in_allpairs; assumption.
Qed.

(* lookups in the surviving entries *)
Lemma jlook_filter (q : Reg A -> bool) (v : jvec) i : NoDup (map fst v) ->
  jlook (filter (fun e => q (snd e)) v) i =
  match jlook v i with Some r => if q r then Some r else None | None => None end.
Proof.
  unfold jlook. induction v as [|[k r] v IH]; intros ND; simpl; [reflexivity|].
  inversion ND as [|? ? NI ND']; subst.
  destruct (Z.eqb k i) eqn:E.
  - destruct (q r) eqn:Q; simpl; [rewrite E; simpl; rewrite Q; reflexivity|].
    apply Z.eqb_eq in E. subst k.
    assert (N : forall (l : list (Z * Reg A)), ~ In i (map fst l) -> find (fun e => Z.eqb (fst e) i) l = None).
    { induction l as [|[k' r'] l IHl]; simpl; intros Hn; [reflexivity|].
      destruct (Z.eqb k' i) eqn:E'; [apply Z.eqb_eq in E'; exfalso; apply Hn; left; exact E'|]. apply IHl. intros X. apply Hn. right. exact X. }
    rewrite N; [simpl; rewrite Q; reflexivity|]. intros X. apply NI. clear -X. induction v as [|[k' r'] v IHv]; simpl in *; [exact X|].
    destruct (q r'); simpl in X; [destruct X as [X|X]; [left; exact X | right; apply IHv; exact X] | right; apply IHv; exact X].
  - destruct (q r); simpl; [rewrite E|]; apply IH; exact ND'.
Qed.

(* two readings are observably equal: identical, or both compare equal to zero (a stored -0.0 against an absent 0.0) *)
Definition oeq (x y : A) : Prop := x = y \/ (isz F x = true /\ isz F y = true).

(* THE ITERATOR EXCEPTION FOR JETS: a complete iterator loop (skip() with the coded nullScalar) over a sparse vector
   of jets keeps the observation of EVERY slot at EVERY position ... *)
Lemma jiterate_keeps_observation (v : jvec) : NoDup (map fst v) ->
  forall i sl, oeq (jobs F (jiterate (null_coded F) v) i sl) (jobs F v i sl).
Proof.
  intros ND i sl. unfold jobs, jiterate. rewrite (jlook_filter (fun r => negb (null_coded F r))) by exact ND.
  destruct (jlook v i) as [r|]; [|left; reflexivity].
  destruct (null_coded F r) eqn:N; simpl; [|left; reflexivity].
  right. split; [exact zero_is_zero|]. apply null_jet_slots. rewrite <- null_coded_is_null_jet. exact N.
Qed.

(* ... because it drops only entries whose whole jet is zero, and keeps every other entry as it is *)
Lemma jiterate_drops_only_null (v : jvec) e : In e v -> ~ In e (jiterate (null_coded F) v) -> null_jet F (snd e) = true.
Proof.
  intros I NI. rewrite <- null_coded_is_null_jet. destruct (null_coded F (snd e)) eqn:N; [reflexivity|].
  exfalso. apply NI. apply filter_In. split; [exact I|]. rewrite N. reflexivity.
Qed.
Lemma jiterate_keeps_non_null (v : jvec) e : In e v -> null_jet F (snd e) = false -> In e (jiterate (null_coded F) v).
Proof.
  intros I N. apply filter_In. split; [exact I|]. rewrite null_coded_is_null_jet, N. reflexivity.
Qed.

End P.
