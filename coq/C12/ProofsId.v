(* C12/ProofsId.v — slice identities (ModelId.v): no instruction, no history ever makes two scalars share a
   backing array; a copying instruction leaves the receiver's footprint disjoint from every operand's. *)
From Coq Require Import ZArith List Bool Arith Lia.
From ADV Require Import Base.Fl C01.Model C12.Spec C12.ModelS C12.ModelId.
Import ListNotations.

(* the invariant: ids are below the allocation counter, no slice occurs twice inside one scalar, and the slice
   footprints of two different registers are disjoint *)
Definition iwf (iw : IW) : Prop :=
  (forall q x, In x (ir_ids (iw_ids iw q)) -> x < iw_next iw) /\
  (forall q, NoDup (ir_ids (iw_ids iw q))) /\
  (forall p q, p <> q -> disjoint (ir_ids (iw_ids iw p)) (ir_ids (iw_ids iw q))).

Lemma iwf_init : iwf iinit.
Proof.
  split; [|split]; cbn.
  - intros q x [].
  - intros q. constructor.
  - intros p q _ x [].
Qed.

Lemma NoDup_app_r {X} (l1 l2 : list X) : NoDup (l1 ++ l2) -> NoDup l2.
Proof. induction l1 as [|x l1 IH]; simpl; intros H; [exact H|]. inversion H; subst. apply IH; assumption. Qed.

(* Alloc: every identity afterwards is one the receiver had itself, or a fresh one *)
Lemma id_alloc_spec ir n0 o0 n o next :
  NoDup (ir_ids ir) -> (forall x, In x (ir_ids ir) -> x < next) ->
  let p := id_alloc ir n0 o0 n o next in
  next <= snd p /\ NoDup (ir_ids (fst p)) /\
  (forall x, In x (ir_ids (fst p)) -> (In x (ir_ids ir) \/ next <= x) /\ x < snd p).
Proof.
  intros ND LT. unfold id_alloc.
  destruct (Nat.eqb n0 n && Nat.eqb o0 o); cbn [fst snd].
  { split; [lia|]. split; [exact ND|]. intros x Hx. split; [left; exact Hx | apply LT; exact Hx]. }
  destruct (1 <=? o).
  - destruct (Nat.eqb n 0); cbn [fst snd].
    { split; [lia|]. split; [constructor|]. intros x []. }
    destruct (2 <=? o); cbn [fst snd].
    + assert (E : ir_ids (mkIR (Some next) (Some (S next)) (seq (S (S next)) n)) = seq next (2 + n)) by reflexivity.
      rewrite E. split; [lia|]. split; [apply seq_NoDup|]. intros x Hx. apply in_seq in Hx. split; [right|]; lia.
    + split; [lia|]. split; [repeat constructor; intros []|]. intros x [<-|[]]. split; [right|]; lia.
  - cbn [fst snd]. split; [lia|].
    assert (S : forall x, In x (ir_ids (mkIR None (ir_o ir) (ir_h ir))) -> In x (ir_ids ir)).
    { intros x Hx. unfold ir_ids in *. cbn [ir_d ir_o ir_h olist app] in Hx. apply in_or_app. right. exact Hx. }
    split.
    + unfold ir_ids in *. cbn [ir_d ir_o ir_h olist app]. apply (NoDup_app_r (olist (ir_d ir))). exact ND.
    + intros x Hx. split; [left; apply S; exact Hx | apply LT, S; exact Hx].
Qed.

Lemma iupd_eq f c r q : iupd f c r q = if Nat.eqb q c then r else f q.
Proof. reflexivity. Qed.

(* one register gets (kept-or-fresh) identities: the invariant survives, the counter only grows, nobody else moves *)
Lemma iwf_set iw c ir nx :
  iwf iw -> iw_next iw <= nx -> NoDup (ir_ids ir) ->
  (forall x, In x (ir_ids ir) -> (In x (ir_ids (iw_ids iw c)) \/ iw_next iw <= x) /\ x < nx) ->
  iwf (mkIW (iupd (iw_ids iw) c ir) nx).
Proof.
  intros (B & ND & DJ) LE NDr Hr. split; [|split]; cbn [iw_ids iw_next].
  - intros q x. rewrite iupd_eq. destruct (Nat.eqb q c); intros Hx; [apply Hr; exact Hx | specialize (B q x Hx); lia].
  - intros q. rewrite iupd_eq. destruct (Nat.eqb q c); [exact NDr | apply ND].
  - intros p q NE x. rewrite !iupd_eq.
    destruct (Nat.eqb p c) eqn:Ep, (Nat.eqb q c) eqn:Eq.
    + apply Nat.eqb_eq in Ep, Eq. congruence.
    + apply Nat.eqb_eq in Ep. subst p. intros Hx Hq. destruct (Hr x Hx) as [[K|Fr] _].
      * exact (DJ c q NE x K Hq).
      * specialize (B q x Hq). lia.
    + apply Nat.eqb_eq in Eq. subst q. intros Hp Hx. destruct (Hr x Hx) as [[K|Fr] _].
      * exact (DJ p c NE x Hp K).
      * specialize (B p x Hp). lia.
    + apply DJ; exact NE.
Qed.

Section P.
Context {A : Type} (F : Fl A) (r32 : A -> A).

Lemma iwf_id_upd (s s' : @St A) iw c : iwf iw ->
  iwf (id_upd s s' iw c) /\ iw_next iw <= iw_next (id_upd s s' iw c) /\
  (forall q, q <> c -> iw_ids (id_upd s s' iw c) q = iw_ids iw q) /\
  (forall x, In x (ir_ids (iw_ids (id_upd s s' iw c) c)) -> In x (ir_ids (iw_ids iw c)) \/ iw_next iw <= x).
Proof.
  intros W. pose proof W as (B & ND & _). unfold id_upd.
  destruct (id_alloc_spec (iw_ids iw c) (rn (s c)) (rorder (s c)) (rn (s' c)) (rorder (s' c)) (iw_next iw) (ND c) (B c))
    as (LE & NDp & Hp).
  split; [apply iwf_set; assumption|]. cbn [iw_next iw_ids]. split; [exact LE|]. split.
  - intros q NE. rewrite iupd_eq. apply Nat.eqb_neq in NE. rewrite NE. reflexivity.
  - intros x. rewrite iupd_eq, Nat.eqb_refl. intros Hx. apply Hp. exact Hx.
Qed.

(* what a step does to the identities: written registers keep their own or get fresh ones, all others stay *)
Definition id_step_ok (W : list nat) (iw iw' : IW) : Prop :=
  iwf iw' /\ iw_next iw <= iw_next iw' /\
  (forall q, ~ In q W -> iw_ids iw' q = iw_ids iw q) /\
  (forall q x, In x (ir_ids (iw_ids iw' q)) -> In x (ir_ids (iw_ids iw q)) \/ iw_next iw <= x).

Lemma id_step_ok_refl W iw : iwf iw -> id_step_ok W iw iw.
Proof. intros H. split; [exact H|]. split; [lia|]. split; [reflexivity|]. intros; left; assumption. Qed.

Lemma id_step_ok_trans W a b c : iwf a -> id_step_ok W a b -> id_step_ok W b c -> id_step_ok W a c.
Proof.
  intros Wa (Wb & L1 & K1 & F1) (Wc & L2 & K2 & F2). split; [exact Wc|]. split; [lia|]. split.
  - intros q N. rewrite K2, K1; auto.
  - intros q x Hx. destruct (F2 q x Hx) as [H|H]; [|right; lia]. destruct (F1 q x H) as [H'|H']; [left; exact H'|right; lia].
Qed.

Lemma id_step_ok_mono W W' a b : incl W W' -> id_step_ok W a b -> id_step_ok W' a b.
Proof. intros I (H1 & H2 & H3 & H4). split; [exact H1|]. split; [exact H2|]. split; [|exact H4]. intros q N. apply H3. intros X. apply N, I, X. Qed.

Lemma id_upd_ok (s s' : @St A) iw c W : iwf iw -> In c W -> id_step_ok W iw (id_upd s s' iw c).
Proof.
  intros Wf Hc. destruct (iwf_id_upd s s' iw c Wf) as (W' & LE & K & Fr).
  split; [exact W'|]. split; [exact LE|]. split.
  - intros q N. apply K. intros ->. exact (N Hc).
  - intros q x Hx. destruct (Nat.eq_dec q c) as [->|NE]; [apply Fr; exact Hx|]. rewrite K in Hx by exact NE. left; exact Hx.
Qed.

Lemma fold_id_upd_ok (s s' : @St A) W cs : incl cs W -> forall iw, iwf iw -> id_step_ok W iw (fold_left (id_upd s s') cs iw).
Proof.
  induction cs as [|c cs IH]; intros I iw Wf; simpl.
  - apply id_step_ok_refl; exact Wf.
  - assert (O1 : id_step_ok W iw (id_upd s s' iw c)) by (apply id_upd_ok; [exact Wf | apply I; left; reflexivity]).
    eapply id_step_ok_trans; [exact Wf | exact O1 |]. apply IH; [intros x Hx; apply I; right; exact Hx | apply O1].
Qed.

(* EVERY instruction of C01's table *)
Lemma id_exec_ok i s iw s' iw' : iwf iw -> id_exec F r32 i (s, iw) = Ok (s', iw') -> id_step_ok (writes i) iw iw'.
Proof.
  intros Wf E. unfold id_exec in E. cbn [fst snd] in E. destruct (exec F r32 i s) as [s1|e]; [|discriminate E].
  cbn in E. injection E as <- <-. apply fold_id_upd_ok; [|exact Wf]. intros x Hx. apply nodup_In in Hx. exact Hx.
Qed.

Lemma id_run_ok p : forall s iw s' iw', iwf iw -> id_run F r32 p (s, iw) = Ok (s', iw') -> id_step_ok (flat_map writes p) iw iw'.
Proof.
  induction p as [|i p IH]; intros s iw s' iw' Wf E; simpl in E.
  - injection E as <- <-. apply id_step_ok_refl; exact Wf.
  - destruct (id_exec F r32 i (s, iw)) as [[s1 iw1]|e] eqn:E1; [|discriminate E]. cbn in E.
    pose proof (id_exec_ok _ _ _ _ _ Wf E1) as O1.
    eapply id_step_ok_trans; [exact Wf | eapply id_step_ok_mono; [|exact O1] | eapply id_step_ok_mono; [|eapply IH; [apply O1 | exact E]]].
    + simpl. apply incl_appl, incl_refl.
    + simpl. apply incl_appr, incl_refl.
Qed.

(* the copying instructions: afterwards the receiver shares no slice with any OTHER register — in particular with
   none of the operands it may have been copied from (value cell: the register id itself, c <> a) *)
Lemma copying_writes_receiver (i : instr A) c ops : copying i = Some (c, ops) -> In c (writes i).
Proof. destruct i; simpl; intros C; try discriminate C; injection C as <- _; left; reflexivity. Qed.

Lemma copying_receiver_disjoint i c ops s iw s' iw' a :
  copying i = Some (c, ops) -> iwf iw -> id_exec F r32 i (s, iw) = Ok (s', iw') -> In (Rg a) ops -> ~ In a (writes i) ->
  disjoint (c :: nil) (a :: nil) /\ disjoint (ir_ids (iw_ids iw' c)) (ir_ids (iw_ids iw' a)) /\ iw_ids iw' a = iw_ids iw a.
Proof.
  intros C Wf E Ha NW. pose proof (id_exec_ok _ _ _ _ _ Wf E) as (W' & _ & K & _).
  assert (NE : a <> c) by (intros ->; apply NW; eapply copying_writes_receiver; exact C).
  split; [intros x [<-|[]] [X|[]]; congruence|]. split.
  - destruct W' as (_ & _ & DJ). apply DJ. congruence.
  - apply K. exact NW.
Qed.

(* ------------------------------------------------------------ the world of ModelS: every history *)
Lemma iwf_id_new_gen cs : forall f n, iwf (mkIW f n) -> iwf (mkIW (fold_left (fun f c => iupd f c ir_none) cs f) n).
Proof.
  induction cs as [|c cs IH]; intros f n W; simpl; [exact W|]. apply IH.
  apply (iwf_set (mkIW f n) c ir_none n W); cbn [iw_next]; [lia | constructor | intros x []].
Qed.
Lemma iwf_id_new iw cs : iwf iw -> iwf (id_new iw cs).
Proof. destruct iw as [f n]. intros W. unfold id_new. cbn [iw_ids iw_next]. apply iwf_id_new_gen. exact W. Qed.

Lemma iwf_id_conv_list kf ids : forall c s iw s' iw', iwf iw ->
  id_conv_list F r32 kf ids c (s, iw) = Ok (s', iw') -> iwf iw'.
Proof.
  induction ids as [|a ids IH]; intros c s iw s' iw' W E; simpl in E.
  - injection E as _ <-. exact W.
  - cbn [fst snd] in E. destruct (conv_reg F r32 (kf (s a)) c a s) as [s1|e]; [|discriminate E]. cbn in E.
    eapply IH; [|exact E]. apply iwf_id_upd. apply iwf_id_new. exact W.
Qed.

Lemma iwf_id_sstep w iw o w' iw' : iwf iw -> id_sstep F r32 w iw o = Ok (w', iw') -> iwf iw'.
Proof.
  intros W E.
  assert (G : forall p, bind (id_run F r32 p (w_st w, iw)) (fun si => Ok (mkSW (fst si) (w_next w) (w_vecs w), snd si)) = Ok (w', iw') -> iwf iw').
  { intros p E'. destruct (id_run F r32 p (w_st w, iw)) as [[s2 iw2]|e] eqn:E2; [|discriminate E']. cbn in E'. injection E' as _ <-.
    eapply id_run_ok; [exact W | exact E2]. }
  destruct o.
  - simpl in E. injection E as _ <-. apply iwf_id_new. exact W.
  - simpl in E. destruct (clone_list F r32 (getv w t) (w_next w) (w_st w)) as [s1|e]; [|discriminate E]. cbn in E.
    destruct (id_conv_list F r32 (@rk A) (getv w t) (w_next w) (w_st w, iw)) as [[s2 iw2]|e] eqn:E2; [|discriminate E].
    cbn in E. injection E as _ <-. eapply iwf_id_conv_list; [exact W | exact E2].
  - simpl in E. destruct (conv_list F r32 (fun _ => k) (getv w t) (w_next w) (w_st w)) as [s1|e]; [|discriminate E]. cbn in E.
    destruct (id_conv_list F r32 (fun _ => k) (getv w t) (w_next w) (w_st w, iw)) as [[s2 iw2]|e] eqn:E2; [|discriminate E].
    cbn in E. injection E as _ <-. eapply iwf_id_conv_list; [exact W | exact E2].
  - simpl in E. destruct ((i <=? j) && (j <=? length (getv w t))); cbn in E; [|discriminate E]. injection E as _ <-. exact W.
  - simpl in E. injection E as _ <-. exact W.
  - unfold id_sstep in E. destruct (compile w (SIns i)) as [p|]; [|discriminate E]. exact (G p E).
  - unfold id_sstep in E. destruct (compile w (SVec2 op r a b)) as [p|]; [|discriminate E]. exact (G p E).
  - unfold id_sstep in E. destruct (compile w (SVecS op r a b)) as [p|]; [|discriminate E]. exact (G p E).
  - unfold id_sstep in E. destruct (compile w (SVSet r a)) as [p|]; [|discriminate E]. exact (G p E).
  - unfold id_sstep in E. destruct (compile w (SVReset r)) as [p|]; [|discriminate E]. exact (G p E).
Qed.

Lemma iwf_id_srun ops : forall w iw w' iw', iwf iw -> id_srun F r32 w iw ops = Ok (w', iw') -> iwf iw'.
Proof.
  induction ops as [|o ops IH]; intros w iw w' iw' W E; simpl in E.
  - injection E as _ <-. exact W.
  - destruct (id_sstep F r32 w iw o) as [[w1 iw1]|e] eqn:E1; [|discriminate E]. cbn in E.
    eapply IH; [|exact E]. eapply iwf_id_sstep; [exact W | exact E1].
Qed.

End P.
