(* C12/ProofsS.v — frame lemmas for the scalar register file (C01/Model.v), for
   EVERY instruction of the table and every carrier: an instruction changes no
   register outside [writes i]. *)
From Coq Require Import ZArith List Bool Arith Lia.
From ADV Require Import Base.Fl C01.Model C12.ModelS.
Import ListNotations.

Section P.
Context {A : Type} (F : Fl A) (r32 : A -> A).
Notation St := (@St A).

Definition only (W : list nat) (s s' : St) : Prop := forall q, ~ In q W -> s' q = s q.
Lemma only_refl W s : only W s s.
Proof. intros q _. reflexivity. Qed.
Lemma only_trans W a b c : only W a b -> only W b c -> only W a c.
Proof. intros H1 H2 q Hq. rewrite (H2 q Hq). apply H1, Hq. Qed.
Lemma only_mono W W' a b : incl W W' -> only W a b -> only W' a b.
Proof. intros I H q Hq. apply H. intro X. apply Hq, I, X. Qed.
Lemma only_upd W s c r : In c W -> only W s (upd s c r).
Proof.
  intros I q Hq. unfold upd. destruct (Nat.eqb q c) eqn:E; [|reflexivity].
  apply Nat.eqb_eq in E. subst. contradiction.
Qed.
Lemma upd_eq (s : St) c r q : upd s c r q = if Nat.eqb q c then r else s q.
Proof. reflexivity. Qed.
Lemma only_upd2 W s c r r' : In c W -> only W s (upd (upd s c r) c r').
Proof. intros I. eapply only_trans; apply only_upd; exact I. Qed.
Lemma fold_only {X} W (g : St -> X -> St) l :
  (forall s x, only W s (g s x)) -> forall s, only W s (fold_left g l s).
Proof.
  intros H. induction l as [|x l IH]; intros s; simpl; [apply only_refl|].
  eapply only_trans; [apply H | apply IH].
Qed.

Definition frames (W : list nat) (f : St -> res St) : Prop := forall s s', f s = Ok s' -> only W s s'.
Lemma frames_mono W W' f : incl W W' -> frames W f -> frames W' f.
Proof. intros I H s s' E. eapply only_mono; [exact I | apply (H s s' E)]. Qed.
Lemma frames_bind W f g : frames W f -> frames W g -> frames W (fun s => bind (f s) g).
Proof.
  intros Hf Hg s s' E. destruct (f s) as [s1|e] eqn:E1; simpl in E; [|discriminate].
  eapply only_trans; [apply (Hf s s1 E1) | apply (Hg s1 s' E)].
Qed.

Lemma seqm_from W fs : Forall (frames W) fs ->
  forall (m : res St) s0 s', (forall s1, m = Ok s1 -> only W s0 s1) ->
  fold_left (fun m f => bind m f) fs m = Ok s' -> only W s0 s'.
Proof.
  induction 1 as [|f fs Hf _ IH]; intros m s0 s' Hm E; simpl in E.
  - apply Hm, E.
  - apply (IH (bind m f) s0 s'); [|exact E].
    intros s1 E1. destruct m as [s2|e]; simpl in E1; [|discriminate].
    eapply only_trans; [apply Hm; reflexivity | apply (Hf s2 s1 E1)].
Qed.
Lemma frames_seqm W fs : Forall (frames W) fs -> frames W (seqm fs).
Proof.
  intros H s s' E. unfold seqm in E. apply (seqm_from W fs H (Ok s) s s'); [|exact E].
  intros s1 E1. injection E1 as <-. apply only_refl.
Qed.

(* ------------------------------------------------------------ combinators *)
Lemma frames_monadic_lazy W c a v0 f1 f2 : In c W -> frames W (monadic_lazy F r32 c a v0 f1 f2).
Proof.
  intros I s s' E. unfold monadic_lazy in E. injection E as <-.
  eapply only_trans; [|apply only_upd; exact I].
  set (s0 := alloc_for_one F c a s).
  apply (only_trans W s s0); [unfold s0, alloc_for_one; apply only_upd; exact I|].
  destruct (rorder (s0 c)) as [|[|o]]; cbv iota; [apply only_refl| |];
    (eapply only_trans; [|apply fold_only; intros; unfold mon_gstep; apply only_upd; exact I]); [apply only_refl|].
  apply fold_only. intros s1 [i j]. unfold mon_hstep. apply only_upd2; exact I.
Qed.

Lemma frames_dyadic_lazy W c a b v0 f1 f2 : In c W -> frames W (dyadic_lazy F r32 c a b v0 f1 f2).
Proof.
  intros I s s' E. unfold dyadic_lazy in E.
  set (s0 := alloc_for_two F c a b s) in *.
  assert (H0 : only W s s0) by (unfold s0, alloc_for_two; apply only_upd; exact I).
  destruct (dy_guard (rd s0 a) (rd s0 b)); [discriminate|]. injection E as <-.
  eapply only_trans; [exact H0|].
  eapply only_trans; [|apply only_upd; exact I].
  destruct (rorder (s0 c)) as [|[|o]]; cbv iota; [apply only_refl| |];
    destruct (f1 tt) as [v10 v01];
    (eapply only_trans; [|apply fold_only; intros; unfold dy_gstep; apply only_upd; exact I]); [apply only_refl|].
  destruct (f2 tt) as [[v11 v20] v02].
  apply fold_only. intros s1 [i j]. unfold dy_hstep. apply only_upd2; exact I.
Qed.

Lemma frames_do_mon W op c a : In c W -> frames W (do_mon F r32 op c a).
Proof. intros I s s' E. unfold do_mon in E. eapply frames_monadic_lazy; eauto. Qed.
Lemma frames_do_dy W op c a b : In c W -> frames W (do_dy F r32 op c a b).
Proof. intros I s s' E. unfold do_dy in E. eapply frames_dyadic_lazy; eauto. Qed.
Lemma frames_do_pow W c a k : In c W -> frames W (do_pow F r32 c a k).
Proof.
  intros I s s' E. unfold do_pow in E. destruct (1 <=? rorder (rd s k)).
  - eapply frames_do_dy; eauto.
  - eapply frames_do_mon; eauto.
Qed.

(* ------------------------------------------------------------ storage operations *)
Lemma frames_do_reset W c : In c W -> frames W (do_reset F c).
Proof. intros I s s' E. unfold do_reset in E. injection E as <-. apply only_upd; exact I. Qed.
Lemma frames_do_setf W c v : In c W -> frames W (do_setf F r32 c v).
Proof. intros I s s' E. unfold do_setf in E. injection E as <-. apply only_upd; exact I. Qed.
Lemma frames_set_variable W c i n o : In c W -> frames W (set_variable F r32 c i n o).
Proof.
  intros I s s' E. unfold set_variable in E. cbv zeta in E.
  destruct (1 <=? o).
  - cbv zeta in E. match type of E with context [if ?b then Ok _ else Panic _] => destruct b end; [|discriminate].
    injection E as <-. apply only_upd; exact I.
  - injection E as <-. apply only_upd; exact I.
Qed.
Lemma frames_set_reg W c b : In c W -> frames W (set_reg F r32 c b).
Proof.
  intros I s s' E. unfold set_reg in E.
  match type of E with context [alloc F ?r1 ?n ?o] => set (r2 := alloc F r1 n o) in * end.
  destruct (1 <=? rorder r2).
  - destruct (negb (rn (rd s b) <=? length (rderiv r2))); [discriminate|].
    match type of E with context [fold_left ?g (seq 0 ?n) ?s1] => set (s2 := fold_left g (seq 0 n) s1) in *;
      assert (H2 : only W s s2) end.
    { unfold s2. eapply only_trans; [apply only_upd; exact I|]. apply fold_only. intros. apply only_upd; exact I. }
    destruct (2 <=? rorder r2).
    + destruct (negb (square_ge (rn (rd s b)) (rhess r2))); [discriminate|]. injection E as <-.
      eapply only_trans; [exact H2|]. apply fold_only. intros. apply only_upd; exact I.
    + injection E as <-. exact H2.
  - injection E as <-. apply only_upd; exact I.
Qed.

(* ------------------------------------------------------------ composite programs *)
Ltac inW := simpl; tauto.
Ltac fr :=
  repeat first
    [ apply frames_do_mon; inW | apply frames_do_dy; inW | apply frames_do_pow; inW
    | apply frames_do_reset; inW | apply frames_do_setf; inW | apply frames_set_reg; inW
    | apply frames_set_variable; inW ].

Lemma Forall_app_intro {X} (P : X -> Prop) l1 l2 : Forall P l1 -> Forall P l2 -> Forall P (l1 ++ l2).
Proof. intros. apply Forall_app. split; assumption. Qed.
Lemma Forall_flat_map {X Y} (P : Y -> Prop) (g : X -> list Y) l : (forall x, Forall P (g x)) -> Forall P (flat_map g l).
Proof. intros H. induction l; simpl; [constructor|]. apply Forall_app_intro; auto. Qed.
Lemma Forall_map_intro {X Y} (P : Y -> Prop) (g : X -> Y) l : (forall x, P (g x)) -> Forall P (map g l).
Proof. intros H. induction l; simpl; constructor; auto. Qed.

Lemma frames_do_sqrt W c a : In c W -> frames W (do_sqrt F r32 c a).
Proof. intros I. unfold do_sqrt. apply frames_do_pow; exact I. Qed.

Lemma frames_do_logadd W c a b t : In c W -> In t W -> frames W (do_logadd F r32 c a b t).
Proof.
  intros Ic It s s' E. unfold do_logadd in E.
  destruct (fltb F _ _); cbv iota beta in E;
    (destruct (is_inf F _);
     [ eapply frames_set_reg; [|exact E]; assumption
     | eapply frames_seqm; [|exact E]; repeat constructor; first [apply frames_do_dy | apply frames_do_mon]; assumption ]).
Qed.

Lemma frames_exec i : frames (writes i) (exec F r32 i).
Proof.
  destruct i; simpl.
  - apply frames_do_mon; inW.
  - apply frames_do_dy; inW.
  - apply frames_do_pow; inW.
  - apply frames_set_reg; inW.
  - apply frames_do_reset; inW.
  - apply frames_do_setf; inW.
  - apply frames_set_variable; inW.
  - (* Min *) intros s s' E. unfold do_min in E. destruct (fltb F _ _); eapply frames_set_reg; eauto; inW.
  - (* Max *) intros s s' E. unfold do_max in E. destruct (fltb F _ _); eapply frames_set_reg; eauto; inW.
  - (* Abs *) intros s s' E. unfold do_abs in E.
    destruct (Z.eqb _ (-1)); [eapply frames_do_mon; eauto; inW|].
    destruct (Z.eqb _ 0); [eapply frames_do_reset; eauto; inW | eapply frames_set_reg; eauto; inW].
  - (* ABS concrete: the generic Abs since 2fc8894 *) intros s s' E. unfold do_ABS_concrete, do_abs in E.
    destruct (Z.eqb _ (-1)); [eapply frames_do_mon; eauto; inW|].
    destruct (Z.eqb _ 0); [eapply frames_do_reset; eauto; inW | eapply frames_set_reg; eauto; inW].
  - apply frames_do_logadd; inW.
  - (* LogSub *) intros s s' E. unfold do_logsub in E. destruct (fisinf F _ _).
    + eapply frames_set_reg; eauto; inW.
    + eapply frames_seqm; [|exact E]. repeat constructor; fr.
  - (* Log1pExp *) intros s s' E. unfold do_log1pexp in E.
    destruct (fleb F _ _); [eapply frames_do_mon; eauto; inW|].
    destruct (fleb F _ _); [eapply frames_seqm; [|exact E]; repeat constructor; fr|].
    destruct (fleb F _ _); [|eapply frames_set_reg; eauto; inW].
    (* the branch with the internal temporary t, which is restored afterwards: the frame is still {c} *)
    set (t := S (Nat.max c match a with Rg i => i | Im _ => 0 end)) in *.
    match type of E with context [seqm ?fs ?s0] => destruct (seqm fs s0) as [s1|e] eqn:E1; [|discriminate];
      assert (H1 : only [c; t] s0 s1) end.
    { eapply frames_seqm; [|exact E1]. repeat constructor; fr. }
    injection E as <-. intros q Hq. rewrite (upd_eq s1 t (s t) q).
    destruct (Nat.eqb q t) eqn:Eq; [apply Nat.eqb_eq in Eq; subst; reflexivity|].
    rewrite (H1 q).
    + rewrite upd_eq, Eq. reflexivity.
    + intros [X|[X|[]]]; [apply Hq; left; exact X | subst; rewrite Nat.eqb_refl in Eq; discriminate].
  - (* Sigmoid *) intros s s' E. unfold do_sigmoid in E.
    destruct (fleb F _ _); (eapply frames_seqm; [|exact E]); repeat constructor; fr.
  - (* Logistic *) intros s s' E. unfold do_logistic in E. eapply frames_seqm; [|exact E]. repeat constructor; fr.
  - apply frames_do_sqrt; inW.
  - (* SmoothMax *) unfold do_smoothmax. apply frames_seqm.
    apply Forall_app_intro; [repeat constructor; fr|].
    apply Forall_app_intro; [|repeat constructor; fr].
    apply Forall_flat_map. intros x. repeat constructor; fr.
  - (* LogSmoothMax *) unfold do_logsmoothmax. apply frames_seqm.
    apply Forall_app_intro; [repeat constructor; fr|].
    apply Forall_app_intro; [|repeat constructor; fr].
    apply Forall_flat_map. intros x. repeat constructor; fr; apply frames_do_logadd; inW.
  - (* Vmean *) unfold do_vmean. apply frames_seqm.
    apply Forall_app_intro; [repeat constructor; fr|].
    apply Forall_app_intro; [|repeat constructor; fr].
    apply Forall_map_intro. intros x. fr.
  - (* VdotV *) intros s s' E. unfold do_vdotv in E.
    eapply only_trans; [apply only_upd with (c := t); inW|].
    eapply frames_seqm; [|exact E].
    apply Forall_app_intro; [repeat constructor; fr|].
    apply Forall_flat_map. intros x. repeat constructor; fr.
  - (* Vnorm *) intros s s' E. unfold do_vnorm in E.
    eapply only_trans; [apply only_upd with (c := t); inW|].
    eapply frames_seqm; [|exact E].
    apply Forall_app_intro; [repeat constructor; fr|].
    apply Forall_app_intro; [|repeat constructor; apply frames_do_sqrt; inW].
    apply Forall_flat_map. intros x. repeat constructor; fr.
  - (* Mtrace *) unfold do_mtrace. apply frames_seqm.
    apply Forall_app_intro; [repeat constructor; fr|].
    apply Forall_map_intro. intros x. fr.
  - (* Mnorm *) intros s s' E. unfold do_mnorm in E.
    eapply only_trans; [apply only_upd with (c := t); inW|].
    destruct xs as [|x0 rest]; [injection E as <-; apply only_refl|].
    eapply frames_seqm; [|exact E].
    constructor; [fr|]. apply Forall_flat_map. intros x. repeat constructor; fr.
Qed.

(* programs: a history of instructions writes only into the union of their write sets *)
Definition pwrites (p : list (instr A)) : list nat := flat_map writes p.
Lemma frames_run p : frames (pwrites p) (run F r32 p).
Proof.
  unfold run. apply frames_seqm. unfold pwrites.
  induction p as [|i p IH]; simpl; constructor.
  - eapply frames_mono; [|apply frames_exec]. apply incl_appl, incl_refl.
  - eapply Forall_impl; [|exact IH]. intros f Hf. eapply frames_mono; [|exact Hf]. apply incl_appr, incl_refl.
Qed.

(* ------------------------------------------------------------ Clone of a scalar *)
(* storage invariant of C01 (every operation keeps it): Order>=1 -> len Derivative = N, Order>=2 -> Hessian N x N *)
Definition wf_reg (r : Reg A) : Prop :=
  (1 <= rorder r -> length (rderiv r) = rn r) /\
  (2 <= rorder r -> length (rhess r) = rn r /\ Forall (fun row => length row = rn r) (rhess r)).

Lemma frames_conv_reg k c a : frames [c] (conv_reg F r32 k c a).
Proof.
  intros s s' E. unfold conv_reg in E.
  eapply only_trans; [apply only_upd with (c := c); inW|].
  eapply frames_set_reg; [|exact E]. inW.
Qed.

End P.
