(* C12/ModelCtor.v — CONSTRUCTORS / ENTRY POINTS WITH A FLAG-DEPENDENT COPY (round 7, additive).

   statistics/generic/hmm_utility.go (and constrainedHmm.go, hierarchicalHmm.go):

       func NewHmmProbabilityVector(v Vector, isLog bool) (HmmProbabilityVector, error) {
         pi := v.CloneVector()
         if !isLog { pi.Map(func(x Scalar) { x.Log(x) }) }
         r := HmmProbabilityVector{pi, t1, t2}
         if err := r.Normalize(); err != nil { ... }      // rewrites every element of pi in place
         return r, nil }

   algorithm/bfgs/bfgs.go Run:  H, err := matrixInverse.Run(hessian.Value)   (no InSitu: the option-carried matrix
   is cloned, Gauss-Jordan works on the clone);  if err != nil { return nil, err }   — the flag is "B0 is singular".

   A body is a straight-line list of statements over container variables; variable 0 is the caller's object.  A
   container is the list of cells it owns (as in ModelConv.v); the heap maps cells to contents.
       KClone d s      d := s.Clone()            one NEW cell per cell of s, same contents
       KAlias d s      d := s                    the same cells
       KWrite x g      x.Map(..) / x.Normalize() / regularise x in place: the cells of x get the contents g (old contents)
   [g] is arbitrary (any function of the old contents of the receiver), so the log transform, the normalisation,
   the Gauss-Jordan elimination on a clone and "add eps to the diagonal" are all instances.
   The body depends on the flag: a program is  bool -> list stmt.  No proofs in this file. *)
From Coq Require Import List Bool Arith.
Import ListNotations.

Section Ctor.
Context {A : Type}.

Definition loc := nat.
Record heap := mkH { h_next : loc; h_val : loc -> A }.
Definition env := nat -> list loc.

Inductive stmt :=
| KClone (d s : nat)
| KAlias (d s : nat)
| KWrite (x : nat) (g : list A -> list A).

Definition upd (f : loc -> A) (l : loc) (x : A) : loc -> A := fun k => if Nat.eqb k l then x else f k.
Definition setv (e : env) (d : nat) (c : list loc) : env := fun k => if Nat.eqb k d then c else e k.

Definition rdc (h : heap) (c : list loc) : list A := map (h_val h) c.

(* write the contents xs into the cells c, position by position (a shorter xs leaves the rest alone) *)
Fixpoint wr (f : loc -> A) (c : list loc) (xs : list A) : loc -> A :=
  match c, xs with
  | l :: c', x :: xs' => wr (upd f l x) c' xs'
  | _, _ => f
  end.

(* n new cells holding xs *)
Fixpoint alloc (h : heap) (xs : list A) : heap * list loc :=
  match xs with
  | [] => (h, [])
  | x :: r => let '(h', c) := alloc (mkH (S (h_next h)) (upd (h_val h) (h_next h) x)) r in (h', h_next h :: c)
  end.

Definition step (st : heap * env) (s : stmt) : heap * env :=
  let '(h, e) := st in
  match s with
  | KClone d s => let '(h', c) := alloc h (rdc h (e s)) in (h', setv e d c)
  | KAlias d s => (h, setv e d (e s))
  | KWrite x g => (mkH (h_next h) (wr (h_val h) (e x) (g (rdc h (e x)))), e)
  end.
Definition run (p : list stmt) (st : heap * env) : heap * env := fold_left step p st.

(* ---- the static check: which variables certainly hold only cells allocated by this body *)
Definition mem (x : nat) (l : list nat) : bool := existsb (Nat.eqb x) l.
Definition rem (x : nat) (l : list nat) : list nat := filter (fun y => negb (Nat.eqb x y)) l.

(* fresh-set transfer; None = a write through a variable that may hold the caller's cells *)
Definition safe_step (fr : option (list nat)) (s : stmt) : option (list nat) :=
  match fr with
  | None => None
  | Some f =>
      match s with
      | KClone d _ => Some (d :: f)
      | KAlias d s => Some (if mem s f then d :: f else rem d f)
      | KWrite x _ => if mem x f then Some f else None
      end
  end.
Definition safe_from (f : list nat) (p : list stmt) : option (list nat) := fold_left safe_step p (Some f).
(* accepted: no write through a possibly-old variable, and the returned variable [res] is fresh *)
Definition ctor_safe (p : list stmt) (res : nat) : bool :=
  match safe_from [] p with Some f => mem res f | None => false end.
(* a flag-dependent body is accepted iff both branches are *)
Definition ctor_safe_both (p : bool -> list stmt) (res : nat) : bool := ctor_safe (p true) res && ctor_safe (p false) res.

(* indices of the table entries (result variable, flag -> body) that are NOT accepted (diagnosis of regenerated tables) *)
Fixpoint ctor_bad_from (i : nat) (l : list (nat * (bool -> list stmt))) : list nat :=
  match l with
  | [] => []
  | (res, p) :: r => (if ctor_safe_both p res then [] else [i]) ++ ctor_bad_from (S i) r
  end.
Definition ctors_ok (l : list (nat * (bool -> list stmt))) : bool :=
  forallb (fun rp => ctor_safe_both (snd rp) (fst rp)) l.

(* ---- the bodies as coded (variable 0 = the caller's object, 1 = the result / work copy) *)
Definition hmm_ctor_coded (logf norm : list A -> list A) (isLog : bool) : list stmt :=
  [KClone 1 0] ++ (if isLog then [] else [KWrite 1 logf]) ++ [KWrite 1 norm].
(* bfgs.Run's use of the option-carried B0: matrixInverse.Run without InSitu clones it and eliminates on the clone;
   singular or not, nothing else touches it *)
Definition bfgs_b0_coded (gauss : list A -> list A) (singular : bool) : list stmt :=
  [KClone 1 0; KWrite 1 gauss].

(* ---- the regression classes *)
(* clone on one branch only: with isLog the caller's vector is normalised in place and returned *)
Definition hmm_ctor_onebranch (logf norm : list A -> list A) (isLog : bool) : list stmt :=
  if isLog then [KAlias 1 0; KWrite 1 norm] else [KClone 1 0; KWrite 1 logf; KWrite 1 norm].
(* a fallback for a singular B0 that regularises the caller's matrix and retries *)
Definition bfgs_b0_regularise (gauss reg : list A -> list A) (singular : bool) : list stmt :=
  [KClone 1 0; KWrite 1 gauss] ++ (if singular then [KWrite 0 reg; KClone 1 0; KWrite 1 gauss] else []).

End Ctor.
