(* C12/CorrA.v — streams A (As-conversions, round 5) and I (iterator clones, round 5), decided by vm_compute.

   Stream A.  A case is a history over a world of containers of the 36 container types (9 element types x dense/sparse
   x vector/matrix): new containers, As-conversions (typed AsXY(v) and generic As{Dense,Sparse}[Magic]{Vector,Matrix}(t, v)),
   and real mutations of either side (element writes, Reset, in-place arithmetic r.Op(r, x), Set, iterator write loops),
   each reported as the receiver-only transformer [OHavoc] of ModelConv with what the receiver reads afterwards.
   After EVERY step the harness reports the containers whose observation (every slot: value and derivatives) or set of
   stored positions changed; the model world is threaded through the history and the check demands
     - model = reported for the listed containers (a conversion result must read like its source; which positions it
       stores, and which stored nulls the source lost to its own iterator, are predicted by the model),
     - model-unchanged for every container NOT listed (so a write that shows through another container is a mismatch),
     - the labels of the storage each container reaches (reflection walk: every pointer target, backing array, map)
       are pairwise disjoint between containers: no cell of a result aliases a cell of its source.

   Stream I.  A case is a history over plain and joint iterators on fixed containers: new iterators, Next, Clone (typed
   Clone(), CloneIterator / CloneConstIterator, CloneJointIterator / CloneConstJointIterator); after every step the
   observation (Ok, Index, elements) of EVERY live iterator is compared with ModelIt's. *)
From Coq Require Import ZArith List Bool Floats Arith.
From ADV Require Import Base.Num Base.Corr C12.ModelConv C12.ModelIt.
Import ListNotations.

Definition oeqA (x y : float) : bool := feqb x y || (PrimFloat.eqb x 0%float && PrimFloat.eqb y 0%float).
Definition slots := list float.
Definition sl_eqb (a b : slots) : bool := list_eqb oeqA a b.
Definition isnullS (a : slots) : bool := forallb (fun x => PrimFloat.eqb x 0%float) a.
Definition zeroS (w : nat) : slots := repeat 0%float w.

Fixpoint alook {X} (k : nat) (l : list (nat * X)) : option X :=
  match l with [] => None | (k', x) :: r => if Nat.eqb k k' then Some x else alook k r end.
Fixpoint memb (x : nat) (l : list nat) : bool := match l with [] => false | y :: r => Nat.eqb x y || memb x r end.
Fixpoint nodupn (l : list nat) : bool := match l with [] => true | x :: r => negb (memb x r) && nodupn r end.

Record aobs := mkAO {
  ao_op : @cop slots;
  ao_chg : list (nat * (list slots * list nat));   (* containers that are new or changed: observation, stored positions *)
  ao_ids : list (list nat) }.                      (* per container the labels of the storage it reaches ([] = not reported) *)
Record acase := mkA { a_w : nat; a_steps : list aobs }.

Definition a_step_ok (W : nat) (w w' : @world slots) (o : aobs) : bool :=
  let z := zeroS W in
  forallb (fun k =>
    let c' := nth k (snd w') dummy in
    match alook k (ao_chg o) with
    | Some (ob, st) => list_eqb sl_eqb (obs z (fst w') c') ob && (negb (is_sparse c') || list_eqb Nat.eqb (stored c') st)
    | None => let c := nth k (snd w) dummy in
              Nat.ltb k (length (snd w)) && list_eqb sl_eqb (obs z (fst w') c') (obs z (fst w) c)
              && list_eqb Nat.eqb (stored c') (stored c)
    end) (seq 0 (length (snd w')))
  && forallb (fun kc => Nat.ltb (fst kc) (length (snd w'))) (ao_chg o)
  && nodupn (concat (ao_ids o)).

Fixpoint acheck_from (W : nat) (w : @world slots) (l : list aobs) : bool :=
  match l with
  | [] => true
  | o :: r => let w' := cstep (zeroS W) isnullS w (ao_op o) in a_step_ok W w w' o && acheck_from W w' r
  end.
Definition ainit : @world slots := (mkH 0 (fun _ => []), []).
Definition acheck (c : acase) : bool := acheck_from (a_w c) ainit (a_steps c).
Definition amism (cs : list acase) : list nat := mismatches acheck cs.
Fixpoint adiverge_from (n W : nat) (w : @world slots) (l : list aobs) : option nat :=
  match l with
  | [] => None
  | o :: r => let w' := cstep (zeroS W) isnullS w (ao_op o) in
              if a_step_ok W w w' o then adiverge_from (S n) W w' r else Some n
  end.
Definition adiverge (c : acase) := adiverge_from 0 (a_w c) ainit (a_steps c).

(* ------------------------------------------------------------------ stream I *)
Definition isnullF (x : float) : bool := PrimFloat.eqb x 0%float.
Inductive irop :=
| RNew (densevec : bool) (vals : list float) (from : Z)
| RNewJ (dm : bool) (dv1 : bool) (vals1 : list float) (dv2 : bool) (vals2 : list float)
| RNext (k : nat)
| RClone (k : nat).
Definition to_iop (o : irop) : @iop float :=
  match o with
  | RNew dv vals from => INew (stream_of isnullF dv vals from)
  | RNewJ dm dv1 v1 dv2 v2 => INewJ dm (stream_of isnullF dv1 v1 0%Z) (stream_of isnullF dv2 v2 0%Z)
  | RNext k => INext k
  | RClone k => IClone k
  end.
Definition iobs_t := (bool * Z * option float * float)%type.
Definition iobs_eqb (a b : iobs_t) : bool :=
  let '(ok, i, v1, v2) := a in let '(ok', i', v1', v2') := b in
  Bool.eqb ok ok' && Z.eqb i i' && option_eqb oeqA v1 v1' && oeqA v2 v2'.
Record iobsr := mkIO { io_op : irop; io_obs : list iobs_t }.
(* i_int: the receiver of the case's joint iterators is a DENSE MATRIX of an INTEGER element type.  Its Ok() is computed from
   the fields as coded,  !(s1 == nil || s1.GetInt8() == 0) || !(s2 == nil || s2.GetInt8() == 0) : the second operand's
   element is read CONVERTED to the receiver's element type, so an element with |x| < 1 counts as zero there. *)
Record icase := mkIC { i_int : bool; i_steps : list iobsr }.
Definition isnullI (x : float) : bool := PrimFloat.ltb (PrimFloat.abs x) 1%float.
Fixpoint icheck_from (nul : float -> bool) (w : @iworld float) (l : list iobsr) : bool :=
  match l with
  | [] => true
  | o :: r =>
      let w' := istep 0%float w (to_iop (io_op o)) in
      list_eqb iobs_eqb (map (fun k => iobs 0%float nul w' k) (seq 0 (length (snd w')))) (io_obs o)
      && icheck_from nul w' r
  end.
Definition icheck (c : icase) : bool := icheck_from (if i_int c then isnullI else isnullF) ([], []) (i_steps c).
Definition imism (cs : list icase) : list nat := mismatches icheck cs.
