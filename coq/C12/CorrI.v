(* C12/CorrI.v — stream S with SLICE IDENTITIES (round 3).
   Every observation of a stream-S history additionally carries, for each register whose slices are new or
   changed, the identities of the REAL backing arrays  [Derivative; Hessian (outer); Hessian[0]; ...; Hessian[n-1]]
   (0 = nil / empty; addresses numbered by first appearance, every array pinned by the harness so that no
   address is ever reused).  Two checks per step, both decided here by vm_compute:
     A (structural, model-free)   all non-zero identities of all live registers are pairwise different:
                                  no two live scalars share a backing array — no later write is needed to see it;
     B (tie of ModelId)           the identities [id_sstep] predicts correspond to the real ones under ONE
                                  bijection threaded through the whole history (kept slices stay, fresh slices
                                  are fresh on both sides, the shape — which slices exist — is the same). *)
From Coq Require Import ZArith List Bool Floats Arith.
From ADV Require Import Base.Fl Base.Corr C01.Model C01.Corr C12.ModelS C12.Corr C12.ModelId.
Import ListNotations.
Open Scope nat_scope.

Record sobs2 := mkSO2 { s2_obs : sobs; s2_ids : list (nat * list nat) }.

Definition oid (o : option nat) : nat := match o with Some k => S k | None => 0 end.
Definition flat_ir (r : IdReg) : list nat := oid (ir_d r) :: oid (ir_o r) :: map S (ir_h r).

Fixpoint rlook (y : nat) (m : list (nat * nat)) : bool :=
  match m with [] => false | (_, y') :: r => Nat.eqb y y' || rlook y r end.
(* extend the bijection model id -> real id slot by slot *)
Fixpoint match_ids (m : list (nat * nat)) (ms gs : list nat) : option (list (nat * nat)) :=
  match ms, gs with
  | [], [] => Some m
  | x :: ms', y :: gs' =>
      if Nat.eqb x 0 then (if Nat.eqb y 0 then match_ids m ms' gs' else None)
      else if Nat.eqb y 0 then None
      else match alookup x m with
           | Some y' => if Nat.eqb y y' then match_ids m ms' gs' else None
           | None => if rlook y m then None else match_ids ((x, y) :: m) ms' gs'
           end
  | _, _ => None
  end.

Fixpoint nodupb (l : list nat) : bool :=
  match l with [] => true | x :: r => negb (existsb (Nat.eqb x) r) && nodupb r end.
Definition nz (l : list nat) : list nat := filter (fun x => negb (Nat.eqb x 0)) l.

(* the table of real identities: register -> ids, newest report first *)
Definition cur_ids (cur : list (nat * list nat)) (q : nat) : list nat :=
  match alookup q cur with Some l => l | None => [0%nat; 0%nat] end.
Definition structural (cur : list (nat * list nat)) (n : nat) : bool :=
  nodupb (flat_map (fun q => nz (cur_ids cur q)) (seq 0 n)).

Fixpoint tie_regs (iw iw' : IW) (nold : nat) (rep : list (nat * list nat)) (m : list (nat * nat)) (qs : list nat)
  : option (list (nat * nat)) :=
  match qs with
  | [] => Some m
  | q :: r =>
      match alookup q rep with
      | Some gs => match match_ids m (flat_ir (iw_ids iw' q)) gs with
                   | Some m' => tie_regs iw iw' nold rep m' r
                   | None => None
                   end
      | None => if list_eqb Nat.eqb (flat_ir (iw_ids iw' q)) (flat_ir (iw_ids iw q)) && Nat.ltb q nold
                then tie_regs iw iw' nold rep m r else None
      end
  end.

Record ist := mkIS { is_w : SW float; is_iw : IW; is_m : list (nat * nat); is_cur : list (nat * list nat) }.

Fixpoint scheck2_from (st : ist) (l : list sobs2) : bool :=
  match l with
  | [] => true
  | o2 :: r =>
      let o := s2_obs o2 in
      let w := is_w st in
      match id_sstep FlP round32 w (is_iw st) (so_op o) with
      | Panic _ => Nat.eqb (so_kind o) 1 && match r with [] => true | _ => false end
      | Ok (w', iw') =>
          let cur := s2_ids o2 ++ is_cur st in
          Nat.eqb (so_kind o) 0 && check_regs w w' o && check_vecs w w' o
          && structural cur (w_next w')
          && match tie_regs (is_iw st) iw' (w_next w) (s2_ids o2) (is_m st) (seq 0 (w_next w')) with
             | Some m' => scheck2_from (mkIS w' iw' m' cur) r
             | None => false
             end
      end
  end.
Definition scase2 := list sobs2.
Definition sinit2 : ist := mkIS (sinit FlP) iinit [] [].
Definition scheck2 (c : scase2) : bool := scheck2_from sinit2 c.
Definition smism2 (cs : list scase2) : list nat := mismatches scheck2 cs.

(* diagnosis: index of the first failing step and which check failed (1 value/alias check of Corr.v, 2 structural, 3 tie) *)
Fixpoint sdiverge2_from (n : nat) (st : ist) (l : list sobs2) : option (nat * nat) :=
  match l with
  | [] => None
  | o2 :: r =>
      let o := s2_obs o2 in
      let w := is_w st in
      match id_sstep FlP round32 w (is_iw st) (so_op o) with
      | Panic _ => if Nat.eqb (so_kind o) 1 then None else Some (n, 0)
      | Ok (w', iw') =>
          let cur := s2_ids o2 ++ is_cur st in
          if negb (Nat.eqb (so_kind o) 0 && check_regs w w' o && check_vecs w w' o) then Some (n, 1)
          else if negb (structural cur (w_next w')) then Some (n, 2)
          else match tie_regs (is_iw st) iw' (w_next w) (s2_ids o2) (is_m st) (seq 0 (w_next w')) with
               | Some m' => sdiverge2_from (S n) (mkIS w' iw' m' cur) r
               | None => Some (n, 3)
               end
      end
  end.
Definition sdiverge2 (c : scase2) := sdiverge2_from 0 sinit2 c.
