(* C12/ProofsClone.v — Real.Clone() (NewReal(0.0) followed by Set) into a fresh
   register: total on every register satisfying C01's storage invariant, the new
   register OBSERVES like the source (value, order, N, all guarded getters — up to
   the storage rounding of Real32), nothing else changes. *)
From Coq Require Import ZArith List Bool Arith Lia.
From ADV Require Import Base.Fl C01.Model C12.ModelS C12.ProofsS.
Import ListNotations.

Section L.
Context {X : Type}.
Lemma upd_nth_length (i : nat) (x : X) l : length (upd_nth i x l) = length l.
Proof. revert i; induction l; intros [|i]; simpl; auto. Qed.
Lemma nth_upd_nth (i j : nat) (x d : X) l :
  nth j (upd_nth i x l) d = if Nat.eqb j i && (j <? length l) then x else nth j l d.
Proof.
  revert i j; induction l as [|y l IH]; intros i j; simpl.
  - destruct j, i; simpl; try reflexivity; rewrite ?andb_false_r; reflexivity.
  - destruct i, j; simpl; try reflexivity. rewrite IH. reflexivity.
Qed.
Lemma fold_upd_length (f : nat -> X) l : forall d, length (fold_left (fun d i => upd_nth i (f i) d) l d) = length d.
Proof. induction l; intros d; simpl; auto. rewrite IHl. apply upd_nth_length. Qed.
Lemma nth_fold_upd (f : nat -> X) l : forall d j dflt,
  nth j (fold_left (fun d i => upd_nth i (f i) d) l d) dflt
  = if existsb (Nat.eqb j) l && (j <? length d) then f j else nth j d dflt.
Proof.
  induction l as [|i l IH]; intros d j dflt; simpl; [reflexivity|].
  rewrite IH, upd_nth_length, nth_upd_nth.
  destruct (Nat.eqb j i) eqn:E; simpl.
  - apply Nat.eqb_eq in E; subst i. destruct (j <? length d); rewrite ?andb_false_r, ?andb_true_r; try reflexivity.
    destruct (existsb _ l); reflexivity.
  - reflexivity.
Qed.
Lemma nth_firstn_lt (l : list X) : forall n i d, i < n -> nth i (firstn n l) d = nth i l d.
Proof. induction l as [|y l IH]; intros [|n] [|i] d H; simpl; try reflexivity; try lia. apply IH. lia. Qed.
Lemma nth_skipn_add (l : list X) : forall i p d, nth p (skipn i l) d = nth (i + p) l d.
Proof. induction l as [|y l IH]; intros [|i] p d; simpl; try reflexivity. - destruct p; reflexivity. - apply IH. Qed.
Lemma In_firstn (l : list X) : forall n x, In x (firstn n l) -> In x l.
Proof. induction l as [|y l IH]; intros [|n] x H; simpl in *; try contradiction. destruct H as [H|H]; [left; exact H | right; eapply IH; exact H]. Qed.
Lemma In_skipn' (l : list X) : forall n x, In x (skipn n l) -> In x l.
Proof. induction l as [|y l IH]; intros [|n] x H; simpl in *; try contradiction; try exact H. right. eapply IH; exact H. Qed.
End L.

Lemma existsb_seq j n : existsb (Nat.eqb j) (seq 0 n) = (j <? n).
Proof.
  destruct (j <? n) eqn:E.
  - apply existsb_exists. exists j. split; [apply in_seq; apply Nat.ltb_lt in E; lia | apply Nat.eqb_refl].
  - destruct (existsb _ _) eqn:E2; [|reflexivity]. apply existsb_exists in E2. destruct E2 as (x & I & Q).
    apply Nat.eqb_eq in Q; subst x. apply in_seq in I. apply Nat.ltb_ge in E. lia.
Qed.

Section C.
Context {A : Type} (F : Fl A) (r32 : A -> A).
Notation St := (@St A).
Notation zero := (Model.zero F).

(* ---- the loops of Set with an operand in ANOTHER register are loops on the receiver alone ---- *)
Lemma fold_reg {Y} (h : Reg A -> Reg A -> Y -> Reg A) c a (l : list Y) : a <> c -> forall (s : St) q,
  fold_left (fun s x => upd s c (h (s c) (s a) x)) l s q
  = upd s c (fold_left (fun r x => h r (s a) x) l (s c)) q.
Proof.
  intros Hac. induction l as [|x l IH]; intros s q; simpl.
  - unfold upd. destruct (Nat.eqb q c) eqn:E; [apply Nat.eqb_eq in E; subst; reflexivity | reflexivity].
  - rewrite IH. unfold upd. rewrite Nat.eqb_refl.
    destruct (Nat.eqb a c) eqn:E; [apply Nat.eqb_eq in E; contradiction|].
    destruct (Nat.eqb q c); reflexivity.
Qed.

Lemma upd_q (s : St) c r q : upd s c r q = if Nat.eqb q c then r else s q.
Proof. reflexivity. Qed.

(* Hessian cells *)
Lemma hset_length h i j (v : A) : length (hset h i j v) = length h.
Proof. unfold hset. apply upd_nth_length. Qed.
Lemma hset_row_length h i j (v : A) k : length (nth k (hset h i j v) []) = length (nth k h []).
Proof.
  unfold hset. rewrite nth_upd_nth. destruct (Nat.eqb k i && (k <? length h)) eqn:E; [|reflexivity].
  apply andb_prop in E. destruct E as [E _]. apply Nat.eqb_eq in E. subst. apply upd_nth_length.
Qed.
Lemma hget_hset h i j (v : A) k l :
  hget F (hset h i j v) k l
  = if Nat.eqb k i && Nat.eqb l j && (k <? length h) && (l <? length (nth k h [])) then v else hget F h k l.
Proof.
  unfold hget, hset. rewrite nth_upd_nth.
  destruct (Nat.eqb k i) eqn:Ek; simpl; [|reflexivity].
  apply Nat.eqb_eq in Ek; subst i.
  destruct (k <? length h) eqn:Lk; simpl.
  - rewrite nth_upd_nth. destruct (Nat.eqb l j); simpl; [|reflexivity]. reflexivity.
  - rewrite andb_false_r. reflexivity.
Qed.
Definition peqb (p q : nat * nat) : bool := Nat.eqb (fst p) (fst q) && Nat.eqb (snd p) (snd q).
Lemma fold_hset_shape (f : nat * nat -> A) l : forall h,
  length (fold_left (fun h p => hset h (fst p) (snd p) (f p)) l h) = length h /\
  forall k, length (nth k (fold_left (fun h p => hset h (fst p) (snd p) (f p)) l h) []) = length (nth k h []).
Proof.
  induction l as [|p l IH]; intros h; simpl; [split; reflexivity|].
  destruct (IH (hset h (fst p) (snd p) (f p))) as [L R]. split.
  - rewrite L. apply hset_length.
  - intros k. rewrite R. apply hset_row_length.
Qed.
Lemma hget_fold_hset (f : nat * nat -> A) l : forall h k j,
  hget F (fold_left (fun h p => hset h (fst p) (snd p) (f p)) l h) k j
  = if existsb (peqb (k, j)) l && (k <? length h) && (j <? length (nth k h [])) then f (k, j) else hget F h k j.
Proof.
  induction l as [|p l IH]; intros h k j; simpl; [reflexivity|].
  rewrite IH, hset_length, hset_row_length, hget_hset.
  assert (P : peqb (k, j) p = Nat.eqb k (fst p) && Nat.eqb j (snd p)) by reflexivity.
  destruct (peqb (k, j) p) eqn:E.
  - symmetry in P. apply andb_prop in P. destruct P as [E1 E2]. rewrite E1, E2. simpl.
    apply Nat.eqb_eq in E1, E2. destruct p as [p1 p2]; simpl in *; subst.
    destruct (p1 <? length h); simpl; [|rewrite !andb_false_r; reflexivity].
    destruct (p2 <? length (nth p1 h [])); simpl; [|rewrite !andb_false_r; reflexivity].
    rewrite !andb_true_r. destruct (existsb _ l); reflexivity.
  - rewrite <- P. simpl. reflexivity.
Qed.
Lemma existsb_allpairs k j n : existsb (peqb (k, j)) (allpairs n) = (k <? n) && (j <? n).
Proof.
  destruct ((k <? n) && (j <? n)) eqn:E.
  - apply andb_prop in E. destruct E as [E1 E2]. apply Nat.ltb_lt in E1, E2.
    apply existsb_exists. exists (k, j). split; [|unfold peqb; simpl; rewrite !Nat.eqb_refl; reflexivity].
    unfold allpairs. apply in_flat_map. exists k. split; [apply in_seq; lia|].
    apply in_map_iff. exists j. split; [reflexivity | apply in_seq; lia].
  - destruct (existsb _ _) eqn:E2; [|reflexivity]. apply existsb_exists in E2. destruct E2 as ([x y] & I & Q).
    unfold peqb in Q; simpl in Q. apply andb_prop in Q. destruct Q as [Q1 Q2]. apply Nat.eqb_eq in Q1, Q2. subst x y.
    unfold allpairs in I. apply in_flat_map in I. destruct I as (i & Ii & I). apply in_map_iff in I.
    destruct I as (j' & Ej & Ij). injection Ej as -> ->. apply in_seq in Ii, Ij.
    assert (k <? n = true) by (apply Nat.ltb_lt; lia). assert (j <? n = true) by (apply Nat.ltb_lt; lia).
    rewrite H, H0 in E. discriminate.
Qed.

Lemma nth_repeat {Y} (y d : Y) n i : nth i (repeat y n) d = if i <? n then y else d.
Proof.
  revert i; induction n; intros [|i]; simpl; try reflexivity. rewrite IHn. reflexivity.
Qed.

(* ---- the register that Set leaves in a FRESH receiver ---- *)
Definition copy_of (k : kind) (ra : Reg A) : Reg A :=
  let n := rn ra in let o := rorder ra in
  let r1 := mkReg k (rndk r32 k (rval ra)) 0 0 [] [] in
  let r2 := alloc F r1 n o in
  if 1 <=? o then
    let r3 := fold_left (fun r i => set_d r32 r i (gd F ra i)) (seq 0 n) r2 in
    if 2 <=? o then fold_left (fun r p => set_h r32 r (fst p) (snd p) (gh F ra (fst p) (snd p))) (allpairs n) r3
    else r3
  else r2.

Lemma alloc_fresh_shape k v o n :
  let r2 := alloc F (mkReg k v 0 0 [] []) n o in
  rk r2 = k /\ rval r2 = v /\ rorder r2 = o /\ rn r2 = n /\
  (1 <= o -> length (rderiv r2) = n) /\
  (2 <= o -> length (rhess r2) = n /\ forall i, i < n -> length (nth i (rhess r2) []) = n).
Proof.
  unfold alloc. destruct n as [|n]; destruct o as [|[|o]]; simpl; rewrite ?Nat.eqb_refl; simpl;
    repeat split; intros; try lia; try apply repeat_length.
  all: try (f_equal; apply repeat_length).
  destruct i as [|i]; [simpl; f_equal; apply repeat_length|].
  rewrite nth_repeat. assert (Lb : (i <? n) = true) by (apply Nat.ltb_lt; lia). rewrite Lb.
  simpl; f_equal; apply repeat_length.
Qed.

Lemma conv_reg_eq k c a (s : St) : a <> c ->
  (forall q, exists s', conv_reg F r32 k c a s = Ok s' /\ s' q = upd s c (copy_of k (s a)) q).
Proof.
  intros Hac q. unfold conv_reg, set_reg.
  set (s0 := upd s c (null_reg F k)).
  assert (Ea : s0 a = s a). { unfold s0, upd. destruct (Nat.eqb a c) eqn:E; [apply Nat.eqb_eq in E; contradiction|reflexivity]. }
  assert (Ec : s0 c = null_reg F k). { unfold s0, upd. rewrite Nat.eqb_refl. reflexivity. }
  simpl rd. rewrite Ea, Ec. simpl rk. simpl rn. simpl rorder. simpl rderiv. simpl rhess.
  set (ra := s a). set (n := rn ra). set (o := rorder ra).
  set (r2 := alloc F (mkReg k (rndk r32 k (rval ra)) 0 0 [] []) n o).
  destruct (alloc_fresh_shape k (rndk r32 k (rval ra)) o n) as (Sk & Sv & So & Sn & Sd & Sh). fold r2 in Sk, Sv, So, Sn, Sd, Sh.
  unfold copy_of. fold ra n o r2. rewrite So.
  destruct (1 <=? o) eqn:O1.
  - apply Nat.leb_le in O1. rewrite (Sd O1). rewrite Nat.leb_refl. simpl negb. cbv iota.
    set (g := fun (s : St) i => upd s c (set_d r32 (s c) i (gd F (s a) i))).
    assert (G : forall (s1 : St) q, fold_left g (seq 0 n) s1 q
                = upd s1 c (fold_left (fun r i => set_d r32 r i (gd F (s1 a) i)) (seq 0 n) (s1 c)) q).
    { intros s1 q1. exact (fold_reg (fun r rb i => set_d r32 r i (gd F rb i)) c a (seq 0 n) Hac s1 q1). }
    destruct (2 <=? o) eqn:O2.
    + apply Nat.leb_le in O2. destruct (Sh O2) as [Hl Hr].
      assert (SQ : square_ge n (rhess r2) = true).
      { unfold square_ge. rewrite Hl, Nat.leb_refl. simpl. apply forallb_forall. intros row Hrow.
        apply In_nth with (d := []) in Hrow. destruct Hrow as (i & Li & <-).
        rewrite firstn_length, Hl, Nat.min_id in Li. rewrite nth_firstn_lt by exact Li. rewrite Hr by exact Li. apply Nat.leb_refl. }
      rewrite SQ. simpl negb. cbv iota.
      eexists. split; [reflexivity|].
      set (g2 := fun (s : St) p => upd s c (set_h r32 (s c) (fst p) (snd p) (gh F (rd s (Rg a)) (fst p) (snd p)))).
      rewrite (fold_reg (fun r rb p => set_h r32 r (fst p) (snd p) (gh F rb (fst p) (snd p))) c a (allpairs n) Hac).
      assert (Ea2 : fold_left g (seq 0 n) (upd s0 c r2) a = s a).
      { rewrite G. unfold upd. destruct (Nat.eqb a c) eqn:E; [apply Nat.eqb_eq in E; contradiction|]. exact Ea. }
      assert (Ec2 : fold_left g (seq 0 n) (upd s0 c r2) c = fold_left (fun r i => set_d r32 r i (gd F ra i)) (seq 0 n) r2).
      { rewrite G. unfold upd. rewrite !Nat.eqb_refl. destruct (Nat.eqb a c) eqn:E; [apply Nat.eqb_eq in E; contradiction|].
        rewrite Ea. reflexivity. }
      rewrite Ea2, Ec2. fold ra.
      rewrite (upd_q _ c _ q), (upd_q s c _ q). destruct (Nat.eqb q c) eqn:Eq; [reflexivity|].
      rewrite G, upd_q, Eq. unfold s0. rewrite !upd_q, Eq. reflexivity.
    + eexists. split; [reflexivity|]. rewrite G.
      assert (Xa : upd s0 c r2 a = s a) by (rewrite upd_q; destruct (Nat.eqb a c) eqn:E; [apply Nat.eqb_eq in E; contradiction|exact Ea]).
      assert (Xc : upd s0 c r2 c = r2) by (rewrite upd_q, Nat.eqb_refl; reflexivity).
      rewrite Xa, Xc. fold ra. rewrite (upd_q _ c _ q), (upd_q s c _ q). destruct (Nat.eqb q c) eqn:Eq; [reflexivity|].
      unfold s0. rewrite !upd_q, Eq. reflexivity.
  - eexists. split; [reflexivity|]. rewrite (upd_q _ c _ q), (upd_q s c _ q). destruct (Nat.eqb q c) eqn:Eq; [reflexivity|].
    unfold s0. rewrite upd_q, Eq. reflexivity.
Qed.


Lemma clone_reg_eq c a (s : St) : a <> c ->
  (forall q, exists s', clone_reg F r32 c a s = Ok s' /\ s' q = upd s c (copy_of (rk (s a)) (s a)) q).
Proof. intros Hac q. unfold clone_reg. apply conv_reg_eq. exact Hac. Qed.

(* ---- what the copy observes like ---- *)
Lemma fold_set_d (f : nat -> A) l : forall r,
  fold_left (fun r i => set_d r32 r i (f i)) l r
  = mkReg (rk r) (rval r) (rorder r) (rn r)
          (fold_left (fun d i => upd_nth i (rndk r32 (rk r) (f i)) d) l (rderiv r)) (rhess r).
Proof.
  induction l as [|i l IH]; intros r; simpl; [destruct r; reflexivity|]. rewrite IH. reflexivity.
Qed.
Lemma fold_set_h (f : nat * nat -> A) l : forall r,
  fold_left (fun r p => set_h r32 r (fst p) (snd p) (f p)) l r
  = mkReg (rk r) (rval r) (rorder r) (rn r) (rderiv r)
          (fold_left (fun h p => hset h (fst p) (snd p) (rndk r32 (rk r) (f p))) l (rhess r)).
Proof.
  induction l as [|i l IH]; intros r; simpl; [destruct r; reflexivity|]. rewrite IH. reflexivity.
Qed.

Lemma copy_of_obs k ra :
  let r := copy_of k ra in
  rk r = k /\ rval r = rndk r32 k (rval ra) /\ rorder r = rorder ra /\ rn r = rn ra /\
  (forall i, i < rn ra -> gd F r i = if 1 <=? rorder ra then rndk r32 k (gd F ra i) else zero) /\
  (forall i j, i < rn ra -> j < rn ra -> gh F r i j = if 2 <=? rorder ra then rndk r32 k (gh F ra i j) else zero).
Proof.
  unfold copy_of. set (n := rn ra). set (o := rorder ra).
  set (r2 := alloc F (mkReg k (rndk r32 k (rval ra)) 0 0 [] []) n o).
  destruct (alloc_fresh_shape k (rndk r32 k (rval ra)) o n) as (Sk & Sv & So & Sn & Sd & Sh). fold r2 in Sk, Sv, So, Sn, Sd, Sh.
  destruct (1 <=? o) eqn:O1.
  - apply Nat.leb_le in O1. rewrite fold_set_d.
    set (r3 := mkReg (rk r2) (rval r2) (rorder r2) (rn r2) _ (rhess r2)).
    assert (D3 : forall i, i < n -> gd F r3 i = rndk r32 k (gd F ra i)).
    { intros i Li. unfold gd at 1. simpl rorder. rewrite So. assert (E1 : (1 <=? o) = true) by (apply Nat.leb_le; lia). rewrite E1.
      simpl rderiv. rewrite nth_fold_upd, existsb_seq, (Sd O1), Sk.
      assert (Lb : (i <? n) = true) by (apply Nat.ltb_lt; lia). rewrite Lb. reflexivity. }
    destruct (2 <=? o) eqn:O2.
    + apply Nat.leb_le in O2. destruct (Sh O2) as [Hl Hr]. rewrite fold_set_h. simpl.
      split; [exact Sk|]. split; [exact Sv|]. split; [exact So|]. split; [exact Sn|]. split.
      * intros i Li. specialize (D3 i Li). unfold gd in *. simpl in *. exact D3.
      * intros i j Li Lj. unfold gh at 1. simpl rorder. rewrite So. assert (E2 : (2 <=? o) = true) by (apply Nat.leb_le; lia). rewrite E2.
        simpl rhess. rewrite hget_fold_hset, existsb_allpairs, Hl, (Hr i Li), Sk.
        assert (Lb : (i <? n) = true) by (apply Nat.ltb_lt; lia). assert (Lc : (j <? n) = true) by (apply Nat.ltb_lt; lia).
        rewrite Lb, Lc. reflexivity.
    + simpl. split; [exact Sk|]. split; [exact Sv|]. split; [exact So|]. split; [exact Sn|]. split; [exact D3|].
      intros i j _ _. unfold gh. simpl rorder. rewrite So, O2. reflexivity.
  - split; [exact Sk|]. split; [exact Sv|]. split; [exact So|]. split; [exact Sn|]. split.
    + intros i _. unfold gd. rewrite So, O1. reflexivity.
    + intros i j _ _. unfold gh. rewrite So. assert (E2 : (2 <=? o) = false) by (apply Nat.leb_gt; apply Nat.leb_gt in O1; lia).
      rewrite E2. reflexivity.
Qed.

(* the observation of C12 for a scalar coincides when the storage rounding fixes what the source holds
   (always for Real64 and bare scalars; for Real32 every stored number went through float32 already) *)
Definition rnd_fixes (k : kind) (ra : Reg A) : Prop :=
  rndk r32 k (rval ra) = rval ra /\
  (forall i, rndk r32 k (gd F ra i) = gd F ra i) /\ (forall i j, rndk r32 k (gh F ra i j) = gh F ra i j).
Lemma rnd_fixes_64 ra : rnd_fixes K64 ra.
Proof. repeat split. Qed.

Lemma map_ext_seq {Y} (f g : nat -> Y) n : (forall i, i < n -> f i = g i) -> map f (seq 0 n) = map g (seq 0 n).
Proof. intros H. apply map_ext_in. intros i I. apply in_seq in I. apply H. lia. Qed.

Lemma copy_of_obs_eq k ra : rnd_fixes k ra -> obs_reg F (copy_of k ra) = obs_reg F ra.
Proof.
  intros (Fv & Fd & Fh). destruct (copy_of_obs k ra) as (_ & Ev & Eo & En & Ed & Eh).
  unfold obs_reg. rewrite Ev, Eo, En, Fv. f_equal; [f_equal|].
  - apply map_ext_seq. intros i Li. rewrite (Ed i Li). unfold gd. destruct (1 <=? rorder ra) eqn:O1; [|reflexivity].
    specialize (Fd i). unfold gd in Fd. rewrite O1 in Fd. exact Fd.
  - apply map_ext_in. intros [i j] I. simpl.
    assert (B : i < rn ra /\ j < rn ra).
    { unfold allpairs in I. apply in_flat_map in I. destruct I as (i' & Ii & I). apply in_map_iff in I.
      destruct I as (j' & Ej & Ij). injection Ej as -> ->. apply in_seq in Ii, Ij. lia. }
    rewrite (Eh i j (proj1 B) (proj2 B)). unfold gh. destruct (2 <=? rorder ra) eqn:O2; [|reflexivity].
    specialize (Fh i j). unfold gh in Fh. rewrite O2 in Fh. exact Fh.
Qed.

End C.
