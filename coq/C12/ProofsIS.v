(* C12/ProofsIS.v — F2 for the stores as coded. *)
From Coq Require Import List Arith Bool Lia.
From ADV Require Import C12.ModelIS.
Import ListNotations.

Lemma stores_ok_spec : forall T st, stores_ok T = true -> In st T -> rhs_ok (snd st) = true.
Proof. intros T st H Hin. unfold stores_ok in H. rewrite forallb_forall in H. apply H. exact Hin. Qed.

(* one accepted store: everything the struct references afterwards was referenced before or is new *)
Lemma istep_f2 : forall st s s1 B,
  rhs_ok (snd st) = true -> B <= inext s -> istep st s s1 ->
  (forall x, referenced s x -> x < inext s) ->
  B <= inext s1 /\ (forall x, referenced s1 x -> x < inext s1) /\
  (forall x, referenced s1 x -> referenced s x \/ inext s <= x).
Proof.
  intros st s s1 B Hok HB Hst Hwf.
  destruct Hst as [f s | f s | f s l Hl | f s l | f s l]; simpl in Hok; try discriminate.
  - (* fresh *) split; [simpl; lia|split].
    + intros x [g Hx]. simpl in *. destruct (Nat.eqb g f).
      * destruct Hx as [Hx|[]]. lia.
      * assert (x < inext s) by (apply Hwf; exists g; exact Hx). lia.
    + intros x [g Hx]. simpl in Hx. destruct (Nat.eqb g f).
      * destruct Hx as [Hx|[]]. right. lia.
      * left. exists g. exact Hx.
  - (* none *) split; [simpl; lia|split].
    + intros x [g Hx]. simpl in *. destruct (Nat.eqb g f); [contradiction|]. apply Hwf. exists g. exact Hx.
    + intros x [g Hx]. simpl in Hx. destruct (Nat.eqb g f); [contradiction|]. left. exists g. exact Hx.
  - (* field *) split; [simpl; lia|split].
    + intros x [g Hx]. simpl in *. destruct (Nat.eqb g f); [apply Hwf; apply Hl; exact Hx|apply Hwf; exists g; exact Hx].
    + intros x [g Hx]. simpl in Hx. destruct (Nat.eqb g f); [left; apply Hl; exact Hx|left; exists g; exact Hx].
Qed.

(* F2 over any execution of an accepted store table: the struct never comes to reference an object that existed at
   entry and that it did not reference then — in particular no input of this or of an earlier call *)
Lemma accepted_stores_retain_nothing : forall T, stores_ok T = true ->
  forall s s', iexec T s s' -> (forall x, referenced s x -> x < inext s) ->
  forall x, referenced s' x -> referenced s x \/ inext s <= x.
Proof.
  intros T Hok s s' Hex.
  induction Hex as [s | st s s1 s2 Hin Hst Hrest IH]; intros Hwf x Hx.
  - left. exact Hx.
  - destruct (istep_f2 st s s1 (inext s) (stores_ok_spec T st Hok Hin) (le_n _) Hst Hwf) as [Hn [Hwf1 Hf2]].
    destruct (IH Hwf1 x Hx) as [H1 | H1].
    + destruct (Hf2 x H1) as [H0 | H0]; [left; exact H0|right; exact H0].
    + right. lia.
Qed.

(* the retained-reference store is rejected, and it is a violation: the struct references the caller's object 7 *)
Definition retain_table : list istore := [(0, RParam)].
Definition is0 : istate := mkIS (fun _ => []) 10.

Lemma retained_parameter_rejected : stores_ok retain_table = false.
Proof. vm_compute. reflexivity. Qed.

Lemma retained_parameter_breaks_f2 :
  exists s', iexec retain_table is0 s' /\ referenced s' 7 /\ ~ referenced is0 7 /\ 7 < inext is0.
Proof.
  exists (set_field is0 0 [7] 10). split; [|split; [|split]].
  - eapply ie_step; [left; reflexivity|apply (is_param 0 is0 [7])|apply ie_done].
  - exists 0. simpl. left. reflexivity.
  - intros [g Hg]. simpl in Hg. exact Hg.
  - simpl. lia.
Qed.

(* non-vacuity: clone-or-Set as coded (inSitu.A = a.CloneMatrix(); inSitu.Hessenberg.H = inSitu.A) *)
Definition clone_table : list istore := [(0, RFresh); (1, RField); (2, RNone)].
Lemma clone_table_accepted_and_runs :
  stores_ok clone_table = true /\
  exists s', iexec clone_table is0 s' /\ refs s' 0 = [10] /\ refs s' 1 = [10] /\ inext s' = 11.
Proof.
  split; [vm_compute; reflexivity|].
  eexists. split; [|split; [|split]].
  - eapply ie_step; [left; reflexivity|apply is_fresh|].
    eapply ie_step; [right; left; reflexivity|apply (is_field 1 _ [10])|apply ie_done].
    intros x [Hx|[]]. subst x. exists 0. simpl. left. reflexivity.
  - vm_compute. reflexivity.
  - vm_compute. reflexivity.
  - vm_compute. reflexivity.
Qed.
