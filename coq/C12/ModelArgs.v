(* C12/ModelArgs.v — the caller's OPTION LIST is an input too (round 6).

   Every algorithm entry point of /repo/algorithm has the shape  Run(x, args ...interface{}).  A caller who writes
   Run(x, opts...) hands over HIS slice header: the callee's `args` shares the backing array of `opts`, including the
   capacity window behind len(opts).  An entry point that filters in place (out := args[:0]; out = append(out, a)),
   appends in place (args = append(args, o)) or stores (args[i] = o) writes the caller's array.

   The model is Go's slice semantics, nothing else:
     heap    arrays by id, cells by index, an allocation counter (arrays never move, never shrink);
     slice   (array, offset, len, cap)  — the header a variable holds;
     stmt    what a function body can do with a []interface{} variable.  The list of statements of every function
             of /repo/algorithm that has a variadic `...interface{}` parameter is REGENERATED from the Go source by
             go2coq_c12 on every run (GenArgs.v); it is flow-insensitive: an execution is ANY sequence of the
             statements of the body, each any number of times, calls nested to any depth (so every branch / loop
             structure of the real code is covered).
   Variable 0 of a function is its variadic parameter; other variables start as the nil slice. *)
From Coq Require Import List Arith Bool.
Import ListNotations.

Definition elem := nat.
Record slice := mkSl { sarr : nat; soff : nat; slen : nat; scap : nat }.
Definition nilsl : slice := mkSl 0 0 0 0.

Record heap := mkHp { cells : nat -> nat -> elem; next : nat }.

Definition env := nat -> slice.
Definition upd (e : env) (v : nat) (s : slice) : env := fun x => if Nat.eqb x v then s else e x.
Definition param_env (s : slice) : env := fun x => if Nat.eqb x 0 then s else nilsl.

Inductive stmt :=
| SRange (v : nat)                 (* for _, a := range v / len(v) / v[i] read / v == nil *)
| SFresh (dst : nat)               (* dst = []interface{}{...} / make(...) / var dst []interface{} *)
| SAppend (dst src : nat)          (* dst = append(src, e1, .., en)  /  append(src, other...) *)
| SStore (v : nat)                 (* v[i] = e / copy(v, ..) *)
| SAlias (dst src : nat)           (* dst = src / dst = src[lo:hi] *)
| SCallSpread (g v : nat)          (* g(.., v...) : the callee's parameter IS v's header *)
| SCallFresh (g : nat)             (* g(.., e1, .., en) : the compiler builds a new array of exactly n cells *)
| SEscape (v : nat).               (* any other use of v (unknown callee, stored, returned, sorted): may write
                                      every cell of v's capacity window *)

Definition prog := list (list stmt).
Definition body (P : prog) (f : nat) : list stmt := nth f P [].

(* one cell written *)
Definition wr (h : heap) (a i : nat) (e : elem) : heap :=
  mkHp (fun a' i' => if Nat.eqb a' a && Nat.eqb i' i then e else cells h a' i') (next h).
(* cells p, p+1, .. of array a *)
Fixpoint wr_many (h : heap) (a p : nat) (es : list elem) : heap :=
  match es with
  | [] => h
  | e :: r => wr_many (wr h a p e) a (S p) r
  end.
(* a new array with contents c *)
Definition alloc (h : heap) (c : nat -> elem) : heap :=
  mkHp (fun a i => if Nat.eqb a (next h) then c i else cells h a i) (S (next h)).

(* what the holder of slice s reads: its len elements *)
Definition view (h : heap) (s : slice) : list elem := map (fun i => cells h (sarr s) (soff s + i)) (seq 0 (slen s)).
(* ... and the whole capacity window *)
Definition window (h : heap) (s : slice) : list elem := map (fun i => cells h (sarr s) (soff s + i)) (seq 0 (scap s)).

(* statements other than calls *)
Inductive local_step : stmt -> env -> heap -> env -> heap -> Prop :=
| ls_range v e h : local_step (SRange v) e h e h
| ls_fresh dst e h c n k :
    local_step (SFresh dst) e h (upd e dst (mkSl (next h) 0 n (n + k))) (alloc h c)
| ls_append_inplace dst src e h (es : list elem) :
    (* room in the backing array: Go writes behind len and returns the same array *)
    slen (e src) + length es <= scap (e src) ->
    local_step (SAppend dst src) e h
      (upd e dst (mkSl (sarr (e src)) (soff (e src)) (slen (e src) + length es) (scap (e src))))
      (wr_many h (sarr (e src)) (soff (e src) + slen (e src)) es)
| ls_append_realloc dst src e h (es : list elem) c k :
    scap (e src) < slen (e src) + length es ->
    (forall i, i < slen (e src) -> c i = cells h (sarr (e src)) (soff (e src) + i)) ->
    local_step (SAppend dst src) e h
      (upd e dst (mkSl (next h) 0 (slen (e src) + length es) (slen (e src) + length es + k)))
      (alloc h c)
| ls_store v e h i x :
    i < slen (e v) ->
    local_step (SStore v) e h e (wr h (sarr (e v)) (soff (e v) + i) x)
| ls_alias dst src e h lo hi :
    lo <= hi -> hi <= scap (e src) ->
    local_step (SAlias dst src) e h
      (upd e dst (mkSl (sarr (e src)) (soff (e src) + lo) (hi - lo) (scap (e src) - lo))) h
| ls_escape v e h h' :
    next h' = next h ->
    (forall a i, cells h' a i <> cells h a i ->
                 a = sarr (e v) /\ soff (e v) <= i < soff (e v) + scap (e v)) ->
    local_step (SEscape v) e h e h'.

(* executions of function f: any sequence of statements of its body *)
Inductive exec (P : prog) : nat -> env -> heap -> env -> heap -> Prop :=
| ex_done f e h : exec P f e h e h
| ex_local f s e h e1 h1 e2 h2 :
    In s (body P f) -> local_step s e h e1 h1 -> exec P f e1 h1 e2 h2 -> exec P f e h e2 h2
| ex_call_spread f g v e h eg h1 e2 h2 :
    In (SCallSpread g v) (body P f) ->
    exec P g (param_env (e v)) h eg h1 ->
    exec P f e h1 e2 h2 -> exec P f e h e2 h2
| ex_call_fresh f g e h c n eg h1 e2 h2 :
    In (SCallFresh g) (body P f) ->
    exec P g (param_env (mkSl (next h) 0 n n)) (alloc h c) eg h1 ->
    exec P f e h1 e2 h2 -> exec P f e h e2 h2.

(* ------------------------------------------------------------------ the static check
   T = the (function, variable) pairs that may hold an array of the CALLER ("tainted").  The parameters of the
   exported entry points are tainted; aliases and spread calls pass the taint on.  A program is accepted iff no
   statement writes through a tainted variable. *)
Definition taint := list (nat * nat).
Definition tainted (T : taint) (f v : nat) : bool :=
  existsb (fun p => Nat.eqb (fst p) f && Nat.eqb (snd p) v) T.

Definition stmt_ok (T : taint) (f : nat) (s : stmt) : bool :=
  match s with
  | SRange _ => true
  | SFresh _ => true
  | SAppend _ src => negb (tainted T f src)
  | SStore v => negb (tainted T f v)
  | SEscape v => negb (tainted T f v)
  | SAlias dst src => implb (tainted T f src) (tainted T f dst)
  | SCallSpread g v => implb (tainted T f v) (tainted T g 0)
  | SCallFresh _ => true
  end.

Fixpoint funs_ok_from (T : taint) (f : nat) (P : prog) : bool :=
  match P with
  | [] => true
  | b :: r => forallb (stmt_ok T f) b && funs_ok_from T (S f) r
  end.
Definition prog_ok (T : taint) (P : prog) : bool := funs_ok_from T 0 P.

(* taint inference: close the roots under alias / spread call, |P| * (max body) rounds are more than enough;
   the soundness theorem does not depend on how T was found *)
Definition add (T : taint) (f v : nat) : taint := if tainted T f v then T else (f, v) :: T.
Definition prop_stmt (f : nat) (T : taint) (s : stmt) : taint :=
  match s with
  | SAlias dst src => if tainted T f src then add T f dst else T
  | SCallSpread g v => if tainted T f v then add T g 0 else T
  | _ => T
  end.
Fixpoint prop_from (T : taint) (f : nat) (P : prog) : taint :=
  match P with
  | [] => T
  | b :: r => prop_from (fold_left (prop_stmt f) b T) (S f) r
  end.
Fixpoint iter_taint (n : nat) (T : taint) (P : prog) : taint :=
  match n with
  | O => T
  | S m => iter_taint m (prop_from T 0 P) P
  end.
Definition stmts_total (P : prog) : nat := fold_left (fun n b => n + length b) P 0.
Definition infer_taint (P : prog) (roots : list nat) : taint :=
  iter_taint (S (stmts_total P)) (map (fun r => (r, 0)) roots) P.

Definition roots_tainted (T : taint) (roots : list nat) : bool := forallb (fun r => tainted T r 0) roots.

Definition args_safe (P : prog) (roots : list nat) : bool :=
  let T := infer_taint P roots in prog_ok T P && roots_tainted T roots.

(* diagnosis: (function, statement index) of the statements that write through a tainted variable *)
Fixpoint bad_stmts_from (T : taint) (f i : nat) (b : list stmt) : list (nat * nat) :=
  match b with
  | [] => []
  | s :: r => (if stmt_ok T f s then [] else [(f, i)]) ++ bad_stmts_from T f (S i) r
  end.
Fixpoint bad_from (T : taint) (f : nat) (P : prog) : list (nat * nat) :=
  match P with
  | [] => []
  | b :: r => bad_stmts_from T f 0 b ++ bad_from T (S f) r
  end.
Definition args_unsafe_sites (P : prog) (roots : list nat) : list (nat * nat) :=
  bad_from (infer_taint P roots) 0 P.
