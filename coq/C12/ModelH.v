(* C12/ModelH.v — HISTORIES of entry-point calls that share a persistent, caller-owned InSitu struct.

   Round 1 modelled ONE call of the wrapper idiom ([ModelM.entry]).  The algorithm packages of /repo, however,
   take a POINTER to the caller's InSitu struct and store into it whatever they allocate
   (qrAlgorithm.Run: `if inSitu.H == nil { inSitu.H = a.CloneMatrix() }`), and callers such as newton.go reuse
   that struct for the next matrix with InitializeH = true (`inSitu.H.Set(a2)`, then the in-place Hessenberg /
   QR steps on inSitu.H).  Whatever the InSitu struct references after call k is therefore WRITTEN by call k+1:
   a reference to an input retained in the struct (`inSitu.H = a`) is invisible in call k and destroys the input
   of call k in call k+1.

   Part A is an abstract heap model: locations hold values of an arbitrary type V, the InSitu struct is the list
   of locations it references, a call is an ARBITRARY state transformer (the algorithm bodies are not modelled),
   and the caller creates inputs / buffers between calls.  Part B is the concrete wrapper over C10's storage heap
   with the buffer kept across calls, in the two variants "clone" (the code of /repo) and "retain" (the seeded
   regression).  No proofs in this file. *)
From Coq Require Import ZArith List Bool Arith.
From ADV Require Import Base.Corr C10.Gen C10.Model C12.ModelM.
Import ListNotations.
Open Scope nat_scope.

(* ------------------------------------------------------------------ A: abstract histories *)
Section Abstract.
Context {V : Type}.

Record hst := mkHS {
  hs_heap : nat -> V;            (* content of every location *)
  hs_next : nat;                 (* allocation pointer: locations below it exist *)
  hs_refs : list nat }.          (* the locations the caller's InSitu struct references *)

(* a call: given the locations of its arguments it transforms the state and returns locations *)
Definition hbody := list nat -> hst -> hst * list nat.

Inductive hev :=
| HNew (v : V)                   (* the caller creates an object and keeps it (an input of later calls) *)
| HBuf (v : V)                   (* the caller creates a buffer and stores it in the InSitu struct *)
| HPass (l : nat)                (* the caller stores one of HIS objects in the InSitu struct: opt-in to in-place work on it *)
| HFresh                         (* the caller starts over with an empty InSitu struct *)
| HCall (b : hbody) (args : list nat).

Definition hupd (h : nat -> V) (l : nat) (v : V) : nat -> V := fun q => if Nat.eqb q l then v else h q.
Definition memb (l : nat) (ls : list nat) : bool := existsb (Nat.eqb l) ls.

(* the caller's view: the state and the list P of objects he holds and expects to stay as they are.
   Objects a call returns join P unless they alias an InSitu buffer (those are documented work space). *)
Definition hstep (sp : hst * list nat) (e : hev) : hst * list nat :=
  let '(s, P) := sp in
  match e with
  | HNew v => (mkHS (hupd (hs_heap s) (hs_next s) v) (S (hs_next s)) (hs_refs s), hs_next s :: P)
  | HBuf v => (mkHS (hupd (hs_heap s) (hs_next s) v) (S (hs_next s)) (hs_next s :: hs_refs s), P)
  | HPass l => (mkHS (hs_heap s) (hs_next s) (l :: hs_refs s), filter (fun q => negb (Nat.eqb q l)) P)
  | HFresh => (mkHS (hs_heap s) (hs_next s) [], P)
  | HCall b args =>
      let '(s', outs) := b args s in
      (s', filter (fun l => Nat.leb (hs_next s) l && negb (memb l (hs_refs s'))) outs ++ P)
  end.
Definition hrun (sp : hst * list nat) (evs : list hev) : hst * list nat := fold_left hstep evs sp.

(* two example bodies: the seeded regression (store the first argument in the InSitu, compute nothing) and an
   in-place algorithm (overwrite every InSitu buffer) *)
Definition b_retain : hbody := fun args s => (mkHS (hs_heap s) (hs_next s) (args ++ hs_refs s), []).
Definition b_scribble (v : V) : hbody := fun _ s =>
  (mkHS (fun q => if memb q (hs_refs s) then v else hs_heap s q) (hs_next s) (hs_refs s), hs_refs s).
(* the code of /repo: clone the argument into a NEW location, keep that in the InSitu, work on it *)
Definition b_clone (f : V -> V) : hbody := fun args s =>
  match args, hs_refs s with
  | a :: _, [] => (mkHS (hupd (hs_heap s) (hs_next s) (f (hs_heap s a))) (S (hs_next s)) [hs_next s], [hs_next s])
  | a :: _, h :: r => (mkHS (hupd (hs_heap s) h (f (hs_heap s a))) (hs_next s) (h :: r), [h])
  | [], _ => (s, [])
  end.
End Abstract.
Arguments hst : clear implicits.
Arguments hbody : clear implicits.
Arguments hev : clear implicits.

(* ------------------------------------------------------------------ B: the concrete wrapper, buffer kept across calls *)
Definition same_obj (b a : mat) : bool :=
  Nat.eqb (d_values b) (d_values a) && list_eqb Z.eqb (hdr_list b) (hdr_list a).

(* one call (qrAlgorithm.Run / svd.Run / hessenbergReduction.Run ... prelude + body):
     if inSitu.H == nil { inSitu.H = a.CloneMatrix() }
     else if inSitu.H != a && init { inSitu.H.Set(a) }          -- svd & co: init = true always
     body(inSitu.H)
   returns the new heap and the matrix now stored in the caller's struct *)
Definition entry_p (real : bool) (body : heap -> mat -> R heap) (H : heap) (init : bool) (a : mat) (buf : option mat)
  : R (heap * mat) :=
  match buf with
  | None => let '(H1, w) := mClone H a in H2 <- body H1 w ;; ROk (H2, w)
  | Some b => H1 <- (if init && negb (same_obj b a) then mSet real H b a else ROk H) ;;
              H2 <- body H1 b ;; ROk (H2, b)
  end.
(* the seeded regression: `inSitu.H = a` in the nil branch *)
Definition entry_p_retain (real : bool) (body : heap -> mat -> R heap) (H : heap) (init : bool) (a : mat) (buf : option mat)
  : R (heap * mat) :=
  match buf with
  | None => H2 <- body H a ;; ROk (H2, a)
  | Some b => entry_p real body H init a (Some b)
  end.

(* a history: the struct is threaded through *)
Fixpoint entry_seq (one : heap -> bool -> mat -> option mat -> R (heap * mat))
                   (H : heap) (buf : option mat) (calls : list (bool * mat)) : R (heap * option mat) :=
  match calls with
  | [] => ROk (H, buf)
  | (init, a) :: r => '(H', w) <- one H init a buf ;; entry_seq one H' (Some w) r
  end.
