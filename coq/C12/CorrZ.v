(* C12 correspondence, exact-integer streams (see Corr.v for the overview).
   M: dense matrix world (ModelM.v over C10's heap) — per step the harness reports the storages
      that changed or are new (identified by the address of the backing array) and the header +
      storage location of new matrices; the check demands model = reported there and
      model-unchanged everywhere else.
   V: sparse vectors — C11's model replayed on clone-then-mutate histories, per-step outcome,
      payload and checksum of the observation of the whole world (Dim, ConstAt of every index,
      private map, index keys, iteration sequence of a clone — of EVERY vector, so a write that
      leaks from one copy into the other changes the checksum). *)
From Coq Require Import ZArith List Bool.
From ADV Require Import Base.Corr C10.Gen C10.Model C11.Model C12.ModelM.
Import ListNotations.
Open Scope Z_scope.

Record mobs := mkMO {
  mo_op : mop;
  mo_kind : nat;                                 (* 0 = returned, 1 = panicked *)
  mo_stores : list (nat * list Z);               (* storages that are new or changed *)
  mo_hdrs : list (nat * (nat * list Z)) }.       (* new handles: storage location, header *)
Record mcase := mkMC { mc_real : bool; mc_steps : list mobs }.

Fixpoint alookup {X} (k : nat) (l : list (nat * X)) : option X :=
  match l with [] => None | (k', x) :: r => if Nat.eqb k k' then Some x else alookup k r end.
Definition zl_eqb := list_eqb Z.eqb.

Definition check_stores (w w' : MW) (o : mobs) : bool :=
  forallb (fun l => match alookup l (mo_stores o) with
                    | Some s => zl_eqb (store_of (m_heap w') l) s
                    | None => zl_eqb (store_of (m_heap w') l) (store_of (m_heap w) l) && Nat.ltb l (length (m_heap w))
                    end) (seq 0 (length (m_heap w')))
  && forallb (fun ls => Nat.ltb (fst ls) (length (m_heap w'))) (mo_stores o).
Definition check_hdrs (w w' : MW) (o : mobs) : bool :=
  forallb (fun t => match alookup t (mo_hdrs o) with
                    | Some (l, h) => Nat.eqb (d_values (getm w' t)) l && zl_eqb (hdr_list (getm w' t)) h
                    | None => Nat.ltb t (length (m_mats w))
                    end) (seq 0 (length (m_mats w')))
  && forallb (fun th => Nat.ltb (fst th) (length (m_mats w'))) (mo_hdrs o).

Fixpoint mcheck_from (real : bool) (w : MW) (l : list mobs) : bool :=
  match l with
  | [] => true
  | o :: r =>
      match mstep real w (mo_op o) with
      | ROk w' => Nat.eqb (mo_kind o) 0 && check_stores w w' o && check_hdrs w w' o && mcheck_from real w' r
      | RPanic => Nat.eqb (mo_kind o) 1 && match r with [] => true | _ => false end
      | RFuel => false
      end
  end.
Definition mcheck (c : mcase) : bool := mcheck_from (mc_real c) minit (mc_steps c).
Definition mmism (cs : list mcase) : list nat := mismatches mcheck cs.
Fixpoint mdiverge_from (n : nat) (real : bool) (w : MW) (l : list mobs) : option nat :=
  match l with
  | [] => None
  | o :: r =>
      match mstep real w (mo_op o) with
      | ROk w' => if Nat.eqb (mo_kind o) 0 && check_stores w w' o && check_hdrs w w' o then mdiverge_from (S n) real w' r else Some n
      | RPanic => if Nat.eqb (mo_kind o) 1 then None else Some n
      | RFuel => Some n
      end
  end.
Definition mdiverge (c : mcase) := mdiverge_from 0 (mc_real c) minit (mc_steps c).

(* ------------------------------------------------------------------ stream V *)
Definition vout := (Z * list Z * Z)%type.
Definition vout_eqb (a b : vout) : bool :=
  let '(k1, p1, h1) := a in let '(k2, p2, h2) := b in (k1 =? k2) && list_eqb Z.eqb p1 p2 && (h1 =? h2).
Fixpoint vrun_obs (w : world) (ops : list op) : list vout :=
  match ops with
  | [] => []
  | o :: r => let '(w', (k, p)) := step w o in (k, p, hash (obs_world w')) :: vrun_obs w' r
  end.
Definition vcase := (list op * list vout)%type.
Definition vcheck (c : vcase) : bool := list_eqb vout_eqb (vrun_obs init (fst c)) (snd c).
Definition vmism (cs : list vcase) : list nat := mismatches vcheck cs.
Definition vdiverge (c : vcase) : option nat := first_diff vout_eqb 0 (vrun_obs init (fst c)) (snd c).
