(* C20 — termination: bounds for capped loops (every body / oracle), exact non-termination
   witnesses for uncapped ones. *)
From Coq Require Import ZArith List Bool Lia QArith.
From ADV Require Import Base.Num C20.Model C20.Spec.
Import ListNotations.

(* ------------------------------------------------------------------ capped loops *)
Section Capped.
  Variables (St Res : Type) (step : St -> St + Res).

  Lemma capped_bound : forall cap done s,
    match capped step cap done s with
    | Done _ n => (done < n <= done + cap)%nat
    | CapHit _ n => n = (done + cap)%nat
    | OutOfFuel _ => False
    end.
  Proof.
    induction cap as [|cap IH]; intros done s; simpl.
    - lia.
    - destruct (step s) as [s'|r].
      + specialize (IH (S done) s'). destruct (capped step cap (S done) s'); lia.
      + lia.
  Qed.

  Lemma capped_iters_le_cap cap s n : iters_of (capped step cap 0 s) = Some n -> (n <= cap)%nat.
  Proof.
    intro H. pose proof (capped_bound cap 0 s) as B.
    destruct (capped step cap 0 s); simpl in H; inversion H; subst; lia.
  Qed.
  Lemma capped_terminates cap s : exists n, iters_of (capped step cap 0 s) = Some n.
  Proof.
    pose proof (capped_bound cap 0 s) as B.
    destruct (capped step cap 0 s); simpl; eauto. contradiction.
  Qed.
  (* a body that never leaves the loop early runs exactly cap times *)
  Lemma capped_no_exit : (forall s, exists s', step s = inl s') ->
    forall cap done s, exists s', capped step cap done s = CapHit s' (done + cap).
  Proof.
    intros H. induction cap as [|cap IH]; intros done s; simpl.
    - exists s. f_equal. lia.
    - destruct (H s) as [s' E]. rewrite E. destruct (IH (S done) s') as [s'' E']. exists s''. rewrite E'. f_equal. lia.
  Qed.
End Capped.

(* ------------------------------------------------------------------ line search: MaxEval + 2 evaluations *)
Section LS.
  Variables (oracle_ls : nat -> ls_branch) (oracle_zm : nat -> zm_branch) (alpha_zero : nat -> bool).
  Lemma zoom_bound : forall budget i evals, (zoom oracle_zm budget i evals <= evals + budget)%nat.
  Proof.
    induction budget as [|b IH]; intros i evals; simpl; [lia|].
    destruct (oracle_zm i); try lia; specialize (IH (S i) (S evals)); lia.
  Qed.
  Lemma ls_outer_bound : forall rem i evals,
    (ls_outer oracle_ls oracle_zm alpha_zero rem i evals <= evals + rem + 1)%nat.
  Proof.
    induction rem as [|rem IH]; intros i evals; simpl; [lia|].
    destruct (alpha_zero i); [lia|].
    destruct (oracle_ls i); try lia.
    - pose proof (zoom_bound (S rem) 0 (S evals)). simpl in H. simpl. lia.
    - pose proof (zoom_bound (S rem) 0 (S evals)). simpl in H. simpl. lia.
    - specialize (IH (S i) (S evals)). lia.
  Qed.
  Lemma linesearch_evals_bound maxEval :
    (linesearch_evals oracle_ls oracle_zm alpha_zero maxEval <= maxEval + 2)%nat.
  Proof. unfold linesearch_evals. pose proof (ls_outer_bound maxEval 0 1). lia. Qed.
End LS.

(* ------------------------------------------------------------------ non-termination *)
Section Never.
  Variables (St Res : Type) (step : St -> St + Res).
  Definition ne (s : St) : Prop := forall fuel done, exists s', uncapped step fuel done s = OutOfFuel s'.

  Lemma ne_never_exits s : ne s -> never_exits step s.
  Proof. intros H fuel. apply H. Qed.
  Lemma ne_step s s' : step s = inl s' -> ne s' -> ne s.
  Proof.
    intros E H fuel done. destruct fuel as [|fuel]; simpl; [eauto|]. rewrite E. apply H.
  Qed.
  Lemma ne_fixed s : step s = inl s -> ne s.
  Proof.
    intros E fuel. induction fuel as [|fuel IH]; intro done; simpl; [eauto|]. rewrite E. apply IH.
  Qed.
  Lemma ne_period2 a b : step a = inl b -> step b = inl a -> ne a.
  Proof.
    intros Ea Eb.
    assert (H : forall fuel done, (exists s', uncapped step fuel done a = OutOfFuel s') /\
                                  (exists s', uncapped step fuel done b = OutOfFuel s')).
    { induction fuel as [|fuel IH]; intro done; simpl; [split; eauto|].
      rewrite Ea, Eb. destruct (IH (S done)) as [A B]. split; assumption. }
    intros fuel done. apply H.
  Qed.
  (* a loop whose exit branch is never taken *)
  Lemma ne_no_exit : (forall s, exists s', step s = inl s') -> forall s, ne s.
  Proof.
    intros H s fuel. revert s. induction fuel as [|fuel IH]; intros s done; simpl; [eauto|].
    destruct (H s) as [s' E]. rewrite E. apply IH.
  Qed.
End Never.
Arguments ne {St Res}.

(* exact rational instances *)
Local Open Scope Q_scope.
Definition eps18 : Q := 1 # 1000000000000000000.
Definition tol8 : Q := 1 # 100000000.
Definition Qblk (a b c d : Q) : blk := mkblk a b c d.

(* F-QR-HANG: the 2x2 block loop of qrAlgorithm on [[0,1],[1,0]] — the exact iterates alternate
   between [[0,1],[1,0]] and [[0,-1],[-1,0]], the exit test |h21| <= eps(|h11|+|h22|) = 0 never holds *)
Lemma qr_block_swap_period :
  qr_block_step NumQ eps18 (Qblk 0 1 1 0) = inl (Qblk 0 (-1) (-1) 0) /\
  qr_block_step NumQ eps18 (Qblk 0 (-1) (-1) 0) = inl (Qblk 0 1 1 0).
Proof. split; vm_compute; reflexivity. Qed.
Lemma qr_block_loop_nonterminating : never_exits (qr_block_step NumQ eps18) (Qblk 0 1 1 0).
Proof. apply ne_never_exits. destruct qr_block_swap_period as [A B]. eapply ne_period2; eassumption. Qed.
(* the same on the symmetric positive definite matrix [[2,1],[1,2]] *)
Lemma qr_block_spd_period :
  qr_block_step NumQ eps18 (Qblk 2 1 1 2) = inl (Qblk 2 (-1) (-1) 2) /\
  qr_block_step NumQ eps18 (Qblk 2 (-1) (-1) 2) = inl (Qblk 2 1 1 2).
Proof. split; vm_compute; reflexivity. Qed.
Lemma qr_block_loop_spd_nonterminating : never_exits (qr_block_step NumQ eps18) (Qblk 2 1 1 2).
Proof. apply ne_never_exits. destruct qr_block_spd_period as [A B]. eapply ne_period2; eassumption. Qed.
(* and the whole 2x2 run reaches that loop: neither the deflation test nor the complex-eigenvalue test fires *)
Lemma qr_spd_reaches_loop :
  qr_deflate NumQ eps18 (Qblk 2 1 1 2) = Qblk 2 1 1 2 /\ qr_skip NumQ (Qblk 2 1 1 2) = false.
Proof. split; vm_compute; reflexivity. Qed.
Lemma qr_run2_spd_out_of_fuel fuel : exists s, qr_run2 NumQ eps18 fuel (Qblk 2 1 1 2) = OutOfFuel s.
Proof.
  destruct qr_spd_reaches_loop as [A B]. unfold qr_run2. rewrite A, B.
  apply qr_block_loop_spd_nonterminating.
Qed.

(* Denman–Beavers msqrt on [[-3]]: after the first step the state has period 2 *)
Definition msq_A : Q * Q * Q * Q := ((-1), 1, 1 # 3, (-1) # 3)%Q.
Definition msq_B : Q * Q * Q * Q := (1, (-1), (-1) # 3, 1 # 3)%Q.
Lemma msqrt_orbit :
  msqrt_init NumQ (-3) = Some ((-3), (-1), 1, 1 # 3)%Q /\
  msqrt_step NumQ tol8 ((-3), (-1), 1, 1 # 3)%Q = inl msq_A /\
  msqrt_step NumQ tol8 msq_A = inl msq_B /\ msqrt_step NumQ tol8 msq_B = inl msq_A.
Proof. repeat split; vm_compute; reflexivity. Qed.
Lemma msqrt_nonterminating : exists s0, msqrt_init NumQ (-3) = Some s0 /\ never_exits (msqrt_step NumQ tol8) s0.
Proof.
  destruct msqrt_orbit as (I & S0 & SA & SB). eexists; split; [exact I|].
  apply ne_never_exits. eapply ne_step; [exact S0|]. eapply ne_period2; eassumption.
Qed.
Lemma msqrtinv_orbit :
  msqrtinv_init NumQ (-3) = Some (1, (-1))%Q /\
  msqrtinv_step NumQ (-3) tol8 (1, (-1))%Q = inl ((-1), 1)%Q /\
  msqrtinv_step NumQ (-3) tol8 ((-1), 1)%Q = inl (1, (-1))%Q.
Proof. repeat split; vm_compute; reflexivity. Qed.
Lemma msqrtinv_nonterminating :
  exists s0, msqrtinv_init NumQ (-3) = Some s0 /\ never_exits (msqrtinv_step NumQ (-3) tol8) s0.
Proof.
  destruct msqrtinv_orbit as (I & A & B). eexists; split; [exact I|].
  apply ne_never_exits. eapply ne_period2; eassumption.
Qed.

(* gradientDescent on x^2 with step 1 from x0 = 1: x alternates between 1 and -1 *)
Lemma gd_orbit : gd_step NumQ 1 tol8 1 = inl (-1)%Q /\ gd_step NumQ 1 tol8 (-1) = inl 1%Q.
Proof. split; vm_compute; reflexivity. Qed.
Lemma gd_nonterminating : never_exits (gd_step NumQ 1 tol8) 1%Q.
Proof. apply ne_never_exits. destruct gd_orbit. eapply ne_period2; eassumption. Qed.

(* Tip() on the 2x2 view of a 3x3 matrix: mn = 9, rows = 2, cycle = 1: k = 1, 2, 4, 0, 0, 0, ... *)
Lemma tip_view_nonterminating : never_exits (tip_step 2%Z 9%Z 1%Z) 1%Z.
Proof.
  apply ne_never_exits.
  eapply ne_step; [vm_compute; reflexivity|]. eapply ne_step; [vm_compute; reflexivity|].
  eapply ne_step; [vm_compute; reflexivity|]. apply ne_fixed. vm_compute. reflexivity.
Qed.

(* lineSearch: for !constraints(alpha) { alpha *= 0.5 } with a constraint that rejects every alpha;
   rprop / newton: for { if valid(trial) break; shrink } with a trial point that is never valid *)
Lemma retry_nonterminating St (shrink : St -> St) s : never_exits (retry_step (fun _ => false) shrink) s.
Proof. apply ne_never_exits, ne_no_exit. intro s0. exists (shrink s0). reflexivity. Qed.
Lemma ls_constraints_nonterminating (alpha : Q) : never_exits (lsc_step NumQ (fun _ => false)) alpha.
Proof. apply ne_never_exits, ne_no_exit. intro s0. eexists. reflexivity. Qed.
(* ... and it does exit as soon as some iterate is accepted: the loop is exactly as strong as its oracle *)
Lemma retry_exits_when_accepted St (accept : St -> bool) (shrink : St -> St) s :
  accept s = true -> uncapped (retry_step accept shrink) 1%nat 0%nat s = Done s 1%nat.
Proof. intro H. simpl. unfold retry_step. rewrite H. reflexivity. Qed.
