(* C20 round 2 — bookkeeping theorems about the zero-diagonal scan of svd.golubKahanSVD. *)
From Coq Require Import ZArith List Bool Lia.
From ADV Require Import C20.ModelSvd.
Import ListNotations.
Open Scope Z_scope.

Section Proofs.
  Variable St : Type.
  Variable diag_zero : St -> Z -> bool.
  Variable zero_row : St -> Z -> St.
  Variable gk_step : St -> Z -> Z -> St.
  Variable threshold : St -> St.
  Variable split : St -> Z -> Z * Z.
  Notation scan := (svd_scan St diag_zero zero_row).
  Notation scan_block := (svd_scan_block St diag_zero zero_row).

  (* the flag t is cleared exactly when zeroRow was called; calls only grow *)
  Lemma scan_flag cnt : forall k s t calls s' t' calls',
    scan cnt k s t calls = (s', t', calls') ->
    (t' = true -> t = true /\ calls' = calls /\ s' = s) /\ (exists more, calls' = more ++ calls) /\
    (t = false -> t' = false).
  Proof.
    induction cnt as [|c IH]; intros k s t calls s' t' calls' H; simpl in H.
    - inversion H; subst. split; [auto|]. split; [exists []; reflexivity|auto].
    - destruct (diag_zero s k) eqn:Dz.
      + apply IH in H. destruct H as (H1 & (more & H2) & H3).
        split; [|split].
        * intro Ht. destruct (H1 Ht) as (Hf & _). discriminate Hf.
        * exists (more ++ [k]). rewrite <- app_assoc. exact H2.
        * intros _. apply H3. reflexivity.
      + apply IH in H. exact H.
  Qed.

  (* positions before the first zero are passed over without touching the state *)
  Lemma scan_skip_nonzero cnt : forall k s t calls,
    (forall j, k <= j < k + Z.of_nat cnt -> diag_zero s j = false) ->
    scan cnt k s t calls = (s, t, calls).
  Proof.
    induction cnt as [|c IH]; intros k s t calls H; simpl; [reflexivity|].
    rewrite (H k) by lia. apply IH. intros j Hj. apply H. lia.
  Qed.

  Lemma scan_split a : forall b k s t calls,
    scan (a + b) k s t calls =
    (let '(s1, t1, c1) := scan a k s t calls in scan b (k + Z.of_nat a) s1 t1 c1).
  Proof.
    induction a as [|a IH]; intros b k s t calls.
    - simpl. f_equal. lia.
    - cbn [Nat.add svd_scan]. destruct (diag_zero s k).
      + rewrite IH. destruct (scan a (k + 1) (zero_row s k) false (k :: calls)) as [[s1 t1] c1].
        f_equal. lia.
      + rewrite IH. destruct (scan a (k + 1) s t calls) as [[s1 t1] c1]. f_equal. lia.
  Qed.

  (* THE bookkeeping theorem: if the block [p, hi) holds an exactly-zero diagonal entry, then the
     scan calls zeroRow on the FIRST such position k0, in the unmodified state, as its first call,
     and clears t (so the Golub-Kahan step is not taken in this pass). *)
  Lemma scan_first_zero p hi s k0 :
    p <= k0 < hi -> diag_zero s k0 = true -> (forall j, p <= j < k0 -> diag_zero s j = false) ->
    exists s' later,
      scan_block p hi s = (s', false, later ++ [k0]) /\
      scan (Z.to_nat (hi - k0 - 1)) (k0 + 1) (zero_row s k0) false [k0] = (s', false, later ++ [k0]).
  Proof.
    intros Hk Hz Hnz. unfold svd_scan_block.
    replace (Z.to_nat (hi - p)) with (Z.to_nat (k0 - p) + S (Z.to_nat (hi - k0 - 1)))%nat by lia.
    rewrite scan_split. rewrite scan_skip_nonzero by (intros j Hj; apply Hnz; lia).
    replace (p + Z.of_nat (Z.to_nat (k0 - p))) with k0 by lia.
    cbn [svd_scan]. rewrite Hz.
    destruct (scan (Z.to_nat (hi - k0 - 1)) (k0 + 1) (zero_row s k0) false [k0]) as [[s' t'] calls'] eqn:E.
    pose proof (scan_flag _ _ _ _ _ _ _ _ E) as (_ & (more & Hm) & Hf).
    rewrite (Hf eq_refl) in *. subst calls'. exists s', more. split; reflexivity.
  Qed.

  (* any zero: there is a least one (decidable search over the finite block) *)
  Lemma first_zero_exists s : forall cnt p k0,
    p <= k0 < p + Z.of_nat cnt -> diag_zero s k0 = true ->
    exists k1, p <= k1 <= k0 /\ diag_zero s k1 = true /\ forall j, p <= j < k1 -> diag_zero s j = false.
  Proof.
    induction cnt as [|c IH]; intros p k0 Hk Hz; [lia|].
    destruct (diag_zero s p) eqn:Dp.
    - exists p. split; [lia|]. split; [exact Dp|]. intros j Hj. lia.
    - assert (k0 <> p) by (intro; subst; congruence).
      destruct (IH (p + 1) k0) as (k1 & Hk1 & Hz1 & Hn1); [lia|exact Hz|].
      exists k1. split; [lia|]. split; [exact Hz1|]. intros j Hj.
      destruct (Z.eq_dec j p); [subst; exact Dp|apply Hn1; lia].
  Qed.

  Lemma scan_any_zero p hi s k0 :
    p <= k0 < hi -> diag_zero s k0 = true ->
    exists k1 s' later, p <= k1 <= k0 /\ diag_zero s k1 = true /\
      scan_block p hi s = (s', false, later ++ [k1]).
  Proof.
    intros Hk Hz.
    destruct (first_zero_exists s (Z.to_nat (hi - p)) p k0) as (k1 & Hk1 & Hz1 & Hn1); [lia|exact Hz|].
    destruct (scan_first_zero p hi s k1) as (s' & later & E & _); [lia|exact Hz1|exact Hn1|].
    exists k1, s', later. split; [lia|]. split; [exact Hz1|exact E].
  Qed.

  (* no zero in the scanned range: nothing is called, the state is untouched, t stays true *)
  Lemma scan_no_zero p hi s :
    (forall j, p <= j < hi -> diag_zero s j = false) -> scan_block p hi s = (s, true, []).
  Proof. intro H. unfold svd_scan_block. apply scan_skip_nonzero. intros j Hj. apply H. lia. Qed.

  Notation pass_with := (svd_pass_with St diag_zero zero_row gk_step threshold split).
  Notation pass := (svd_pass St diag_zero zero_row gk_step threshold split).

  (* one pass of the CODED loop: an exact zero anywhere in the active block but at its last position
     n-q-1 makes the pass call zeroRow (first on the least such position) and take no GK step *)
  Lemma pass_zero_not_last n s q0 p q k0 :
    split (threshold s) q0 = (p, q) -> q < n - 1 ->
    p <= k0 < n - q - 1 -> diag_zero (threshold s) k0 = true ->
    exists k1 s' rest, p <= k1 <= k0 /\ diag_zero (threshold s) k1 = true /\
      pass n (s, q0) = (s', q, EvZeroRow k1 :: rest) /\
      (forall a b, ~ In (EvGKStep a b) (EvZeroRow k1 :: rest)).
  Proof.
    intros Hs Hq Hk Hz. unfold svd_pass, svd_pass_with, coded_bound. cbn [fst snd]. rewrite Hs.
    destruct (Z.ltb_spec q (n - 1)) as [_|]; [|lia].
    destruct (scan_any_zero p (n - q - 1) (threshold s) k0 Hk Hz) as (k1 & s' & later & Hk1 & Hz1 & E).
    rewrite E. exists k1, s', (map EvZeroRow (rev later)). split; [lia|]. split; [exact Hz1|]. split.
    - rewrite rev_app_distr. reflexivity.
    - intros a b Hin. destruct Hin as [Hin|Hin]; [discriminate|].
      apply in_map_iff in Hin. destruct Hin as (x & Hx & _). discriminate.
  Qed.

  (* the coded scan never looks at the LAST position of the active block: if that is the only
     exact zero, the pass takes the Golub-Kahan step on a block whose last diagonal entry is zero
     (the mechanism of F-SVD-ZERODIAG-HANG) *)
  Lemma pass_zero_last_only n s q0 p q :
    split (threshold s) q0 = (p, q) -> q < n - 1 ->
    (forall j, p <= j < n - q - 1 -> diag_zero (threshold s) j = false) ->
    pass n (s, q0) = (gk_step (threshold s) p q, q, [EvGKStep p q]).
  Proof.
    intros Hs Hq Hn. unfold svd_pass, svd_pass_with, coded_bound. cbn [fst snd]. rewrite Hs.
    destruct (Z.ltb_spec q (n - 1)) as [_|]; [|lia].
    rewrite scan_no_zero by exact Hn. reflexivity.
  Qed.

  (* sensitivity: with the scan bound one smaller (k < n-q-2) an exact zero at the second-to-last
     position of the active block is skipped and the GK step is taken instead *)
  Lemma pass_short_bound_skips n s q0 p q :
    split (threshold s) q0 = (p, q) -> q < n - 1 ->
    (forall j, p <= j < n - q - 2 -> diag_zero (threshold s) j = false) ->
    pass_with (fun n q => n - q - 2) n (s, q0) = (gk_step (threshold s) p q, q, [EvGKStep p q]).
  Proof.
    intros Hs Hq Hn. unfold svd_pass_with. cbn [fst snd]. rewrite Hs.
    destruct (Z.ltb_spec q (n - 1)) as [_|]; [|lia].
    rewrite scan_no_zero by exact Hn. reflexivity.
  Qed.
End Proofs.

(* toy instance: flags [nonzero; ZERO; nonzero; nonzero], whole matrix active (p = 0, q = 0, n = 4) *)
Example pass_instance :
  svd_pass (list bool) flags_zero flags_zero_row (fun s _ _ => s) (fun s => s) (fun _ q => (0, q)) 4
           ([false; true; false; false], 0)
  = ([false; false; false; false], 0, [EvZeroRow 1]).
Proof. reflexivity. Qed.
Example pass_instance_second_to_last :
  svd_pass (list bool) flags_zero flags_zero_row (fun s _ _ => s) (fun s => s) (fun _ q => (0, q)) 4
           ([false; false; true; false], 0)
  = ([false; false; false; false], 0, [EvZeroRow 2]) /\
  svd_pass_with (list bool) flags_zero flags_zero_row (fun s _ _ => s) (fun s => s) (fun _ q => (0, q))
           (fun n q => n - q - 2) 4 ([false; false; true; false], 0)
  = ([false; false; true; false], 0, [EvGKStep 0 0]).
Proof. split; reflexivity. Qed.
Example pass_instance_last :
  svd_pass (list bool) flags_zero flags_zero_row (fun s _ _ => s) (fun s => s) (fun _ q => (0, q)) 4
           ([false; false; false; true], 0)
  = ([false; false; false; true], 0, [EvGKStep 0 0]).
Proof. reflexivity. Qed.
