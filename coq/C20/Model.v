(* C20 — executable model.  Two halves.

   (G) GUARDS.  For the public vector / matrix / scalar operations and algorithm
   entry points of /repo the model keeps only what decides *whether the call
   fails and whether it wrote to the receiver before failing*: operand shapes
   (vector: kind, dim, capacity; matrix: kind + the seven header fields + the
   length of the backing storage), the guard each operation performs (the
   `if ... panic / return error` of the Go code, in the Go order), and the index
   accesses of its loops, each checked against the length of the storage it
   touches.  A run yields
        (kind of outcome, receiver written?, shape of the result).
   Outcome kinds: KOk, KPanic (explicit panic(...) of the library), KRt (a Go
   runtime-error panic: slice index out of range, makeslice ...), KErr (error value).

   (T) LOOPS.  Every data-dependent loop of the iterative routines as a
   fuel-indexed skeleton over an abstract body (Section variables), the exit test
   being the coded one; plus exact (carrier-polymorphic) bodies for the loops for
   which a non-termination witness exists (QR 2x2 block loop, Denman–Beavers
   msqrt, msqrtInv, gradient descent, Tip's cycle follower).

   No proofs in this file. *)
From Coq Require Import ZArith List Bool QArith.
From ADV Require Import Base.Num.
Import ListNotations.
Open Scope Z_scope.

(* ------------------------------------------------------------------ outcomes *)

Inductive kind := KOk | KPanic | KRt | KErr.
Definition kind_eqb (a b : kind) : bool :=
  match a, b with KOk, KOk | KPanic, KPanic | KRt, KRt | KErr, KErr => true | _, _ => false end.
Definition kcode (k : kind) : Z := match k with KOk => 0 | KPanic => 1 | KRt => 2 | KErr => 3 end.

(* M: a computation threads the "receiver written" flag and may stop with a failure kind *)
Definition M := bool -> kind * bool.
Definition ret : M := fun d => (KOk, d).
Definition fail (k : kind) : M := fun d => (k, d).
Definition seq (a b : M) : M := fun d => match a d with (KOk, d') => b d' | r => r end.
Definition mark : M := fun _ => (KOk, true).          (* a write to the receiver's storage *)
Definition chk (k : kind) : M := match k with KOk => ret | _ => fail k end.
Definition when (b : bool) (a : M) : M := if b then a else ret.
Notation "a ;; b" := (seq a b) (at level 61, right associativity).

(* for i := 0; i < n; i++ { body i } *)
Fixpoint for_from (n : nat) (i : Z) (body : Z -> M) : M :=
  match n with
  | O => ret
  | S n' => body i ;; for_from n' (i + 1) body
  end.
Definition forZ (n : Z) (body : Z -> M) : M := for_from (Z.to_nat n) 0 body.

(* ------------------------------------------------------------------ shapes *)

Inductive ckind := Dense | DenseR | Sparse.   (* DenseR: dense Real32/Real64 matrices (carry tmp vectors) *)
Definition is_sparse (k : ckind) : bool := match k with Sparse => true | _ => false end.

Record vec := mkvec { vk : ckind; vdim : Z; vcap : Z }.

Record mat := mkmat { mk : ckind; mlen : Z; rows : Z; cols : Z;
                      roff : Z; rmax : Z; coff : Z; cmax : Z; tr : bool }.

Definition inb (i n : Z) : bool := (0 <=? i) && (i <? n).

(* element access of a vector: dense = Go slice indexing (runtime bounds check against len),
   sparse = the explicit `if i < 0 || i >= obj.Dim() { panic }` of AT/At/ConstAt/..At *)
Definition vacc (v : vec) (i : Z) : kind :=
  if inb i (vdim v) then KOk else if is_sparse (vk v) then KPanic else KRt.

(* constructors and views *)
Definition mnew (k : ckind) (L r c : Z) : mat :=
  mkmat k (match k with Dense => L | _ => r * c end) r c 0 r 0 c false.
Definition mslice (m : mat) (a b c d : Z) : mat :=
  mkmat (mk m) (mlen m) (b - a) (d - c) (roff m + a) (rmax m) (coff m + c) (cmax m) (tr m).
Definition mT (m : mat) : mat :=
  mkmat (mk m) (mlen m) (cols m) (rows m) (coff m) (cmax m) (roff m) (rmax m) (negb (tr m)).

(* matrix.index(i, j) *)
Definition mindex (m : mat) (i j : Z) : Z :=
  if tr m then (coff m + j) * rmax m + (roff m + i) else (roff m + i) * cmax m + (coff m + j).
(* element access: the explicit bounds panic of index(), then the storage access *)
Definition macc (m : mat) (i j : Z) : kind :=
  if negb (inb i (rows m) && inb j (cols m)) then KPanic
  else if inb (mindex m i j) (mlen m) then KOk
  else if is_sparse (mk m) then KPanic else KRt.

(* ------------------------------------------------------------------ calls *)

Inductive call :=
| VewV (o : Z) (r a b : vec) | VewS (o : Z) (r a : vec)
| VMdotV (r : vec) (a : mat) (b : vec) (alias : bool)
| VVdotM (r : vec) (a : vec) (b : mat) (alias : bool)
| VSet (r a : vec) | VAt (r : vec) (i : Z) | VSlice (r : vec) (i j : Z) | VSwap (r : vec) (i j : Z)
| VPermute (r : vec) (pi : list Z) | VAsMatrix (r : vec) (n m : Z)
| VNewSparse (idx : list Z) (nvals n : Z)
| MewM (o : Z) (r a b : mat) | MewS (o : Z) (r a : mat) | MdotM (r a b : mat) (alias : bool)
| MOuter (r : mat) (a b : vec) | MSet (r a : mat) | MAt (r : mat) (i j : Z)
| MSlice (r : mat) (a b c d : Z) | MRow (r : mat) (i : Z) | MCol (r : mat) (j : Z) | MDiag (r : mat)
| MSwap (r : mat) (i1 j1 i2 j2 : Z) | MSwapRows (r : mat) (i j : Z) | MSwapCols (r : mat) (i j : Z)
| MPermRows (r : mat) (pi : list Z) | MPermCols (r : mat) (pi : list Z) | MSymPerm (r : mat) (pi : list Z)
| MNewDense (k : ckind) (L r c : Z) | MNewSparse (ri ci : list Z) (nvals r c : Z)
| SSetVar (n0 o0 i n order : Z)
| SDyadic (alias : Z) (nc oc na oa nb ob : Z)
| AEntry (alg : Z) (r c opt : Z).

Definition nthZ (l : list Z) (i : Z) : option Z := if i <? 0 then None else nth_error l (Z.to_nat i).
Definition lenZ {X} (l : list X) : Z := Z.of_nat (length l).

(* ---- vectors *)
Definition run_VewV (r a b : vec) : M :=
  if negb (vdim a =? vdim r) || negb (vdim b =? vdim r) then fail KPanic
  else forZ (vdim a) (fun i => chk (vacc r i) ;; chk (vacc a i) ;; chk (vacc b i) ;; mark).
Definition run_VewS (r a : vec) : M :=
  if negb (vdim a =? vdim r) then fail KPanic
  else forZ (vdim r) (fun i => chk (vacc r i) ;; chk (vacc a i) ;; mark).
Definition run_VMdotV (r : vec) (a : mat) (b : vec) (alias : bool) : M :=
  let n := rows a in let m := cols a in
  if negb (vdim r =? n) || negb (vdim b =? m) then fail KPanic
  else if (n =? 0) || (m =? 0) then ret
  else chk (vacc r 0) ;; chk (vacc b 0) ;;
       (if alias then fail KPanic
        else forZ n (fun i => chk (vacc r i) ;; mark ;;
                              forZ m (fun j => chk (macc a i j) ;; chk (vacc b j) ;; chk (vacc r i)))).
Definition run_VVdotM (r a : vec) (b : mat) (alias : bool) : M :=
  let n := rows b in let m := cols b in
  if negb (vdim r =? m) || negb (vdim a =? n) then fail KPanic
  else if (n =? 0) || (m =? 0) then ret
  else chk (vacc r 0) ;; chk (vacc a 0) ;;
       (if alias then fail KPanic
        else forZ m (fun i => chk (vacc r i) ;; mark ;;
                              forZ n (fun j => chk (vacc a j) ;; chk (macc b j i) ;; chk (vacc r i)))).
Definition run_VSet (r a : vec) : M :=
  if negb (vdim r =? vdim a) then fail KPanic
  else forZ (vdim a) (fun i => chk (vacc a i) ;; chk (vacc r i) ;; mark).
Definition run_VSlice (r : vec) (i j : Z) : M :=
  if is_sparse (vk r) then ret
  else if (0 <=? i) && (i <=? j) && (j <=? vcap r) then ret else fail KRt.
Definition run_VSwap (r : vec) (i j : Z) : M :=
  if is_sparse (vk r) then when ((inb i (vdim r) || inb j (vdim r)) && negb (i =? j)) mark
  else chk (vacc r j) ;; chk (vacc r i) ;; when (negb (i =? j)) mark.
(* Permute: the range test and the swap are interleaved, element by element *)
Fixpoint perm_loop (n : Z) (pi : list Z) (i : Z) : M :=
  match pi with
  | [] => ret
  | p :: rest =>
      if (p <? 0) || (n <=? p) then fail KErr
      else when (i <? p) mark ;; perm_loop n rest (i + 1)
  end.
(* the sparse Permute then rebuilds the index from the values of pi: positions that do not occur
   in pi drop out of the iteration order although their entries stay in the map *)
Fixpoint covers (n : nat) (pi : list Z) : bool :=
  match n with
  | O => true
  | S n' => existsb (Z.eqb (Z.of_nat n')) pi && covers n' pi
  end.
Definition run_VPermute (r : vec) (pi : list Z) : M :=
  if negb (lenZ pi =? vdim r) then fail KErr
  else perm_loop (vdim r) pi 0 ;;
       when (is_sparse (vk r) && negb (covers (Z.to_nat (vdim r)) pi)) mark.
(* ToDense..Matrix / ToSparse..Matrix; dense Real vectors build the tmp vectors of the matrix (initTmp) *)
Definition run_VAsMatrix (r : vec) (n m : Z) : M :=
  if negb (n * m =? vdim r) then fail KPanic
  else match vk r with DenseR => if (n <? 0) || (m <? 0) then fail KRt else ret | _ => ret end.
(* New<Dense>Matrix(values, rows, cols): only the Real instantiations check len(values)
   (and accept a single value as a fill value) *)
Definition run_MNewDense (k : ckind) (L r c : Z) : M :=
  match k with DenseR => if (L =? 1) || (L =? r * c) then ret else fail KPanic | _ => ret end.
Fixpoint newsparse_loop (n : Z) (seen idx : list Z) : M :=
  match idx with
  | [] => ret
  | k :: rest =>
      if n <=? k then fail KPanic
      else if existsb (Z.eqb k) seen then fail KPanic
      else newsparse_loop n (k :: seen) rest
  end.
Definition run_VNewSparse (idx : list Z) (nvals n : Z) : M :=
  if negb (lenZ idx =? nvals) then fail KPanic else newsparse_loop n [] idx.

(* ---- matrices *)
Definition for2 (n m : Z) (body : Z -> Z -> M) : M := forZ n (fun i => forZ m (fun j => body i j)).

Definition dims_eqb (a b : mat) : bool := (rows a =? rows b) && (cols a =? cols b).
Definition run_MewM (r a b : mat) : M :=
  if negb (dims_eqb a r) || negb (dims_eqb b r) then fail KPanic
  else for2 (rows r) (cols r) (fun i j => chk (macc r i j) ;; chk (macc a i j) ;; chk (macc b i j) ;; mark).
Definition run_MewS (r a : mat) : M :=
  if negb (dims_eqb a r) then fail KPanic
  else for2 (rows r) (cols r) (fun i j => chk (macc r i j) ;; chk (macc a i j) ;; mark).
(* storageLocation(): dense &values[0]; sparse values.AT(0) *)
Definition storage_loc (m : mat) : kind :=
  if 0 <? mlen m then KOk else if is_sparse (mk m) then KPanic else KRt.
Definition run_MdotM (r a b : mat) (alias : bool) : M :=
  let n := rows r in let m := cols r in let l := cols a in
  if negb (rows a =? n) || negb (cols b =? m) || negb (l =? rows b) then fail KPanic
  else if is_sparse (mk r) then
    chk (storage_loc r) ;; chk (storage_loc a) ;; chk (storage_loc r) ;; chk (storage_loc b) ;;
    (if alias then fail KPanic
     else when ((0 <? n) && (0 <? m) && (0 <? l)) mark)
  else
    chk (storage_loc r) ;; chk (storage_loc b) ;;
    (if alias then
       forZ m (fun j =>
         forZ n (fun i => forZ l (fun k => chk (macc a i k) ;; chk (macc b k j))) ;;
         forZ n (fun i => chk (macc r i j) ;; mark))
     else
       forZ n (fun i =>
         forZ m (fun j => forZ l (fun k => chk (macc a i k) ;; chk (macc b k j))) ;;
         forZ m (fun j => chk (macc r i j) ;; mark))).
Definition run_MOuter (r : mat) (a b : vec) : M :=
  if negb (vdim a =? rows r) || negb (vdim b =? cols r) then fail KPanic
  else for2 (rows r) (cols r) (fun i j => chk (macc r i j) ;; chk (vacc a i) ;; chk (vacc b j) ;; mark).
Definition run_MSet (r a : mat) : M :=
  if negb (dims_eqb r a) then fail KPanic
  else for2 (rows r) (cols r) (fun i j => chk (macc r i j) ;; chk (macc a i j) ;; mark).
Definition run_MSlice (r : mat) (a b c d : Z) : M :=
  match mk r with
  | DenseR => if (b - a <? 0) || (d - c <? 0) then fail KRt else ret   (* initTmp: tmp[0:rows] *)
  | _ => ret
  end.
(* ROW/COL/DIAG allocate the result first: make([]T, n) panics for n < 0 (dense) *)
Definition alloc_vec (k : ckind) (n : Z) : kind := if (n <? 0) && negb (is_sparse k) then KRt else KOk.
Definition run_MRow (r : mat) (i : Z) : M :=
  chk (alloc_vec (mk r) (cols r)) ;; forZ (cols r) (fun j => chk (macc r i j)).
Definition run_MCol (r : mat) (j : Z) : M :=
  chk (alloc_vec (mk r) (rows r)) ;; forZ (rows r) (fun i => chk (macc r i j)).
Definition run_MDiag (r : mat) : M :=
  if negb (rows r =? cols r) then fail KPanic
  else chk (alloc_vec (mk r) (rows r)) ;; forZ (rows r) (fun i => chk (macc r i i)).
(* Swap: both index() calls (explicit panic), then the storage exchange *)
Definition idx_chk (r : mat) (i j : Z) : kind :=
  if inb i (rows r) && inb j (cols r) then KOk else KPanic.
Definition sto_chk (r : mat) (k : Z) : kind :=
  if is_sparse (mk r) then KOk else if inb k (mlen r) then KOk else KRt.
Definition run_MSwap (r : mat) (i1 j1 i2 j2 : Z) : M :=
  chk (idx_chk r i1 j1) ;; chk (idx_chk r i2 j2) ;;
  let k1 := mindex r i1 j1 in let k2 := mindex r i2 j2 in
  chk (sto_chk r k2) ;; chk (sto_chk r k1) ;;
  when (negb (k1 =? k2) && (negb (is_sparse (mk r)) || inb k1 (mlen r) || inb k2 (mlen r))) mark.
Definition run_MSwapRows (r : mat) (i j : Z) : M :=
  if negb (rows r =? cols r) then fail KErr else forZ (cols r) (fun k => run_MSwap r i k j k).
Definition run_MSwapCols (r : mat) (i j : Z) : M :=
  if negb (rows r =? cols r) then fail KErr else forZ (rows r) (fun k => run_MSwap r k i k j).
(* PermuteRows/Columns/SymmetricPermutation: pi[i] is read for i < n whatever len(pi) is; the range
   test is  pi[i] < 0 || pi[i] > n ; the swap's own error value is dropped, its panics are not *)
Definition ignore_err (a : M) : M := fun d => match a d with (KErr, d') => (KOk, d') | r => r end.
Definition mperm_loop (r : mat) (pi : list Z) (sw : Z -> Z -> M) : M :=
  forZ (rows r) (fun i =>
    match nthZ pi i with
    | None => fail KRt
    | Some p => if (p <? 0) || (rows r <? p) then fail KErr
                else when (i <? p) (sw i p)
    end).
Definition run_MPermRows (r : mat) (pi : list Z) : M :=
  if negb (rows r =? cols r) then fail KErr
  else mperm_loop r pi (fun i p => ignore_err (run_MSwapRows r i p)).
Definition run_MPermCols (r : mat) (pi : list Z) : M :=
  if negb (rows r =? cols r) then fail KErr
  else mperm_loop r pi (fun i p => ignore_err (run_MSwapCols r i p)).
Definition run_MSymPerm (r : mat) (pi : list Z) : M :=
  if negb (rows r =? cols r) then fail KErr
  else mperm_loop r pi (fun i p => ignore_err (run_MSwapRows r i p) ;; ignore_err (run_MSwapCols r i p)).
Fixpoint newsparsem_loop (m : mat) (ri ci : list Z) : M :=
  match ri, ci with
  | i :: ri', j :: ci' => chk (macc m i j) ;; newsparsem_loop m ri' ci'
  | _, _ => ret
  end.
Definition run_MNewSparse (ri ci : list Z) (nvals r c : Z) : M :=
  if negb (lenZ ri =? lenZ ci) || negb (lenZ ci =? nvals) then fail KPanic
  else newsparsem_loop (mnew Sparse 0 r c) ri ci.

(* ---- scalars (Real32/Real64): SetVariable and the dyadic chain-rule combinator *)
Definition run_SSetVar (n0 o0 i n order : Z) : M :=
  if 2 <? order then fail KErr
  else when (negb (n0 =? n) || negb (o0 =? order)) mark ;;          (* Alloc(n, order) *)
       when ((0 <? order) && (0 <? n)) mark ;;                      (* a.ResetDerivatives(): storage Alloc kept is cleared *)
       when (0 <? order) (if inb i n then mark else fail KRt).      (* a.Derivative[i] = 1 *)
(* alias: 0 none, 1 receiver is operand a, 2 receiver is operand b *)
Definition run_SDyadic (alias nc oc na oa nb ob : Z) : M :=
  let n' := Z.max na nb in let o' := Z.max oa ob in
  let realloc := negb (nc =? n') || negb (oc =? o') in
  let na' := if alias =? 1 then n' else na in let oa' := if alias =? 1 then o' else oa in
  let nb' := if alias =? 2 then n' else nb in let ob' := if alias =? 2 then o' else ob in
  when realloc mark ;;                                              (* c.AllocForTwo(a, b) *)
  (if (1 <=? o') && (1 <=? oa') && (1 <=? ob') && negb (na' =? nb') then fail KPanic
   else if (1 <=? o') && (((1 <=? oa') && (na' <? n')) || ((1 <=? ob') && (nb' <? n'))) then fail KRt
   else mark).

(* ---- algorithm entry points: shape / option validation, in the coded order.
   alg: 0 qrAlgorithm 1 qrAlgorithm(Symmetric) 2 svd 3 msqrt 4 msqrtInv 5 cholesky 6 determinant
        7 matrixInverse 8 hessenbergReduction 9 householderBidiagonalization 10 householderTridiagonalization
        13 rprop (x0 dim r, len(eta) = c) 14 gradientDescent 15 bfgs (x0 dim r, Hessian c x c) 16 adam
   opt: 0 none, 1 an optional argument of an unknown type, 2 InSitu passed by value *)
Definition run_AEntry (alg r c opt : Z) : kind :=
  if (alg =? 0) || (alg =? 1) || (alg =? 8) || (alg =? 10) then
    if negb (r =? c) then KErr else if opt =? 2 then KPanic else KOk
  else if (alg =? 2) || (alg =? 9) then
    if r <? c then KErr else if opt =? 2 then KPanic else KOk
  else if (alg =? 3) || (alg =? 4) then
    if negb (r =? c) then KErr else if r =? 0 then KErr else KOk
  else if (alg =? 5) || (alg =? 7) then
    if negb (r =? c) then KPanic else if r =? 0 then KPanic else if negb (opt =? 0) then KPanic else KOk
  else if alg =? 6 then
    if negb (opt =? 0) then KPanic else if r <=? c then KOk else KPanic
  else if alg =? 13 then
    if negb (c =? 2) then KPanic else if negb (opt =? 0) then KPanic else KOk
  else if (alg =? 14) || (alg =? 16) then
    if negb (opt =? 0) then KPanic else KOk
  else if alg =? 15 then
    if negb (opt =? 0) then KPanic else if negb (r =? c) then KErr else if r =? 0 then KPanic else KOk
  else KOk.

(* ---- the run of a call: (outcome kind, receiver written, result shape) *)
Definition out_shape (c : call) : list Z :=
  match c with
  | VSlice r i j => [j - i]
  | VAsMatrix r n m => [n; m]
  | VNewSparse idx nvals n => [n]
  | MSlice r a b c d => [b - a; d - c]
  | MRow r i => [cols r]
  | MCol r j => [rows r]
  | MDiag r => [rows r]
  | MNewDense k L r c => [r; c]
  | MNewSparse ri ci nvals r c => [r; c]
  | _ => []
  end.
Definition body (c : call) : M :=
  match c with
  | VewV o r a b => run_VewV r a b
  | VewS o r a => run_VewS r a
  | VMdotV r a b al => run_VMdotV r a b al
  | VVdotM r a b al => run_VVdotM r a b al
  | VSet r a => run_VSet r a
  | VAt r i => chk (vacc r i)
  | VSlice r i j => run_VSlice r i j
  | VSwap r i j => run_VSwap r i j
  | VPermute r pi => run_VPermute r pi
  | VAsMatrix r n m => run_VAsMatrix r n m
  | VNewSparse idx nvals n => run_VNewSparse idx nvals n
  | MewM o r a b => run_MewM r a b
  | MewS o r a => run_MewS r a
  | MdotM r a b al => run_MdotM r a b al
  | MOuter r a b => run_MOuter r a b
  | MSet r a => run_MSet r a
  | MAt r i j => chk (macc r i j)
  | MSlice r a b c d => run_MSlice r a b c d
  | MRow r i => run_MRow r i
  | MCol r j => run_MCol r j
  | MDiag r => run_MDiag r
  | MSwap r i1 j1 i2 j2 => run_MSwap r i1 j1 i2 j2
  | MSwapRows r i j => run_MSwapRows r i j
  | MSwapCols r i j => run_MSwapCols r i j
  | MPermRows r pi => run_MPermRows r pi
  | MPermCols r pi => run_MPermCols r pi
  | MSymPerm r pi => run_MSymPerm r pi
  | MNewDense k L r c => run_MNewDense k L r c
  | MNewSparse ri ci nvals r c => run_MNewSparse ri ci nvals r c
  | SSetVar n0 o0 i n order => run_SSetVar n0 o0 i n order
  | SDyadic al nc oc na oa nb ob => run_SDyadic al nc oc na oa nb ob
  | AEntry alg r c opt => chk (run_AEntry alg r c opt)
  end.
Definition run (c : call) : kind * bool * list Z :=
  match body c false with
  | (KOk, d) => (KOk, d, out_shape c)
  | (k, d) => (k, d, [])
  end.

(* ================================================================== (T) loops *)

(* Generic skeletons.  [step s] = inl s' : the body ran and the loop continues;
                       [step s] = inr r  : the loop was left (break / return) with result r. *)
Section Skeleton.
  Variables (St Res : Type).
  Variable step : St -> St + Res.
  Inductive lres := Done (r : Res) (iters : nat) | CapHit (s : St) (iters : nat) | OutOfFuel (s : St).

  (* for i := 0; i < cap; i++ { ... }   — the coded cap is the loop bound *)
  Fixpoint capped (cap : nat) (done : nat) (s : St) : lres :=
    match cap with
    | O => CapHit s done
    | S cap' => match step s with
                | inr r => Done r (S done)
                | inl s' => capped cap' (S done) s'
                end
    end.
  (* for { ... }   — no cap in the code: fuel is the model's, exhaustion is a distinguishable value *)
  Fixpoint uncapped (fuel : nat) (done : nat) (s : St) : lres :=
    match fuel with
    | O => OutOfFuel s
    | S fuel' => match step s with
                 | inr r => Done r (S done)
                 | inl s' => uncapped fuel' (S done) s'
                 end
    end.
  Definition iters_of (r : lres) : option nat :=
    match r with Done _ n => Some n | CapHit _ n => Some n | OutOfFuel _ => None end.
End Skeleton.
Arguments Done {St Res}. Arguments CapHit {St Res}. Arguments OutOfFuel {St Res}.
Arguments capped {St Res}. Arguments uncapped {St Res}. Arguments iters_of {St Res}.

(* ---- lineSearch.lineSearch + zoom: the evaluation budget.  The oracle answers, per evaluation,
   which branch the code takes; [evals] counts calls of the objective. *)
Inductive ls_branch := LsErr | LsHook | LsZoomA | LsAccept | LsZoomB | LsContinue.
Inductive zm_branch := ZmZeroAlpha | ZmErr | ZmHook | ZmShrink | ZmAccept | ZmMove.
Section LineSearch.
  Variable oracle_ls : nat -> ls_branch.     (* decision at outer iteration i (after evaluating f) *)
  Variable oracle_zm : nat -> zm_branch.     (* decision at zoom iteration i *)
  Variable alpha_zero : nat -> bool.         (* alpha_j == 0.0 at outer iteration i *)
  (* zoom(..., maxEval): if maxEval <= 0 return at once; for i < maxEval { ... } *)
  Fixpoint zoom (budget : nat) (i : nat) (evals : nat) : nat :=
    match budget with
    | O => evals
    | S b => match oracle_zm i with
             | ZmZeroAlpha => evals
             | ZmErr | ZmHook | ZmAccept => S evals
             | ZmShrink | ZmMove => zoom b (S i) (S evals)
             end
    end.
  (* for i := 0; i < maxEval; i++ — constraints loop assumed to exit (see ls_constraints below) *)
  Fixpoint ls_outer (remaining : nat) (i : nat) (evals : nat) : nat :=
    match remaining with
    | O => evals
    | S rem =>
        if alpha_zero i then evals
        else match oracle_ls i with
             | LsErr | LsHook | LsAccept => S evals
             | LsZoomA | LsZoomB => zoom remaining 0 (S evals)     (* zoom(..., maxEval-i) *)
             | LsContinue => ls_outer rem (S i) (S evals)
             end
    end.
  Definition linesearch_evals (maxEval : nat) : nat := ls_outer maxEval 0 1.   (* 1 = f(0.0) *)
End LineSearch.

(* ---- retry loops  for { if accept(s) { break }; s = shrink(s) }  : the rprop backtracking loop
   (accept = the objective is valid at the trial point, shrink = step *= eta[1]) and the newton
   constraint loop (shrink = t1 *= c) *)
Definition retry_step {St} (accept : St -> bool) (shrink : St -> St) (s : St) : St + St :=
  if accept s then inr s else inl (shrink s).

(* ---- for !constraints(alpha_j) { alpha_j *= 0.5 }  (lineSearch) over a carrier *)
Section LsConstraints.
  Context {A : Type} (N : Num A).
  Variable constraints : A -> bool.
  Definition half : A := div N (one N) (add N (one N) (one N)).
  Definition lsc_step (alpha : A) : A + A :=
    if constraints alpha then inr alpha else inl (mul N alpha half).
End LsConstraints.

(* ---- splitMatrix (qrAlgorithm): both loops are counting loops *)
Section SplitQR.
  Variable zero_at : Z -> Z -> bool.      (* h(i, j) == 0.0 *)
  Variable n : Z.
  Fixpoint split_up (k : nat) (i q : Z) : Z :=
    match k with
    | O => q
    | S k' =>
        if negb (i <? n - 1) then q else
        let q1 := if zero_at (n - i - 1) (n - i - 2) then i + 1 else q in
        if q1 <? i then q1 else
        let q2 := if i =? n - 2 then i + 2 else q1 in
        split_up k' (i + 1) q2
    end.
  Fixpoint split_down (k : nat) (p : Z) : Z :=
    match k with
    | O => p
    | S k' => if (0 <? p) && negb (zero_at p (p - 1)) then split_down k' (p - 1) else p
    end.
End SplitQR.

(* ---- exact bodies for the non-termination witnesses, carrier polymorphic *)
Declare Scope c20num_scope.
Section Exact.
  Context {A : Type} (N : Num A).
  Notation "x + y" := (add N x y) : c20num_scope. Notation "x - y" := (sub N x y) : c20num_scope.
  Notation "x * y" := (mul N x y) : c20num_scope. Notation "x / y" := (div N x y) : c20num_scope.
  Local Open Scope c20num_scope.

  (* givensRotation.Run(a, b, c, s) *)
  Definition givens (a b : A) : A * A :=
    if eqb N b (zero N) then (one N, zero N)
    else if ltb N (nabs N a) (nabs N b) then
      let c0 := neg N (a / b) in
      let s1 := one N / nsqrt N (c0 * c0 + one N) in
      (c0 * s1, s1)
    else
      let s0 := neg N (b / a) in
      let c1 := one N / nsqrt N (s0 * s0 + one N) in
      (c1, s0 * c1).
  (* givensRotation.apply(a1, a2, c, s, t1, t2) *)
  Definition gapply (a1 a2 c s : A) : A * A := (c * a1 - s * a2, c * a2 + s * a1).

  (* QRstep(h, u, i, n-i-2) as called by the 2x2 block loop: H22 is the 2x2 block
     [[h11 h12] [h21 h22]]; only its own evolution decides the exit test. *)
  Record blk := mkblk { b11 : A; b12 : A; b21 : A; b22 : A }.
  Definition qrstep2 (h : blk) : blk :=
    let t3 := b22 h in
    let h11 := b11 h - t3 in let h22 := b22 h - t3 in
    let h12 := b12 h in let h21 := b21 h in
    let '(c, s) := givens h11 h21 in
    (* ApplyHessenbergLeft(H22, c, s, 0, 1): columns j = 0, 1 *)
    let '(l11, l21) := gapply h11 h21 c s in
    let '(l12, l22) := gapply h12 h22 c s in
    (* ApplyHessenbergRight(H22, c, s, 0, 1): rows j = 0, 1 *)
    let '(r11, r12) := gapply l11 l12 c s in
    let '(r21, r22) := gapply l21 l22 c s in
    mkblk (r11 + t3) r12 r21 (r22 + t3).
  (* for { if |h21| <= eps (|h11| + |h22|) { h21 = 0; break } else { QRstep } } *)
  Definition qr_block_step (eps : A) (h : blk) : blk + blk :=
    if leb N (nabs N (b21 h)) (eps * (nabs N (b11 h) + nabs N (b22 h)))
    then inr (mkblk (b11 h) (b12 h) (zero N) (b22 h)) else inl (qrstep2 h).

  (* qrAlgorithm.Run on a 2x2 matrix: Hessenberg reduction and the Francis loop do nothing but the
     deflation test (splitMatrix gives q = 2 at once); then the block loop, unless the sub-diagonal
     entry is zero or the eigenvalues are complex. *)
  Definition four : A := (one N + one N) * (one N + one N).
  Definition qr_deflate (eps : A) (h : blk) : blk :=
    if leb N (nabs N (b21 h)) (eps * (nabs N (b11 h) + nabs N (b22 h)))
    then mkblk (b11 h) (b12 h) (zero N) (b22 h) else h.
  Definition qr_skip (h : blk) : bool :=
    eqb N (b21 h) (zero N)
    || ltb N ((b11 h - b22 h) * (b11 h - b22 h) + four * b12 h * b21 h) (zero N).
  Definition qr_run2 (eps : A) (fuel : nat) (h : blk) : lres blk blk :=
    if qr_skip (qr_deflate eps h) then Done (qr_deflate eps h) 0
    else uncapped (qr_block_step eps) fuel 0 (qr_deflate eps h).

  (* Denman–Beavers mSqrt on a 1x1 matrix [a]: state (Y0, Y1, Z0, Z1); the inverse of a
     1x1 matrix is 1/x (Gauss-Jordan), a zero pivot ends the run with an error. *)
  Definition two : A := one N + one N.
  Definition msqrt_init (a : A) : option (A * A * A * A) :=
    if eqb N a (zero N) then None
    else let y0 := a in let z0 := one N in
         Some (y0, (y0 + one N / z0) / two, z0, (z0 + one N / y0) / two).
  Definition msqrt_step (tol : A) (st : A * A * A * A) : (A * A * A * A) + option A :=
    let '(y0, y1, z0, z1) := st in
    if ltb N tol (nabs N (y0 - y1)) then
      (* swap, invert Z0 and Y0, update Y1 and Z1 *)
      let '(y0, y1, z0, z1) := (y1, y0, z1, z0) in
      if eqb N z0 (zero N) || eqb N y0 (zero N) then inr None
      else inl (y0, (y0 + one N / z0) / two, z0, (z0 + one N / y0) / two)
    else inr (Some y1).
  (* mSqrtInv on [a]: X1 = 2 X0 / (1 + a X0^2) *)
  Definition msqrtinv_init (a : A) : option (A * A) :=
    if eqb N (one N + a) (zero N) then None
    else Some (one N, (one N * (one N / (one N + a))) * two).
  Definition msqrtinv_step (a tol : A) (st : A * A) : (A * A) + option A :=
    let '(x0, x1) := st in
    if ltb N tol (nabs N (x0 - x1)) then
      let '(x0, x1) := (x1, x0) in
      let d := one N + a * (x0 * x0) in
      if eqb N d (zero N) then inr None else inl (x0, (x0 * (one N / d)) * two)
    else inr (Some x1).

  (* gradientDescent on f(x) = x^2 (one variable): x <- x - step * 2x until |2x| < eps *)
  Definition gd_step (step eps : A) (x : A) : A + A :=
    let g := two * x in
    if ltb N (nabs N g) eps then inr x else inl (x - step * g).
End Exact.

(* DenseMatrix.Tip(): the cycle follower  k = rows*k % (mn-1)  until k == cycle *)
Definition tip_step (rws mn cycle : Z) (k : Z) : Z + unit :=
  let k' := if k =? mn - 1 then k else (rws * k) mod (mn - 1) in
  if k' =? cycle then inr tt else inl k'.
