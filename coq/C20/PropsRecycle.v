(* C20 round 6 — RECYCLED WORKSPACES: theorems about coq/C20/ModelRecycle.v (statement only).
   "A call on a recycled InSitu ends in an error / panic or returns outputs of the right shape computed from
   the new input - never a stale or wrongly sized result with err == nil." *)
From Coq Require Import ZArith List Bool.
From ADV Require Import C20.Model C20.ModelRecycle C20.SpecRecycle C20.ProofsRecycle.
Import ListNotations.
Open Scope Z_scope.

(* ---- guarded by the code's own dimension tests: EVERY workspace (caller-built ones included), every input *)
Theorem backsubstitution_recycled_loud_or_right :
  forall s o n m, loud_or_right bs_run bs0 (o, n, m) (bs_run s o n m).
Proof. exact bs_any_state. Qed.
Example backsubstitution_recycled_nonvacuous :
  rk (bs_run (mk_bs_st (SM 3 3) (SV 3)) 0 3 3) = Some KOk /\ rk (bs_run (mk_bs_st (SM 3 3) (SV 3)) 0 2 2) = Some KErr.
Proof. split; reflexivity. Qed.

Theorem gramschmidt_recycled_loud_or_right :
  forall s o n m, loud_or_right gs_run gs0 (o, n, m) (gs_run s o n m).
Proof. exact gs_any_state. Qed.
Example gramschmidt_recycled_nonvacuous :
  rk (gs_run (mk_gs_st (SM 3 2) (SM 3 2)) 0 3 2) = Some KOk /\ rk (gs_run (mk_gs_st (SM 3 2) (SM 3 2)) 0 4 2) = Some KErr.
Proof. split; reflexivity. Qed.

(* qrAlgorithm.Run, every workspace, every option combination: a successful run returns H n x n and U n x n / nil;
   its values come from the new input exactly when H was nil or InitializeH is set *)
Theorem qr_recycled_ok_shapes :
  forall s o n m, rk (qr_run s o n m) = Some KOk ->
    n = m /\ rout (qr_run s o n m) = [SM n n; if tb o 0 then SM n n else SNil]
    /\ rcur (qr_run s o n m) = (is_nil (qH s) || qIH s).
Proof. exact qr_ok_shapes. Qed.
Example qr_recycled_nonvacuous :
  let h := hist (qr_run_ih true) (qr0 true false) [(1, 3, 3); (3, 3, 3); (0, 3, 3)] in
  Forall (fun cr => loud_or_right (qr_run_ih true) (qr0 true false) (fst cr) (snd cr)) h.
Proof. exact qr_init_witness. Qed.

(* ---- HISTORY level: every call of every call sequence on one workspace that started empty *)
Theorem hessenberg_recycled_history_loud_or_right :
  forall cs, Forall (fun cr => loud_or_right hess_run hess0 (fst cr) (snd cr)) (hist hess_run hess0 cs).
Proof. exact hess_history. Qed.
Example hessenberg_history_nonvacuous :
  map (fun cr => rk (snd cr)) (hist hess_run hess0 [(1, 4, 4); (0, 2, 2); (1, 4, 4); (0, 3, 4)])
  = [Some KOk; Some KPanic; Some KOk; Some KErr].
Proof. reflexivity. Qed.
(* ... and it is a statement about HISTORIES: a caller-built workspace is not protected *)
Theorem hessenberg_foreign_workspace_refuted :
  silent_wrong hess_run hess0 (1, 2, 2) (hess_run (mk_hess_st SNil (SM 3 3) SNil SNil SNil) 1 2 2).
Proof. exact hess_any_state_counterexample. Qed.

(* ---- cholesky: exact characterisation, and the refutation (F-C20-RECYCLE-CHOLESKY-OVERSIZE) *)
Theorem cholesky_recycled_exact :
  forall s o n, 0 < n -> let s' := rpost (chol_run s o n n) in
  (rk (chol_run s o n n) = Some KOk <-> (mfits (cL s') n = true /\ (tb o 0 = true -> mfits (cD s') n = true)))
  /\ (rk (chol_run s o n n) = Some KOk -> rout (chol_run s o n n) = [cL s'; if tb o 0 then cD s' else SNil])
  /\ rk (chol_run s o n n) <> None.
Proof. exact cholesky_exact. Qed.
Example cholesky_recycled_nonvacuous :
  rk (chol_run (mk_chol_st (SM 2 2) SNil) 0 3 3) = Some KPanic /\ rk (chol_run (mk_chol_st (SM 3 3) SNil) 1 3 3) = Some KOk.
Proof. split; reflexivity. Qed.
Theorem cholesky_recycle_shrink_refuted :
  let h := hist chol_run chol0 [(0, 4, 4); (0, 2, 2)] in
  silent_wrong chol_run chol0 (0, 2, 2) (nth_res h 1 (stop KErr chol0))
  /\ rout (nth_res h 1 (stop KErr chol0)) = [SM 4 4; SNil] /\ fresh_out chol_run chol0 (0, 2, 2) = [SM 2 2; SNil].
Proof. exact cholesky_shrink. Qed.

(* ---- matrixInverse (nested cholesky + gaussJordan) *)
Theorem matinv_pd_recycle_shrink_refuted :
  let h := hist inv_run inv0 [(1, 4, 4); (1, 2, 2)] in
  silent_wrong inv_run inv0 (1, 2, 2) (nth_res h 1 (stop KErr inv0))
  /\ rout (nth_res h 1 (stop KErr inv0)) = [SM 4 4] /\ fresh_out inv_run inv0 (1, 2, 2) = [SM 2 2].
Proof. exact matinv_pd_shrink. Qed.
Theorem matinv_general_recycle_shrink_is_loud :
  loud (nth_res (hist inv_run inv0 [(0, 4, 4); (0, 2, 2)]) 1 (stop KErr inv0)).
Proof. exact matinv_general_shrink_loud. Qed.

(* ---- stale INPUT: InitializeH = false (F-C20-RECYCLE-QR-STALE-H), for every option combination and size *)
Theorem qr_recycle_stale_input_refuted :
  forall o n, 0 <= n ->
  let h := hist (qr_run_ih false) (qr0 false false) [(o, n, n); (o, n, n)] in
  rk (nth_res h 0 (stop KErr (qr0 false false))) = Some KOk ->
  rk (nth_res h 1 (stop KErr (qr0 false false))) = Some KOk ->
  rcur (nth_res h 1 (stop KErr (qr0 false false))) = false.
Proof. exact qr_stale. Qed.
Example qr_recycle_stale_input_nonvacuous :
  let h := hist (qr_run_ih false) (qr0 false false) [(0, 3, 3); (0, 3, 3)] in
  silent_wrong (qr_run_ih false) (qr0 false false) (0, 3, 3) (nth_res h 1 (stop KErr (qr0 false false))).
Proof. exact qr_stale_witness. Qed.
Theorem eig_recycle_stale_input_refuted :
  let h := hist eig_run (eig0 false) [(0, 3, 3); (0, 3, 3)] in
  silent_wrong eig_run (eig0 false) (0, 3, 3) (nth_res h 1 (stop KErr (eig0 false))).
Proof. exact eig_stale_input. Qed.

(* ---- eigensystem (nested qrAlgorithm -> hessenbergReduction): F-C20-RECYCLE-EIGEN-STALE-VECTORS / -UNGUARDED-OUTPUTS *)
Theorem eig_recycle_vectors_refuted :
  silent_wrong eig_run (eig0 true) (1, 3, 3) (nth_res (hist eig_run (eig0 true) [(1, 3, 3); (1, 3, 3)]) 1 (stop KErr (eig0 true)))
  /\ silent_wrong eig_run (eig0 true) (1, 3, 3) (nth_res (hist eig_run (eig0 true) [(3, 3, 3); (1, 3, 3)]) 1 (stop KErr (eig0 true)))
  /\ silent_wrong eig_run (eig0 true) (3, 3, 3) (nth_res (hist eig_run (eig0 true) [(1, 3, 3); (3, 3, 3)]) 1 (stop KErr (eig0 true))).
Proof. exact eig_vectors. Qed.
Theorem eig_recycle_outputs_refuted :
  let h := hist eig_run (eig0 true) [(0, 3, 4); (0, 2, 2)] in
  loud (nth_res h 0 (stop KOk (eig0 true)))
  /\ eVals (rpost (nth_res h 0 (stop KOk (eig0 true)))) = SV 3
  /\ eVals (rpost (nth_res h 1 (stop KOk (eig0 true)))) = SV 3
  /\ rk (nth_res h 1 (stop KOk (eig0 true))) = None.
Proof. exact eig_outputs. Qed.
