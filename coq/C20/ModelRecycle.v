(* C20 round 6 — RECYCLED WORKSPACES.  Executable model of the `Run` entry points of the algorithms that
   take an InSitu / workspace argument, at the level that decides what a call on a RECYCLED workspace does:

     state   = the shape of every Matrix / Vector buffer of the InSitu struct (SNil = nil field), the
               Initialize flags, nested InSitu structs included (eigensystem -> qrAlgorithm ->
               hessenbergReduction / householderTridiagonalization, svd -> householderBidiagonalization,
               matrixInverse -> cholesky, determinant -> cholesky);
     a call  = options + the shape n x m of the new input;
     result  = outcome kind, shapes of the returned objects, the workspace afterwards, and whether the
               returned values are computed from the NEW input (rcur).

   The model follows the Go code of each Run in the coded order: the `if inSitu.X == nil { allocate }`
   chain, the explicit dimension tests (error returns), Matrix.Set on a buffer of another shape (explicit
   panic), the wiring of nested workspaces, and then the core.  For cores whose accesses are decided by
   the shapes alone (cholesky, hessenbergReduction, backSubstitution, gramSchmidt, determinant) the outcome
   of a run on wrongly shaped buffers is modelled exactly (index panic / slice out of range / silent run on
   an oversized buffer).  For the other cores the verdict is exact when every buffer has exactly the shape a
   fresh call allocates, and [None] (not decided by the shape model) otherwise.

   Inputs are admissible in VALUE (positive definite / full rank): "matrix is not positive definite" and
   "singular" errors are outside this model.  No proofs in this file. *)
From Coq Require Import ZArith List Bool.
From ADV Require Import C20.Model.
Import ListNotations.
Open Scope Z_scope.

Inductive shp := SNil | SV (d : Z) | SM (r c : Z) | SS.
Definition shp_eqb (a b : shp) : bool :=
  match a, b with
  | SNil, SNil | SS, SS => true
  | SV x, SV y => x =? y
  | SM r c, SM r' c' => (r =? r') && (c =? c')
  | _, _ => false
  end.
Definition is_nil (s : shp) : bool := match s with SNil => true | _ => false end.
(* `if buf == nil { buf = alloc }` *)
Definition orelse (s alloc : shp) : shp := if is_nil s then alloc else s.
(* a vector buffer used through v.At(i) / v.Slice(a, b) with indices up to n *)
Definition vfits (s : shp) (n : Z) : bool := match s with SV d => n <=? d | _ => false end.
(* a matrix buffer accessed at (i, j) for i, j < n *)
Definition mfits (s : shp) (n : Z) : bool := match s with SM r c => (n <=? r) && (n <=? c) | _ => false end.

Record chol_st := mk_chol_st { cL : shp; cD : shp }.
Record hess_st := mk_hess_st { hH : shp; hU : shp; hX : shp; hNu : shp; hT4 : shp }.
Record tri_st := mk_tri_st { tA : shp; tU : shp; tX : shp; tNu : shp; tT4 : shp }.
Record bid_st := mk_bid_st { bA : shp; bU : shp; bV : shp; bX : shp; bNu : shp; bT4 : shp }.
Record qr_st := mk_qr_st { qIH : bool; qIU : bool; qH : shp; qU : shp; qX : shp; qNu : shp; qT4 : shp;
                           qHess : hess_st; qHouse : tri_st }.
(* eAlias: QrAlgorithm.U and Eigenvectors are the same object *)
Record eig_st := mk_eig_st { eQr : qr_st; eVals : shp; eVecs : shp; eAlias : bool }.
Record svd_st := mk_svd_st { sBid : bid_st; sA : shp; sU : shp; sV : shp }.
Record inv_st := mk_inv_st { iId : shp; iA : shp; iB : shp; iChol : chol_st }.
Record bs_st := mk_bs_st { bsA : shp; bsX : shp }.
Record gs_st := mk_gs_st { gQ : shp; gR : shp }.

Inductive state :=
| StChol (s : chol_st) | StHess (s : hess_st) | StTri (s : tri_st) | StBid (s : bid_st) | StQr (s : qr_st)
| StEig (s : eig_st) | StSvd (s : svd_st) | StInv (s : inv_st) | StDet (s : chol_st) | StBs (s : bs_st) | StGs (s : gs_st).

(* a result, generic in the workspace type *)
Record res (St : Type) := mk_res { rk : option kind; rout : list shp; rpost : St; rcur : bool }.
Arguments mk_res {St}. Arguments rk {St}. Arguments rout {St}. Arguments rpost {St}. Arguments rcur {St}.
Definition stop {St} (k : kind) (s : St) : res St := mk_res (Some k) [] s false.
Definition finish {St} (k : option kind) (out : list shp) (s : St) (cur : bool) : res St :=
  match k with Some KOk => mk_res k out s cur | _ => mk_res k [] s false end.

Definition tb (o : Z) (k : Z) : bool := Z.testbit o k.

(* ------------------------------------------------------------------ cholesky.Run
   opt bit 0: LDL, bit 1: ForcePD.  The loops read and write L (and D) at (i, j), i, j < n, through
   index(): a buffer with fewer rows or columns ends in the explicit bounds panic; a LARGER recycled
   buffer is used silently and returned as it is. *)
Definition chol_run (s : chol_st) (opt n m : Z) : res chol_st :=
  if negb (n =? m) then stop KPanic s
  else if n =? 0 then stop KPanic s
  else
    let ldl := tb opt 0 in
    let s' := mk_chol_st (orelse (cL s) (SM n n)) (if ldl then orelse (cD s) (SM n n) else cD s) in
    if negb (mfits (cL s') n) then stop KPanic s'
    else if ldl && negb (mfits (cD s') n) then stop KPanic s'
    else mk_res (Some KOk) [cL s'; if ldl then cD s' else SNil] s'
                (shp_eqb (cL s') (SM n n) && (negb ldl || shp_eqb (cD s') (SM n n))).

(* ------------------------------------------------------------------ determinant.Run
   opt 0: naive (no workspace), 1: PositiveDefinite, 2: PositiveDefinite + LogScale *)
Definition det_run (s : chol_st) (opt n m : Z) : res chol_st :=
  if opt =? 0 then mk_res (Some KOk) [SS] s true
  else if negb (n =? m) then stop KPanic s
  else let r := chol_run s 0 n m in
       finish (rk r) [SS] (rpost r) true.

(* ------------------------------------------------------------------ hessenbergReduction
   core: for k < n-2 { x.At(i), x.Slice(k+1,n), nu.Slice(k+1,n), t4.Slice(k,n), t4.Slice(0,n) : runtime
   panic when the vector is shorter than n;  U: ApplyRight(U, ...) -> t1.MdotV(U, nu): explicit panic
   unless U is n x n }.  For n <= 2 the loop body never runs. *)
Definition hess_core (s : hess_st) (n : Z) : kind :=
  if n <=? 2 then KOk
  else if negb (vfits (hX s) n) then KRt
  else if negb (vfits (hNu s) n) then KRt
  else if negb (vfits (hT4 s) n) then KRt
  else if negb (is_nil (hU s)) && negb (shp_eqb (hU s) (SM n n)) then KPanic
  else KOk.
(* the allocation chain of Run, given the working matrix H (already initialised) *)
Definition hess_alloc (s : hess_st) (h : shp) (computeU : bool) (n : Z) : hess_st :=
  mk_hess_st h (if computeU then orelse (hU s) (SM n n) else SNil)
             (orelse (hX s) (SV n)) (orelse (hNu s) (SV n)) (orelse (hT4 s) (SV n)).
(* opt bit 0: ComputeU (bit 1: SetZero{false}: no influence on shapes) *)
Definition hess_run (s : hess_st) (opt n m : Z) : res hess_st :=
  if negb (n =? m) then stop KErr s
  else if negb (is_nil (hH s)) && negb (shp_eqb (hH s) (SM n m)) then stop KPanic s     (* H.Set(a) *)
  else
    let s' := hess_alloc s (SM n n) (tb opt 0) n in
    finish (Some (hess_core s' n)) [hH s'; hU s'] s' (is_nil (hU s') || shp_eqb (hU s') (SM n n)).

(* ------------------------------------------------------------------ householderTridiagonalization *)
Definition tri_alloc (s : tri_st) (a : shp) (computeU : bool) (n : Z) : tri_st :=
  mk_tri_st a (if computeU then orelse (tU s) (SM n n) else SNil)
            (orelse (tX s) (SV n)) (orelse (tNu s) (SV n)) (orelse (tT4 s) (SV n)).
Definition tri_exact (s : tri_st) (n : Z) : bool :=
  shp_eqb (tX s) (SV n) && shp_eqb (tNu s) (SV n) && shp_eqb (tT4 s) (SV n)
  && (is_nil (tU s) || shp_eqb (tU s) (SM n n)).
Definition tri_core (s : tri_st) (n : Z) : option kind := if tri_exact s n then Some KOk else None.
Definition tri_run (s : tri_st) (opt n m : Z) : res tri_st :=
  if negb (n =? m) then stop KErr s
  else if negb (is_nil (tA s)) && negb (shp_eqb (tA s) (SM n m)) then stop KPanic s     (* A.Set(a) *)
  else
    let s' := tri_alloc s (SM n n) (tb opt 0) n in
    finish (tri_core s' n) [tA s'; tU s'] s' true.

(* ------------------------------------------------------------------ householderBidiagonalization
   input m x n with m >= n;  opt bit 0: ComputeU, bit 1: ComputeV *)
Definition bid_alloc (s : bid_st) (a : shp) (cu cv : bool) (m n : Z) : bid_st :=
  mk_bid_st a (if cu then orelse (bU s) (SM m m) else SNil) (if cv then orelse (bV s) (SM n n) else SNil)
            (orelse (bX s) (SV m)) (orelse (bNu s) (SV m)) (orelse (bT4 s) (SV m)).
Definition bid_exact (s : bid_st) (m n : Z) : bool :=
  shp_eqb (bX s) (SV m) && shp_eqb (bNu s) (SV m) && shp_eqb (bT4 s) (SV m)
  && (is_nil (bU s) || shp_eqb (bU s) (SM m m)) && (is_nil (bV s) || shp_eqb (bV s) (SM n n)).
Definition bid_core (s : bid_st) (m n : Z) : option kind := if bid_exact s m n then Some KOk else None.
Definition bid_run (s : bid_st) (opt m n : Z) : res bid_st :=
  if m <? n then stop KErr s
  else if negb (is_nil (bA s)) && negb (shp_eqb (bA s) (SM m n)) then stop KPanic s
  else
    let s' := bid_alloc s (SM m n) (tb opt 0) (tb opt 1) m n in
    finish (bid_core s' m n) [bA s'; bU s'; bV s'] s' true.

(* ------------------------------------------------------------------ qrAlgorithm.Run
   opt bit 0: ComputeU, bit 1: Symmetric; the InitializeH / InitializeU flags are fields of the workspace.
   H and U are the only buffers whose dimensions Run tests.  A recycled H is overwritten with the new
   input only when InitializeH is set: otherwise the iteration runs on what the previous call left there. *)
Definition qr_exact (s : qr_st) (n : Z) : bool :=
  shp_eqb (qX s) (SV 3) && shp_eqb (qNu s) (SV 3) && shp_eqb (qT4 s) (SV n).
Definition qr_run (s : qr_st) (opt n m : Z) : res qr_st :=
  let cu := tb opt 0 in let sym := tb opt 1 in
  if negb (n =? m) then stop KErr s
  else if negb (is_nil (qH s)) && negb (shp_eqb (qH s) (SM n m)) then stop KErr s
  else
    let cur := is_nil (qH s) || qIH s in
    let h := SM n n in
    let hess1 := mk_hess_st h (hU (qHess s)) (hX (qHess s)) (hNu (qHess s)) (hT4 (qHess s)) in
    let s1 := mk_qr_st (qIH s) (qIU s) h (qU s) (qX s) (qNu s) (qT4 s) hess1 (qHouse s) in
    if cu && negb (is_nil (qU s)) && negb (shp_eqb (qU s) (SM n m)) then stop KErr s1
    else
      let u := if cu then orelse (qU s) (SM n n) else SNil in
      let hess2 := if cu then mk_hess_st h u (hX hess1) (hNu hess1) (hT4 hess1) else hess1 in
      let t4 := orelse (qT4 s) (SV m) in
      if sym then
        (* householderTridiagonalization.Run(H, &inSitu.Householder, ComputeU{U != nil}): its own A and U *)
        let s2 := mk_qr_st (qIH s) (qIU s) h u (qX s) (qNu s) t4 hess2 (qHouse s) in
        let ho := qHouse s in
        if negb (is_nil (tA ho)) && negb (shp_eqb (tA ho) (SM n n)) then stop KPanic s2
        else
          let ho' := tri_alloc ho (SM n n) cu n in
          let s3 := mk_qr_st (qIH s) (qIU s) h u (qX s) (qNu s) t4 hess2 ho' in
          finish (tri_core ho' n) [tA ho'; tU ho'] s3 cur
      else
        let x := orelse (qX s) (SV 3) in let nu := orelse (qNu s) (SV 3) in
        (* hessenbergReduction.Run(h, &inSitu.Hessenberg, ComputeU{u != nil}): Hessenberg.H is h itself *)
        let hess3 := hess_alloc hess2 h cu n in
        let s3 := mk_qr_st (qIH s) (qIU s) h u x nu t4 hess3 (qHouse s) in
        match hess_core hess3 n with
        | KOk => finish (if qr_exact s3 n then Some KOk else None) [h; hU hess3] s3 cur
        | k => stop k s3
        end.

(* ------------------------------------------------------------------ eigensystem.Run
   opt bit 0: ComputeEigenvectors, bit 1: Symmetric (consumed by eigensystem: qrAlgorithm always runs its
   general branch).  Eigenvalues / Eigenvectors are allocated BEFORE qrAlgorithm.Run is called and are never
   tested against the size of the new input. *)
Definition eig_run (s : eig_st) (opt n m : Z) : res eig_st :=
  let cv := tb opt 0 in let sym := tb opt 1 in
  let vals := orelse (eVals s) (SV n) in
  let newvecs := is_nil (eVecs s) && cv in
  let vecs := if newvecs then SM n n else eVecs s in
  let q0 := eQr s in
  let q1 := if newvecs && sym
            then mk_qr_st (qIH q0) (qIU q0) (qH q0) vecs (qX q0) (qNu q0) (qT4 q0) (qHess q0) (qHouse q0) else q0 in
  let al1 := if newvecs then sym else eAlias s in
  let r := qr_run q1 (if cv then 1 else 0) n m in
  (* qrAlgorithm.Run replaces its U when ComputeU is off (nil) or when it was nil (fresh matrix) *)
  let al2 := al1 && cv && negb (is_nil (qU q1)) in
  (* the three error returns of qrAlgorithm.Run come before its U is touched *)
  let s' := mk_eig_st (rpost r) vals vecs (match rk r with Some KErr => al1 | _ => al2 end) in
  match rk r with
  | Some KOk =>
      (* `if !computeEigenvectors { eigenvectors = nil }`: the option decides, a recycled Eigenvectors buffer stays in
         the workspace untouched and nil is returned *)
      let exact := shp_eqb vals (SV n) && (if cv then shp_eqb vecs (SM n n) else true) in
      (* values: Symmetric + vectors returns the Eigenvectors buffer without writing it ("no need to copy"):
         right only when that buffer IS QrAlgorithm.U; the general branch reads U while it writes
         Eigenvectors: right only when they are NOT the same object; moreover getEigenvector writes only the
         entries 0..k of column k and reads the whole column: a recycled Eigenvectors buffer leaks the
         previous result into the new one (n >= 2) *)
      let cur := rcur r && (if cv then (if sym then al2 else negb al2 && (newvecs || (n <=? 1))) else true) in
      finish (if exact then Some KOk else None) [vals; if cv then vecs else SNil] s' cur
  | k => mk_res k [] s' false
  end.

(* ------------------------------------------------------------------ svd.Run  (m x n, m >= n)
   opt bit 0: ComputeU, bit 1: ComputeV *)
Definition svd_run (s : svd_st) (opt m n : Z) : res svd_st :=
  let cu := tb opt 0 in let cv := tb opt 1 in
  if m <? n then stop KErr s
  else if negb (is_nil (sA s)) && negb (shp_eqb (sA s) (SM m n)) then stop KPanic s
  else
    let a := SM m n in
    let u := if cu then orelse (sU s) (SM m m) else SNil in
    let v := if cv then orelse (sV s) (SM n n) else SNil in
    let b := sBid s in
    let b1 := mk_bid_st (orelse (bA b) a) (orelse (bU b) u) (orelse (bV b) v) (bX b) (bNu b) (bT4 b) in
    let s1 := mk_svd_st b1 a u v in
    (* householderBidiagonalization.Run(A, ComputeU{U != nil}, ComputeV{V != nil}, &HB); HB.A is A itself
       when it was wired by this or an earlier call: otherwise HB.A.Set(A) *)
    if negb (shp_eqb (bA b1) a) then stop KPanic s1
    else
      let b2 := bid_alloc b1 a cu cv m n in
      let s2 := mk_svd_st b2 a u v in
      finish (bid_core b2 m n) [bA b2; bU b2; bV b2] s2 true.

(* ------------------------------------------------------------------ matrixInverse.Run
   opt bit 0: PositiveDefinite, bit 1: UpperTriangular *)
Definition inv_run (s : inv_st) (opt n m : Z) : res inv_st :=
  let pd := tb opt 0 in
  if negb (n =? m) then stop KPanic s
  else if n =? 0 then stop KPanic s
  else if negb (is_nil (iId s)) && negb (mfits (iId s) n) then stop KPanic s       (* Id.At(i, j), i, j < n *)
  else
    let id := orelse (iId s) (SM n n) in
    let a := if is_nil (iA s) && negb pd then SM n n else iA s in
    let b := orelse (iB s) (SV n) in
    let s1 := mk_inv_st id a b (iChol s) in
    if pd then
      let r := chol_run (iChol s) 0 n n in
      let s2 := mk_inv_st id a b (rpost r) in
      match rk r with
      | Some KOk =>
          match cL (rpost r) with
          | SM p q => if (p =? q) && shp_eqb id (SM p p) && shp_eqb b (SV p)
                      then mk_res (Some KOk) [SM p p] s2 (p =? n) else mk_res None [] s2 false
          | _ => mk_res None [] s2 false
          end
      | k => mk_res k [] s2 false
      end
    else if negb (shp_eqb a (SM n n)) then stop KPanic s1                          (* a.Set(matrix) *)
    else if shp_eqb id (SM n n) && shp_eqb b (SV n) then mk_res (Some KOk) [id] s1 true
    else mk_res None [] s1 false.

(* ------------------------------------------------------------------ backSubstitution.Run (A n x m) *)
Definition bs_run (s : bs_st) (opt n m : Z) : res bs_st :=
  if negb (n =? m) then stop KErr s
  else if negb (is_nil (bsA s)) && negb (shp_eqb (bsA s) (SM n n)) then stop KErr s
  else
    let s1 := mk_bs_st (SM n n) (bsX s) in
    if negb (is_nil (bsX s)) && negb (shp_eqb (bsX s) (SV n)) then stop KErr s1
    else let s2 := mk_bs_st (SM n n) (SV n) in mk_res (Some KOk) [SV n] s2 true.

(* ------------------------------------------------------------------ gramSchmidt.Run (a n x m; InSitu{Q, R} by value;
   the caller keeps the returned Q, R as the next workspace).  r.At(i, i) for i < m: index panic when m > n. *)
Definition gs_run (s : gs_st) (opt n m : Z) : res gs_st :=
  if negb (is_nil (gQ s)) && negb (shp_eqb (gQ s) (SM n m)) then stop KErr s
  else if negb (is_nil (gR s)) && negb (shp_eqb (gR s) (SM n m)) then stop KErr s
  else if n <? m then stop KPanic s
  else let s' := mk_gs_st (SM n m) (SM n m) in mk_res (Some KOk) [SM n m; SM n m] s' true.

(* ------------------------------------------------------------------ one call on any workspace *)
Definition lift {St} (f : St -> state) (r : res St) : res state :=
  mk_res (rk r) (rout r) (f (rpost r)) (rcur r).
Definition run_rc (st : state) (opt n m : Z) : res state :=
  match st with
  | StChol s => lift StChol (chol_run s opt n m)
  | StHess s => lift StHess (hess_run s opt n m)
  | StTri s => lift StTri (tri_run s opt n m)
  | StBid s => lift StBid (bid_run s opt n m)
  | StQr s => lift StQr (qr_run s opt n m)
  | StEig s => lift StEig (eig_run s opt n m)
  | StSvd s => lift StSvd (svd_run s opt n m)
  | StInv s => lift StInv (inv_run s opt n m)
  | StDet s => lift StDet (det_run s opt n m)
  | StBs s => lift StBs (bs_run s opt n m)
  | StGs s => lift StGs (gs_run s opt n m)
  end.

(* the empty workspaces *)
Definition chol0 := mk_chol_st SNil SNil.
Definition hess0 := mk_hess_st SNil SNil SNil SNil SNil.
Definition tri0 := mk_tri_st SNil SNil SNil SNil SNil.
Definition bid0 := mk_bid_st SNil SNil SNil SNil SNil SNil.
Definition qr0 (ih iu : bool) := mk_qr_st ih iu SNil SNil SNil SNil SNil hess0 tri0.
Definition eig0 (ih : bool) := mk_eig_st (qr0 ih false) SNil SNil false.
Definition svd0 := mk_svd_st bid0 SNil SNil SNil.
Definition inv0 := mk_inv_st SNil SNil SNil chol0.
Definition bs0 := mk_bs_st SNil SNil.
Definition gs0 := mk_gs_st SNil SNil.

(* a history: the calls made one after the other on one workspace; the flags stored in the workspace are
   (re)written by the caller before each call *)
Definition set_flags (st : state) (ih iu : bool) : state :=
  match st with
  | StQr s => StQr (mk_qr_st ih iu (qH s) (qU s) (qX s) (qNu s) (qT4 s) (qHess s) (qHouse s))
  | StEig s => let q := eQr s in
               StEig (mk_eig_st (mk_qr_st ih (qIU q) (qH q) (qU q) (qX q) (qNu q) (qT4 q) (qHess q) (qHouse q))
                                (eVals s) (eVecs s) (eAlias s))
  | _ => st
  end.
Record rcall := mk_rcall { co : Z; cn : Z; cm : Z; cih : bool; ciu : bool }.
Fixpoint run_history (st : state) (cs : list rcall) : list (res state) :=
  match cs with
  | [] => []
  | c :: rest => let r := run_rc (set_flags st (cih c) (ciu c)) (co c) (cn c) (cm c) in
                 r :: run_history (rpost r) rest
  end.
