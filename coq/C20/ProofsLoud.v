(* C20 — loud failure: for every guarded call with well-formed operands, an invalid use
   fails (panic / error) before anything was written to the receiver. *)
From Coq Require Import ZArith List Bool Lia.
From ADV Require Import C20.Model C20.Spec C20.ProofsGuard.
Import ListNotations.
Open Scope Z_scope.

Ltac b2p := repeat match goal with
  | H : _ && _ = true |- _ => apply andb_true_iff in H; destruct H
  | H : _ || _ = false |- _ => apply orb_false_iff in H; destruct H
  | H : negb _ = true |- _ => apply negb_true_iff in H
  | H : negb _ = false |- _ => apply negb_false_iff in H
  | H : (_ =? _) = true |- _ => apply Z.eqb_eq in H
  | H : (_ =? _) = false |- _ => apply Z.eqb_neq in H
  | H : (_ <=? _) = true |- _ => apply Z.leb_le in H
  | H : (_ <=? _) = false |- _ => apply Z.leb_gt in H
  | H : (_ <? _) = true |- _ => apply Z.ltb_lt in H
  | H : (_ <? _) = false |- _ => apply Z.ltb_ge in H
  | H : inb _ _ = true |- _ => apply inb_true in H
  | H : inb _ _ = false |- _ => apply inb_false in H
  end.
Ltac kfail := apply fails_fail; discriminate.

Lemma andb_false_cases a b : a && b = false -> a = false \/ (a = true /\ b = false).
Proof. destruct a, b; simpl; auto. Qed.

(* ---- vectors *)
Lemma loud_VewV r a b : valid (VewV 0 r a b) = false -> failsM (run_VewV r a b).
Proof.
  simpl. intro H. unfold run_VewV.
  destruct (vdim a =? vdim r); destruct (vdim b =? vdim r); simpl in *; try discriminate; kfail.
Qed.
Lemma loud_VewS r a : (vdim a =? vdim r) = false -> failsM (run_VewS r a).
Proof. intro H. unfold run_VewS. rewrite H. simpl. kfail. Qed.
Lemma loud_VSet r a : (vdim a =? vdim r) = false -> failsM (run_VSet r a).
Proof.
  intro H. unfold run_VSet. rewrite Z.eqb_sym, H. simpl. kfail.
Qed.
Lemma loud_VMdotV r a b al : vwf r -> mwf a -> vwf b ->
  valid (VMdotV r a b al) = false -> failsM (run_VMdotV r a b al).
Proof.
  intros Wr Wa Wb. simpl. unfold run_VMdotV, empty. intro H.
  destruct (vdim r =? rows a) eqn:E1; [|simpl; kfail].
  destruct (vdim b =? cols a) eqn:E2; [|simpl; kfail]. simpl in *.
  destruct al; simpl in H; [|discriminate].
  rewrite H. b2p.
  destruct Wa as (Hr & Hc & _).
  apply fails_seq_r. { apply pure_chk, vacc_ok. lia. }
  apply fails_seq_r. { apply pure_chk, vacc_ok. lia. }
  kfail.
Qed.
Lemma loud_VVdotM r a b al : vwf r -> vwf a -> mwf b ->
  valid (VVdotM r a b al) = false -> failsM (run_VVdotM r a b al).
Proof.
  intros Wr Wa Wb. simpl. unfold run_VVdotM, empty. intro H.
  destruct (vdim r =? cols b) eqn:E1; [|simpl; kfail].
  destruct (vdim a =? rows b) eqn:E2; [|simpl; kfail]. simpl in *.
  destruct al; simpl in H; [|discriminate].
  rewrite H. b2p.
  destruct Wb as (Hr & Hc & _).
  apply fails_seq_r. { apply pure_chk, vacc_ok. lia. }
  apply fails_seq_r. { apply pure_chk, vacc_ok. lia. }
  kfail.
Qed.
Lemma loud_VAt r i : inb i (vdim r) = false -> failsM (chk (vacc r i)).
Proof. intro H. apply fails_chk, vacc_bad. b2p. exact H. Qed.
Lemma loud_VSwap_dense r i j : is_sparse (vk r) = false ->
  inb i (vdim r) && inb j (vdim r) = false -> failsM (run_VSwap r i j).
Proof.
  intros Hs H. unfold run_VSwap. rewrite Hs.
  destruct (inb j (vdim r)) eqn:Ej.
  - rewrite andb_true_r in H. apply fails_seq_r.
    { apply pure_chk, vacc_ok. b2p. exact Ej. }
    apply fails_seq_l, loud_VAt, H.
  - apply fails_seq_l, loud_VAt, Ej.
Qed.
Lemma loud_VAsMatrix r n m : (0 <=? n) && (0 <=? m) = true ->
  valid (VAsMatrix r n m) = false -> failsM (run_VAsMatrix r n m).
Proof.
  simpl. intros G H. rewrite G in H. simpl in H. unfold run_VAsMatrix. rewrite H. simpl. kfail.
Qed.

(* newsparse_loop returns KOk only if every index is below n and new *)
Lemma newsparse_ok n : forall idx seen d d',
  newsparse_loop n seen idx d = (KOk, d') ->
  forallb (fun k => k <? n) idx = true /\ distinctb idx = true /\
  (forall x, In x seen -> existsb (Z.eqb x) idx = false) /\ d' = d.
Proof.
  induction idx as [|k rest IH]; intros seen d d' H; simpl in *.
  - inversion H; auto.
  - destruct (n <=? k) eqn:E1; [discriminate|].
    destruct (existsb (Z.eqb k) seen) eqn:E2; [discriminate|].
    destruct (IH _ _ _ H) as (A & B & C & D).
    assert (Hk : (k <? n) = true) by (apply Z.ltb_lt; apply Z.leb_gt in E1; lia).
    rewrite Hk, A, B, (C k (or_introl eq_refl)). simpl.
    split; [reflexivity|]. split; [reflexivity|]. split; [|exact D].
    intros x Hx. rewrite (C x (or_intror Hx)). rewrite orb_false_r.
    destruct (x =? k) eqn:Exk; [|reflexivity].
    apply Z.eqb_eq in Exk. subst x.
    assert (existsb (Z.eqb k) seen = true) by (apply existsb_exists; exists k; split; [exact Hx | apply Z.eqb_refl]).
    congruence.
Qed.
Lemma newsparse_pure_write n : forall idx seen d, snd (newsparse_loop n seen idx d) = d.
Proof.
  induction idx as [|k rest IH]; intros seen d; simpl; [reflexivity|].
  destruct (n <=? k); [reflexivity|]. destruct (existsb (Z.eqb k) seen); [reflexivity|]. apply IH.
Qed.
Lemma forallb_inb n l : nonneg_all l = true -> forallb (fun k => k <? n) l = true -> all_in n l = true.
Proof.
  unfold nonneg_all, all_in. induction l as [|x l IH]; simpl; intros A B; [reflexivity|].
  b2p. rewrite IH by assumption. unfold inb.
  assert ((0 <=? x) = true) by (apply Z.leb_le; lia).
  assert ((x <? n) = true) by (apply Z.ltb_lt; lia).
  rewrite H3, H4. reflexivity.
Qed.
Lemma loud_VNewSparse idx nvals n : nonneg_all idx && (0 <=? n) = true ->
  valid (VNewSparse idx nvals n) = false -> failsM (run_VNewSparse idx nvals n).
Proof.
  simpl. intros G H. apply andb_true_iff in G. destruct G as [G1 G2]. rewrite G2 in H.
  unfold run_VNewSparse. destruct (lenZ idx =? nvals) eqn:E; simpl in *; [|kfail].
  intro d. split; [|apply newsparse_pure_write].
  destruct (newsparse_loop n [] idx d) as [k d'] eqn:R. simpl. intro Hk. subst k.
  apply newsparse_ok in R. destruct R as (A & B & _ & _).
  rewrite (forallb_inb _ _ G1 A), B in H. discriminate.
Qed.

(* ---- matrices *)
Lemma dims_eqb_sym a b : dims_eqb a b = dims_eqb b a.
Proof. unfold dims_eqb. rewrite (Z.eqb_sym (rows a)), (Z.eqb_sym (cols a)). reflexivity. Qed.
Lemma loud_MewM r a b : dims_eqb a r && dims_eqb b r = false -> failsM (run_MewM r a b).
Proof.
  intro H. unfold run_MewM. destruct (dims_eqb a r); destruct (dims_eqb b r); simpl in *; try discriminate; kfail.
Qed.
Lemma loud_MewS r a : dims_eqb a r = false -> failsM (run_MewS r a).
Proof. intro H. unfold run_MewS. rewrite H. simpl. kfail. Qed.
Lemma loud_MSet r a : dims_eqb a r = false -> failsM (run_MSet r a).
Proof. intro H. unfold run_MSet. rewrite dims_eqb_sym, H. simpl. kfail. Qed.
Lemma fails_chk_any k (b : M) : failsM b -> failsM (chk k ;; b).
Proof.
  intro Hb. destruct k; try (apply fails_seq_l, fails_chk; discriminate).
  apply fails_seq_r; [apply pure_chk; reflexivity | exact Hb].
Qed.
Lemma loud_MdotM r a b al : valid (MdotM r a b al) = false -> failsM (run_MdotM r a b al).
Proof.
  simpl. intro H. unfold run_MdotM.
  destruct (rows a =? rows r) eqn:E1; [|simpl; kfail].
  destruct (cols b =? cols r) eqn:E2; [|simpl; kfail].
  destruct (cols a =? rows b) eqn:E3; [|simpl; kfail]. simpl in *.
  destruct al; simpl in H; [|discriminate]. apply negb_false_iff in H. rewrite H.
  repeat apply fails_chk_any. kfail.
Qed.
Lemma loud_MOuter r a b : (vdim a =? rows r) && (vdim b =? cols r) = false -> failsM (run_MOuter r a b).
Proof.
  intro H. unfold run_MOuter.
  destruct (vdim a =? rows r); destruct (vdim b =? cols r); simpl in *; try discriminate; kfail.
Qed.
Lemma loud_MAt r i j : inb i (rows r) && inb j (cols r) = false -> failsM (chk (macc r i j)).
Proof.
  intro H. apply fails_chk. rewrite macc_bad; [discriminate|].
  intros [A B]. apply inb_true in A. apply inb_true in B. rewrite A, B in H. discriminate.
Qed.
Lemma loud_MRow r i : 0 < cols r -> inb i (rows r) = false -> failsM (run_MRow r i).
Proof.
  intros Hc H. unfold run_MRow. apply fails_seq_r.
  { apply pure_chk. unfold alloc_vec. replace (cols r <? 0) with false by (symmetry; apply Z.ltb_ge; lia). reflexivity. }
  apply fails_forZ_first; [exact Hc|]. apply loud_MAt. rewrite H. reflexivity.
Qed.
Lemma loud_MCol r j : 0 < rows r -> inb j (cols r) = false -> failsM (run_MCol r j).
Proof.
  intros Hc H. unfold run_MCol. apply fails_seq_r.
  { apply pure_chk. unfold alloc_vec. replace (rows r <? 0) with false by (symmetry; apply Z.ltb_ge; lia). reflexivity. }
  apply fails_forZ_first; [exact Hc|]. apply loud_MAt. rewrite H. apply andb_false_r.
Qed.
Lemma loud_MDiag r : square r = false -> failsM (run_MDiag r).
Proof. unfold square. intro H. unfold run_MDiag. rewrite H. simpl. kfail. Qed.
Lemma idx_chk_ok r i j : inb i (rows r) && inb j (cols r) = true -> idx_chk r i j = KOk.
Proof. intro H. unfold idx_chk. rewrite H. reflexivity. Qed.
Lemma idx_chk_bad r i j : inb i (rows r) && inb j (cols r) = false -> idx_chk r i j <> KOk.
Proof. intro H. unfold idx_chk. rewrite H. discriminate. Qed.
Lemma loud_MSwap r i1 j1 i2 j2 :
  inb i1 (rows r) && inb j1 (cols r) && inb i2 (rows r) && inb j2 (cols r) = false ->
  failsM (run_MSwap r i1 j1 i2 j2).
Proof.
  intro H. unfold run_MSwap.
  destruct (inb i1 (rows r) && inb j1 (cols r)) eqn:E1.
  - apply fails_seq_r; [apply pure_chk, idx_chk_ok, E1|].
    apply fails_seq_l, fails_chk, idx_chk_bad.
    rewrite <- andb_assoc in H. simpl in H. exact H.
  - apply fails_seq_l, fails_chk, idx_chk_bad, E1.
Qed.
Lemma loud_MSwapRows r i j : negb (square r) || (0 <? rows r) = true ->
  valid (MSwapRows r i j) = false -> failsM (run_MSwapRows r i j).
Proof.
  simpl. unfold square. intros G H. unfold run_MSwapRows.
  destruct (rows r =? cols r) eqn:E; simpl in *; [|kfail]. b2p.
  apply fails_forZ_first; [lia|]. apply loud_MSwap.
  assert (Z0 : inb 0 (cols r) = true) by (apply inb_true; lia).
  rewrite Z0. rewrite !andb_true_r.
  destruct (inb i (rows r)); destruct (inb j (rows r)); simpl in *; try discriminate; reflexivity.
Qed.
Lemma loud_MSwapCols r i j : negb (square r) || (0 <? rows r) = true ->
  valid (MSwapCols r i j) = false -> failsM (run_MSwapCols r i j).
Proof.
  simpl. unfold square. intros G H. unfold run_MSwapCols.
  destruct (rows r =? cols r) eqn:E; simpl in *; [|kfail]. b2p.
  apply fails_forZ_first; [lia|]. apply loud_MSwap.
  assert (Z0 : inb 0 (rows r) = true) by (apply inb_true; lia).
  rewrite Z0. simpl. rewrite <- E.
  destruct (inb i (rows r)); destruct (inb j (rows r)); simpl in *; try discriminate; reflexivity.
Qed.
Lemma loud_MPerm_nonsquare r pi : square r = false ->
  failsM (run_MPermRows r pi) /\ failsM (run_MPermCols r pi) /\ failsM (run_MSymPerm r pi).
Proof.
  unfold square, run_MPermRows, run_MPermCols, run_MSymPerm. intro H. rewrite H. simpl.
  repeat split; kfail.
Qed.
Lemma loud_MNewDenseR L r c : valid (MNewDense DenseR L r c) = false -> (0 <=? r) && (0 <=? c) = true ->
  failsM (run_MNewDense DenseR L r c).
Proof.
  simpl. intros H G. rewrite G in H. simpl in H. unfold run_MNewDense.
  rewrite orb_comm in H. rewrite H. kfail.
Qed.

Lemma newsparsem_ok m : mwf m -> forall ri ci d,
  lenZ ri = lenZ ci ->
  (exists d', newsparsem_loop m ri ci d = (KOk, d')) ->
  all_in (rows m) ri = true /\ all_in (cols m) ci = true.
Proof.
  intros W. induction ri as [|i ri IH]; intros ci d HL [d' H]; destruct ci as [|j ci].
  - split; reflexivity.
  - unfold lenZ in HL; simpl in HL; lia.
  - unfold lenZ in HL; simpl in HL; lia.
  - simpl in H.
    unfold seq in H. destruct (chk (macc m i j) d) as [k d1] eqn:E.
    destruct (macc m i j) eqn:Em; simpl in E; inversion E; subst; try discriminate.
    assert (inb i (rows m) && inb j (cols m) = true).
    { destruct (inb i (rows m) && inb j (cols m)) eqn:Eb; [reflexivity|].
      rewrite macc_bad in Em; [discriminate|].
      intros [A B]. apply inb_true in A. apply inb_true in B. rewrite A, B in Eb. discriminate. }
    b2p. destruct (IH ci d1) as [A B].
    { unfold lenZ in *. simpl in HL. lia. }
    { exists d'. exact H. }
    unfold all_in in *. simpl. rewrite A, B.
    assert (inb i (rows m) = true) by (apply inb_true; assumption).
    assert (inb j (cols m) = true) by (apply inb_true; assumption).
    rewrite H2, H3. split; reflexivity.
Qed.
Lemma newsparsem_pure_write m : forall ri ci d, snd (newsparsem_loop m ri ci d) = d.
Proof.
  induction ri as [|i ri IH]; intros ci d; destruct ci as [|j ci]; simpl; try reflexivity.
  unfold seq. destruct (macc m i j); simpl; try reflexivity. apply IH.
Qed.
Lemma loud_MNewSparse ri ci nvals r c : (0 <=? r) && (0 <=? c) = true ->
  valid (MNewSparse ri ci nvals r c) = false -> failsM (run_MNewSparse ri ci nvals r c).
Proof.
  simpl. intros G H. unfold run_MNewSparse.
  destruct (lenZ ri =? lenZ ci) eqn:E1; [|simpl; kfail].
  destruct (lenZ ci =? nvals) eqn:E2; [|simpl; kfail]. simpl.
  b2p. intro d. split; [|apply newsparsem_pure_write].
  destruct (newsparsem_loop (mnew Sparse 0 r c) ri ci d) as [k d'] eqn:R. simpl. intro Hk. subst k.
  assert (W : mwf (mnew Sparse 0 r c)) by (unfold mwf, mnew; simpl; repeat split; lia).
  destruct (newsparsem_ok _ W ri ci d E1 (ex_intro _ d' R)) as [A B]. simpl in A, B.
  assert (X1 : (lenZ ri =? nvals) = true) by (apply Z.eqb_eq; lia).
  assert (X2 : (lenZ ci =? nvals) = true) by (apply Z.eqb_eq; lia).
  assert (X3 : (0 <=? r) = true) by (apply Z.leb_le; lia).
  assert (X4 : (0 <=? c) = true) by (apply Z.leb_le; lia).
  unfold lenZ in *. rewrite X1, X3, X4, A, B in H. discriminate.
Qed.

(* ---- scalars and entry points *)
Lemma loud_SSetVar n0 o0 i n order : (2 <? order) = true -> failsM (run_SSetVar n0 o0 i n order).
Proof. intro H. unfold run_SSetVar. rewrite H. kfail. Qed.
Lemma loud_SDyadic nc oc na oa nb ob :
  (nc =? Z.max na nb) && (oc =? Z.max oa ob) = true ->
  valid (SDyadic 0 nc oc na oa nb ob) = false -> failsM (run_SDyadic 0 nc oc na oa nb ob).
Proof.
  simpl. intros G H. apply negb_false_iff in H. unfold run_SDyadic. simpl.
  apply andb_true_iff in G. destruct G as [G1 G2]. rewrite G1, G2. simpl.
  apply fails_seq_r; [exact pure_ret|].
  assert (E : (1 <=? Z.max oa ob) = true) by (b2p; apply Z.leb_le; lia).
  rewrite E. simpl. rewrite H. kfail.
Qed.
Ltac cmp_cases :=
  repeat match goal with
  | |- context [?x =? ?y] => destruct (Z.eqb_spec x y)
  | |- context [?x <? ?y] => destruct (Z.ltb_spec x y)
  | |- context [?x <=? ?y] => destruct (Z.leb_spec x y)
  end; simpl; intros; try discriminate; try congruence; try lia.
Tactic Notation "alg_case" constr(a) constr(k) := destruct (Z.eq_dec a k) as [->|?]; [solve [simpl; cmp_cases]|].
Lemma loud_AEntry alg r c opt : guarded (AEntry alg r c opt) = true ->
  entry_valid alg r c opt = false -> run_AEntry alg r c opt <> KOk.
Proof.
  unfold guarded, entry_valid, run_AEntry.
  alg_case alg 0. alg_case alg 1. alg_case alg 2. alg_case alg 3. alg_case alg 4. alg_case alg 5.
  alg_case alg 6. alg_case alg 7. alg_case alg 8. alg_case alg 9. alg_case alg 10. alg_case alg 13.
  alg_case alg 14. alg_case alg 15. alg_case alg 16.
  repeat match goal with H : alg <> ?k |- _ => apply Z.eqb_neq in H; rewrite H; clear H end.
  simpl. rewrite !andb_false_r. discriminate.
Qed.

(* ------------------------------------------------------------------ the theorem *)
Theorem loud_failure_all c :
  wf_call c -> guarded c = true -> valid c = false -> kind_of c <> KOk /\ written c = false.
Proof.
  intros W G V. apply run_of_fails. destruct c; simpl body; simpl in W; simpl in G; try discriminate G.
  - apply loud_VewV. simpl in *. exact V.
  - apply loud_VewS. exact V.
  - destruct W as (? & ? & ?). apply loud_VMdotV; assumption.
  - destruct W as (? & ? & ?). apply loud_VVdotM; assumption.
  - apply loud_VSet. exact V.
  - apply loud_VAt. exact V.
  - apply loud_VSwap_dense; [apply negb_true_iff in G; exact G | exact V].
  - apply loud_VAsMatrix; assumption.
  - apply loud_VNewSparse; assumption.
  - apply loud_MewM. exact V.
  - apply loud_MewS. exact V.
  - apply loud_MdotM. exact V.
  - apply loud_MOuter. exact V.
  - apply loud_MSet. exact V.
  - apply loud_MAt. exact V.
  - apply loud_MRow; [apply Z.ltb_lt; exact G | exact V].
  - apply loud_MCol; [apply Z.ltb_lt; exact G | exact V].
  - apply loud_MDiag. exact V.
  - apply loud_MSwap. exact V.
  - apply loud_MSwapRows; assumption.
  - apply loud_MSwapCols; assumption.
  - apply negb_true_iff in G. apply (loud_MPerm_nonsquare r pi G).
  - apply negb_true_iff in G. apply (loud_MPerm_nonsquare r pi G).
  - apply negb_true_iff in G. apply (loud_MPerm_nonsquare r pi G).
  - destruct k; try discriminate G. apply loud_MNewDenseR; assumption.
  - apply loud_MNewSparse; assumption.
  - apply loud_SSetVar. exact G.
  - apply andb_true_iff in G. destruct G as [G1 G2]. apply andb_true_iff in G1. destruct G1 as [G0 G1].
    apply Z.eqb_eq in G0. subst alias. apply loud_SDyadic; [rewrite G1, G2; reflexivity | exact V].
  - apply fails_chk. apply loud_AEntry; assumption.
Qed.
