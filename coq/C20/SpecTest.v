(* C20 — the specification and the model evaluated on examples (sanity of the statements). *)
From Coq Require Import ZArith List Bool QArith Floats.
From ADV Require Import Base.Num C20.Model C20.Spec.
Import ListNotations.
Open Scope Z_scope.

Definition v3 := mkvec Dense 3 3.
Definition m23 := mnew Dense 6 2 3.
(* a valid and an invalid element-wise sum *)
Example t_vewv_ok : run (VewV 0 v3 v3 v3) = (KOk, true, []). Proof. reflexivity. Qed.
Example t_vewv_bad : run (VewV 0 v3 v3 (mkvec Dense 2 2)) = (KPanic, false, []). Proof. reflexivity. Qed.
Example t_valid : valid (VewV 0 v3 v3 v3) = true /\ valid (VewV 0 v3 v3 (mkvec Dense 2 2)) = false. Proof. split; reflexivity. Qed.
(* index checks: explicit panic for matrices and sparse vectors, Go runtime error for dense vectors *)
Example t_mat_oob : run (MAt m23 2 0) = (KPanic, false, []). Proof. reflexivity. Qed.
Example t_vat_dense : run (VAt v3 3) = (KRt, false, []). Proof. reflexivity. Qed.
Example t_vat_sparse : run (VAt (mkvec Sparse 3 3) (-1)) = (KPanic, false, []). Proof. reflexivity. Qed.
(* transposed view of a slice: element (1,0) of the transposed 2x2 lower-right block of a 3x3 matrix *)
Example t_index_T : mindex (mT (mslice (mnew Dense 9 3 3) 1 3 1 3)) 1 0 = 5. Proof. reflexivity. Qed.
(* a matrix-vector product on aliased operands is refused before anything is written *)
Example t_alias : run (VMdotV v3 (mnew Dense 9 3 3) v3 true) = (KPanic, false, []). Proof. reflexivity. Qed.
(* SetVariable: order 3 is an error before the receiver is touched *)
Example t_setvar : run (SSetVar 0 0 0 2 3) = (KErr, false, []) /\ run (SSetVar 0 0 1 2 2) = (KOk, true, []). Proof. split; reflexivity. Qed.
(* dyadic rule with 2 resp. 3 partial derivatives: panic *)
Example t_dyadic : fst (fst (run (SDyadic 0 3 1 2 1 3 1))) = KPanic. Proof. reflexivity. Qed.
(* entry points *)
Example t_entry : run_AEntry 0 2 3 0 = KErr /\ run_AEntry 5 0 0 0 = KPanic /\ run_AEntry 13 2 3 0 = KPanic /\ run_AEntry 2 3 2 0 = KOk.
Proof. repeat split; reflexivity. Qed.
(* skeletons: a capped loop that never breaks runs cap times; one that breaks at once runs once *)
Example t_capped : iters_of (capped (fun s : nat => @inl nat unit (S s)) 7 0 0%nat) = Some 7%nat. Proof. reflexivity. Qed.
Example t_capped_break : iters_of (capped (fun s : nat => @inr nat unit tt) 7 0 0%nat) = Some 1%nat. Proof. reflexivity. Qed.
(* line search: an objective that never satisfies the Wolfe conditions uses the whole budget *)
Example t_ls : linesearch_evals (fun _ => LsContinue) (fun _ => ZmShrink) (fun _ => false) 20 = 21%nat. Proof. reflexivity. Qed.
Example t_ls_zoom : linesearch_evals (fun _ => LsZoomA) (fun _ => ZmShrink) (fun _ => false) 20 = 22%nat. Proof. reflexivity. Qed.
(* the 2x2 QR run does converge on [[2,1],[1,3]] (binary64 instance; the Q instance is exact only
   where the Givens square root is rational, as on the witnesses of ProofsTerm) *)
Example t_qr_converges :
  match qr_run2 NumF 0x1p-60%float 200 (mkblk 2%float 1%float 1%float 3%float) with Done _ n => (n <? 60)%nat = true | _ => False end.
Proof. vm_compute. reflexivity. Qed.
(* gradient descent on x^2 with step 1/4 does terminate *)
Example t_gd_converges :
  match uncapped (gd_step NumQ (1 # 4) (1 # 100)) 50 0 1%Q with Done _ _ => True | _ => False end.
Proof. vm_compute. exact I. Qed.
