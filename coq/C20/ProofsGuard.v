(* C20 — proofs about the guard model: combinators, bounds of index(), loud failure. *)
From Coq Require Import ZArith List Bool Lia.
From ADV Require Import C20.Model C20.Spec.
Import ListNotations.
Open Scope Z_scope.

(* ------------------------------------------------------------------ combinators *)
Definition okM (a : M) : Prop := forall d, exists d', a d = (KOk, d').
Definition pureM (a : M) : Prop := forall d, a d = (KOk, d).
Definition failsM (a : M) : Prop := forall d, fst (a d) <> KOk /\ snd (a d) = d.

Lemma pure_ok a : pureM a -> okM a.
Proof. intros H d; exists d; apply H. Qed.
Lemma ok_ret : okM ret. Proof. intro d; exists d; reflexivity. Qed.
Lemma pure_ret : pureM ret. Proof. intro d; reflexivity. Qed.
Lemma ok_mark : okM mark. Proof. intro d; exists true; reflexivity. Qed.
Lemma ok_seq a b : okM a -> okM b -> okM (a ;; b).
Proof. intros Ha Hb d. unfold seq. destruct (Ha d) as [d' E]; rewrite E. apply Hb. Qed.
Lemma pure_seq a b : pureM a -> pureM b -> pureM (a ;; b).
Proof. intros Ha Hb d. unfold seq. rewrite Ha. apply Hb. Qed.
Lemma pure_chk k : k = KOk -> pureM (chk k).
Proof. intros -> d; reflexivity. Qed.
Lemma ok_chk k : k = KOk -> okM (chk k).
Proof. intro H; apply pure_ok, pure_chk, H. Qed.
Lemma ok_when b a : okM a -> okM (when b a).
Proof. intro H; destruct b; simpl; [exact H | exact ok_ret]. Qed.
Lemma pure_when_false a : pureM (when false a). Proof. exact pure_ret. Qed.

Lemma fails_fail k : k <> KOk -> failsM (fail k).
Proof. intros H d; split; [exact H | reflexivity]. Qed.
Lemma fails_chk k : k <> KOk -> failsM (chk k).
Proof. intros H. destruct k; try (apply fails_fail; discriminate). contradiction. Qed.
Lemma fails_seq_l a b : failsM a -> failsM (a ;; b).
Proof.
  intros Ha d. unfold seq. destruct (Ha d) as [H1 H2]. destruct (a d) as [k d'] eqn:E; simpl in *.
  destruct k; try contradiction; simpl; (split; [discriminate | assumption]).
Qed.
Lemma fails_seq_r a b : pureM a -> failsM b -> failsM (a ;; b).
Proof. intros Ha Hb d. unfold seq. rewrite Ha. apply Hb. Qed.

Lemma ok_for_from n : forall i body,
  (forall k, i <= k < i + Z.of_nat n -> okM (body k)) -> okM (for_from n i body).
Proof.
  induction n as [|n IH]; intros i body H; simpl.
  - exact ok_ret.
  - apply ok_seq.
    + apply H; lia.
    + apply IH; intros k Hk; apply H; lia.
Qed.
Lemma ok_forZ n body : (forall k, 0 <= k < n -> okM (body k)) -> okM (forZ n body).
Proof.
  intro H. unfold forZ. apply ok_for_from. intros k Hk. apply H.
  lia.
Qed.
Lemma fails_forZ_first n body : 0 < n -> failsM (body 0) -> failsM (forZ n body).
Proof.
  intros Hn Hb. unfold forZ. destruct (Z.to_nat n) as [|m] eqn:E; [lia|].
  simpl. apply fails_seq_l, Hb.
Qed.
Lemma pure_forZ_nonpos n body : n <= 0 -> pureM (forZ n body).
Proof.
  intro H. unfold forZ. replace (Z.to_nat n) with O by lia. exact pure_ret.
Qed.

(* from the body to the observable run *)
Lemma run_of_ok c : okM (body c) -> kind_of c = KOk /\ shape_of c = out_shape c.
Proof.
  intro H. unfold kind_of, shape_of, run. destruct (H false) as [d E]. rewrite E. split; reflexivity.
Qed.
Lemma run_of_fails c : failsM (body c) -> kind_of c <> KOk /\ written c = false.
Proof.
  intro H. unfold kind_of, written, run. destruct (H false) as [H1 H2].
  destruct (body c false) as [k d]; simpl in *. subst d. destruct k; try contradiction; simpl; (split; [discriminate | reflexivity]).
Qed.

(* ------------------------------------------------------------------ accesses *)
Lemma inb_true i n : inb i n = true <-> 0 <= i < n.
Proof. unfold inb. rewrite andb_true_iff, Z.leb_le, Z.ltb_lt. tauto. Qed.
Lemma inb_false i n : inb i n = false <-> ~ (0 <= i < n).
Proof. rewrite <- inb_true. destruct (inb i n); split; intros; try discriminate; try tauto; try (exfalso; auto; fail). Qed.

Lemma vacc_ok v i : 0 <= i < vdim v -> vacc v i = KOk.
Proof. intro H. unfold vacc. apply inb_true in H. rewrite H. reflexivity. Qed.
Lemma vacc_bad v i : ~ (0 <= i < vdim v) -> vacc v i <> KOk.
Proof. intro H. unfold vacc. apply inb_false in H. rewrite H. destruct (is_sparse (vk v)); discriminate. Qed.

(* index() of a well-formed header lands inside the storage: no access out of [0, len) *)
Lemma mindex_in_bounds m i j :
  mwf m -> 0 <= i < rows m -> 0 <= j < cols m -> 0 <= mindex m i j < mlen m.
Proof.
  intros (Hr & Hc & Hro & Hco & Hrm & Hcm & Hl) Hi Hj. unfold mindex. rewrite Hl.
  destruct (tr m); nia.
Qed.
Lemma macc_ok m i j : mwf m -> 0 <= i < rows m -> 0 <= j < cols m -> macc m i j = KOk.
Proof.
  intros W Hi Hj. unfold macc.
  assert (E1 : inb i (rows m) = true) by (apply inb_true; exact Hi).
  assert (E2 : inb j (cols m) = true) by (apply inb_true; exact Hj).
  rewrite E1, E2. simpl.
  assert (E3 : inb (mindex m i j) (mlen m) = true) by (apply inb_true, mindex_in_bounds; assumption).
  rewrite E3. reflexivity.
Qed.
Lemma macc_bad m i j : ~ (0 <= i < rows m /\ 0 <= j < cols m) -> macc m i j = KPanic.
Proof.
  intro H. unfold macc.
  destruct (inb i (rows m)) eqn:E1; destruct (inb j (cols m)) eqn:E2; simpl; try reflexivity.
  apply inb_true in E1. apply inb_true in E2. tauto.
Qed.

(* views keep the header well-formed exactly when the requested range is inside the view *)
Lemma mnew_wf k r c : 0 <= r -> 0 <= c -> mwf (mnew k (r * c) r c).
Proof. intros Hr Hc. unfold mwf, mnew; simpl. destruct k; repeat split; lia. Qed.
Lemma mslice_wf m a b c d :
  mwf m -> 0 <= a <= b -> b <= rows m -> 0 <= c <= d -> d <= cols m -> mwf (mslice m a b c d).
Proof. intros (Hr & Hc & Hro & Hco & Hrm & Hcm & Hl) ? ? ? ?. unfold mwf, mslice; simpl. repeat split; lia. Qed.
Lemma mT_wf m : mwf m -> mwf (mT m).
Proof. intros (Hr & Hc & Hro & Hco & Hrm & Hcm & Hl). unfold mwf, mT; simpl. repeat split; lia. Qed.
