(* C20 round 6 — what the property says about a call on a RECYCLED workspace:
     the call ends in an error / panic (loud), or it returns objects of exactly the shapes a call on a fresh
     (empty) workspace returns for this input and these options, computed from the new input (rcur).
   "Never a stale or wrongly sized result with err == nil." *)
From Coq Require Import ZArith List Bool.
From ADV Require Import C20.Model C20.ModelRecycle.
Import ListNotations.
Open Scope Z_scope.

Definition ocall := (Z * Z * Z)%type.          (* options, rows, columns of the new input *)

Section Generic.
  Context {St : Type}.
  Variable run : St -> Z -> Z -> Z -> res St.
  Variable empty : St.

  (* the calls of a history, made one after the other on one workspace *)
  Fixpoint hist (s : St) (cs : list ocall) : list (ocall * res St) :=
    match cs with
    | [] => []
    | (o, n, m) :: rest => let r := run s o n m in ((o, n, m), r) :: hist (rpost r) rest
    end.

  (* what a call on the empty workspace returns *)
  Definition fresh_out (c : ocall) : list shp := let '(o, n, m) := c in rout (run empty o n m).

  Definition loud (r : res St) : Prop := exists k, rk r = Some k /\ k <> KOk.
  (* decided by the shape model, and: loud, or right shapes computed from the new input *)
  Definition loud_or_right (c : ocall) (r : res St) : Prop :=
    loud r \/ (rk r = Some KOk /\ rout r = fresh_out c /\ rcur r = true).
  (* the same without the value clause *)
  Definition loud_or_right_shaped (c : ocall) (r : res St) : Prop :=
    loud r \/ (rk r = Some KOk /\ rout r = fresh_out c).
  Definition silent_wrong (c : ocall) (r : res St) : Prop :=
    rk r = Some KOk /\ (rout r <> fresh_out c \/ rcur r = false).
End Generic.
