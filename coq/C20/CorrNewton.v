(* C20 round 7 — tie of ModelNewton: (1) bit-exact replay of logged UNCONSTRAINED newton runs on objectives whose
   Newton step rounds away: the hook log gives every iterate x_i and the step t_i (InSitu.T1) it was left with; the
   model's step loop must reproduce x_{i+1} from (x_i, t_i) and must say LStall exactly where the run returned
   "line search failed" (RunMin's line-search branch included: there InSitu.T1 holds the step ALREADY scaled by the
   alpha of the line search, so x_{i+1} = x_i - T1 and the stagnation test of nstep_ls is the one of an unconstrained
   nstep_loop pass on (x_i, T1)); (2) the shape guards of gaussJordan.Run on both paths. *)
From Coq Require Import ZArith List Bool Floats.
From ADV Require Import Base.Corr Base.Num C20.Model C20.ModelRetry C20.ModelNewton.
Import ListNotations.

Inductive ncase :=
  | NS (cc : float) (xs ts : list (list float)) (failed : bool)
  | GJ (fast tri : bool) (n xr bl kind : Z) (changed : bool).

Fixpoint nwalk (cc : float) (failed : bool) (xs ts : list (list float)) : bool :=
  match xs, ts with
  | [x], [] => negb failed
  | [x], [t] => failed && match nstep_loop NumF 1 cc None x t with LStall => true | _ => false end
  | x :: ((x' :: _) as xs'), t :: ts' =>
      match nstep_loop NumF 1 cc None x t with LAccept x2 => list_eqb feqb x2 x' | _ => false end
      && nwalk cc failed xs' ts'
  | _, _ => false
  end.

Definition ncheck (c : ncase) : bool :=
  match c with
  | NS cc xs ts failed => nwalk cc failed xs ts
  | GJ fast tri n xr bl kind changed =>
      Z.eqb (gj_guard fast tri n xr bl) kind && (Z.eqb kind 0 || negb changed)
  end.
Definition nmism (cs : list ncase) : list nat := mismatches ncheck cs.
