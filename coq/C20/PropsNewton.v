(* C20 round 7 — statements about newton's step loop with its stagnation test, the outer loop around it, and the
   shape guards of gaussJordan.Run (generic and DenseFloat64 fast paths).  Statement-only file. *)
From Coq Require Import ZArith List Bool Floats.
From ADV Require Import Base.Num C20.Model C20.ModelRetry C20.ModelNewton C20.ProofsNewton.
Import ListNotations.

(* 1. without constraints the step loop is ONE pass for every fuel >= 1: it stalls (-> "line search failed") exactly
      when x1 - t1 == x1 coordinatewise, else the trial point is accepted *)
Theorem nstep_unconstrained_one_pass : forall A (N : Num A) fuel cc (x1 t1 : list A),
  nstep_loop N (S fuel) cc None x1 t1 = if all_eqb N x1 (vsub N x1 t1) then LStall else LAccept (vsub N x1 t1).
Proof. exact (@nstep_unconstrained_one_pass_l). Qed.
Example nstep_unconstrained_one_pass_stall :
  nstep_loop NumF 1 0x1.ccccccccccccdp-1%float None [0x1.1436adb8bac71p+17%float] [0x1.5fd7fe1796495p-37%float] = LStall.
Proof. vm_compute. reflexivity. Qed.
Example nstep_unconstrained_one_pass_moves :
  nstep_loop NumF 1 0x1.ccccccccccccdp-1%float None [1%float] [0x1p-3%float] = LAccept [0x1.cp-1%float].
Proof. vm_compute. reflexivity. Qed.

(* 2. a stalled step is LOUD at the pass it occurs, for every objective / direction oracle, every constraints value
      (none, or any callback), every remaining cap and every inner fuel >= 1: the run cannot spin on it *)
Theorem newton_stall_is_loud : forall A (N : Num A) (E : Type) eval conv isnan direction fuel cc constraints cap i
    (x1 t1 : list A) (e : E),
  conv e = false -> isnan e = false -> direction e = Some t1 ->
  all_eqb N x1 (vsub N x1 t1) = true ->
  newton_outer E eval conv isnan direction (nstep_loop N (S fuel) cc constraints) (S cap) i x1 e
  = NLineSearchFailed x1 i.
Proof. exact (@newton_stall_is_loud_l). Qed.

(* 3. history level: consecutive iterates of EVERY run differ (Vequals false), so no run passes twice in a row
      through the same point; says nothing about longer cycles or convergence *)
Theorem newton_iterates_move : forall A (N : Num A) (E : Type) eval conv isnan direction fuel cc constraints cap
    (x1 : list A) (e : E),
  chain_moves N (newton_iterates E eval conv isnan direction (nstep_loop N fuel cc constraints) cap x1 e) = true.
Proof. exact (@newton_iterates_move_l). Qed.
(* non-vacuity AND the limit of the statement: f(x) = x^2 - 2 from 1.5 in binary64 with a tolerance below the rounding error
   of the residual, E = (y, J), direction = y / J: consecutive iterates differ, yet the run oscillates with period 2 between
   the two neighbours of sqrt 2 and uses up the whole cap — the stagnation test does not see cycles *)
Definition ex_eval (x : list float) : option (float * float) :=
  match x with [a] => Some ((a * a - 2)%float, (2 * a)%float) | _ => None end.
Definition ex_run cap := newton_iterates (float * float) ex_eval (fun e => PrimFloat.ltb (PrimFloat.abs (fst e)) 0x1p-80%float)
    (fun e => negb (PrimFloat.eqb (fst e) (fst e))) (fun e => Some [(fst e / snd e)%float])
    (nstep_loop NumF 1 0x1.ccccccccccccdp-1%float None) cap [0x1.8p+0%float] (0x1p-2%float, 3%float).
Example newton_iterates_move_example : length (ex_run 50) = 50%nat /\ chain_moves NumF (ex_run 50) = true
  /\ all_eqb NumF (nth 40 (ex_run 50) []) (nth 42 (ex_run 50) []) = true
  /\ all_eqb NumF (nth 40 (ex_run 50) []) (nth 41 (ex_run 50) []) = false.
Proof. vm_compute. repeat split. Qed.

(* 4. the regression class refuted: with the stagnation test on the constraint-rejection path only, an unconstrained run
      whose step rounds away (x1 - t1 = x1, residual not converged) uses up ANY cap (default MaxInt) *)
Theorem newton_late_stall_test_spins_refuted : forall A (N : Num A) (E : Type) eval conv isnan direction fuel cc
    (x1 t1 : list A) (e : E),
  eval x1 = Some e -> conv e = false -> isnan e = false -> direction e = Some t1 -> vsub N x1 t1 = x1 ->
  forall cap i, exists j,
    newton_outer E eval conv isnan direction (nstep_loop_late N (S fuel) cc None) cap i x1 e = NCap x1
    /\ length (newton_iterates E eval conv isnan direction (nstep_loop_late N (S fuel) cc None) cap x1 e) = cap
    /\ j = (i + cap)%nat.
Proof. exact (@newton_late_stall_spins_l). Qed.
Example newton_late_stall_witness :
  vsub NumF [0x1.1436adb8bac71p+17%float] [0x1.5fd7fe1796495p-37%float] = [0x1.1436adb8bac71p+17%float].
Proof. vm_compute. reflexivity. Qed.

(* 4a. the line-search branch of newton_min (the only one the public RunMin reaches; line search = ORACLE): a step that
      rounds away after scaling by the alpha the line search returned is LOUD at the pass it occurs (`line search failed`),
      an error of the line search is returned at once, and consecutive iterates of every run differ — every carrier, oracle
      and cap.  (Former finding F-C20-NEWTON-MIN-LS-STALL, repaired in /repo: the test was missing on this branch.) *)
Theorem newton_ls_stall_is_loud : forall A (N : Num A) (E : Type) eval conv isnan direction search cap i
    (x1 t1 : list A) (alpha : A) (e : E),
  conv e = false -> isnan e = false -> direction e = Some t1 ->
  search x1 t1 = Some alpha ->
  all_eqb N x1 (vsub N x1 (vscale N alpha t1)) = true ->
  newton_outer E eval conv isnan direction (nstep_ls N search) (S cap) i x1 e = NLineSearchFailed x1 i.
Proof. exact (@newton_ls_stall_is_loud_l). Qed.
Theorem newton_ls_search_error_is_loud : forall A (N : Num A) (E : Type) eval conv isnan direction search cap i
    (x1 t1 : list A) (e : E),
  conv e = false -> isnan e = false -> direction e = Some t1 ->
  search x1 t1 = None ->
  newton_outer E eval conv isnan direction (nstep_ls N search) (S cap) i x1 e = NSearchErr x1.
Proof. exact (@newton_ls_search_error_is_loud_l). Qed.
Theorem newton_ls_iterates_move : forall A (N : Num A) (E : Type) eval conv isnan direction search cap
    (x1 : list A) (e : E),
  chain_moves N (newton_iterates E eval conv isnan direction (nstep_ls N search) cap x1 e) = true.
Proof. exact (@newton_ls_iterates_move_l). Qed.
(* the witness of the former finding in binary64: gradient x*x - 2e10, Hessian 2x, direction g / H, alpha = 1, from
   x0 = 1 the run reaches a binary64 neighbour of sqrt 2e10 after 22 steps: the step rounds away, the residual is not
   converged; with the test the run returns `line search failed` there, without it the same run uses up its cap *)
Definition ls_eval (x : list float) : option (float * float) :=
  match x with [a] => Some ((a * a - 20000000000)%float, (2 * a)%float) | _ => None end.
Definition ls_conv (e : float * float) := PrimFloat.ltb (PrimFloat.abs (fst e)) 0x1.5798ee2308c3ap-27%float.
Definition ls_isnan (e : float * float) := negb (PrimFloat.eqb (fst e) (fst e)).
Definition ls_dir (e : float * float) := Some [(fst e / snd e)%float].
Definition ls_search (x t : list float) : option float := Some 1%float.
Example newton_ls_stall_is_loud_witness :
  newton_run (float * float) ls_eval ls_conv ls_isnan ls_dir (nstep_ls NumF ls_search) None 1000 [1%float]
  = NLineSearchFailed [0x1.1436ad992f250p+17%float] 22
  /\ newton_run (float * float) ls_eval ls_conv ls_isnan ls_dir (nstep_ls_notest NumF ls_search) None 1000 [1%float]
     = NCap [0x1.1436ad992f250p+17%float].
Proof. vm_compute. split; reflexivity. Qed.
(* the regression class refuted (the branch as it was before the repair): without the test a stalled state uses up ANY cap *)
Theorem newton_ls_no_stall_test_spins_refuted : forall A (N : Num A) (E : Type) eval conv isnan direction search
    (x1 t1 : list A) (alpha : A) (e : E),
  eval x1 = Some e -> conv e = false -> isnan e = false -> direction e = Some t1 ->
  search x1 t1 = Some alpha -> vsub N x1 (vscale N alpha t1) = x1 ->
  forall cap i, exists j,
    newton_outer E eval conv isnan direction (nstep_ls_notest N search) cap i x1 e = NCap x1
    /\ length (newton_iterates E eval conv isnan direction (nstep_ls_notest N search) cap x1 e) = cap
    /\ j = (i + cap)%nat.
Proof. exact (@newton_ls_notest_spins_l). Qed.

(* 4b. what the stagnation test does NOT catch (the code AS WRITTEN, refuted): an unconstrained run that reaches a pair of
      points mapped to each other by the Newton step (neither converged) uses up ANY cap — every carrier and oracle *)
Theorem newton_period2_cycle_spins_refuted : forall A (N : Num A) (E : Type) eval conv isnan direction fuel cc
    (xa xb ta tb : list A) (ea eb : E),
  eval xa = Some ea -> eval xb = Some eb ->
  conv ea = false -> isnan ea = false -> direction ea = Some ta ->
  conv eb = false -> isnan eb = false -> direction eb = Some tb ->
  vsub N xa ta = xb -> vsub N xb tb = xa ->
  all_eqb N xa xb = false -> all_eqb N xb xa = false ->
  forall cap i,
    (exists x, newton_outer E eval conv isnan direction (nstep_loop N (S fuel) cc None) cap i xa ea = NCap x)
    /\ (exists x, newton_outer E eval conv isnan direction (nstep_loop N (S fuel) cc None) cap i xb eb = NCap x).
Proof. exact (@newton_period2_spins_l). Qed.
(* the witness of F-C20-NEWTON-CYCLE in binary64: f(x) = x*x - 5e10, J = 2x, direction (1/J)*y, epsilon 1e-8, reached from
   x0 = 1 after 24 steps: xa = 223606.79774997898, xb = 223606.79774997896, residual 7.6e-6 *)
Theorem newton_cycle_witness_refuted : forall cap i, exists x,
  newton_outer (float * float) cyc_eval cyc_conv (fun e => negb (PrimFloat.eqb (fst e) (fst e))) cyc_dir
    (nstep_loop NumF 1 0x1.ccccccccccccdp-1%float None) cap i c_xa c_ea = NCap x.
Proof. exact newton_cycle_witness_l. Qed.
Example newton_cycle_witness_reached : nth 50 (cyc_run 60) [] = c_xa /\ length (cyc_run 60) = 60%nat.
Proof. vm_compute. split; reflexivity. Qed.

(* 5. gaussJordan.Run shape guards (a square n x n, default submatrix): no guard fires iff x has n rows and b has n
      entries; every other shape is an error (1) or a panic (2); the DenseFloat64 fast path rejects whatever the generic
      path rejects; a `<` guard accepts over-long b and x for every n *)
Open Scope Z_scope.
Theorem gj_guard_exact : forall fast tri n xr bl, gj_guard fast tri n xr bl = 0 <-> gj_valid n xr bl.
Proof. exact gj_guard_exact_l. Qed.
Theorem gj_fast_path_as_strict_as_generic : forall tri n xr bl,
  gj_guard false tri n xr bl <> 0 -> gj_guard true tri n xr bl <> 0.
Proof. exact gj_fast_as_strict_l. Qed.
Theorem gj_rejected_is_loud : forall fast tri n xr bl, ~ gj_valid n xr bl ->
  gj_guard fast tri n xr bl = 1 \/ gj_guard fast tri n xr bl = 2.
Proof. exact gj_rejected_loud_l. Qed.
Theorem gj_weak_guard_accepts_overlong_refuted : forall tri n,
  gj_guard_weak n n (n + 1) = 0 /\ gj_guard_weak n (n + 1) n = 0
  /\ gj_guard false tri n n (n + 1) <> 0 /\ gj_guard false tri n (n + 1) n <> 0.
Proof. exact gj_weak_overlong_l. Qed.
Example gj_guard_examples : gj_guard true false 3 3 3 = 0 /\ gj_guard true true 3 3 4 = 1 /\ gj_guard false true 3 4 3 = 2
  /\ gj_guard false false 0 0 1 = 1.
Proof. vm_compute. repeat split. Qed.
