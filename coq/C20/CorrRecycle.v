(* C20 round 6 — correspondence of the recycled-workspace model: per call of a sequence on one workspace,
   (workspace shapes before, options, input shape) -> (outcome kind, shapes of the returned objects,
   workspace shapes afterwards, "values equal those of a call on a fresh workspace"). *)
From Coq Require Import ZArith List Bool.
From ADV Require Import Base.Corr C20.Model C20.ModelRecycle.
Import ListNotations.
Open Scope Z_scope.

Definition chol_eqb (a b : chol_st) := shp_eqb (cL a) (cL b) && shp_eqb (cD a) (cD b).
Definition hess_eqb (a b : hess_st) :=
  shp_eqb (hH a) (hH b) && shp_eqb (hU a) (hU b) && shp_eqb (hX a) (hX b) && shp_eqb (hNu a) (hNu b) && shp_eqb (hT4 a) (hT4 b).
Definition tri_eqb (a b : tri_st) :=
  shp_eqb (tA a) (tA b) && shp_eqb (tU a) (tU b) && shp_eqb (tX a) (tX b) && shp_eqb (tNu a) (tNu b) && shp_eqb (tT4 a) (tT4 b).
Definition bid_eqb (a b : bid_st) :=
  shp_eqb (bA a) (bA b) && shp_eqb (bU a) (bU b) && shp_eqb (bV a) (bV b) && shp_eqb (bX a) (bX b)
  && shp_eqb (bNu a) (bNu b) && shp_eqb (bT4 a) (bT4 b).
Definition qr_eqb (a b : qr_st) :=
  Bool.eqb (qIH a) (qIH b) && Bool.eqb (qIU a) (qIU b) && shp_eqb (qH a) (qH b) && shp_eqb (qU a) (qU b)
  && shp_eqb (qX a) (qX b) && shp_eqb (qNu a) (qNu b) && shp_eqb (qT4 a) (qT4 b)
  && hess_eqb (qHess a) (qHess b) && tri_eqb (qHouse a) (qHouse b).
Definition state_eqb (a b : state) : bool :=
  match a, b with
  | StChol x, StChol y | StDet x, StDet y => chol_eqb x y
  | StHess x, StHess y => hess_eqb x y
  | StTri x, StTri y => tri_eqb x y
  | StBid x, StBid y => bid_eqb x y
  | StQr x, StQr y => qr_eqb x y
  | StEig x, StEig y => qr_eqb (eQr x) (eQr y) && shp_eqb (eVals x) (eVals y) && shp_eqb (eVecs x) (eVecs y)
                        && Bool.eqb (eAlias x) (eAlias y)
  | StSvd x, StSvd y => bid_eqb (sBid x) (sBid y) && shp_eqb (sA x) (sA y) && shp_eqb (sU x) (sU y) && shp_eqb (sV x) (sV y)
  | StInv x, StInv y => shp_eqb (iId x) (iId y) && shp_eqb (iA x) (iA y) && shp_eqb (iB x) (iB y) && chol_eqb (iChol x) (iChol y)
  | StBs x, StBs y => shp_eqb (bsA x) (bsA y) && shp_eqb (bsX x) (bsX y)
  | StGs x, StGs y => shp_eqb (gQ x) (gQ y) && shp_eqb (gR x) (gR y)
  | _, _ => false
  end.

Inductive rcall0 := RC (st : state) (opt n m : Z).
(* observed: kind (0 ok, 1 panic, 2 runtime panic, 3 error, 4 deadline), output shapes, workspace after, same-as-fresh *)
Definition robs := (Z * list shp * state * bool)%type.
Definition rcase := (rcall0 * robs)%type.

Definition rcheck (c : rcase) : bool :=
  let '(RC st opt n m, (k, outs, post, same)) := c in
  let r := run_rc st opt n m in
  if k =? 4 then true
  else match rk r with
       | None => true                       (* not decided by the shape model: the oracle alone judges *)
       | Some kd =>
           (kcode kd =? k) && state_eqb (rpost r) post &&
           match kd with
           | KOk => list_eqb shp_eqb (rout r) outs && implb (rcur r) same
           | _ => true
           end
       end.
Definition rmism (cs : list rcase) : list nat := mismatches rcheck cs.
(* how many cases the model does not decide *)
Definition rundecided (cs : list rcase) : nat :=
  length (filter (fun c : rcase => let '(RC st opt n m, _) := c in
                                   match rk (run_rc st opt n m) with None => true | _ => false end) cs).
