(* C20 correspondence: the model's prediction (outcome kind, receiver written, result shape)
   against what the Go implementation did on the same call. *)
From Coq Require Import ZArith List Bool Floats.
From ADV Require Import Base.Corr Base.Num C20.Model.
Import ListNotations.
Open Scope Z_scope.

Definition obs := (Z * bool * list Z)%type.
Definition case := (call * obs)%type.
Definition predict (c : call) : obs := let '(k, d, o) := run c in (kcode k, d, o).
Definition obs_eqb (a b : obs) : bool :=
  let '(k1, d1, o1) := a in let '(k2, d2, o2) := b in
  (k1 =? k2) && Bool.eqb d1 d2 && list_eqb Z.eqb o1 o2.
Definition check (c : case) : bool := obs_eqb (predict (fst c)) (snd c).
Definition mism (cs : list case) : list nat := mismatches check cs.

(* ---- termination stream: observed iteration / evaluation counts against the proved caps *)
Inductive tcase := TC (rid cap iters evals : Z) (exact : bool).
(* a body that never leaves the loop early runs exactly `cap` times *)
Definition never_exit_iters (cap : Z) : option nat :=
  iters_of (capped (fun s : unit => @inl unit unit s) (Z.to_nat cap) 0 tt).
Definition tcheck (t : tcase) : bool :=
  match t with
  | TC rid cap iters evals exact =>
      (if rid =? 5 then evals <=? cap + 2                       (* lineSearch: linesearch_evals_bound *)
       else iters <=? cap + (if rid =? 2 then 1 else 0))        (* bfgs calls its hook once before the loop *)
      && (if exact then match never_exit_iters cap with Some n => Z.of_nat n =? iters | None => false end else true)
  end.
Definition tmism (cs : list tcase) : list nat := mismatches tcheck cs.

(* ---- QR: bit-exact replay of qrAlgorithm.QRstep on a 2x2 block and of whole 2x2 runs *)
Inductive qcase :=
| QStep (h : blk (A := float)) (trace : list (blk (A := float)))
| QRun (h : blk (A := float)) (eps : float) (hung : bool) (final : blk (A := float)).
Definition blk_eqb (a b : blk (A := float)) : bool :=
  feqb (b11 a) (b11 b) && feqb (b12 a) (b12 b) && feqb (b21 a) (b21 b) && feqb (b22 a) (b22 b).
Fixpoint steps_match (h : blk (A := float)) (tr : list (blk (A := float))) : bool :=
  match tr with
  | [] => true
  | x :: r => let h' := qrstep2 NumF h in blk_eqb h' x && steps_match h' r
  end.
Definition qcheck (q : qcase) : bool :=
  match q with
  | QStep h tr => steps_match h tr
  | QRun h eps hung final =>
      match qr_run2 NumF eps 20000 h with
      | Done r _ => negb hung && blk_eqb r final
      | OutOfFuel _ => hung
      | CapHit _ _ => false
      end
  end.
Definition qmism (cs : list qcase) : list nat := mismatches qcheck cs.
