(* C20 correspondence: the model's prediction (outcome kind, receiver written, result shape)
   against what the Go implementation did on the same call. *)
From Coq Require Import ZArith List Bool.
From ADV Require Import Base.Corr C20.Model.
Import ListNotations.
Open Scope Z_scope.

Definition obs := (Z * bool * list Z)%type.
Definition case := (call * obs)%type.
Definition predict (c : call) : obs := let '(k, d, o) := run c in (kcode k, d, o).
Definition obs_eqb (a b : obs) : bool :=
  let '(k1, d1, o1) := a in let '(k2, d2, o2) := b in
  (k1 =? k2) && Bool.eqb d1 d2 && list_eqb Z.eqb o1 o2.
Definition check (c : case) : bool := obs_eqb (predict (fst c)) (snd c).
Definition mism (cs : list case) : list nat := mismatches check cs.
