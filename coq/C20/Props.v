(* C20 — every routine terminates and fails loudly on invalid use: the theorems.
   Statements only; proofs are in ProofsGuard / ProofsLoud / ProofsOk / ProofsTerm / ProofsRefuted. *)
From Coq Require Import ZArith List Bool QArith Lia.
From ADV Require Import Base.Num C20.Model C20.Spec C20.ProofsGuard C20.ProofsLoud C20.ProofsOk
                        C20.ProofsTerm C20.ProofsRefuted C20.ModelSvd C20.ProofsSvd C20.ProofsView.
Import ListNotations.
Open Scope Z_scope.

(* ================================================================== (i) loud failure *)

(* 1. For ALL shapes and indices: a guarded call with well-formed operands whose precondition is
      false ends in a panic or an error, and nothing was written to the receiver before. *)
Theorem loud_failure : forall c,
  wf_call c -> guarded c = true -> valid c = false -> kind_of c <> KOk /\ written c = false.
Proof. exact loud_failure_all. Qed.

(* 2. For ALL shapes and indices: a valid call succeeds, the result has the expected shape, and —
      every storage access being checked against the length of the storage in the model — no access
      leaves [0, len).  [total] excludes exactly the 0-sized MdotM (refuted below). *)
Theorem valid_use_succeeds_partial : forall c,
  wf_call c -> ok_covered c = true -> total c = true -> valid c = true ->
  kind_of c = KOk /\ shape_of c = expected_shape c.
Proof. exact valid_ok_all. Qed.
(* partial: Permute*, NewSparse* (ok_covered = false) are not proved in Coq, only replayed. *)

(* 3. index() of a well-formed header is inside the storage, and views stay well-formed exactly
      under the bounds that Slice does NOT check. *)
Theorem index_in_bounds : forall m i j,
  mwf m -> 0 <= i < rows m -> 0 <= j < cols m -> 0 <= mindex m i j < mlen m.
Proof. exact mindex_in_bounds. Qed.
Theorem views_stay_well_formed :
  (forall k r c, 0 <= r -> 0 <= c -> mwf (mnew k (r * c) r c)) /\
  (forall m a b c d, mwf m -> 0 <= a <= b -> b <= rows m -> 0 <= c <= d -> d <= cols m -> mwf (mslice m a b c d)) /\
  (forall m, mwf m -> mwf (mT m)).
Proof. exact (conj mnew_wf (conj mslice_wf mT_wf)). Qed.

(* the hypotheses are satisfiable by non-trivial instances *)
Example loud_failure_instance :
  let c := VMdotV (mkvec Dense 3 3) (mT (mslice (mnew Dense 12 3 4) 0 3 1 4)) (mkvec Dense 2 2) false in
  guarded c = true /\ valid c = false /\ kind_of c = KPanic /\ written c = false.
Proof. vm_compute. repeat split. Qed.
Example valid_use_instance :
  let c := MdotM (mnew Dense 4 2 2) (mslice (mnew Dense 12 3 4) 1 3 0 3) (mT (mnew Dense 6 2 3)) false in
  ok_covered c = true /\ total c = true /\ valid c = true /\ kind_of c = KOk /\ written c = true.
Proof. vm_compute. repeat split. Qed.

(* 4. Operations whose guard is missing, incomplete or placed after a write (known-finding
      candidates; each witness is replayed on the implementation by the harness). *)
Theorem mslice_unchecked_refuted : silent (MSlice m33 0 5 0 5) /\ shape_of (MSlice m33 0 5 0 5) = [5; 5]
  /\ silent (MSlice m33 2 1 0 2) /\ shape_of (MSlice m33 2 1 0 2) = [-1; 2] /\ silent (MSlice (mnew Sparse 0 3 3) 0 5 0 5).
Proof. exact mslice_unchecked. Qed.
Theorem mslice_reads_outside_view_refuted :
  let v := mslice m33 0 2 0 2 in let w := mslice v 0 2 0 3 in
  mwf v /\ cols v = 2 /\ macc w 0 2 = KOk /\ mindex w 0 2 = 2.
Proof. exact mslice_reads_outside_view. Qed.
Theorem vslice_dense_cap_refuted : silent (VSlice (mkvec Dense 2 3) 0 3) /\ shape_of (VSlice (mkvec Dense 2 3) 0 3) = [3].
Proof. exact vslice_dense_cap. Qed.
Theorem vslice_sparse_unchecked_refuted : silent (VSlice (mkvec Sparse 4 4) 0 10) /\ silent (VSlice (mkvec Sparse 4 4) 3 1).
Proof. exact vslice_sparse_unchecked. Qed.
Theorem mnewdense_unchecked_refuted : silent (MNewDense Dense 3 2 2).
Proof. exact mnewdense_unchecked. Qed.
Theorem vpermute_writes_before_check_refuted :
  corrupts (VPermute (mkvec Dense 2 2) [1; 5]) /\ corrupts (VPermute (mkvec Sparse 2 2) [1; -1]).
Proof. exact vpermute_writes_before_check. Qed.
Theorem mpermrows_writes_before_check_refuted :
  corrupts (MPermRows (mnew Dense 4 2 2) [1; 5]) /\ corrupts (MPermRows (mnew Dense 4 2 2) [1; 2])
  /\ corrupts (MPermRows (mnew Dense 4 2 2) [1]) /\ silent (MPermRows (mnew Dense 4 2 2) [0; 1; 7])
  /\ corrupts (MPermCols (mnew Sparse 0 2 2) [1; 5]) /\ corrupts (MSymPerm (mnew Dense 4 2 2) [1; 5]).
Proof. exact mpermrows_writes_before_check. Qed.
Theorem vswap_sparse_unchecked_refuted :
  silent (VSwap (mkvec Sparse 4 4) 1 99) /\ written (VSwap (mkvec Sparse 4 4) 1 99) = true.
Proof. exact vswap_sparse_unchecked. Qed.
Theorem vnewsparse_negative_refuted : silent (VNewSparse [-1] 1 4).
Proof. exact vnewsparse_negative. Qed.
Theorem mdotm_empty_refuted :
  rejects (MdotM (mnew Dense 0 0 0) (mnew Dense 0 0 0) (mnew Dense 0 0 0) false)
  /\ rejects (MdotM (mnew Dense 0 2 0) (mnew Dense 4 2 2) (mnew Dense 0 2 0) false)
  /\ rejects (MdotM (mnew Sparse 0 0 0) (mnew Sparse 0 0 0) (mnew Sparse 0 0 0) false).
Proof. exact mdotm_empty. Qed.
Theorem dyadic_alias_silent_refuted : silent (SDyadic 1 2 1 2 1 3 1).
Proof. exact dyadic_alias_silent. Qed.
Theorem dyadic_writes_before_check_refuted : corrupts (SDyadic 0 0 0 2 1 3 1).
Proof. exact dyadic_writes_before_check. Qed.
Theorem setvariable_negative_order_refuted : silent (SSetVar 0 0 0 2 (-1)).
Proof. exact setvariable_negative_order. Qed.
Theorem setvariable_writes_before_check_refuted : corrupts (SSetVar 2 1 5 3 1).
Proof. exact setvariable_writes_before_check. Qed.
Theorem vasmatrix_negative_refuted :
  silent (VAsMatrix (mkvec Dense 0 0) (-1) 0) /\ shape_of (VAsMatrix (mkvec Dense 0 0) (-1) 0) = [-1; 0].
Proof. exact vasmatrix_negative. Qed.
Theorem mrow_empty_extent_refuted : silent (MRow (mnew Dense 0 2 0) 7) /\ silent (MCol (mnew Dense 0 0 2) (-1))
  /\ silent (MSwapRows (mnew Dense 0 0 0) (-1) 7) /\ silent (MSwapCols (mnew Sparse 0 0 0) 3 3).
Proof. exact mrow_empty_extent. Qed.
Theorem entry_unknown_option_refuted :
  silent (AEntry 0 2 2 1) /\ silent (AEntry 2 2 2 1) /\ silent (AEntry 3 2 2 2) /\ silent (AEntry 9 2 2 1).
Proof. exact entry_unknown_option. Qed.
Theorem determinant_nonsquare_refuted : silent (AEntry 6 2 3 0) /\ silent (AEntry 6 0 2 0).
Proof. exact determinant_nonsquare. Qed.

(* ================================================================== (ii) termination *)

(* 5. Every loop with a coded cap (MaxIterations, maxEval, steps, max_terms, SeriesIterationsMax)
      returns within the cap, for EVERY body / oracle / objective. *)
Theorem capped_loop_within_cap : forall (St Res : Type) (step : St -> St + Res) cap s,
  (exists n, iters_of (capped step cap 0 s) = Some n) /\
  (forall n, iters_of (capped step cap 0 s) = Some n -> (n <= cap)%nat).
Proof. intros. split; [apply capped_terminates | intro n; apply capped_iters_le_cap]. Qed.
(* a body that never leaves the loop early runs exactly cap times (used by the tie: Adam / Rprop on a
   linear objective, Blahut, SumSeries on constant terms) *)
Theorem capped_loop_without_exit_runs_cap : forall (St Res : Type) (step : St -> St + Res),
  (forall s, exists s', step s = inl s') ->
  forall cap s, exists s', capped step cap 0 s = CapHit s' cap.
Proof. intros St Res step H cap s. destruct (capped_no_exit St Res step H cap 0%nat s) as [s' E]. exists s'. exact E. Qed.
(* lineSearch + zoom: at most MaxEval + 2 evaluations of the objective, whatever it returns
   (constraint loop excluded: see ls_constraints_nonterminating_refuted) *)
Theorem linesearch_budget : forall oracle_ls oracle_zm alpha_zero maxEval,
  (linesearch_evals oracle_ls oracle_zm alpha_zero maxEval <= maxEval + 2)%nat.
Proof. exact linesearch_evals_bound. Qed.

(* 6. Uncapped loops: exact inputs on which the exact (Q) iteration is periodic or stuck, so the
      loop never exits for any fuel. *)
Theorem qr_block_loop_nonterminating_refuted :
  never_exits (qr_block_step NumQ eps18) (Qblk 0 1 1 0).
Proof. exact qr_block_loop_nonterminating. Qed.
Theorem qr_block_loop_spd_nonterminating_refuted :
  never_exits (qr_block_step NumQ eps18) (Qblk 2 1 1 2) /\
  (forall fuel, exists s, qr_run2 NumQ eps18 fuel (Qblk 2 1 1 2) = OutOfFuel s).
Proof. exact (conj qr_block_loop_spd_nonterminating qr_run2_spd_out_of_fuel). Qed.
Theorem msqrt_nonterminating_refuted :
  exists s0, msqrt_init NumQ (-3 # 1) = Some s0 /\ never_exits (msqrt_step NumQ tol8) s0.
Proof. exact msqrt_nonterminating. Qed.
Theorem msqrtinv_nonterminating_refuted :
  exists s0, msqrtinv_init NumQ (-3 # 1) = Some s0 /\ never_exits (msqrtinv_step NumQ (-3 # 1) tol8) s0.
Proof. exact msqrtinv_nonterminating. Qed.
Theorem gd_nonterminating_refuted : never_exits (gd_step NumQ 1%Q tol8) 1%Q.
Proof. exact gd_nonterminating. Qed.
Theorem tip_view_nonterminating_refuted : never_exits (tip_step 2 9 1) 1.
Proof. exact tip_view_nonterminating. Qed.
Theorem ls_constraints_nonterminating_refuted : forall alpha : Q,
  never_exits (lsc_step NumQ (fun _ => false)) alpha.
Proof. exact ls_constraints_nonterminating. Qed.
Theorem retry_nonterminating_refuted : forall St (shrink : St -> St) s,
  never_exits (retry_step (fun _ => false) shrink) s.
Proof. exact retry_nonterminating. Qed.
(* the refutations are about real non-termination, not about a skeleton that can never exit *)
Example retry_exits_when_accepted_instance :
  uncapped (retry_step (fun s : nat => Nat.eqb s 3) S) 10%nat 0%nat 0%nat = Done 3%nat 4%nat.
Proof. reflexivity. Qed.

(* ================================================================== round 2 *)

(* 7. index() accepts an index pair EXACTLY when it lies inside the view (for every well-formed
      view: any nesting of Slice and T of any parent); an accepted pair addresses the view's own
      window of the parent storage; At / Swap / SwapRows / SwapColumns with an index outside the
      view — inside the parent's storage or not — fail loudly and nothing is written, so the
      parent is unchanged.  The tie executes the out-of-view stream for each of the nine
      element-type instantiations of /repo separately. *)
Theorem index_guard_exact : forall m i j, mwf m ->
  (macc m i j = KOk <-> in_view m i j) /\ (~ in_view m i j -> macc m i j = KPanic) /\
  (macc m i j = KOk -> roff m <= roff m + i < roff m + rows m /\ coff m <= coff m + j < coff m + cols m).
Proof.
  intros m i j W. split; [exact (macc_exact m i j W)|]. split; [exact (macc_outside m i j)|].
  exact (accepted_index_inside_window m i j W).
Qed.
Theorem out_of_view_access_is_loud : forall m i j, mwf m -> ~ in_view m i j ->
  (kind_of (MAt m i j) = KPanic /\ written (MAt m i j) = false) /\
  (forall i2 j2, kind_of (MSwap m i j i2 j2) <> KOk /\ written (MSwap m i j i2 j2) = false) /\
  (forall i1 j1, kind_of (MSwap m i1 j1 i j) <> KOk /\ written (MSwap m i1 j1 i j) = false).
Proof.
  intros m i j W N. split; [exact (at_outside_view_loud m i j W N)|]. split.
  - intros i2 j2. apply swap_outside_view_loud; [exact W|left; exact N].
  - intros i1 j1. apply swap_outside_view_loud; [exact W|right; exact N].
Qed.
Theorem out_of_view_row_swap_is_loud : forall m i j, mwf m -> rows m = cols m -> 0 < rows m ->
  ~ (0 <= i < rows m /\ 0 <= j < rows m) ->
  kind_of (MSwapRows m i j) <> KOk /\ written (MSwapRows m i j) = false /\
  kind_of (MSwapCols m i j) <> KOk /\ written (MSwapCols m i j) = false.
Proof. exact swaprows_outside_view_loud. Qed.
(* non-trivial instance: a proper 2x3 view of a 4x5 parent; (0,3) is outside the view but addresses
   the parent element (1,4) — index() refuses it *)
Example out_of_view_instance :
  let v := mslice (mnew Dense 20 4 5) 1 3 1 4 in
  mwf v /\ ~ in_view v 0 3 /\ inb (mindex v 0 3) (mlen v) = true /\ macc v 0 3 = KPanic /\
  kind_of (MSwap v 0 3 0 0) = KPanic /\ written (MSwap v 0 3 0 0) = false.
Proof.
  cbv zeta. split; [unfold mwf; cbn; lia|]. split; [unfold in_view; cbn; lia|]. vm_compute. repeat split.
Qed.

(* 8. svd.golubKahanSVD, one pass of the coded outer loop (ModelSvd.svd_pass: threshold, splitMatrix,
      the zero-diagonal scan `for k := p; k < n-q-1; k++`, Golub-Kahan step iff nothing was found),
      for EVERY matrix state and every numerical body: an exactly-zero diagonal entry at ANY
      position of the active block but its last one cannot be skipped — the pass calls zeroRow,
      first on the least such position and in the unmodified state, and takes no Golub-Kahan step. *)
Theorem svd_zero_diagonal_not_skipped :
  forall (St : Type) diag_zero zero_row gk_step threshold split n (s : St) q0 p q k0,
  split (threshold s) q0 = (p, q) -> q < n - 1 ->
  p <= k0 < n - q - 1 -> diag_zero (threshold s) k0 = true ->
  exists k1 s' rest, p <= k1 <= k0 /\ diag_zero (threshold s) k1 = true /\
    svd_pass St diag_zero zero_row gk_step threshold split n (s, q0) = (s', q, EvZeroRow k1 :: rest) /\
    (forall a b, ~ In (EvGKStep a b) (EvZeroRow k1 :: rest)).
Proof. exact pass_zero_not_last. Qed.
Theorem svd_scan_calls_zero_row_on_first_zero :
  forall (St : Type) (diag_zero : St -> Z -> bool) zero_row p hi s k0,
  p <= k0 < hi -> diag_zero s k0 = true -> (forall j, p <= j < k0 -> diag_zero s j = false) ->
  exists s' later,
    svd_scan_block St diag_zero zero_row p hi s = (s', false, later ++ [k0]) /\
    svd_scan St diag_zero zero_row (Z.to_nat (hi - k0 - 1)) (k0 + 1) (zero_row s k0) false [k0]
      = (s', false, later ++ [k0]).
Proof. exact scan_first_zero. Qed.
(* the LAST position of the active block is deliberately outside the scan: if the only exact zero sits
   there, the pass takes the Golub-Kahan step on that block (mechanism of F-SVD-ZERODIAG-HANG; whether
   the iteration then converges is a floating-point question this technique does not decide) *)
Theorem svd_zero_last_diagonal_unhandled_refuted :
  forall (St : Type) diag_zero zero_row gk_step threshold split n (s : St) q0 p q,
  split (threshold s) q0 = (p, q) -> q < n - 1 ->
  (forall j, p <= j < n - q - 1 -> diag_zero (threshold s) j = false) ->
  svd_pass St diag_zero zero_row gk_step threshold split n (s, q0)
    = (gk_step (threshold s) p q, q, [EvGKStep p q]).
Proof. exact pass_zero_last_only. Qed.
(* the bound is tight: one less (k < n-q-2) and an exact zero at the second-to-last position is skipped *)
Theorem svd_scan_bound_is_tight :
  forall (St : Type) diag_zero zero_row gk_step threshold split n (s : St) q0 p q,
  split (threshold s) q0 = (p, q) -> q < n - 1 ->
  (forall j, p <= j < n - q - 2 -> diag_zero (threshold s) j = false) ->
  svd_pass_with St diag_zero zero_row gk_step threshold split (fun n q => n - q - 2) n (s, q0)
    = (gk_step (threshold s) p q, q, [EvGKStep p q]).
Proof. exact pass_short_bound_skips. Qed.
Example svd_pass_instances :
  svd_pass (list bool) flags_zero flags_zero_row (fun s _ _ => s) (fun s => s) (fun _ q => (0, q)) 4
           ([false; false; true; false], 0) = ([false; false; false; false], 0, [EvZeroRow 2]) /\
  svd_pass (list bool) flags_zero flags_zero_row (fun s _ _ => s) (fun s => s) (fun _ q => (0, q)) 4
           ([false; false; false; true], 0) = ([false; false; false; true], 0, [EvGKStep 0 0]).
Proof. split; reflexivity. Qed.
