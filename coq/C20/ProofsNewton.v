(* C20 round 7 — lemmas about ModelNewton (step loop with stagnation test, outer loop, gaussJordan guards). *)
From Coq Require Import ZArith List Bool Lia Floats.
From ADV Require Import Base.Num C20.Model C20.ModelRetry C20.ModelNewton.
Import ListNotations.

Section P.
  Context {A : Type} (N : Num A).

  Lemma nstep_unconstrained_one_pass_l : forall fuel cc (x1 t1 : list A),
    nstep_loop N (S fuel) cc None x1 t1 =
    if all_eqb N x1 (vsub N x1 t1) then LStall else LAccept (vsub N x1 t1).
  Proof.
    intros fuel cc x1 t1. simpl. unfold nstep_pass.
    destruct (all_eqb N x1 (vsub N x1 t1)); reflexivity.
  Qed.

  Lemma nstep_accept_moved : forall fuel cc constraints (x1 t1 x2 : list A),
    nstep_loop N fuel cc constraints x1 t1 = LAccept x2 -> all_eqb N x1 x2 = false.
  Proof.
    induction fuel as [|f IH]; intros cc constraints x1 t1 x2 H; simpl in H.
    - discriminate.
    - unfold nstep_pass in H.
      destruct (all_eqb N x1 (vsub N x1 t1)) eqn:He.
      + discriminate.
      + destruct constraints as [c|].
        * destruct (c (vsub N x1 t1)) eqn:Hc.
          -- inversion H; subst; exact He.
          -- eapply IH; exact H.
        * inversion H; subst; exact He.
  Qed.

  Lemma nstep_stall_first : forall fuel cc constraints (x1 t1 : list A),
    all_eqb N x1 (vsub N x1 t1) = true -> nstep_loop N (S fuel) cc constraints x1 t1 = LStall.
  Proof.
    intros fuel cc constraints x1 t1 H. simpl. unfold nstep_pass. rewrite H. reflexivity.
  Qed.

  Section O.
    Variable E : Type.
    Variable eval : list A -> option E.
    Variables conv isnan : E -> bool.
    Variable direction : E -> option (list A).

    Lemma newton_stall_is_loud_l : forall fuel cc constraints cap i (x1 t1 : list A) (e : E),
      conv e = false -> isnan e = false -> direction e = Some t1 ->
      all_eqb N x1 (vsub N x1 t1) = true ->
      newton_outer E eval conv isnan direction (nstep_loop N (S fuel) cc constraints) (S cap) i x1 e
      = NLineSearchFailed x1 i.
    Proof.
      intros fuel cc constraints cap i x1 t1 e Hc Hn Hd Hs.
      cbn [newton_outer]. rewrite Hc, Hn, Hd. rewrite (nstep_stall_first fuel cc constraints x1 t1 Hs). reflexivity.
    Qed.

    Fixpoint chain_moves (l : list (list A)) : bool :=
      match l with
      | a :: t => match t with b :: _ => negb (all_eqb N a b) && chain_moves t | [] => true end
      | [] => true
      end.

    Lemma newton_iterates_move_l : forall fuel cc constraints cap (x1 : list A) (e : E),
      chain_moves (newton_iterates E eval conv isnan direction (nstep_loop N fuel cc constraints) cap x1 e) = true.
    Proof.
      intros fuel cc constraints. induction cap as [|cap IH]; intros x1 e.
      - reflexivity.
      - cbn [newton_iterates].
        destruct (conv e || isnan e); [reflexivity|].
        destruct (direction e) as [t1|]; [|reflexivity].
        destruct (nstep_loop N fuel cc constraints x1 t1) as [|x2| |] eqn:Hl; try reflexivity.
        destruct (eval x2) as [e2|]; [|reflexivity].
        specialize (IH x2 e2).
        destruct cap as [|cap']; [reflexivity|].
        cbn [newton_iterates] in *. cbn [chain_moves].
        rewrite (nstep_accept_moved _ _ _ _ _ _ Hl). simpl negb. rewrite andb_true_l. exact IH.
    Qed.

    (* the variant with the stagnation test on the rejection path only: an unconstrained stalled run spins to the cap *)
    Lemma newton_late_stall_spins_l : forall fuel cc (x1 t1 : list A) (e : E),
      eval x1 = Some e -> conv e = false -> isnan e = false -> direction e = Some t1 ->
      vsub N x1 t1 = x1 ->
      forall cap i, exists j,
      newton_outer E eval conv isnan direction (nstep_loop_late N (S fuel) cc None) cap i x1 e = NCap x1
      /\ length (newton_iterates E eval conv isnan direction (nstep_loop_late N (S fuel) cc None) cap x1 e) = cap
      /\ j = (i + cap)%nat.
    Proof.
      intros fuel cc x1 t1 e He Hc Hn Hd Hs.
      assert (HL : nstep_loop_late N (S fuel) cc None x1 t1 = LAccept x1).
      { cbn [nstep_loop_late]. unfold nstep_pass_late. rewrite Hs. reflexivity. }
      remember (nstep_loop_late N (S fuel) cc None) as L eqn:EL. clear EL.
      induction cap as [|cap IH]; intro i.
      - exists i. cbn. repeat split; lia.
      - destruct (IH (S i)) as (j & H1 & H2 & H3). exists j.
        cbn [newton_outer newton_iterates]. rewrite Hc, Hn, Hd, HL, He. cbn [orb].
        repeat split; [exact H1 | cbn [length]; rewrite H2; reflexivity | lia].
    Qed.

    (* ---- the line-search branch of newton_min (nstep_ls): one pass, stagnation test right after the step *)
    Lemma nstep_ls_accept_moved : forall search (x1 t1 x2 : list A),
      nstep_ls N search x1 t1 = LAccept x2 -> all_eqb N x1 x2 = false.
    Proof.
      intros search x1 t1 x2 H. unfold nstep_ls in H.
      destruct (search x1 t1) as [alpha|]; [|discriminate].
      destruct (all_eqb N x1 (vsub N x1 (vscale N alpha t1))) eqn:He; [discriminate|].
      inversion H; subst; exact He.
    Qed.

    Lemma newton_ls_stall_is_loud_l : forall search cap i (x1 t1 : list A) (alpha : A) (e : E),
      conv e = false -> isnan e = false -> direction e = Some t1 ->
      search x1 t1 = Some alpha ->
      all_eqb N x1 (vsub N x1 (vscale N alpha t1)) = true ->
      newton_outer E eval conv isnan direction (nstep_ls N search) (S cap) i x1 e = NLineSearchFailed x1 i.
    Proof.
      intros search cap i x1 t1 alpha e Hc Hn Hd Hs He.
      cbn [newton_outer]. rewrite Hc, Hn, Hd. unfold nstep_ls. rewrite Hs, He. reflexivity.
    Qed.

    Lemma newton_ls_search_error_is_loud_l : forall search cap i (x1 t1 : list A) (e : E),
      conv e = false -> isnan e = false -> direction e = Some t1 ->
      search x1 t1 = None ->
      newton_outer E eval conv isnan direction (nstep_ls N search) (S cap) i x1 e = NSearchErr x1.
    Proof.
      intros search cap i x1 t1 e Hc Hn Hd Hs.
      cbn [newton_outer]. rewrite Hc, Hn, Hd. unfold nstep_ls. rewrite Hs. reflexivity.
    Qed.

    Lemma newton_ls_iterates_move_l : forall search cap (x1 : list A) (e : E),
      chain_moves (newton_iterates E eval conv isnan direction (nstep_ls N search) cap x1 e) = true.
    Proof.
      intros search. induction cap as [|cap IH]; intros x1 e.
      - reflexivity.
      - cbn [newton_iterates].
        destruct (conv e || isnan e); [reflexivity|].
        destruct (direction e) as [t1|]; [|reflexivity].
        destruct (nstep_ls N search x1 t1) as [|x2| |] eqn:Hl; try reflexivity.
        destruct (eval x2) as [e2|]; [|reflexivity].
        specialize (IH x2 e2).
        destruct cap as [|cap']; [reflexivity|].
        cbn [newton_iterates] in *. cbn [chain_moves].
        rewrite (nstep_ls_accept_moved _ _ _ _ Hl). simpl negb. rewrite andb_true_l. exact IH.
    Qed.

    (* the branch WITHOUT the test (the code before the repair): a stalled state uses up any cap *)
    Lemma newton_ls_notest_spins_l : forall search (x1 t1 : list A) (alpha : A) (e : E),
      eval x1 = Some e -> conv e = false -> isnan e = false -> direction e = Some t1 ->
      search x1 t1 = Some alpha -> vsub N x1 (vscale N alpha t1) = x1 ->
      forall cap i, exists j,
      newton_outer E eval conv isnan direction (nstep_ls_notest N search) cap i x1 e = NCap x1
      /\ length (newton_iterates E eval conv isnan direction (nstep_ls_notest N search) cap x1 e) = cap
      /\ j = (i + cap)%nat.
    Proof.
      intros search x1 t1 alpha e He Hc Hn Hd Hs Hx.
      assert (HL : nstep_ls_notest N search x1 t1 = LAccept x1).
      { unfold nstep_ls_notest. rewrite Hs, Hx. reflexivity. }
      remember (nstep_ls_notest N search) as L eqn:EL. clear EL.
      induction cap as [|cap IH]; intro i.
      - exists i. cbn. repeat split; lia.
      - destruct (IH (S i)) as (j & H1 & H2 & H3). exists j.
        cbn [newton_outer newton_iterates]. rewrite Hc, Hn, Hd, HL, He. cbn [orb].
        repeat split; [exact H1 | cbn [length]; rewrite H2; reflexivity | lia].
    Qed.
  End O.
End P.

(* ---- period-2 cycles: the stagnation test compares consecutive iterates only (F-C20-NEWTON-CYCLE) *)
Section C.
  Context {A : Type} (N : Num A).
  Variable E : Type.
  Variable eval : list A -> option E.
  Variables conv isnan : E -> bool.
  Variable direction : E -> option (list A).
  Lemma newton_period2_spins_l : forall fuel cc (xa xb ta tb : list A) (ea eb : E),
    eval xa = Some ea -> eval xb = Some eb ->
    conv ea = false -> isnan ea = false -> direction ea = Some ta ->
    conv eb = false -> isnan eb = false -> direction eb = Some tb ->
    vsub N xa ta = xb -> vsub N xb tb = xa ->
    all_eqb N xa xb = false -> all_eqb N xb xa = false ->
    forall cap i,
      (exists x, newton_outer E eval conv isnan direction (nstep_loop N (S fuel) cc None) cap i xa ea = NCap x)
      /\ (exists x, newton_outer E eval conv isnan direction (nstep_loop N (S fuel) cc None) cap i xb eb = NCap x).
  Proof.
    intros fuel cc xa xb ta tb ea eb Ha Hb Hca Hna Hda Hcb Hnb Hdb Hab Hba Nab Nba.
    assert (La : nstep_loop N (S fuel) cc None xa ta = LAccept xb).
    { rewrite nstep_unconstrained_one_pass_l, Hab, Nab. reflexivity. }
    assert (Lb : nstep_loop N (S fuel) cc None xb tb = LAccept xa).
    { rewrite nstep_unconstrained_one_pass_l, Hba, Nba. reflexivity. }
    remember (nstep_loop N (S fuel) cc None) as L eqn:EL. clear EL.
    induction cap as [|cap IH]; intro i.
    - split; eexists; reflexivity.
    - destruct (IH (S i)) as [[x1 H1] [x2 H2]].
      split; cbn [newton_outer].
      + rewrite Hca, Hna, Hda, La, Hb. exists x2. exact H2.
      + rewrite Hcb, Hnb, Hdb, Lb, Ha. exists x1. exact H1.
  Qed.
End C.

Definition cyc_eval (x : list float) : option (float * float) :=
  match x with [a] => Some ((a * a - 0x1.74876e8p+35)%float, (2 * a)%float) | _ => None end.
Definition cyc_conv (e : float * float) := PrimFloat.ltb (PrimFloat.abs (fst e)) 0x1.5798ee2308c3ap-27%float.
Definition cyc_dir (e : float * float) := Some [((1 / snd e) * fst e)%float].
Definition cyc_run cap := newton_iterates (float * float) cyc_eval cyc_conv
    (fun e => negb (PrimFloat.eqb (fst e) (fst e))) cyc_dir
    (nstep_loop NumF 1 0x1.ccccccccccccdp-1%float None) cap [1%float] (match cyc_eval [1%float] with Some e => e | None => (0,0)%float end).
Definition c_xa := Eval vm_compute in nth 50 (cyc_run 60) [].
Definition c_xb := Eval vm_compute in nth 51 (cyc_run 60) [].
Definition c_ea := Eval vm_compute in match cyc_eval c_xa with Some e => e | None => (0,0)%float end.
Definition c_eb := Eval vm_compute in match cyc_eval c_xb with Some e => e | None => (0,0)%float end.
Definition c_ta := Eval vm_compute in match cyc_dir c_ea with Some t => t | None => [] end.
Definition c_tb := Eval vm_compute in match cyc_dir c_eb with Some t => t | None => [] end.
Lemma newton_cycle_witness_l : forall cap i, exists x,
  newton_outer (float * float) cyc_eval cyc_conv (fun e => negb (PrimFloat.eqb (fst e) (fst e))) cyc_dir
    (nstep_loop NumF 1 0x1.ccccccccccccdp-1%float None) cap i c_xa c_ea = NCap x.
Proof.
  intros cap i.
  apply (proj1 (newton_period2_spins_l NumF (float * float) cyc_eval cyc_conv (fun e => negb (PrimFloat.eqb (fst e) (fst e))) cyc_dir
    0 0x1.ccccccccccccdp-1%float c_xa c_xb c_ta c_tb c_ea c_eb
    eq_refl eq_refl eq_refl eq_refl eq_refl eq_refl eq_refl eq_refl eq_refl eq_refl eq_refl eq_refl cap i)).
Qed.

Open Scope Z_scope.
Lemma gj_guard_exact_l : forall fast tri n xr bl, gj_guard fast tri n xr bl = 0 <-> gj_valid n xr bl.
Proof.
  intros fast tri n xr bl. unfold gj_guard, gj_valid, gj_loud.
  destruct (Z.eqb_spec xr n) as [H1|H1]; destruct (Z.eqb_spec bl n) as [H2|H2]; simpl;
    destruct fast, tri; simpl; split; intro H; try discriminate; try (split; assumption);
    try reflexivity; destruct H as [Ha Hb]; contradiction.
Qed.
Lemma gj_fast_as_strict_l : forall tri n xr bl, gj_guard false tri n xr bl <> 0 -> gj_guard true tri n xr bl <> 0.
Proof.
  intros tri n xr bl H H0. apply H. apply gj_guard_exact_l. apply (gj_guard_exact_l true tri). exact H0.
Qed.
Lemma gj_rejected_loud_l : forall fast tri n xr bl, ~ gj_valid n xr bl ->
  gj_guard fast tri n xr bl = 1 \/ gj_guard fast tri n xr bl = 2.
Proof.
  intros fast tri n xr bl H. assert (H0 : gj_guard fast tri n xr bl <> 0) by (rewrite gj_guard_exact_l; exact H).
  unfold gj_guard, gj_loud in *. destruct (negb (xr =? n)); destruct (negb (bl =? n)); destruct (fast || negb tri); auto; contradiction.
Qed.
Lemma gj_weak_overlong_l : forall tri n, gj_guard_weak n n (n + 1) = 0 /\ gj_guard_weak n (n + 1) n = 0
  /\ gj_guard false tri n n (n + 1) <> 0 /\ gj_guard false tri n (n + 1) n <> 0.
Proof.
  intros tri n. unfold gj_guard_weak, gj_guard, gj_loud.
  rewrite Z.ltb_irrefl. replace (n + 1 <? n) with false by (symmetry; apply Z.ltb_ge; lia).
  rewrite Z.eqb_refl. replace (n + 1 =? n) with false by (symmetry; apply Z.eqb_neq; lia).
  destruct tri; simpl; repeat split; discriminate.
Qed.
