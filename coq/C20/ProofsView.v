(* C20 round 2 — index() fails EXACTLY outside the view, whatever the parent's storage holds there,
   and every element operation that goes through index() is loud on an out-of-view index:
   nothing is read, nothing is written (the parent stays unchanged).  Corollaries of
   ProofsGuard.macc_ok / macc_bad and ProofsLoud.loud_failure_all, stated for arbitrary
   well-formed views (any nesting of Slice and T: Props.views_stay_well_formed). *)
From Coq Require Import ZArith List Bool Lia.
From ADV Require Import C20.Model C20.Spec C20.ProofsGuard C20.ProofsLoud.
Import ListNotations.
Open Scope Z_scope.

Definition in_view (m : mat) (i j : Z) : Prop := 0 <= i < rows m /\ 0 <= j < cols m.

Lemma in_view_inb m i j : inb i (rows m) && inb j (cols m) = true <-> in_view m i j.
Proof.
  unfold inb, in_view. rewrite !andb_true_iff, !Z.leb_le, !Z.ltb_lt. tauto.
Qed.

Lemma macc_exact m i j : mwf m -> (macc m i j = KOk <-> in_view m i j).
Proof.
  intro W. split.
  - intro H. destruct (inb i (rows m) && inb j (cols m)) eqn:E.
    + apply in_view_inb. exact E.
    + assert (N : ~ (0 <= i < rows m /\ 0 <= j < cols m)).
      { intro V. apply in_view_inb in V. congruence. }
      rewrite (macc_bad m i j N) in H. discriminate.
  - intros [Hi Hj]. apply macc_ok; assumption.
Qed.

Lemma macc_outside m i j : ~ in_view m i j -> macc m i j = KPanic.
Proof. intro N. apply macc_bad. exact N. Qed.

(* the accepted index never leaves the view's own window of the parent storage: row offset + i stays
   below roff + rows, i.e. a neighbouring parent element is never addressed *)
Lemma accepted_index_inside_window m i j :
  mwf m -> macc m i j = KOk ->
  roff m <= roff m + i < roff m + rows m /\ coff m <= coff m + j < coff m + cols m.
Proof. intros W H. apply (macc_exact m i j W) in H. destruct H. lia. Qed.

Lemma not_in_view_false m i j : ~ in_view m i j -> inb i (rows m) && inb j (cols m) = false.
Proof.
  intro N. destruct (inb i (rows m) && inb j (cols m)) eqn:E; [|reflexivity].
  apply in_view_inb in E. contradiction.
Qed.

Lemma at_outside_view_loud m i j : mwf m -> ~ in_view m i j ->
  kind_of (MAt m i j) = KPanic /\ written (MAt m i j) = false.
Proof.
  intros W N. unfold kind_of, written, run. cbn [body]. rewrite (macc_outside m i j N).
  split; reflexivity.
Qed.

Lemma swap_outside_view_loud m i1 j1 i2 j2 : mwf m -> ~ in_view m i1 j1 \/ ~ in_view m i2 j2 ->
  kind_of (MSwap m i1 j1 i2 j2) <> KOk /\ written (MSwap m i1 j1 i2 j2) = false.
Proof.
  intros W N. apply loud_failure_all; [exact W|reflexivity|].
  cbn [valid]. destruct N as [N|N]; apply not_in_view_false in N.
  - rewrite N. reflexivity.
  - rewrite <- andb_assoc. rewrite N. apply andb_false_r.
Qed.

Lemma swaprows_outside_view_loud m i j : mwf m -> rows m = cols m -> 0 < rows m ->
  ~ (0 <= i < rows m /\ 0 <= j < rows m) ->
  kind_of (MSwapRows m i j) <> KOk /\ written (MSwapRows m i j) = false /\
  kind_of (MSwapCols m i j) <> KOk /\ written (MSwapCols m i j) = false.
Proof.
  intros W Sq Pos N.
  assert (G : negb (square m) || (0 <? rows m) = true).
  { apply orb_true_iff. right. apply Z.ltb_lt. exact Pos. }
  assert (V : square m && inb i (rows m) && inb j (rows m) = false).
  { destruct (inb i (rows m)) eqn:Ei; destruct (inb j (rows m)) eqn:Ej;
      rewrite ?andb_false_r; try reflexivity.
    exfalso. apply N. unfold inb in Ei, Ej. rewrite andb_true_iff, Z.leb_le, Z.ltb_lt in Ei, Ej. lia. }
  destruct (loud_failure_all (MSwapRows m i j) W G V) as [A B].
  destruct (loud_failure_all (MSwapCols m i j) W G V) as [C D].
  repeat split; assumption.
Qed.
