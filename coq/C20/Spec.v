(* C20 — specification: what "fails loudly" and "terminates" mean.

   (G) For a call c with well-formed operands, [valid c] is the precondition of the
   operation (shapes match, indices inside the view, a permutation vector of the right
   length with entries in range, a supported derivative order, admissible options) — it
   is written here independently of the guards the code happens to perform.  The property:
       valid c = false  ->  the run fails (panic or error) and the receiver is unchanged
       valid c = true   ->  the run succeeds, with the expected result shape, and every
                            storage access of the run is inside [0, len)
   (an access outside [0, len) is the outcome KRt / KPanic of the access functions, so
   "the run is KOk" contains "no access out of bounds").

   (T) A loop terminates within a bound when its skeleton returns Done/CapHit with at
   most that many iterations, for EVERY body; it is refuted when for some exact input
   the skeleton returns OutOfFuel for every fuel. *)
From Coq Require Import ZArith List Bool Lia.
From ADV Require Import C20.Model.
Import ListNotations.
Open Scope Z_scope.

(* ------------------------------------------------------------------ well-formed operands *)
Definition vwf (v : vec) : Prop :=
  0 <= vdim v /\ (is_sparse (vk v) = false -> vdim v <= vcap v).

(* a header denotes a rows x cols window of an rmax x cmax row-major (or, transposed,
   column-major) array of mlen = rmax*cmax cells *)
Definition mwf (m : mat) : Prop :=
  0 <= rows m /\ 0 <= cols m /\ 0 <= roff m /\ 0 <= coff m /\
  roff m + rows m <= rmax m /\ coff m + cols m <= cmax m /\ mlen m = rmax m * cmax m.

Definition wf_call (c : call) : Prop :=
  match c with
  | VewV _ r a b => vwf r /\ vwf a /\ vwf b
  | VewS _ r a | VSet r a => vwf r /\ vwf a
  | VMdotV r a b _ => vwf r /\ mwf a /\ vwf b
  | VVdotM r a b _ => vwf r /\ vwf a /\ mwf b
  | VAt r _ | VSlice r _ _ | VSwap r _ _ | VPermute r _ | VAsMatrix r _ _ => vwf r
  | MewM _ r a b | MdotM r a b _ => mwf r /\ mwf a /\ mwf b
  | MewS _ r a | MSet r a => mwf r /\ mwf a
  | MOuter r a b => mwf r /\ vwf a /\ vwf b
  | MAt r _ _ | MSlice r _ _ _ _ | MRow r _ | MCol r _ | MDiag r | MSwap r _ _ _ _
  | MSwapRows r _ _ | MSwapCols r _ _ | MPermRows r _ | MPermCols r _ | MSymPerm r _ => mwf r
  | _ => True
  end.

(* ------------------------------------------------------------------ preconditions *)
Definition all_in (n : Z) (l : list Z) : bool := forallb (fun x => inb x n) l.
Fixpoint distinctb (l : list Z) : bool :=
  match l with [] => true | x :: r => negb (existsb (Z.eqb x) r) && distinctb r end.
Definition square (m : mat) : bool := rows m =? cols m.
Definition empty (m : mat) : bool := (rows m =? 0) || (cols m =? 0).

Definition entry_valid (alg r c opt : Z) : bool :=
  (opt =? 0) &&
  (if (alg =? 0) || (alg =? 1) || (alg =? 8) || (alg =? 10) then r =? c
   else if (alg =? 2) || (alg =? 9) then c <=? r
   else if (alg =? 3) || (alg =? 4) || (alg =? 5) || (alg =? 6) || (alg =? 7) || (alg =? 15) then (r =? c) && (0 <? r)
   else if alg =? 13 then c =? 2
   else true).

Definition valid (c : call) : bool :=
  match c with
  | VewV _ r a b => (vdim a =? vdim r) && (vdim b =? vdim r)
  | VewS _ r a | VSet r a => vdim a =? vdim r
  | VMdotV r a b al => (vdim r =? rows a) && (vdim b =? cols a) && (negb al || empty a)
  | VVdotM r a b al => (vdim r =? cols b) && (vdim a =? rows b) && (negb al || empty b)
  | VAt r i => inb i (vdim r)
  | VSlice r i j => (0 <=? i) && (i <=? j) && (j <=? vdim r)
  | VSwap r i j => inb i (vdim r) && inb j (vdim r)
  | VPermute r pi => (lenZ pi =? vdim r) && all_in (vdim r) pi
  | VAsMatrix r n m => (0 <=? n) && (0 <=? m) && (n * m =? vdim r)
  | VNewSparse idx nvals n => (lenZ idx =? nvals) && (0 <=? n) && all_in n idx && distinctb idx
  | MewM _ r a b => dims_eqb a r && dims_eqb b r
  | MewS _ r a | MSet r a => dims_eqb a r
  | MdotM r a b al => (rows a =? rows r) && (cols b =? cols r) && (cols a =? rows b)
                      && negb (al && is_sparse (mk r))
  | MOuter r a b => (vdim a =? rows r) && (vdim b =? cols r)
  | MAt r i j => inb i (rows r) && inb j (cols r)
  | MSlice r a b c d => (0 <=? a) && (a <=? b) && (b <=? rows r) && (0 <=? c) && (c <=? d) && (d <=? cols r)
  | MRow r i => inb i (rows r)
  | MCol r j => inb j (cols r)
  | MDiag r => square r
  | MSwap r i1 j1 i2 j2 => inb i1 (rows r) && inb j1 (cols r) && inb i2 (rows r) && inb j2 (cols r)
  | MSwapRows r i j | MSwapCols r i j => square r && inb i (rows r) && inb j (rows r)
  | MPermRows r pi | MPermCols r pi | MSymPerm r pi => square r && (lenZ pi =? rows r) && all_in (rows r) pi
  | MNewDense k L r c => (0 <=? r) && (0 <=? c) && ((L =? r * c) || (match k with DenseR => L =? 1 | _ => false end))
  | MNewSparse ri ci nvals r c => (lenZ ri =? nvals) && (lenZ ci =? nvals) && (0 <=? r) && (0 <=? c)
                                  && all_in r ri && all_in c ci
  | SSetVar n0 o0 i n order => (0 <=? order) && (order <=? 2) && (0 <=? n) && ((order =? 0) || inb i n)
  | SDyadic al nc oc na oa nb ob => negb ((1 <=? oa) && (1 <=? ob) && negb (na =? nb))
  | AEntry alg r c opt => entry_valid alg r c opt
  end.

(* ------------------------------------------------------------------ the two halves of "loud" *)
Definition kind_of (c : call) : kind := fst (fst (run c)).
Definition written (c : call) : bool := snd (fst (run c)).
Definition shape_of (c : call) : list Z := snd (run c).

Definition loud (c : call) : Prop := valid c = false -> kind_of c <> KOk /\ written c = false.
Definition fails_only (c : call) : Prop := valid c = false -> kind_of c <> KOk.
Definition succeeds (c : call) : Prop := valid c = true -> kind_of c = KOk.

(* expected result shapes *)
Definition expected_shape (c : call) : list Z :=
  match c with
  | VSlice r i j => [j - i]
  | VAsMatrix r n m => [n; m]
  | VNewSparse idx nvals n => [n]
  | MSlice r a b c d => [b - a; d - c]
  | MRow r i => [cols r] | MCol r j => [rows r] | MDiag r => [rows r]
  | MNewDense k L r c => [r; c] | MNewSparse ri ci nvals r c => [r; c]
  | _ => []
  end.

(* [guarded c]: the calls for which the code's guards are complete and precede every write.
   Everything outside is covered by a `_refuted` lemma (Props.v) naming the missing guard. *)
Definition nonneg_all (l : list Z) : bool := forallb (fun x => 0 <=? x) l.
Definition guarded (c : call) : bool :=
  match c with
  | VewV _ _ _ _ | VewS _ _ _ | VSet _ _ | VMdotV _ _ _ _ | VVdotM _ _ _ _ | VAt _ _ => true
  | VSlice _ _ _ => false
  | VSwap r _ _ => negb (is_sparse (vk r))
  | VPermute _ _ => false
  | VAsMatrix _ n m => (0 <=? n) && (0 <=? m)
  | VNewSparse idx _ n => nonneg_all idx && (0 <=? n)
  | MewM _ _ _ _ | MewS _ _ _ | MdotM _ _ _ _ | MOuter _ _ _ | MSet _ _ | MAt _ _ _ | MDiag _
  | MSwap _ _ _ _ _ => true
  | MSlice _ _ _ _ _ => false
  | MRow r _ => 0 <? cols r
  | MCol r _ => 0 <? rows r
  | MSwapRows r _ _ | MSwapCols r _ _ => negb (square r) || (0 <? rows r)
  | MPermRows r _ | MPermCols r _ | MSymPerm r _ => negb (square r)
  | MNewDense k _ r c => match k with DenseR => (0 <=? r) && (0 <=? c) | _ => false end
  | MNewSparse ri ci nvals r c => (0 <=? r) && (0 <=? c)
  | SSetVar _ _ _ n order => (2 <? order)
  | SDyadic al nc oc na oa nb ob => (al =? 0) && (nc =? Z.max na nb) && (oc =? Z.max oa ob)
  | AEntry alg r c opt =>
      (0 <=? r) && (0 <=? c) &&
      if (alg =? 0) || (alg =? 1) || (alg =? 2) || (alg =? 8) || (alg =? 9) || (alg =? 10) then (opt =? 0) || (opt =? 2)
      else if (alg =? 3) || (alg =? 4) then (opt =? 0)
      else if alg =? 6 then (c <=? r) && (0 <? r)
      else (alg =? 5) || (alg =? 7) || (alg =? 13) || (alg =? 14) || (alg =? 15) || (alg =? 16)
  end.

(* calls whose valid use the code nevertheless rejects (refuted, see Props.v) *)
Definition total (c : call) : bool :=
  match c with
  | MdotM r a b al => (0 <? mlen r) && (0 <? mlen a) && (0 <? mlen b)
  (* scalars of order 0 carry no partial derivatives (N = 0): the state every constructor produces *)
  | SDyadic al nc oc na oa nb ob =>
      (0 <=? na) && (0 <=? nb) && ((1 <=? oa) || (na =? 0)) && ((1 <=? ob) || (nb =? 0))
  | _ => true
  end.

(* operations for which the success half (valid use => Ok, expected shape, no access outside the
   storage) is proved for all shapes; the others are tied by the exhaustive small-shape replay only *)
Definition ok_covered (c : call) : bool :=
  match c with
  | VPermute _ _ | VNewSparse _ _ _ | MNewSparse _ _ _ _ _
  | MPermRows _ _ | MPermCols _ _ | MSymPerm _ _ => false
  | _ => true
  end.

(* ------------------------------------------------------------------ termination *)
Definition never_exits {St Res} (step : St -> St + Res) (s : St) : Prop :=
  forall fuel, exists s', uncapped step fuel 0 s = OutOfFuel s'.
