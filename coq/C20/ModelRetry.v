(* C20 round 3 — the RETRY loops with their progress measure.

   rprop.go (generic), inside ONE outer iteration (x1, gradient_new, gradient_old fixed):

     for {
       for i { if gradient_new[i] != 0.0 {                                   -- MOVE key
                 if gradient_new[i] > 0.0 { x2[i] = x1[i] - step[i] } else { x2[i] = x1[i] + step[i] } }
               if IsNaN(x2[i]) { return error } }
       s, err = f(x2)
       if err != nil || gradient_is_nan(s) || !constraints(x2) {
         for i { if gradient_new[i] != 0.0 { step[i] *= eta[1] } }           -- SHRINK key
       } else { break }
     }

   rprop_dense.go: the same loop, but evalGradient(x2, gradient_new) OVERWRITES gradient_new inside the
   loop, so both keys read the gradient at the (rejected) trial point from the second pass on.

   newton.go:      for { x2 = x1 - t1; if x1 == x2 { return error }; if constraints(x2) { break }; t1 *= c }
   lineSearch.go:  for !constraints(alpha_j) { alpha_j *= 0.5 }

   All are coordinatewise: a state is a list of per-coordinate records, one pass maps a per-coordinate
   function over it; only the exit test looks at the whole trial point.  No proofs in this file. *)
From Coq Require Import ZArith List Bool.
From ADV Require Import Base.Num C20.Model.
Import ListNotations.

(* ---- generic coordinatewise retry loop: for { t := trial; if stop(t) { break }; reject } *)
Section Retry.
  Variables (A C : Type).
  Variable trial1 : C -> A.          (* the coordinate of the trial point built from the state *)
  Variable settle : C -> C.          (* bookkeeping of building the trial point (x2[i] = ...) *)
  Variable reject : C -> C.          (* the update after a rejected trial point *)
  Variable stop : list A -> bool.    (* the loop is left with this trial point (valid / error exit) *)
  Definition retry_pass (s : list C) : list C + list C :=
    let t := map trial1 s in
    if stop t then inr (map settle s) else inl (map (fun c => reject (settle c)) s).
  Fixpoint rejected1 (k : nat) (c : C) : C :=
    match k with O => c | S k' => rejected1 k' (reject (settle c)) end.
End Retry.
Arguments retry_pass {A C}. Arguments rejected1 {C}.

Section Rprop.
  Context {A : Type} (N : Num A).
  (* gradient[i] != 0.0 — true for NaN *)
  Definition nz (g : A) : bool := negb (eqb N g (zero N)).
  (* one coordinate of rprop's inner loop: last valid point, current x2, step, the gradient entry keying
     the MOVE and the gradient entry keying the SHRINK *)
  Record rcoord := mkrc { rx1 : A; rx2 : A; rstep : A; rgm : A; rgs : A }.
  Definition r_trial (c : rcoord) : A :=
    if nz (rgm c) then (if ltb N (zero N) (rgm c) then sub N (rx1 c) (rstep c) else add N (rx1 c) (rstep c))
    else rx2 c.
  Definition r_settle (c : rcoord) : rcoord := mkrc (rx1 c) (r_trial c) (rstep c) (rgm c) (rgs c).
  Definition r_reject (eta1 : A) (c : rcoord) : rcoord :=
    mkrc (rx1 c) (rx2 c) (if nz (rgs c) then mul N (rstep c) eta1 else rstep c) (rgm c) (rgs c).
  (* the code as written: both keys are gradient_new *)
  Definition rc_coded (x1 step g : A) : rcoord := mkrc x1 x1 step g g.
  (* the variant that keys the shrink by gradient_old *)
  Definition rc_oldkey (x1 step gnew gold : A) : rcoord := mkrc x1 x1 step gnew gold.
  Definition coded (c : rcoord) : Prop := rgs c = rgm c.
  (* x2 == x1 on entry (x1.Set(x2) / the initial copies) and stays so for coordinates that do not move *)
  Definition rinv (c : rcoord) : Prop := nz (rgm c) = false -> rx2 c = rx1 c.

  (* valid t = false: f failed / gradient NaN / constraints violated at the trial point t;
     a NaN coordinate of the trial point leaves the loop (and the routine) with an error *)
  Definition rprop_stop (valid : list A -> bool) (t : list A) : bool := existsb (is_nan N) t || valid t.
  Definition rprop_inner (eta1 : A) (valid : list A -> bool) : list rcoord -> list rcoord + list rcoord :=
    retry_pass r_trial r_settle (r_reject eta1) (rprop_stop valid).

  (* dense: gradient_new := grad(trial point) before the validity test; both keys follow *)
  Fixpoint set_g (s : list rcoord) (g : list A) : list rcoord :=
    match s, g with
    | c :: s', gi :: g' => mkrc (rx1 c) (rx2 c) (rstep c) gi gi :: set_g s' g'
    | _, _ => s
    end.
  Definition rprop_dense_inner (eta1 : A) (grad : list A -> list A) (valid : list A -> list A -> bool)
      (s : list rcoord) : list rcoord + list rcoord :=
    let t := map r_trial s in
    let s1 := set_g (map r_settle s) (grad t) in
    if existsb (is_nan N) t then inr (map r_settle s)
    else if valid t (grad t) then inr s1 else inl (map (r_reject eta1) s1).

  (* ---- newton: coordinates (x1, t1); trial = x1 - t1; exit by Vequals(x1, x2) or by the constraints *)
  Record ncoord := mknc { nx1 : A; nt1 : A }.
  Definition n_trial (c : ncoord) : A := sub N (nx1 c) (nt1 c).
  Definition n_reject (cc : A) (c : ncoord) : ncoord := mknc (nx1 c) (mul N (nt1 c) cc).
  (* the variant that scales x2 instead of t1: x2 is rebuilt from x1 - t1 at the next pass *)
  Definition n_reject_wrong (cc : A) (c : ncoord) : ncoord := c.
  Fixpoint all_eqb (a b : list A) : bool :=
    match a, b with
    | x :: a', y :: b' => eqb N x y && all_eqb a' b'
    | _, _ => true
    end.
  Definition newton_stop (x1 : list A) (constraints : list A -> bool) (t : list A) : bool :=
    all_eqb x1 t || constraints t.
  Definition newton_inner (cc : A) (constraints : list A -> bool) (s : list ncoord) :=
    retry_pass n_trial (fun c => c) (n_reject cc) (newton_stop (map nx1 s) constraints) s.

  (* ---- lineSearch: one coordinate alpha; for !constraints(alpha) { alpha *= factor }  (coded factor 0.5) *)
  Definition ls_inner (factor : A) (constraints : A -> bool) (s : list A) :=
    retry_pass (fun a : A => a) (fun a => a) (fun a => mul N a factor)
               (fun t => match t with a :: _ => constraints a | [] => true end) s.
End Rprop.

(* ---- bit-exact replay of logged inner loops (harness/c20/retry.go): from (x1, gradient_new, step0) and,
   for the dense variant, the gradient evalGradient produced at each rejected trial point, the model must
   reproduce every trial point and the step vector each was built with *)
Section Replay.
  Context {A : Type} (N : Num A).
  Fixpoint zip3 (x1 st g : list A) : list (rcoord (A := A)) :=
    match x1, st, g with
    | a :: x1', b :: st', c :: g' => rc_coded a b c :: zip3 x1' st' g'
    | _, _, _ => []
    end.
  (* trials: the observed trial points, all but the last rejected *)
  Fixpoint replay_inner (dense : bool) (eta1 : A) (s : list (rcoord (A := A))) (grads : list (list A)) (n : nat)
    : list (list A * list A) :=
    match n with
    | O => []
    | S n' =>
        let t := map (r_trial N) s in
        let st := map rstep s in
        let s1 := map (r_settle N) s in
        let s2 := if dense then match grads with g :: _ => set_g s1 g | [] => s1 end else s1 in
        (t, st) :: replay_inner dense eta1 (map (r_reject N eta1) s2) (tl grads) n'
    end.
End Replay.
