(* C20 round 3 — statements about the retry loops (rprop inner loop generic + dense, newton back-tracking,
   lineSearch constraint halving).  Models: ModelRetry.v; proofs: ProofsRetry.v. *)
From Coq Require Import ZArith List Bool Reals QArith.
From ADV Require Import Base.Num C20.Model C20.Spec C20.ModelRetry C20.ProofsRetry.
Import ListNotations.

(* 9. rprop.go inner loop, code as written (move and shrink both keyed by gradient_new), every carrier:
      a rejected pass shrinks the step of EVERY coordinate that moved the trial point off x1. *)
Theorem rprop_moved_subset_shrunk : forall A (N : Num A) eta1 (c : rcoord (A := A)),
  coded c -> rinv N c -> r_trial N c <> rx1 c ->
  rstep (r_reject N eta1 (r_settle N c)) = mul N (rstep c) eta1.
Proof. exact (@rprop_moved_subset_shrunk_gen). Qed.

(* ... hence, in exact arithmetic, for 0 <= eta[1] < 1 and non-negative steps: when the objective is valid on a
   box around the last valid point x1 (constraints satisfied, gradient not NaN), the inner loop is left after
   finitely many passes — for every x1, gradient, step vector and validity oracle. *)
Theorem rprop_inner_exits : forall eta1 : R, (0 <= eta1 < 1)%R ->
  forall (valid : list R -> bool) s r, (0 < r)%R ->
  Forall (fun c => coded c /\ rinv NumR c /\ (0 <= rstep c)%R) s ->
  (forall t, Forall2 (fun ti x => (Rabs (ti - x) < r)%R) t (map rx1 s) -> valid t = true) ->
  exists fuel k res, uncapped (rprop_inner NumR eta1 valid) fuel 0 s = Done res (S k).
Proof. exact rprop_inner_exits_R. Qed.

(* the variant whose shrink is keyed by gradient_old (seeded regression C20-3): a coordinate with gradient_new
   entry non-zero and gradient_old entry exactly zero keeps its trial value at every pass; if that value is
   rejected the loop never exits — for every carrier, state and oracle. *)
Theorem rprop_oldkey_backtracking_refuted : forall A (N : Num A) eta1 valid (s : list (rcoord (A := A))) i c0,
  nz N (rgm c0) = true -> nz N (rgs c0) = false ->
  (exists c, nth_error s i = Some c /\ agree c c0) ->
  (forall t, nth_error t i = Some (r_trial N c0) -> rprop_stop N valid t = false) ->
  never_exits (rprop_inner N eta1 valid) s.
Proof. exact (@rprop_oldkey_never_exits_gen). Qed.
(* non-trivial instance (the regression's witness, exact rationals): the coded loop exits at the 4th trial
   point (75/16, 5/8); the gradient_old-keyed variant never does *)
Example rprop_backtracking_witness :
  (exists res, uncapped (rprop_inner NumQ (1 # 2) wit_valid) 10 0 wit_coded = Done res 4 /\
               map (r_trial NumQ) res = [75 # 16; 5 # 8]%Q) /\
  never_exits (rprop_inner NumQ (1 # 2) wit_valid) wit_oldkey.
Proof. split; [exact rprop_witness_coded_exits | exact rprop_witness_oldkey_never_exits]. Qed.

(* rprop_dense.go AS WRITTEN (finding F-C20-RPROP-DENSE-TRIALGRAD): evalGradient(x2, gradient_new) overwrites
   the key inside the loop; on f = (x-2)^2 + relu(3-y)^2 from (0,0), step 10, constraint y < 2, the rejected
   trial point (10,10) has y-partial exactly 0: y is neither shrunk nor moved back, the loop never exits. *)
Theorem rprop_dense_backtracking_nonterminating_refuted :
  exists s1, rprop_dense_inner NumQ (1 # 2) sat_grad sat_valid sat_s0 = inl s1 /\
             map rx1 s1 = [0; 0]%Q /\ map (r_trial NumQ) s1 = [-5; 10]%Q /\ map rstep s1 = [5; 10]%Q /\
             never_exits (rprop_dense_inner NumQ (1 # 2) sat_grad sat_valid) s1.
Proof.
  destruct rprop_dense_witness_never_exits as (s1 & E & H).
  destruct rprop_dense_moved_not_shrunk as (s1' & s2 & E' & _ & A1 & A2 & A3 & _).
  rewrite E in E'. inversion E'. subst s1'. exists s1. auto.
Qed.

(* 10. newton.go back-tracking `for { x2 = x1 - t1; if x1 == x2 {error}; if constraints(x2) {break}; t1 *= c }`
       (0 <= c < 1; coded 0.9): left after finitely many passes when the constraints accept a box around x1;
       the variant that scales x2 instead of t1 never leaves once a trial point is rejected. *)
Theorem newton_backtracking_exits : forall cc : R, (0 <= cc < 1)%R ->
  forall (constraints : list R -> bool) s r, (0 < r)%R ->
  (forall t, Forall2 (fun ti x => (Rabs (ti - x) < r)%R) t (map nx1 s) -> constraints t = true) ->
  exists fuel k res, uncapped (retry_pass (n_trial NumR) (fun c => c) (n_reject NumR cc)
                                (newton_stop NumR (map nx1 s) constraints)) fuel 0 s = Done res (S k).
Proof. exact newton_backtracking_exits_R. Qed.
Theorem newton_wrong_vector_refuted : forall A (N : Num A) cc stop (s : list (ncoord (A := A))),
  stop (map (n_trial N) s) = false ->
  never_exits (retry_pass (n_trial N) (fun c => c) (n_reject_wrong cc) stop) s.
Proof. exact (@newton_wrong_vector_never_exits). Qed.

(* 11. lineSearch.go `for !constraints(alpha_j) { alpha_j *= 0.5 }`: left when the constraint accepts an
       interval around 0 (it does NOT when alpha = 0 itself is rejected: ls_constraints_nonterminating_refuted);
       with factor 1 the loop never leaves once an alpha is rejected. *)
Theorem ls_constraints_exits : forall (constraints : R -> bool) alpha r, (0 < r)%R ->
  (forall a, (Rabs a < r)%R -> constraints a = true) ->
  exists fuel k res, uncapped (ls_inner NumR (/ 2)%R constraints) fuel 0 [alpha] = Done res (S k).
Proof. exact ls_constraints_exits_R. Qed.
Theorem ls_factor_one_refuted : forall (constraints : R -> bool) alpha,
  constraints alpha = false -> never_exits (ls_inner NumR 1%R constraints) [alpha].
Proof. exact ls_factor_one_never_exits. Qed.
Example ls_constraints_instance :
  exists fuel k res, uncapped (ls_inner NumR (/ 2)%R (fun a => Rltb a (/ 1000))) fuel 0 [1%R] = Done res (S k).
Proof.
  apply (ls_constraints_exits _ 1%R (/ 1000)%R).
  - apply Rinv_0_lt_compat. apply IZR_lt. reflexivity.
  - intros a Ha. apply Rltb_true. pose proof (Rle_abs a). apply Rle_lt_trans with (Rabs a); assumption.
Qed.
