(* C20 — witnesses: operations whose guard is missing, incomplete or placed after a write.
   Each lemma exhibits a concrete call with well-formed operands on which the property fails
   in the faithful model (the harness replays the same calls on the implementation). *)
From Coq Require Import ZArith List Bool Lia.
From ADV Require Import C20.Model C20.Spec.
Import ListNotations.
Open Scope Z_scope.

(* silently accepted: invalid, yet Ok *)
Definition silent (c : call) : Prop := wf_call c /\ valid c = false /\ kind_of c = KOk.
(* corrupts the receiver: invalid, fails, but the receiver was already written *)
Definition corrupts (c : call) : Prop := wf_call c /\ valid c = false /\ kind_of c <> KOk /\ written c = true.
(* rejects a valid use *)
Definition rejects (c : call) : Prop := wf_call c /\ valid c = true /\ kind_of c <> KOk.

Ltac wit := unfold silent, corrupts, rejects, wf_call, vwf, mwf; vm_compute;
  repeat split; try discriminate; try reflexivity; try lia; intros; try discriminate.

Definition m33 := mnew Dense 9 3 3.
Lemma mslice_unchecked : silent (MSlice m33 0 5 0 5) /\ shape_of (MSlice m33 0 5 0 5) = [5; 5]
  /\ silent (MSlice m33 2 1 0 2) /\ shape_of (MSlice m33 2 1 0 2) = [-1; 2]
  /\ silent (MSlice (mnew Sparse 0 3 3) 0 5 0 5).
Proof. repeat split; wit. Qed.
(* ... and the views so obtained read outside the view they were taken from: element (0,2) of
   a slice of a 2x2 view is served (storage cell 2 = element (0,2) of the 3x3 parent) *)
Lemma mslice_reads_outside_view :
  let v := mslice m33 0 2 0 2 in let w := mslice v 0 2 0 3 in
  mwf v /\ cols v = 2 /\ macc w 0 2 = KOk /\ mindex w 0 2 = 2.
Proof. unfold mwf. vm_compute. repeat split; try lia; discriminate. Qed.
Lemma vslice_dense_cap : silent (VSlice (mkvec Dense 2 3) 0 3) /\ shape_of (VSlice (mkvec Dense 2 3) 0 3) = [3].
Proof. repeat split; wit. Qed.
Lemma vslice_sparse_unchecked : silent (VSlice (mkvec Sparse 4 4) 0 10) /\ silent (VSlice (mkvec Sparse 4 4) 3 1).
Proof. repeat split; wit. Qed.
Lemma mnewdense_unchecked : silent (MNewDense Dense 3 2 2).
Proof. wit. Qed.
Lemma vpermute_writes_before_check : corrupts (VPermute (mkvec Dense 2 2) [1; 5]) /\ corrupts (VPermute (mkvec Sparse 2 2) [1; -1]).
Proof. repeat split; wit. Qed.
Lemma mpermrows_writes_before_check :
  corrupts (MPermRows (mnew Dense 4 2 2) [1; 5])          (* error after the rows were swapped *)
  /\ corrupts (MPermRows (mnew Dense 4 2 2) [1; 2])       (* pi[i] == n passes the range test, panics in index() *)
  /\ corrupts (MPermRows (mnew Dense 4 2 2) [1])          (* short pi: Go index error after the swap *)
  /\ silent (MPermRows (mnew Dense 4 2 2) [0; 1; 7])      (* long pi accepted *)
  /\ corrupts (MPermCols (mnew Sparse 0 2 2) [1; 5]) /\ corrupts (MSymPerm (mnew Dense 4 2 2) [1; 5]).
Proof. repeat split; wit. Qed.
Lemma vswap_sparse_unchecked : silent (VSwap (mkvec Sparse 4 4) 1 99) /\ written (VSwap (mkvec Sparse 4 4) 1 99) = true.
Proof. repeat split; wit. Qed.
Lemma vnewsparse_negative : silent (VNewSparse [-1] 1 4).
Proof. wit. Qed.
Lemma mdotm_empty :
  rejects (MdotM (mnew Dense 0 0 0) (mnew Dense 0 0 0) (mnew Dense 0 0 0) false)
  /\ rejects (MdotM (mnew Dense 0 2 0) (mnew Dense 4 2 2) (mnew Dense 0 2 0) false)
  /\ rejects (MdotM (mnew Sparse 0 0 0) (mnew Sparse 0 0 0) (mnew Sparse 0 0 0) false).
Proof. repeat split; wit. Qed.
Lemma dyadic_alias_silent : silent (SDyadic 1 2 1 2 1 3 1).
Proof. wit. Qed.
Lemma dyadic_writes_before_check : corrupts (SDyadic 0 0 0 2 1 3 1).
Proof. wit. Qed.
Lemma setvariable_negative_order : silent (SSetVar 0 0 0 2 (-1)).
Proof. wit. Qed.
Lemma setvariable_writes_before_check : corrupts (SSetVar 2 1 5 3 1).
Proof. wit. Qed.
Lemma vasmatrix_negative : silent (VAsMatrix (mkvec Dense 0 0) (-1) 0) /\ shape_of (VAsMatrix (mkvec Dense 0 0) (-1) 0) = [-1; 0].
Proof. repeat split; wit. Qed.
Lemma mrow_empty_extent : silent (MRow (mnew Dense 0 2 0) 7) /\ silent (MCol (mnew Dense 0 0 2) (-1))
  /\ silent (MSwapRows (mnew Dense 0 0 0) (-1) 7) /\ silent (MSwapCols (mnew Sparse 0 0 0) 3 3).
Proof. repeat split; wit. Qed.
Lemma entry_unknown_option : silent (AEntry 0 2 2 1) /\ silent (AEntry 2 2 2 1) /\ silent (AEntry 3 2 2 2) /\ silent (AEntry 9 2 2 1).
Proof. repeat split; wit. Qed.
Lemma determinant_nonsquare : silent (AEntry 6 2 3 0) /\ silent (AEntry 6 0 2 0).
Proof. repeat split; wit. Qed.
