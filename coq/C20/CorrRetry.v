(* C20 round 3 — value-level tie of the rprop inner loop: the harness logs, for runs that returned, the
   inner loops that rejected at least one trial point (x1, gradient_new, the step vector, every trial point,
   the step vector it was built with, and for rprop_dense the gradient evalGradient wrote at each trial
   point); the model replays them bit-exactly over primitive floats. *)
From Coq Require Import ZArith List Bool Floats.
From ADV Require Import Base.Corr Base.Num C20.Model C20.ModelRetry.
Import ListNotations.

Inductive ricase :=
  RI (dense : bool) (eta1 : float) (x1 g step0 : list float) (trials steps grads : list (list float)).
Definition richeck (c : ricase) : bool :=
  match c with
  | RI d e x1 g st tr sts grs =>
      let r := replay_inner NumF d e (zip3 x1 st g) grs (length tr) in
      list_eqb (list_eqb feqb) (map fst r) tr && list_eqb (list_eqb feqb) (map snd r) sts
      && Nat.eqb (length sts) (length tr) && Nat.ltb 1 (length tr)
  end.
Definition rimism (cs : list ricase) : list nat := mismatches richeck cs.
