(* C20 round 6 — proofs about the recycled-workspace model. *)
From Coq Require Import ZArith List Bool Lia.
From ADV Require Import C20.Model C20.ModelRecycle C20.SpecRecycle.
Import ListNotations.
Open Scope Z_scope.

Local Arguments tb : simpl never.
Local Arguments orelse : simpl never.

Lemma shp_eqb_eq : forall a b, shp_eqb a b = true -> a = b.
Proof.
  destruct a, b; simpl; intros H; try discriminate; try reflexivity.
  - apply Z.eqb_eq in H; subst; reflexivity.
  - apply andb_true_iff in H; destruct H as [H1 H2]; apply Z.eqb_eq in H1, H2; subst; reflexivity.
Qed.
Lemma shp_eqb_refl : forall a, shp_eqb a a = true.
Proof. destruct a; simpl; rewrite ?Z.eqb_refl; reflexivity. Qed.
Lemma shp_eqb_neq : forall a b, shp_eqb a b = false -> a <> b.
Proof. intros a b H E; subst; rewrite shp_eqb_refl in H; discriminate. Qed.

Ltac bdestr :=
  repeat match goal with
         | |- context [if ?b then _ else _] => let E := fresh "E" in destruct b eqn:E
         end.
Ltac clean := simpl in *; rewrite ?Z.eqb_refl, ?Z.leb_refl, ?shp_eqb_refl in *; simpl in *.

(* ------------------------------------------------------------------ generic history lemma *)
Section History.
  Context {St : Type}.
  Variable run : St -> Z -> Z -> Z -> res St.
  Variable Inv : St -> Prop.
  Variable Good : ocall -> res St -> Prop.
  Hypothesis step : forall s o n m, Inv s -> Inv (rpost (run s o n m)) /\ Good (o, n, m) (run s o n m).
  Lemma history_good : forall cs s, Inv s -> Forall (fun cr => Good (fst cr) (snd cr)) (hist run s cs).
  Proof.
    induction cs as [|[[o n] m] rest IH]; intros s Hs; simpl; constructor.
    - simpl. apply step; exact Hs.
    - apply IH. apply step; exact Hs.
  Qed.
End History.

(* ------------------------------------------------------------------ backSubstitution, gramSchmidt: every state *)
Lemma bs_any_state : forall s o n m, loud_or_right bs_run bs0 (o, n, m) (bs_run s o n m).
Proof.
  intros s o n m. unfold loud_or_right, loud, fresh_out, bs_run.
  destruct (n =? m) eqn:E; simpl.
  2:{ left; exists KErr; split; [reflexivity|discriminate]. }
  destruct (negb (is_nil (bsA s)) && negb (shp_eqb (bsA s) (SM n n))) eqn:E1; simpl.
  { left; exists KErr; split; [reflexivity|discriminate]. }
  destruct (negb (is_nil (bsX s)) && negb (shp_eqb (bsX s) (SV n))) eqn:E2; simpl.
  { left; exists KErr; split; [reflexivity|discriminate]. }
  right. repeat split; reflexivity.
Qed.

Lemma gs_any_state : forall s o n m, loud_or_right gs_run gs0 (o, n, m) (gs_run s o n m).
Proof.
  intros s o n m. unfold loud_or_right, loud, fresh_out, gs_run.
  destruct (negb (is_nil (gQ s)) && negb (shp_eqb (gQ s) (SM n m))) eqn:E1; simpl.
  { left; exists KErr; split; [reflexivity|discriminate]. }
  destruct (negb (is_nil (gR s)) && negb (shp_eqb (gR s) (SM n m))) eqn:E2; simpl.
  { left; exists KErr; split; [reflexivity|discriminate]. }
  destruct (n <? m) eqn:E3; simpl.
  { left; exists KPanic; split; [reflexivity|discriminate]. }
  right. repeat split; reflexivity.
Qed.

(* ------------------------------------------------------------------ qrAlgorithm: every state, shapes; values iff initialised *)
Lemma qr_ok_shapes : forall s o n m,
  rk (qr_run s o n m) = Some KOk ->
  n = m /\ rout (qr_run s o n m) = [SM n n; if tb o 0 then SM n n else SNil]
  /\ rcur (qr_run s o n m) = (is_nil (qH s) || qIH s).
Proof.
  intros s o n m. unfold qr_run.
  destruct (n =? m) eqn:E; simpl; [|easy]. apply Z.eqb_eq in E; subst m.
  destruct (negb (is_nil (qH s)) && negb (shp_eqb (qH s) (SM n n))) eqn:E1; simpl; [easy|].
  destruct (tb o 0) eqn:Ecu; simpl.
  - destruct (negb (is_nil (qU s)) && negb (shp_eqb (qU s) (SM n n))) eqn:E2; simpl; [easy|].
    assert (HU : orelse (qU s) (SM n n) = SM n n).
    { unfold orelse. destruct (is_nil (qU s)) eqn:En; [reflexivity|]. simpl in E2.
      destruct (shp_eqb (qU s) (SM n n)) eqn:Es; [apply shp_eqb_eq in Es; exact Es|discriminate]. }
    destruct (tb o 1) eqn:Esym; simpl.
    + destruct (negb (is_nil (tA (qHouse s))) && negb (shp_eqb (tA (qHouse s)) (SM n n))) eqn:E3; simpl; [easy|].
      unfold tri_core. destruct (tri_exact _ n) eqn:Ex; simpl; [|easy].
      intros _. split; [reflexivity|]. split; [|reflexivity].
      unfold tri_exact in Ex. simpl in Ex. repeat (apply andb_true_iff in Ex; destruct Ex as [Ex ?]).
      match goal with H : is_nil _ || shp_eqb _ _ = true |- _ => rename H into HUo end.
      unfold orelse in *. destruct (is_nil (tU (qHouse s))) eqn:En; simpl in *; [reflexivity|].
      rewrite En in HUo; simpl in HUo. apply shp_eqb_eq in HUo. rewrite HUo. reflexivity.
    + rewrite HU.
      match goal with |- context [hess_core ?h n] => destruct (hess_core h n) eqn:Ec end; simpl; try easy.
      match goal with |- context [qr_exact ?q n] => destruct (qr_exact q n) end; simpl; [|easy].
      intros _. repeat split; reflexivity.
  - destruct (tb o 1) eqn:Esym; simpl.
    + destruct (negb (is_nil (tA (qHouse s))) && negb (shp_eqb (tA (qHouse s)) (SM n n))) eqn:E3; simpl; [easy|].
      unfold tri_core. destruct (tri_exact _ n) eqn:Ex; simpl; [|easy].
      intros _. repeat split; reflexivity.
    + match goal with |- context [hess_core ?h n] => destruct (hess_core h n) eqn:Ec end; simpl; try easy.
      match goal with |- context [qr_exact ?q n] => destruct (qr_exact q n) end; simpl; [|easy].
      intros _. repeat split; reflexivity.
Qed.

(* ------------------------------------------------------------------ hessenbergReduction: histories *)
Definition hess_inv (s : hess_st) : Prop :=
  s = hess0 \/ exists k, hH s = SM k k /\ hX s = SV k /\ hNu s = SV k /\ hT4 s = SV k /\ (hU s = SNil \/ hU s = SM k k).

Lemma hess_fresh : forall o n, rout (hess_run hess0 o n n) = [SM n n; if tb o 0 then SM n n else SNil]
                               /\ rk (hess_run hess0 o n n) = Some KOk.
Proof.
  intros o n. unfold hess_run, hess_alloc, hess_core, hess0. clean.
  destruct (tb o 0); clean; destruct (n <=? 2); clean; split; reflexivity.
Qed.

Lemma hess_step : forall s o n m, hess_inv s ->
  hess_inv (rpost (hess_run s o n m)) /\ loud_or_right hess_run hess0 (o, n, m) (hess_run s o n m).
Proof.
  intros s o n m Hs. unfold loud_or_right, loud, fresh_out.
  destruct (n =? m) eqn:E.
  2:{ unfold hess_run at 1 2 3 4 5. rewrite E. simpl. split; [exact Hs|].
      left; exists KErr; split; [reflexivity|discriminate]. }
  apply Z.eqb_eq in E; subst m.
  destruct (hess_fresh o n) as [Hf Hk]. rewrite Hf.
  destruct Hs as [-> | (k & Hh & Hx & Hnu & Ht & Hu)].
  - rewrite Hf, Hk. split.
    + right. exists n. unfold hess_run, hess_alloc, hess_core, hess0. clean.
      destruct (tb o 0); clean; destruct (n <=? 2); clean; repeat split; auto.
    + right. repeat split. unfold hess_run, hess_alloc, hess_core, hess0. clean.
      destruct (tb o 0); clean; destruct (n <=? 2); clean; reflexivity.
  - unfold hess_run. clean. rewrite Hh. simpl.
    destruct ((k =? n) && (k =? n)) eqn:Ek; simpl.
    2:{ split; [right; exists k; repeat split; auto|]. left; exists KPanic; split; [reflexivity|discriminate]. }
    apply andb_true_iff in Ek; destruct Ek as [Ek _]; apply Z.eqb_eq in Ek; subst k.
    unfold hess_alloc, hess_core. rewrite Hx, Hnu, Ht. clean.
    destruct (tb o 0) eqn:Ecu; clean.
    + assert (HU : orelse (hU s) (SM n n) = SM n n) by (destruct Hu as [-> | ->]; reflexivity).
      rewrite HU. clean. destruct (n <=? 2); clean.
      * split; [right; exists n; repeat split; auto|]. right; repeat split; reflexivity.
      * split; [right; exists n; repeat split; auto|]. right; repeat split; reflexivity.
    + destruct (n <=? 2); clean.
      * split; [right; exists n; repeat split; auto|]. right; repeat split; reflexivity.
      * split; [right; exists n; repeat split; auto|]. right; repeat split; reflexivity.
Qed.

Lemma hess_history : forall cs,
  Forall (fun cr => loud_or_right hess_run hess0 (fst cr) (snd cr)) (hist hess_run hess0 cs).
Proof.
  intros cs. apply (history_good hess_run hess_inv (loud_or_right hess_run hess0)).
  - intros s o n m Hs. apply hess_step; exact Hs.
  - left; reflexivity.
Qed.

(* an arbitrary (caller-built) workspace is NOT safe: U of another size, n <= 2 *)
Lemma hess_any_state_counterexample :
  silent_wrong hess_run hess0 (1, 2, 2) (hess_run (mk_hess_st SNil (SM 3 3) SNil SNil SNil) 1 2 2).
Proof. unfold silent_wrong. split; [reflexivity|]. left. vm_compute. discriminate. Qed.

(* ------------------------------------------------------------------ refutations on histories from the EMPTY workspace *)
Definition nth_res {St} (l : list (ocall * res St)) (i : nat) (d : res St) : res St := snd (nth i l ((0, 0, 0), d)).

Lemma cholesky_shrink :
  let h := hist chol_run chol0 [(0, 4, 4); (0, 2, 2)] in
  silent_wrong chol_run chol0 (0, 2, 2) (nth_res h 1 (stop KErr chol0))
  /\ rout (nth_res h 1 (stop KErr chol0)) = [SM 4 4; SNil] /\ fresh_out chol_run chol0 (0, 2, 2) = [SM 2 2; SNil].
Proof. vm_compute. repeat split; try reflexivity. left; discriminate. Qed.

(* a recycled L that is too small is loud; one that is large enough is used and returned as it is *)
Lemma cholesky_exact : forall s o n,
  0 < n -> let s' := rpost (chol_run s o n n) in
  (rk (chol_run s o n n) = Some KOk <-> (mfits (cL s') n = true /\ (tb o 0 = true -> mfits (cD s') n = true)))
  /\ (rk (chol_run s o n n) = Some KOk -> rout (chol_run s o n n) = [cL s'; if tb o 0 then cD s' else SNil])
  /\ rk (chol_run s o n n) <> None.
Proof.
  intros s o n Hn. unfold chol_run. clean.
  assert (E0 : n =? 0 = false) by (apply Z.eqb_neq; lia). rewrite E0. simpl.
  destruct (tb o 0) eqn:El; simpl;
    destruct (mfits (orelse (cL s) (SM n n)) n) eqn:E1; simpl;
    try destruct (mfits (orelse (cD s) (SM n n)) n) eqn:E2; simpl; rewrite ?El; simpl;
    repeat split; intros; try reflexivity; try discriminate; try tauto; try congruence;
    try (destruct H as [H1 H2]; try discriminate; try (specialize (H2 eq_refl)); congruence).
Qed.

Lemma matinv_pd_shrink :
  let h := hist inv_run inv0 [(1, 4, 4); (1, 2, 2)] in
  silent_wrong inv_run inv0 (1, 2, 2) (nth_res h 1 (stop KErr inv0))
  /\ rout (nth_res h 1 (stop KErr inv0)) = [SM 4 4] /\ fresh_out inv_run inv0 (1, 2, 2) = [SM 2 2].
Proof. vm_compute. repeat split; try reflexivity. left; discriminate. Qed.

(* the same sizes without PositiveDefinite: a.Set(matrix) panics *)
Lemma matinv_general_shrink_loud :
  loud (nth_res (hist inv_run inv0 [(0, 4, 4); (0, 2, 2)]) 1 (stop KErr inv0)).
Proof. exists KPanic. split; [reflexivity|discriminate]. Qed.

Definition qr_run_ih (ih : bool) (s : qr_st) (o n m : Z) : res qr_st :=
  qr_run (mk_qr_st ih (qIU s) (qH s) (qU s) (qX s) (qNu s) (qT4 s) (qHess s) (qHouse s)) o n m.

(* InitializeH = false: right shapes, old data, for every second call of the same size *)
Lemma qr_stale : forall o n, 0 <= n ->
  let h := hist (qr_run_ih false) (qr0 false false) [(o, n, n); (o, n, n)] in
  rk (nth_res h 0 (stop KErr (qr0 false false))) = Some KOk ->
  rk (nth_res h 1 (stop KErr (qr0 false false))) = Some KOk ->
  rcur (nth_res h 1 (stop KErr (qr0 false false))) = false.
Proof.
  intros o n Hn h H0 H1. subst h. simpl in *. unfold nth_res in *. simpl in *.
  unfold qr_run_ih in H1 |- *.
  match type of H1 with rk (qr_run ?s _ _ _) = _ => destruct (qr_ok_shapes s o n n H1) as (_ & _ & Hc); rewrite Hc end.
  simpl. rewrite orb_false_r.
  unfold qr_run_ih in H0. apply qr_ok_shapes in H0. clear Hc H1.
  unfold qr_run_ih, qr_run, qr0. clean.
  destruct (tb o 0); clean; destruct (tb o 1); clean; unfold tri_core, finish;
    repeat match goal with
           | |- context [if ?b then _ else _] => destruct b
           | |- context [match ?k with KOk => _ | _ => _ end] => destruct k
           end; reflexivity.
Qed.

Lemma qr_stale_witness :
  let h := hist (qr_run_ih false) (qr0 false false) [(0, 3, 3); (0, 3, 3)] in
  silent_wrong (qr_run_ih false) (qr0 false false) (0, 3, 3) (nth_res h 1 (stop KErr (qr0 false false))).
Proof. vm_compute. split; [reflexivity|right; reflexivity]. Qed.

(* with InitializeH = true the second call of the same size is right *)
Lemma qr_init_witness :
  let h := hist (qr_run_ih true) (qr0 true false) [(1, 3, 3); (3, 3, 3); (0, 3, 3)] in
  Forall (fun cr => loud_or_right (qr_run_ih true) (qr0 true false) (fst cr) (snd cr)) h.
Proof. vm_compute. repeat constructor; right; repeat split; reflexivity. Qed.

Lemma eig_stale_input :
  let h := hist eig_run (eig0 false) [(0, 3, 3); (0, 3, 3)] in
  silent_wrong eig_run (eig0 false) (0, 3, 3) (nth_res h 1 (stop KErr (eig0 false))).
Proof. vm_compute. split; [reflexivity|right; reflexivity]. Qed.

(* InitializeH = true does not save the eigenvectors: general branch after general branch, general after Symmetric,
   Symmetric after general *)
Lemma eig_vectors :
  silent_wrong eig_run (eig0 true) (1, 3, 3) (nth_res (hist eig_run (eig0 true) [(1, 3, 3); (1, 3, 3)]) 1 (stop KErr (eig0 true)))
  /\ silent_wrong eig_run (eig0 true) (1, 3, 3) (nth_res (hist eig_run (eig0 true) [(3, 3, 3); (1, 3, 3)]) 1 (stop KErr (eig0 true)))
  /\ silent_wrong eig_run (eig0 true) (3, 3, 3) (nth_res (hist eig_run (eig0 true) [(1, 3, 3); (3, 3, 3)]) 1 (stop KErr (eig0 true))).
Proof. vm_compute. repeat split; right; reflexivity. Qed.

(* Eigenvalues / Eigenvectors survive an inadmissible call and are returned for a smaller input; *)
Lemma eig_outputs :
  let h := hist eig_run (eig0 true) [(0, 3, 4); (0, 2, 2)] in
  loud (nth_res h 0 (stop KOk (eig0 true)))
  /\ eVals (rpost (nth_res h 0 (stop KOk (eig0 true)))) = SV 3
  /\ eVals (rpost (nth_res h 1 (stop KOk (eig0 true)))) = SV 3
  /\ rk (nth_res h 1 (stop KOk (eig0 true))) = None.
Proof. vm_compute. split; [exists KErr; split; [reflexivity|discriminate]|]. repeat split; reflexivity. Qed.
