(* C20 round 3 — progress measure of the retry loops (rprop inner loop, newton back-tracking,
   lineSearch constraint halving): exit theorems over R for the code as written, non-termination
   of the variants that shrink a vector other than the one that moved the trial point. *)
From Coq Require Import ZArith List Bool Reals Lra Lia QArith.
From ADV Require Import Base.Num C20.Model C20.Spec C20.ModelRetry C20.ProofsTerm.
Import ListNotations.

(* ------------------------------------------------------------------ generic *)
Lemma ne_inv {St Res} (step : St -> St + Res) (P : St -> Prop) :
  (forall s, P s -> exists s', step s = inl s' /\ P s') -> forall s, P s -> ne step s.
Proof.
  intros H s Hs fuel. revert s Hs. induction fuel as [|fuel IH]; intros s Hs done; simpl; [eauto|].
  destruct (H s Hs) as (s' & E & P'). rewrite E. apply IH. exact P'.
Qed.

Section RetryGen.
  Variables (A C : Type) (trial1 : C -> A) (settle reject : C -> C) (stop : list A -> bool).
  Let step := retry_pass trial1 settle reject stop.
  Let rj k := rejected1 settle reject k.

  (* if the trial point after K rejections would stop the loop, the loop is left after at most K+1 passes *)
  Lemma retry_exits_within : forall K s d,
    stop (map trial1 (map (rj K) s)) = true ->
    exists k res, (k <= K)%nat /\ uncapped step (S K) d s = Done res (S (d + k)).
  Proof.
    induction K as [|K IH]; intros s d H.
    - exists 0%nat. unfold rj in H. simpl in H. rewrite map_id in H.
      simpl. unfold step, retry_pass. rewrite H. eexists. split; [lia|]. rewrite Nat.add_0_r. reflexivity.
    - destruct (stop (map trial1 s)) eqn:E.
      + exists 0%nat. simpl. unfold step at 1, retry_pass. rewrite E. eexists. split; [lia|].
        rewrite Nat.add_0_r. reflexivity.
      + assert (H' : stop (map trial1 (map (rj K) (map (fun c => reject (settle c)) s))) = true).
        { rewrite !map_map. rewrite map_map in H. exact H. }
        destruct (IH _ (S d) H') as (k & res & Hk & Hu).
        exists (S k), res. split; [lia|].
        change (uncapped step (S (S K)) d s) with
          (match step s with inr r => Done r (S d) | inl s' => uncapped step (S K) (S d) s' end).
        unfold step at 1, retry_pass. rewrite E. fold step. rewrite Hu. f_equal. lia.
  Qed.
End RetryGen.

Lemma Forall2_maps {X Y Z} (P : Y -> Z -> Prop) (f : X -> Y) (g : X -> Z) (s : list X) :
  (forall c, In c s -> P (f c) (g c)) -> Forall2 P (map f s) (map g s).
Proof.
  induction s as [|c s IH]; intro H; simpl; constructor.
  - apply H. left. reflexivity.
  - apply IH. intros c' Hc. apply H. right. exact Hc.
Qed.

Lemma existsb_false {X} (l : list X) : existsb (fun _ => false) l = false.
Proof. induction l; simpl; auto. Qed.

Local Open Scope R_scope.

(* M q^K < r for some K *)
Lemma geom_small M q r : 0 <= M -> 0 <= q < 1 -> 0 < r -> exists K, M * q ^ K < r.
Proof.
  intros HM Hq Hr.
  assert (Hy : 0 < r / (M + 1)) by (apply Rdiv_lt_0_compat; lra).
  destruct (pow_lt_1_zero q) with (y := r / (M + 1)) as [K HK].
  - rewrite Rabs_right; lra.
  - exact Hy.
  - exists K. specialize (HK K (Nat.le_refl K)).
    assert (Hp : 0 <= q ^ K) by (apply pow_le; lra).
    rewrite Rabs_right in HK by lra.
    set (p := q ^ K) in *. set (y := r / (M + 1)) in *.
    assert (Ey : y * (M + 1) = r) by (unfold y; field; lra).
    nra.
Qed.

(* ------------------------------------------------------------------ rprop, generic entry point *)
Section RpropR.
  Variable eta1 : R.
  Hypothesis Heta : 0 <= eta1 < 1.
  Notation rj := (rejected1 (r_settle NumR) (r_reject NumR eta1)).

  (* a coordinate that does not move stays at x1 *)
  Lemma rj_unmoved : forall k c, nz NumR (rgm c) = false -> rinv NumR c -> r_trial NumR (rj k c) = rx1 c.
  Proof.
    induction k as [|k IH]; intros c Hz Hi.
    - simpl. unfold r_trial. rewrite Hz. apply Hi. exact Hz.
    - simpl. rewrite IH.
      + reflexivity.
      + exact Hz.
      + intros _. simpl. unfold r_trial. rewrite Hz. apply Hi. exact Hz.
  Qed.
  (* a coordinate that moves is shrunk at every rejected pass: its distance to x1 is step * eta1^k *)
  Lemma rj_moved : forall k c, nz NumR (rgm c) = true -> coded c -> 0 <= rstep c ->
    Rabs (r_trial NumR (rj k c) - rx1 c) = rstep c * eta1 ^ k.
  Proof.
    induction k as [|k IH]; intros c Hz Hc Hs.
    - simpl. unfold r_trial. rewrite Hz. simpl.
      destruct (Rltb 0 (rgm c)).
      + replace (rx1 c - rstep c - rx1 c) with (- rstep c) by ring. rewrite Rabs_Ropp, Rabs_right; lra.
      + replace (rx1 c + rstep c - rx1 c) with (rstep c) by ring. rewrite Rabs_right; lra.
    - change (rj (S k) c) with (rj k (r_reject NumR eta1 (r_settle NumR c))).
      set (c' := r_reject NumR eta1 (r_settle NumR c)).
      change (rx1 c) with (rx1 c'). rewrite IH.
      + unfold c'. simpl. rewrite Hc, Hz. simpl. ring.
      + exact Hz.
      + unfold coded in *. simpl. exact Hc.
      + unfold c'. simpl. rewrite Hc, Hz. simpl. apply Rmult_le_pos; lra.
  Qed.

  Fixpoint step_sum (s : list (rcoord (A := R))) : R :=
    match s with [] => 0 | c :: s' => rstep c + step_sum s' end.
  Lemma step_le_sum s : Forall (fun c => 0 <= rstep c) s -> 0 <= step_sum s /\ forall c, In c s -> rstep c <= step_sum s.
  Proof.
    induction 1 as [|c s Hc Hs IH]; simpl.
    - split; [lra|]. intros c [].
    - destruct IH as [I1 I2]. split; [lra|]. intros c' [E|Hin].
      + subst. lra.
      + specialize (I2 c' Hin). lra.
  Qed.

  (* EXIT: if the constraint set / the domain of a non-NaN gradient contains a box around the last
     valid point x1, the coded inner loop is left after finitely many passes *)
  Theorem rprop_inner_exits_R : forall (valid : list R -> bool) s r, 0 < r ->
    Forall (fun c => coded c /\ rinv NumR c /\ 0 <= rstep c) s ->
    (forall t, Forall2 (fun ti x => Rabs (ti - x) < r) t (map rx1 s) -> valid t = true) ->
    exists fuel k res, uncapped (rprop_inner NumR eta1 valid) fuel 0 s = Done res (S k).
  Proof.
    intros valid s r Hr Hs Hv.
    assert (Hst : Forall (fun c => 0 <= rstep c) s).
    { eapply Forall_impl; [|exact Hs]. intros c (_ & _ & H). exact H. }
    destruct (step_le_sum s Hst) as [HM Hle].
    destruct (geom_small (step_sum s) eta1 r HM Heta Hr) as [K HK].
    destruct (retry_exits_within R _ (r_trial NumR) (r_settle NumR) (r_reject NumR eta1)
                (rprop_stop NumR valid) K s 0%nat) as (k & res & _ & Hu).
    - unfold rprop_stop. apply orb_true_iff. right. apply Hv. rewrite map_map.
      apply Forall2_maps. intros c Hin.
      rewrite Forall_forall in Hs. destruct (Hs c Hin) as (Hc & Hi & Hp).
      destruct (nz NumR (rgm c)) eqn:Hz.
      + rewrite rj_moved by assumption.
        assert (0 <= eta1 ^ K) by (apply pow_le; lra).
        specialize (Hle c Hin). nra.
      + rewrite rj_unmoved by assumption. replace (rx1 c - rx1 c) with 0 by ring. rewrite Rabs_R0. exact Hr.
    - exists (S K), (0 + k)%nat, res. exact Hu.
  Qed.
End RpropR.

(* bookkeeping, any carrier: for the code as written a rejected pass shrinks every coordinate that moved the
   trial point off x1 *)
Lemma rprop_moved_subset_shrunk_gen {A} (N : Num A) eta1 (c : rcoord (A := A)) :
  coded c -> rinv N c -> r_trial N c <> rx1 c ->
  rstep (r_reject N eta1 (r_settle N c)) = mul N (rstep c) eta1.
Proof.
  intros Hc Hi Hm. simpl. rewrite Hc.
  destruct (nz N (rgm c)) eqn:Hz; [reflexivity|].
  exfalso. apply Hm. unfold r_trial. rewrite Hz. apply Hi. exact Hz.
Qed.

(* the variant keyed by gradient_old: a coordinate whose gradient_new entry is non-zero and whose gradient_old
   entry is zero keeps its trial value forever *)
Definition agree {A} (c c0 : rcoord (A := A)) : Prop :=
  rx1 c = rx1 c0 /\ rstep c = rstep c0 /\ rgm c = rgm c0 /\ rgs c = rgs c0.
Lemma rprop_oldkey_never_exits_gen {A} (N : Num A) eta1 valid (s : list (rcoord (A := A))) i c0 :
  nz N (rgm c0) = true -> nz N (rgs c0) = false ->
  (exists c, nth_error s i = Some c /\ agree c c0) ->
  (forall t, nth_error t i = Some (r_trial N c0) -> rprop_stop N valid t = false) ->
  never_exits (rprop_inner N eta1 valid) s.
Proof.
  intros Hm Hs H0 Hv. apply ne_never_exits.
  apply (ne_inv _ (fun s => exists c, nth_error s i = Some c /\ agree c c0)); [|exact H0].
  clear s H0. intros s (c & Hn & (E1 & E2 & E3 & E4)).
  assert (Et : r_trial N c = r_trial N c0).
  { unfold r_trial. rewrite E3, Hm, E1, E2. reflexivity. }
  eexists. split.
  - unfold rprop_inner, retry_pass. rewrite Hv; [reflexivity|].
    rewrite <- Et. apply map_nth_error. exact Hn.
  - exists (r_reject N eta1 (r_settle N c)). split.
    + apply map_nth_error with (f := fun c => r_reject N eta1 (r_settle N c)). exact Hn.
    + unfold agree. simpl. rewrite E4, Hs. auto.
Qed.

(* the regression's witness in exact arithmetic: f = (x-2)^2 - xy + 10y^2 from (0,0), step_init 10, eta = (1.2, 0.5);
   second outer iteration: x1 = (5,0), step = (5/2, 5), gradient_new = (6,-5), gradient_old = (-4, 0); invalid: y >= 1 *)
Local Open Scope Q_scope.
Definition wit_valid (t : list Q) : bool := match nth_error t 1 with Some y => negb (Qle_bool 1 y) | None => true end.
Definition wit_coded : list (rcoord (A := Q)) := [rc_coded 5 (5 # 2) 6; rc_coded 0 5 (-5)].
Definition wit_oldkey : list (rcoord (A := Q)) := [rc_oldkey 5 (5 # 2) 6 (-4); rc_oldkey 0 5 (-5) 0].
Lemma rprop_witness_coded_exits :
  exists res, uncapped (rprop_inner NumQ (1 # 2) wit_valid) 10 0 wit_coded = Done res 4 /\
              map (r_trial NumQ) res = [75 # 16; 5 # 8].
Proof. eexists. split; vm_compute; reflexivity. Qed.
Lemma rprop_witness_oldkey_never_exits : never_exits (rprop_inner NumQ (1 # 2) wit_valid) wit_oldkey.
Proof.
  apply (rprop_oldkey_never_exits_gen NumQ (1 # 2) wit_valid wit_oldkey 1%nat (rc_oldkey 0 5 (-5) 0)).
  - reflexivity.
  - reflexivity.
  - eexists. split; [reflexivity|]. repeat split.
  - intros t Ht. unfold rprop_stop. simpl is_nan. rewrite existsb_false. simpl.
    unfold wit_valid. rewrite Ht. vm_compute. reflexivity.
Qed.

(* dense variant (rprop_dense.go): the keys read the gradient at the REJECTED trial point.  Witness
   (F-C20-RPROP-DENSE-TRIALGRAD): f = (x-2)^2 + relu(3-y)^2 from (0,0), step 10, invalid y >= 2: the first
   trial point (10,10) is rejected, its y-partial is exactly 0, so y is neither shrunk nor moved back. *)
Definition sat_grad (t : list Q) : list Q :=
  match t with [x; y] => [Qred (2 * (x - 2)); if Qle_bool 3 y then 0 else Qred (-2 * (3 - y))] | _ => t end.
Definition sat_valid (t g : list Q) : bool := match t with [_; y] => negb (Qle_bool 2 y) | _ => true end.
Definition sat_s0 : list (rcoord (A := Q)) := [rc_coded 0 10 (-4); rc_coded 0 10 (-6)].
Lemma rprop_dense_moved_not_shrunk :
  exists s1 s2, rprop_dense_inner NumQ (1 # 2) sat_grad sat_valid sat_s0 = inl s1 /\
    rprop_dense_inner NumQ (1 # 2) sat_grad sat_valid s1 = inl s2 /\
    map rstep s1 = [5; 10] /\ map (r_trial NumQ) s1 = [-5; 10] /\ map rx1 s1 = [0; 0] /\
    map rstep s2 = [5 # 2; 10] /\ map (r_trial NumQ) s2 = [5 # 2; 10].
Proof. do 2 eexists. repeat split; vm_compute; reflexivity. Qed.
Definition sat_P (s : list (rcoord (A := Q))) : Prop :=
  exists c0 c1, s = [c0; c1] /\ rx2 c1 = 10 /\ rgm c1 = 0 /\ rgs c1 = 0.
Lemma rprop_dense_witness_never_exits :
  exists s1, rprop_dense_inner NumQ (1 # 2) sat_grad sat_valid sat_s0 = inl s1 /\
             never_exits (rprop_dense_inner NumQ (1 # 2) sat_grad sat_valid) s1.
Proof.
  eexists. split; [vm_compute; reflexivity|].
  apply ne_never_exits. apply (ne_inv _ sat_P).
  - intros s (c0 & c1 & -> & E2 & Em & Es).
    assert (Et : r_trial NumQ c1 = 10).
    { unfold r_trial. rewrite Em. simpl. exact E2. }
    unfold rprop_dense_inner.
    change (map (r_trial NumQ) [c0; c1]) with [r_trial NumQ c0; r_trial NumQ c1].
    rewrite Et. change (is_nan NumQ) with (fun _ : Q => false). rewrite existsb_false.
    unfold sat_valid, sat_grad.
    change (Qle_bool 2 10) with true. change (Qle_bool 3 10) with true. cbn [negb].
    eexists. split; [reflexivity|].
    do 2 eexists. split; [reflexivity|]. cbn. rewrite Et. auto.
  - do 2 eexists. split; [reflexivity|]. simpl. auto.
Qed.
Local Close Scope Q_scope.

(* ------------------------------------------------------------------ newton back-tracking *)
Section NewtonR.
  Variable cc : R.
  Hypothesis Hc : 0 <= cc < 1.
  Notation nj := (rejected1 (fun c : ncoord (A := R) => c) (n_reject NumR cc)).
  Lemma nj_dist : forall k c, Rabs (n_trial NumR (nj k c) - nx1 c) = Rabs (nt1 c) * cc ^ k.
  Proof.
    induction k as [|k IH]; intro c.
    - simpl. unfold n_trial. simpl. replace (nx1 c - nt1 c - nx1 c) with (- nt1 c) by ring.
      rewrite Rabs_Ropp. ring.
    - change (nj (S k) c) with (nj k (n_reject NumR cc c)).
      change (nx1 c) with (nx1 (n_reject NumR cc c)). rewrite IH.
      simpl. rewrite Rabs_mult, (Rabs_right cc) by lra. ring.
  Qed.
  Lemma nj_x1 : forall k c, nx1 (nj k c) = nx1 c.
  Proof. induction k as [|k IH]; intro c; simpl; [reflexivity|]. rewrite IH. reflexivity. Qed.
  Fixpoint t_sum (s : list (ncoord (A := R))) : R :=
    match s with [] => 0 | c :: s' => Rabs (nt1 c) + t_sum s' end.
  Lemma t_le_sum s : 0 <= t_sum s /\ forall c, In c s -> Rabs (nt1 c) <= t_sum s.
  Proof.
    induction s as [|c s [I1 I2]]; simpl.
    - split; [lra|]. intros c [].
    - pose proof (Rabs_pos (nt1 c)). split; [lra|]. intros c' [E|Hin].
      + subst. lra.
      + specialize (I2 c' Hin). lra.
  Qed.
  (* the shrink is applied to the vector that builds the trial point: the loop is left (by the constraints or by
     the Vequals exit) as soon as the constraints accept a box around x1 *)
  Theorem newton_backtracking_exits_R : forall (constraints : list R -> bool) s r, 0 < r ->
    (forall t, Forall2 (fun ti x => Rabs (ti - x) < r) t (map nx1 s) -> constraints t = true) ->
    exists fuel k res, uncapped (retry_pass (n_trial NumR) (fun c => c) (n_reject NumR cc)
                                  (newton_stop NumR (map nx1 s) constraints)) fuel 0 s = Done res (S k).
  Proof.
    intros constraints s r Hr Hv.
    destruct (t_le_sum s) as [HM Hle].
    destruct (geom_small (t_sum s) cc r HM Hc Hr) as [K HK].
    destruct (retry_exits_within R _ (n_trial NumR) (fun c => c) (n_reject NumR cc)
                (newton_stop NumR (map nx1 s) constraints) K s 0%nat) as (k & res & _ & Hu).
    - unfold newton_stop. apply orb_true_iff. right. apply Hv. rewrite map_map.
      apply Forall2_maps. intros c Hin. rewrite nj_dist.
      assert (0 <= cc ^ K) by (apply pow_le; lra). specialize (Hle c Hin). nra.
    - exists (S K), (0 + k)%nat, res. exact Hu.
  Qed.
End NewtonR.

(* the variant that shrinks x2 (rebuilt from x1 - t1 at every pass) instead of t1 never leaves the loop once a
   trial point is rejected *)
Lemma newton_wrong_vector_never_exits {A} (N : Num A) cc stop (s : list (ncoord (A := A))) :
  stop (map (n_trial N) s) = false ->
  never_exits (retry_pass (n_trial N) (fun c => c) (n_reject_wrong cc) stop) s.
Proof.
  intro H. apply ne_never_exits, ne_fixed. unfold retry_pass. rewrite H.
  unfold n_reject_wrong. rewrite map_id. reflexivity.
Qed.

(* ------------------------------------------------------------------ lineSearch constraint loop *)
Lemma ls_half_dist : forall k a, rejected1 (fun a : R => a) (fun a => a * / 2) k a = a * (/ 2) ^ k.
Proof. induction k as [|k IH]; intro a; simpl; [ring|]. rewrite IH. ring. Qed.
Theorem ls_constraints_exits_R : forall (constraints : R -> bool) alpha r, 0 < r ->
  (forall a, Rabs a < r -> constraints a = true) ->
  exists fuel k res, uncapped (ls_inner NumR (/ 2) constraints) fuel 0 [alpha] = Done res (S k).
Proof.
  intros constraints alpha r Hr Hv.
  destruct (geom_small (Rabs alpha) (/ 2) r (Rabs_pos alpha) ltac:(lra) Hr) as [K HK].
  destruct (retry_exits_within R _ (fun a : R => a) (fun a => a) (fun a => a * / 2)
              (fun t => match t with a :: _ => constraints a | [] => true end) K [alpha] 0%nat)
    as (k & res & _ & Hu).
  - simpl. apply Hv. rewrite ls_half_dist, Rabs_mult, (Rabs_right ((/ 2) ^ K)); [exact HK|].
    apply Rle_ge, pow_le. lra.
  - exists (S K), (0 + k)%nat, res. exact Hu.
Qed.
(* factor 1 instead of 0.5: the step length never changes *)
Lemma ls_factor_one_never_exits (constraints : R -> bool) alpha :
  constraints alpha = false -> never_exits (ls_inner NumR 1 constraints) [alpha].
Proof.
  intro H. apply ne_never_exits, ne_fixed. unfold ls_inner, retry_pass. simpl. rewrite H.
  replace (alpha * 1) with alpha by ring. reflexivity.
Qed.
