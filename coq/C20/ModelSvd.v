(* C20 round 2 — skeleton of ONE pass of the outer loop of svd.golubKahanSVD
   (algorithm/svd/svd.go):

     for p, q := 0, 0; q < n; {
       for i := 0; i < n-1; i++ { if |b(i,i+1)| <= eps (|b(i,i)| + |b(i+1,i+1)|) { b(i,i+1) = 0 } }   -- threshold
       p, q = splitMatrix(B, q)                                                                       -- split
       if q < n-1 {
         t := true
         for k := p; k < n-q-1; k++ {                                   -- the zero-diagonal scan
           if B.At(k,k).GetFloat64() == 0.0 { zeroRow(B, U, V, k, inSitu); t = false }
         }
         if t { golubKahanSVDstep(B[p:n-q, p:n-q], ...) }
       }
     }

   The matrix state and the numerical bodies are abstract (Section variables); the control
   flow — which positions of the active block B22 = B[p:n-q, p:n-q] are tested, in which state,
   and when the Golub-Kahan step is taken — is the coded one.  The scan bound is a parameter
   [hi] so that the coded bound n-q-1 and an off-by-one variant can both be stated.
   No proofs in this file. *)
From Coq Require Import ZArith List Bool.
Import ListNotations.
Open Scope Z_scope.

Section SvdPass.
  Variable St : Type.
  Variable diag_zero : St -> Z -> bool.     (* B.At(k,k).GetFloat64() == 0.0 *)
  Variable zero_row : St -> Z -> St.        (* zeroRow(B, U, V, k, inSitu) *)
  Variable gk_step : St -> Z -> Z -> St.    (* golubKahanSVDstep on the active block [p, n-q) *)
  Variable threshold : St -> St.            (* negligible super-diagonal entries := 0 *)
  Variable split : St -> Z -> Z * Z.        (* splitMatrix(B, q) = (p, q) *)

  (* for k := k0; <cnt more iterations>; k++ { if B(k,k) == 0 { zeroRow(k); t = false } }
     [calls]: the positions zeroRow was called on, most recent first *)
  Fixpoint svd_scan (cnt : nat) (k : Z) (s : St) (t : bool) (calls : list Z) : St * bool * list Z :=
    match cnt with
    | O => (s, t, calls)
    | S c => if diag_zero s k then svd_scan c (k + 1) (zero_row s k) false (k :: calls)
             else svd_scan c (k + 1) s t calls
    end.
  (* for k := p; k < hi; k++ *)
  Definition svd_scan_block (p hi : Z) (s : St) : St * bool * list Z :=
    svd_scan (Z.to_nat (hi - p)) p s true [].

  Inductive svd_event := EvZeroRow (k : Z) | EvGKStep (p q : Z).

  (* one pass of the outer loop body; [bound n q] is the scan's upper bound (coded: n - q - 1) *)
  Definition svd_pass_with (bound : Z -> Z -> Z) (n : Z) (sq : St * Z) : St * Z * list svd_event :=
    let s1 := threshold (fst sq) in
    let '(p, q) := split s1 (snd sq) in
    if q <? n - 1 then
      let '(s2, t, calls) := svd_scan_block p (bound n q) s1 in
      if t then (gk_step s2 p q, q, [EvGKStep p q])
      else (s2, q, map EvZeroRow (rev calls))
    else (s1, q, []).
  Definition coded_bound (n q : Z) : Z := n - q - 1.
  Definition svd_pass := svd_pass_with coded_bound.

  (* the outer loop: leaves when q >= n; no cap in the code (fuel is the model's) *)
  Fixpoint svd_outer (fuel : nat) (n : Z) (sq : St * Z) (passes : nat) : option (St * nat) :=
    match fuel with
    | O => None
    | S f => if snd sq <? n then
               let '(s', q', _) := svd_pass n sq in svd_outer f n (s', q') (S passes)
             else Some (fst sq, passes)
    end.
End SvdPass.

(* a concrete toy instance (diagonal-zero flags only) for the examples:
   the state is the list of "diagonal entry is exactly zero" flags; zeroRow(k) clears flag k *)
Definition flags_zero (s : list bool) (k : Z) : bool := if k <? 0 then false else nth (Z.to_nat k) s false.
Fixpoint flags_clear (s : list bool) (k : nat) : list bool :=
  match s, k with
  | [], _ => []
  | _ :: r, O => false :: r
  | b :: r, S k' => b :: flags_clear r k'
  end.
Definition flags_zero_row (s : list bool) (k : Z) : list bool := flags_clear s (Z.to_nat k).
