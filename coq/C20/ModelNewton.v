(* C20 round 7 — newton.go (newton_root / newton_min): the step loop WITH its stagnation test and the outer loop
   around it, and the shape guards of gaussJordan.Run (generic and DenseFloat64 fast paths).

   newton.go, inside `for i := 0; i < maxIterations.Value; i++ { ... }`:
       for { x2.VsubV(x1, t1)
             if Vequals(x1, x2) { return x1, fmt.Errorf("line search failed") }
             if constraints.Value == nil || constraints.Value(x2) { break }
             t1.VmulS(t1, c) }
   The Vequals test comes FIRST: it is reached on every pass, also when no constraints are given.  It is the only
   thing that ends an unconstrained run whose Newton step rounds away (|t1| below half an ulp of x1 while the
   residual stays above epsilon): default MaxIterations is MaxInt.  The line-search branch of newton_min has the same
   test right after its single step (nstep_ls).  No proofs in this file. *)
From Coq Require Import ZArith List Bool.
From ADV Require Import Base.Num C20.Model C20.ModelRetry.
Import ListNotations.

Section Newton.
  Context {A : Type} (N : Num A).
  Fixpoint vsub (x t : list A) : list A :=
    match x, t with
    | a :: x', b :: t' => sub N a b :: vsub x' t'
    | _, _ => []
    end.
  Definition vscale (cc : A) (t : list A) : list A := map (fun a => mul N a cc) t.

  Inductive lres := LStall | LAccept (x2 : list A) | LFuel | LSearchErr.
  (* one pass; inl = the loop is left *)
  Definition nstep_pass (cc : A) (constraints : option (list A -> bool)) (x1 t1 : list A) : lres + list A :=
    let x2 := vsub x1 t1 in
    if all_eqb N x1 x2 then inl LStall
    else match constraints with
         | None => inl (LAccept x2)
         | Some c => if c x2 then inl (LAccept x2) else inr (vscale cc t1)
         end.
  Fixpoint nstep_loop (fuel : nat) (cc : A) (constraints : option (list A -> bool)) (x1 t1 : list A) : lres :=
    match fuel with
    | O => LFuel
    | S f => match nstep_pass cc constraints x1 t1 with
             | inl r => r
             | inr t1' => nstep_loop f cc constraints x1 t1'
             end
    end.
  (* the regression class: the stagnation test sits on the constraint-rejection path only *)
  Definition nstep_pass_late (cc : A) (constraints : option (list A -> bool)) (x1 t1 : list A) : lres + list A :=
    let x2 := vsub x1 t1 in
    match constraints with
    | None => inl (LAccept x2)
    | Some c => if c x2 then inl (LAccept x2)
                else if all_eqb N x1 x2 then inl LStall else inr (vscale cc t1)
    end.
  Fixpoint nstep_loop_late (fuel : nat) (cc : A) (constraints : option (list A -> bool)) (x1 t1 : list A) : lres :=
    match fuel with
    | O => LFuel
    | S f => match nstep_pass_late cc constraints x1 t1 with
             | inl r => r
             | inr t1' => nstep_loop_late f cc constraints x1 t1'
             end
    end.

  (* newton_min, branch `if getPhi != nil` (the only branch the public RunMin reaches), as repaired:
         if alpha, err := lineSearch.Run(phi, ...); err != nil { return x1, err }
         else { t1.VmulS(t1, alpha); x2.VsubV(x1, t1)
                if Vequals(x1, x2) { return x1, fmt.Errorf("line search failed") } }
     search: the line search as an ORACLE (None = it returned an error).  One pass, no inner loop. *)
  Definition nstep_ls (search : list A -> list A -> option A) (x1 t1 : list A) : lres :=
    match search x1 t1 with
    | None => LSearchErr
    | Some alpha => let x2 := vsub x1 (vscale alpha t1) in
                    if all_eqb N x1 x2 then LStall else LAccept x2
    end.
  (* the regression class (the branch before the repair of F-C20-NEWTON-MIN-LS-STALL): no stagnation test *)
  Definition nstep_ls_notest (search : list A -> list A -> option A) (x1 t1 : list A) : lres :=
    match search x1 t1 with
    | None => LSearchErr
    | Some alpha => LAccept (vsub x1 (vscale alpha t1))
    end.

  (* ---- the outer loop.  E: what the objective returned at the current iterate (y, J / g, H); eval None = error.
     conv: hook or norm < epsilon; isnan: the NaN test; direction None = getDirection failed. *)
  Inductive nres := NInvalidStart | NObjErr | NConverged (x : list A) (i : nat) | NNaN (x : list A)
                  | NDirErr | NLineSearchFailed (x : list A) (i : nat) | NCap (x : list A) | NInnerFuel
                  | NSearchErr (x : list A).
  Section Outer.
    Variable E : Type.
    Variable eval : list A -> option E.
    Variables conv isnan : E -> bool.
    Variable direction : E -> option (list A).
    Variable loop : list A -> list A -> lres.     (* the step: nstep_loop / nstep_loop_late / nstep_ls with its parameters *)
    Fixpoint newton_outer (cap : nat) (i : nat) (x1 : list A) (e : E) : nres :=
      match cap with
      | O => NCap x1
      | S cap' =>
          if conv e then NConverged x1 i
          else if isnan e then NNaN x1
          else match direction e with
               | None => NDirErr
               | Some t1 =>
                   match loop x1 t1 with
                   | LStall => NLineSearchFailed x1 i
                   | LFuel => NInnerFuel
                   | LSearchErr => NSearchErr x1
                   | LAccept x2 =>
                       match eval x2 with
                       | None => NObjErr
                       | Some e2 => newton_outer cap' (S i) x2 e2
                       end
                   end
               end
      end.
    Definition newton_run (constraints : option (list A -> bool)) (cap : nat) (x : list A) : nres :=
      if match constraints with Some c => negb (c x) | None => false end then NInvalidStart
      else match eval x with None => NObjErr | Some e => newton_outer cap 0 x e end.
    (* the iterates of a run (the x1 the hook sees) *)
    Fixpoint newton_iterates (cap : nat) (x1 : list A) (e : E) : list (list A) :=
      match cap with
      | O => []
      | S cap' =>
          x1 :: (if conv e || isnan e then []
                 else match direction e with
                      | None => []
                      | Some t1 => match loop x1 t1 with
                                   | LAccept x2 => match eval x2 with
                                                   | Some e2 => newton_iterates cap' x2 e2
                                                   | None => [] end
                                   | _ => [] end
                      end)
      end.
  End Outer.
End Newton.
Arguments LStall {A}. Arguments LFuel {A}. Arguments LAccept {A}. Arguments LSearchErr {A}.

(* ---- gaussJordan.Run: shape guards.  a is n x n (square), submatrix has the default length n; x has xr rows,
   b has bl entries.  0 = runs (no guard fires), 1 = error returned, 2 = panic.
   generic gaussJordan:                 m != n -> error;  b.Dim() != n -> error
   generic gaussJordanUpperTriangular:  m != n -> panic;  b.Dim() != n -> panic
   gaussJordan_DenseFloat64 / gaussJordanUpperTriangular_DenseFloat64:  m != n -> error;  len(b) != n -> error *)
Open Scope Z_scope.
Definition gj_loud (fast tri : bool) : Z := if fast || negb tri then 1 else 2.
Definition gj_guard (fast tri : bool) (n xr bl : Z) : Z :=
  if negb (xr =? n) then gj_loud fast tri
  else if negb (bl =? n) then gj_loud fast tri
  else 0.
(* the regression class: the fast path tests `<` where the generic path tests `!=` *)
Definition gj_guard_weak (n xr bl : Z) : Z :=
  if xr <? n then 1 else if bl <? n then 1 else 0.
Definition gj_valid (n xr bl : Z) : Prop := xr = n /\ bl = n.
