(* C20 — valid use succeeds: for well-formed operands and a valid call the run is Ok, the result has
   the expected shape, and (since every access is checked against the storage length by the model)
   no access leaves [0, len). *)
From Coq Require Import ZArith List Bool Lia.
From ADV Require Import C20.Model C20.Spec C20.ProofsGuard C20.ProofsLoud.
Import ListNotations.
Open Scope Z_scope.

Ltac okstep :=
  repeat first [ apply ok_seq | apply ok_mark | exact ok_ret
               | apply ok_chk; (apply vacc_ok || apply macc_ok); try assumption; try lia ].

Lemma ok_VewV r a b : valid (VewV 0 r a b) = true -> okM (run_VewV r a b).
Proof.
  simpl. intro H. b2p. unfold run_VewV.
  rewrite H, H0, !Z.eqb_refl. simpl. apply ok_forZ. intros k Hk. okstep.
Qed.
Lemma ok_VewS r a : (vdim a =? vdim r) = true -> okM (run_VewS r a).
Proof. intro H. unfold run_VewS. rewrite H. simpl. b2p. apply ok_forZ. intros k Hk. okstep. Qed.
Lemma ok_VSet r a : (vdim a =? vdim r) = true -> okM (run_VSet r a).
Proof.
  intro H. unfold run_VSet. rewrite Z.eqb_sym, H. simpl. b2p. apply ok_forZ. intros k Hk. okstep.
Qed.
Lemma ok_VMdotV r a b al : mwf a -> valid (VMdotV r a b al) = true -> okM (run_VMdotV r a b al).
Proof.
  intros W. simpl. unfold empty. intro H. b2p. unfold run_VMdotV. rewrite H, H1, !Z.eqb_refl. simpl.
  destruct ((rows a =? 0) || (cols a =? 0)) eqn:E; [exact ok_ret|].
  rewrite orb_false_r in H0. b2p. subst al. destruct W as (Hr & Hc & Wrest).
  assert (W : mwf a) by (unfold mwf; tauto).
  okstep. apply ok_forZ. intros i Hi. okstep. apply ok_forZ. intros j Hj. okstep.
Qed.
Lemma ok_VVdotM r a b al : mwf b -> valid (VVdotM r a b al) = true -> okM (run_VVdotM r a b al).
Proof.
  intros W. simpl. unfold empty. intro H. b2p. unfold run_VVdotM. rewrite H, H1, !Z.eqb_refl. simpl.
  destruct ((rows b =? 0) || (cols b =? 0)) eqn:E; [exact ok_ret|].
  rewrite orb_false_r in H0. b2p. subst al. destruct W as (Hr & Hc & Wrest).
  assert (W : mwf b) by (unfold mwf; tauto).
  okstep. apply ok_forZ. intros i Hi. okstep. apply ok_forZ. intros j Hj. okstep.
Qed.
Lemma ok_VSlice r i j : vwf r -> valid (VSlice r i j) = true -> okM (run_VSlice r i j).
Proof.
  intros [W1 W2]. simpl. intro H. b2p. unfold run_VSlice.
  destruct (is_sparse (vk r)) eqn:E; [exact ok_ret|]. specialize (W2 eq_refl).
  replace ((0 <=? i) && (i <=? j) && (j <=? vcap r)) with true; [exact ok_ret|].
  symmetry. rewrite !andb_true_iff, !Z.leb_le. lia.
Qed.
Lemma ok_VSwap r i j : valid (VSwap r i j) = true -> okM (run_VSwap r i j).
Proof.
  simpl. intro H. b2p. unfold run_VSwap. destruct (is_sparse (vk r)).
  - apply ok_when, ok_mark.
  - okstep. apply ok_when, ok_mark.
Qed.
Lemma ok_VAsMatrix r n m : valid (VAsMatrix r n m) = true -> okM (run_VAsMatrix r n m).
Proof.
  simpl. intro H. b2p. unfold run_VAsMatrix. rewrite H0, Z.eqb_refl. simpl.
  destruct (vk r); try exact ok_ret.
  replace ((n <? 0) || (m <? 0)) with false; [exact ok_ret|].
  symmetry. apply orb_false_iff. rewrite !Z.ltb_ge. lia.
Qed.

Lemma dims_eqb_true a b : dims_eqb a b = true -> rows a = rows b /\ cols a = cols b.
Proof. unfold dims_eqb. intro H. b2p. tauto. Qed.
Lemma ok_for2 n m body : (forall i j, 0 <= i < n -> 0 <= j < m -> okM (body i j)) -> okM (for2 n m body).
Proof. intro H. unfold for2. apply ok_forZ. intros i Hi. apply ok_forZ. intros j Hj. apply H; assumption. Qed.
Lemma ok_MewM r a b : mwf r -> mwf a -> mwf b -> dims_eqb a r && dims_eqb b r = true -> okM (run_MewM r a b).
Proof.
  intros Wr Wa Wb H. apply andb_true_iff in H. destruct H as [H1 H2]. unfold run_MewM. rewrite H1, H2. simpl.
  apply dims_eqb_true in H1. apply dims_eqb_true in H2. destruct H1, H2.
  apply ok_for2. intros i j Hi Hj. okstep.
Qed.
Lemma ok_MewS r a : mwf r -> mwf a -> dims_eqb a r = true -> okM (run_MewS r a).
Proof.
  intros Wr Wa H. unfold run_MewS. rewrite H. simpl. apply dims_eqb_true in H. destruct H.
  apply ok_for2. intros i j Hi Hj. okstep.
Qed.
Lemma ok_MSet r a : mwf r -> mwf a -> dims_eqb a r = true -> okM (run_MSet r a).
Proof.
  intros Wr Wa H. unfold run_MSet. rewrite dims_eqb_sym, H. simpl. apply dims_eqb_true in H. destruct H.
  apply ok_for2. intros i j Hi Hj. okstep.
Qed.
Lemma ok_MOuter r a b : mwf r -> (vdim a =? rows r) && (vdim b =? cols r) = true -> okM (run_MOuter r a b).
Proof.
  intros Wr H. unfold run_MOuter. b2p. rewrite H, H0, !Z.eqb_refl. simpl.
  apply ok_for2. intros i j Hi Hj. okstep.
Qed.
Lemma storage_ok m : 0 < mlen m -> storage_loc m = KOk.
Proof. intro H. unfold storage_loc. replace (0 <? mlen m) with true; [reflexivity|]. symmetry. apply Z.ltb_lt. exact H. Qed.
Lemma ok_MdotM r a b al : mwf r -> mwf a -> mwf b -> total (MdotM r a b al) = true ->
  valid (MdotM r a b al) = true -> okM (run_MdotM r a b al).
Proof.
  intros Wr Wa Wb T. simpl in T. simpl. intro H. unfold run_MdotM.
  apply andb_true_iff in T. destruct T as [T Tb]. apply andb_true_iff in T. destruct T as [Tr Ta].
  apply andb_true_iff in H. destruct H as [H Hal]. apply andb_true_iff in H. destruct H as [H E3].
  apply andb_true_iff in H. destruct H as [E1 E2].
  rewrite E1, E2, E3. simpl. b2p.
  destruct (is_sparse (mk r)) eqn:Es.
  - rewrite andb_true_r in Hal. subst al.
    repeat (apply ok_seq; [apply ok_chk, storage_ok; assumption|]). apply ok_when, ok_mark.
  - apply ok_seq; [apply ok_chk, storage_ok; assumption|].
    apply ok_seq; [apply ok_chk, storage_ok; assumption|].
    destruct al.
    + apply ok_forZ. intros j Hj. apply ok_seq.
      * apply ok_forZ. intros i Hi. apply ok_forZ. intros k Hk. okstep.
      * apply ok_forZ. intros i Hi. okstep.
    + apply ok_forZ. intros i Hi. apply ok_seq.
      * apply ok_forZ. intros j Hj. apply ok_forZ. intros k Hk. okstep.
      * apply ok_forZ. intros j Hj. okstep.
Qed.
Lemma ok_MAt r i j : mwf r -> inb i (rows r) && inb j (cols r) = true -> okM (chk (macc r i j)).
Proof. intros W H. b2p. okstep. Qed.
Lemma ok_MSlice r a b c d : valid (MSlice r a b c d) = true -> okM (run_MSlice r a b c d).
Proof.
  simpl. intro H. b2p. unfold run_MSlice. destruct (mk r); try exact ok_ret.
  replace ((b - a <? 0) || (d - c <? 0)) with false; [exact ok_ret|].
  symmetry. apply orb_false_iff. rewrite !Z.ltb_ge. lia.
Qed.
Lemma alloc_ok k n : 0 <= n -> alloc_vec k n = KOk.
Proof. intro H. unfold alloc_vec. replace (n <? 0) with false; [reflexivity|]. symmetry. apply Z.ltb_ge. exact H. Qed.
Lemma ok_MRow r i : mwf r -> inb i (rows r) = true -> okM (run_MRow r i).
Proof.
  intros W H. b2p. unfold run_MRow. pose proof W as (Hr & Hc & _).
  apply ok_seq; [apply ok_chk, alloc_ok; assumption|]. apply ok_forZ. intros j Hj. okstep.
Qed.
Lemma ok_MCol r j : mwf r -> inb j (cols r) = true -> okM (run_MCol r j).
Proof.
  intros W H. b2p. unfold run_MCol. pose proof W as (Hr & Hc & _).
  apply ok_seq; [apply ok_chk, alloc_ok; assumption|]. apply ok_forZ. intros i Hi. okstep.
Qed.
Lemma ok_MDiag r : mwf r -> square r = true -> okM (run_MDiag r).
Proof.
  unfold square. intros W H. unfold run_MDiag. rewrite H. simpl. b2p. pose proof W as (Hr & Hc & _).
  apply ok_seq; [apply ok_chk, alloc_ok; assumption|]. apply ok_forZ. intros i Hi. okstep.
Qed.
Lemma sto_chk_ok r i j : mwf r -> 0 <= i < rows r -> 0 <= j < cols r -> sto_chk r (mindex r i j) = KOk.
Proof.
  intros W Hi Hj. unfold sto_chk. destruct (is_sparse (mk r)); [reflexivity|].
  replace (inb (mindex r i j) (mlen r)) with true; [reflexivity|].
  symmetry. apply inb_true, mindex_in_bounds; assumption.
Qed.
Lemma ok_MSwap r i1 j1 i2 j2 : mwf r ->
  0 <= i1 < rows r -> 0 <= j1 < cols r -> 0 <= i2 < rows r -> 0 <= j2 < cols r -> okM (run_MSwap r i1 j1 i2 j2).
Proof.
  intros W A B C D. unfold run_MSwap.
  apply ok_seq. { apply ok_chk, idx_chk_ok. apply andb_true_iff; split; apply inb_true; assumption. }
  apply ok_seq. { apply ok_chk, idx_chk_ok. apply andb_true_iff; split; apply inb_true; assumption. }
  apply ok_seq. { apply ok_chk, sto_chk_ok; assumption. }
  apply ok_seq. { apply ok_chk, sto_chk_ok; assumption. }
  apply ok_when, ok_mark.
Qed.
Lemma ok_MSwapRows r i j : mwf r -> valid (MSwapRows r i j) = true -> okM (run_MSwapRows r i j).
Proof.
  simpl. unfold square. intros W H. b2p. unfold run_MSwapRows. rewrite H, Z.eqb_refl. simpl.
  apply ok_forZ. intros k Hk. apply ok_MSwap; try assumption; lia.
Qed.
Lemma ok_MSwapCols r i j : mwf r -> valid (MSwapCols r i j) = true -> okM (run_MSwapCols r i j).
Proof.
  simpl. unfold square. intros W H. b2p. unfold run_MSwapCols. rewrite H, Z.eqb_refl. simpl.
  apply ok_forZ. intros k Hk. apply ok_MSwap; try assumption; lia.
Qed.
Lemma ok_MNewDense k L r c : valid (MNewDense k L r c) = true -> okM (run_MNewDense k L r c).
Proof.
  simpl. intro H. apply andb_true_iff in H. destruct H as [_ H]. unfold run_MNewDense.
  destruct k; try exact ok_ret. rewrite orb_comm, H. exact ok_ret.
Qed.
Lemma ok_SSetVar n0 o0 i n order : valid (SSetVar n0 o0 i n order) = true -> okM (run_SSetVar n0 o0 i n order).
Proof.
  simpl. intro H. b2p. unfold run_SSetVar.
  replace (2 <? order) with false by (symmetry; apply Z.ltb_ge; lia).
  apply ok_seq; [apply ok_when, ok_mark|].
  apply ok_seq; [apply ok_when, ok_mark|].
  destruct (0 <? order) eqn:E; simpl; [|exact ok_ret].
  apply orb_true_iff in H0. destruct H0 as [H0|H0]; b2p; [lia|].
  replace (inb i n) with true by (symmetry; apply inb_true; assumption). exact ok_mark.
Qed.
Lemma ok_SDyadic al nc oc na oa nb ob : total (SDyadic al nc oc na oa nb ob) = true ->
  valid (SDyadic al nc oc na oa nb ob) = true -> okM (run_SDyadic al nc oc na oa nb ob).
Proof.
  simpl. intros T V. unfold run_SDyadic. cbv zeta. apply ok_seq; [apply ok_when, ok_mark|].
  apply negb_true_iff in V.
  assert (V' : ~ (1 <= oa /\ 1 <= ob /\ na <> nb)).
  { intros (A & B & C). apply Z.leb_le in A. apply Z.leb_le in B. apply Z.eqb_neq in C.
    rewrite A, B, C in V. discriminate. }
  apply andb_true_iff in T. destruct T as [T T4]. apply andb_true_iff in T. destruct T as [T T3].
  apply andb_true_iff in T. destruct T as [T1 T2].
  apply Z.leb_le in T1. apply Z.leb_le in T2.
  assert (T3' : 1 <= oa \/ na = 0) by (apply orb_true_iff in T3; destruct T3 as [X|X]; [left; apply Z.leb_le | right; apply Z.eqb_eq]; exact X).
  assert (T4' : 1 <= ob \/ nb = 0) by (apply orb_true_iff in T4; destruct T4 as [X|X]; [left; apply Z.leb_le | right; apply Z.eqb_eq]; exact X).
  clear V T3 T4.
  destruct (Z.max_spec na nb) as [[M1 Em]|[M1 Em]]; destruct (Z.max_spec oa ob) as [[M2 Eo]|[M2 Eo]];
    rewrite Em, Eo; destruct (al =? 1); destruct (al =? 2);
    cmp_cases; first [exact ok_mark | exfalso; lia].
Qed.

Lemma ok_AEntry alg r c opt : entry_valid alg r c opt = true -> run_AEntry alg r c opt = KOk.
Proof.
  unfold entry_valid, run_AEntry.
  alg_case alg 0. alg_case alg 1. alg_case alg 2. alg_case alg 3. alg_case alg 4. alg_case alg 5.
  alg_case alg 6. alg_case alg 7. alg_case alg 8. alg_case alg 9. alg_case alg 10. alg_case alg 13.
  alg_case alg 14. alg_case alg 15. alg_case alg 16.
  repeat match goal with H : alg <> ?k |- _ => apply Z.eqb_neq in H; rewrite H; clear H end.
  simpl. reflexivity.
Qed.

(* ------------------------------------------------------------------ the theorem *)
Theorem valid_ok_all c :
  wf_call c -> ok_covered c = true -> total c = true -> valid c = true ->
  kind_of c = KOk /\ shape_of c = expected_shape c.
Proof.
  intros W C T V.
  assert (E : out_shape c = expected_shape c) by (destruct c; reflexivity).
  rewrite <- E. apply run_of_ok.
  destruct c; simpl body; simpl in W; try discriminate C.
  - apply ok_VewV. exact V.
  - apply ok_VewS. exact V.
  - destruct W as (? & ? & ?). apply ok_VMdotV; assumption.
  - destruct W as (? & ? & ?). apply ok_VVdotM; assumption.
  - apply ok_VSet. exact V.
  - simpl in V. b2p. okstep.
  - apply ok_VSlice; assumption.
  - apply ok_VSwap; assumption.
  - apply ok_VAsMatrix; assumption.
  - destruct W as (? & ? & ?). apply ok_MewM; assumption.
  - destruct W as (? & ?). apply ok_MewS; assumption.
  - destruct W as (? & ? & ?). apply ok_MdotM; assumption.
  - destruct W as (? & ? & ?). apply ok_MOuter; assumption.
  - destruct W as (? & ?). apply ok_MSet; assumption.
  - apply ok_MAt; assumption.
  - apply ok_MSlice; assumption.
  - apply ok_MRow; assumption.
  - apply ok_MCol; assumption.
  - apply ok_MDiag; assumption.
  - simpl in V. b2p. apply ok_MSwap; assumption.
  - apply ok_MSwapRows; assumption.
  - apply ok_MSwapCols; assumption.
  - apply ok_MNewDense; assumption.
  - apply ok_SSetVar; assumption.
  - apply ok_SDyadic; assumption.
  - apply ok_chk, ok_AEntry. exact V.
Qed.
