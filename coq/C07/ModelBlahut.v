(* C07 (round 3) — oracle-machine model of /repo/algorithm/blahut: blahut (blahut.go, on
   Vector/Scalar) and blahutNaive (blahut_naive.go, on float64 slices).  Both are
     for k := 0; k < steps; k++ { compute_q; compute_r; compute_J; compute_p
                                  if hook != nil && hook(p, J) { break } }
     return p
   The body (q from p, r from q, J = log2 sum r, then p updated from r, with math.Log /
   Exp / Pow) is the oracle BSTEP: the k-th external call, made on the current p, answers
   (J, p') = (capacity bound computed FROM p, next distribution).  There is NO stop test in
   the code: a run ends at the step cap or on a hook stop.  The hook receives the UPDATED
   distribution p' together with the J that was computed from the PREVIOUS p.
   No proofs in this file. *)
From Coq Require Import ZArith List Bool.
From ADV Require Import Base.Num.
Import ListNotations.
Open Scope Z_scope.

Section ModelBlahut.
Context {A : Type}.
Notation vec := (list A).

Inductive bl_event :=
| BvStep (p : vec) (J : A) (p' : vec)
| BvHook (p : vec) (J : A) (stop : bool).
Definition bl_trace := list bl_event.

Variable BSTEP : nat -> vec -> A * vec.
Variable BHK : nat -> vec -> A -> bool.

Record bl_params := mkBl { bl_steps : Z; bl_hook : bool }.
Inductive bl_out := BlHook (p : vec) | BlCap (p : vec) | BlFuel.

Fixpoint bl_loop (P : bl_params) (fuel : nat) (k : Z) (p : vec) (tr : bl_trace) : bl_out * bl_trace :=
  match fuel with
  | O => (BlFuel, tr)
  | S f =>
    if k <? bl_steps P then
      let a := BSTEP (length tr) p in
      let J := fst a in let p' := snd a in
      let tr1 := BvStep p J p' :: tr in
      if bl_hook P then
        let stop := BHK (length tr1) p' J in
        let tr2 := BvHook p' J stop :: tr1 in
        if stop then (BlHook p', tr2) else bl_loop P f (k + 1) p' tr2
      else bl_loop P f (k + 1) p' tr1
    else (BlCap p, tr)
  end.

Definition blahut (P : bl_params) (fuel : nat) (p_init : vec) : bl_out * bl_trace :=
  bl_loop P fuel 0 p_init [].

Definition bv_is_step (e : bl_event) : bool := match e with BvStep _ _ _ => true | _ => false end.
Definition bv_is_hook (e : bl_event) : bool := match e with BvHook _ _ _ => true | _ => false end.
Definition bl_n_steps (tr : bl_trace) : nat := length (filter bv_is_step tr).
Definition bl_n_hooks (tr : bl_trace) : nat := length (filter bv_is_hook tr).

End ModelBlahut.
Arguments BvStep {A}. Arguments BvHook {A}. Arguments BlHook {A}. Arguments BlCap {A}. Arguments BlFuel {A}.
