(* C07 (round 3) — oracle-machine model of newton_min in /repo/algorithm/newton/newton.go,
   reached through newton.RunMin (getPhi != nil: every step goes through lineSearch.Run
   with Parameters{1, 20} and the closure constraints_line) and, with getPhi == nil
   (only reachable inside the package; exercised through the add-only hook
   /repo/algorithm/newton/verif_c07.go), through newton_min's own back-tracking loop.

   Oracles (Section variables): the k-th external call of a run (k = number of external
   calls made before) is answered by
     MF k x            the objective through AD (Variables(2)) at x: error flag, y, g, H
     MPHI k x p alpha  the line-search objective phi(alpha) = f_(x - p*alpha) with alpha
                       the only independent variable: error flag, value, d/dalpha
     ND k mode g H     getDirection(t1, g, H, hessianModification) (as in ModelNewton.v)
     MHK k h           the hook (x, g, H, y)
     NCS k x           the constraint callback.
   The code that exists, quirks included: constraints_line(alpha) does
       t1.VmulS(t1, alpha); x2.VsubV(x1, t1); return constraints.Value(x2)
   on the SHARED direction buffer t1 that phi reads, so every constraint query of the
   line search rescales the search direction in place (cumulatively).
   All arithmetic goes through the carrier record in Go's operation order.  No proofs. *)
From Coq Require Import ZArith List Bool.
From ADV Require Import Base.Num C07.Model C07.ModelNewton.
Import ListNotations.
Open Scope Z_scope.

Section ModelNewtonMin.
Context {A : Type} (NM : Num A).
Variable K : consts (A := A).     (* c1, c2, 0.5, 2.0 of lineSearch.go *)

Local Infix "*." := (mul NM) (at level 40, left associativity).
Local Infix "<." := (ltb NM) (at level 70).
Local Infix "<=." := (leb NM) (at level 70).
Local Infix "==." := (eqb NM) (at level 70).
Local Notation zr := (zero NM).

Notation vec := (list A).
Notation mat := (list (list A)).

Record nm_answer := mkNmAns { m_err : bool; m_y : A; m_g : vec; m_H : mat }.
Record phi_answer := mkPhiAns { p_err : bool; p_y : A; p_d : A }.
Record nm_hookargs := mkNmHook { mh_x : vec; mh_g : vec; mh_H : mat; mh_y : A }.

Inductive nm_event :=
| MvEval (x : vec) (a : nm_answer)
| MvPhi (x p : vec) (alpha : A) (a : phi_answer)
| MvDir (mode : Z) (g : vec) (H : mat) (d : dir_ans (A := A))
| MvHook (h : nm_hookargs) (stop : bool)
| MvCons (x : vec) (ok : bool).
Definition nm_trace := list nm_event.

Variable MF : nat -> vec -> nm_answer.
Variable MPHI : nat -> vec -> vec -> A -> phi_answer.
Variable ND : nat -> Z -> vec -> mat -> dir_ans (A := A).
Variable MHK : nat -> nm_hookargs -> bool.
Variable NCS : nat -> vec -> bool.

Inductive nm_err :=
| MEInit          (* "invalid initial value";                                   returns x1  *)
| MEObj           (* the objective f returned an error;                         returns nil *)
| MENaN           (* "NaN value detected": the norm of g is NaN;                returns x1  *)
| MEDir           (* getDirection returned an error;                            returns nil *)
| MEBacktrack     (* getPhi == nil: "line search failed", the back-tracking loop
                     shrank the step until x1 - t1 == x1;                       returns x1  *)
| MELineSearch.   (* getPhi != nil: lineSearch.Run returned an error (an error of phi,
                     or "line search failed": a trial step length 0), or the step it
                     chose rounds away, x1 - alpha t1 == x1 (newton_min's own
                     "line search failed" of this branch);                     returns x1  *)

Inductive nm_out :=
| NmConv (x : vec) | NmHook (x : vec) | NmCap (x : vec)
| NmErr (e : nm_err) (x : vec)
| NmPanic | NmFuel.

Record nm_params := mkNm {
  nm_eps : A; nm_maxit : Z; nm_hook : bool; nm_cons : bool; nm_mode : Z;
  nm_c : A;         (* c := ConstFloat64(0.9) *)
  nm_phi : bool;    (* getPhi != nil (RunMin: always) *)
  nm_alpha1 : A;    (* lineSearch.Parameters{1, 20}.Alpha1 *)
  nm_maxeval : Z    (* lineSearch.Parameters{1, 20}.MaxEval *)
}.

Section NewtonMin.
Variable P : nm_params.

(* ---------------------------------------------------------------- getPhi == nil *)
Inductive mbt_res := MBTFuel | MBTFail (tr : nm_trace) | MBTOk (x2 : vec) (tr : nm_trace).

Fixpoint nm_backtrack (fuel : nat) (x1 t1 : vec) (tr : nm_trace) : mbt_res :=
  match fuel with
  | O => MBTFuel
  | S f =>
    let x2 := vsub NM x1 t1 in
    if vequal NM x1 x2 then MBTFail tr
    else if nm_cons P then
      let ok := NCS (length tr) x2 in
      let tr1 := MvCons x2 ok :: tr in
      if ok then MBTOk x2 tr1 else nm_backtrack f x1 (vmuls NM t1 (nm_c P)) tr1
    else MBTOk x2 tr
  end.

(* ---------------------------------------------------------------- getPhi != nil:
   lineSearch.lineSearch / zoom on phi = getPhi(x1, t1) with constraints_line.
   x1 is fixed; t1 is the shared buffer (state). *)
Section LS.
Variable x1 : vec.

Inductive mls_res :=
| MLSFuel
| MLS (err : bool) (alpha : A) (t1 : vec) (tr : nm_trace).

(* zoom never calls the constraints: t1 is fixed inside *)
Fixpoint nm_zoom (fuel : nat) (i maxEval : Z) (t1 : vec) (alo ahi y0 ylo yhi g0 glo alast : A)
  (tr : nm_trace) : mls_res :=
  match fuel with
  | O => MLSFuel
  | S f =>
    if i <? maxEval then
      let aj := zoom_pick NM K alo ahi ylo yhi glo in
      if aj ==. zr then MLS true aj t1 tr
      else
        let a := MPHI (length tr) x1 t1 aj in
        let tr1 := MvPhi x1 t1 aj a :: tr in
        if p_err a then MLS true zr t1 tr1
        else
          let yj := p_y a in
          let gj := p_d a in
          if armijo_fails NM K y0 g0 aj yj || (ylo <=. yj) then
            nm_zoom f (i + 1) maxEval t1 alo aj y0 ylo yj g0 glo aj tr1
          else if curvature_ok NM K g0 gj then MLS false aj t1 tr1
          else if zr <=. gj *. (sub NM ahi alo) then
            nm_zoom f (i + 1) maxEval t1 aj alo y0 yj ylo g0 gj aj tr1
          else
            nm_zoom f (i + 1) maxEval t1 aj ahi y0 yj yhi g0 gj aj tr1
    else MLS false alast t1 tr
  end.

Definition nm_zoom_entry (fuel : nat) (maxEval : Z) (t1 : vec) (alo ahi y0 ylo yhi g0 glo : A)
  (tr : nm_trace) : mls_res :=
  if maxEval <=? 0 then MLS false (qmin NM K alo ylo glo ahi yhi) t1 tr
  else nm_zoom fuel 0 maxEval t1 alo ahi y0 ylo yhi g0 glo zr tr.

(* "for !constraints(alpha_j) { alpha_j *= 0.5 }" with constraints = constraints_line:
   each call first rescales t1 by alpha_j *)
Fixpoint nm_cons_loop (fuel : nat) (aj : A) (t1 : vec) (tr : nm_trace) : option (A * vec * nm_trace) :=
  match fuel with
  | O => None
  | S f =>
    let t1' := vmuls NM t1 aj in
    let x2 := vsub NM x1 t1' in
    let ok := NCS (length tr) x2 in
    let tr1 := MvCons x2 ok :: tr in
    if ok then Some (aj, t1', tr1) else nm_cons_loop f (aj *. k_half K) t1' tr1
  end.

Fixpoint nm_ls_loop (fuel : nat) (i maxEval : Z) (y0 g0 yi gi ai aj : A) (t1 : vec) (tr : nm_trace)
  : mls_res :=
  match fuel with
  | O => MLSFuel
  | S f =>
    if i <? maxEval then
      if aj ==. zr then MLS true zr t1 tr
      else
        match (if nm_cons P then nm_cons_loop f aj t1 tr else Some (aj, t1, tr)) with
        | None => MLSFuel
        | Some (aj, t1, tr0) =>
          let a := MPHI (length tr0) x1 t1 aj in
          let tr1 := MvPhi x1 t1 aj a :: tr0 in
          if p_err a then MLS true zr t1 tr1
          else
            let yj := p_y a in
            let gj := p_d a in
            if armijo_fails NM K y0 g0 aj yj || ((yi <=. yj) && (0 <? i)) then
              nm_zoom_entry f (maxEval - i) t1 ai aj y0 yi yj g0 gi tr1
            else if curvature_ok NM K g0 gj then MLS false aj t1 tr1
            else if zr <=. gj then
              nm_zoom_entry f (maxEval - i) t1 aj ai y0 yj yi g0 gj tr1
            else
              nm_ls_loop f (i + 1) maxEval y0 g0 yj gj aj (k_two K *. aj) t1 tr1
        end
    else MLS false ai t1 tr
  end.

Definition nm_line_search (fuel : nat) (t1 : vec) (tr : nm_trace) : mls_res :=
  let a0 := MPHI (length tr) x1 t1 zr in
  let tr1 := MvPhi x1 t1 zr a0 :: tr in
  if p_err a0 then MLS true zr t1 tr1
  else nm_ls_loop fuel 0 (nm_maxeval P) (p_y a0) (p_d a0) (p_y a0) (p_d a0) zr (nm_alpha1 P) t1 tr1.
End LS.

(* ---------------------------------------------------------------- from direction to next point *)
Inductive madv_res :=
| MAdvStop (o : nm_out) (tr : nm_trace)
| MAdvNext (x2 : vec) (a : nm_answer) (tr : nm_trace).

Definition nm_eval_next (x2 : vec) (tr : nm_trace) : madv_res :=
  let a := MF (length tr) x2 in
  let tr1 := MvEval x2 a :: tr in
  if m_err a then MAdvStop (NmErr MEObj []) tr1 else MAdvNext x2 a tr1.

Definition nm_advance (fuel : nat) (x1 t1 : vec) (tr : nm_trace) : madv_res :=
  if nm_phi P then
    match nm_line_search x1 fuel t1 tr with
    | MLSFuel => MAdvStop NmFuel tr
    | MLS true _ _ tr1 => MAdvStop (NmErr MELineSearch x1) tr1
    | MLS false alpha t1' tr1 =>
        (* t1.VmulS(t1, alpha); x2.VsubV(x1, t1)
           if Vequals(x1, x2) { return x1, fmt.Errorf("line search failed") }   (stagnation test of this branch) *)
        let x2 := vsub NM x1 (vmuls NM t1' alpha) in
        if vequal NM x1 x2 then MAdvStop (NmErr MELineSearch x1) tr1
        else nm_eval_next x2 tr1
    end
  else
    match nm_backtrack fuel x1 t1 tr with
    | MBTFuel => MAdvStop NmFuel tr
    | MBTFail tr1 => MAdvStop (NmErr MEBacktrack x1) tr1
    | MBTOk x2 tr1 => nm_eval_next x2 tr1
    end.

Fixpoint nm_loop (fuel : nat) (i : Z) (x1 : vec) (a : nm_answer) (tr : nm_trace)
  : nm_out * nm_trace :=
  match fuel with
  | O => (NmFuel, tr)
  | S f =>
    if i <? nm_maxit P then
      let g := m_g a in
      let H := m_H a in
      let h := mkNmHook x1 g H (m_y a) in
      let stop := if nm_hook P then MHK (length tr) h else false in
      let tr1 := if nm_hook P then MvHook h stop :: tr else tr in
      if stop then (NmHook x1, tr1)
      else
        let t2 := norm NM g in
        if t2 <. nm_eps P then (NmConv x1, tr1)
        else if is_nan NM t2 then (NmErr MENaN x1, tr1)
        else if negb (nw_mode_valid (nm_mode P)) then (NmPanic, tr1)
        else
          let d := ND (length tr1) (nm_mode P) g H in
          let tr2 := MvDir (nm_mode P) g H d :: tr1 in
          match d with
          | DirErr => (NmErr MEDir [], tr2)
          | DirPanic => (NmPanic, tr2)
          | DirOk t1 =>
              match nm_advance f x1 t1 tr2 with
              | MAdvStop o tr3 => (o, tr3)
              | MAdvNext x2 a' tr3 => nm_loop f (i + 1) x2 a' tr3
              end
          end
    else (NmCap x1, tr)
  end.

Definition newton_min (fuel : nat) (x0 : vec) : nm_out * nm_trace :=
  let x1 := x0 in
  let ok := if nm_cons P then NCS 0 x1 else true in
  let tr0 := if nm_cons P then [MvCons x1 ok] else [] in
  if negb ok then (NmErr MEInit x1, tr0)
  else
    let a := MF (length tr0) x1 in
    let tr1 := MvEval x1 a :: tr0 in
    if m_err a then (NmErr MEObj [], tr1)
    else nm_loop fuel 0 x1 a tr1.

End NewtonMin.

Definition nm_outcome (o : nm_out) : outcome (A := A) :=
  match o with
  | NmConv x => Converged x | NmHook x => HookStop x | NmCap x => Cap x
  | NmErr _ x => Err x | NmPanic => Panicked | NmFuel => OutOfFuel
  end.
Definition nm_is_err (o : nm_out) : bool := match o with NmErr _ _ => true | _ => false end.

End ModelNewtonMin.

Arguments mkNmAns {A}. Arguments m_err {A}. Arguments m_y {A}. Arguments m_g {A}. Arguments m_H {A}.
Arguments mkPhiAns {A}. Arguments p_err {A}. Arguments p_y {A}. Arguments p_d {A}.
Arguments mkNmHook {A}. Arguments mh_x {A}. Arguments mh_g {A}. Arguments mh_H {A}. Arguments mh_y {A}.
Arguments MvEval {A}. Arguments MvPhi {A}. Arguments MvDir {A}. Arguments MvHook {A}. Arguments MvCons {A}.
Arguments NmConv {A}. Arguments NmHook {A}. Arguments NmCap {A}. Arguments NmErr {A}.
Arguments NmPanic {A}. Arguments NmFuel {A}.
Arguments mkNm {A}.
Arguments MBTFuel {A}. Arguments MBTFail {A}. Arguments MBTOk {A}.
Arguments MLSFuel {A}. Arguments MLS {A}.
Arguments MAdvStop {A}. Arguments MAdvNext {A}.
