(* C07 (round 4) — oracle-machine model of sagaJit (/repo/algorithm/saga/saga_jit.go), the
   variant saga.Run dispatches to when a JitUpdate{&JitUpdateL1{lambda}} option is given
   (objective Objective1Sparse: (y, w, g) with a sparse constant data vector g).  The
   coordinates of x1 a sample's data vector does not touch are not updated in the inner step;
   the missing "just in time" L1 steps (JitUpdateL1.Update) are caught up when the coordinate
   is next needed (xk[k] holds the inner index of its last update) and at the end of the epoch.
   Same oracles, gradient table, stop test (EvalStopping: [sg_eval_stop], the walk over ALL
   coordinates), hook and outcome type as ModelSaga.v.  The parameter record is [sg_params]
   with sg_prox_op = PL1 lambda (the JitUpdateL1's constant BEFORE the rescaling
   SetLambda(gamma*lambda/n)), sg_two = false, sg_sparse = true.  No proofs in this file. *)
From Coq Require Import ZArith List Bool.
From ADV Require Import Base.Num C07.Model C07.ModelSaga.
Import ListNotations.
Open Scope Z_scope.

Section ModelSagaJit.
Context {A : Type} (NM : Num A).

Local Infix "+." := (add NM) (at level 50, left associativity).
Local Infix "-." := (sub NM) (at level 50, left associativity).
Local Infix "*." := (mul NM) (at level 40, left associativity).
Local Infix "/." := (div NM) (at level 40, left associativity).
Local Infix "<." := (ltb NM) (at level 70).
Local Infix "==." := (eqb NM) (at level 70).
Local Notation zr := (zero NM).
Local Notation on := (one NM).
Notation vec := (list A).

Variable SF : nat -> nat -> vec -> sg_answer (A := A).
Variable RJ : nat -> nat.
Variable SHK : nat -> sg_hookargs (A := A) -> bool.
Variable P : sg_params (A := A).

Local Notation tn := (sg_tn NM P).
Local Notation gam := (sg_gamma P).

(* jit.GetLambda() after the rescaling *)
Definition jit_lam : A := match sg_lambda NM P with Some l => l | None => zr end.

(* JitUpdateL1.update(w, k, n): sign(w)*max{|w| - n*lambda, 0} *)
Definition jit_upd1 (w : A) (n : Z) : A :=
  let l := of_Z NM n *. jit_lam in
  if w <. zr then (if neg NM w <. l then zr else w +. l)
  else (if w <. l then zr else w -. l).
Fixpoint jit_rep (m : nat) (x y : A) : A :=
  match m with O => x | S m' => jit_rep m' (jit_upd1 (x -. y) 1) y end.
(* JitUpdateL1.Update(x, y, k, m) *)
Definition jit_update (x y : A) (m : Z) : A :=
  if y <. jit_lam then jit_upd1 (x -. of_Z NM m *. y) m else jit_rep (Z.to_nat m) x y.

(* an entry of a SparseConstFloat64Vector is stored iff it is non-zero *)
Definition stored (g : A) : bool := negb (g ==. zr).

(* "perform jit updates for all x_i where g_i != 0": m := i_ - xk[k]; m > 0 *)
Fixpoint jit_catch (i_ : Z) (x1 s g1 : vec) (xk : list Z) : vec :=
  match x1, s, g1, xk with
  | x :: x1', sk :: s', g :: g1', k :: xk' =>
      (if stored g && (0 <? i_ - k) then jit_update x (gam *. sk /. tn) (i_ - k) else x)
      :: jit_catch i_ x1' s' g1' xk'
  | _, _, _, _ => x1
  end.
(* x1[k] = x1[k] - t_g*(1.0 - 1.0/t_n)*c*v[i]; xk[k] = i_   over the stored entries of g1 *)
Fixpoint jit_step (c : A) (x1 g1 : vec) : vec :=
  match x1, g1 with
  | x :: x1', g :: g1' =>
      (if stored g then x -. gam *. (on -. on /. tn) *. c *. g else x) :: jit_step c x1' g1'
  | _, _ => x1
  end.
Fixpoint jit_mark (i_ : Z) (g1 : vec) (xk : list Z) : list Z :=
  match g1, xk with
  | g :: g1', k :: xk' => (if stored g then i_ else k) :: jit_mark i_ g1' xk'
  | _, _ => xk
  end.
(* "compute missing updates of x1": m := n - xk[k]; m > 0 *)
Fixpoint jit_finish (x1 s : vec) (xk : list Z) : vec :=
  match x1, s, xk with
  | x :: x1', sk :: s', k :: xk' =>
      let m := Z.of_nat (sg_n P) - k in
      (if 0 <? m then jit_update x (gam *. sk /. tn) m else x) :: jit_finish x1' s' xk'
  | _, _, _ => x1
  end.

(* one epoch: n inner steps (inner index i_), then the missing updates *)
Fixpoint sgj_inner (k : nat) (i_ : Z) (x1 s : vec) (d : list (entry (A := A))) (xk : list Z) (tr : sg_trace (A := A))
  : option (vec * vec * list (entry (A := A))) * vec * sg_trace (A := A) :=
  match k with
  | O => let x1' := jit_finish x1 s xk in (Some (x1', s, d), x1', tr)
  | S k' =>
      let j := RJ (length tr) in
      let e1 := nth j d (zr, []) in
      let w1 := fst e1 in let g1 := snd e1 in
      let x1c := jit_catch i_ x1 s g1 xk in
      let a := SF (length tr) j x1c in
      let tr1 := SvEval j x1c a :: tr in
      if s_err a then (None, x1c, tr1)
      else
        let c := s_w a -. w1 in
        sgj_inner k' (i_ + 1) (jit_step c x1c g1) (sg1_upd_s NM P c g1 s)
                  (set_nth j (s_w a, s_g a) d) (jit_mark i_ g1 xk) tr1
  end.

Fixpoint sgj_loop (fuel : nat) (epoch : Z) (xs x1 s : vec) (d : list (entry (A := A))) (tr : sg_trace (A := A)) (el : epoch_log (A := A))
  : sg_out (A := A) * sg_trace (A := A) * epoch_log (A := A) :=
  match fuel with
  | O => (SgFuel, tr, el)
  | S f =>
    if epoch <? sg_maxit P then
      match sgj_inner (sg_n P) 0 x1 s d (map (fun _ => 0) x1) tr with
      | (None, x1', tr1) => (SgErr x1', tr1, el)
      | (Some (x1', s', d'), _, tr1) =>
          match sg_eval_stop NM xs x1' (sg_eps P *. sg_gamma P) with
          | SNaN => (SgErr x1', tr1, el)
          | SStop delta => (SgConv x1', tr1, (xs, x1', delta, true) :: el)
          | SGo delta =>
              let el1 := (xs, x1', delta, false) :: el in
              if sg_hook P then
                match sg_lambda NM P with
                | None => (SgPanic, tr1, el1)       (* not reachable from saga.Run: jit is not nil *)
                | Some lam =>
                    let h := mkSgHook x1' delta (tn *. lam /. sg_gamma P) epoch in
                    let stop := SHK (length tr1) h in
                    let tr2 := SvHook h stop :: tr1 in
                    if stop then (SgHook x1', tr2, el1)
                    else sgj_loop f (epoch + 1) x1' x1' s' d' tr2 el1
                end
              else sgj_loop f (epoch + 1) x1' x1' s' d' tr1 el1
          end
      end
    else (SgCap x1, tr, el)
  end.

Definition saga_jit (fuel : nat) (x0 : vec) : sg_out (A := A) * sg_trace (A := A) * epoch_log (A := A) :=
  match sg_init NM SF P (sg_n P) 0 x0 (map (fun _ => zr) x0) [] [] with
  | (None, tr) => (SgErr [], tr, [])
  | (Some (s, d, tr), _) => sgj_loop fuel 0 x0 x0 s d tr []
  end.

End ModelSagaJit.
