(* C07 (round 3) — oracle-machine model of /repo/algorithm/saga: saga1Dense / saga1Sparse
   (objective returns (y, w, g): per-sample gradient w*g with a constant data vector g)
   and saga2Dense / saga2Sparse (objective returns (y, g)), generated from
   saga_template.in, with the gradient table, the proximal operators L1 / L2 / Tikhonov,
   the step size gamma and the stopping rule EvalStopping (saga.go).

   Oracles (Section variables): the k-th external call of a run is answered by
     SF k j x     the per-sample objective f(j, x1): error flag, w (saga1), gradient
     RJ k         the draw j = g.Intn(n) of math/rand made when k calls were logged
                  (the thread partition / the generator itself are outside this model)
     SHK k h      the hook (x1, delta, n*lambda/gamma, epoch).
   The code that exists, quirks included:
   - EvalStopping walks xs.JOINT_ITERATOR(x1); since 494d9f3 the dense joint iterator's Ok()
     reports whether one of the two vectors delivered an element, so the walk visits EVERY
     index of the longer vector, a missing entry reading as 0 ([sg_joint]).  Before that fix
     Ok() was false at the first index where BOTH vectors are zero and the stop test only saw
     the coordinates before that index ([sg_prefix], kept for the regression lemmas);
   - the hook argument float64(n)*proxop.GetLambda()/gamma.Value is evaluated on a nil
     interface when no regulariser was given: the run panics instead of calling the hook.
   Besides the trace of external calls the machine returns the list of stop-test
   evaluations (newest first): (xs, x1, delta, stop) = EvalStopping(xs, x1, eps*gamma).
   No proofs in this file. *)
From Coq Require Import ZArith List Bool.
From ADV Require Import Base.Num C07.Model.
Import ListNotations.
Open Scope Z_scope.

Section ModelSaga.
Context {A : Type} (NM : Num A).

Local Infix "+." := (add NM) (at level 50, left associativity).
Local Infix "-." := (sub NM) (at level 50, left associativity).
Local Infix "*." := (mul NM) (at level 40, left associativity).
Local Infix "/." := (div NM) (at level 40, left associativity).
Local Infix "<." := (ltb NM) (at level 70).
Local Infix "<=." := (leb NM) (at level 70).
Local Infix "==." := (eqb NM) (at level 70).
Local Notation zr := (zero NM).
Local Notation on := (one NM).

Notation vec := (list A).

Record sg_answer := mkSgAns { s_err : bool; s_w : A; s_g : vec }.
Record sg_hookargs := mkSgHook { sh_x : vec; sh_delta : A; sh_lam : A; sh_epoch : Z }.

Inductive sg_event :=
| SvEval (j : nat) (x : vec) (a : sg_answer)
| SvHook (h : sg_hookargs) (stop : bool).
Definition sg_trace := list sg_event.

Variable SF : nat -> nat -> vec -> sg_answer.
Variable RJ : nat -> nat.
Variable SHK : nat -> sg_hookargs -> bool.

(* proximal operator chosen by Run: lambda is the user's constant BEFORE the rescaling
   proxop.SetLambda(gamma*lambda/float64(n)) *)
Inductive sg_prox := PNone | PL1 (lam : A) | PL2 (lam : A) | PTi (lam : A).

Record sg_params := mkSg {
  sg_n : nat;          (* number of samples *)
  sg_gamma : A; sg_eps : A; sg_maxit : Z; sg_hook : bool;
  sg_prox_op : sg_prox;
  sg_two : bool;       (* saga2* (gradient returned in full) instead of saga1* (w, g) *)
  sg_sparse : bool     (* saga1Sparse: the table holds SparseConstFloat64Vector (zeros are not stored) *)
}.

Section Saga.
Variable P : sg_params.

Definition sg_tn : A := of_Z NM (Z.of_nat (sg_n P)).
Definition sg_lam (l : A) : A := sg_gamma P *. l /. sg_tn.          (* rescaled lambda *)
Definition sg_lambda : option A :=
  match sg_prox_op P with PNone => None | PL1 l | PL2 l | PTi l => Some (sg_lam l) end.

(* math.Max on the values that occur (absolute values, running maximum starting at +0) *)
Definition fmax (x y : A) : A :=
  if is_nan NM x then x else if is_nan NM y then y else if y <. x then x else y.

(* ProximalOperatorL1.Eval *)
Definition prox_l1 (lam : A) (w : vec) : vec :=
  map (fun wi => if wi <. zr then (if neg NM wi <. lam then zr else wi +. lam)
                 else (if wi <. lam then zr else wi -. lam)) w.
(* ProximalOperatorL2.Eval: t = Float64.Max(0, 1 - lambda/|w|) = if 0 > t then 0 else t *)
Definition prox_l2 (lam : A) (w : vec) : vec :=
  let t := on -. lam /. norm NM w in
  let t := if t <. zr then zr else t in
  vmuls NM w t.
(* ProximalOperatorTi.Eval *)
Definition prox_ti (lam : A) (w : vec) : vec := vmuls NM w (on /. (lam +. on)).
Definition sg_apply_prox (t1 : vec) : vec :=
  match sg_prox_op P with
  | PNone => t1
  | PL1 l => prox_l1 (sg_lam l) t1
  | PL2 l => prox_l2 (sg_lam l) t1
  | PTi l => prox_ti (sg_lam l) t1
  end.

Fixpoint zip3 (f : A -> A -> A -> A) (a b c : vec) : vec :=
  match a, b, c with
  | x :: a', y :: b', z :: c' => f x y z :: zip3 f a' b' c'
  | _, _, _ => []
  end.
Fixpoint zip4 (f : A -> A -> A -> A -> A) (a b c d : vec) : vec :=
  match a, b, c, d with
  | x :: a', y :: b', z :: c', u :: d' => f x y z u :: zip4 f a' b' c' d'
  | _, _, _, _ => []
  end.

(* ---- saga1: table entries (w, g) *)
(* x1[i] - t_g*(c*g1[i] + s[i]/t_n) *)
Definition sg1_step (c : A) (x1 g1 s : vec) : vec :=
  zip3 (fun x g si => x -. sg_gamma P *. (c *. g +. si /. sg_tn)) x1 g1 s.
(* g1.update(g2, s): s[i] += c*g1[i] over the STORED entries of g1 *)
Definition sg1_upd_s (c : A) (g1 s : vec) : vec :=
  zipw (fun g si => if sg_sparse P && (g ==. zr) then si else si +. c *. g) g1 s.
(* dict[i].add(s): s[i] += w*g[i] *)
Definition sg1_add_s (w : A) (g s : vec) : vec :=
  zipw (fun gi si => if sg_sparse P && (gi ==. zr) then si else si +. w *. gi) g s.

(* ---- saga2: table entries g (dense copies) *)
Definition sg2_step (x1 g1 g2 s : vec) : vec :=
  zip4 (fun x a b si => x -. sg_gamma P *. (b -. a +. si /. sg_tn)) x1 g1 g2 s.
Definition sg2_upd_s (g1 g2 s : vec) : vec :=
  zipw (fun b si => si +. b) g2 (zipw (fun a si => si -. a) g1 s).
Definition sg2_add_s (g s : vec) : vec := zipw (fun gi si => si +. gi) g s.

Definition entry := (A * vec)%type.
Fixpoint set_nth (j : nat) (e : entry) (d : list entry) : list entry :=
  match d, j with
  | [], _ => []
  | _ :: d', O => e :: d'
  | x :: d', S j' => x :: set_nth j' e d'
  end.

(* ---- EvalStopping(xs, x1, epsilon) *)
(* HEAD (494d9f3): DenseFloat64VectorJointIterator delivers (s1, s2) for every index below the
   longer dimension; s1 == nil reads as v1 = 0.0, a missing s2 is ConstFloat64(0.0) *)
Fixpoint sg_joint (xs x1 : vec) : list (A * A) :=
  match xs, x1 with
  | [], _ => map (fun b => (zr, b)) x1
  | _, [] => map (fun a => (a, zr)) xs
  | a :: xs', b :: x1' => (a, b) :: sg_joint xs' x1'
  end.
(* before 494d9f3: the joint iterator ended at the first index where both entries are zero *)
Fixpoint sg_prefix (xs x1 : vec) : list (A * A) :=
  match xs, x1 with
  | a :: xs', b :: x1' => if (a ==. zr) && (b ==. zr) then [] else (a, b) :: sg_prefix xs' x1'
  | _, _ => []
  end.
Inductive stop_res := SNaN | SStop (delta : A) | SGo (delta : A).
Fixpoint sg_scan (l : list (A * A)) (mx md : A) : option (A * A) :=
  match l with
  | [] => Some (mx, md)
  | (v1, v2) :: l' =>
      if is_nan NM v2 then None
      else sg_scan l' (fmax mx (nabs NM v2)) (fmax md (nabs NM (v2 -. v1)))
  end.
Definition sg_decide (eps : A) (m : option (A * A)) : stop_res :=
  match m with
  | None => SNaN
  | Some (mx, md) =>
      let nz := negb (mx ==. zr) in
      let delta := if nz then md /. mx else md in
      if (nz && (md /. mx <=. eps)) || ((mx ==. zr) && (md ==. zr)) then SStop delta else SGo delta
  end.
Definition sg_eval_stop (xs x1 : vec) (eps : A) : stop_res := sg_decide eps (sg_scan (sg_joint xs x1) zr zr).
(* the test as it was coded before 494d9f3 (regression lemmas only) *)
Definition sg_eval_stop_prefix (xs x1 : vec) (eps : A) : stop_res := sg_decide eps (sg_scan (sg_prefix xs x1) zr zr).
(* the test over the coordinates both vectors have (equal dimensions: all of them) *)
Definition sg_eval_stop_full (xs x1 : vec) (eps : A) : stop_res := sg_decide eps (sg_scan (combine xs x1) zr zr).

(* ---- outcome *)
Inductive sg_out :=
| SgConv (x : vec)     (* EvalStopping fired: return x1, _, nil *)
| SgHook (x : vec)
| SgCap (x : vec)
| SgErr (x : vec)      (* objective error (x = [] during the initialisation), or NaN in the iterate *)
| SgPanic              (* hook without regulariser: nil interface *)
| SgFuel.

Definition epoch_log := list (vec * vec * A * bool).

(* initialisation: for i := 0; i < n; i++ { f(i, x1); dict[i].set; dict[i].add(s) } *)
Fixpoint sg_init (k : nat) (i : nat) (x1 s : vec) (d : list entry) (tr : sg_trace)
  : option (vec * list entry * sg_trace) * sg_trace :=
  match k with
  | O => (Some (s, rev d, tr), tr)
  | S k' =>
      let a := SF (length tr) i x1 in
      let tr1 := SvEval i x1 a :: tr in
      if s_err a then (None, tr1)
      else
        let s' := if sg_two P then sg2_add_s (s_g a) s else sg1_add_s (s_w a) (s_g a) s in
        sg_init k' (S i) x1 s' ((s_w a, s_g a) :: d) tr1
  end.

(* one epoch: n inner steps *)
Fixpoint sg_inner (k : nat) (x1 s : vec) (d : list entry) (tr : sg_trace)
  : option (vec * vec * list entry) * vec * sg_trace :=
  match k with
  | O => (Some (x1, s, d), x1, tr)
  | S k' =>
      let j := RJ (length tr) in
      let a := SF (length tr) j x1 in
      let tr1 := SvEval j x1 a :: tr in
      if s_err a then (None, x1, tr1)
      else
        let e1 := nth j d (zr, []) in
        let w1 := fst e1 in let g1 := snd e1 in
        let w2 := s_w a in let g2 := s_g a in
        if sg_two P then
          let x1' := sg_apply_prox (sg2_step x1 g1 g2 s) in
          sg_inner k' x1' (sg2_upd_s g1 g2 s) (set_nth j (w2, g2) d) tr1
        else
          let c := w2 -. w1 in
          let x1' := sg_apply_prox (sg1_step c x1 g1 s) in
          sg_inner k' x1' (sg1_upd_s c g1 s) (set_nth j (w2, g2) d) tr1
  end.

Fixpoint sg_loop (fuel : nat) (epoch : Z) (xs x1 s : vec) (d : list entry) (tr : sg_trace) (el : epoch_log)
  : sg_out * sg_trace * epoch_log :=
  match fuel with
  | O => (SgFuel, tr, el)
  | S f =>
    if epoch <? sg_maxit P then
      match sg_inner (sg_n P) x1 s d tr with
      | (None, x1', tr1) => (SgErr x1', tr1, el)
      | (Some (x1', s', d'), _, tr1) =>
          match sg_eval_stop xs x1' (sg_eps P *. sg_gamma P) with
          | SNaN => (SgErr x1', tr1, el)
          | SStop delta => (SgConv x1', tr1, (xs, x1', delta, true) :: el)
          | SGo delta =>
              let el1 := (xs, x1', delta, false) :: el in
              if sg_hook P then
                match sg_lambda with
                | None => (SgPanic, tr1, el1)
                | Some lam =>
                    let h := mkSgHook x1' delta (sg_tn *. lam /. sg_gamma P) epoch in
                    let stop := SHK (length tr1) h in
                    let tr2 := SvHook h stop :: tr1 in
                    if stop then (SgHook x1', tr2, el1)
                    else sg_loop f (epoch + 1) x1' x1' s' d' tr2 el1
                end
              else sg_loop f (epoch + 1) x1' x1' s' d' tr1 el1
          end
      end
    else (SgCap x1, tr, el)
  end.

Definition saga (fuel : nat) (x0 : vec) : sg_out * sg_trace * epoch_log :=
  match sg_init (sg_n P) 0 x0 (map (fun _ => zr) x0) [] [] with
  | (None, tr) => (SgErr [], tr, [])
  | (Some (s, d, tr), _) => sg_loop fuel 0 x0 x0 s d tr []
  end.

End Saga.
End ModelSaga.

Arguments mkSgAns {A}. Arguments s_err {A}. Arguments s_w {A}. Arguments s_g {A}.
Arguments mkSgHook {A}. Arguments sh_x {A}. Arguments sh_delta {A}. Arguments sh_lam {A}. Arguments sh_epoch {A}.
Arguments SvEval {A}. Arguments SvHook {A}.
Arguments PNone {A}. Arguments PL1 {A}. Arguments PL2 {A}. Arguments PTi {A}.
Arguments mkSg {A}.
Arguments SNaN {A}. Arguments SStop {A}. Arguments SGo {A}.
Arguments SgConv {A}. Arguments SgHook {A}. Arguments SgCap {A}. Arguments SgErr {A}.
Arguments SgPanic {A}. Arguments SgFuel {A}.
