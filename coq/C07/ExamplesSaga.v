(* C07 (round 3) — concrete runs of the saga machine on binary64: the hypotheses are
   satisfiable; REFUTATION of "the stop test looks at the whole iterate" (known finding
   F-SAGA-STOP-ZERO-PREFIX: EvalStopping walks a joint iterator that ends at the first
   index where both iterates are zero); the hook without regulariser panics
   (F-SAGA-HOOK-NIL, informational).  Reproduced on the Go implementation by
   corpus/C07/corpus.jsonl. *)
From Coq Require Import ZArith List Bool Floats.
From ADV Require Import Base.Num Base.Corr C07.Model C07.ModelSaga C07.SpecSaga.
Import ListNotations.
Open Scope float_scope.

(* one sample, f(x) = 0.5 |x - c|^2 with c = (0, 1): gradient (x1, x2 - 1) — the first
   coordinate of the start point 0 is already optimal and never moves *)
Definition sgq (k : nat) (j : nat) (x : list float) : sg_answer (A := float) :=
  match x with [a; b] => mkSgAns false 1 [a; b - 1] | _ => mkSgAns true 0 [] end.
Definition noRJ (k : nat) : nat := 0%nat.
Definition noSHK (k : nat) (h : sg_hookargs (A := float)) := false.
Definition Psg (hook : bool) : sg_params (A := float) := mkSg 1%nat 0.5 0.125 50%Z hook PNone true false.

(* returns (0, 0.5) as converged after ONE epoch: the coded test saw no coordinate at all
   (both iterates are zero at index 0), while the second coordinate moved from 0 to 0.5:
   relative change 1, far above epsilon*gamma = 0.0625; the minimiser is (0, 1) *)
Lemma saga_stop_zero_prefix_refuted_l :
  exists tr, saga NumF sgq noRJ noSHK (Psg false) 100 [0; 0]
               = (SgConv [0; 0.5], tr, [([0; 0], [0; 0.5], 0, true)]) /\
     sg_eval_stop_full NumF [0; 0] [0; 0.5] (sg_tol NumF (Psg false)) = SGo 1 /\
     sg_n_evals tr = 2%nat.
Proof. eexists; split; [vm_compute; reflexivity | split; vm_compute; reflexivity]. Qed.

(* from (2, 3) no coordinate is zero in both iterates: the run converges with the test
   over all coordinates satisfied *)
Lemma saga_converges_l :
  exists x tr xs d rest, saga NumF sgq noRJ noSHK (Psg false) 100 [2; 3] = (SgConv x, tr, (xs, x, d, true) :: rest) /\
     sg_eval_stop_full NumF xs x (sg_tol NumF (Psg false)) = SStop d /\ length rest = 4%nat.
Proof. do 5 eexists; split; [vm_compute; reflexivity | split; vm_compute; reflexivity]. Qed.

(* F-SAGA-HOOK-NIL: a hook without regulariser: the run panics at the end of the first epoch
   that does not stop, the hook is never called *)
Lemma saga_hook_without_regulariser_panics_l :
  exists tr el, saga NumF sgq noRJ noSHK (Psg true) 100 [2; 3] = (SgPanic, tr, el) /\
     sg_n_hooks tr = 0%nat /\ length el = 1%nat.
Proof. do 2 eexists; split; [vm_compute; reflexivity | split; vm_compute; reflexivity]. Qed.
