(* C07 (round 3; re-computed at HEAD 494d9f3) — concrete runs of the saga machine on binary64:
   the hypotheses are satisfiable; REGRESSION of the retired finding F-SAGA-STOP-ZERO-PREFIX
   (EvalStopping walked a joint iterator that ended at the first index where both iterates are
   zero; since 494d9f3 it visits every coordinate); the hook without regulariser panics
   (F-SAGA-HOOK-NIL, informational).  Reproduced on the Go implementation by
   corpus/C07/corpus.jsonl. *)
From Coq Require Import ZArith List Bool Floats.
From ADV Require Import Base.Num Base.Corr C07.Model C07.ModelSaga C07.SpecSaga.
Import ListNotations.
Open Scope float_scope.

(* one sample, f(x) = 0.5 |x - c|^2 with c = (0, 1): gradient (x1, x2 - 1) — the first
   coordinate of the start point 0 is already optimal and never moves *)
Definition sgq (k : nat) (j : nat) (x : list float) : sg_answer (A := float) :=
  match x with [a; b] => mkSgAns false 1 [a; b - 1] | _ => mkSgAns true 0 [] end.
Definition noRJ (k : nat) : nat := 0%nat.
Definition noSHK (k : nat) (h : sg_hookargs (A := float)) := false.
Definition Psg (hook : bool) : sg_params (A := float) := mkSg 1%nat 0.5 0.125 50%Z hook PNone true false.

(* regression (was F-SAGA-STOP-ZERO-PREFIX, fixed by 494d9f3): from (0, 0) the first epoch ends at
   (0, 0.5).  The test as coded BEFORE the fix saw no coordinate at all (both iterates are zero at
   index 0) and stopped there with delta 0, although the second coordinate moved from 0 to 0.5
   (relative change 1, far above epsilon*gamma = 0.0625).  At HEAD the test sees that change (SGo 1),
   the run goes on for four more epochs and returns (0, 0.96875) with the test over all coordinates
   satisfied (1/31 <= 1/16). *)
Lemma saga_stop_zero_prefix_regression_l :
  exists tr d rest, saga NumF sgq noRJ noSHK (Psg false) 100 [0; 0]
               = (SgConv [0; 0.96875], tr, ([0; 0.9375], [0; 0.96875], d, true) :: rest) /\
     last rest ([], [], 0, true) = ([0; 0], [0; 0.5], 1, false) /\ length rest = 4%nat /\
     sg_eval_stop_all NumF [0; 0.9375] [0; 0.96875] (sg_tol NumF (Psg false)) = SStop d /\
     sg_eval_stop_prefix NumF [0; 0] [0; 0.5] (sg_tol NumF (Psg false)) = SStop 0 /\
     sg_eval_stop_all NumF [0; 0] [0; 0.5] (sg_tol NumF (Psg false)) = SGo 1.
Proof. do 3 eexists; split; [vm_compute; reflexivity | repeat split; vm_compute; reflexivity]. Qed.

(* from (2, 3): the run converges with the test over all coordinates satisfied *)
Lemma saga_converges_l :
  exists x tr xs d rest, saga NumF sgq noRJ noSHK (Psg false) 100 [2; 3] = (SgConv x, tr, (xs, x, d, true) :: rest) /\
     sg_eval_stop_all NumF xs x (sg_tol NumF (Psg false)) = SStop d /\ length rest = 4%nat.
Proof. do 5 eexists; split; [vm_compute; reflexivity | split; vm_compute; reflexivity]. Qed.

(* F-SAGA-HOOK-NIL: a hook without regulariser: the run panics at the end of the first epoch
   that does not stop, the hook is never called *)
Lemma saga_hook_without_regulariser_panics_l :
  exists tr el, saga NumF sgq noRJ noSHK (Psg true) 100 [2; 3] = (SgPanic, tr, el) /\
     sg_n_hooks tr = 0%nat /\ length el = 1%nat.
Proof. do 2 eexists; split; [vm_compute; reflexivity | split; vm_compute; reflexivity]. Qed.
