(* C07 — what the property says, as predicates on (outcome, trace) of an oracle machine. *)
From Coq Require Import ZArith List Bool Reals.
From ADV Require Import Base.Num C07.Model.
Import ListNotations.

Section Spec.
Context {A : Type} (NM : Num A).
Notation trace := (@Model.trace A).
Notation query := (@Model.query A).
Notation answer := (@Model.answer A).
Notation hookargs := (@Model.hookargs A).
Notation event := (@Model.event A).
Notation outcome := (@Model.outcome A).
Notation consts := (@Model.consts A).
Variable F : nat -> query -> answer.
Variable HK : nat -> hookargs -> bool.
Variable CS : nat -> list A -> bool.

(* The trace is an honest log: the k-th external call (k = number of earlier calls)
   is recorded with the oracle's answer to exactly the recorded query. *)
Inductive wf : trace -> Prop :=
| wf_nil : wf []
| wf_eval tr q : wf tr -> wf (EvEval q (F (length tr) q) :: tr)
| wf_hook tr h : wf tr -> wf (EvHook h (HK (length tr) h) :: tr)
| wf_cons tr x : wf tr -> wf (EvCons x (CS (length tr) x) :: tr).

(* (1) stop condition at the returned point: the objective was evaluated AT x (with
   x's components as the independent variables), the evaluation succeeded, and its
   gradient passes the routine's test  |g| < epsilon. *)
Definition stop_ok (eps : A) (tr : trace) (x : list A) : Prop :=
  exists a, In (EvEval (QGrad x) a) tr /\ a_err a = false /\
            ltb NM (norm NM (a_g a)) eps = true.

(* (2) hook arguments: the gradient (and the value, when one is passed) handed to the
   hook are the oracle's answer for the point handed to it. *)
Definition hook_matched (tr : trace) (h : hookargs) : Prop :=
  exists a, In (EvEval (QGrad (h_x h)) a) tr /\ a_err a = false /\ h_g h = a_g a /\
            match h_y h with Some y => y = a_y a | None => True end.
Definition hooks_ok (tr : trace) : Prop :=
  forall h b, In (EvHook h b) tr -> hook_matched tr h.

(* (3) constraints: when a constraint callback is configured, a point returned
   without error was submitted to it and accepted. *)
Definition accepted (has_cons : bool) (tr : trace) (x : list A) : Prop :=
  has_cons = true -> In (EvCons x true) tr.
Definition point_accepted (has_cons : bool) (tr : trace) (o : outcome) : Prop :=
  match o with
  | Converged x | HookStop x | Cap x => accepted has_cons tr x
  | _ => True
  end.

(* (5) caps *)
Definition is_eval (e : event) : bool := match e with EvEval _ _ => true | _ => false end.
Definition is_hook (e : event) : bool := match e with EvHook _ _ => true | _ => false end.
Definition n_evals (tr : trace) : nat := length (filter is_eval tr).
Definition n_hooks (tr : trace) : nat := length (filter is_hook tr).

(* line search: strong Wolfe conditions with the constants of the code, in the
   literal form of the code's comparisons *)
Definition wolfe (K : consts) (y0 g0 alpha ya ga : A) : Prop :=
  armijo_fails NM K y0 g0 alpha ya = false /\ curvature_ok NM K g0 ga = true.

Definition ls_stop_ok (K : consts) (lsq : A -> query) (tr : trace) (alpha : A) : Prop :=
  exists a0 aa, In (EvEval (lsq (zero NM)) a0) tr /\ In (EvEval (lsq alpha) aa) tr /\
     a_err a0 = false /\ a_err aa = false /\
     wolfe K (a_y a0) (hd (zero NM) (a_g a0)) alpha (a_y aa) (hd (zero NM) (a_g aa)).

(* line-search hook: (alpha, y, g) are the answer for alpha *)
Definition ls_hook_matched (lsq : A -> query) (tr : trace) (h : hookargs) : Prop :=
  exists al a, h_x h = [al] /\ In (EvEval (lsq al) a) tr /\ a_err a = false /\
     h_g h = [hd (zero NM) (a_g a)] /\ h_y h = Some (a_y a).
Definition ls_hooks_ok (lsq : A -> query) (tr : trace) : Prop :=
  forall h b, In (EvHook h b) tr -> ls_hook_matched lsq tr h.

End Spec.

(* Strong Wolfe over the reals, constants c1 = 1e-4, c2 = 0.9 *)
Definition KR : consts (A := R) := mkConsts (1 / 10000)%R (9 / 10)%R (1 / 2)%R 2%R.
Definition wolfe_R (y0 g0 alpha ya ga : R) : Prop :=
  (ya <= y0 + (1 / 10000) * alpha * g0)%R /\ (Rabs ga <= - ((9 / 10) * g0))%R.
