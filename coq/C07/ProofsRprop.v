(* C07 — rprop.go and rprop_dense.go: bookkeeping invariants. *)
From Coq Require Import ZArith List Bool Lia.
From ADV Require Import Base.Num C07.Model C07.Spec C07.ProofsBase.
Import ListNotations.
Open Scope Z_scope.

Section Rprop.
Context {A : Type} (NM : Num A).
Variable F : nat -> query (A := A) -> answer (A := A).
Variable HK : nat -> hookargs (A := A) -> bool.
Variable CS : nat -> list A -> bool.
Variable P : rp_params (A := A).

Notation good := (good F HK CS).
Notation trace := (trace (A := A)).

Ltac fin := first [ assumption | reflexivity | apply ext_step | apply ext_cons, ext_step | apply ext_refl
  | (left; reflexivity) | (right; left; reflexivity) | (intros X; discriminate X) | (intros _; left; reflexivity) ].

Definition inner_post (tr : trace) (r : rp_inner_res (A := A)) : Prop :=
  match r with
  | RIFuel => True
  | RINaN _ tr' | RIErr tr' => good tr' /\ ext tr tr' /\ n_hooks tr' = n_hooks tr
  | RIOk x2 a _ tr' =>
      good tr' /\ ext tr tr' /\ n_hooks tr' = n_hooks tr /\
      In (EvEval (QGrad x2) a) tr' /\ a_err a = false /\ accepted (rp_cons P) tr' x2
  end.

Lemma inner_post_weaken tr tr1 r :
  ext tr tr1 -> n_hooks tr1 = n_hooks tr -> inner_post tr1 r -> inner_post tr r.
Proof.
  intros E N. destruct r; simpl; auto.
  - intros (G & E' & N'). ssplit; auto. eapply ext_trans; eauto. congruence.
  - intros (G & E' & N'). ssplit; auto. eapply ext_trans; eauto. congruence.
  - intros (G & E' & N' & R). ssplit; try tauto. eapply ext_trans; eauto. congruence.
Qed.

Lemma rp_inner_ok fuel : forall x1 x2 g step tr,
  good tr -> inner_post tr (rp_inner NM F CS P fuel x1 x2 g step tr).
Proof.
  induction fuel as [|f IH]; intros x1 x2 g step tr G; simpl; [exact I|].
  destruct (snd (rp_upd_x NM x1 x2 g step)).
  { simpl. ssplit; auto using ext_refl. }
  remember (fst (rp_upd_x NM x1 x2 g step)) as x2' eqn:Hx2.
  remember (F (length tr) (QGrad x2')) as a eqn:Ha.
  assert (G1 : good (EvEval (QGrad x2') a :: tr)) by (subst a; apply good_eval; auto).
  destruct (a_err a || any_nan NM (a_g a)) eqn:Hbad.
  { apply inner_post_weaken with (tr1 := EvEval (QGrad x2') a :: tr); [apply ext_step | reflexivity | apply IH; exact G1]. }
  apply orb_false_iff in Hbad. destruct Hbad as [Herr _].
  destruct (rp_cons P) eqn:Hc.
  - remember (CS (S (length tr)) x2') as ok eqn:Hok.
    assert (G2 : good (EvCons x2' ok :: EvEval (QGrad x2') a :: tr))
      by (subst ok; exact (good_cons F HK CS (EvEval (QGrad x2') a :: tr) x2' G1)).
    destruct ok.
    + simpl. rewrite Hc. ssplit; try fin; try apply G2.
    + apply inner_post_weaken with (tr1 := EvCons x2' false :: EvEval (QGrad x2') a :: tr); [apply ext_cons, ext_step | reflexivity | apply IH; exact G2].
  - simpl. rewrite Hc. ssplit; try fin; try apply G1.
Qed.

(* ------------------------------------------------------------ rprop() *)

Definition rp_post (o : outcome (A := A)) (tr : trace) : Prop :=
  good tr /\
  (forall x, o = Converged x -> stop_ok NM (rp_eps P) tr x) /\
  point_accepted (rp_cons P) tr o.

Ltac nonconv := let x := fresh "x" in let X := fresh "X" in intros x X; discriminate X.

Lemma rp_loop_ok fuel : forall i x1 x2 gnew step s tr,
  good tr -> In (EvEval (QGrad x1) s) tr -> a_err s = false -> accepted (rp_cons P) tr x1 ->
  rp_post (fst (rp_loop NM F HK CS P fuel i x1 x2 gnew step s tr))
          (snd (rp_loop NM F HK CS P fuel i x1 x2 gnew step s tr)).
Proof.
  unfold rp_post.
  induction fuel as [|f IH]; intros i x1 x2 gnew step s tr G Hin Herr Hacc; simpl.
  { ssplit; [exact G | nonconv | exact I]. }
  destruct (i <? rp_maxit P).
  2:{ simpl. ssplit; [exact G | nonconv | exact Hacc]. }
  remember (mkHook x1 (a_g s) (Some (a_y s)) step) as h eqn:Hh.
  assert (M : hook_matched tr h).
  { exists s. subst h; simpl. ssplit; auto. }
  remember (if rp_hook P then EvHook h (if rp_hook P then HK (length tr) h else false) :: tr else tr) as tr1 eqn:Htr1.
  assert (G1 : good tr1) by (subst tr1; apply good_opt_hook; auto).
  assert (E1 : ext tr tr1) by (subst tr1; apply ext_opt).
  clear Htr1.
  destruct (if rp_hook P then HK (length tr) h else false).
  { simpl. ssplit; [exact G1 | nonconv | eapply accepted_ext; eauto]. }
  destruct (ltb NM (norm NM (a_g s)) (rp_eps P)) eqn:Hn.
  { simpl. ssplit; [exact G1 | | eapply accepted_ext; eauto].
    intros x X. inversion X; subst x. exists s. ssplit; auto. eapply ext_in; eauto. }
  pose proof (rp_inner_ok f x1 x2 (a_g s) (rp_upd_step NM P gnew (a_g s) step) tr1 G1) as IN.
  destruct (rp_inner NM F CS P f x1 x2 (a_g s) (rp_upd_step NM P gnew (a_g s) step) tr1)
    as [ | x2' tr2 | tr2 | x2' a step' tr2]; simpl in IN |- *.
  - ssplit; [exact G1 | nonconv | exact I].
  - destruct IN as (G2 & _). ssplit; [exact G2 | nonconv | exact I].
  - destruct IN as (G2 & _). ssplit; [exact G2 | nonconv | exact I].
  - destruct IN as (G2 & E2 & _ & Hin2 & Herr2 & Hacc2). apply IH; auto.
Qed.

Theorem rprop_ok fuel x0 :
  rp_post (fst (rprop NM F HK CS P fuel x0)) (snd (rprop NM F HK CS P fuel x0)).
Proof.
  unfold rprop.
  remember (if rp_cons P then CS 0 x0 else true) as ok eqn:Hok.
  remember (if rp_cons P then [EvCons x0 ok] else []) as tr0 eqn:Htr0.
  assert (G0 : good tr0).
  { subst tr0. destruct (rp_cons P); [|apply good_nil]. subst ok.
    apply (good_cons F HK CS [] x0). apply good_nil. }
  assert (Hacc : ok = true -> accepted (rp_cons P) tr0 x0).
  { unfold accepted. intros -> Hc. subst tr0. rewrite Hc. left; reflexivity. }
  destruct ok; simpl.
  2:{ unfold rp_post; ssplit; [exact G0 | nonconv | exact I]. }
  remember (F (length tr0) (QGrad x0)) as a eqn:Ha.
  assert (G1 : good (EvEval (QGrad x0) a :: tr0)) by (subst a; apply good_eval; auto).
  destruct (a_err a) eqn:Herr; simpl.
  { unfold rp_post; ssplit; [exact G1 | nonconv | exact I]. }
  destruct (any_nan NM (a_g a)); simpl.
  { unfold rp_post; ssplit; [exact G1 | nonconv | exact I]. }
  apply rp_loop_ok; auto.
  - left; reflexivity.
  - eapply accepted_ext; [apply ext_step | auto].
Qed.

(* caps: the hook is called at most MaxIterations times (once per outer iteration) *)
Definition inner_hooks (tr : trace) (r : rp_inner_res (A := A)) : Prop :=
  match r with
  | RIFuel => True
  | RINaN _ t | RIErr t | RIOk _ _ _ t => n_hooks t = n_hooks tr
  end.

Lemma rp_inner_hooks fuel : forall x1 x2 g step tr,
  inner_hooks tr (rp_inner NM F CS P fuel x1 x2 g step tr).
Proof.
  induction fuel as [|f IH]; intros x1 x2 g step tr; simpl; [exact I|].
  destruct (snd (rp_upd_x NM x1 x2 g step)); [reflexivity|].
  remember (fst (rp_upd_x NM x1 x2 g step)) as x2'.
  remember (F (length tr) (QGrad x2')) as a.
  destruct (a_err a || any_nan NM (a_g a)).
  { specialize (IH x1 x2' g (rp_shrink NM P g step) (EvEval (QGrad x2') a :: tr)).
    destruct (rp_inner NM F CS P f x1 x2' g (rp_shrink NM P g step) (EvEval (QGrad x2') a :: tr)); simpl in *; auto. }
  destruct (rp_cons P); [|reflexivity].
  destruct (CS (S (length tr)) x2'); [reflexivity|].
  specialize (IH x1 x2' g (rp_shrink NM P g step) (EvCons x2' false :: EvEval (QGrad x2') a :: tr)).
  destruct (rp_inner NM F CS P f x1 x2' g (rp_shrink NM P g step) (EvCons x2' false :: EvEval (QGrad x2') a :: tr)); simpl in *; auto.
Qed.

Lemma rp_loop_hooks fuel : forall i x1 x2 gnew step s tr,
  (n_hooks (snd (rp_loop NM F HK CS P fuel i x1 x2 gnew step s tr)) <= n_hooks tr + Z.to_nat (rp_maxit P - i))%nat.
Proof.
  induction fuel as [|f IH]; intros i x1 x2 gnew step s tr; simpl; [lia|].
  destruct (i <? rp_maxit P) eqn:Hi; [|simpl; lia].
  apply Z.ltb_lt in Hi.
  assert (Hz : Z.to_nat (rp_maxit P - i) = S (Z.to_nat (rp_maxit P - (i + 1)))) by lia.
  remember (mkHook x1 (a_g s) (Some (a_y s)) step) as h eqn:Hh.
  remember (if rp_hook P then EvHook h (if rp_hook P then HK (length tr) h else false) :: tr else tr) as tr1 eqn:Htr1.
  assert (N1 : (n_hooks tr1 <= S (n_hooks tr))%nat).
  { subst tr1. destruct (rp_hook P); [rewrite n_hooks_hook|]; lia. }
  destruct (if rp_hook P then HK (length tr) h else false); [simpl; lia|].
  destruct (ltb NM (norm NM (a_g s)) (rp_eps P)); [simpl; lia|].
  pose proof (rp_inner_hooks f x1 x2 (a_g s) (rp_upd_step NM P gnew (a_g s) step) tr1) as IN.
  destruct (rp_inner NM F CS P f x1 x2 (a_g s) (rp_upd_step NM P gnew (a_g s) step) tr1)
    as [ | x2' tr2 | tr2 | x2' a step' tr2]; simpl in IN |- *; try lia.
  specialize (IH (i + 1) x2' x2' (a_g s) step' a tr2). lia.
Qed.

Theorem rprop_hook_cap fuel x0 :
  (n_hooks (snd (rprop NM F HK CS P fuel x0)) <= Z.to_nat (rp_maxit P))%nat.
Proof.
  unfold rprop.
  remember (if rp_cons P then CS 0 x0 else true) as ok.
  remember (if rp_cons P then [EvCons x0 ok] else []) as tr0.
  assert (N0 : n_hooks tr0 = 0%nat) by (subst tr0; destruct (rp_cons P); reflexivity).
  destruct ok; cbn [negb fst snd]; [|lia].
  remember (F (length tr0) (QGrad x0)) as a.
  destruct (a_err a); cbn [fst snd]; [rewrite n_hooks_eval, N0; lia|].
  destruct (any_nan NM (a_g a)); cbn [fst snd]; [rewrite n_hooks_eval, N0; lia|].
  pose proof (rp_loop_hooks fuel 0 x0 x0 (repeat (one NM) (length x0)) (repeat (rp_step0 P) (length x0)) a (EvEval (QGrad x0) a :: tr0)) as H.
  rewrite n_hooks_eval, N0, Z.sub_0_r in H. exact H.
Qed.

End Rprop.
