(* C07 (round 6) — concrete runs of the CLOSED newton machine (no direction oracle) and of
   get_direction on binary64 and on R: the hypotheses of the round-6 theorems are satisfiable. *)
From Coq Require Import ZArith List Bool Floats Reals Lra Lia.
From ADV Require Import Base.Num C07.Model C07.ModelNewton C07.SpecNewton C07.ModelNewtonDir C07.ExamplesNewton
  C07.ProofsQuad C07.ProofsNewtonDir.
Import ListNotations.

Definition mNDF (k : nat) := get_direction_F.

Section F.
Open Scope float_scope.
(* f(x) = 1/2 x'Ax - b'x with A = [[2,1],[1,3]], b = (1,2): grad = A x - b, Hessian = A; x* = (0.2, 0.6) *)
Definition A2 : list (list float) := [[2; 1]; [1; 3]].
Definition q2 (x : list float) : nw_answer (A := float) := mkNwAns false (vsub NumF (mdotv NumF A2 x) [1; 2]) A2.

(* "None": the Gauss-Jordan inverse of C04's model and MdotV; one step from (5,-7) reaches x* up to rounding *)
Lemma newton_closed_converges_2d_l :
  exists x tr, newton_root NumF (fun _ => q2) mNDF noNHK noNCS Pn 100 [5; -7] = (NwConv x, tr) /\
     PrimFloat.ltb (norm NumF (n_y (q2 x))) eps8 = true /\ nw_n_dirs tr = 1%nat /\
     In (NvDir 0 [2; -18] A2 (DirOk [0x1.3333333333333p+2; -0x1.e666666666667p+2])) tr.
Proof.
  eexists; eexists; split; [vm_compute; reflexivity | split; [vm_compute; reflexivity | split; [vm_compute; reflexivity|]]].
  right; left; reflexivity.
Qed.

(* get_direction: a row exchange ("None" on [[0,1],[1,0]]), the singular error, the LDL modification on an
   indefinite Hessian (a descent direction although H is indefinite), the Eigenvalue panic *)
Lemma get_direction_examples_l :
  get_direction_F 0 [1; -1] [[0; 1]; [1; 0]] = DirOk [-1; 1] /\
  get_direction_F 0 [1; 2] [[1; 2]; [2; 4]] = DirErr /\
  (exists t, get_direction_F 1 [1; -1] [[1; 2]; [2; 1]] = DirOk t /\
             PrimFloat.ltb 0 (dot NumF [1; -1] t) = true) /\
  get_direction_F 2 [1] [[1]] = DirPanic.
Proof.
  split; [vm_compute; reflexivity|]. split; [vm_compute; reflexivity|]. split; [|reflexivity].
  eexists; split; vm_compute; reflexivity.
Qed.

(* HessianModification{"Eigenvalue"}: the run ends in the panic at the first direction *)
Lemma newton_closed_eigenvalue_panics_l :
  exists tr, newton_root NumF (fun _ => sq2) mNDF noNHK noNCS (mkNw eps8 50%Z false false 2%Z NWC_F) 100 [1] = (NwPanic, tr) /\
     nw_n_dirs tr = 1%nat.
Proof. eexists; split; vm_compute; reflexivity. Qed.

(* "LDL" from -1 on x^2 - 2 (J = 2x < 0 there: the modification replaces it by |J|) *)
Lemma newton_closed_ldl_converges_l :
  exists x tr, newton_root NumF (fun _ => sq2) mNDF noNHK noNCS (mkNw eps8 50%Z false false 1%Z NWC_F) 100 [-1] = (NwConv x, tr) /\
     PrimFloat.ltb (norm NumF (n_y (sq2 x))) eps8 = true /\ nw_n_dirs tr = 5%nat.
Proof. eexists; eexists; split; [vm_compute; reflexivity | split; vm_compute; reflexivity]. Qed.
End F.

(* over R: f(x) = x^2 - 4x (a = 2, b = 4) from 10 with eps = 1: |grad f(10)| = 16 >= 1, so the closed machine
   returns exactly the minimiser 4/2 *)
Lemma newton_crit_1d_closed_instance_l :
  exists x' tr,
    newton_root NumR (fun _ => quad_answer [[2%R]] [4%R]) (ND_model NumXR 0%R 0%R) (fun _ _ => false) (fun _ _ => true)
      (mkNw 1%R 5%Z false false 0%Z 0.5%R) 2 [10%R] = (NwConv x', tr) /\ x' = [(4 / 2)%R].
Proof.
  destruct (newton_crit_1d_closed_l 2 4 10 1 0.5 0 0 5 (fun _ _ => false) (fun _ _ => true) 0%nat)
    as (x' & tr & Hrun & _ & Hpt); [lra | lra | lia |].
  exists x', tr. split; [exact Hrun|]. apply Hpt.
  change (qgrad [[2%R]] [4%R] [10%R]) with [(0 + 2 * 10 - 4)%R]. rewrite norm_sqrt. simpl.
  replace ((0 + 2 * 10 - 4) * (0 + 2 * 10 - 4) + 0)%R with (16 * 16)%R by lra.
  rewrite sqrt_square; lra.
Qed.
