(* C07 (round 6) — getDirection of /repo/algorithm/newton/newton.go as a FUNCTION (it was the
   oracle [ND] of ModelNewton / ModelNewtonMin up to round 5):

     case "None":       Q, err := matrixInverse.Run(H, &inSitu.Inverse); r.MdotV(Q, g)
     case "LDL":        L, D, err := cholesky.Run(H, &inSitu.Cholesky, LDL{true}, ForcePD{true})
                        Q, err := matrixInverse.Run(L.T(), &inSitu.Inverse, UpperTriangular{true})
                        D[i][i] = 1/D[i][i];  D.MdotM(Q, D);  D.MdotM(D, Q.T());  r.MdotV(D, g)
     case "Eigenvalue": qrAlgorithm.Run(H, &inSitu.QR) is called without ComputeU, so u is nil and
                        H.MdotM(u, h) dereferences it: a panic whenever the QR iteration returns
                        (known finding F-NEWTON-EIGENVALUE-MODE)
     default:           panic("invalid hessian modification")

   The linear algebra is NOT re-modelled here: matrixInverse.Run (Gauss-Jordan with partial
   pivoting, its upper-triangular variant, the final row permutation) is C04's executable model
   [M4.m_inverse], cholesky_ldl_forcepd (Gill-Murray-Wright) is C05's [M5.cholesky_ldl_forcepd];
   both are written over the same carrier record and are tied to the Go text by C04's / C05's own
   correspondence.  What is modelled here is getDirection's glue in Go's operation order: which
   solver is called on what, which solver outcome becomes an error return, the in-place inversion
   of D, the two MdotM (each accumulates t2 = t2 + a[i][k]*b[k][j] from 0.0 over ALL k — the
   aliasing branches of DenseFloat64Matrix.MdotM compute the plain product) and the final MdotV
   (r[i] = 0; r[i] = r[i] + a[i][j]*b[j]).  C07's own tie compares the result with the direction
   the Go routine left in InSitu.T1, bit for bit, on every logged call of every newton run.
   No proofs in this file. *)
From Coq Require Import ZArith List Bool Floats.
From ADV Require Import Base.Num C07.Model C07.ModelNewton.
Require ADV.C04.Model ADV.C05.Model.
Module M4 := ADV.C04.Model.
Module M5 := ADV.C05.Model.
Import ListNotations.
Open Scope Z_scope.

Section ModelNewtonDir.
Context {A : Type} (X : M5.NumX A).
Let NM : Num A := M5.nx X.
(* the two literals 1e-20 of cholesky_ldl_forcepd (beta floor, delta) *)
Variable bfloor delta : A.

Notation vec := (list A).
Notation mat := (list (list A)).

(* r.MdotM(a, b), n x n:  t2 = 0; for k { t1 = a[i][k]*b[k][j]; t2 = t2 + t1 } *)
Definition dir_mdotm (n : nat) (a b : mat) : mat :=
  map (fun i => map (fun j =>
        fold_left (fun t2 k => add NM t2 (mul NM (M4.mget NM a i k) (M4.mget NM b k j))) (seq 0 n) (zero NM))
       (seq 0 n)) (seq 0 n).

(* for i { D.At(i, i).Div(c1, D.At(i, i)) }: only the diagonal is touched *)
Definition dir_invert_diag (n : nat) (D : mat) : mat :=
  map (fun i => map (fun j => if Nat.eqb i j then div NM (one NM) (M4.mget NM D i j) else M4.mget NM D i j)
                    (seq 0 n)) (seq 0 n).

(* how an outcome of matrixInverse.Run reaches getDirection's caller: Ok -> the inverse;
   the "singular" error -> getDirection returns an error; everything else of C04's outcome type
   cannot come out of the plain / upper-triangular inverse (ErrNotPD is the PositiveDefinite mode's,
   ErrPerm / PanicIndex are PermuteRows' on a non-permutation, the fuel of C04's cycle chase is
   never exhausted on the pivot permutation: C04 Proofs chase_total) and is mapped to DirPanic *)
Definition dir_of_inverse (o : M4.outcome mat) (k : mat -> vec) : dir_ans (A := A) :=
  match o with
  | M4.Ok Q => DirOk (k Q)
  | M4.ErrSingular => DirErr
  | _ => DirPanic
  end.

Definition dir_none (g : vec) (H : mat) : dir_ans (A := A) :=
  let n := length H in
  dir_of_inverse (M4.m_inverse NM true M4.InvPlain n (M4.all_true n) H) (fun Q => mdotv NM Q g).

Definition dir_ldl (g : vec) (H : mat) : dir_ans (A := A) :=
  let n := length H in
  match M5.cholesky_ldl_forcepd X bfloor delta H with
  | None => DirErr                                   (* cholesky.Run returned an error *)
  | Some (L, D) =>
      dir_of_inverse (M4.m_inverse NM true M4.InvUT n (M4.all_true n) (M4.transpose NM n L))
        (fun Q =>
           let D1 := dir_invert_diag n D in
           let D2 := dir_mdotm n Q D1 in                              (* D.MdotM(Q, D)     *)
           let D3 := dir_mdotm n D2 (M4.transpose NM n Q) in          (* D.MdotM(D, Q.T()) *)
           mdotv NM D3 g)                                             (* r.MdotV(D, g)     *)
  end.

(* mode: 0 "None", 1 "LDL", 2 "Eigenvalue" (ModelNewton.nw_mode_valid); the default branch is
   taken by the drivers before the direction is asked for *)
Definition get_direction (mode : Z) (g : vec) (H : mat) : dir_ans (A := A) :=
  if mode =? 0 then dir_none g H
  else if mode =? 1 then dir_ldl g H
  else DirPanic.

(* the direction oracle of ModelNewton / ModelNewtonMin that does not look at the call count *)
Definition ND_model (k : nat) (mode : Z) (g : vec) (H : mat) : dir_ans (A := A) := get_direction mode g H.

End ModelNewtonDir.

(* binary64: the Float64 fast paths; 1e-20 = 0x1.79ca10c924223p-67 *)
Definition LDL_DELTA_F : float := 0x1.79ca10c924223p-67%float.
Definition get_direction_F : Z -> list float -> list (list float) -> dir_ans (A := float) :=
  get_direction M5.NumXFfast LDL_DELTA_F LDL_DELTA_F.
