(* C07 — lineSearch.go: the strong Wolfe conditions hold at a step length returned by
   the Wolfe test; hook arguments; evaluation cap.  Generic in the hook-matching
   notion so that the same lemmas serve the BFGS proof. *)
From Coq Require Import ZArith List Bool Lia.
From ADV Require Import Base.Num C07.Model C07.Spec C07.ProofsBase.
Import ListNotations.
Open Scope Z_scope.

Local Arguments zoom_pick : simpl never.
Local Arguments armijo_fails : simpl never.
Local Arguments curvature_ok : simpl never.
Local Arguments qmin : simpl never.

Section LS.
Context {A : Type} (NM : Num A).
Variable K : consts (A := A).
Variable F : nat -> query (A := A) -> answer (A := A).
Variable HK : nat -> hookargs (A := A) -> bool.
Variable CS : nat -> list A -> bool.
Variable lsq : A -> query (A := A).
Variable lsc : A -> list A.
Variable ls_hook ls_cons : bool.
Variable HM : trace (A := A) -> hookargs (A := A) -> Prop.
Hypothesis HM_ext : forall tr tr' h, ext tr tr' -> HM tr h -> HM tr' h.
Hypothesis HM_ls : ls_hook = true -> forall tr aj a,
  In (EvEval (lsq aj) a) tr -> a_err a = false ->
  HM tr (mkHook [aj] [hd (zero NM) (a_g a)] (Some (a_y a)) []).

Notation goodH := (goodH F HK CS HM).
Notation trace := (trace (A := A)).
Notation zr := (zero NM).

Definition ls_post (y0 g0 : A) (tr : trace) (o : ls_out (A := A)) (tr' : trace) : Prop :=
  goodH tr' /\ ext tr tr' /\
  (forall al, o = LSConv al ->
     exists aa, In (EvEval (lsq al) aa) tr' /\ a_err aa = false /\
                wolfe NM K y0 g0 al (a_y aa) (hd zr (a_g aa))).

Lemma ls_post_weaken y0 g0 tr tr1 o tr' :
  ext tr tr1 -> ls_post y0 g0 tr1 o tr' -> ls_post y0 g0 tr o tr'.
Proof. intros E (G & E' & H). split; [exact G|]. split; [eapply ext_trans; eauto | exact H]. Qed.

Ltac nonconv := let x := fresh "x" in let X := fresh "X" in intros x X; discriminate X.

(* one evaluation + optional hook: shared prefix of the zoom and bracketing steps *)
Lemma eval_hook_good tr aj :
  goodH tr ->
  let a := F (length tr) (lsq aj) in
  let tr1 := EvEval (lsq aj) a :: tr in
  let h := mkHook [aj] [hd zr (a_g a)] (Some (a_y a)) [] in
  a_err a = false ->
  goodH (if ls_hook then EvHook h (if ls_hook then HK (length tr1) h else false) :: tr1 else tr1).
Proof.
  intros G a tr1 h Herr.
  apply goodH_opt_hook; auto.
  - apply goodH_eval; auto.
  - intros Hh. apply HM_ls; auto. left; reflexivity.
Qed.

Lemma zoom_ok fuel : forall i maxEval alo ahi y0 ylo yhi g0 glo alast tr, goodH tr ->
  ls_post y0 g0 tr (fst (zoom NM K F HK lsq ls_hook fuel i maxEval alo ahi y0 ylo yhi g0 glo alast tr))
                   (snd (zoom NM K F HK lsq ls_hook fuel i maxEval alo ahi y0 ylo yhi g0 glo alast tr)).
Proof.
  unfold ls_post.
  induction fuel as [|f IH]; intros i maxEval alo ahi y0 ylo yhi g0 glo alast tr G; simpl.
  { ssplit; [exact G | apply ext_refl | nonconv]. }
  destruct (i <? maxEval); simpl.
  2:{ ssplit; [exact G | apply ext_refl | nonconv]. }
  remember (zoom_pick NM K alo ahi ylo yhi glo) as aj eqn:Haj.
  destruct (eqb NM aj zr); simpl.
  { ssplit; [exact G | apply ext_refl | nonconv]. }
  pose proof (eval_hook_good tr aj G) as G2. simpl in G2.
  remember (F (length tr) (lsq aj)) as a eqn:Ha.
  destruct (a_err a) eqn:Herr; simpl.
  { ssplit; [subst a; apply goodH_eval; auto | apply ext_step | nonconv]. }
  specialize (G2 eq_refl).
  remember (mkHook [aj] [hd zr (a_g a)] (Some (a_y a)) []) as h eqn:Hh.
  remember (if ls_hook then EvHook h (if ls_hook then HK (S (length tr)) h else false) :: EvEval (lsq aj) a :: tr
            else EvEval (lsq aj) a :: tr) as tr2 eqn:Htr2.
  assert (G2' : goodH tr2) by (subst tr2; exact G2). clear G2. rename G2' into G2.
  assert (E2 : ext tr tr2).
  { subst tr2. eapply ext_trans; [apply ext_step | apply ext_opt]. }
  assert (Hin2 : In (EvEval (lsq aj) a) tr2).
  { subst tr2. eapply ext_in; [apply ext_opt | left; reflexivity]. }
  clear Htr2.
  destruct (if ls_hook then HK (S (length tr)) h else false); simpl.
  { ssplit; [exact G2 | exact E2 | nonconv]. }
  destruct (armijo_fails NM K y0 g0 aj (a_y a) || leb NM ylo (a_y a)) eqn:Harm.
  { specialize (IH (i + 1) maxEval alo aj y0 ylo (a_y a) g0 glo aj tr2 G2).
    destruct IH as (G3 & E3 & H3). ssplit; [exact G3 | eapply ext_trans; eauto | exact H3]. }
  apply orb_false_iff in Harm. destruct Harm as [Harm _].
  destruct (curvature_ok NM K g0 (hd zr (a_g a))) eqn:Hcurv; simpl.
  { ssplit; [exact G2 | exact E2 |].
    intros al X. inversion X; subst al. exists a. ssplit; auto. split; assumption. }
  destruct (leb NM zr (mul NM (hd zr (a_g a)) (sub NM ahi alo))).
  - specialize (IH (i + 1) maxEval aj alo y0 (a_y a) ylo g0 (hd zr (a_g a)) aj tr2 G2).
    destruct IH as (G3 & E3 & H3). ssplit; [exact G3 | eapply ext_trans; eauto | exact H3].
  - specialize (IH (i + 1) maxEval aj ahi y0 (a_y a) yhi g0 (hd zr (a_g a)) aj tr2 G2).
    destruct IH as (G3 & E3 & H3). ssplit; [exact G3 | eapply ext_trans; eauto | exact H3].
Qed.

Lemma zoom_entry_ok fuel maxEval alo ahi y0 ylo yhi g0 glo tr : goodH tr ->
  ls_post y0 g0 tr (fst (zoom_entry NM K F HK lsq ls_hook fuel maxEval alo ahi y0 ylo yhi g0 glo tr))
                   (snd (zoom_entry NM K F HK lsq ls_hook fuel maxEval alo ahi y0 ylo yhi g0 glo tr)).
Proof.
  intros G. unfold zoom_entry. destruct (maxEval <=? 0); simpl.
  - unfold ls_post. ssplit; [exact G | apply ext_refl | nonconv].
  - apply zoom_ok; exact G.
Qed.

Lemma ls_cons_loop_ok fuel : forall aj tr aj' tr', goodH tr ->
  ls_cons_loop NM K CS lsc fuel aj tr = Some (aj', tr') -> goodH tr' /\ ext tr tr'.
Proof.
  induction fuel as [|f IH]; intros aj tr aj' tr' G; simpl; [discriminate|].
  pose proof (goodH_cons F HK CS HM HM_ext tr (lsc aj) G) as G1.
  destruct (CS (length tr) (lsc aj)).
  - intros X; inversion X; subst. split; [exact G1 | apply ext_step].
  - intros X. apply IH in X; [|exact G1]. destruct X as [G2 E2].
    split; [exact G2 | eapply ext_trans; [apply ext_step | exact E2]].
Qed.

Lemma ls_loop_ok fuel : forall i maxEval y0 g0 yi gi ai aj tr, goodH tr ->
  ls_post y0 g0 tr (fst (ls_loop NM K F HK CS lsq lsc ls_hook ls_cons fuel i maxEval y0 g0 yi gi ai aj tr))
                   (snd (ls_loop NM K F HK CS lsq lsc ls_hook ls_cons fuel i maxEval y0 g0 yi gi ai aj tr)).
Proof.
  induction fuel as [|f IH]; intros i maxEval y0 g0 yi gi ai aj tr G; simpl.
  { unfold ls_post; ssplit; [exact G | apply ext_refl | nonconv]. }
  destruct (i <? maxEval); simpl.
  2:{ unfold ls_post; ssplit; [exact G | apply ext_refl | nonconv]. }
  destruct (eqb NM aj zr); simpl.
  { unfold ls_post; ssplit; [exact G | apply ext_refl | nonconv]. }
  assert (C : match (if ls_cons then ls_cons_loop NM K CS lsc f aj tr else Some (aj, tr)) with
              | None => True | Some (aj', tr0) => goodH tr0 /\ ext tr tr0 end).
  { destruct ls_cons.
    - destruct (ls_cons_loop NM K CS lsc f aj tr) as [[aj' tr0]|] eqn:HC; [|exact I].
      eapply ls_cons_loop_ok; eauto.
    - split; [exact G | apply ext_refl]. }
  destruct (if ls_cons then ls_cons_loop NM K CS lsc f aj tr else Some (aj, tr)) as [[aj' tr0]|]; simpl.
  2:{ unfold ls_post; ssplit; [exact G | apply ext_refl | nonconv]. }
  destruct C as [G0 E0]. clear aj. rename aj' into aj.
  apply ls_post_weaken with (tr1 := tr0); [exact E0|].
  pose proof (eval_hook_good tr0 aj G0) as G2. simpl in G2.
  remember (F (length tr0) (lsq aj)) as a eqn:Ha.
  destruct (a_err a) eqn:Herr; simpl.
  { unfold ls_post; ssplit; [subst a; apply goodH_eval; auto | apply ext_step | nonconv]. }
  specialize (G2 eq_refl).
  remember (mkHook [aj] [hd zr (a_g a)] (Some (a_y a)) []) as h eqn:Hh.
  remember (if ls_hook then EvHook h (if ls_hook then HK (S (length tr0)) h else false) :: EvEval (lsq aj) a :: tr0
            else EvEval (lsq aj) a :: tr0) as tr2 eqn:Htr2.
  assert (G2' : goodH tr2) by (subst tr2; exact G2). clear G2. rename G2' into G2.
  assert (E2 : ext tr0 tr2).
  { subst tr2. eapply ext_trans; [apply ext_step | apply ext_opt]. }
  assert (Hin2 : In (EvEval (lsq aj) a) tr2).
  { subst tr2. eapply ext_in; [apply ext_opt | left; reflexivity]. }
  clear Htr2.
  destruct (if ls_hook then HK (S (length tr0)) h else false); simpl.
  { unfold ls_post; ssplit; [exact G2 | exact E2 | nonconv]. }
  destruct (armijo_fails NM K y0 g0 aj (a_y a) || leb NM yi (a_y a) && (0 <? i)) eqn:Harm.
  { apply ls_post_weaken with (tr1 := tr2); [exact E2 | apply zoom_entry_ok; exact G2]. }
  apply orb_false_iff in Harm. destruct Harm as [Harm _].
  destruct (curvature_ok NM K g0 (hd zr (a_g a))) eqn:Hcurv; simpl.
  { unfold ls_post; ssplit; [exact G2 | exact E2 |].
    intros al X. inversion X; subst al. exists a. ssplit; auto. split; assumption. }
  destruct (leb NM zr (hd zr (a_g a))).
  - apply ls_post_weaken with (tr1 := tr2); [exact E2 | apply zoom_entry_ok; exact G2].
  - apply ls_post_weaken with (tr1 := tr2); [exact E2 | apply IH; exact G2].
Qed.

(* the whole line search, started on any good trace *)
Definition ls_full_post (tr : trace) (o : ls_out (A := A)) (tr' : trace) : Prop :=
  goodH tr' /\ ext tr tr' /\
  (forall al, o = LSConv al -> ls_stop_ok NM K lsq tr' al).

Theorem line_search_ok fuel alpha1 maxEval tr : goodH tr ->
  ls_full_post tr (fst (line_search NM K F HK CS lsq lsc ls_hook ls_cons fuel alpha1 maxEval tr))
                  (snd (line_search NM K F HK CS lsq lsc ls_hook ls_cons fuel alpha1 maxEval tr)).
Proof.
  intros G. unfold line_search.
  remember (F (length tr) (lsq zr)) as a0 eqn:Ha0.
  assert (G1 : goodH (EvEval (lsq zr) a0 :: tr)) by (subst a0; apply goodH_eval; auto).
  destruct (a_err a0) eqn:Herr; simpl.
  { unfold ls_full_post; ssplit; [exact G1 | apply ext_step | nonconv]. }
  pose proof (ls_loop_ok fuel 0 maxEval (a_y a0) (hd zr (a_g a0)) (a_y a0) (hd zr (a_g a0)) zr alpha1 _ G1) as L.
  destruct L as (G2 & E2 & H2).
  unfold ls_full_post; ssplit; [exact G2 | eapply ext_trans; [apply ext_step | exact E2] |].
  intros al X. destruct (H2 al X) as (aa & Hin & He & Hw).
  exists a0, aa. ssplit; auto. eapply ext_in; [exact E2 | left; reflexivity].
Qed.

(* ------------------------------------------------------------ evaluation cap *)

Lemma zoom_evals fuel : forall i maxEval alo ahi y0 ylo yhi g0 glo alast tr,
  (n_evals (snd (zoom NM K F HK lsq ls_hook fuel i maxEval alo ahi y0 ylo yhi g0 glo alast tr))
   <= n_evals tr + Z.to_nat (maxEval - i))%nat.
Proof.
  clear HM_ext HM_ls.
  induction fuel as [|f IH]; intros i maxEval alo ahi y0 ylo yhi g0 glo alast tr; simpl; [lia|].
  destruct (i <? maxEval) eqn:Hi; simpl; [|lia].
  apply Z.ltb_lt in Hi.
  assert (Hz : Z.to_nat (maxEval - i) = S (Z.to_nat (maxEval - (i + 1)))) by lia.
  remember (zoom_pick NM K alo ahi ylo yhi glo) as aj.
  destruct (eqb NM aj zr); simpl; [lia|].
  remember (F (length tr) (lsq aj)) as a.
  destruct (a_err a); simpl; [rewrite n_evals_eval; lia|].
  remember (mkHook [aj] [hd zr (a_g a)] (Some (a_y a)) []) as h.
  remember (if ls_hook then EvHook h (if ls_hook then HK (S (length tr)) h else false) :: EvEval (lsq aj) a :: tr
            else EvEval (lsq aj) a :: tr) as tr2 eqn:Htr2.
  assert (N2 : n_evals tr2 = S (n_evals tr)).
  { subst tr2. destruct ls_hook; [rewrite n_evals_hook|]; apply n_evals_eval. }
  clear Htr2.
  destruct (if ls_hook then HK (S (length tr)) h else false); simpl; [lia|].
  destruct (armijo_fails NM K y0 g0 aj (a_y a) || leb NM ylo (a_y a)).
  { specialize (IH (i + 1) maxEval alo aj y0 ylo (a_y a) g0 glo aj tr2). lia. }
  destruct (curvature_ok NM K g0 (hd zr (a_g a))); simpl; [lia|].
  destruct (leb NM zr (mul NM (hd zr (a_g a)) (sub NM ahi alo))).
  - specialize (IH (i + 1) maxEval aj alo y0 (a_y a) ylo g0 (hd zr (a_g a)) aj tr2). lia.
  - specialize (IH (i + 1) maxEval aj ahi y0 (a_y a) yhi g0 (hd zr (a_g a)) aj tr2). lia.
Qed.

Lemma zoom_entry_evals fuel maxEval alo ahi y0 ylo yhi g0 glo tr :
  (n_evals (snd (zoom_entry NM K F HK lsq ls_hook fuel maxEval alo ahi y0 ylo yhi g0 glo tr))
   <= n_evals tr + Z.to_nat maxEval)%nat.
Proof.
  clear HM_ext HM_ls.
  unfold zoom_entry. destruct (maxEval <=? 0); simpl; [lia|].
  pose proof (zoom_evals fuel 0 maxEval alo ahi y0 ylo yhi g0 glo zr tr) as H.
  rewrite Z.sub_0_r in H. exact H.
Qed.

(* every trial step of the bracketing phase is evaluated only after the constraint
   callback accepted its point (zoom's trial steps are NOT submitted: F-LS-ZOOM-CONS) *)
Lemma ls_cons_loop_accepts fuel : forall aj tr aj' tr',
  ls_cons_loop NM K CS lsc fuel aj tr = Some (aj', tr') ->
  exists tr0, tr' = EvCons (lsc aj') true :: tr0.
Proof.
  induction fuel as [|f IH]; intros aj tr aj' tr'; simpl; [discriminate|].
  destruct (CS (length tr) (lsc aj)) eqn:Hc.
  - intros X; inversion X; subst. eexists; reflexivity.
  - intros X. eapply IH; exact X.
Qed.

Lemma ls_cons_loop_evals fuel : forall aj tr aj' tr',
  ls_cons_loop NM K CS lsc fuel aj tr = Some (aj', tr') -> n_evals tr' = n_evals tr.
Proof.
  clear HM_ext HM_ls.
  induction fuel as [|f IH]; intros aj tr aj' tr'; simpl; [discriminate|].
  destruct (CS (length tr) (lsc aj)).
  - intros X; inversion X; subst. apply n_evals_cons.
  - intros X. apply IH in X. rewrite X. apply n_evals_cons.
Qed.

Lemma ls_loop_evals fuel : forall i maxEval y0 g0 yi gi ai aj tr,
  (n_evals (snd (ls_loop NM K F HK CS lsq lsc ls_hook ls_cons fuel i maxEval y0 g0 yi gi ai aj tr))
   <= n_evals tr + Z.to_nat (maxEval - i) + 1)%nat.
Proof.
  clear HM_ext HM_ls.
  induction fuel as [|f IH]; intros i maxEval y0 g0 yi gi ai aj tr; simpl; [lia|].
  destruct (i <? maxEval) eqn:Hi; simpl; [|lia].
  apply Z.ltb_lt in Hi.
  assert (Hz : Z.to_nat (maxEval - i) = S (Z.to_nat (maxEval - (i + 1)))) by lia.
  destruct (eqb NM aj zr); simpl; [lia|].
  assert (C : match (if ls_cons then ls_cons_loop NM K CS lsc f aj tr else Some (aj, tr)) with
              | None => True | Some (aj', tr0) => n_evals tr0 = n_evals tr end).
  { destruct ls_cons; [|reflexivity].
    destruct (ls_cons_loop NM K CS lsc f aj tr) as [[aj' tr0]|] eqn:HC; [|exact I].
    eapply ls_cons_loop_evals; eauto. }
  destruct (if ls_cons then ls_cons_loop NM K CS lsc f aj tr else Some (aj, tr)) as [[aj' tr0]|]; simpl; [|lia].
  clear aj. rename aj' into aj.
  remember (F (length tr0) (lsq aj)) as a.
  destruct (a_err a); simpl; [rewrite n_evals_eval; lia|].
  remember (mkHook [aj] [hd zr (a_g a)] (Some (a_y a)) []) as h.
  remember (if ls_hook then EvHook h (if ls_hook then HK (S (length tr0)) h else false) :: EvEval (lsq aj) a :: tr0
            else EvEval (lsq aj) a :: tr0) as tr2 eqn:Htr2.
  assert (N2 : n_evals tr2 = S (n_evals tr0)).
  { subst tr2. destruct ls_hook; [rewrite n_evals_hook|]; apply n_evals_eval. }
  clear Htr2.
  destruct (if ls_hook then HK (S (length tr0)) h else false); simpl; [lia|].
  destruct (armijo_fails NM K y0 g0 aj (a_y a) || leb NM yi (a_y a) && (0 <? i)).
  { pose proof (zoom_entry_evals f (maxEval - i) ai aj y0 yi (a_y a) g0 gi tr2). lia. }
  destruct (curvature_ok NM K g0 (hd zr (a_g a))); simpl; [lia|].
  destruct (leb NM zr (hd zr (a_g a))).
  - pose proof (zoom_entry_evals f (maxEval - i) aj ai y0 (a_y a) yi g0 (hd zr (a_g a)) tr2). lia.
  - specialize (IH (i + 1) maxEval y0 g0 (a_y a) (hd zr (a_g a)) aj (mul NM (k_two K) aj) tr2). lia.
Qed.

Theorem line_search_evals fuel alpha1 maxEval tr :
  (n_evals (snd (line_search NM K F HK CS lsq lsc ls_hook ls_cons fuel alpha1 maxEval tr))
   <= n_evals tr + Z.to_nat maxEval + 2)%nat.
Proof.
  clear HM_ext HM_ls.
  unfold line_search.
  remember (F (length tr) (lsq zr)) as a0.
  destruct (a_err a0); simpl; [rewrite n_evals_eval; lia|].
  pose proof (ls_loop_evals fuel 0 maxEval (a_y a0) (hd zr (a_g a0)) (a_y a0) (hd zr (a_g a0)) zr alpha1
                (EvEval (lsq zr) a0 :: tr)) as H.
  rewrite n_evals_eval, Z.sub_0_r in H. lia.
Qed.

End LS.
