(* C07 (round 2) — oracle-machine model of /repo/algorithm/newton/newton.go:
   newton_root, reached through RunRoot (answers: y = f(x), J = Jacobian) and
   RunCrit (answers: y = gradient, J = Hessian) — the two public drivers differ only
   in how the AD result is unpacked into (y, J).

   Oracles (Section variables, so every theorem holds for every objective, solver,
   hook and constraint callback): the k-th external call of a run (k = number of
   external calls made before) is answered by
     NF k x          the objective through AD at x: error flag, y, J
     ND k mode y J   getDirection(t1, y, J, hessianModification): the linear solve /
                     inverse ("None"), the LDL forcePD modification + triangular
                     inverse ("LDL"), the eigenvalue modification ("Eigenvalue");
                     None = the solver returned an error
     NHK k h         the hook
     NCS k x         the constraint callback.
   Every external call is recorded in the trace (newest first).  All arithmetic goes
   through the carrier record in Go's operation order.  No proofs in this file. *)
From Coq Require Import ZArith List Bool.
From ADV Require Import Base.Num C07.Model.
Import ListNotations.
Open Scope Z_scope.

Section ModelNewton.
Context {A : Type} (NM : Num A).

Local Infix "<." := (ltb NM) (at level 70).

Notation vec := (list A).
Notation mat := (list (list A)).

Record nw_answer := mkNwAns { n_err : bool; n_y : vec; n_J : mat }.
Record nw_hookargs := mkNwHook { nh_x : vec; nh_J : mat; nh_y : vec }.

(* what getDirection did: filled t1, returned an error, or panicked inside the solver
   (the generic Gauss-Jordan elimination panics on a singular system) *)
Inductive dir_ans := DirOk (t1 : vec) | DirErr | DirPanic.

Inductive nw_event :=
| NvEval (x : vec) (a : nw_answer)
| NvDir (mode : Z) (y : vec) (J : mat) (d : dir_ans)
| NvHook (h : nw_hookargs) (stop : bool)
| NvCons (x : vec) (ok : bool).
Definition nw_trace := list nw_event.

Variable NF : nat -> vec -> nw_answer.
Variable ND : nat -> Z -> vec -> mat -> dir_ans.
Variable NHK : nat -> nw_hookargs -> bool.
Variable NCS : nat -> vec -> bool.

(* which "return ..., fmt.Errorf(...)" was taken *)
Inductive nw_err :=
| NEInit          (* "invalid initial value": constraints reject x0;        returns x1  *)
| NEObj           (* the objective returned an error;                        returns nil *)
| NENaN           (* "NaN value detected": the norm of y is NaN;             returns x1  *)
| NEDir           (* getDirection returned an error;                         returns nil *)
| NELineSearch.   (* "line search failed": the back-tracking loop shrank the
                     step until x1 - t1 == x1;                               returns x1  *)

Inductive nw_out :=
| NwConv (x : vec)               (* the stop test fired: break; return x1, nil *)
| NwHook (x : vec)               (* the hook asked to stop: break; return x1, nil *)
| NwCap (x : vec)                (* i reached maxIterations: return x1, nil *)
| NwErr (e : nw_err) (x : vec)   (* returned with a non-nil error (x = [] for a nil vector) *)
| NwPanic                        (* panic("invalid hessian modification") or a panic of the solver *)
| NwFuel.                        (* model fuel exhausted: says nothing about the code *)

(* hessianModification.Value: 0 "None", 1 "LDL", 2 "Eigenvalue", anything else: the
   default branch of getDirection panics *)
Definition nw_mode_valid (m : Z) : bool := (m =? 0) || (m =? 1) || (m =? 2).

Record nw_params := mkNw {
  nw_eps : A; nw_maxit : Z; nw_hook : bool; nw_cons : bool; nw_mode : Z;
  nw_c : A     (* c := ConstFloat64(0.9), the step reduction of the back-tracking loop *)
}.

Section Newton.
Variable P : nw_params.

(* "this is a simplified line search that tries to satisfy the constraints":
     for { x2.VsubV(x1, t1)
           if Vequals(x1, x2) { return x1, fmt.Errorf("line search failed") }
           if constraints.Value == nil || constraints.Value(x2) { break }
           t1.VmulS(t1, c) }
   no iteration cap in the Go code *)
Inductive bt_res :=
| BTFuel
| BTFail (tr : nw_trace)              (* exhausted: the step was shrunk to nothing *)
| BTOk (x2 : vec) (tr : nw_trace).    (* x2 differs from x1 and satisfies the constraints *)

Fixpoint nw_backtrack (fuel : nat) (x1 t1 : vec) (tr : nw_trace) : bt_res :=
  match fuel with
  | O => BTFuel
  | S f =>
    let x2 := vsub NM x1 t1 in
    if vequal NM x1 x2 then BTFail tr
    else if nw_cons P then
      let ok := NCS (length tr) x2 in
      let tr1 := NvCons x2 ok :: tr in
      if ok then BTOk x2 tr1 else nw_backtrack f x1 (vmuls NM t1 (nw_c P)) tr1
    else BTOk x2 tr
  end.

(* from the computed direction to the next evaluated point *)
Inductive adv_res :=
| AdvStop (o : nw_out) (tr : nw_trace)
| AdvNext (x2 : vec) (a : nw_answer) (tr : nw_trace).

Definition nw_advance (fuel : nat) (x1 t1 : vec) (tr : nw_trace) : adv_res :=
  match nw_backtrack fuel x1 t1 tr with
  | BTFuel => AdvStop NwFuel tr
  | BTFail tr1 => AdvStop (NwErr NELineSearch x1) tr1
  | BTOk x2 tr1 =>
      let a := NF (length tr1) x2 in
      let tr2 := NvEval x2 a :: tr1 in
      if n_err a then AdvStop (NwErr NEObj []) tr2 else AdvNext x2 a tr2
  end.

(* for i := 0; i < maxIterations.Value; i++ { ... }   (x1, y, J) = current point and
   the objective's answer for it *)
Fixpoint nw_loop (fuel : nat) (i : Z) (x1 : vec) (a : nw_answer) (tr : nw_trace)
  : nw_out * nw_trace :=
  match fuel with
  | O => (NwFuel, tr)
  | S f =>
    if i <? nw_maxit P then
      let y := n_y a in
      let J := n_J a in
      let h := mkNwHook x1 J y in
      let stop := if nw_hook P then NHK (length tr) h else false in
      let tr1 := if nw_hook P then NvHook h stop :: tr else tr in
      if stop then (NwHook x1, tr1)
      else
        let t2 := norm NM y in                          (* t2.Vnorm(y) *)
        if t2 <. nw_eps P then (NwConv x1, tr1)
        else if is_nan NM t2 then (NwErr NENaN x1, tr1)
        else if negb (nw_mode_valid (nw_mode P)) then (NwPanic, tr1)
        else
          let d := ND (length tr1) (nw_mode P) y J in
          let tr2 := NvDir (nw_mode P) y J d :: tr1 in
          match d with
          | DirErr => (NwErr NEDir [], tr2)
          | DirPanic => (NwPanic, tr2)
          | DirOk t1 =>
              match nw_advance f x1 t1 tr2 with
              | AdvStop o tr3 => (o, tr3)
              | AdvNext x2 a' tr3 => nw_loop f (i + 1) x2 a' tr3     (* x1, x2 = x2, x1 *)
              end
          end
    else (NwCap x1, tr)
  end.

Definition newton_root (fuel : nat) (x0 : vec) : nw_out * nw_trace :=
  let x1 := x0 in                                       (* AsDenseFloat64Vector(x): a copy *)
  let ok := if nw_cons P then NCS 0 x1 else true in
  let tr0 := if nw_cons P then [NvCons x1 ok] else [] in
  if negb ok then (NwErr NEInit x1, tr0)
  else
    let a := NF (length tr0) x1 in
    let tr1 := NvEval x1 a :: tr0 in
    if n_err a then (NwErr NEObj [], tr1)
    else nw_loop fuel 0 x1 a tr1.

End Newton.

(* projection to the outcome type shared by the other C07 machines *)
Definition nw_outcome (o : nw_out) : outcome (A := A) :=
  match o with
  | NwConv x => Converged x | NwHook x => HookStop x | NwCap x => Cap x
  | NwErr _ x => Err x | NwPanic => Panicked | NwFuel => OutOfFuel
  end.
Definition nw_is_err (o : nw_out) : bool := match o with NwErr _ _ => true | _ => false end.

End ModelNewton.

Arguments mkNwAns {A}. Arguments n_err {A}. Arguments n_y {A}. Arguments n_J {A}.
Arguments mkNwHook {A}. Arguments nh_x {A}. Arguments nh_J {A}. Arguments nh_y {A}.
Arguments DirOk {A}. Arguments DirErr {A}. Arguments DirPanic {A}.
Arguments NvEval {A}. Arguments NvDir {A}. Arguments NvHook {A}. Arguments NvCons {A}.
Arguments NwConv {A}. Arguments NwHook {A}. Arguments NwCap {A}. Arguments NwErr {A}.
Arguments NwPanic {A}. Arguments NwFuel {A}.
Arguments mkNw {A}.
Arguments BTFuel {A}. Arguments BTFail {A}. Arguments BTOk {A}.
Arguments AdvStop {A}. Arguments AdvNext {A}.

(* c := ConstFloat64(0.9) on binary64 *)
From Coq Require Import Floats.
Definition NWC_F : float := 0x1.ccccccccccccdp-1%float.
