(* C07 (round 3) — newton_min (RunMin / back-tracking variant): stop condition at the
   returned point, error exits of the step search, hook arguments, constraints, caps. *)
From Coq Require Import ZArith List Bool Lia.
From ADV Require Import Base.Num C07.Model C07.ModelNewton C07.SpecNewton C07.ModelNewtonMin C07.SpecNewtonMin.
Import ListNotations.
Open Scope Z_scope.

Ltac msplit := repeat match goal with |- _ /\ _ => split end.

Section PM.
Context {A : Type} (NM : Num A).
Variable K : consts (A := A).
Notation vec := (list A).
Notation mat := (list (list A)).
Variable MF : nat -> vec -> nm_answer (A := A).
Variable MPHI : nat -> vec -> vec -> A -> phi_answer (A := A).
Variable ND : nat -> Z -> vec -> mat -> dir_ans (A := A).
Variable MHK : nat -> nm_hookargs (A := A) -> bool.
Variable NCS : nat -> vec -> bool.
Variable P : nm_params (A := A).

Notation nm_trace := (@ModelNewtonMin.nm_trace A).
Notation nmf := (nmf MF MPHI ND MHK NCS).

Definition mnext (tr tr' : nm_trace) : Prop := exists l, tr' = l ++ tr.
Lemma mnext_refl tr : mnext tr tr.
Proof. exists []; reflexivity. Qed.
Lemma mnext_cons e tr tr' : mnext tr tr' -> mnext tr (e :: tr').
Proof. intros [l ->]. exists (e :: l); reflexivity. Qed.
Lemma mnext_step e tr : mnext tr (e :: tr).
Proof. apply mnext_cons, mnext_refl. Qed.
Lemma mnext_trans a b c : mnext a b -> mnext b c -> mnext a c.
Proof. intros [l ->] [m ->]. exists (m ++ l). now rewrite app_assoc. Qed.
Lemma mnext_in e tr tr' : mnext tr tr' -> In e tr -> In e tr'.
Proof. intros [l ->] H. apply in_or_app; now right. Qed.

Lemma mhm_next tr tr' h : mnext tr tr' -> nm_hook_matched tr h -> nm_hook_matched tr' h.
Proof. intros E (a & Hin & H1 & H2 & H3 & H4). exists a; msplit; auto. eapply mnext_in; eauto. Qed.
Lemma macc_next c tr tr' x : mnext tr tr' -> nm_accepted c tr x -> nm_accepted c tr' x.
Proof. intros E H Hc. eapply mnext_in; eauto. Qed.

Definition mgood (tr : nm_trace) : Prop := nmf tr /\ nm_hooks_ok tr.

Lemma mgood_nil : mgood [].
Proof. split; [constructor | intros h b []]. Qed.
Lemma mgood_eval tr x : mgood tr -> mgood (MvEval x (MF (length tr) x) :: tr).
Proof.
  intros [W H]. split; [now constructor|].
  intros h b [E | Hin]; [discriminate|]. eapply mhm_next; [apply mnext_step | eauto].
Qed.
Lemma mgood_phi tr x p al : mgood tr -> mgood (MvPhi x p al (MPHI (length tr) x p al) :: tr).
Proof.
  intros [W H]. split; [now constructor|].
  intros h b [E | Hin]; [discriminate|]. eapply mhm_next; [apply mnext_step | eauto].
Qed.
Lemma mgood_dir tr m g H : mgood tr -> mgood (MvDir m g H (ND (length tr) m g H) :: tr).
Proof.
  intros [W Hk]. split; [now constructor|].
  intros h b [E | Hin]; [discriminate|]. eapply mhm_next; [apply mnext_step | eauto].
Qed.
Lemma mgood_cons tr x : mgood tr -> mgood (MvCons x (NCS (length tr) x) :: tr).
Proof.
  intros [W H]. split; [now constructor|].
  intros h b [E | Hin]; [discriminate|]. eapply mhm_next; [apply mnext_step | eauto].
Qed.
Lemma mgood_hook tr h : mgood tr -> nm_hook_matched tr h -> mgood (MvHook h (MHK (length tr) h) :: tr).
Proof.
  intros [W H] M. split; [now constructor|].
  intros h' b [E | Hin].
  - inversion E; subst. eapply mhm_next; [apply mnext_step | eauto].
  - eapply mhm_next; [apply mnext_step | eauto].
Qed.

Lemma m_last_eval_in (tr : nm_trace) x a : m_last_eval tr = Some (x, a) -> In (MvEval x a) tr.
Proof.
  induction tr as [|e tr IH]; simpl; [discriminate|].
  destruct e as [x' a'| | | |]; intros Hq; [|right; auto ..].
  inversion Hq; subst. now left.
Qed.

(* ---------------------------------------------------------------- quiet extensions:
   only line-search evaluations (phi) and constraint calls were appended *)
Definition qext (tr tr' : nm_trace) : Prop :=
  mnext tr tr' /\ m_last_eval tr' = m_last_eval tr /\
  nm_n_evals tr' = nm_n_evals tr /\ nm_n_hooks tr' = nm_n_hooks tr /\ nm_n_dirs tr' = nm_n_dirs tr /\
  (mgood tr -> mgood tr').

Lemma qext_refl tr : qext tr tr.
Proof. unfold qext; msplit; auto using mnext_refl. Qed.
Lemma qext_trans a b c : qext a b -> qext b c -> qext a c.
Proof.
  intros (N1 & L1 & E1 & H1 & D1 & G1) (N2 & L2 & E2 & H2 & D2 & G2).
  unfold qext; msplit; try congruence; auto. eapply mnext_trans; eauto.
Qed.
Lemma qext_phi tr x p al : qext tr (MvPhi x p al (MPHI (length tr) x p al) :: tr).
Proof. unfold qext; msplit; auto using mnext_step. apply mgood_phi. Qed.
Lemma qext_cons tr x : qext tr (MvCons x (NCS (length tr) x) :: tr).
Proof. unfold qext; msplit; auto using mnext_step. apply mgood_cons. Qed.
Lemma phis_phi (tr : nm_trace) x p al a : nm_n_phis (MvPhi x p al a :: tr) = S (nm_n_phis tr).
Proof. reflexivity. Qed.
Lemma phis_cons (tr : nm_trace) x b : nm_n_phis (MvCons x b :: tr) = nm_n_phis tr.
Proof. reflexivity. Qed.

(* ---------------------------------------------------------------- the line search of RunMin *)
Definition mls_post (tr : nm_trace) (b : nat) (r : mls_res (A := A)) : Prop :=
  match r with
  | MLSFuel => True
  | MLS _ _ _ tr' => qext tr tr' /\ (nm_n_phis tr' <= nm_n_phis tr + b)%nat
  end.

Lemma mls_post_weaken tr tr1 b1 c b r :
  mls_post tr1 b1 r -> qext tr tr1 -> (nm_n_phis tr1 <= nm_n_phis tr + c)%nat -> (b1 + c <= b)%nat ->
  mls_post tr b r.
Proof.
  destruct r as [|e al t1 tr']; simpl; [auto|].
  intros [Q1 C1] Q C Hb. split; [eapply qext_trans; eauto | lia].
Qed.
Lemma mls_post_here tr b e al t1 : mls_post tr b (MLS e al t1 tr).
Proof. simpl. split; [apply qext_refl | lia]. Qed.

Lemma nm_zoom_ok x1 fuel : forall i maxEval t1 alo ahi y0 ylo yhi g0 glo alast tr,
  mls_post tr (Z.to_nat (maxEval - i))
    (nm_zoom NM K MPHI x1 fuel i maxEval t1 alo ahi y0 ylo yhi g0 glo alast tr).
Proof.
  induction fuel as [|f IH]; intros i maxEval t1 alo ahi y0 ylo yhi g0 glo alast tr; cbn [nm_zoom]; [exact I|].
  destruct (i <? maxEval) eqn:Hi; [|apply mls_post_here].
  apply Z.ltb_lt in Hi.
  assert (Hz : Z.to_nat (maxEval - i) = S (Z.to_nat (maxEval - (i + 1)))) by lia.
  set (aj := zoom_pick NM K alo ahi ylo yhi glo).
  destruct (eqb NM aj (zero NM)); [apply mls_post_here|].
  set (a := MPHI (length tr) x1 t1 aj).
  assert (Q : qext tr (MvPhi x1 t1 aj a :: tr)) by apply qext_phi.
  assert (C : (nm_n_phis (MvPhi x1 t1 aj a :: tr) <= nm_n_phis tr + 1)%nat) by (rewrite phis_phi; lia).
  destruct (p_err a).
  { simpl. split; [exact Q | lia]. }
  destruct (armijo_fails NM K y0 g0 aj (p_y a) || leb NM ylo (p_y a)).
  { eapply mls_post_weaken; [apply IH | exact Q | exact C | lia]. }
  destruct (curvature_ok NM K g0 (p_d a)).
  { simpl. split; [exact Q | lia]. }
  destruct (leb NM (zero NM) (mul NM (p_d a) (sub NM ahi alo))).
  - eapply mls_post_weaken; [apply IH | exact Q | exact C | lia].
  - eapply mls_post_weaken; [apply IH | exact Q | exact C | lia].
Qed.

Lemma nm_zoom_entry_ok x1 fuel maxEval t1 alo ahi y0 ylo yhi g0 glo tr :
  mls_post tr (Z.to_nat maxEval)
    (nm_zoom_entry NM K MPHI x1 fuel maxEval t1 alo ahi y0 ylo yhi g0 glo tr).
Proof.
  unfold nm_zoom_entry. destruct (maxEval <=? 0); [apply mls_post_here|].
  pose proof (nm_zoom_ok x1 fuel 0 maxEval t1 alo ahi y0 ylo yhi g0 glo (zero NM) tr) as H.
  rewrite Z.sub_0_r in H. exact H.
Qed.

Lemma nm_cons_loop_ok x1 fuel : forall aj t1 tr aj' t1' tr',
  nm_cons_loop NM K NCS x1 fuel aj t1 tr = Some (aj', t1', tr') ->
  qext tr tr' /\ nm_n_phis tr' = nm_n_phis tr /\
  exists tr0, tr' = MvCons (vsub NM x1 t1') true :: tr0.
Proof.
  induction fuel as [|f IH]; intros aj t1 tr aj' t1' tr' H; cbn [nm_cons_loop] in H; [discriminate|].
  remember (NCS (length tr) (vsub NM x1 (vmuls NM t1 aj))) as ok eqn:Hok.
  assert (Q : qext tr (MvCons (vsub NM x1 (vmuls NM t1 aj)) ok :: tr)) by (subst ok; apply qext_cons).
  destruct ok.
  - inversion H; subst. msplit; auto. eexists; reflexivity.
  - apply IH in H. destruct H as (Q2 & C2 & E2). msplit; auto.
    eapply qext_trans; eauto.
Qed.

Lemma nm_ls_loop_ok x1 fuel : forall i maxEval y0 g0 yi gi ai aj t1 tr,
  mls_post tr (S (Z.to_nat (maxEval - i)))
    (nm_ls_loop NM K MPHI NCS P x1 fuel i maxEval y0 g0 yi gi ai aj t1 tr).
Proof.
  induction fuel as [|f IH]; intros i maxEval y0 g0 yi gi ai aj t1 tr; cbn [nm_ls_loop]; [exact I|].
  destruct (i <? maxEval) eqn:Hi; [|apply mls_post_here].
  apply Z.ltb_lt in Hi.
  assert (Hz : Z.to_nat (maxEval - i) = S (Z.to_nat (maxEval - (i + 1)))) by lia.
  destruct (eqb NM aj (zero NM)); [apply mls_post_here|].
  assert (HC : forall r, (forall aj2 t2 tr0, qext tr tr0 -> nm_n_phis tr0 = nm_n_phis tr ->
                  mls_post tr (S (Z.to_nat (maxEval - i))) (r aj2 t2 tr0)) ->
              mls_post tr (S (Z.to_nat (maxEval - i)))
                match (if nm_cons P then nm_cons_loop NM K NCS x1 f aj t1 tr else Some (aj, t1, tr)) with
                | None => MLSFuel
                | Some (aj2, t2, tr0) => r aj2 t2 tr0
                end).
  { intros r Hr. destruct (nm_cons P).
    - destruct (nm_cons_loop NM K NCS x1 f aj t1 tr) as [[[aj2 t2] tr0]|] eqn:Hcl; [|exact I].
      apply nm_cons_loop_ok in Hcl. destruct Hcl as (Q & C & _). apply Hr; auto.
    - apply Hr; [apply qext_refl | reflexivity]. }
  apply HC. intros aj2 t2 tr0 Q0 C0.
  set (a := MPHI (length tr0) x1 t2 aj2).
  assert (Q : qext tr (MvPhi x1 t2 aj2 a :: tr0)) by (eapply qext_trans; [exact Q0 | apply qext_phi]).
  assert (C : (nm_n_phis (MvPhi x1 t2 aj2 a :: tr0) <= nm_n_phis tr + 1)%nat) by (rewrite phis_phi; lia).
  destruct (p_err a).
  { simpl. split; [exact Q | lia]. }
  destruct (armijo_fails NM K y0 g0 aj2 (p_y a) || (leb NM yi (p_y a) && (0 <? i))).
  { eapply mls_post_weaken; [apply nm_zoom_entry_ok | exact Q | exact C | lia]. }
  destruct (curvature_ok NM K g0 (p_d a)).
  { simpl. split; [exact Q | lia]. }
  destruct (leb NM (zero NM) (p_d a)).
  - eapply mls_post_weaken; [apply nm_zoom_entry_ok | exact Q | exact C | lia].
  - eapply mls_post_weaken; [apply IH | exact Q | exact C | lia].
Qed.

Definition ls_budget : nat := (2 + Z.to_nat (nm_maxeval P))%nat.

Lemma nm_line_search_ok x1 fuel t1 tr :
  mls_post tr ls_budget (nm_line_search NM K MPHI NCS P x1 fuel t1 tr).
Proof.
  unfold nm_line_search, ls_budget.
  set (a0 := MPHI (length tr) x1 t1 (zero NM)).
  assert (Q : qext tr (MvPhi x1 t1 (zero NM) a0 :: tr)) by apply qext_phi.
  assert (C : (nm_n_phis (MvPhi x1 t1 (zero NM) a0 :: tr) <= nm_n_phis tr + 1)%nat) by (rewrite phis_phi; lia).
  destruct (p_err a0).
  { simpl. split; [exact Q | lia]. }
  eapply mls_post_weaken; [apply nm_ls_loop_ok | exact Q | exact C | ].
  rewrite Z.sub_0_r. lia.
Qed.

(* ---------------------------------------------------------------- back-tracking loop (getPhi == nil) *)
Definition mbt_post (x1 t1 : vec) (tr : nm_trace) (r : mbt_res (A := A)) : Prop :=
  match r with
  | MBTFuel => True
  | MBTFail tr' => qext tr tr' /\ nm_n_phis tr' = nm_n_phis tr /\ nw_step_vanished NM (nm_c P) x1 t1
  | MBTOk x2 tr' =>
      qext tr tr' /\ nm_n_phis tr' = nm_n_phis tr /\ nm_accepted (nm_cons P) tr' x2 /\
      exists k, x2 = vsub NM x1 (nw_shrunk NM (nm_c P) k t1) /\ vequal NM x1 x2 = false
  end.

Lemma nm_backtrack_ok fuel : forall x1 t1 tr, mbt_post x1 t1 tr (nm_backtrack NM NCS P fuel x1 t1 tr).
Proof.
  induction fuel as [|f IH]; intros x1 t1 tr; cbn [nm_backtrack]; [exact I|].
  destruct (vequal NM x1 (vsub NM x1 t1)) eqn:Hv.
  { simpl. msplit; auto using qext_refl. exists 0%nat; exact Hv. }
  destruct (nm_cons P) eqn:Hc.
  2:{ simpl. msplit; auto using qext_refl.
      - intros X; congruence.
      - exists 0%nat; split; [reflexivity | exact Hv]. }
  remember (NCS (length tr) (vsub NM x1 t1)) as ok eqn:Hok.
  assert (Q : qext tr (MvCons (vsub NM x1 t1) ok :: tr)) by (subst ok; apply qext_cons).
  destruct ok.
  { simpl. msplit; auto.
    - intros _; left; reflexivity.
    - exists 0%nat; split; [reflexivity | exact Hv]. }
  specialize (IH x1 (vmuls NM t1 (nm_c P)) (MvCons (vsub NM x1 t1) false :: tr)).
  destruct (nm_backtrack NM NCS P f x1 (vmuls NM t1 (nm_c P)) (MvCons (vsub NM x1 t1) false :: tr))
    as [|tr'|x2 tr']; simpl in *; [exact I| |].
  - destruct IH as (Q2 & C2 & [k Hk]). msplit; auto.
    + eapply qext_trans; eauto.
    + exists (S k); exact Hk.
  - destruct IH as (Q2 & C2 & Acc & [k [Hk1 Hk2]]). msplit; auto.
    + eapply qext_trans; eauto.
    + exists (S k); split; [exact Hk1 | exact Hk2].
Qed.

(* ---------------------------------------------------------------- from direction to next point *)
(* the constraint guarantee that survives: with the back-tracking loop every accepted
   trial point was submitted; through lineSearch.Run (RunMin) nothing is guaranteed,
   see Refuted: newton_min_linesearch_constraints_refuted *)
Definition cflag : bool := nm_cons P && negb (nm_phi P).

Definition madv_post (tr : nm_trace) (r : madv_res (A := A)) : Prop :=
  match r with
  | MAdvStop o tr' =>
      (mgood tr -> mgood tr') /\ mnext tr tr' /\ nm_success o = false /\
      (nm_n_evals tr' <= S (nm_n_evals tr))%nat /\ nm_n_hooks tr' = nm_n_hooks tr /\
      nm_n_dirs tr' = nm_n_dirs tr /\ (nm_n_phis tr' <= nm_n_phis tr + ls_budget)%nat
  | MAdvNext x2 a tr' =>
      (mgood tr -> mgood tr') /\ mnext tr tr' /\ m_last_eval tr' = Some (x2, a) /\ m_err a = false /\
      nm_accepted cflag tr' x2 /\
      nm_n_evals tr' = S (nm_n_evals tr) /\ nm_n_hooks tr' = nm_n_hooks tr /\
      nm_n_dirs tr' = nm_n_dirs tr /\ (nm_n_phis tr' <= nm_n_phis tr + ls_budget)%nat
  end.

Lemma nm_eval_next_ok tr tr1 x2 : qext tr tr1 -> (nm_n_phis tr1 <= nm_n_phis tr + ls_budget)%nat ->
  nm_accepted cflag tr1 x2 -> madv_post tr (nm_eval_next MF x2 tr1).
Proof.
  intros (N1 & L1 & E1 & H1 & D1 & G1) C Acc. unfold nm_eval_next.
  set (a := MF (length tr1) x2).
  assert (G2 : mgood tr -> mgood (MvEval x2 a :: tr1)) by (intros G; apply mgood_eval; auto).
  assert (N2 : mnext tr (MvEval x2 a :: tr1)) by (apply mnext_cons; exact N1).
  destruct (m_err a) eqn:He; simpl.
  - msplit; auto. unfold nm_n_evals in *; simpl; lia.
  - msplit; auto.
    + eapply macc_next; [apply mnext_step | exact Acc].
    + unfold nm_n_evals in *; simpl; lia.
Qed.

Lemma nm_advance_ok fuel x1 t1 tr :
  madv_post tr (nm_advance NM K MF MPHI NCS P fuel x1 t1 tr).
Proof.
  unfold nm_advance. destruct (nm_phi P) eqn:Hp.
  - pose proof (nm_line_search_ok x1 fuel t1 tr) as L.
    destruct (nm_line_search NM K MPHI NCS P x1 fuel t1 tr) as [|e al t1' tr1]; simpl in L.
    + simpl. msplit; auto using mnext_refl; lia.
    + destruct L as [Q C]. destruct e.
      * destruct Q as (N1 & L1 & E1 & H1 & D1 & G1). simpl. msplit; auto. lia.
      * destruct (vequal NM x1 (vsub NM x1 (vmuls NM t1' al))) eqn:Hv.
        -- destruct Q as (N1 & L1 & E1 & H1 & D1 & G1). simpl. msplit; auto. lia.
        -- apply nm_eval_next_ok; auto.
           unfold cflag. rewrite Hp, andb_false_r. intros X; discriminate X.
  - pose proof (nm_backtrack_ok fuel x1 t1 tr) as B.
    destruct (nm_backtrack NM NCS P fuel x1 t1 tr) as [|tr1|x2 tr1]; simpl in B.
    + simpl. msplit; auto using mnext_refl; lia.
    + destruct B as ((N1 & L1 & E1 & H1 & D1 & G1) & C & _). simpl. msplit; auto; lia.
    + destruct B as (Q & C & Acc & _). apply nm_eval_next_ok; auto; [lia|].
      unfold cflag. rewrite Hp, andb_true_r. exact Acc.
Qed.

(* the error exits of the step search are error returns *)
Lemma nm_backtrack_exit_is_error_l fuel x1 t1 tr tr' : nm_phi P = false ->
  nm_backtrack NM NCS P fuel x1 t1 tr = MBTFail tr' ->
  nm_advance NM K MF MPHI NCS P fuel x1 t1 tr = MAdvStop (NmErr MEBacktrack x1) tr' /\
  nm_is_err (NmErr MEBacktrack x1) = true /\ nw_step_vanished NM (nm_c P) x1 t1.
Proof.
  intros Hp H. unfold nm_advance. rewrite Hp, H. msplit; auto.
  pose proof (nm_backtrack_ok fuel x1 t1 tr) as B. rewrite H in B. apply B.
Qed.
Lemma nm_linesearch_error_is_error_l fuel x1 t1 tr al t1' tr' : nm_phi P = true ->
  nm_line_search NM K MPHI NCS P x1 fuel t1 tr = MLS true al t1' tr' ->
  nm_advance NM K MF MPHI NCS P fuel x1 t1 tr = MAdvStop (NmErr MELineSearch x1) tr' /\
  nm_is_err (NmErr MELineSearch x1) = true.
Proof. intros Hp H. unfold nm_advance. rewrite Hp, H. auto. Qed.

(* ---------------------------------------------------------------- main loop *)
Local Arguments nm_advance : simpl never.

Definition nm_post (tr0 : nm_trace) (i : Z) (o : nm_out (A := A)) (tr : nm_trace) : Prop :=
  mgood tr /\ mnext tr0 tr /\
  (forall x, o = NmConv x -> nm_stop_ok NM (nm_eps P) tr x) /\
  nm_point_accepted cflag tr o /\ nm_point_evaluated tr o /\
  (nm_n_evals tr <= nm_n_evals tr0 + Z.to_nat (nm_maxit P - i))%nat /\
  (nm_n_hooks tr <= nm_n_hooks tr0 + Z.to_nat (nm_maxit P - i))%nat /\
  (nm_n_dirs tr <= nm_n_dirs tr0 + Z.to_nat (nm_maxit P - i))%nat /\
  (nm_n_phis tr <= nm_n_phis tr0 + ls_budget * Z.to_nat (nm_maxit P - i))%nat.

Lemma m_nosuccess_post tr0 i o tr : mgood tr -> mnext tr0 tr -> nm_success o = false ->
  (nm_n_evals tr <= nm_n_evals tr0 + Z.to_nat (nm_maxit P - i))%nat ->
  (nm_n_hooks tr <= nm_n_hooks tr0 + Z.to_nat (nm_maxit P - i))%nat ->
  (nm_n_dirs tr <= nm_n_dirs tr0 + Z.to_nat (nm_maxit P - i))%nat ->
  (nm_n_phis tr <= nm_n_phis tr0 + ls_budget * Z.to_nat (nm_maxit P - i))%nat ->
  nm_post tr0 i o tr.
Proof.
  intros G E S C1 C2 C3 C4. unfold nm_post. msplit; auto.
  - intros x X; subst o; discriminate S.
  - destruct o; simpl in S; try discriminate S; exact I.
  - destruct o; simpl in S; try discriminate S; exact I.
Qed.

Lemma nm_loop_ok fuel : forall i x1 a tr, mgood tr ->
  m_last_eval tr = Some (x1, a) -> m_err a = false -> nm_accepted cflag tr x1 ->
  nm_post tr i (fst (nm_loop NM K MF MPHI ND MHK NCS P fuel i x1 a tr))
               (snd (nm_loop NM K MF MPHI ND MHK NCS P fuel i x1 a tr)).
Proof.
  induction fuel as [|f IH]; intros i x1 a tr G L Ha Acc; cbn [nm_loop].
  { apply m_nosuccess_post; auto using mnext_refl; cbn [fst snd]; apply Nat.le_add_r. }
  destruct (i <? nm_maxit P) eqn:Hi; cbn [fst snd].
  2:{ unfold nm_post. msplit; auto using mnext_refl; try apply Nat.le_add_r.
      - intros x X; discriminate X.
      - simpl. exists a; auto. }
  apply Z.ltb_lt in Hi.
  assert (Hz : Z.to_nat (nm_maxit P - i) = S (Z.to_nat (nm_maxit P - (i + 1)))) by lia.
  assert (Hm : (ls_budget * Z.to_nat (nm_maxit P - i) =
                ls_budget * Z.to_nat (nm_maxit P - (i + 1)) + ls_budget)%nat)
    by (rewrite Hz; apply Nat.mul_succ_r).
  remember (mkNmHook x1 (m_g a) (m_H a) (m_y a)) as h eqn:Hh.
  assert (M : nm_hook_matched tr h).
  { exists a. subst h; simpl. msplit; auto. apply m_last_eval_in; exact L. }
  remember (if nm_hook P then MHK (length tr) h else false) as stop eqn:Hstop.
  remember (if nm_hook P then MvHook h stop :: tr else tr) as tr1 eqn:Htr1.
  assert (G1 : mgood tr1).
  { subst tr1. destruct (nm_hook P); [|exact G]. subst stop. apply mgood_hook; auto. }
  assert (E1 : mnext tr tr1) by (subst tr1; destruct (nm_hook P); [apply mnext_step | apply mnext_refl]).
  assert (L1 : m_last_eval tr1 = Some (x1, a)) by (subst tr1; destruct (nm_hook P); simpl; exact L).
  assert (N1 : nm_n_evals tr1 = nm_n_evals tr /\ (nm_n_hooks tr1 <= S (nm_n_hooks tr))%nat /\
               nm_n_dirs tr1 = nm_n_dirs tr /\ nm_n_phis tr1 = nm_n_phis tr).
  { subst tr1. destruct (nm_hook P); unfold nm_n_evals, nm_n_hooks, nm_n_dirs, nm_n_phis; simpl; lia. }
  destruct N1 as (N1e & N1h & N1d & N1p).
  assert (Acc1 : nm_accepted cflag tr1 x1) by (eapply macc_next; eauto).
  clear Htr1 Hstop.
  destruct stop; cbn [fst snd].
  { unfold nm_post. msplit; auto; try lia.
    - intros x X; discriminate X.
    - simpl. exists a; auto. }
  destruct (ltb NM (norm NM (m_g a)) (nm_eps P)) eqn:Hn; cbn [fst snd].
  { unfold nm_post. msplit; auto; try lia.
    - intros x X. inversion X; subst x. exists a. split; [exact L1 | split; auto].
    - simpl. exists a; auto. }
  destruct (is_nan NM (norm NM (m_g a))); cbn [fst snd].
  { apply m_nosuccess_post; auto; lia. }
  destruct (nw_mode_valid (nm_mode P)); cbn [negb fst snd].
  2:{ apply m_nosuccess_post; auto; lia. }
  remember (ND (length tr1) (nm_mode P) (m_g a) (m_H a)) as d eqn:Hd.
  set (tr2 := MvDir (nm_mode P) (m_g a) (m_H a) d :: tr1).
  assert (G2 : mgood tr2) by (subst d tr2; apply mgood_dir; exact G1).
  assert (E2 : mnext tr tr2) by (apply mnext_cons; exact E1).
  assert (N2 : nm_n_evals tr2 = nm_n_evals tr /\ (nm_n_hooks tr2 <= S (nm_n_hooks tr))%nat /\
               nm_n_dirs tr2 = S (nm_n_dirs tr) /\ nm_n_phis tr2 = nm_n_phis tr).
  { subst tr2. unfold nm_n_evals, nm_n_hooks, nm_n_dirs, nm_n_phis in *; simpl; lia. }
  destruct N2 as (N2e & N2h & N2d & N2p).
  clearbody tr2. clear Hd.
  destruct d as [t1| |]; cbn [fst snd].
  2:{ apply m_nosuccess_post; auto; lia. }
  2:{ apply m_nosuccess_post; auto; lia. }
  pose proof (nm_advance_ok f x1 t1 tr2) as Adv.
  destruct (nm_advance NM K MF MPHI NCS P f x1 t1 tr2) as [o tr3 | x2 a' tr3]; simpl in Adv; cbn [fst snd].
  - destruct Adv as (G3 & E3 & S3 & C1 & C2 & C3 & C4).
    apply m_nosuccess_post; auto; try lia. eapply mnext_trans; eauto.
  - destruct Adv as (G3 & E3 & L3 & Ha' & Acc3 & C1 & C2 & C3 & C4).
    specialize (IH (i + 1) x2 a' tr3 (G3 G2) L3 Ha' Acc3).
    destruct IH as (G4 & E4 & S4 & A4 & P4 & K1 & K2 & K3 & K4).
    unfold nm_post. msplit; auto; try lia.
    eapply mnext_trans; [|exact E4]. eapply mnext_trans; eauto.
Qed.

Definition nm_final (o : nm_out (A := A)) (tr : nm_trace) : Prop :=
  mgood tr /\
  (forall x, o = NmConv x -> nm_stop_ok NM (nm_eps P) tr x) /\
  nm_point_accepted cflag tr o /\ nm_point_evaluated tr o /\
  (nm_n_evals tr <= 1 + Z.to_nat (nm_maxit P))%nat /\
  (nm_n_hooks tr <= Z.to_nat (nm_maxit P))%nat /\
  (nm_n_dirs tr <= Z.to_nat (nm_maxit P))%nat /\
  (nm_n_phis tr <= ls_budget * Z.to_nat (nm_maxit P))%nat.

Lemma m_nosuccess_final o tr : mgood tr -> nm_success o = false ->
  (nm_n_evals tr <= 1)%nat -> nm_n_hooks tr = 0%nat -> nm_n_dirs tr = 0%nat -> nm_n_phis tr = 0%nat ->
  nm_final o tr.
Proof.
  intros G S C1 C2 C3 C4. unfold nm_final. msplit; auto; try lia.
  - intros x X; subst o; discriminate S.
  - destruct o; simpl in S; try discriminate S; exact I.
  - destruct o; simpl in S; try discriminate S; exact I.
Qed.

Theorem newton_min_ok fuel x0 :
  nm_final (fst (newton_min NM K MF MPHI ND MHK NCS P fuel x0)) (snd (newton_min NM K MF MPHI ND MHK NCS P fuel x0)).
Proof.
  unfold newton_min.
  remember (if nm_cons P then NCS 0 x0 else true) as ok eqn:Hok.
  remember (if nm_cons P then [MvCons x0 ok] else []) as tr0 eqn:Htr0.
  assert (G0 : mgood tr0).
  { subst tr0. destruct (nm_cons P); [|apply mgood_nil]. subst ok.
    apply (mgood_cons [] x0). apply mgood_nil. }
  assert (N0 : nm_n_evals tr0 = 0%nat /\ nm_n_hooks tr0 = 0%nat /\ nm_n_dirs tr0 = 0%nat /\ nm_n_phis tr0 = 0%nat)
    by (subst tr0; destruct (nm_cons P); auto).
  destruct N0 as (N0e & N0h & N0d & N0p).
  assert (Acc0 : ok = true -> nm_accepted cflag tr0 x0).
  { intros -> Hc. subst tr0. unfold cflag in Hc. apply andb_true_iff in Hc. destruct Hc as [Hc _].
    rewrite Hc. left; reflexivity. }
  clear Htr0 Hok.
  destruct ok; cbn [negb fst snd].
  2:{ apply m_nosuccess_final; auto; lia. }
  specialize (Acc0 eq_refl).
  remember (MF (length tr0) x0) as a eqn:Ha.
  assert (G1 : mgood (MvEval x0 a :: tr0)) by (subst a; apply mgood_eval; exact G0).
  assert (N1 : nm_n_evals (MvEval x0 a :: tr0) = 1%nat /\ nm_n_hooks (MvEval x0 a :: tr0) = 0%nat /\
               nm_n_dirs (MvEval x0 a :: tr0) = 0%nat /\ nm_n_phis (MvEval x0 a :: tr0) = 0%nat).
  { unfold nm_n_evals, nm_n_hooks, nm_n_dirs, nm_n_phis in *; simpl; lia. }
  destruct N1 as (N1e & N1h & N1d & N1p).
  destruct (m_err a) eqn:He; cbn [fst snd].
  { apply m_nosuccess_final; auto; lia. }
  assert (Acc1 : nm_accepted cflag (MvEval x0 a :: tr0) x0)
    by (eapply macc_next; [apply mnext_step | exact Acc0]).
  pose proof (nm_loop_ok fuel 0 x0 a (MvEval x0 a :: tr0) G1 eq_refl He Acc1) as L.
  destruct L as (G4 & E4 & S4 & A4 & P4 & K1 & K2 & K3 & K4).
  rewrite N1e in K1. rewrite N1h in K2. rewrite N1d in K3. rewrite N1p in K4. rewrite Z.sub_0_r in *.
  unfold nm_final. msplit; auto; simpl; lia.
Qed.

(* ---------------------------------------------------------------- pure callbacks: re-evaluation *)
Lemma nmf_eval_answer (tr : nm_trace) x a : nmf tr -> In (MvEval x a) tr -> exists k, a = MF k x.
Proof.
  induction 1; intros Hin.
  - destruct Hin.
  - destruct Hin as [E | Hin]; [inversion E; subst; eauto | auto].
  - destruct Hin as [E | Hin]; [discriminate | auto].
  - destruct Hin as [E | Hin]; [discriminate | auto].
  - destruct Hin as [E | Hin]; [discriminate | auto].
  - destruct Hin as [E | Hin]; [discriminate | auto].
Qed.
Lemma nmf_cons_answer (tr : nm_trace) x b : nmf tr -> In (MvCons x b) tr -> exists k, b = NCS k x.
Proof.
  induction 1; intros Hin.
  - destruct Hin.
  - destruct Hin as [E | Hin]; [discriminate | auto].
  - destruct Hin as [E | Hin]; [discriminate | auto].
  - destruct Hin as [E | Hin]; [discriminate | auto].
  - destruct Hin as [E | Hin]; [discriminate | auto].
  - destruct Hin as [E | Hin]; [inversion E; subst; eauto | auto].
Qed.

Theorem nm_stop_pure (f : vec -> nm_answer (A := A)) eps (tr : nm_trace) x :
  (forall k y, MF k y = f y) -> nmf tr -> nm_stop_ok NM eps tr x ->
  m_err (f x) = false /\ ltb NM (norm NM (m_g (f x))) eps = true.
Proof.
  intros Hp W (a & L & He & Hn). apply m_last_eval_in in L.
  destruct (nmf_eval_answer _ _ _ W L) as [k ->]. rewrite Hp in *. auto.
Qed.
Theorem nm_hooks_pure (f : vec -> nm_answer (A := A)) (tr : nm_trace) h b :
  (forall k y, MF k y = f y) -> nmf tr -> nm_hooks_ok tr -> In (MvHook h b) tr ->
  mh_g h = m_g (f (mh_x h)) /\ mh_H h = m_H (f (mh_x h)) /\ mh_y h = m_y (f (mh_x h)).
Proof.
  intros Hp W H Hin. destruct (H h b Hin) as (a & Ha & _ & Hg & HH & Hy).
  destruct (nmf_eval_answer _ _ _ W Ha) as [k ->]. rewrite Hp in *. auto.
Qed.
Theorem nm_accepted_pure (c : vec -> bool) (tr : nm_trace) x :
  (forall k y, NCS k y = c y) -> nmf tr -> nm_accepted true tr x -> c x = true.
Proof.
  intros Hp W H. specialize (H eq_refl).
  destruct (nmf_cons_answer _ _ _ W H) as [k Hk]. rewrite Hp in Hk. auto.
Qed.

(* ---------------------------------------------------------------- the statements of Props.v *)
Lemma newton_min_stop_l fuel x0 x tr :
  newton_min NM K MF MPHI ND MHK NCS P fuel x0 = (NmConv x, tr) ->
  nmf tr /\ nm_stop_ok NM (nm_eps P) tr x.
Proof.
  intros H. pose proof (newton_min_ok fuel x0) as Kk.
  rewrite H in Kk. destruct Kk as ((W & _) & S & _). split; [exact W | apply S; reflexivity].
Qed.
Lemma newton_min_evaluated_l fuel x0 :
  nm_point_evaluated (snd (newton_min NM K MF MPHI ND MHK NCS P fuel x0)) (fst (newton_min NM K MF MPHI ND MHK NCS P fuel x0)).
Proof. apply (newton_min_ok fuel x0). Qed.
Lemma newton_min_hooks_l fuel x0 : nm_hooks_ok (snd (newton_min NM K MF MPHI ND MHK NCS P fuel x0)).
Proof. apply (newton_min_ok fuel x0). Qed.
Lemma newton_min_cons_l fuel x0 :
  nm_point_accepted (nm_cons P && negb (nm_phi P)) (snd (newton_min NM K MF MPHI ND MHK NCS P fuel x0))
    (fst (newton_min NM K MF MPHI ND MHK NCS P fuel x0)).
Proof. apply (newton_min_ok fuel x0). Qed.
Lemma newton_min_start_rejected_l fuel x0 : nm_cons P = true -> NCS 0 x0 = false ->
  newton_min NM K MF MPHI ND MHK NCS P fuel x0 = (NmErr MEInit x0, [MvCons x0 false]).
Proof. intros Hc H0. unfold newton_min. rewrite Hc, H0. reflexivity. Qed.
Lemma newton_min_caps_l fuel x0 :
  (nm_n_evals (snd (newton_min NM K MF MPHI ND MHK NCS P fuel x0)) <= 1 + Z.to_nat (nm_maxit P))%nat /\
  (nm_n_hooks (snd (newton_min NM K MF MPHI ND MHK NCS P fuel x0)) <= Z.to_nat (nm_maxit P))%nat /\
  (nm_n_dirs (snd (newton_min NM K MF MPHI ND MHK NCS P fuel x0)) <= Z.to_nat (nm_maxit P))%nat /\
  (nm_n_phis (snd (newton_min NM K MF MPHI ND MHK NCS P fuel x0)) <= (2 + Z.to_nat (nm_maxeval P)) * Z.to_nat (nm_maxit P))%nat.
Proof. apply (newton_min_ok fuel x0). Qed.

End PM.
