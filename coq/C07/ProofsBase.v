(* C07 — generic lemmas about traces. *)
From Coq Require Import ZArith List Bool Lia.
From ADV Require Import Base.Num C07.Model C07.Spec.
Import ListNotations.

(* split conjunctions syntactically (does not unfold definitions such as [good]) *)
Ltac ssplit := repeat match goal with |- _ /\ _ => split end.

Section Base.
Context {A : Type} (NM : Num A).
Variable F : nat -> query (A := A) -> answer (A := A).
Variable HK : nat -> hookargs (A := A) -> bool.
Variable CS : nat -> list A -> bool.

Notation wf := (wf F HK CS).
Notation trace := (trace (A := A)).

(* tr' extends tr *)
Definition ext (tr tr' : trace) : Prop := exists l, tr' = l ++ tr.

Lemma ext_refl tr : ext tr tr.
Proof. exists []; reflexivity. Qed.
Lemma ext_cons e tr tr' : ext tr tr' -> ext tr (e :: tr').
Proof. intros [l ->]. exists (e :: l); reflexivity. Qed.
Lemma ext_step e tr : ext tr (e :: tr).
Proof. apply ext_cons, ext_refl. Qed.
Lemma ext_trans a b c : ext a b -> ext b c -> ext a c.
Proof. intros [l ->] [m ->]. exists (m ++ l). now rewrite app_assoc. Qed.
Lemma ext_in e tr tr' : ext tr tr' -> In e tr -> In e tr'.
Proof. intros [l ->] H. apply in_or_app; now right. Qed.
Lemma ext_opt (b : bool) e tr : ext tr (if b then e :: tr else tr).
Proof. destruct b; [apply ext_step | apply ext_refl]. Qed.

Lemma hook_matched_ext tr tr' h : ext tr tr' -> hook_matched tr h -> hook_matched tr' h.
Proof.
  intros E (a & Hin & H1 & H2 & H3). exists a; repeat split; auto. eapply ext_in; eauto.
Qed.
Lemma accepted_ext c tr tr' x : ext tr tr' -> accepted c tr x -> accepted c tr' x.
Proof. intros E H Hc. eapply ext_in; eauto. Qed.
Lemma stop_ok_ext eps tr tr' x : ext tr tr' -> stop_ok NM eps tr x -> stop_ok NM eps tr' x.
Proof. intros E (a & Hin & H1 & H2). exists a; repeat split; auto. eapply ext_in; eauto. Qed.

(* "good": honest log in which every hook call so far was matched.  Generic in the
   notion of matching [HM] (optimisers: [hook_matched]; line search: [ls_hook_matched]). *)
Section GoodH.
Variable HM : trace -> hookargs (A := A) -> Prop.
Hypothesis HM_ext : forall tr tr' h, ext tr tr' -> HM tr h -> HM tr' h.

Definition goodH (tr : trace) : Prop := wf tr /\ forall h b, In (EvHook h b) tr -> HM tr h.

Lemma goodH_nil : goodH [].
Proof. split; [constructor | intros h b []]. Qed.
Lemma goodH_eval tr q : goodH tr -> goodH (EvEval q (F (length tr) q) :: tr).
Proof.
  intros [W H]. split; [now constructor|].
  intros h b [E | Hin]; [discriminate|].
  eapply HM_ext; [apply ext_step | eauto].
Qed.
Lemma goodH_cons tr x : goodH tr -> goodH (EvCons x (CS (length tr) x) :: tr).
Proof.
  intros [W H]. split; [now constructor|].
  intros h b [E | Hin]; [discriminate|].
  eapply HM_ext; [apply ext_step | eauto].
Qed.
Lemma goodH_hook tr h : goodH tr -> HM tr h -> goodH (EvHook h (HK (length tr) h) :: tr).
Proof.
  intros [W H] M. split; [now constructor|].
  intros h' b [E | Hin].
  - inversion E; subst. eapply HM_ext; [apply ext_step | eauto].
  - eapply HM_ext; [apply ext_step | eauto].
Qed.
(* the "if hook.Value != nil" pattern of the models *)
Lemma goodH_opt_hook (hk : bool) tr h :
  goodH tr -> (hk = true -> HM tr h) ->
  goodH (if hk then EvHook h (if hk then HK (length tr) h else false) :: tr else tr).
Proof. destruct hk; intros; [apply goodH_hook; auto | assumption]. Qed.
End GoodH.

Definition good : trace -> Prop := goodH (hook_matched (A := A)).
Lemma hm_ext : forall tr tr' h, ext tr tr' -> hook_matched tr h -> hook_matched tr' h.
Proof. intros; eapply hook_matched_ext; eauto. Qed.
Lemma good_nil : good [].
Proof. apply goodH_nil. Qed.
Lemma good_eval tr q : good tr -> good (EvEval q (F (length tr) q) :: tr).
Proof. apply goodH_eval, hm_ext. Qed.
Lemma good_cons tr x : good tr -> good (EvCons x (CS (length tr) x) :: tr).
Proof. apply goodH_cons, hm_ext. Qed.
Lemma good_hook tr h : good tr -> hook_matched tr h -> good (EvHook h (HK (length tr) h) :: tr).
Proof. apply goodH_hook, hm_ext. Qed.
Lemma good_opt_hook (hk : bool) tr h :
  good tr -> hook_matched tr h ->
  good (if hk then EvHook h (if hk then HK (length tr) h else false) :: tr else tr).
Proof. intros. apply goodH_opt_hook; auto. apply hm_ext. Qed.
Lemma good_wf tr : good tr -> wf tr.
Proof. intros [W _]; exact W. Qed.
Lemma good_hooks_ok tr : good tr -> hooks_ok tr.
Proof. intros [_ H]; exact H. Qed.

(* honest logs: every recorded answer is an oracle answer *)
Lemma wf_eval_answer tr q a : wf tr -> In (EvEval q a) tr -> exists k, a = F k q.
Proof.
  induction 1; intros Hin.
  - destruct Hin.
  - destruct Hin as [E | Hin]; [inversion E; subst; eauto | auto].
  - destruct Hin as [E | Hin]; [discriminate | auto].
  - destruct Hin as [E | Hin]; [discriminate | auto].
Qed.
Lemma wf_cons_answer tr x b : wf tr -> In (EvCons x b) tr -> exists k, b = CS k x.
Proof.
  induction 1; intros Hin.
  - destruct Hin.
  - destruct Hin as [E | Hin]; [discriminate | auto].
  - destruct Hin as [E | Hin]; [discriminate | auto].
  - destruct Hin as [E | Hin]; [inversion E; subst; eauto | auto].
Qed.

(* counting *)
Lemma n_hooks_eval q a (tr : trace) : n_hooks (EvEval q a :: tr) = n_hooks tr.
Proof. reflexivity. Qed.
Lemma n_hooks_cons x b (tr : trace) : n_hooks (EvCons x b :: tr) = n_hooks tr.
Proof. reflexivity. Qed.
Lemma n_hooks_hook h b (tr : trace) : n_hooks (EvHook h b :: tr) = S (n_hooks tr).
Proof. reflexivity. Qed.
Lemma n_evals_eval q a (tr : trace) : n_evals (EvEval q a :: tr) = S (n_evals tr).
Proof. reflexivity. Qed.
Lemma n_evals_cons x b (tr : trace) : n_evals (EvCons x b :: tr) = n_evals tr.
Proof. reflexivity. Qed.
Lemma n_evals_hook h b (tr : trace) : n_evals (EvHook h b :: tr) = n_evals tr.
Proof. reflexivity. Qed.

End Base.
