(* C07 (round 2) — concrete runs of the newton machine on binary64: the hypotheses of
   the theorems are satisfiable, and the back-tracking exit is reachable. *)
From Coq Require Import ZArith List Bool Floats.
From ADV Require Import Base.Num C07.Model C07.ModelNewton C07.SpecNewton.
Import ListNotations.
Open Scope float_scope.

(* f(x) = x^2 - 2, J = 2x; the 1x1 solve *)
Definition sq2 (x : list float) : nw_answer (A := float) :=
  match x with [v] => mkNwAns false [v * v - 2] [[2 * v]] | _ => mkNwAns true [] [] end.
Definition solve1 (k : nat) (m : Z) (y : list float) (J : list (list float)) : dir_ans (A := float) :=
  match y, J with [a], [[b]] => DirOk [a / b] | _, _ => DirErr end.
Definition noNHK (k : nat) (h : nw_hookargs (A := float)) := false.
Definition noNCS (k : nat) (x : list float) := true.
(* constraint x <= 1.25: excludes the root sqrt 2 *)
Definition le125 (k : nat) (x : list float) := match x with [v] => v <=? 1.25 | _ => false end.
Definition eps8 : float := 0x1.5798ee2308c3ap-27.   (* 1e-8 *)
Definition Pn := mkNw eps8 50%Z false false 0%Z NWC_F.
Definition Pc := mkNw eps8 50%Z false true 0%Z NWC_F.

Lemma newton_converges_on_square_l :
  exists x tr, newton_root NumF (fun _ => sq2) solve1 noNHK noNCS Pn 100 [1] = (NwConv x, tr) /\
     PrimFloat.ltb (norm NumF (n_y (sq2 x))) eps8 = true.
Proof. eexists; eexists; split; [vm_compute; reflexivity | vm_compute; reflexivity]. Qed.

(* the iterates are pushed against the boundary 1.25, then every reduced step is rejected
   until x1 - t1 == x1: the run ends with the "line search failed" ERROR at 1.25, where
   |f| = 0.4375 — a nil-error return there would violate the property *)
Lemma newton_backtrack_exit_reached_l :
  exists tr, newton_root NumF (fun _ => sq2) solve1 noNHK le125 Pc 3000 [1] = (NwErr NELineSearch [1.25], tr) /\
     PrimFloat.ltb (norm NumF (n_y (sq2 [1.25]))) eps8 = false /\ nw_n_evals tr = 14%nat.
Proof. eexists; split; [vm_compute; reflexivity | split; vm_compute; reflexivity]. Qed.
