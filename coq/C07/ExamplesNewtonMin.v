(* C07 (round 3) — concrete runs of the newton_min machine on binary64: the hypotheses of
   the theorems are satisfiable; the back-tracking exit is reachable; and the REFUTATION
   of the constraint clause for RunMin (known finding F-NEWTON-MIN-CONS-LINE): through
   lineSearch.Run the closure constraints_line rescales the shared direction t1 in place,
   so the point submitted to the callback is not the point phi is evaluated at, and a
   point the callback never saw (and rejects) is returned with a nil error.
   Reproduced on the Go implementation by corpus/C07/corpus.jsonl. *)
From Coq Require Import ZArith List Bool Floats.
From ADV Require Import Base.Num Base.Corr C07.Model C07.ModelNewton C07.ModelNewtonMin C07.SpecNewtonMin C07.ExamplesNewton.
Import ListNotations.
Open Scope float_scope.

(* f(u) = -u + 0.5 u^2 - 0.4 u^3 + 0.06328125 u^4: f'(0) = -1, f''(0) = 1 (Newton step 1),
   f'(1) = -0.946875 (the step undershoots: the curvature condition fails, the line search
   doubles the step length), f'(4) = 0 *)
Definition c3 : float := 0x1.999999999999ap-2.    (* 0.4 *)
Definition c4 : float := 0x1.0333333333333p-4.    (* 0.06328125 = 0.253125 / 4 *)
Definition q4 (u : float) : float := 0 - u + 0.5 * (u * u) - c3 * (u * u * u) + c4 * (u * u * u * u).
Definition q4' (u : float) : float := 0 - 1 + u - 3 * c3 * (u * u) + 4 * c4 * (u * u * u).
Definition q4'' (u : float) : float := 1 - 6 * c3 * u + 12 * c4 * (u * u).
Definition fq4 (x : list float) : nm_answer (A := float) :=
  match x with [u] => mkNmAns false (q4 u) [q4' u] [[q4'' u]] | _ => mkNmAns true 0 [] [] end.
(* phi(alpha) = f(x - p alpha), phi'(alpha) = f'(x - p alpha) * (0 - p) *)
Definition phiq4 (x p : list float) (al : float) : phi_answer (A := float) :=
  match x, p with
  | [u], [d] => let v := u - d * al in mkPhiAns false (q4 v) (q4' v * (0 - d))
  | _, _ => mkPhiAns true 0 0
  end.
Definition solve1m (k : nat) (m : Z) (g : list float) (H : list (list float)) : dir_ans (A := float) :=
  match g, H with [a], [[b]] => DirOk [a / b] | _, _ => DirErr end.
Definition noMHK (k : nat) (h : nm_hookargs (A := float)) := false.
(* constraint x <= 3 *)
Definition le3 (k : nat) (x : list float) := match x with [v] => v <=? 3 | _ => false end.
Definition eps1 : float := 0x1.999999999999ap-4.   (* 0.1 *)
Definition Pmin (cons phi : bool) : nm_params (A := float) := mkNm eps1 50%Z false cons 0%Z NWC_F phi 1 20%Z.

Definition submitted_ok (tr : nm_trace (A := float)) (x : list float) : bool :=
  existsb (fun e => match e with MvCons y true => list_eqb feqb x y | _ => false end) tr.

(* RunMin with the constraint x <= 3: returns 4 as converged; 4 was never submitted, the
   callback rejects it; only 0, 1 and 2 were submitted *)
Lemma newton_min_linesearch_constraints_refuted_l :
  exists tr, newton_min NumF KF (fun _ => fq4) (fun _ => phiq4) solve1m noMHK le3 (Pmin true true) 200 [0]
               = (NmConv [4], tr) /\
     le3 0%nat [4] = false /\ submitted_ok tr [4] = false /\
     submitted_ok tr [2] = true /\ nm_n_phis tr = 3%nat.
Proof. eexists; split; [vm_compute; reflexivity | repeat split; vm_compute; reflexivity]. Qed.

(* the back-tracking variant (getPhi == nil) on f(u) = (u - 2)^2 with the constraint
   u <= 1.25: the iterates are pushed against the boundary, then every reduced step is
   rejected until x1 - t1 == x1: "line search failed" ERROR at a point that was accepted *)
Definition fsh (x : list float) : nm_answer (A := float) :=
  match x with [u] => mkNmAns false ((u - 2) * (u - 2)) [2 * (u - 2)] [[2]] | _ => mkNmAns true 0 [] [] end.
Definition nophi (x p : list float) (al : float) : phi_answer (A := float) := mkPhiAns true 0 0.
Lemma newton_min_backtrack_exit_reached_l :
  exists x tr, newton_min NumF KF (fun _ => fsh) (fun _ => nophi) solve1m noMHK le125 (Pmin true false) 3000 [1]
               = (NmErr MEBacktrack x, tr) /\ le125 0%nat x = true /\ submitted_ok tr x = true /\
     PrimFloat.ltb (norm NumF (m_g (fsh x))) eps1 = false.
Proof. eexists; eexists; split; [vm_compute; reflexivity | repeat split; vm_compute; reflexivity]. Qed.

(* the hypotheses are satisfiable: RunMin without constraints converges to the minimiser 4 *)
Lemma newton_min_converges_l :
  exists tr, newton_min NumF KF (fun _ => fq4) (fun _ => phiq4) solve1m noMHK noNCS (Pmin false true) 200 [0]
               = (NmConv [4], tr) /\
     PrimFloat.ltb (norm NumF (m_g (fq4 [4]))) eps1 = true.
Proof. eexists; split; vm_compute; reflexivity. Qed.
