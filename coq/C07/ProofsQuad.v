(* C07 (round 2) — the quadratic corollary of the property statement, over R, in n
   dimensions (vectors are lists, matrices lists of rows; the carrier-polymorphic
   [norm], [dot], [vsub], [mdotv] of Model.v at NumR):
     f(x) = 1/2 x'Ax - b'x,  grad f x = A x - b,  A x* = b,
     hypothesis  v'Av >= mu |v|^2  for all v (mu > 0).  Then
       |grad f x| < eps  ->  |x - x*| < eps / mu,
   so the stop-condition theorems give the distance claim.  No Cauchy-Schwarz needed:
   0 <= |g - mu e|^2 = |g|^2 - 2 mu e.g + mu^2 |e|^2  and  e.g >= mu |e|^2. *)
From Coq Require Import ZArith List Bool Reals Lra Lia.
From ADV Require Import Base.Num C07.Model C07.Spec C07.ModelNewton C07.SpecNewton.
Import ListNotations.
Open Scope R_scope.

Notation vecR := (list R).
Notation matR := (list (list R)).

(* recursive forms of the fold_left sums of the model *)
Fixpoint ssq (v : vecR) : R := match v with [] => 0 | x :: v' => x * x + ssq v' end.
Fixpoint rdot (a b : vecR) : R :=
  match a, b with x :: a', y :: b' => x * y + rdot a' b' | _, _ => 0 end.

Lemma sumsq_fold v : forall acc, fold_left (fun s x => s + x * x) v acc = acc + ssq v.
Proof. induction v as [|x v IH]; intros acc; simpl; [lra|]. rewrite IH. lra. Qed.
Lemma sumsq_ssq v : sumsq NumR v = ssq v.
Proof. unfold sumsq; simpl. rewrite sumsq_fold. lra. Qed.
Lemma dot_fold a : forall b acc,
  fold_left (fun s p => s + fst p * snd p) (combine a b) acc = acc + rdot a b.
Proof.
  induction a as [|x a IH]; intros [|y b] acc; simpl; try lra. rewrite IH. lra.
Qed.
Lemma dot_rdot a b : dot NumR a b = rdot a b.
Proof. unfold dot; simpl. rewrite dot_fold. lra. Qed.
Lemma norm_sqrt v : norm NumR v = sqrt (ssq v).
Proof. unfold norm; simpl. now rewrite sumsq_ssq. Qed.

Lemma ssq_nonneg v : 0 <= ssq v.
Proof. induction v as [|x v IH]; simpl; [lra|]. pose proof (Rle_0_sqr x) as H; unfold Rsqr in H. lra. Qed.
Lemma rdot_self v : rdot v v = ssq v.
Proof. induction v as [|x v IH]; simpl; [reflexivity|]. now rewrite IH. Qed.

Fixpoint rsub (a b : vecR) : vecR :=
  match a, b with x :: a', y :: b' => (x - y) :: rsub a' b' | _, _ => [] end.
Lemma vsub_rsub a : forall b, vsub NumR a b = rsub a b.
Proof.
  induction a as [|x a IH]; intros [|y b]; try reflexivity.
  change (vsub NumR (x :: a) (y :: b)) with ((x - y) :: vsub NumR a b). now rewrite IH.
Qed.

(* |g - mu e|^2 expanded *)
Lemma ssq_combo mu : forall g e, length g = length e ->
  ssq (rsub g (map (fun t => mu * t) e)) = ssq g - 2 * mu * rdot e g + mu * mu * ssq e.
Proof.
  induction g as [|x g IH]; intros [|y e] H; simpl in *; try discriminate; [lra|].
  injection H as H. rewrite (IH e H). lra.
Qed.

(* the analytic core *)
Lemma coercive_bound mu (e g : vecR) : 0 < mu -> length g = length e ->
  mu * ssq e <= rdot e g -> mu * sqrt (ssq e) <= sqrt (ssq g).
Proof.
  intros Hmu Hl Hc.
  pose proof (ssq_nonneg (rsub g (map (fun t => mu * t) e))) as H0.
  rewrite (ssq_combo mu g e Hl) in H0.
  pose proof (ssq_nonneg e) as He. pose proof (ssq_nonneg g) as Hg.
  assert (Hsq : (mu * mu) * ssq e <= ssq g) by nra.
  replace (mu * sqrt (ssq e)) with (sqrt (mu * mu * ssq e)).
  - apply sqrt_le_1_alt; exact Hsq.
  - rewrite sqrt_mult_alt by nra. rewrite sqrt_square by lra. reflexivity.
Qed.

Section Quadratic.
Variable n : nat.
Variable A : matR.
Variable b xs : vecR.
Variable mu : R.
Hypothesis mu_pos : 0 < mu.
Hypothesis A_rows : length A = n.
Hypothesis xs_len : length xs = n.
(* A x* = b : x* is the (unique) critical point of f(x) = 1/2 x'Ax - b'x *)
Hypothesis xs_crit : mdotv NumR A xs = b.
(* v'Av >= mu |v|^2 *)
Hypothesis A_coercive : forall v, length v = n -> mu * dot NumR v v <= dot NumR v (mdotv NumR A v).
(* A is linear on differences (true for every matrix whose rows have length n; kept as a
   hypothesis so that no shape lemma about [mdotv] is needed) *)
Hypothesis A_linear : forall x, length x = n ->
  mdotv NumR A (vsub NumR x xs) = vsub NumR (mdotv NumR A x) (mdotv NumR A xs).

Definition qgrad (x : vecR) : vecR := vsub NumR (mdotv NumR A x) b.

Lemma vsub_len (a c : vecR) : length a = length c -> length (vsub NumR a c) = length a.
Proof.
  revert c; induction a as [|x a IH]; intros [|y c] H; simpl in *; try discriminate; auto.
  injection H as H. f_equal. apply IH; exact H.
Qed.
Lemma mdotv_len (M : matR) v : length (mdotv NumR M v) = length M.
Proof. unfold mdotv. apply map_length. Qed.

Theorem quadratic_distance_l x eps : length x = n ->
  norm NumR (qgrad x) < eps -> norm NumR (vsub NumR x xs) < eps / mu.
Proof.
  intros Hx Hg.
  set (e := vsub NumR x xs).
  assert (Le : length e = n) by (unfold e; rewrite vsub_len; congruence).
  assert (Hgrad : qgrad x = mdotv NumR A e).
  { unfold qgrad, e. rewrite A_linear by exact Hx. now rewrite xs_crit. }
  pose proof (A_coercive e Le) as Hc. rewrite !dot_rdot, rdot_self in Hc.
  rewrite <- Hgrad in Hc.
  assert (Lg : length (qgrad x) = length e) by (rewrite Hgrad, mdotv_len; congruence).
  pose proof (coercive_bound mu e (qgrad x) mu_pos Lg Hc) as Hb.
  rewrite !norm_sqrt in *.
  apply Rmult_lt_reg_l with mu; [exact mu_pos|].
  replace (mu * (eps / mu)) with eps by (field; lra). lra.
Qed.
End Quadratic.

(* diagonal A = diag(a): the hypotheses are discharged, n arbitrary *)
Fixpoint dgrad (a b x : vecR) : vecR :=
  match a, b, x with
  | ai :: a', bi :: b', xi :: x' => (ai * xi - bi) :: dgrad a' b' x'
  | _, _, _ => []
  end.
Fixpoint dmin (a b : vecR) : vecR :=
  match a, b with ai :: a', bi :: b' => (bi / ai) :: dmin a' b' | _, _ => [] end.

Lemma diag_core mu : 0 < mu -> forall a b x, length a = length x -> length b = length x ->
  Forall (fun ai => mu <= ai) a ->
  mu * ssq (rsub x (dmin a b)) <= rdot (rsub x (dmin a b)) (dgrad a b x) /\
  length (dgrad a b x) = length (rsub x (dmin a b)).
Proof.
  intros Hmu. induction a as [|ai a IH]; intros [|bi b] [|xi x] Ha Hb Hf; simpl in *; try discriminate;
    try (split; [lra | reflexivity]).
  injection Ha as Ha. injection Hb as Hb. inversion Hf as [|? ? Hai Hf']; subst.
  destruct (IH b x Ha Hb Hf') as [I1 I2]. split; [|now rewrite I2].
  assert (E : ai * xi - bi = ai * (xi - bi / ai)) by (field; lra).
  rewrite E. pose proof (Rle_0_sqr (xi - bi / ai)) as Hs; unfold Rsqr in Hs. nra.
Qed.

Theorem quadratic_distance_diag_l mu a b x eps : 0 < mu ->
  length a = length x -> length b = length x -> Forall (fun ai => mu <= ai) a ->
  norm NumR (dgrad a b x) < eps -> norm NumR (vsub NumR x (dmin a b)) < eps / mu.
Proof.
  intros Hmu Ha Hb Hf Hg.
  destruct (diag_core mu Hmu a b x Ha Hb Hf) as [Hc Hl].
  pose proof (coercive_bound mu _ _ Hmu Hl Hc) as Hbd.
  rewrite !norm_sqrt, vsub_rsub in *.
  apply Rmult_lt_reg_l with mu; [exact Hmu|].
  replace (mu * (eps / mu)) with eps by (field; lra). lra.
Qed.

Lemma quadratic_distance_instance_l :
  norm NumR (dgrad [2; 3] [2; 3] [1; 1]) < 1 -> norm NumR (vsub NumR [1; 1] (dmin [2; 3] [2; 3])) < 1 / 2.
Proof.
  apply quadratic_distance_diag_l; [lra | reflexivity | reflexivity |].
  repeat constructor; lra.
Qed.

(* composition with the stop-condition theorems (carrier R, pure objective): a Converged
   return of any of the gradient-norm machines / the newton critical-point machine lies
   within eps/mu of the minimiser *)
Theorem stop_ok_gives_distance
  (F : nat -> query (A := R) -> answer (A := R)) HK CS (f : query (A := R) -> answer (A := R))
  n A b xs mu eps tr x :
  0 < mu -> length A = n -> length xs = n -> mdotv NumR A xs = b ->
  (forall v, length v = n -> mu * dot NumR v v <= dot NumR v (mdotv NumR A v)) ->
  (forall y, length y = n -> mdotv NumR A (vsub NumR y xs) = vsub NumR (mdotv NumR A y) (mdotv NumR A xs)) ->
  (forall k q, F k q = f q) -> (forall y, a_g (f (QGrad y)) = qgrad A b y) ->
  length x = n -> wf F HK CS tr -> stop_ok NumR eps tr x ->
  norm NumR (vsub NumR x xs) < eps / mu.
Proof.
  intros Hmu HA Hxs Hcrit Hco Hlin Hp Hgr Hx W (a & Hin & He & Hn).
  assert (Ha : a = f (QGrad x)).
  { clear - W Hin Hp. induction W; simpl in Hin.
    - destruct Hin.
    - destruct Hin as [E | Hin]; [inversion E; subst; apply Hp | auto].
    - destruct Hin as [E | Hin]; [discriminate | auto].
    - destruct Hin as [E | Hin]; [discriminate | auto]. }
  subst a. rewrite Hgr in Hn. apply Rltb_true in Hn.
  eapply quadratic_distance_l; eauto.
Qed.

Theorem newton_crit_gives_distance
  (NF : nat -> vecR -> nw_answer (A := R)) ND NHK NCS (f : vecR -> nw_answer (A := R))
  n A b xs mu eps tr x :
  0 < mu -> length A = n -> length xs = n -> mdotv NumR A xs = b ->
  (forall v, length v = n -> mu * dot NumR v v <= dot NumR v (mdotv NumR A v)) ->
  (forall y, length y = n -> mdotv NumR A (vsub NumR y xs) = vsub NumR (mdotv NumR A y) (mdotv NumR A xs)) ->
  (forall k y, NF k y = f y) -> (forall y, n_y (f y) = qgrad A b y) ->
  length x = n -> nwf NF ND NHK NCS tr -> nw_stop_ok NumR eps tr x ->
  norm NumR (vsub NumR x xs) < eps / mu.
Proof.
  intros Hmu HA Hxs Hcrit Hco Hlin Hp Hgr Hx W (a & L & He & Hn).
  assert (Ha : a = f x).
  { assert (Hin : In (NvEval x a) tr).
    { clear - L. induction tr as [|e t IH]; simpl in L; [discriminate|].
      destruct e as [x' a'| | |]; [inversion L; subst; now left | right; auto ..]. }
    clear - W Hin Hp. induction W; simpl in Hin.
    - destruct Hin.
    - destruct Hin as [E | Hin]; [inversion E; subst; apply Hp | auto].
    - destruct Hin as [E | Hin]; [discriminate | auto].
    - destruct Hin as [E | Hin]; [discriminate | auto].
    - destruct Hin as [E | Hin]; [discriminate | auto]. }
  subst a. rewrite Hgr in Hn. apply Rltb_true in Hn.
  eapply quadratic_distance_l; eauto.
Qed.
