(* C07 (round 4) — a concrete run of the sagaJit machine on binary64 (hypotheses satisfiable):
   one sample f(x) = 0.5 (x2 - 1)^2 (data vector (0, 1): coordinate 1 is never stored), JitUpdateL1
   with lambda = 0.125, gamma = 0.5, epsilon = 0.125.  The coordinate no sample touches is only moved
   by the just-in-time L1 steps at the end of each epoch (0.25 -> 0.1875 -> ... -> 0), the run
   converges after six epochs with the test over all coordinates satisfied. *)
From Coq Require Import ZArith List Bool Floats.
From ADV Require Import Base.Num Base.Corr C07.Model C07.ModelSaga C07.ModelSagaJit C07.SpecSaga C07.ExamplesSaga.
Import ListNotations.
Open Scope float_scope.

Definition sgl (k : nat) (j : nat) (x : list float) : sg_answer (A := float) :=
  match x with [a; b] => mkSgAns false (b - 1) [0; 1] | _ => mkSgAns true 0 [] end.
Definition Pjit : sg_params (A := float) := mkSg 1%nat 0.5 0.125 50%Z false (PL1 0.125) false true.

Lemma sagajit_converges_l :
  exists tr xs d rest, saga_jit NumF sgl noRJ noSHK Pjit 100 [0.25; 3]
               = (SgConv [0; 0.908203125], tr, (xs, [0; 0.908203125], d, true) :: rest) /\
     sg_eval_stop_all NumF xs [0; 0.908203125] (sg_tol NumF Pjit) = SStop d /\ length rest = 5%nat /\
     last rest ([], [], 0, true) = ([0.25; 3], [0.1875; 1.9375], 0x1.18c6318c6318cp-1, false).
Proof. do 4 eexists; split; [vm_compute; reflexivity | repeat split; vm_compute; reflexivity]. Qed.
