(* C07 — rprop_dense.go at HEAD (after fix c65a3ee: copy(x1,x2) before the stop test, and
   fix 8bc6fe7: the gradient is evaluated at x0 before the loop): full stop condition,
   honest hook arguments (first call included), constraints, iteration cap. *)
From Coq Require Import ZArith List Bool Lia.
From ADV Require Import Base.Num C07.Model C07.Spec C07.ProofsBase.
Import ListNotations.
Open Scope Z_scope.

Section Dense.
Context {A : Type} (NM : Num A).
Variable F : nat -> query (A := A) -> answer (A := A).
Variable HK : nat -> hookargs (A := A) -> bool.
Variable CS : nat -> list A -> bool.
Variable P : rp_params (A := A).

Notation wf := (wf F HK CS).
Notation good := (good F HK CS).
Notation trace := (trace (A := A)).
Ltac nonconv := let x := fresh "x" in let X := fresh "X" in intros x X; discriminate X.

Definition dinner_post (tr : trace) (r : rp_inner_res (A := A)) : Prop :=
  match r with
  | RIFuel => True
  | RINaN _ tr' | RIErr tr' => good tr' /\ ext tr tr' /\ n_hooks tr' = n_hooks tr
  | RIOk x2 a _ tr' =>
      good tr' /\ ext tr tr' /\ n_hooks tr' = n_hooks tr /\
      In (EvEval (QGrad x2) a) tr' /\ a_err a = false /\ accepted (rp_cons P) tr' x2
  end.

Lemma dinner_post_weaken tr tr1 r :
  ext tr tr1 -> n_hooks tr1 = n_hooks tr -> dinner_post tr1 r -> dinner_post tr r.
Proof.
  intros E N. destruct r; simpl; auto.
  - intros (G & E' & N'). ssplit; auto. eapply ext_trans; eauto. congruence.
  - intros (G & E' & N'). ssplit; auto. eapply ext_trans; eauto. congruence.
  - intros (G & E' & N' & R). ssplit; try tauto. eapply ext_trans; eauto. congruence.
Qed.

Lemma rpd_inner_ok fuel : forall x1 x2 g step tr,
  good tr -> dinner_post tr (rpd_inner NM F CS P fuel x1 x2 g step tr).
Proof.
  induction fuel as [|f IH]; intros x1 x2 g step tr G; simpl; [exact I|].
  destruct (snd (rp_upd_x NM x1 x2 g step)).
  { simpl. ssplit; auto using ext_refl. }
  remember (fst (rp_upd_x NM x1 x2 g step)) as x2' eqn:Hx2.
  remember (F (length tr) (QGrad x2')) as a eqn:Ha.
  assert (G1 : good (EvEval (QGrad x2') a :: tr)) by (subst a; apply good_eval; auto).
  destruct (a_err a) eqn:Herr.
  { simpl. ssplit; [exact G1 | apply ext_step | reflexivity]. }
  destruct (any_nan NM (a_g a)).
  { apply dinner_post_weaken with (tr1 := EvEval (QGrad x2') a :: tr); [apply ext_step | reflexivity | apply IH; exact G1]. }
  destruct (rp_cons P) eqn:Hc.
  - remember (CS (S (length tr)) x2') as ok eqn:Hok.
    assert (G2 : good (EvCons x2' ok :: EvEval (QGrad x2') a :: tr))
      by (subst ok; exact (good_cons F HK CS (EvEval (QGrad x2') a :: tr) x2' G1)).
    destruct ok.
    + simpl. rewrite Hc. ssplit; [exact G2 | apply ext_cons, ext_step | reflexivity | right; left; reflexivity | exact Herr | intros _; left; reflexivity].
    + apply dinner_post_weaken with (tr1 := EvCons x2' false :: EvEval (QGrad x2') a :: tr); [apply ext_cons, ext_step | reflexivity | apply IH; exact G2].
  - simpl. rewrite Hc. ssplit; [exact G1 | apply ext_step | reflexivity | left; reflexivity | exact Herr | intros X; discriminate X].
Qed.

Definition rpd_post (n0 : nat) (i : Z) (o : outcome (A := A)) (tr : trace) : Prop :=
  good tr /\ point_accepted (rp_cons P) tr o /\
  (forall x, o = Converged x -> stop_ok NM (rp_eps P) tr x) /\
  (n_hooks tr <= n0 + Z.to_nat (rp_maxit P - i))%nat.

(* invariant: gnew is the logged gradient of the current point x1 *)
Lemma rpd_loop_ok fuel : forall i x1 x2 gnew step tr,
  good tr -> accepted (rp_cons P) tr x1 ->
  (exists a, In (EvEval (QGrad x1) a) tr /\ a_err a = false /\ gnew = a_g a) ->
  rpd_post (n_hooks tr) i (fst (rpd_loop NM F HK CS P fuel i x1 x2 gnew step tr))
                          (snd (rpd_loop NM F HK CS P fuel i x1 x2 gnew step tr)).
Proof.
  unfold rpd_post.
  induction fuel as [|f IH]; intros i x1 x2 gnew step tr G Hacc Hg; simpl.
  { ssplit; [exact G | exact I | nonconv | lia]. }
  destruct (i <? rp_maxit P) eqn:Hi.
  2:{ simpl. ssplit; [exact G | exact Hacc | nonconv | lia]. }
  apply Z.ltb_lt in Hi.
  assert (Hz : Z.to_nat (rp_maxit P - i) = S (Z.to_nat (rp_maxit P - (i + 1)))) by lia.
  remember (mkHook x1 gnew None step) as h eqn:Hh.
  assert (M : hook_matched tr h).
  { destruct Hg as (a & Hin & He & Hga). exists a. subst h; simpl. ssplit; auto. }
  remember (if rp_hook P then EvHook h (if rp_hook P then HK (length tr) h else false) :: tr else tr) as tr1 eqn:Htr1.
  assert (G1 : good tr1) by (subst tr1; apply good_opt_hook; auto).
  assert (E1 : ext tr tr1) by (subst tr1; apply ext_opt).
  assert (N1 : (n_hooks tr1 <= S (n_hooks tr))%nat).
  { subst tr1. destruct (rp_hook P); [rewrite n_hooks_hook|]; lia. }
  clear Htr1.
  destruct (if rp_hook P then HK (length tr) h else false).
  { simpl. ssplit; [exact G1 | eapply accepted_ext; eauto | nonconv | lia]. }
  pose proof (rpd_inner_ok f x1 x2 gnew step tr1 G1) as IN.
  destruct (rpd_inner NM F CS P f x1 x2 gnew step tr1)
    as [ | x2' tr2 | tr2 | x2' a step' tr2]; simpl in IN |- *.
  - ssplit; [exact G1 | exact I | nonconv | lia].
  - destruct IN as (G2 & E2 & N2). ssplit; [exact G2 | exact I | nonconv | lia].
  - destruct IN as (G2 & E2 & N2). ssplit; [exact G2 | exact I | nonconv | lia].
  - destruct IN as (G2 & E2 & N2 & Hin2 & Herr2 & Hacc2).
    destruct (ltb NM (norm NM (a_g a)) (rp_eps P)) eqn:Hn; simpl.
    + ssplit; [exact G2 | exact Hacc2 | | lia].
      intros x X. inversion X; subst x. exists a. ssplit; auto.
    + assert (Hg2 : exists a', In (EvEval (QGrad x2') a') tr2 /\ a_err a' = false /\ a_g a = a_g a')
        by (exists a; auto).
      specialize (IH (i + 1) x2' x2' (a_g a) (rp_upd_step NM P gnew (a_g a) step') tr2 G2 Hacc2 Hg2).
      destruct IH as (W & PA & SP & NH). ssplit; [exact W | exact PA | exact SP | lia].
Qed.

Theorem rprop_dense_ok fuel x0 :
  rpd_post 0 0 (fst (rprop_dense NM F HK CS P fuel x0)) (snd (rprop_dense NM F HK CS P fuel x0)).
Proof.
  unfold rprop_dense.
  remember (if rp_cons P then CS 0 x0 else true) as ok eqn:Hok.
  remember (if rp_cons P then [EvCons x0 ok] else []) as tr0 eqn:Htr0.
  assert (G0 : good tr0).
  { subst tr0. destruct (rp_cons P); [|apply good_nil]. subst ok.
    apply (good_cons F HK CS [] x0). apply good_nil. }
  assert (Hacc : ok = true -> accepted (rp_cons P) tr0 x0).
  { unfold accepted. intros -> Hc. subst tr0. rewrite Hc. left; reflexivity. }
  assert (N0 : n_hooks tr0 = 0%nat) by (subst tr0; destruct (rp_cons P); reflexivity).
  clear Htr0 Hok.
  destruct ok; cbn [negb fst snd].
  2:{ unfold rpd_post; ssplit; [exact G0 | exact I | nonconv | lia]. }
  remember (F (length tr0) (QGrad x0)) as a eqn:Ha.
  assert (G1 : good (EvEval (QGrad x0) a :: tr0)) by (subst a; apply good_eval; auto).
  destruct (a_err a) eqn:He; cbn [fst snd].
  { unfold rpd_post; ssplit; [exact G1 | exact I | nonconv | rewrite n_hooks_eval; lia]. }
  destruct (any_nan NM (a_g a)); cbn [fst snd].
  { unfold rpd_post; ssplit; [exact G1 | exact I | nonconv | rewrite n_hooks_eval; lia]. }
  assert (Hacc1 : accepted (rp_cons P) (EvEval (QGrad x0) a :: tr0) x0)
    by (eapply accepted_ext; [apply ext_step | exact (Hacc eq_refl)]).
  assert (Hg : exists a', In (EvEval (QGrad x0) a') (EvEval (QGrad x0) a :: tr0) /\ a_err a' = false /\ a_g a = a_g a')
    by (exists a; ssplit; auto; left; reflexivity).
  pose proof (rpd_loop_ok fuel 0 x0 x0 (a_g a) (repeat (rp_step0 P) (length x0)) _ G1 Hacc1 Hg) as L.
  rewrite n_hooks_eval, N0 in L. exact L.
Qed.

End Dense.
