(* C07 — oracle-machine models of the optimisers in /repo/algorithm.
   rprop/rprop.go, rprop/rprop_dense.go, gradientDescent/gradientDescent.go,
   lineSearch/lineSearch.go, bfgs/bfgs.go, adam/adam_dense.go (dense, with gradient).

   Every routine is a fuel-bounded total function.  The user's objective
   (evaluated through AD), the hook and the constraint callback are the
   oracles F, HK, CS (Section variables): the k-th external call of a run is
   answered by [F k], [HK k], [CS k] (k = number of external calls made
   before), so stateful objectives ("error after k calls") are covered and a
   pure objective is the special case [F k = f].  Every external call is
   recorded in the trace (newest first).  All arithmetic goes through the
   carrier record [Num A] in Go's operation order, so the primitive-float
   instance replays the Go code bit for bit.  No proofs in this file. *)
From Coq Require Import ZArith List Bool.
From ADV Require Import Base.Num.
Import ListNotations.
Open Scope Z_scope.

Section Model.
Context {A : Type} (NM : Num A).

Local Infix "+." := (add NM) (at level 50, left associativity).
Local Infix "-." := (sub NM) (at level 50, left associativity).
Local Infix "*." := (mul NM) (at level 40, left associativity).
Local Infix "/." := (div NM) (at level 40, left associativity).
Local Infix "<." := (ltb NM) (at level 70).
Local Infix "<=." := (leb NM) (at level 70).
Local Infix "==." := (eqb NM) (at level 70).
Local Notation zr := (zero NM).
Local Notation on := (one NM).

(* constants that appear as decimal literals in the Go code *)
Record consts := mkConsts {
  k_c1 : A;    (* 1e-4  lineSearch.go: c1 *)
  k_c2 : A;    (* 0.9   lineSearch.go: c2 *)
  k_half : A;  (* 0.5   lineSearch.go: alpha_j *= 0.5 *)
  k_two : A    (* 2.0 *)
}.
Variable K : consts.

Definition vec := list A.
Definition mat := list vec.

(* ---------------------------------------------------------------- oracles and trace *)

Record answer := mkAns { a_err : bool; a_y : A; a_g : vec }.

(* QGrad x : objective called on x with x.Variables(1) (seed = identity);
   QDir x p: objective called on X2 = x1 + p*alpha inside the BFGS line search
             (one independent variable alpha, d X2[i] / d alpha = p[i]). *)
Inductive query := QGrad (x : vec) | QDir (x p : vec).

Record hookargs := mkHook { h_x : vec; h_g : vec; h_y : option A; h_step : vec }.

Inductive event :=
| EvEval (q : query) (a : answer)
| EvHook (h : hookargs) (stop : bool)
| EvCons (x : vec) (ok : bool).
Definition trace := list event.

Variable F : nat -> query -> answer.
Variable HK : nat -> hookargs -> bool.
Variable CS : nat -> vec -> bool.

Inductive outcome :=
| Converged (x : vec)   (* the routine's own stop test fired *)
| HookStop (x : vec)    (* the hook asked to stop *)
| Cap (x : vec)         (* iteration cap reached *)
| Err (x : vec)         (* returned with a non-nil error *)
| Panicked              (* Go panic *)
| OutOfFuel.            (* model fuel exhausted: says nothing about the code *)

(* ---------------------------------------------------------------- vector helpers *)

Fixpoint zipw {X Y Z : Type} (f : X -> Y -> Z) (a : list X) (b : list Y) : list Z :=
  match a, b with
  | x :: a', y :: b' => f x y :: zipw f a' b'
  | _, _ => []
  end.

(* algorithm.Norm / Float64.Vnorm: sum += math.Pow(x, 2.0); math.Sqrt(sum).
   math.Pow(x,2) is the correctly rounded x*x unless the square is subnormal. *)
Definition sumsq (v : vec) : A := fold_left (fun s x => s +. x *. x) v zr.
Definition norm (v : vec) : A := nsqrt NM (sumsq v).
(* VdotV / rows of MdotV, VdotM, MdotM: r = 0; t = a*b; r = r + t *)
Definition dot (a b : vec) : A := fold_left (fun s p => s +. fst p *. snd p) (combine a b) zr.
Definition any_nan (v : vec) : bool := existsb (is_nan NM) v.
Definition vadd (a b : vec) : vec := zipw (add NM) a b.
Definition vsub (a b : vec) : vec := zipw (sub NM) a b.
Definition vmuls (a : vec) (s : A) : vec := map (fun x => x *. s) a.
Definition vequal (a b : vec) : bool := forallb (fun b => b) (zipw (eqb NM) a b).
Definition nez (x : A) : bool := negb (x ==. zr).   (* Go: x != 0.0 *)

Definition mdotv (M : mat) (v : vec) : vec := map (fun row => dot row v) M.
Definition outer (a b : vec) : mat := map (fun x => map (fun y => x *. y) b) a.
Definition madd (M N : mat) : mat := zipw vadd M N.
Definition msub (M N : mat) : mat := zipw vsub M N.
Definition mdivs (M : mat) (s : A) : mat := map (map (fun x => x /. s)) M.
Definition mmuls (M : mat) (s : A) : mat := map (map (fun x => x *. s)) M.
Definition col (M : mat) (j : nat) : vec := map (fun row => nth j row zr) M.
Definition mdotm (n : nat) (M N : mat) : mat :=
  let cols := map (col N) (seq 0 n) in
  map (fun row => map (fun c => dot row c) cols) M.
Definition ident (n : nat) : mat :=
  map (fun i => map (fun j => if Nat.eqb i j then on else zr) (seq 0 n)) (seq 0 n).

(* ================================================================ rprop/rprop.go *)

Record rp_params := mkRp {
  rp_step0 : A; rp_eta0 : A; rp_eta1 : A; rp_eps : A; rp_maxit : Z;
  rp_hook : bool;   (* hook.Value != nil *)
  rp_cons : bool    (* constraints.Value != nil *)
}.

Section Rprop.
Variable P : rp_params.

(* "update x": x2[i] = x1[i] -/+ step[i] where gradient_new[i] != 0; the first NaN
   stops the loop (x2 is returned half-updated with an error) *)
Fixpoint rp_upd_x (x1 x2 g step : vec) : vec * bool :=
  match x1, x2, g, step with
  | a :: x1', b :: x2', gi :: g', s :: st' =>
      let b' := if nez gi then (if zr <. gi then a -. s else a +. s) else b in
      if is_nan NM b' then (b' :: x2', true)
      else let r := rp_upd_x x1' x2' g' st' in (b' :: fst r, snd r)
  | _, _, _, _ => ([], false)
  end.

(* "if the updated is invalid reduce step size" *)
Definition rp_shrink (g step : vec) : vec :=
  zipw (fun gi s => if nez gi then s *. rp_eta1 P else s) g step.

(* "update step size" *)
Definition rp_upd_step (gold gnew step : vec) : vec :=
  zipw (fun gg s => let go := fst gg in let gn := snd gg in
          if nez gn then
            (if ((go <. zr) && (gn <. zr)) || ((zr <. go) && (zr <. gn))
             then s *. rp_eta0 P else s *. rp_eta1 P)
          else s) (combine gold gnew) step.

Inductive rp_inner_res :=
| RIFuel
| RINaN (x2 : vec) (tr : trace)
| RIErr (tr : trace)                                  (* dense variant only *)
| RIOk (x2 : vec) (a : answer) (step : vec) (tr : trace).

(* the inner "for { ... }" of rprop(): no iteration cap in the Go code *)
Fixpoint rp_inner (fuel : nat) (x1 x2 g step : vec) (tr : trace) : rp_inner_res :=
  match fuel with
  | O => RIFuel
  | S f =>
    let u := rp_upd_x x1 x2 g step in
    let x2' := fst u in
    if snd u then RINaN x2' tr
    else
      let a := F (length tr) (QGrad x2') in
      let tr1 := EvEval (QGrad x2') a :: tr in
      if a_err a || any_nan (a_g a) then rp_inner f x1 x2' g (rp_shrink g step) tr1
      else if rp_cons P then
        let ok := CS (length tr1) x2' in
        let tr2 := EvCons x2' ok :: tr1 in
        if ok then RIOk x2' a step tr2 else rp_inner f x1 x2' g (rp_shrink g step) tr2
      else RIOk x2' a step tr1
  end.

Fixpoint rp_loop (fuel : nat) (i : Z) (x1 x2 gnew step : vec) (s : answer) (tr : trace)
  : outcome * trace :=
  match fuel with
  | O => (OutOfFuel, tr)
  | S f =>
    if i <? rp_maxit P then
      let gold := gnew in
      let gnew := a_g s in
      let h := mkHook x1 gnew (Some (a_y s)) step in
      let stop := if rp_hook P then HK (length tr) h else false in
      let tr1 := if rp_hook P then EvHook h stop :: tr else tr in
      if stop then (HookStop x1, tr1)
      else if norm gnew <. rp_eps P then (Converged x1, tr1)
      else
        let step' := rp_upd_step gold gnew step in
        match rp_inner f x1 x2 gnew step' tr1 with
        | RIFuel => (OutOfFuel, tr1)
        | RINaN x2' tr2 => (Err x2', tr2)
        | RIErr tr2 => (Err x1, tr2)
        | RIOk x2' a step'' tr2 => rp_loop f (i + 1) x2' x2' gnew step'' a tr2
        end
    else (Cap x1, tr)
  end.

Definition rprop (fuel : nat) (x0 : vec) : outcome * trace :=
  let n := length x0 in
  let x1 := x0 in
  let ok := if rp_cons P then CS 0 x1 else true in
  let tr0 := if rp_cons P then [EvCons x1 ok] else [] in
  if negb ok then (Err x1, tr0)
  else
    let a := F (length tr0) (QGrad x1) in
    let tr1 := EvEval (QGrad x1) a :: tr0 in
    if a_err a then (Err x1, tr1)
    else if any_nan (a_g a) then (Err x1, tr1)
    else rp_loop fuel 0 x1 x1 (repeat on n) (repeat (rp_step0 P) n) a tr1.

(* ================================================================ rprop/rprop_dense.go *)
(* evalGradient(x2, gradient_new) overwrites gradient_new in place, so a rejected
   point's gradient drives the retry.  At HEAD (fix c65a3ee, 8bc6fe7): the gradient is
   evaluated at x0 before the loop (an error or NaN there is returned), and
   copy(x1, x2) comes BEFORE the stop test, so the point that passed is returned. *)

Fixpoint rpd_inner (fuel : nat) (x1 x2 g step : vec) (tr : trace) : rp_inner_res :=
  match fuel with
  | O => RIFuel
  | S f =>
    let u := rp_upd_x x1 x2 g step in
    let x2' := fst u in
    if snd u then RINaN x2' tr
    else
      let a := F (length tr) (QGrad x2') in
      let tr1 := EvEval (QGrad x2') a :: tr in
      if a_err a then RIErr tr1
      else
        let g' := a_g a in
        if any_nan g' then rpd_inner f x1 x2' g' (rp_shrink g' step) tr1
        else if rp_cons P then
          let ok := CS (length tr1) x2' in
          let tr2 := EvCons x2' ok :: tr1 in
          if ok then RIOk x2' a step tr2 else rpd_inner f x1 x2' g' (rp_shrink g' step) tr2
        else RIOk x2' a step tr1
  end.

Fixpoint rpd_loop (fuel : nat) (i : Z) (x1 x2 gnew step : vec) (tr : trace) : outcome * trace :=
  match fuel with
  | O => (OutOfFuel, tr)
  | S f =>
    if i <? rp_maxit P then
      let gold := gnew in
      let h := mkHook x1 gnew None step in
      let stop := if rp_hook P then HK (length tr) h else false in
      let tr1 := if rp_hook P then EvHook h stop :: tr else tr in
      if stop then (HookStop x1, tr1)
      else
        match rpd_inner f x1 x2 gnew step tr1 with
        | RIFuel => (OutOfFuel, tr1)
        | RINaN x2' tr2 => (Err x2', tr2)
        | RIErr tr2 => (Err x1, tr2)
        | RIOk x2' a step' tr2 =>
            let gnew' := a_g a in
            (* copy(x1, x2) *)
            if norm gnew' <. rp_eps P then (Converged x2', tr2)
            else rpd_loop f (i + 1) x2' x2' gnew' (rp_upd_step gold gnew' step') tr2
        end
    else (Cap x1, tr)
  end.

Definition rprop_dense (fuel : nat) (x0 : vec) : outcome * trace :=
  let x1 := x0 in
  let ok := if rp_cons P then CS 0 x1 else true in
  let tr0 := if rp_cons P then [EvCons x1 ok] else [] in
  if negb ok then (Err x1, tr0)
  else
    (* compute partial derivatives at the initial value *)
    let a := F (length tr0) (QGrad x1) in
    let tr1 := EvEval (QGrad x1) a :: tr0 in
    if a_err a then (Err x1, tr1)
    else if any_nan (a_g a) then (Err x1, tr1)
    else rpd_loop fuel 0 x1 x1 (a_g a) (repeat (rp_step0 P) (length x0)) tr1.

End Rprop.

(* ================================================================ gradientDescent.go *)

Record gd_params := mkGd { gd_step : A; gd_eps : A; gd_hook : bool }.

Section GD.
Variable P : gd_params.

(* x[i] = x[i] - step*g[i]; panic("Gradient descent diverged!") on the first NaN *)
Fixpoint gd_upd (x g : vec) : option vec :=
  match x, g with
  | a :: x', gi :: g' =>
      let b := a -. gd_step P *. gi in
      if is_nan NM b then None
      else match gd_upd x' g' with Some r => Some (b :: r) | None => None end
  | _, _ => Some []
  end.

(* the loop has no iteration cap in the Go code *)
Fixpoint gd_loop (fuel : nat) (x : vec) (tr : trace) : outcome * trace :=
  match fuel with
  | O => (OutOfFuel, tr)
  | S f =>
    let a := F (length tr) (QGrad x) in
    let tr1 := EvEval (QGrad x) a :: tr in
    if a_err a then (Err x, tr1)
    else
      let g := a_g a in
      let h := mkHook x g (Some (a_y a)) [] in
      let stop := if gd_hook P then HK (length tr1) h else false in
      let tr2 := if gd_hook P then EvHook h stop :: tr1 else tr1 in
      if stop then (HookStop x, tr2)
      else if norm g <. gd_eps P then (Converged x, tr2)
      else match gd_upd x g with
           | None => (Panicked, tr2)
           | Some x' => gd_loop f x' tr2
           end
  end.

Definition gradient_descent (fuel : nat) (x0 : vec) : outcome * trace := gd_loop fuel x0 [].
End GD.

(* ================================================================ lineSearch.go *)

Inductive ls_out :=
| LSConv (a : A)   (* strong Wolfe test passed *)
| LSHook (a : A)
| LSCap (a : A)    (* MaxEval exhausted *)
| LSErr (a : A)
| LSFuel.

Definition ls_alpha (o : ls_out) : A :=
  match o with LSConv a | LSHook a | LSCap a | LSErr a => a | LSFuel => zr end.
Definition ls_is_err (o : ls_out) : bool := match o with LSErr _ => true | _ => false end.
Definition ls_is_fuel (o : ls_out) : bool := match o with LSFuel => true | _ => false end.

Section LineSearch.
Variable lsq : A -> query.    (* how a step length becomes an objective call *)
Variable lsc : A -> vec.      (* the point handed to the constraint callback for a step length *)
Variable ls_hook : bool.
Variable ls_cons : bool.

Definition qmin (a fa fpa b fb : A) : A :=
  let D := fa in
  let C := fpa in
  let db := b -. a *. on in
  let B := (fb -. D -. C *. db) /. (db *. db) in
  a -. C /. (k_two K *. B).

(* x < math.Min(a,b) and x > math.Max(a,b); Min/Max return NaN if an argument is NaN *)
Definition lt_min (x a b : A) : bool :=
  if is_nan NM a || is_nan NM b then false else x <. (if a <. b then a else b).
Definition gt_max (x a b : A) : bool :=
  if is_nan NM a || is_nan NM b then false else (if a <. b then b else a) <. x.

Definition armijo_fails (y0 g0 aj yj : A) : bool := y0 +. k_c1 K *. aj *. g0 <. yj.
Definition curvature_ok (g0 gj : A) : bool := nabs NM gj <=. neg NM (k_c2 K) *. g0.

(* trial step of zoom: quadratic interpolation, bisection when it is NaN or leaves the bracket *)
Definition zoom_pick (alo ahi ylo yhi glo : A) : A :=
  let aq := qmin alo ylo glo ahi yhi in
  if is_nan NM aq || lt_min aq alo ahi || gt_max aq alo ahi
  then (alo +. ahi) /. k_two K else aq.

Fixpoint zoom (fuel : nat) (i maxEval : Z) (alo ahi y0 ylo yhi g0 glo alast : A) (tr : trace)
  : ls_out * trace :=
  match fuel with
  | O => (LSFuel, tr)
  | S f =>
    if i <? maxEval then
      let aj := zoom_pick alo ahi ylo yhi glo in
      if aj ==. zr then (LSErr aj, tr)
      else
        let a := F (length tr) (lsq aj) in
        let tr1 := EvEval (lsq aj) a :: tr in
        if a_err a then (LSErr zr, tr1)
        else
          let yj := a_y a in
          let gj := hd zr (a_g a) in
          let h := mkHook [aj] [gj] (Some yj) [] in
          let stop := if ls_hook then HK (length tr1) h else false in
          let tr2 := if ls_hook then EvHook h stop :: tr1 else tr1 in
          if stop then (LSHook aj, tr2)
          else if armijo_fails y0 g0 aj yj || (ylo <=. yj) then
            zoom f (i + 1) maxEval alo aj y0 ylo yj g0 glo aj tr2
          else if curvature_ok g0 gj then (LSConv aj, tr2)
          else if zr <=. gj *. (ahi -. alo) then
            zoom f (i + 1) maxEval aj alo y0 yj ylo g0 gj aj tr2
          else
            zoom f (i + 1) maxEval aj ahi y0 yj yhi g0 gj aj tr2
    else (LSCap alast, tr)
  end.

Definition zoom_entry (fuel : nat) (maxEval : Z) (alo ahi y0 ylo yhi g0 glo : A) (tr : trace)
  : ls_out * trace :=
  if maxEval <=? 0 then (LSCap (qmin alo ylo glo ahi yhi), tr)
  else zoom fuel 0 maxEval alo ahi y0 ylo yhi g0 glo zr tr.

(* "for !constraints(alpha_j) { alpha_j *= 0.5 }": no cap in the Go code *)
Fixpoint ls_cons_loop (fuel : nat) (aj : A) (tr : trace) : option (A * trace) :=
  match fuel with
  | O => None
  | S f =>
    let ok := CS (length tr) (lsc aj) in
    let tr1 := EvCons (lsc aj) ok :: tr in
    if ok then Some (aj, tr1) else ls_cons_loop f (aj *. k_half K) tr1
  end.

Fixpoint ls_loop (fuel : nat) (i maxEval : Z) (y0 g0 yi gi ai aj : A) (tr : trace)
  : ls_out * trace :=
  match fuel with
  | O => (LSFuel, tr)
  | S f =>
    if i <? maxEval then
      if aj ==. zr then (LSErr zr, tr)
      else
        match (if ls_cons then ls_cons_loop f aj tr else Some (aj, tr)) with
        | None => (LSFuel, tr)
        | Some (aj, tr0) =>
          let a := F (length tr0) (lsq aj) in
          let tr1 := EvEval (lsq aj) a :: tr0 in
          if a_err a then (LSErr zr, tr1)
          else
            let yj := a_y a in
            let gj := hd zr (a_g a) in
            let h := mkHook [aj] [gj] (Some yj) [] in
            let stop := if ls_hook then HK (length tr1) h else false in
            let tr2 := if ls_hook then EvHook h stop :: tr1 else tr1 in
            if stop then (LSHook aj, tr2)
            else if armijo_fails y0 g0 aj yj || ((yi <=. yj) && (0 <? i)) then
              zoom_entry f (maxEval - i) ai aj y0 yi yj g0 gi tr2
            else if curvature_ok g0 gj then (LSConv aj, tr2)
            else if zr <=. gj then
              zoom_entry f (maxEval - i) aj ai y0 yj yi g0 gj tr2
            else
              ls_loop f (i + 1) maxEval y0 g0 yj gj aj (k_two K *. aj) tr2
        end
    else (LSCap ai, tr)
  end.

Definition line_search (fuel : nat) (alpha1 : A) (maxEval : Z) (tr : trace) : ls_out * trace :=
  let a0 := F (length tr) (lsq zr) in
  let tr1 := EvEval (lsq zr) a0 :: tr in
  if a_err a0 then (LSErr zr, tr1)
  else
    let y0 := a_y a0 in
    let g0 := hd zr (a_g a0) in
    ls_loop fuel 0 maxEval y0 g0 y0 g0 zr alpha1 tr1.

End LineSearch.

(* lineSearch.Run on a scalar objective *)
Definition ls_scalar_query (a : A) : query := QGrad [a].
Definition ls_scalar_point (a : A) : vec := [a].
Definition line_search_run (hook cons : bool) (fuel : nat) (alpha1 : A) (maxEval : Z)
  : ls_out * trace :=
  line_search ls_scalar_query ls_scalar_point hook cons fuel alpha1 maxEval [].

(* ================================================================ bfgs.go *)

Record bf_params := mkBf {
  bf_eps : A; bf_maxit : Z; bf_hook : bool; bf_cons : bool;
  bf_H0 : mat    (* matrixInverse.Run(hessian.Value), computed by the caller Run() *)
}.

Section BFGS.
Variable P : bf_params.

Definition bf_dir_query (x1 p1 : vec) (alpha : A) : query :=
  QDir (zipw (fun x p => x +. p *. alpha) x1 p1) p1.
(* constraints_line: P2.VmulS(p1, alpha); X2.VaddV(x1, P2); constraints.Value(X2) *)
Definition bf_cons_point (x1 p1 : vec) (alpha : A) : vec :=
  zipw (fun x p => x +. p *. alpha) x1 p1.

Definition bf_updateH (n : nat) (g1 g2 p2 : vec) (H1 : mat) : option mat :=
  let s := p2 in
  let y := vsub g2 g1 in
  let t1 := dot s y in
  if nabs NM t1 ==. zr then None
  else
    let T5 := mdivs (outer s y) t1 in
    let T5 := msub (ident n) T5 in
    let T6 := mdotm n T5 H1 in
    let H2 := mdotm n T6 T5 in
    let T5 := mdivs (outer s s) t1 in
    Some (madd H2 T5).

(* heuristic initial scaling  H1 *= (s.y)/(y.y) *)
Definition bf_scale (x1 x2 g1 g2 : vec) (H1 : mat) : mat :=
  let t3 := vsub x2 x1 in
  let t4 := vsub g2 g1 in
  let t1 := dot t3 t4 in
  let t2 := dot t4 t4 in
  mmuls H1 (t1 /. t2).

Fixpoint bf_loop (fuel : nat) (i : Z) (x1 x2 : vec) (y1 y2 : A) (g1 g2 : vec) (H1 : mat)
  (first : bool) (tr : trace) : outcome * trace :=
  match fuel with
  | O => (OutOfFuel, tr)
  | S f =>
    if i <? bf_maxit P then
      let n := length x1 in
      let p1 := map (neg NM) (mdotv H1 g1) in
      let r := line_search (bf_dir_query x1 p1) (bf_cons_point x1 p1) false (bf_cons P) f on 100 tr in
      if ls_is_fuel (fst r) then (OutOfFuel, snd r)
      else
        let lo := fst r in
        let tr1 := snd r in
        let alpha := ls_alpha lo in
        let p2 := vmuls p1 alpha in
        let x2' := vadd x1 p2 in
        if ls_is_err lo || vequal x1 x2' then
          if first then (Err x1, tr1)
          else (* first_update = true; H2.Set(H0); g1.Set(g2); x1.Set(x2); y1.Set(y2); H1.Set(H2) *)
            bf_loop f (i + 1) x2' x2' y2 y2 g2 g2 (bf_H0 P) true tr1
        else
          let a := F (length tr1) (QGrad x2') in
          let tr2 := EvEval (QGrad x2') a :: tr1 in
          if a_err a then (Err x1, tr2)
          else
            let g2' := a_g a in
            let y2' := a_y a in
            let h := mkHook x2' g2' (Some y2') [] in
            let stop := if bf_hook P then HK (length tr2) h else false in
            let tr3 := if bf_hook P then EvHook h stop :: tr2 else tr2 in
            if stop then (HookStop x2', tr3)
            else if norm g2' <. bf_eps P then (Converged x2', tr3)
            else
              let H1' := if first then bf_scale x1 x2' g1 g2' H1 else H1 in
              match bf_updateH n g1 g2' p2 H1' with
              | None => bf_loop f (i + 1) x2' x2' y2' y2' g2' g2' (bf_H0 P) true tr3
              | Some H2 => bf_loop f (i + 1) x2' x2' y2' y2' g2' g2' H2 false tr3
              end
    else (Cap x2, tr)
  end.

Definition bfgs (fuel : nat) (x0 : vec) : outcome * trace :=
  let n := length x0 in
  let x1 := x0 in
  let ok := if bf_cons P then CS 0 x1 else true in
  let tr0 := if bf_cons P then [EvCons x1 ok] else [] in
  if negb ok then (Err x1, tr0)
  else
    let a := F (length tr0) (QGrad x1) in
    let tr1 := EvEval (QGrad x1) a :: tr0 in
    if a_err a then (Err x1, tr1)
    else
      let g1 := a_g a in
      let y1 := a_y a in
      if norm g1 <. bf_eps P then (Converged x1, tr1)
      else
        let h := mkHook x1 g1 (Some y1) [] in
        let stop := if bf_hook P then HK (length tr1) h else false in
        let tr2 := if bf_hook P then EvHook h stop :: tr1 else tr1 in
        if stop then (HookStop x1, tr2)
        else bf_loop fuel 0 x1 x1 y1 zr g1 (repeat zr n) (bf_H0 P) true tr2.

End BFGS.

(* ================================================================ adam/adam_dense.go *)
(* adam.RunGradient: step_size is always the default 0.001 (RunGradient has no
   "case StepSize"); the bias corrections beta_t are running products (no math.Pow). *)

Record ad_params := mkAd {
  ad_step : A; ad_beta1 : A; ad_beta2 : A; ad_eps : A;
  ad_delta : A;   (* the literal 1e-8 added to sqrt(v_hat) *)
  ad_maxit : Z; ad_hook : bool; ad_cons : bool
}.

Section Adam.
Variable P : ad_params.

(* "update x": None = NaN detected (the function returns x1 with an error) *)
Fixpoint ad_upd (x1 m v g : vec) (b1t b2t : A) : option (vec * vec * vec) :=
  match x1, m, v, g with
  | a :: x1', mi :: m', vi :: v', gi :: g' =>
      let mi' := ad_beta1 P *. mi +. (on -. ad_beta1 P) *. gi in
      let vi' := ad_beta2 P *. vi +. (on -. ad_beta2 P) *. gi *. gi in
      let m_hat := mi' /. (on -. b1t) in
      let v_hat := vi' /. (on -. b2t) in
      let b := a -. ad_step P *. m_hat /. (nsqrt NM v_hat +. ad_delta P) in
      if is_nan NM b then None
      else match ad_upd x1' m' v' g' b1t b2t with
           | Some (xs, ms, vs) => Some (b :: xs, mi' :: ms, vi' :: vs)
           | None => None
           end
  | _, _, _, _ => Some ([], [], [])
  end.

(* At HEAD (fix f6a3a16): copy(x1, x2) comes right after the NaN / constraints checks, so x1
   is always the last evaluated and accepted point; errors before it return the previous x1 *)
Fixpoint ad_loop (fuel : nat) (i : Z) (x1 x2 m v : vec) (b1t b2t : A) (tr : trace)
  : outcome * trace :=
  match fuel with
  | O => (OutOfFuel, tr)
  | S f =>
    if i <? ad_maxit P then
      let a := F (length tr) (QGrad x2) in
      let tr1 := EvEval (QGrad x2) a :: tr in
      if a_err a then (Err x1, tr1)
      else
        let g := a_g a in
        if any_nan g then (Err x1, tr1)
        else
          let ok := if ad_cons P then CS (length tr1) x2 else true in
          let tr2 := if ad_cons P then EvCons x2 ok :: tr1 else tr1 in
          if negb ok then (Err x1, tr2)
          else
            (* x2 is evaluated and accepted: copy(x1, x2) *)
            let h := mkHook x2 g None [] in
            let stop := if ad_hook P then HK (length tr2) h else false in
            let tr3 := if ad_hook P then EvHook h stop :: tr2 else tr2 in
            if stop then (HookStop x2, tr3)
            else if norm g <. ad_eps P then (Converged x2, tr3)
            else match ad_upd x2 m v g b1t b2t with
                 | None => (Err x2, tr3)
                 | Some (x2', m', v') =>
                     ad_loop f (i + 1) x2 x2' m' v' (b1t *. ad_beta1 P) (b2t *. ad_beta2 P) tr3
                 end
    else (Cap x1, tr)
  end.

Definition adam_dense (fuel : nat) (x0 : vec) : outcome * trace :=
  let n := length x0 in
  let x1 := x0 in
  let ok := if ad_cons P then CS 0 x1 else true in
  let tr0 := if ad_cons P then [EvCons x1 ok] else [] in
  if negb ok then (Err x1, tr0)
  else ad_loop fuel 0 x1 x1 (repeat zr n) (repeat zr n) (ad_beta1 P) (ad_beta2 P) tr0.

End Adam.

End Model.

Arguments mkAd {A}.
Arguments mkAns {A}. Arguments a_err {A}. Arguments a_y {A}. Arguments a_g {A}.
Arguments QGrad {A}. Arguments QDir {A}.
Arguments mkHook {A}. Arguments h_x {A}. Arguments h_g {A}. Arguments h_y {A}. Arguments h_step {A}.
Arguments EvEval {A}. Arguments EvHook {A}. Arguments EvCons {A}.
Arguments Converged {A}. Arguments HookStop {A}. Arguments Cap {A}. Arguments Err {A}.
Arguments Panicked {A}. Arguments OutOfFuel {A}.
Arguments LSConv {A}. Arguments LSHook {A}. Arguments LSCap {A}. Arguments LSErr {A}. Arguments LSFuel {A}.
Arguments mkConsts {A}. Arguments k_c1 {A}. Arguments k_c2 {A}. Arguments k_half {A}. Arguments k_two {A}.
Arguments mkRp {A}. Arguments mkGd {A}. Arguments mkBf {A}.
Arguments RIFuel {A}. Arguments RINaN {A}. Arguments RIErr {A}. Arguments RIOk {A}.

(* the constants of the Go source on binary64 *)
From Coq Require Import Floats.
Definition KF : consts (A := float) :=
  mkConsts 0x1.a36e2eb1c432dp-14%float 0x1.ccccccccccccdp-1%float 0.5%float 2%float.
