(* C07 — property theorems (statements only; proofs live in Proofs*.v).
   Every theorem holds for EVERY carrier [NM] (reals, rationals, binary64 floats ...),
   EVERY oracle — the objective evaluated through AD [F], the hook [HK], the
   constraint callback [CS]; the k-th external call of a run is answered by [F k],
   [HK k], [CS k], so stateful callbacks are included and a pure objective is
   [F k = f] — every start point, every parameter record and every fuel.
   [wf tr] says the returned log [tr] is honest (each recorded answer is the
   oracle's answer to the recorded query).  Numbering follows DESIGN.md §2 C07. *)
From Coq Require Import ZArith List Bool Reals Floats.
From ADV Require Import Base.Num C07.Model C07.Spec C07.Proofs C07.ProofsRprop C07.ProofsLS C07.ProofsBfgs
  C07.ProofsDense C07.ProofsAdam C07.Refuted.
Import ListNotations.
Open Scope Z_scope.

Section Props.
Context {A : Type} (NM : Num A).
Variable K : consts (A := A).
Variable F : nat -> query (A := A) -> answer (A := A).
Variable HK : nat -> hookargs (A := A) -> bool.
Variable CS : nat -> list A -> bool.

(* ===== (1) stop condition at the returned point ===== *)
Theorem rprop_stop_condition : forall (P : rp_params) fuel x0 x tr,
  rprop NM F HK CS P fuel x0 = (Converged x, tr) ->
  wf F HK CS tr /\ stop_ok NM (rp_eps P) tr x.
Proof. exact (rprop_stop_l NM F HK CS). Qed.

Theorem gradient_descent_stop_condition : forall (P : gd_params) fuel x0 x tr,
  gradient_descent NM F HK P fuel x0 = (Converged x, tr) ->
  wf F HK CS tr /\ stop_ok NM (gd_eps P) tr x.
Proof. exact (gd_stop_l NM F HK CS). Qed.

Theorem bfgs_stop_condition : forall (P : bf_params) fuel x0 x tr,
  bfgs NM K F HK CS P fuel x0 = (Converged x, tr) ->
  wf F HK CS tr /\ stop_ok NM (bf_eps P) tr x.
Proof. exact (bfgs_stop_l NM K F HK CS). Qed.

Theorem adam_stop_condition : forall (P : ad_params) fuel x0 x tr,
  adam_dense NM F HK CS P fuel x0 = (Converged x, tr) ->
  wf F HK CS tr /\ stop_ok NM (ad_eps P) tr x.
Proof. exact (adam_stop_l NM F HK CS). Qed.

(* line search: the strong Wolfe conditions (constants c1, c2 of the code, literal
   comparisons of the code) hold between the logged answers for 0 and for alpha *)
Theorem line_search_strong_wolfe : forall hk cs fuel alpha1 maxEval alpha tr,
  line_search_run NM K F HK CS hk cs fuel alpha1 maxEval = (LSConv alpha, tr) ->
  wf F HK CS tr /\ ls_stop_ok NM K ls_scalar_query tr alpha.
Proof. exact (ls_stop_l NM K F HK CS). Qed.

(* with a pure objective the logged answer IS the objective at the point:
   "the returned point satisfies the stopping condition when re-evaluated there" *)
Theorem stop_condition_reevaluated : forall (f : query -> answer) eps tr x,
  (forall k q, F k q = f q) -> wf F HK CS tr -> stop_ok NM eps tr x ->
  a_err (f (QGrad x)) = false /\ ltb NM (norm NM (a_g (f (QGrad x)))) eps = true.
Proof. exact (stop_ok_pure NM F HK CS). Qed.

(* rprop_dense (rprop.RunGradient) at HEAD: the full statement (was _partial before fix c65a3ee) *)
Theorem rprop_dense_stop_condition : forall (P : rp_params) fuel x0 x tr,
  rprop_dense NM F HK CS P fuel x0 = (Converged x, tr) ->
  wf F HK CS tr /\ stop_ok NM (rp_eps P) tr x.
Proof. exact (rprop_dense_stop_l NM F HK CS). Qed.

(* ===== (2) hook arguments ===== *)
Theorem rprop_hook_arguments : forall (P : rp_params) fuel x0,
  hooks_ok (snd (rprop NM F HK CS P fuel x0)).
Proof. exact (rprop_hooks_l NM F HK CS). Qed.
Theorem rprop_dense_hook_arguments : forall (P : rp_params) fuel x0,
  hooks_ok (snd (rprop_dense NM F HK CS P fuel x0)).
Proof. exact (rprop_dense_hooks_l NM F HK CS). Qed.
Theorem gradient_descent_hook_arguments : forall (P : gd_params) fuel x0,
  hooks_ok (snd (gradient_descent NM F HK P fuel x0)).
Proof. exact (gd_hooks_l NM F HK CS). Qed.
Theorem bfgs_hook_arguments : forall (P : bf_params) fuel x0,
  hooks_ok (snd (bfgs NM K F HK CS P fuel x0)).
Proof. exact (bfgs_hooks_l NM K F HK CS). Qed.
Theorem adam_hook_arguments : forall (P : ad_params) fuel x0,
  hooks_ok (snd (adam_dense NM F HK CS P fuel x0)).
Proof. exact (adam_hooks_l NM F HK CS). Qed.
Theorem line_search_hook_arguments : forall hk cs fuel alpha1 maxEval,
  ls_hooks_ok NM ls_scalar_query (snd (line_search_run NM K F HK CS hk cs fuel alpha1 maxEval)).
Proof. exact (ls_hooks_l NM K F HK CS). Qed.
Theorem hook_arguments_reevaluated : forall (f : query -> answer) tr h b,
  (forall k q, F k q = f q) -> wf F HK CS tr -> hooks_ok tr -> In (EvHook h b) tr ->
  h_g h = a_g (f (QGrad (h_x h))) /\
  match h_y h with Some y => y = a_y (f (QGrad (h_x h))) | None => True end.
Proof. exact (hooks_ok_pure F HK CS). Qed.

(* ===== (3) constraints ===== *)
Theorem rprop_constraints : forall (P : rp_params) fuel x0,
  point_accepted (rp_cons P) (snd (rprop NM F HK CS P fuel x0)) (fst (rprop NM F HK CS P fuel x0)).
Proof. exact (rprop_cons_l NM F HK CS). Qed.
Theorem rprop_dense_constraints : forall (P : rp_params) fuel x0,
  point_accepted (rp_cons P) (snd (rprop_dense NM F HK CS P fuel x0)) (fst (rprop_dense NM F HK CS P fuel x0)).
Proof. exact (rprop_dense_cons_l NM F HK CS). Qed.
(* adam at HEAD: the full statement, iteration cap included (was _partial before fix f6a3a16) *)
Theorem adam_constraints : forall (P : ad_params) fuel x0,
  point_accepted (ad_cons P) (snd (adam_dense NM F HK CS P fuel x0)) (fst (adam_dense NM F HK CS P fuel x0)).
Proof. exact (adam_cons_l NM F HK CS). Qed.
(* bfgs at HEAD (fix c75edfb passes the constraints to the line search): a rejected start point
   is an error return, and every trial step of the line search's BRACKETING phase (for any
   map [lsc] from step length to submitted point, so also bfgs's x1 + alpha p1) is evaluated
   only after the callback accepted it.  Missing for the full statement: the trial steps of
   zoom are not submitted (F-LS-ZOOM-CONS, linesearch_constraints_refuted), so the point
   bfgs returns may come from an unchecked step length. *)
Theorem bfgs_constraints_partial : forall (P : bf_params) fuel x0,
  bf_cons P = true -> CS 0 x0 = false ->
  bfgs NM K F HK CS P fuel x0 = (Err x0, [EvCons x0 false]).
Proof. exact (bfgs_start_rejected_l NM K F HK CS). Qed.
Theorem line_search_bracketing_trials_checked : forall (lsc : A -> list A) fuel aj tr aj' tr',
  ls_cons_loop NM K CS lsc fuel aj tr = Some (aj', tr') ->
  exists tr0, tr' = EvCons (lsc aj') true :: tr0.
Proof. exact (ls_cons_loop_accepts NM K CS). Qed.
Theorem constraints_reevaluated : forall (c : list A -> bool) tr x,
  (forall k y, CS k y = c y) -> wf F HK CS tr -> accepted true tr x -> c x = true.
Proof. exact (accepted_pure F HK CS). Qed.

(* ===== (5) caps: termination bounds for every oracle ===== *)
Theorem rprop_iteration_cap : forall (P : rp_params) fuel x0,
  (n_hooks (snd (rprop NM F HK CS P fuel x0)) <= Z.to_nat (rp_maxit P))%nat.
Proof. exact (rprop_hook_cap NM F HK CS). Qed.
Theorem rprop_dense_iteration_cap : forall (P : rp_params) fuel x0,
  (n_hooks (snd (rprop_dense NM F HK CS P fuel x0)) <= Z.to_nat (rp_maxit P))%nat.
Proof. exact (rprop_dense_cap_l NM F HK CS). Qed.
Theorem line_search_evaluation_cap : forall hk cs fuel alpha1 maxEval,
  (n_evals (snd (line_search_run NM K F HK CS hk cs fuel alpha1 maxEval)) <= Z.to_nat maxEval + 2)%nat.
Proof. exact (ls_cap_l NM K F HK CS). Qed.
Theorem adam_evaluation_cap : forall (P : ad_params) fuel x0,
  (n_evals (snd (adam_dense NM F HK CS P fuel x0)) <= Z.to_nat (ad_maxit P))%nat.
Proof. exact (adam_cap_l NM F HK CS). Qed.
Theorem bfgs_evaluation_cap : forall (P : bf_params) fuel x0,
  (n_evals (snd (bfgs NM K F HK CS P fuel x0)) <= 1 + 103 * Z.to_nat (bf_maxit P))%nat.
Proof. exact (bfgs_eval_cap NM K F HK CS). Qed.
End Props.

(* strong Wolfe over the reals for a pure objective, in textbook form *)
Theorem line_search_strong_wolfe_reals :
  forall (f : query (A := R) -> answer (A := R)) HK CS hk cs fuel alpha1 maxEval al tr,
  line_search_run NumR KR (fun _ => f) HK CS hk cs fuel alpha1 maxEval = (LSConv al, tr) ->
  let y a := a_y (f (QGrad [a])) in
  let g a := hd 0%R (a_g (f (QGrad [a]))) in
  wolfe_R (y 0%R) (g 0%R) al (y al) (g al).
Proof. exact ls_wolfe_R. Qed.

(* ===== refuted on the faithful model (known finding F-LS-ZOOM-CONS) and regression witnesses ===== *)
(* regression witnesses of defects repaired in /repo (c65a3ee, 8bc6fe7, c75edfb) *)
Theorem rprop_dense_stop_regression :
  exists x tr, rprop_dense NumF Fsq noHK noCS P1 50 [1%float] = (Converged x, tr) /\
     PrimFloat.ltb (norm NumF (a_g (sq (QGrad x)))) (rp_eps P1) = true.
Proof. exact Refuted.rprop_dense_stop_regression. Qed.
Theorem rprop_dense_first_hook_regression :
  hook_gradients_honest sq (snd (rprop_dense NumF Fsq noHK noCS P2 50 [1%float])) = true /\
  nth 1 (rev (snd (rprop_dense NumF Fsq noHK noCS P2 50 [1%float]))) (EvCons [] true)
    = EvHook (mkHook [1%float] [2%float] None [0.5%float]) false.
Proof. exact Refuted.rprop_dense_first_hook_regression. Qed.
Theorem bfgs_constraints_regression :
  exists x tr, bfgs NumF KF (fun _ => sh) noHK le1 P3 400 [0%float] = (Err x, tr) /\
     le1 0%nat x = true /\ submitted_and_accepted tr x = true.
Proof. exact Refuted.bfgs_constraints_regression. Qed.
Theorem linesearch_constraints_refuted :
  exists al tr, line_search_run NumF KF (fun _ => phi) noHK near1 false true 100 1%float 20%Z = (LSConv al, tr) /\
     near1 0%nat [al] = false /\ submitted_and_accepted tr [al] = false.
Proof. exact Refuted.linesearch_constraints_refuted. Qed.

Theorem adam_cap_constraints_regression :
  exists x tr, adam_dense NumF Fsq noHK ge1 P4 10 [1%float] = (Cap x, tr) /\
     ge1 0%nat x = true /\ submitted_and_accepted tr x = true.
Proof. exact Refuted.adam_cap_constraints_regression. Qed.

(* the hypotheses are satisfiable: a run that does converge, with honest hooks *)
Example rprop_converges_on_square :
  hook_gradients_honest sq (snd (rprop NumF Fsq noHK noCS P2 50 [1%float])) = true /\
  exists x tr, rprop NumF Fsq noHK noCS P2 50 [1%float] = (Converged x, tr) /\
     PrimFloat.ltb (norm NumF (a_g (sq (QGrad x)))) (rp_eps P2) = true.
Proof. exact Refuted.rprop_same_oracle_ok. Qed.

(* ===================================================================================
   Round 2: newton_root — newton.RunRoot (y = f(x), J = Jacobian) and newton.RunCrit
   (y = grad f(x), J = Hessian).  For EVERY carrier, EVERY objective oracle [NF], EVERY
   direction oracle [ND] (the linear solve / inverse, the LDL forcePD and the eigenvalue
   Hessian modifications: whatever getDirection answers, including errors and panics),
   hook [NHK], constraint callback [NCS], start point, parameter record and fuel. *)
From ADV Require Import C07.ModelNewton C07.SpecNewton C07.ProofsNewton C07.ExamplesNewton C07.ProofsQuad.

Section PropsNewton.
Context {A : Type} (NM : Num A).
Variable NF : nat -> list A -> nw_answer (A := A).
Variable ND : nat -> Z -> list A -> list (list A) -> dir_ans (A := A).
Variable NHK : nat -> nw_hookargs (A := A) -> bool.
Variable NCS : nat -> list A -> bool.

(* (1) outcome = Converged x -> passes_test x: the LAST evaluation of the objective was at
   the returned point, succeeded, and passes |y| < epsilon (|f(x)| for RunRoot,
   |grad f(x)| for RunCrit) *)
Theorem newton_stop_condition : forall (P : nw_params) fuel x0 x tr,
  newton_root NM NF ND NHK NCS P fuel x0 = (NwConv x, tr) ->
  nwf NF ND NHK NCS tr /\ nw_stop_ok NM (nw_eps P) tr x.
Proof. exact (newton_stop_l NM NF ND NHK NCS). Qed.

(* every return with a nil error (stop test, hook stop, iteration cap) carries the point of
   the last successful evaluation; a point that was only computed (x1 - t1) is never
   returned without an error *)
Theorem newton_returns_evaluated_point : forall (P : nw_params) fuel x0,
  nw_point_evaluated (snd (newton_root NM NF ND NHK NCS P fuel x0)) (fst (newton_root NM NF ND NHK NCS P fuel x0)).
Proof. exact (newton_evaluated_l NM NF ND NHK NCS). Qed.

(* backtrack_exhausted -> outcome = Err: when the back-tracking loop ends because the
   step was shrunk to nothing (x1 - t1 == x1 after k reductions by c), the iteration
   returns the "line search failed" ERROR — never a point with a nil error *)
Theorem newton_backtrack_exit_is_error : forall (P : nw_params) fuel x1 t1 tr tr',
  nw_backtrack NM NCS P fuel x1 t1 tr = BTFail tr' ->
  nw_advance NM NF NCS P fuel x1 t1 tr = AdvStop (NwErr NELineSearch x1) tr' /\
  nw_is_err (NwErr NELineSearch x1) = true /\ nw_step_vanished NM (nw_c P) x1 t1.
Proof. exact (nw_backtrack_exit_is_error_l NM NF NCS). Qed.

(* with pure callbacks: "re-evaluated there" *)
Theorem newton_stop_condition_reevaluated : forall (f : list A -> nw_answer (A := A)) eps tr x,
  (forall k y, NF k y = f y) -> nwf NF ND NHK NCS tr -> nw_stop_ok NM eps tr x ->
  n_err (f x) = false /\ ltb NM (norm NM (n_y (f x))) eps = true.
Proof. exact (nw_stop_pure NM NF ND NHK NCS). Qed.

(* (2) hook arguments: (J, y) are the objective's answer for the x passed with them *)
Theorem newton_hook_arguments : forall (P : nw_params) fuel x0,
  nw_hooks_ok (snd (newton_root NM NF ND NHK NCS P fuel x0)).
Proof. exact (newton_hooks_l NM NF ND NHK NCS). Qed.
Theorem newton_hook_arguments_reevaluated : forall (f : list A -> nw_answer (A := A)) tr h b,
  (forall k y, NF k y = f y) -> nwf NF ND NHK NCS tr -> nw_hooks_ok tr -> In (NvHook h b) tr ->
  nh_J h = n_J (f (nh_x h)) /\ nh_y h = n_y (f (nh_x h)).
Proof. exact (nw_hooks_pure NF ND NHK NCS). Qed.

(* (3) constraints: no non-error outcome carries a point the callback did not accept *)
Theorem newton_constraints : forall (P : nw_params) fuel x0,
  nw_point_accepted (nw_cons P) (snd (newton_root NM NF ND NHK NCS P fuel x0)) (fst (newton_root NM NF ND NHK NCS P fuel x0)).
Proof. exact (newton_cons_l NM NF ND NHK NCS). Qed.
Theorem newton_constraints_reevaluated : forall (c : list A -> bool) tr x,
  (forall k y, NCS k y = c y) -> nwf NF ND NHK NCS tr -> nw_accepted true tr x -> c x = true.
Proof. exact (nw_accepted_pure NF ND NHK NCS). Qed.

(* (5) caps: at most 1 + MaxIterations evaluations, MaxIterations hook calls and
   MaxIterations calls of getDirection, for every oracle *)
Theorem newton_iteration_cap : forall (P : nw_params) fuel x0,
  (nw_n_evals (snd (newton_root NM NF ND NHK NCS P fuel x0)) <= 1 + Z.to_nat (nw_maxit P))%nat /\
  (nw_n_hooks (snd (newton_root NM NF ND NHK NCS P fuel x0)) <= Z.to_nat (nw_maxit P))%nat /\
  (nw_n_dirs (snd (newton_root NM NF ND NHK NCS P fuel x0)) <= Z.to_nat (nw_maxit P))%nat.
Proof. exact (newton_caps_l NM NF ND NHK NCS). Qed.
End PropsNewton.

(* the hypotheses are satisfiable and the back-tracking exit is reachable (binary64) *)
Example newton_converges_on_square :
  exists x tr, newton_root NumF (fun _ => sq2) solve1 noNHK noNCS Pn 100 [1%float] = (NwConv x, tr) /\
     PrimFloat.ltb (norm NumF (n_y (sq2 x))) eps8 = true.
Proof. exact newton_converges_on_square_l. Qed.
Example newton_backtrack_exit_reached :
  exists tr, newton_root NumF (fun _ => sq2) solve1 noNHK le125 Pc 3000 [1%float] = (NwErr NELineSearch [1.25%float], tr) /\
     PrimFloat.ltb (norm NumF (n_y (sq2 [1.25%float]))) eps8 = false /\ nw_n_evals tr = 14%nat.
Proof. exact newton_backtrack_exit_reached_l. Qed.

(* ===== (5 of DESIGN) the quadratic corollary, over R, n dimensions =====
   f(x) = 1/2 x'Ax - b'x, grad f x = A x - b, A x* = b, v'Av >= mu |v|^2:
   |grad f x| < eps  ->  |x - x*| < eps / mu *)
Theorem quadratic_distance : forall n (A : list (list R)) (b xs : list R) mu,
  (0 < mu)%R -> length A = n -> length xs = n -> mdotv NumR A xs = b ->
  (forall v, length v = n -> (mu * dot NumR v v <= dot NumR v (mdotv NumR A v))%R) ->
  (forall x, length x = n -> mdotv NumR A (vsub NumR x xs) = vsub NumR (mdotv NumR A x) (mdotv NumR A xs)) ->
  forall x eps, length x = n ->
  (norm NumR (qgrad A b x) < eps)%R -> (norm NumR (vsub NumR x xs) < eps / mu)%R.
Proof. exact quadratic_distance_l. Qed.
(* diagonal A = diag(a), a_i >= mu > 0: no hypothesis left *)
Theorem quadratic_distance_diag : forall mu a b x eps, (0 < mu)%R ->
  length a = length x -> length b = length x -> Forall (fun ai => (mu <= ai)%R) a ->
  (norm NumR (dgrad a b x) < eps)%R -> (norm NumR (vsub NumR x (dmin a b)) < eps / mu)%R.
Proof. exact quadratic_distance_diag_l. Qed.
(* so the stop-condition theorems give the distance claim (pure objective, carrier R) *)
Theorem converged_quadratic_within_tolerance :
  forall (F : nat -> query (A := R) -> answer (A := R)) HK CS (f : query (A := R) -> answer (A := R))
    n A b xs mu eps tr x,
  (0 < mu)%R -> length A = n -> length xs = n -> mdotv NumR A xs = b ->
  (forall v, length v = n -> (mu * dot NumR v v <= dot NumR v (mdotv NumR A v))%R) ->
  (forall y, length y = n -> mdotv NumR A (vsub NumR y xs) = vsub NumR (mdotv NumR A y) (mdotv NumR A xs)) ->
  (forall k q, F k q = f q) -> (forall y, a_g (f (QGrad y)) = qgrad A b y) ->
  length x = n -> wf F HK CS tr -> stop_ok NumR eps tr x ->
  (norm NumR (vsub NumR x xs) < eps / mu)%R.
Proof. exact stop_ok_gives_distance. Qed.
Theorem newton_crit_quadratic_within_tolerance :
  forall (NF : nat -> list R -> nw_answer (A := R)) ND NHK NCS (f : list R -> nw_answer (A := R))
    n A b xs mu eps tr x,
  (0 < mu)%R -> length A = n -> length xs = n -> mdotv NumR A xs = b ->
  (forall v, length v = n -> (mu * dot NumR v v <= dot NumR v (mdotv NumR A v))%R) ->
  (forall y, length y = n -> mdotv NumR A (vsub NumR y xs) = vsub NumR (mdotv NumR A y) (mdotv NumR A xs)) ->
  (forall k y, NF k y = f y) -> (forall y, n_y (f y) = qgrad A b y) ->
  length x = n -> nwf NF ND NHK NCS tr -> nw_stop_ok NumR eps tr x ->
  (norm NumR (vsub NumR x xs) < eps / mu)%R.
Proof. exact newton_crit_gives_distance. Qed.
(* the hypotheses are satisfiable: A = diag(2, 3), mu = 2 *)
Example quadratic_distance_instance :
  (norm NumR (dgrad [2; 3] [2; 3] [1; 1]) < 1 -> norm NumR (vsub NumR [1; 1] (dmin [2; 3] [2; 3])) < 1 / 2)%R.
Proof. exact quadratic_distance_instance_l. Qed.

(* ===================================================================================
   Round 3: newton_min — newton.RunMin (nm_phi = true: every step goes through
   lineSearch.Run on phi(alpha) = f_(x1 - alpha t1) with the closure constraints_line) and
   newton_min's own back-tracking loop (nm_phi = false, getPhi == nil).  For EVERY carrier,
   EVERY objective oracle [MF] (value, gradient, Hessian through AD), EVERY line-search
   oracle [MPHI], direction oracle [ND], hook [MHK], constraint callback [NCS], start
   point, parameter record (both variants, all Hessian-modification modes) and fuel. *)
From ADV Require Import C07.ModelNewtonMin C07.SpecNewtonMin C07.ProofsNewtonMin C07.ExamplesNewtonMin.

Section PropsNewtonMin.
Context {A : Type} (NM : Num A).
Variable K : consts (A := A).
Variable MF : nat -> list A -> nm_answer (A := A).
Variable MPHI : nat -> list A -> list A -> A -> phi_answer (A := A).
Variable ND : nat -> Z -> list A -> list (list A) -> dir_ans (A := A).
Variable MHK : nat -> nm_hookargs (A := A) -> bool.
Variable NCS : nat -> list A -> bool.

(* (1) Converged x: the LAST evaluation of f (not of phi) was at x, succeeded, |g| < epsilon *)
Theorem newton_min_stop_condition : forall (P : nm_params) fuel x0 x tr,
  newton_min NM K MF MPHI ND MHK NCS P fuel x0 = (NmConv x, tr) ->
  nmf MF MPHI ND MHK NCS tr /\ nm_stop_ok NM (nm_eps P) tr x.
Proof. exact (newton_min_stop_l NM K MF MPHI ND MHK NCS). Qed.
Theorem newton_min_stop_condition_reevaluated : forall (f : list A -> nm_answer (A := A)) eps tr x,
  (forall k y, MF k y = f y) -> nmf MF MPHI ND MHK NCS tr -> nm_stop_ok NM eps tr x ->
  m_err (f x) = false /\ ltb NM (norm NM (m_g (f x))) eps = true.
Proof. exact (nm_stop_pure NM MF MPHI ND MHK NCS). Qed.

(* every nil-error return (stop test, hook stop, cap) carries the point of the last
   successful evaluation of f: x1 - alpha t1 is never returned unevaluated *)
Theorem newton_min_returns_evaluated_point : forall (P : nm_params) fuel x0,
  nm_point_evaluated (snd (newton_min NM K MF MPHI ND MHK NCS P fuel x0)) (fst (newton_min NM K MF MPHI ND MHK NCS P fuel x0)).
Proof. exact (newton_min_evaluated_l NM K MF MPHI ND MHK NCS). Qed.

(* the exits of the step search are ERROR returns: the exhausted back-tracking loop
   (getPhi == nil) and an error of lineSearch.Run (RunMin) *)
Theorem newton_min_backtrack_exit_is_error : forall (P : nm_params) fuel x1 t1 tr tr',
  nm_phi P = false -> nm_backtrack NM NCS P fuel x1 t1 tr = MBTFail tr' ->
  nm_advance NM K MF MPHI NCS P fuel x1 t1 tr = MAdvStop (NmErr MEBacktrack x1) tr' /\
  nm_is_err (NmErr MEBacktrack x1) = true /\ nw_step_vanished NM (nm_c P) x1 t1.
Proof. exact (nm_backtrack_exit_is_error_l NM K MF MPHI ND MHK NCS). Qed.
Theorem newton_min_linesearch_error_is_error : forall (P : nm_params) fuel x1 t1 tr al t1' tr',
  nm_phi P = true -> nm_line_search NM K MPHI NCS P x1 fuel t1 tr = MLS true al t1' tr' ->
  nm_advance NM K MF MPHI NCS P fuel x1 t1 tr = MAdvStop (NmErr MELineSearch x1) tr' /\
  nm_is_err (NmErr MELineSearch x1) = true.
Proof. exact (nm_linesearch_error_is_error_l NM K MF MPHI NCS). Qed.

(* (2) hook arguments: (g, H, y) are f's answer for the x passed with them *)
Theorem newton_min_hook_arguments : forall (P : nm_params) fuel x0,
  nm_hooks_ok (snd (newton_min NM K MF MPHI ND MHK NCS P fuel x0)).
Proof. exact (newton_min_hooks_l NM K MF MPHI ND MHK NCS). Qed.
Theorem newton_min_hook_arguments_reevaluated : forall (f : list A -> nm_answer (A := A)) tr h b,
  (forall k y, MF k y = f y) -> nmf MF MPHI ND MHK NCS tr -> nm_hooks_ok tr -> In (MvHook h b) tr ->
  mh_g h = m_g (f (mh_x h)) /\ mh_H h = m_H (f (mh_x h)) /\ mh_y h = m_y (f (mh_x h)).
Proof. exact (nm_hooks_pure MF MPHI ND MHK NCS). Qed.

(* (3) constraints.  Proved: with the back-tracking loop (nm_phi = false) no nil-error
   outcome carries a point the callback did not accept; in both variants a rejected start
   point is an error return.  MISSING for RunMin (nm_phi = true), and false there: see
   newton_min_linesearch_constraints_refuted (known finding F-NEWTON-MIN-CONS-LINE). *)
Theorem newton_min_constraints_partial : forall (P : nm_params) fuel x0,
  nm_point_accepted (nm_cons P && negb (nm_phi P)) (snd (newton_min NM K MF MPHI ND MHK NCS P fuel x0))
    (fst (newton_min NM K MF MPHI ND MHK NCS P fuel x0)).
Proof. exact (newton_min_cons_l NM K MF MPHI ND MHK NCS). Qed.
Theorem newton_min_start_point_rejected : forall (P : nm_params) fuel x0,
  nm_cons P = true -> NCS 0 x0 = false ->
  newton_min NM K MF MPHI ND MHK NCS P fuel x0 = (NmErr MEInit x0, [MvCons x0 false]).
Proof. exact (newton_min_start_rejected_l NM K MF MPHI ND MHK NCS). Qed.
Theorem newton_min_constraints_reevaluated : forall (c : list A -> bool) tr x,
  (forall k y, NCS k y = c y) -> nmf MF MPHI ND MHK NCS tr -> nm_accepted true tr x -> c x = true.
Proof. exact (nm_accepted_pure MF MPHI ND MHK NCS). Qed.

(* (5) caps: at most 1 + MaxIterations evaluations of f, MaxIterations hook calls and calls
   of getDirection, and (2 + MaxEval) line-search evaluations per iteration (22 for RunMin) *)
Theorem newton_min_iteration_cap : forall (P : nm_params) fuel x0,
  (nm_n_evals (snd (newton_min NM K MF MPHI ND MHK NCS P fuel x0)) <= 1 + Z.to_nat (nm_maxit P))%nat /\
  (nm_n_hooks (snd (newton_min NM K MF MPHI ND MHK NCS P fuel x0)) <= Z.to_nat (nm_maxit P))%nat /\
  (nm_n_dirs (snd (newton_min NM K MF MPHI ND MHK NCS P fuel x0)) <= Z.to_nat (nm_maxit P))%nat /\
  (nm_n_phis (snd (newton_min NM K MF MPHI ND MHK NCS P fuel x0)) <= (2 + Z.to_nat (nm_maxeval P)) * Z.to_nat (nm_maxit P))%nat.
Proof. exact (newton_min_caps_l NM K MF MPHI ND MHK NCS). Qed.
End PropsNewtonMin.

(* refuted on the faithful model (known finding F-NEWTON-MIN-CONS-LINE): RunMin with the
   constraint x <= 3 on f(x) = -x + x^2/2 - 0.4 x^3 + 0.06328125 x^4 from 0 returns 4 as
   converged; only 0, 1 and 2 were submitted to the callback *)
Theorem newton_min_linesearch_constraints_refuted :
  exists tr, newton_min NumF KF (fun _ => fq4) (fun _ => phiq4) solve1m noMHK le3 (Pmin true true) 200 [0%float]
               = (NmConv [4%float], tr) /\
     le3 0%nat [4%float] = false /\ submitted_ok tr [4%float] = false /\
     submitted_ok tr [2%float] = true /\ nm_n_phis tr = 3%nat.
Proof. exact newton_min_linesearch_constraints_refuted_l. Qed.
Example newton_min_backtrack_exit_reached :
  exists x tr, newton_min NumF KF (fun _ => fsh) (fun _ => nophi) solve1m noMHK le125 (Pmin true false) 3000 [1%float]
               = (NmErr MEBacktrack x, tr) /\ le125 0%nat x = true /\ submitted_ok tr x = true /\
     PrimFloat.ltb (norm NumF (m_g (fsh x))) eps1 = false.
Proof. exact newton_min_backtrack_exit_reached_l. Qed.
Example newton_min_converges :
  exists tr, newton_min NumF KF (fun _ => fq4) (fun _ => phiq4) solve1m noMHK noNCS (Pmin false true) 200 [0%float]
               = (NmConv [4%float], tr) /\
     PrimFloat.ltb (norm NumF (m_g (fq4 [4%float]))) eps1 = true.
Proof. exact newton_min_converges_l. Qed.

(* ===================================================================================
   Round 3: saga — saga1Dense / saga1Sparse / saga2Dense / saga2Sparse (one template),
   with the gradient table, the proximal operators, gamma and the stopping rule
   EvalStopping.  For EVERY carrier, EVERY per-sample gradient oracle [SF], EVERY
   sequence of random draws [RJ], hook [SHK], start point, parameter record and fuel.
   The result carries, besides the trace of external calls, the log [el] of the
   evaluations of the stop test (newest first). *)
From ADV Require Import C07.ModelSaga C07.SpecSaga C07.ProofsSaga C07.ExamplesSaga.

Section PropsSaga.
Context {A : Type} (NM : Num A).
Variable SF : nat -> nat -> list A -> sg_answer (A := A).
Variable RJ : nat -> nat.
Variable SHK : nat -> sg_hookargs (A := A) -> bool.

(* (1) on a converged return the stop test OVER ALL COORDINATES (SpecSaga.sg_eval_stop_all:
   max_i |x_i - xs_i| / max_i |x_i| <= epsilon*gamma, every index i of the iterates, stated by
   index and independently of the model's walk) holds between the previous epoch's iterate and
   the returned iterate; it was evaluated on exactly that pair and all earlier tests did not
   fire.  Unconditional since fix 494d9f3 (the dense joint iterator visits every coordinate). *)
Theorem saga_stop_condition : forall (P : sg_params) x0 fuel x tr el,
  saga NM SF RJ SHK P fuel x0 = (SgConv x, tr, el) ->
  exists xs d rest, el = (xs, x, d, true) :: rest /\ xs = last_it x0 rest /\ all_go rest /\
    sg_eval_stop_all NM xs x (sg_tol NM P) = SStop d.
Proof. exact (saga_stop_all_l NM SF RJ SHK). Qed.
(* every logged test is the coded test on the logged pair, and each epoch compares with the
   iterate the previous epoch ended with (the start point for the first) *)
Theorem saga_stop_tests_chained : forall (P : sg_params) x0 fuel,
  Forall (entry_ok NM P) (snd (saga NM SF RJ SHK P fuel x0)) /\ chained x0 (snd (saga NM SF RJ SHK P fuel x0)).
Proof. exact (saga_tests_l NM SF RJ SHK). Qed.
(* hook stop / epoch cap: the returned point is the iterate of the last logged test *)
Theorem saga_other_returns : forall (P : sg_params) x0 fuel x,
  fst (fst (saga NM SF RJ SHK P fuel x0)) = SgHook x \/ fst (fst (saga NM SF RJ SHK P fuel x0)) = SgCap x ->
  x = last_it x0 (snd (saga NM SF RJ SHK P fuel x0)) /\ all_go (snd (saga NM SF RJ SHK P fuel x0)).
Proof. exact (saga_other_returns_l NM SF RJ SHK). Qed.
(* the coded test (the walk of xs.JOINT_ITERATOR(x1)) IS the test over ALL coordinates, for all
   vectors and tolerances — no hypothesis (before 494d9f3: only when no coordinate is zero in
   both iterates; regression witness saga_stop_zero_prefix_regression).  So every logged test
   of saga_stop_tests_chained is the full test too. *)
Theorem saga_stop_test_full : forall (xs x1 : list A) eps,
  sg_eval_stop NM xs x1 eps = sg_eval_stop_all NM xs x1 eps.
Proof. exact (sg_eval_stop_all_agree NM). Qed.
(* equal dimensions (saga's xs and x1 always are): the plain zip of the two iterates *)
Theorem saga_stop_test_full_zip : forall (xs x1 : list A) eps,
  length xs = length x1 -> sg_eval_stop NM xs x1 eps = sg_eval_stop_full NM xs x1 eps.
Proof. exact (sg_eval_stop_full_agree NM). Qed.

(* (2) hook arguments: (x1, delta) are those of a logged non-stopping test, lambda is the
   regulariser's constant, the epoch number is in [0, MaxIterations) *)
Theorem saga_hook_arguments : forall (P : sg_params) x0 fuel,
  sg_hooks_ok NM P (snd (fst (saga NM SF RJ SHK P fuel x0))) (snd (saga NM SF RJ SHK P fuel x0)).
Proof. exact (saga_hooks_l NM SF RJ SHK). Qed.
(* F-SAGA-HOOK-NIL: with a hook and no regulariser the hook is NEVER called and no hook
   stop is ever returned (the code panics on the nil proximal operator instead) *)
Theorem saga_hook_without_regulariser_never_called : forall (P : sg_params) x0 fuel,
  sg_hook P = true -> sg_lambda NM P = None ->
  sg_n_hooks (snd (fst (saga NM SF RJ SHK P fuel x0))) = 0%nat /\
  forall x, fst (fst (saga NM SF RJ SHK P fuel x0)) <> SgHook x.
Proof. exact (saga_hook_nil_l NM SF RJ SHK). Qed.

(* (5) caps: at most MaxIterations epochs (stop tests), n + n*MaxIterations calls of f and
   MaxIterations hook calls, for every oracle *)
Theorem saga_epoch_cap : forall (P : sg_params) x0 fuel,
  (length (snd (saga NM SF RJ SHK P fuel x0)) <= Z.to_nat (sg_maxit P))%nat /\
  (sg_n_evals (snd (fst (saga NM SF RJ SHK P fuel x0))) <= sg_n P + sg_n P * Z.to_nat (sg_maxit P))%nat /\
  (sg_n_hooks (snd (fst (saga NM SF RJ SHK P fuel x0))) <= Z.to_nat (sg_maxit P))%nat.
Proof. exact (saga_caps_l NM SF RJ SHK). Qed.
End PropsSaga.

(* regression (was F-SAGA-STOP-ZERO-PREFIX, fixed by 494d9f3): from (0, 0) the pre-fix test stopped
   after one epoch at (0, 0.5) having seen no coordinate; at HEAD that test does not fire (SGo 1), the
   run continues and returns (0, 0.96875) with the test over all coordinates satisfied *)
Example saga_stop_zero_prefix_regression :
  exists tr d rest, saga NumF sgq noRJ noSHK (Psg false) 100 [0%float; 0%float]
               = (SgConv [0%float; 0.96875%float], tr, ([0%float; 0.9375%float], [0%float; 0.96875%float], d, true) :: rest) /\
     last rest ([], [], 0%float, true) = ([0%float; 0%float], [0%float; 0.5%float], 1%float, false) /\ length rest = 4%nat /\
     sg_eval_stop_all NumF [0%float; 0.9375%float] [0%float; 0.96875%float] (sg_tol NumF (Psg false)) = SStop d /\
     sg_eval_stop_prefix NumF [0%float; 0%float] [0%float; 0.5%float] (sg_tol NumF (Psg false)) = SStop 0%float /\
     sg_eval_stop_all NumF [0%float; 0%float] [0%float; 0.5%float] (sg_tol NumF (Psg false)) = SGo 1%float.
Proof. exact saga_stop_zero_prefix_regression_l. Qed.
Example saga_converges :
  exists x tr xs d rest, saga NumF sgq noRJ noSHK (Psg false) 100 [2%float; 3%float] = (SgConv x, tr, (xs, x, d, true) :: rest) /\
     sg_eval_stop_all NumF xs x (sg_tol NumF (Psg false)) = SStop d /\ length rest = 4%nat.
Proof. exact saga_converges_l. Qed.
Example saga_hook_without_regulariser_panics :
  exists tr el, saga NumF sgq noRJ noSHK (Psg true) 100 [2%float; 3%float] = (SgPanic, tr, el) /\
     sg_n_hooks tr = 0%nat /\ length el = 1%nat.
Proof. exact saga_hook_without_regulariser_panics_l. Qed.

(* ===================================================================================
   Round 3: blahut / blahutNaive (Blahut-Arimoto).  The code has NO stop test of its own:
   the outcome type of the machine has only "hook stop" and "step cap".  For EVERY step
   oracle [BSTEP] (the iteration body: q, r, J = log2 sum r, next p), hook [BHK], start
   distribution, parameters and fuel.  The capacity-optimality (KKT) residual is not
   tested by the code, so nothing about it is claimed. *)
From ADV Require Import C07.ModelBlahut C07.ProofsBlahut.

Section PropsBlahut.
Context {A : Type}.
Variable BSTEP : nat -> list A -> A * list A.
Variable BHK : nat -> list A -> A -> bool.

(* the only ways out: a hook stop (the hook call is the last event; the returned p is the
   one passed to it) or ALL steps done (exactly Z.to_nat steps of them) *)
Theorem blahut_returns_at_cap_or_hook : forall (P : bl_params) fuel p_init,
  match fst (blahut BSTEP BHK P fuel p_init) with
  | BlHook p => bl_hook P = true /\ p = bl_cur p_init (snd (blahut BSTEP BHK P fuel p_init)) /\
                exists J tr', snd (blahut BSTEP BHK P fuel p_init) = BvHook p J true :: tr'
  | BlCap p => p = bl_cur p_init (snd (blahut BSTEP BHK P fuel p_init)) /\
               bl_n_steps (snd (blahut BSTEP BHK P fuel p_init)) = Z.to_nat (bl_steps P)
  | BlFuel => True
  end.
Proof. exact (blahut_return_l BSTEP BHK). Qed.
Theorem blahut_step_cap : forall (P : bl_params) fuel p_init,
  (bl_n_steps (snd (blahut BSTEP BHK P fuel p_init)) <= Z.to_nat (bl_steps P))%nat /\
  (bl_n_hooks (snd (blahut BSTEP BHK P fuel p_init)) <= Z.to_nat (bl_steps P))%nat.
Proof. exact (blahut_caps_l BSTEP BHK). Qed.
(* hook bookkeeping, the lag made explicit: the hook receives (p', J) where J and p' were
   computed by the step that STARTED FROM some p — J belongs to p, not to p' *)
Theorem blahut_hook_arguments_lagged : forall (P : bl_params) fuel p_init,
  bl_hook_lagged (snd (blahut BSTEP BHK P fuel p_init)).
Proof. exact (blahut_hooks_l BSTEP BHK). Qed.
Theorem blahut_hook_arguments_lagged_reevaluated : forall (Jf : list A -> A) (nx : list A -> list A) tr p' J b,
  (forall k p, BSTEP k p = (Jf p, nx p)) -> blf BSTEP BHK tr -> bl_hook_lagged tr -> In (BvHook p' J b) tr ->
  exists p, p' = nx p /\ J = Jf p.
Proof. exact (blahut_hooks_pure_l BSTEP BHK). Qed.
End PropsBlahut.

(* "the value passed to the hook is the value at the point passed with it" is refuted on the
   model (known finding F-BLAHUT-HOOK-LAG): hook ([0.5], 1) although J([0.5]) = 0.5 *)
Theorem blahut_hook_value_at_point_refuted :
  snd (blahut bl_half (fun _ _ _ => false) (mkBl 2 true) 10 [1%float])
    = [BvHook [0.25%float] 0.5%float false; BvStep [0.5%float] 0.5%float [0.25%float];
       BvHook [0.5%float] 1%float false; BvStep [1%float] 1%float [0.5%float]] /\
  PrimFloat.eqb (fst (bl_half 0 [0.5%float])) 1%float = false.
Proof. exact blahut_hook_value_lag_refuted_l. Qed.

(* ===================================================================================
   Round 3: adam() of adam.go (adam.Run, objective through AD) — at HEAD d91fb9b (x1.Set(x2)
   directly after the constraints check, mirroring adam_dense.go since f6a3a16).  Stop condition,
   hook arguments (value included), the evaluation cap and the FULL constraints clause (stop test,
   hook stop and iteration cap) hold as for the dense variant; F-ADAM-GENERIC-CAP is retired and
   its witness is the regression example below. *)
From ADV Require Import Base.Corr C07.ModelAdamGeneric C07.ProofsAdamGeneric.
Section PropsAdamGeneric.
Context {A : Type} (NM : Num A).
Variable F : nat -> query (A := A) -> answer (A := A).
Variable HK : nat -> hookargs (A := A) -> bool.
Variable CS : nat -> list A -> bool.
Theorem adam_generic_stop_condition : forall (P : ad_params) fuel x0 x tr,
  adam_generic NM F HK CS P fuel x0 = (Converged x, tr) ->
  wf F HK CS tr /\ stop_ok NM (ad_eps P) tr x.
Proof. exact (adam_generic_stop_l NM F HK CS). Qed.
Theorem adam_generic_hook_arguments : forall (P : ad_params) fuel x0,
  hooks_ok (snd (adam_generic NM F HK CS P fuel x0)).
Proof. exact (adam_generic_hooks_l NM F HK CS). Qed.
(* no non-error outcome (Converged, HookStop, Cap) carries a point the constraint callback was not
   given or rejected *)
Theorem adam_generic_constraints : forall (P : ad_params) fuel x0,
  point_accepted (ad_cons P) (snd (adam_generic NM F HK CS P fuel x0)) (fst (adam_generic NM F HK CS P fuel x0)).
Proof. exact (adam_generic_cons_l NM F HK CS). Qed.
Theorem adam_generic_evaluation_cap : forall (P : ad_params) fuel x0,
  (n_evals (snd (adam_generic NM F HK CS P fuel x0)) <= Z.to_nat (ad_maxit P))%nat.
Proof. exact (adam_generic_cap_l NM F HK CS). Qed.
End PropsAdamGeneric.
Example adam_generic_cap_constraints_regression :
  exists x tr, adam_generic NumF Fsq noHK ge1 P4 10 [1%float] = (Cap x, tr) /\
     ge1 0%nat x = true /\ submitted_and_accepted tr x = true /\
     existsb (fun e => match e with EvEval (QGrad y) _ => list_eqb feqb x y | _ => false end) tr = true.
Proof. exact adam_generic_cap_constraints_regression_l. Qed.

(* ===================================================================================
   Round 4: sagaJit (saga_jit.go; saga.Run with JitUpdate{&JitUpdateL1{lambda}}) — the
   just-in-time variant: coordinates a sample does not touch are caught up lazily
   (ModelSagaJit.v).  The statements of the saga section hold for it: for EVERY carrier,
   per-sample oracle, sequence of draws, hook, start point, parameter record and fuel. *)
From ADV Require Import C07.ModelSagaJit C07.ProofsSagaJit C07.ExamplesSagaJit.
Section PropsSagaJit.
Context {A : Type} (NM : Num A).
Variable SF : nat -> nat -> list A -> sg_answer (A := A).
Variable RJ : nat -> nat.
Variable SHK : nat -> sg_hookargs (A := A) -> bool.
(* (1) converged return: the stop test over ALL coordinates holds between the previous epoch's
   iterate and the returned one; all earlier tests did not fire *)
Theorem sagajit_stop_condition : forall (P : sg_params) x0 fuel x tr el,
  saga_jit NM SF RJ SHK P fuel x0 = (SgConv x, tr, el) ->
  exists xs d rest, el = (xs, x, d, true) :: rest /\ xs = last_it x0 rest /\ all_go rest /\
    sg_eval_stop_all NM xs x (sg_tol NM P) = SStop d.
Proof. exact (sagajit_stop_all_l NM SF RJ SHK). Qed.
Theorem sagajit_stop_tests_chained : forall (P : sg_params) x0 fuel,
  Forall (entry_ok NM P) (snd (saga_jit NM SF RJ SHK P fuel x0)) /\ chained x0 (snd (saga_jit NM SF RJ SHK P fuel x0)).
Proof. exact (sagajit_tests_l NM SF RJ SHK). Qed.
Theorem sagajit_other_returns : forall (P : sg_params) x0 fuel x,
  fst (fst (saga_jit NM SF RJ SHK P fuel x0)) = SgHook x \/ fst (fst (saga_jit NM SF RJ SHK P fuel x0)) = SgCap x ->
  x = last_it x0 (snd (saga_jit NM SF RJ SHK P fuel x0)) /\ all_go (snd (saga_jit NM SF RJ SHK P fuel x0)).
Proof. exact (sagajit_other_returns_l NM SF RJ SHK). Qed.
(* (2) hook arguments: (x1, delta) of a logged non-stopping test, the JitUpdate's lambda, epoch in range *)
Theorem sagajit_hook_arguments : forall (P : sg_params) x0 fuel,
  sg_hooks_ok NM P (snd (fst (saga_jit NM SF RJ SHK P fuel x0))) (snd (saga_jit NM SF RJ SHK P fuel x0)).
Proof. exact (sagajit_hooks_l NM SF RJ SHK). Qed.
(* (5) caps *)
Theorem sagajit_epoch_cap : forall (P : sg_params) x0 fuel,
  (length (snd (saga_jit NM SF RJ SHK P fuel x0)) <= Z.to_nat (sg_maxit P))%nat /\
  (sg_n_evals (snd (fst (saga_jit NM SF RJ SHK P fuel x0))) <= sg_n P + sg_n P * Z.to_nat (sg_maxit P))%nat /\
  (sg_n_hooks (snd (fst (saga_jit NM SF RJ SHK P fuel x0))) <= Z.to_nat (sg_maxit P))%nat.
Proof. exact (sagajit_caps_l NM SF RJ SHK). Qed.
End PropsSagaJit.
Example sagajit_converges :
  exists tr xs d rest, saga_jit NumF sgl noRJ noSHK Pjit 100 [0.25%float; 3%float]
               = (SgConv [0%float; 0.908203125%float], tr, (xs, [0%float; 0.908203125%float], d, true) :: rest) /\
     sg_eval_stop_all NumF xs [0%float; 0.908203125%float] (sg_tol NumF Pjit) = SStop d /\ length rest = 5%nat /\
     last rest ([], [], 0%float, true) = ([0.25%float; 3%float], [0.1875%float; 1.9375%float], 0x1.18c6318c6318cp-1%float, false).
Proof. exact sagajit_converges_l. Qed.

(* ===================================================================================
   Round 6: getDirection is no longer an oracle.  ModelNewtonDir.get_direction composes C04's
   model of matrixInverse.Run (Gauss-Jordan, plain and upper-triangular) and C05's model of
   cholesky_ldl_forcepd in getDirection's operation order; [ND_model X bf dl] is the direction
   "oracle" that just calls it.  The CLOSED machines are newton_root / newton_min with that
   argument: only the objective (through AD), the line-search objective, the hook and the constraint callback are
   left as oracles.  Every theorem of the newton sections above holds for them as an instance
   (they are stated for EVERY direction oracle); restated here for the closed machines are the
   clauses of the property, plus what is new: every direction in the log is the model's
   function of the (mode, y, J) logged with it, the "Eigenvalue" mode never takes a step, and
   over R Newton's iteration on a quadratic returns the exact critical point as converged. *)
From ADV Require Import C07.ModelNewtonDir C07.ProofsNewtonDir C07.ExamplesNewtonDir.
Require ADV.C05.Model.

Section PropsNewtonClosed.
Context {A : Type} (X : ADV.C05.Model.NumX A).
Variable bf dl : A.       (* the two literals 1e-20 of cholesky_ldl_forcepd *)
Variable K : consts (A := A).
Variable NF : nat -> list A -> nw_answer (A := A).
Variable NHK : nat -> nw_hookargs (A := A) -> bool.
Variable MF : nat -> list A -> nm_answer (A := A).
Variable MPHI : nat -> list A -> list A -> A -> phi_answer (A := A).
Variable MHK : nat -> nm_hookargs (A := A) -> bool.
Variable NCS : nat -> list A -> bool.
Notation NMX := (ADV.C05.Model.nx X).
Notation NDm := (ND_model X bf dl).

(* (1) stop condition at the returned point, closed machines *)
Theorem newton_closed_stop_condition : forall (P : nw_params) fuel x0 x tr,
  newton_root NMX NF NDm NHK NCS P fuel x0 = (NwConv x, tr) ->
  nwf NF NDm NHK NCS tr /\ nw_stop_ok NMX (nw_eps P) tr x.
Proof. exact (newton_stop_l NMX NF NDm NHK NCS). Qed.
Theorem newton_min_closed_stop_condition : forall (P : nm_params) fuel x0 x tr,
  newton_min NMX K MF MPHI NDm MHK NCS P fuel x0 = (NmConv x, tr) ->
  nmf MF MPHI NDm MHK NCS tr /\ nm_stop_ok NMX (nm_eps P) tr x.
Proof. exact (newton_min_stop_l NMX K MF MPHI NDm MHK NCS). Qed.
(* (2) hook arguments *)
Theorem newton_closed_hook_arguments : forall (P : nw_params) fuel x0,
  nw_hooks_ok (snd (newton_root NMX NF NDm NHK NCS P fuel x0)).
Proof. exact (newton_hooks_l NMX NF NDm NHK NCS). Qed.
Theorem newton_min_closed_hook_arguments : forall (P : nm_params) fuel x0,
  nm_hooks_ok (snd (newton_min NMX K MF MPHI NDm MHK NCS P fuel x0)).
Proof. exact (newton_min_hooks_l NMX K MF MPHI NDm MHK NCS). Qed.
(* (3) constraints (RunRoot / RunCrit; RunMin stays refuted: F-NEWTON-MIN-CONS-LINE) *)
Theorem newton_closed_constraints : forall (P : nw_params) fuel x0,
  nw_point_accepted (nw_cons P) (snd (newton_root NMX NF NDm NHK NCS P fuel x0)) (fst (newton_root NMX NF NDm NHK NCS P fuel x0)).
Proof. exact (newton_cons_l NMX NF NDm NHK NCS). Qed.

(* the log of a closed run contains no direction that is not get_direction of its query: the answer
   does not depend on the call count, i.e. on what the recycled InSitu buffers held before *)
Theorem newton_closed_directions : forall (P : nw_params) fuel x0 m y J d,
  In (NvDir m y J d) (snd (newton_root NMX NF NDm NHK NCS P fuel x0)) -> d = get_direction X bf dl m y J.
Proof. exact (newton_closed_directions_l X bf dl NF NHK NCS). Qed.
Theorem newton_min_closed_directions : forall (P : nm_params) fuel x0 m g H d,
  In (MvDir m g H d) (snd (newton_min NMX K MF MPHI NDm MHK NCS P fuel x0)) -> d = get_direction X bf dl m g H.
Proof. exact (newton_min_closed_directions_l X bf dl K MF MPHI MHK NCS). Qed.

(* F-NEWTON-EIGENVALUE-MODE on the closed machine: with HessianModification{"Eigenvalue"} no step is
   ever taken — a nil-error return (stop test, hook stop, cap) can only carry the start point *)
Theorem newton_closed_eigenvalue_never_steps : forall (P : nw_params) fuel x0 x,
  nw_mode P = 2%Z ->
  (let o := fst (newton_root NMX NF NDm NHK NCS P fuel x0) in o = NwConv x \/ o = NwHook x \/ o = NwCap x) ->
  x = x0.
Proof. exact (newton_closed_eigenvalue_no_step_l X bf dl NF NHK NCS). Qed.
End PropsNewtonClosed.

(* "on strictly convex quadratic objectives it lies within tolerance of the unique minimiser", for
   Newton over R WITHOUT the condition "if it returns converged": f(x) = 1/2 x'Ax - b'x (RunCrit's
   answers y = Ax - b, J = A; A any n x n matrix, rows of length n).  If getDirection's answer t for
   (grad f x0, A) solves the Newton equation A t = grad f x0 (for matrixInverse.Run this is C04's
   gauss_jordan_correct), then from EVERY start point, for every epsilon > 0, cap >= 2, hook-free and
   constraint-free parameter record and every fuel >= 2, newton_root returns converged at a point that
   passes the stop test, and unless x0 already passed it that point is x0 - t and solves A x = b exactly.
   No positive-definiteness is needed (Newton's root iteration on the gradient). *)
Theorem newton_crit_quadratic_converges :
  forall n (A : list (list R)) (b : list R), length A = n -> rows_ok n A -> length b = n ->
  forall ND NHK NCS (P : nw_params (A := R)),
  nw_hook P = false -> nw_cons P = false -> (0 < nw_eps P)%R -> (2 <= nw_maxit P)%Z ->
  forall fuel x0 t, length x0 = n -> length t = n ->
  (forall k, ND k (nw_mode P) (qgrad A b x0) A = DirOk t) -> mdotv NumR A t = qgrad A b x0 ->
  nw_mode_valid (nw_mode P) = true ->
  exists x tr, newton_root NumR (fun _ => quad_answer A b) ND NHK NCS P (S (S fuel)) x0 = (NwConv x, tr) /\
    (norm NumR (qgrad A b x) < nw_eps P)%R /\
    ((nw_eps P <= norm NumR (qgrad A b x0))%R -> x = vsub NumR x0 t /\ mdotv NumR A x = b).
Proof. exact newton_crit_quadratic_converges_l. Qed.
(* one dimension, CLOSED machine (getDirection "None" = C04's Gauss-Jordan model on the 1x1 system):
   no hypothesis about the direction left; a <> 0 suffices *)
Theorem newton_crit_1d_closed_converges : forall (a b0 x eps c bf dl : R) (maxit : Z) NHK NCS fuel,
  a <> 0%R -> (0 < eps)%R -> (2 <= maxit)%Z ->
  exists x' tr,
    newton_root NumR (fun _ => quad_answer [[a]] [b0]) (ND_model NumXR bf dl) NHK NCS
      (mkNw eps maxit false false 0%Z c) (S (S fuel)) [x] = (NwConv x', tr) /\
    (norm NumR (qgrad [[a]] [b0] x') < eps)%R /\
    ((eps <= norm NumR (qgrad [[a]] [b0] [x]))%R -> x' = [(b0 / a)%R]).
Proof. exact newton_crit_1d_closed_l. Qed.
(* mdotv is linear on well-shaped matrices: the quadratic corollary of round 2 without its linearity hypothesis *)
Theorem quadratic_distance_shaped : forall n (A : list (list R)) (b xs : list R) mu,
  (0 < mu)%R -> length A = n -> rows_ok n A -> length xs = n -> mdotv NumR A xs = b ->
  (forall v, length v = n -> (mu * dot NumR v v <= dot NumR v (mdotv NumR A v))%R) ->
  forall x eps, length x = n ->
  (norm NumR (qgrad A b x) < eps)%R -> (norm NumR (vsub NumR x xs) < eps / mu)%R.
Proof. exact quadratic_distance_shaped_l. Qed.

(* the hypotheses are satisfiable: closed runs on binary64 and on R *)
Example newton_closed_converges_2d :
  exists x tr, newton_root NumF (fun _ => q2) mNDF noNHK noNCS Pn 100 [5%float; (-7)%float] = (NwConv x, tr) /\
     PrimFloat.ltb (norm NumF (n_y (q2 x))) eps8 = true /\ nw_n_dirs tr = 1%nat /\
     In (NvDir 0%Z [2%float; (-18)%float] A2 (DirOk [0x1.3333333333333p+2%float; (-0x1.e666666666667p+2)%float])) tr.
Proof. exact newton_closed_converges_2d_l. Qed.
Example get_direction_examples :
  get_direction_F 0%Z [1%float; (-1)%float] [[0%float; 1%float]; [1%float; 0%float]] = DirOk [(-1)%float; 1%float] /\
  get_direction_F 0%Z [1%float; 2%float] [[1%float; 2%float]; [2%float; 4%float]] = DirErr /\
  (exists t, get_direction_F 1%Z [1%float; (-1)%float] [[1%float; 2%float]; [2%float; 1%float]] = DirOk t /\
             PrimFloat.ltb 0%float (dot NumF [1%float; (-1)%float] t) = true) /\
  get_direction_F 2%Z [1%float] [[1%float]] = DirPanic.
Proof. exact get_direction_examples_l. Qed.
Example newton_closed_eigenvalue_panics :
  exists tr, newton_root NumF (fun _ => sq2) mNDF noNHK noNCS (mkNw eps8 50%Z false false 2%Z NWC_F) 100 [1%float] = (NwPanic, tr) /\
     nw_n_dirs tr = 1%nat.
Proof. exact newton_closed_eigenvalue_panics_l. Qed.
Example newton_closed_ldl_converges :
  exists x tr, newton_root NumF (fun _ => sq2) mNDF noNHK noNCS (mkNw eps8 50%Z false false 1%Z NWC_F) 100 [(-1)%float] = (NwConv x, tr) /\
     PrimFloat.ltb (norm NumF (n_y (sq2 x))) eps8 = true /\ nw_n_dirs tr = 5%nat.
Proof. exact newton_closed_ldl_converges_l. Qed.
Example newton_crit_1d_closed_instance :
  exists x' tr,
    newton_root NumR (fun _ => quad_answer [[2%R]] [4%R]) (ND_model NumXR 0%R 0%R) (fun _ _ => false) (fun _ _ => true)
      (mkNw 1%R 5%Z false false 0%Z 0.5%R) 2 [10%R] = (NwConv x', tr) /\ x' = [(4 / 2)%R].
Proof. exact newton_crit_1d_closed_instance_l. Qed.

(* ===== round 7 ===== *)
From ADV Require Import C07.ModelSaga C07.ProofsR7.
(* (a) the shared stop test  Norm(g) < eps  of gradientDescent, rprop, rprop_dense, adam, adam_dense
   (Model.norm, the model of algorithm.Norm) bounds EVERY coordinate of the gradient, for every
   vector length; over R (the binary64 instance is replayed in every dimension 1..12) *)
Theorem norm_stop_bounds_every_coordinate : forall (v : list R) (eps : R),
  ltb NumR (norm NumR v) eps = true -> forall g, In g v -> (Rabs g < eps)%R.
Proof. exact norm_stop_every_coord. Qed.
Example norm_stop_instance :
  ltb NumR (norm NumR [0; 0; 1]%R) 2%R = true /\ ltb NumR (norm NumR [0; 0; 3]%R) 2%R = false /\
  ltb NumR (norm NumR [0; 0]%R) 2%R = true.
Proof. exact norm_stop_instance_l. Qed.

(* (b) saga with the built-in options TikhonovRegularization{lam} / L1Regularization{lam}: the proximal
   step Run installs (lambda rescaled to gamma*lam/n after the option became a proximal operator),
   applied to a gradient step with the mean gradient g, leaves x fixed exactly at the stationary
   points of  mean_j f_j + (lam/n) h,  h = |x|^2/2 resp. |x|_1 — i.e. of  sum_j f_j + lam h;
   in one dimension on least squares this is the closed-form minimiser sab / (saa + lam).
   Over R; nothing is claimed about L2Regularization (group soft threshold) or about convergence. *)
Theorem saga_tikhonov_fixed_point : forall (P : sg_params (A := R)) (lam : R),
  (0 < sg_n P)%nat -> (0 < sg_gamma P)%R -> (0 <= lam)%R ->
  forall x g, sg_prox_op P = PTi lam -> length x = length g ->
  (sg_apply_prox NumR P (gstep P x g) = x <->
   Forall2 (fun xi gi => (gi + lam / INR (sg_n P) * xi = 0)%R) x g).
Proof. exact ProofsR7.saga_tikhonov_fixed_point. Qed.
Theorem saga_l1_fixed_point : forall (P : sg_params (A := R)) (lam : R),
  (0 < sg_n P)%nat -> (0 < sg_gamma P)%R -> (0 <= lam)%R ->
  forall x g, sg_prox_op P = PL1 lam -> length x = length g ->
  (sg_apply_prox NumR P (gstep P x g) = x <-> Forall2 (kkt_l1 (lam / INR (sg_n P))) x g).
Proof. exact ProofsR7.saga_l1_fixed_point. Qed.
Theorem saga_tikhonov_closed_form_1d : forall (P : sg_params (A := R)) (lam : R),
  (0 < sg_n P)%nat -> (0 < sg_gamma P)%R -> (0 <= lam)%R ->
  forall saa sab x, sg_prox_op P = PTi lam -> (0 < saa + lam)%R ->
  (sg_apply_prox NumR P (gstep P [x] [((saa * x - sab) / INR (sg_n P))%R]) = [x] <-> x = (sab / (saa + lam))%R).
Proof. exact ProofsR7.saga_tikhonov_closed_form_1d. Qed.
Example saga_tikhonov_instance :
  sg_apply_prox NumR PTi_ex (gstep PTi_ex [(1 / 2)%R] [((3 * (1 / 2) - 2) / INR 2)%R]) = [(1 / 2)%R] /\
  sg_apply_prox NumR PTi_ex (gstep PTi_ex [1%R] [((3 * 1 - 2) / INR 2)%R]) <> [1%R].
Proof. exact saga_tikhonov_instance_l. Qed.
Example saga_l1_instance :
  sg_apply_prox NumR PL1_ex (gstep PL1_ex [0; 1]%R [1 / 4; - (1 / 2)]%R) = [0; 1]%R /\
  sg_apply_prox NumR PL1_ex (gstep PL1_ex [0; 1]%R [1; - (1 / 2)]%R) <> [0; 1]%R.
Proof. exact saga_l1_instance_l. Qed.
