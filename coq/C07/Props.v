(* C07 — property theorems (statements only; proofs live in Proofs*.v).
   Every theorem holds for EVERY carrier [NM] (reals, rationals, binary64 floats ...),
   EVERY oracle — the objective evaluated through AD [F], the hook [HK], the
   constraint callback [CS]; the k-th external call of a run is answered by [F k],
   [HK k], [CS k], so stateful callbacks are included and a pure objective is
   [F k = f] — every start point, every parameter record and every fuel.
   [wf tr] says the returned log [tr] is honest (each recorded answer is the
   oracle's answer to the recorded query).  Numbering follows DESIGN.md §2 C07. *)
From Coq Require Import ZArith List Bool Reals Floats.
From ADV Require Import Base.Num C07.Model C07.Spec C07.Proofs C07.ProofsRprop C07.ProofsBfgs
  C07.ProofsDense C07.ProofsAdam C07.Refuted.
Import ListNotations.
Open Scope Z_scope.

Section Props.
Context {A : Type} (NM : Num A).
Variable K : consts (A := A).
Variable F : nat -> query (A := A) -> answer (A := A).
Variable HK : nat -> hookargs (A := A) -> bool.
Variable CS : nat -> list A -> bool.

(* ===== (1) stop condition at the returned point ===== *)
Theorem rprop_stop_condition : forall (P : rp_params) fuel x0 x tr,
  rprop NM F HK CS P fuel x0 = (Converged x, tr) ->
  wf F HK CS tr /\ stop_ok NM (rp_eps P) tr x.
Proof. exact (rprop_stop_l NM F HK CS). Qed.

Theorem gradient_descent_stop_condition : forall (P : gd_params) fuel x0 x tr,
  gradient_descent NM F HK P fuel x0 = (Converged x, tr) ->
  wf F HK CS tr /\ stop_ok NM (gd_eps P) tr x.
Proof. exact (gd_stop_l NM F HK CS). Qed.

Theorem bfgs_stop_condition : forall (P : bf_params) fuel x0 x tr,
  bfgs NM K F HK CS P fuel x0 = (Converged x, tr) ->
  wf F HK CS tr /\ stop_ok NM (bf_eps P) tr x.
Proof. exact (bfgs_stop_l NM K F HK CS). Qed.

Theorem adam_stop_condition : forall (P : ad_params) fuel x0 x tr,
  adam_dense NM F HK CS P fuel x0 = (Converged x, tr) ->
  wf F HK CS tr /\ stop_ok NM (ad_eps P) tr x.
Proof. exact (adam_stop_l NM F HK CS). Qed.

(* line search: the strong Wolfe conditions (constants c1, c2 of the code, literal
   comparisons of the code) hold between the logged answers for 0 and for alpha *)
Theorem line_search_strong_wolfe : forall hk cs fuel alpha1 maxEval alpha tr,
  line_search_run NM K F HK CS hk cs fuel alpha1 maxEval = (LSConv alpha, tr) ->
  wf F HK CS tr /\ ls_stop_ok NM K ls_scalar_query tr alpha.
Proof. exact (ls_stop_l NM K F HK CS). Qed.

(* with a pure objective the logged answer IS the objective at the point:
   "the returned point satisfies the stopping condition when re-evaluated there" *)
Theorem stop_condition_reevaluated : forall (f : query -> answer) eps tr x,
  (forall k q, F k q = f q) -> wf F HK CS tr -> stop_ok NM eps tr x ->
  a_err (f (QGrad x)) = false /\ ltb NM (norm NM (a_g (f (QGrad x)))) eps = true.
Proof. exact (stop_ok_pure NM F HK CS). Qed.

(* rprop_dense: only this weaker statement holds (see rprop_dense_stop_refuted) *)
Theorem rprop_dense_stop_partial : forall (P : rp_params) fuel x0 x tr,
  rprop_dense NM F HK CS P fuel x0 = (Converged x, tr) ->
  wf F HK CS tr /\ some_point_passed NM P tr.
  (* missing: the point that passed is the returned x — false for the code *)
Proof. exact (rprop_dense_stop_partial_l NM F HK CS). Qed.

(* ===== (2) hook arguments ===== *)
Theorem rprop_hook_arguments : forall (P : rp_params) fuel x0,
  hooks_ok (snd (rprop NM F HK CS P fuel x0)).
Proof. exact (rprop_hooks_l NM F HK CS). Qed.
Theorem gradient_descent_hook_arguments : forall (P : gd_params) fuel x0,
  hooks_ok (snd (gradient_descent NM F HK P fuel x0)).
Proof. exact (gd_hooks_l NM F HK CS). Qed.
Theorem bfgs_hook_arguments : forall (P : bf_params) fuel x0,
  hooks_ok (snd (bfgs NM K F HK CS P fuel x0)).
Proof. exact (bfgs_hooks_l NM K F HK CS). Qed.
Theorem adam_hook_arguments : forall (P : ad_params) fuel x0,
  hooks_ok (snd (adam_dense NM F HK CS P fuel x0)).
Proof. exact (adam_hooks_l NM F HK CS). Qed.
Theorem line_search_hook_arguments : forall hk cs fuel alpha1 maxEval,
  ls_hooks_ok NM ls_scalar_query (snd (line_search_run NM K F HK CS hk cs fuel alpha1 maxEval)).
Proof. exact (ls_hooks_l NM K F HK CS). Qed.
Theorem hook_arguments_reevaluated : forall (f : query -> answer) tr h b,
  (forall k q, F k q = f q) -> wf F HK CS tr -> hooks_ok tr -> In (EvHook h b) tr ->
  h_g h = a_g (f (QGrad (h_x h))) /\
  match h_y h with Some y => y = a_y (f (QGrad (h_x h))) | None => True end.
Proof. exact (hooks_ok_pure F HK CS). Qed.

(* ===== (3) constraints ===== *)
Theorem rprop_constraints : forall (P : rp_params) fuel x0,
  point_accepted (rp_cons P) (snd (rprop NM F HK CS P fuel x0)) (fst (rprop NM F HK CS P fuel x0)).
Proof. exact (rprop_cons_l NM F HK CS). Qed.
Theorem rprop_dense_constraints : forall (P : rp_params) fuel x0,
  point_accepted (rp_cons P) (snd (rprop_dense NM F HK CS P fuel x0)) (fst (rprop_dense NM F HK CS P fuel x0)).
Proof. exact (rprop_dense_cons_l NM F HK CS). Qed.
(* adam: holds for returns through the stop test or the hook; the return at the iteration
   cap is NOT covered (adam_cap_constraints_refuted) *)
Theorem adam_constraints_partial : forall (P : ad_params) fuel x0,
  ad_point_accepted P (snd (adam_dense NM F HK CS P fuel x0)) (fst (adam_dense NM F HK CS P fuel x0)).
Proof. exact (adam_cons_partial_l NM F HK CS). Qed.
Theorem constraints_reevaluated : forall (c : list A -> bool) tr x,
  (forall k y, CS k y = c y) -> wf F HK CS tr -> accepted true tr x -> c x = true.
Proof. exact (accepted_pure F HK CS). Qed.

(* ===== (5) caps: termination bounds for every oracle ===== *)
Theorem rprop_iteration_cap : forall (P : rp_params) fuel x0,
  (n_hooks (snd (rprop NM F HK CS P fuel x0)) <= Z.to_nat (rp_maxit P))%nat.
Proof. exact (rprop_hook_cap NM F HK CS). Qed.
Theorem rprop_dense_iteration_cap : forall (P : rp_params) fuel x0,
  (n_hooks (snd (rprop_dense NM F HK CS P fuel x0)) <= Z.to_nat (rp_maxit P))%nat.
Proof. exact (rprop_dense_cap_l NM F HK CS). Qed.
Theorem line_search_evaluation_cap : forall hk cs fuel alpha1 maxEval,
  (n_evals (snd (line_search_run NM K F HK CS hk cs fuel alpha1 maxEval)) <= Z.to_nat maxEval + 2)%nat.
Proof. exact (ls_cap_l NM K F HK CS). Qed.
Theorem adam_evaluation_cap : forall (P : ad_params) fuel x0,
  (n_evals (snd (adam_dense NM F HK CS P fuel x0)) <= Z.to_nat (ad_maxit P))%nat.
Proof. exact (adam_cap_l NM F HK CS). Qed.
Theorem bfgs_evaluation_cap : forall (P : bf_params) fuel x0,
  (n_evals (snd (bfgs NM K F HK CS P fuel x0)) <= 1 + 103 * Z.to_nat (bf_maxit P))%nat.
Proof. exact (bfgs_eval_cap NM K F HK CS). Qed.
End Props.

(* strong Wolfe over the reals for a pure objective, in textbook form *)
Theorem line_search_strong_wolfe_reals :
  forall (f : query (A := R) -> answer (A := R)) HK CS hk cs fuel alpha1 maxEval al tr,
  line_search_run NumR KR (fun _ => f) HK CS hk cs fuel alpha1 maxEval = (LSConv al, tr) ->
  let y a := a_y (f (QGrad [a])) in
  let g a := hd 0%R (a_g (f (QGrad [a]))) in
  wolfe_R (y 0%R) (g 0%R) al (y al) (g al).
Proof. exact ls_wolfe_R. Qed.

(* ===== refuted on the faithful model (known findings, reproduced on Go by corpus/C07) ===== *)
Theorem rprop_dense_stop_refuted :
  exists x tr, rprop_dense NumF Fsq noHK noCS P1 50 [1%float] = (Converged x, tr) /\
     PrimFloat.ltb (norm NumF (a_g (sq (QGrad x)))) (rp_eps P1) = false.
Proof. exact Refuted.rprop_dense_stop_refuted. Qed.
Theorem rprop_dense_first_hook_refuted :
  hook_gradients_honest sq (snd (rprop_dense NumF Fsq noHK noCS P2 50 [1%float])) = false /\
  last (snd (rprop_dense NumF Fsq noHK noCS P2 50 [1%float])) (EvCons [] true)
    = EvHook (mkHook [1%float] [1%float] None [0.5%float]) false.
Proof. exact Refuted.rprop_dense_first_hook_refuted. Qed.
Theorem bfgs_constraints_refuted :
  exists x tr, bfgs NumF KF (fun _ => sh) noHK le1 P3 200 [0%float] = (Converged x, tr) /\
     le1 0%nat x = false /\ submitted_and_accepted tr x = false /\ n_evals tr = 5%nat.
Proof. exact Refuted.bfgs_constraints_refuted. Qed.
Theorem linesearch_constraints_refuted :
  exists al tr, line_search_run NumF KF (fun _ => phi) noHK near1 false true 100 1%float 20%Z = (LSConv al, tr) /\
     near1 0%nat [al] = false /\ submitted_and_accepted tr [al] = false.
Proof. exact Refuted.linesearch_constraints_refuted. Qed.

Theorem adam_cap_constraints_refuted :
  exists x tr, adam_dense NumF Fsq noHK ge1 P4 10 [1%float] = (Cap x, tr) /\
     ge1 0%nat x = false /\ submitted_and_accepted tr x = false.
Proof. exact Refuted.adam_cap_constraints_refuted. Qed.

(* the hypotheses are satisfiable: a run that does converge, with honest hooks *)
Example rprop_converges_on_square :
  hook_gradients_honest sq (snd (rprop NumF Fsq noHK noCS P2 50 [1%float])) = true /\
  exists x tr, rprop NumF Fsq noHK noCS P2 50 [1%float] = (Converged x, tr) /\
     PrimFloat.ltb (norm NumF (a_g (sq (QGrad x)))) (rp_eps P2) = true.
Proof. exact Refuted.rprop_same_oracle_ok. Qed.
