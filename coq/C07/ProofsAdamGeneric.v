(* C07 (round 3, re-proved at HEAD d91fb9b) — adam.go (adam.Run): stop condition, hook arguments
   (value included), constraints for EVERY non-error return (stop test, hook stop and iteration
   cap), evaluation cap; regression of the retired finding F-ADAM-GENERIC-CAP. *)
From Coq Require Import ZArith List Bool Lia Floats.
From ADV Require Import Base.Num Base.Corr C07.Model C07.Spec C07.ProofsBase C07.ModelAdamGeneric C07.Corr C07.Refuted.
Import ListNotations.
Open Scope Z_scope.

Local Arguments ad_upd : simpl never.

Section AdamG.
Context {A : Type} (NM : Num A).
Variable F : nat -> query (A := A) -> answer (A := A).
Variable HK : nat -> hookargs (A := A) -> bool.
Variable CS : nat -> list A -> bool.
Variable P : ad_params (A := A).

Notation good := (good F HK CS).
Notation trace := (trace (A := A)).
Ltac nonconv := let x := fresh "x" in let X := fresh "X" in intros x X; discriminate X.

(* At HEAD (fix d91fb9b) x1 is always the last evaluated and accepted point, so the
   constraints statement is the full one: stop test, hook stop AND iteration cap. *)
Definition ag_post (n0 : nat) (i : Z) (o : outcome (A := A)) (tr : trace) : Prop :=
  good tr /\ (forall x, o = Converged x -> stop_ok NM (ad_eps P) tr x) /\ point_accepted (ad_cons P) tr o /\
  (n_evals tr <= n0 + Z.to_nat (ad_maxit P - i))%nat.

Lemma ag_loop_ok fuel : forall i x1 x m v b1t b2t tr, good tr -> accepted (ad_cons P) tr x1 ->
  ag_post (n_evals tr) i (fst (ag_loop NM F HK CS P fuel i x1 x m v b1t b2t tr))
                         (snd (ag_loop NM F HK CS P fuel i x1 x m v b1t b2t tr)).
Proof.
  unfold ag_post.
  induction fuel as [|f IH]; intros i x1 x m v b1t b2t tr G Hacc1; simpl.
  { ssplit; [exact G | nonconv | exact I | lia]. }
  destruct (i <? ad_maxit P) eqn:Hi; simpl.
  2:{ ssplit; [exact G | nonconv | exact Hacc1 | lia]. }
  apply Z.ltb_lt in Hi.
  assert (Hz : Z.to_nat (ad_maxit P - i) = S (Z.to_nat (ad_maxit P - (i + 1)))) by lia.
  remember (F (length tr) (QGrad x)) as a eqn:Ha.
  assert (G1 : good (EvEval (QGrad x) a :: tr)) by (subst a; apply good_eval; auto).
  destruct (a_err a) eqn:Herr; simpl.
  { ssplit; [exact G1 | nonconv | exact I | rewrite n_evals_eval; lia]. }
  destruct (any_nan NM (a_g a)); simpl.
  { ssplit; [exact G1 | nonconv | exact I | rewrite n_evals_eval; lia]. }
  remember (if ad_cons P then CS (S (length tr)) x else true) as ok eqn:Hok.
  remember (if ad_cons P then EvCons x ok :: EvEval (QGrad x) a :: tr else EvEval (QGrad x) a :: tr) as tr2 eqn:Htr2.
  assert (G2 : good tr2).
  { subst tr2. destruct (ad_cons P); [|exact G1]. subst ok.
    exact (good_cons F HK CS (EvEval (QGrad x) a :: tr) x G1). }
  assert (E2 : ext (EvEval (QGrad x) a :: tr) tr2) by (subst tr2; apply ext_opt).
  assert (N2 : n_evals tr2 = S (n_evals tr)).
  { subst tr2. destruct (ad_cons P); [rewrite n_evals_cons|]; apply n_evals_eval. }
  assert (Hacc : ok = true -> accepted (ad_cons P) tr2 x).
  { unfold accepted. intros -> Hc. subst tr2. rewrite Hc. left; reflexivity. }
  clear Htr2 Hok.
  destruct ok; simpl.
  2:{ ssplit; [exact G2 | nonconv | exact I | lia]. }
  specialize (Hacc eq_refl).
  remember (mkHook x (a_g a) (Some (a_y a)) []) as h eqn:Hh.
  assert (M : hook_matched tr2 h).
  { exists a. subst h; simpl. ssplit; auto. eapply ext_in; [exact E2 | left; reflexivity]. }
  remember (if ad_hook P then EvHook h (if ad_hook P then HK (length tr2) h else false) :: tr2 else tr2) as tr3 eqn:Htr3.
  assert (G3 : good tr3) by (subst tr3; apply good_opt_hook; auto).
  assert (E3 : ext tr2 tr3) by (subst tr3; apply ext_opt).
  assert (N3 : n_evals tr3 = S (n_evals tr)).
  { subst tr3. destruct (ad_hook P); [rewrite n_evals_hook|]; exact N2. }
  clear Htr3.
  destruct (if ad_hook P then HK (length tr2) h else false); simpl.
  { ssplit; [exact G3 | nonconv | eapply accepted_ext; eauto | lia]. }
  destruct (ltb NM (norm NM (a_g a)) (ad_eps P)) eqn:Hn; simpl.
  { ssplit; [exact G3 | | eapply accepted_ext; eauto | lia].
    intros x' X. inversion X; subst x'. exists a. ssplit; auto.
    eapply ext_in; [exact E3|]. eapply ext_in; [exact E2 | left; reflexivity]. }
  destruct (ad_upd NM P x m v (a_g a) b1t b2t) as [[[x2' m'] v']|]; simpl.
  - assert (Hacc3 : accepted (ad_cons P) tr3 x) by (eapply accepted_ext; eauto).
    specialize (IH (i + 1) x x2' m' v' (mul NM b1t (ad_beta1 P)) (mul NM b2t (ad_beta2 P)) tr3 G3 Hacc3).
    destruct IH as (G4 & S4 & A4 & N4). ssplit; [exact G4 | exact S4 | exact A4 | lia].
  - ssplit; [exact G3 | nonconv | exact I | lia].
Qed.

Theorem adam_generic_ok fuel x0 :
  ag_post 0 0 (fst (adam_generic NM F HK CS P fuel x0)) (snd (adam_generic NM F HK CS P fuel x0)).
Proof.
  unfold adam_generic.
  remember (if ad_cons P then CS 0 x0 else true) as ok eqn:Hok.
  remember (if ad_cons P then [EvCons x0 ok] else []) as tr0 eqn:Htr0.
  assert (G0 : good tr0).
  { subst tr0. destruct (ad_cons P); [|apply good_nil]. subst ok.
    apply (good_cons F HK CS [] x0). apply good_nil. }
  assert (N0 : n_evals tr0 = 0%nat) by (subst tr0; destruct (ad_cons P); reflexivity).
  assert (Hacc : ok = true -> accepted (ad_cons P) tr0 x0).
  { unfold accepted. intros -> Hc. subst tr0. rewrite Hc. left; reflexivity. }
  clear Htr0 Hok.
  destruct ok; cbn [negb fst snd].
  2:{ unfold ag_post; ssplit; [exact G0 | nonconv | exact I | lia]. }
  pose proof (ag_loop_ok fuel 0 x0 x0 (repeat (zero NM) (length x0)) (repeat (zero NM) (length x0))
                (ad_beta1 P) (ad_beta2 P) tr0 G0 (Hacc eq_refl)) as L.
  rewrite N0 in L. exact L.
Qed.


Lemma adam_generic_stop_l fuel x0 x tr :
  adam_generic NM F HK CS P fuel x0 = (Converged x, tr) -> wf F HK CS tr /\ stop_ok NM (ad_eps P) tr x.
Proof.
  intros H. pose proof (adam_generic_ok fuel x0) as K. rewrite H in K.
  destruct K as (G & S & _). split; [apply good_wf in G; exact G | apply S; reflexivity].
Qed.
Lemma adam_generic_hooks_l fuel x0 : hooks_ok (snd (adam_generic NM F HK CS P fuel x0)).
Proof. destruct (adam_generic_ok fuel x0) as (G & _). apply good_hooks_ok in G. exact G. Qed.
Lemma adam_generic_cons_l fuel x0 :
  point_accepted (ad_cons P) (snd (adam_generic NM F HK CS P fuel x0)) (fst (adam_generic NM F HK CS P fuel x0)).
Proof. apply (adam_generic_ok fuel x0). Qed.
Lemma adam_generic_cap_l fuel x0 :
  (n_evals (snd (adam_generic NM F HK CS P fuel x0)) <= Z.to_nat (ad_maxit P))%nat.
Proof. pose proof (adam_generic_ok fuel x0) as K. destruct K as (_ & _ & _ & K). simpl in K. lia. Qed.
End AdamG.

(* regression (was F-ADAM-GENERIC-CAP, fixed by d91fb9b): adam.Run(f(x) = x^2, x0 = 1, MaxIterations 1,
   constraint x >= 1): the point returned at the cap is the evaluated, submitted and accepted x0 — before
   the fix it was the updated point 0.999, never evaluated, never submitted, violating the constraint *)
Lemma adam_generic_cap_constraints_regression_l :
  exists x tr, adam_generic NumF Fsq noHK ge1 P4 10 [1%float] = (Cap x, tr) /\
     ge1 0%nat x = true /\ submitted_and_accepted tr x = true /\
     existsb (fun e => match e with EvEval (QGrad y) _ => list_eqb feqb x y | _ => false end) tr = true.
Proof. do 2 eexists; split; [vm_compute; reflexivity | repeat split; vm_compute; reflexivity]. Qed.
