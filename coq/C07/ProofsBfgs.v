(* C07 — bfgs.go: stop condition at the returned point, hook arguments, evaluation cap. *)
From Coq Require Import ZArith List Bool Lia.
From ADV Require Import Base.Num C07.Model C07.Spec C07.ProofsBase C07.ProofsLS.
Import ListNotations.
Open Scope Z_scope.

Local Arguments line_search : simpl never.
Local Arguments bf_updateH : simpl never.
Local Arguments bf_scale : simpl never.
Local Arguments bf_dir_query : simpl never.

Section BFGS.
Context {A : Type} (NM : Num A).
Variable K : consts (A := A).
Variable F : nat -> query (A := A) -> answer (A := A).
Variable HK : nat -> hookargs (A := A) -> bool.
Variable CS : nat -> list A -> bool.
Variable P : bf_params (A := A).

Notation good := (good F HK CS).
Notation trace := (trace (A := A)).
Ltac nonconv := let x := fresh "x" in let X := fresh "X" in intros x X; discriminate X.

Definition bf_post (o : outcome (A := A)) (tr : trace) : Prop :=
  good tr /\ (forall x, o = Converged x -> stop_ok NM (bf_eps P) tr x).

(* the embedded line search (no hook, no constraints) keeps the log good *)
Lemma bf_ls_good fuel x1 p1 tr : good tr ->
  good (snd (line_search NM K F HK CS (bf_dir_query NM x1 p1) (bf_cons_point NM x1 p1) false (bf_cons P) fuel (one NM) 100 tr)).
Proof.
  intros G.
  pose proof (line_search_ok NM K F HK CS (bf_dir_query NM x1 p1) (bf_cons_point NM x1 p1) false (bf_cons P) (hook_matched (A := A))
                (hm_ext) (fun (X : false = true) => False_rect _ (Bool.diff_false_true X))
                fuel (one NM) 100 tr G) as L.
  apply L.
Qed.

Lemma bf_loop_ok fuel : forall i x1 x2 y1 y2 g1 g2 H1 first tr, good tr ->
  bf_post (fst (bf_loop NM K F HK CS P fuel i x1 x2 y1 y2 g1 g2 H1 first tr))
          (snd (bf_loop NM K F HK CS P fuel i x1 x2 y1 y2 g1 g2 H1 first tr)).
Proof.
  unfold bf_post.
  induction fuel as [|f IH]; intros i x1 x2 y1 y2 g1 g2 H1 first tr G; simpl.
  { ssplit; [exact G | nonconv]. }
  destruct (i <? bf_maxit P); simpl.
  2:{ ssplit; [exact G | nonconv]. }
  remember (map (neg NM) (mdotv NM H1 g1)) as p1 eqn:Hp1.
  pose proof (bf_ls_good f x1 p1 tr G) as G1.
  remember (line_search NM K F HK CS (bf_dir_query NM x1 p1) (bf_cons_point NM x1 p1) false (bf_cons P) f (one NM) 100 tr) as r eqn:Hr.
  clear Hr.
  destruct (ls_is_fuel (fst r)); simpl.
  { ssplit; [exact G1 | nonconv]. }
  remember (vadd NM x1 (vmuls NM p1 (ls_alpha NM (fst r)))) as x2' eqn:Hx2.
  destruct (ls_is_err (fst r) || vequal NM x1 x2').
  { destruct first; simpl; [ssplit; [exact G1 | nonconv] | apply IH; exact G1]. }
  remember (F (length (snd r)) (QGrad x2')) as a eqn:Ha.
  assert (G2 : good (EvEval (QGrad x2') a :: snd r)) by (subst a; apply good_eval; auto).
  destruct (a_err a) eqn:Herr; simpl.
  { ssplit; [exact G2 | nonconv]. }
  remember (mkHook x2' (a_g a) (Some (a_y a)) []) as h eqn:Hh.
  assert (M : hook_matched (EvEval (QGrad x2') a :: snd r) h).
  { exists a. subst h; simpl. ssplit; auto. }
  remember (if bf_hook P then EvHook h (if bf_hook P then HK (S (length (snd r))) h else false) :: EvEval (QGrad x2') a :: snd r
            else EvEval (QGrad x2') a :: snd r) as tr3 eqn:Htr3.
  assert (G3 : good tr3).
  { subst tr3. exact (good_opt_hook F HK CS (bf_hook P) (EvEval (QGrad x2') a :: snd r) h G2 M). }
  assert (E3 : ext (EvEval (QGrad x2') a :: snd r) tr3) by (subst tr3; apply ext_opt).
  clear Htr3.
  destruct (if bf_hook P then HK (S (length (snd r))) h else false); simpl.
  { ssplit; [exact G3 | nonconv]. }
  destruct (ltb NM (norm NM (a_g a)) (bf_eps P)) eqn:Hn; simpl.
  { ssplit; [exact G3|]. intros x X. inversion X; subst x. exists a. ssplit; auto.
    eapply ext_in; [exact E3 | left; reflexivity]. }
  destruct (bf_updateH NM (length x1) g1 (a_g a) (vmuls NM p1 (ls_alpha NM (fst r)))
              (if first then bf_scale NM x1 x2' g1 (a_g a) H1 else H1)); apply IH; exact G3.
Qed.

Theorem bfgs_ok fuel x0 :
  bf_post (fst (bfgs NM K F HK CS P fuel x0)) (snd (bfgs NM K F HK CS P fuel x0)).
Proof.
  unfold bfgs.
  remember (if bf_cons P then CS 0 x0 else true) as ok eqn:Hok.
  remember (if bf_cons P then [EvCons x0 ok] else []) as tr0 eqn:Htr0.
  assert (G0 : good tr0).
  { subst tr0. destruct (bf_cons P); [|apply good_nil]. subst ok.
    apply (good_cons F HK CS [] x0). apply good_nil. }
  clear Htr0.
  destruct ok; simpl.
  2:{ unfold bf_post; ssplit; [exact G0 | nonconv]. }
  remember (F (length tr0) (QGrad x0)) as a eqn:Ha.
  assert (G1 : good (EvEval (QGrad x0) a :: tr0)) by (subst a; apply good_eval; auto).
  destruct (a_err a) eqn:Herr; simpl.
  { unfold bf_post; ssplit; [exact G1 | nonconv]. }
  destruct (ltb NM (norm NM (a_g a)) (bf_eps P)) eqn:Hn; simpl.
  { unfold bf_post; ssplit; [exact G1|]. intros x X. inversion X; subst x. exists a. ssplit; auto; left; reflexivity. }
  remember (mkHook x0 (a_g a) (Some (a_y a)) []) as h eqn:Hh.
  assert (M : hook_matched (EvEval (QGrad x0) a :: tr0) h).
  { exists a. subst h; simpl. ssplit; auto; left; reflexivity. }
  remember (if bf_hook P then EvHook h (if bf_hook P then HK (S (length tr0)) h else false) :: EvEval (QGrad x0) a :: tr0
            else EvEval (QGrad x0) a :: tr0) as tr2 eqn:Htr2.
  assert (G2 : good tr2).
  { subst tr2. exact (good_opt_hook F HK CS (bf_hook P) (EvEval (QGrad x0) a :: tr0) h G1 M). }
  clear Htr2.
  destruct (if bf_hook P then HK (S (length tr0)) h else false); simpl.
  { unfold bf_post; ssplit; [exact G2 | nonconv]. }
  apply bf_loop_ok; exact G2.
Qed.

(* ------------------------------------------------------------ evaluation cap:
   every iteration costs at most 102 line-search evaluations + 1 gradient evaluation *)
Lemma bf_loop_evals fuel : forall i x1 x2 y1 y2 g1 g2 H1 first tr,
  (n_evals (snd (bf_loop NM K F HK CS P fuel i x1 x2 y1 y2 g1 g2 H1 first tr))
   <= n_evals tr + 103 * Z.to_nat (bf_maxit P - i))%nat.
Proof.
  induction fuel as [|f IH]; intros i x1 x2 y1 y2 g1 g2 H1 first tr; simpl; [lia|].
  destruct (i <? bf_maxit P) eqn:Hi; simpl; [|lia].
  apply Z.ltb_lt in Hi.
  assert (Hz : Z.to_nat (bf_maxit P - i) = S (Z.to_nat (bf_maxit P - (i + 1)))) by lia.
  remember (map (neg NM) (mdotv NM H1 g1)) as p1 eqn:Hp1.
  pose proof (line_search_evals NM K F HK CS (bf_dir_query NM x1 p1) (bf_cons_point NM x1 p1) false (bf_cons P) f (one NM) 100 tr) as L.
  remember (line_search NM K F HK CS (bf_dir_query NM x1 p1) (bf_cons_point NM x1 p1) false (bf_cons P) f (one NM) 100 tr) as r eqn:Hr.
  clear Hr. change (Z.to_nat 100) with 100%nat in L.
  destruct (ls_is_fuel (fst r)); simpl; [lia|].
  remember (vadd NM x1 (vmuls NM p1 (ls_alpha NM (fst r)))) as x2' eqn:Hx2.
  destruct (ls_is_err (fst r) || vequal NM x1 x2').
  { destruct first; simpl; [lia|].
    specialize (IH (i + 1) x2' x2' y2 y2 g2 g2 (bf_H0 P) true (snd r)). lia. }
  remember (F (length (snd r)) (QGrad x2')) as a eqn:Ha.
  destruct (a_err a); simpl; [rewrite n_evals_eval; lia|].
  remember (mkHook x2' (a_g a) (Some (a_y a)) []) as h eqn:Hh.
  remember (if bf_hook P then EvHook h (if bf_hook P then HK (S (length (snd r))) h else false) :: EvEval (QGrad x2') a :: snd r
            else EvEval (QGrad x2') a :: snd r) as tr3 eqn:Htr3.
  assert (N3 : n_evals tr3 = S (n_evals (snd r))).
  { subst tr3. destruct (bf_hook P); [rewrite n_evals_hook|]; apply n_evals_eval. }
  clear Htr3.
  destruct (if bf_hook P then HK (S (length (snd r))) h else false); simpl; [lia|].
  destruct (ltb NM (norm NM (a_g a)) (bf_eps P)); simpl; [lia|].
  destruct (bf_updateH NM (length x1) g1 (a_g a) (vmuls NM p1 (ls_alpha NM (fst r)))
              (if first then bf_scale NM x1 x2' g1 (a_g a) H1 else H1)).
  - specialize (IH (i + 1) x2' x2' (a_y a) (a_y a) (a_g a) (a_g a) m false tr3). lia.
  - specialize (IH (i + 1) x2' x2' (a_y a) (a_y a) (a_g a) (a_g a) (bf_H0 P) true tr3). lia.
Qed.

(* constraints: the start point is submitted and a rejected one is an error return *)
Lemma bfgs_start_rejected_l fuel x0 :
  bf_cons P = true -> CS 0 x0 = false ->
  bfgs NM K F HK CS P fuel x0 = (Err x0, [EvCons x0 false]).
Proof. intros Hc Hr. unfold bfgs. rewrite Hc, Hr. reflexivity. Qed.

Theorem bfgs_eval_cap fuel x0 :
  (n_evals (snd (bfgs NM K F HK CS P fuel x0)) <= 1 + 103 * Z.to_nat (bf_maxit P))%nat.
Proof.
  unfold bfgs.
  remember (if bf_cons P then CS 0 x0 else true) as ok eqn:Hok.
  remember (if bf_cons P then [EvCons x0 ok] else []) as tr0 eqn:Htr0.
  assert (N0 : n_evals tr0 = 0%nat) by (subst tr0; destruct (bf_cons P); reflexivity).
  clear Htr0.
  destruct ok; cbn [negb fst snd]; [|lia].
  remember (F (length tr0) (QGrad x0)) as a eqn:Ha.
  destruct (a_err a); cbn [fst snd]; [rewrite n_evals_eval; lia|].
  destruct (ltb NM (norm NM (a_g a)) (bf_eps P)); cbn [fst snd]; [rewrite n_evals_eval; lia|].
  remember (mkHook x0 (a_g a) (Some (a_y a)) []) as h eqn:Hh.
  remember (if bf_hook P then EvHook h (if bf_hook P then HK (length (EvEval (QGrad x0) a :: tr0)) h else false) :: EvEval (QGrad x0) a :: tr0
            else EvEval (QGrad x0) a :: tr0) as tr2 eqn:Htr2.
  assert (N2 : n_evals tr2 = 1%nat).
  { subst tr2. destruct (bf_hook P); [rewrite n_evals_hook|]; rewrite n_evals_eval; lia. }
  clear Htr2.
  destruct (if bf_hook P then HK (length (EvEval (QGrad x0) a :: tr0)) h else false); cbn [fst snd]; [lia|].
  pose proof (bf_loop_evals fuel 0 x0 x0 (a_y a) (zero NM) (a_g a) (repeat (zero NM) (length x0)) (bf_H0 P) true tr2) as L.
  rewrite Z.sub_0_r in L. lia.
Qed.

End BFGS.
