(* C07 (round 3) — blahut / blahutNaive: what IS guaranteed (step cap, hook bookkeeping
   with the lag made explicit, the returned point) and the refutation of "J is the value
   at the point passed to the hook". *)
From Coq Require Import ZArith List Bool Lia Floats.
From ADV Require Import Base.Num C07.ModelBlahut.
Import ListNotations.
Open Scope Z_scope.

Section PB.
Context {A : Type}.
Notation vec := (list A).
Variable BSTEP : nat -> vec -> A * vec.
Variable BHK : nat -> vec -> A -> bool.
Variable P : bl_params.
Notation bl_trace := (@ModelBlahut.bl_trace A).

(* honest log *)
Inductive blf : bl_trace -> Prop :=
| blf_nil : blf []
| blf_step tr p : blf tr -> blf (BvStep p (fst (BSTEP (length tr) p)) (snd (BSTEP (length tr) p)) :: tr)
| blf_hook tr p J : blf tr -> blf (BvHook p J (BHK (length tr) p J) :: tr).

(* hook bookkeeping: the hook got (p', J) where the step that STARTED FROM p computed J and p' *)
Definition bl_hook_lagged (tr : bl_trace) : Prop :=
  forall p' J b, In (BvHook p' J b) tr -> exists p, In (BvStep p J p') tr.
(* the current distribution is the result of the newest step (p_init before any step) *)
Definition bl_cur (p_init : vec) (tr : bl_trace) : vec :=
  match filter bv_is_step tr with BvStep _ _ p' :: _ => p' | _ => p_init end.

Definition bl_post (p_init : vec) (k : Z) (tr0 : bl_trace) (r : bl_out (A := A) * bl_trace) : Prop :=
  let '(o, tr) := r in
  blf tr /\ bl_hook_lagged tr /\
  (bl_n_steps tr <= bl_n_steps tr0 + Z.to_nat (bl_steps P - k))%nat /\
  (bl_n_hooks tr <= bl_n_hooks tr0 + Z.to_nat (bl_steps P - k))%nat /\
  (bl_hook P = false -> bl_n_hooks tr = bl_n_hooks tr0) /\
  match o with
  | BlHook p => p = bl_cur p_init tr /\ exists J tr', tr = BvHook p J true :: tr'
  | BlCap p => p = bl_cur p_init tr /\
               (bl_n_steps tr = bl_n_steps tr0 + Z.to_nat (bl_steps P - k))%nat
  | BlFuel => True
  end.

Lemma lag_more e tr : bl_hook_lagged tr -> (forall p J b, e <> BvHook p J b) -> bl_hook_lagged (e :: tr).
Proof.
  intros H Ne p' J b [E | Hin]; [exfalso; eapply Ne; eauto|].
  destruct (H p' J b Hin) as [p Hp]. exists p; right; exact Hp.
Qed.

Lemma bl_loop_ok p_init fuel : forall k p tr, blf tr -> bl_hook_lagged tr -> p = bl_cur p_init tr ->
  bl_post p_init k tr (bl_loop BSTEP BHK P fuel k p tr).
Proof.
  induction fuel as [|f IH]; intros k p tr W L C; cbn [bl_loop].
  { unfold bl_post. split; [exact W | split; [exact L | split; [lia | split; [lia | split; [reflexivity | exact I]]]]]. }
  destruct (k <? bl_steps P) eqn:Hk.
  2:{ apply Z.ltb_ge in Hk. unfold bl_post.
      split; [exact W | split; [exact L | split; [lia | split; [lia | split; [reflexivity | split; [exact C | lia]]]]]]. }
  apply Z.ltb_lt in Hk.
  assert (Hz : Z.to_nat (bl_steps P - k) = S (Z.to_nat (bl_steps P - (k + 1)))) by lia.
  set (J := fst (BSTEP (length tr) p)). set (p' := snd (BSTEP (length tr) p)).
  set (tr1 := BvStep p J p' :: tr).
  assert (W1 : blf tr1) by (apply blf_step; exact W).
  assert (L1 : bl_hook_lagged tr1) by (apply lag_more; [exact L | intros ? ? ? X; discriminate X]).
  assert (C1 : p' = bl_cur p_init tr1) by reflexivity.
  assert (N1 : bl_n_steps tr1 = S (bl_n_steps tr) /\ bl_n_hooks tr1 = bl_n_hooks tr) by (split; reflexivity).
  destruct N1 as [N1s N1h].
  destruct (bl_hook P) eqn:Hh.
  2:{ specialize (IH (k + 1) p' tr1 W1 L1 C1).
      destruct (bl_loop BSTEP BHK P f (k + 1) p' tr1) as [o tr2].
      destruct IH as (I1 & I2 & I3 & I4 & I5 & I6).
      unfold bl_post. split; [exact I1 | split; [exact I2 | split; [lia | split; [lia | split]]]].
      - intros X. rewrite (I5 X). exact N1h.
      - destruct o; auto. destruct I6 as [E1 E2]. split; [exact E1 | lia]. }
  set (stop := BHK (length tr1) p' J). set (tr2 := BvHook p' J stop :: tr1).
  assert (W2 : blf tr2) by (apply blf_hook; exact W1).
  assert (L2 : bl_hook_lagged tr2).
  { intros q Jq b [E | Hin].
    - injection E as E1 E2 E3. exists p. right; left. rewrite <- E1, <- E2. reflexivity.
    - destruct (L1 q Jq b Hin) as [p2 Hp]. exists p2; right; exact Hp. }
  assert (C2 : p' = bl_cur p_init tr2) by reflexivity.
  assert (N2 : bl_n_steps tr2 = S (bl_n_steps tr) /\ bl_n_hooks tr2 = S (bl_n_hooks tr)) by (split; reflexivity).
  destruct N2 as [N2s N2h].
  destruct stop eqn:Hs.
  { unfold bl_post. split; [exact W2 | split; [exact L2 | split; [lia | split; [lia | split]]]].
    - intros X; congruence.
    - split; [exact C2 | exists J, tr1; reflexivity]. }
  specialize (IH (k + 1) p' tr2 W2 L2 C2).
  destruct (bl_loop BSTEP BHK P f (k + 1) p' tr2) as [o tr3].
  destruct IH as (I1 & I2 & I3 & I4 & I5 & I6).
  unfold bl_post. split; [exact I1 | split; [exact I2 | split; [lia | split; [lia | split]]]].
  - intros X; congruence.
  - destruct o; auto. destruct I6 as [E1 E2]. split; [exact E1 | lia].
Qed.

Theorem blahut_ok fuel p_init : bl_post p_init 0 [] (blahut BSTEP BHK P fuel p_init).
Proof. apply bl_loop_ok; [constructor | intros ? ? ? [] | reflexivity]. Qed.

Lemma blf_step_answer (tr : bl_trace) p J p' : blf tr -> In (BvStep p J p') tr -> exists k, (J, p') = BSTEP k p.
Proof.
  induction 1; intros Hin.
  - destruct Hin.
  - destruct Hin as [E | Hin]; [inversion E; subst; eexists; symmetry; apply surjective_pairing | auto].
  - destruct Hin as [E | Hin]; [discriminate | auto].
Qed.

(* ---- statements of Props.v *)
Lemma blahut_hooks_l fuel p_init : bl_hook_lagged (snd (blahut BSTEP BHK P fuel p_init)).
Proof. pose proof (blahut_ok fuel p_init) as K. destruct (blahut BSTEP BHK P fuel p_init); apply K. Qed.
Lemma blahut_wf_l fuel p_init : blf (snd (blahut BSTEP BHK P fuel p_init)).
Proof. pose proof (blahut_ok fuel p_init) as K. destruct (blahut BSTEP BHK P fuel p_init); apply K. Qed.
Lemma blahut_caps_l fuel p_init :
  (bl_n_steps (snd (blahut BSTEP BHK P fuel p_init)) <= Z.to_nat (bl_steps P))%nat /\
  (bl_n_hooks (snd (blahut BSTEP BHK P fuel p_init)) <= Z.to_nat (bl_steps P))%nat.
Proof.
  pose proof (blahut_ok fuel p_init) as K. destruct (blahut BSTEP BHK P fuel p_init) as [o tr].
  destruct K as (_ & _ & K1 & K2 & _). rewrite Z.sub_0_r in *. simpl in *. split; lia.
Qed.
(* the only ways out: the hook said stop (and then it was the last event), or ALL steps were done *)
Lemma blahut_return_l fuel p_init :
  match fst (blahut BSTEP BHK P fuel p_init) with
  | BlHook p => bl_hook P = true /\ p = bl_cur p_init (snd (blahut BSTEP BHK P fuel p_init)) /\
                exists J tr', snd (blahut BSTEP BHK P fuel p_init) = BvHook p J true :: tr'
  | BlCap p => p = bl_cur p_init (snd (blahut BSTEP BHK P fuel p_init)) /\
               bl_n_steps (snd (blahut BSTEP BHK P fuel p_init)) = Z.to_nat (bl_steps P)
  | BlFuel => True
  end.
Proof.
  pose proof (blahut_ok fuel p_init) as K. destruct (blahut BSTEP BHK P fuel p_init) as [o tr]; cbn [fst snd].
  destruct K as (_ & _ & _ & _ & K5 & K6). destruct o; auto.
  - destruct K6 as [E1 (J & tr' & E2)]. split; [|split; [exact E1 | eauto]].
    destruct (bl_hook P); [reflexivity|]. specialize (K5 eq_refl). subst tr. discriminate K5.
  - destruct K6 as [E1 E2]. split; [exact E1|]. rewrite Z.sub_0_r in E2. simpl in E2. lia.
Qed.
(* pure step function: the hook's J is Jf of the PREVIOUS distribution, its p is the next one *)
Lemma blahut_hooks_pure_l (Jf : vec -> A) (nx : vec -> vec) (tr : bl_trace) p' J b :
  (forall k p, BSTEP k p = (Jf p, nx p)) -> blf tr -> bl_hook_lagged tr -> In (BvHook p' J b) tr ->
  exists p, p' = nx p /\ J = Jf p.
Proof.
  intros Hp W L Hin. destruct (L p' J b Hin) as [p Hs].
  destruct (blf_step_answer _ _ _ _ W Hs) as [k E]. rewrite Hp in E. inversion E; subst. eauto.
Qed.
End PB.

(* refutation of "the value passed to the hook is the value at the point passed with it":
   a step that halves p and reports J = p[0]: the hook receives ([0.5], 1) although J([0.5]) = 0.5 *)
Definition bl_half (k : nat) (p : list float) : float * list float :=
  (hd 0%float p, map (fun v => (v * 0.5)%float) p).
Lemma blahut_hook_value_lag_refuted_l :
  snd (blahut bl_half (fun _ _ _ => false) (mkBl 2 true) 10 [1%float])
    = [BvHook [0.25%float] 0.5%float false; BvStep [0.5%float] 0.5%float [0.25%float];
       BvHook [0.5%float] 1%float false; BvStep [1%float] 1%float [0.5%float]] /\
  PrimFloat.eqb (fst (bl_half 0 [0.5%float])) 1%float = false.
Proof. split; vm_compute; reflexivity. Qed.
