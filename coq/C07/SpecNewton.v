(* C07 (round 2) — what the property says for newton_root (RunRoot / RunCrit), as
   predicates on (outcome, trace) of the oracle machine in ModelNewton.v. *)
From Coq Require Import ZArith List Bool.
From ADV Require Import Base.Num C07.Model C07.ModelNewton.
Import ListNotations.

Section SpecNewton.
Context {A : Type} (NM : Num A).
Notation vec := (list A).
Notation mat := (list (list A)).
Notation nw_trace := (@ModelNewton.nw_trace A).
Variable NF : nat -> vec -> nw_answer (A := A).
Variable ND : nat -> Z -> vec -> mat -> dir_ans (A := A).
Variable NHK : nat -> nw_hookargs (A := A) -> bool.
Variable NCS : nat -> vec -> bool.

(* honest log: the k-th external call is recorded with the oracle's answer to exactly
   the recorded query *)
Inductive nwf : nw_trace -> Prop :=
| nwf_nil : nwf []
| nwf_eval tr x : nwf tr -> nwf (NvEval x (NF (length tr) x) :: tr)
| nwf_dir tr m y J : nwf tr -> nwf (NvDir m y J (ND (length tr) m y J) :: tr)
| nwf_hook tr h : nwf tr -> nwf (NvHook h (NHK (length tr) h) :: tr)
| nwf_cons tr x : nwf tr -> nwf (NvCons x (NCS (length tr) x) :: tr).

(* the newest evaluation of the objective in the log *)
Fixpoint last_eval (tr : nw_trace) : option (vec * nw_answer (A := A)) :=
  match tr with
  | [] => None
  | NvEval x a :: _ => Some (x, a)
  | _ :: tr' => last_eval tr'
  end.

(* (1) stop condition at the returned point: the LAST evaluation of the objective was at
   x, it succeeded, and its y (RunRoot: f(x); RunCrit: grad f(x)) passes |y| < epsilon *)
Definition nw_passes (eps : A) (a : nw_answer (A := A)) : Prop :=
  n_err a = false /\ ltb NM (norm NM (n_y a)) eps = true.
Definition nw_stop_ok (eps : A) (tr : nw_trace) (x : vec) : Prop :=
  exists a, last_eval tr = Some (x, a) /\ nw_passes eps a.

(* (2) hook arguments: (J, y) handed to the hook are the oracle's answer for the point
   handed to it *)
Definition nw_hook_matched (tr : nw_trace) (h : nw_hookargs (A := A)) : Prop :=
  exists a, In (NvEval (nh_x h) a) tr /\ n_err a = false /\ nh_J h = n_J a /\ nh_y h = n_y a.
Definition nw_hooks_ok (tr : nw_trace) : Prop :=
  forall h b, In (NvHook h b) tr -> nw_hook_matched tr h.

(* (3) constraints: a point returned without error was submitted and accepted *)
Definition nw_accepted (has_cons : bool) (tr : nw_trace) (x : vec) : Prop :=
  has_cons = true -> In (NvCons x true) tr.
Definition nw_success (o : nw_out (A := A)) : bool :=
  match o with NwConv _ | NwHook _ | NwCap _ => true | _ => false end.
Definition nw_point_accepted (has_cons : bool) (tr : nw_trace) (o : nw_out (A := A)) : Prop :=
  match o with
  | NwConv x | NwHook x | NwCap x => nw_accepted has_cons tr x
  | _ => True
  end.
(* every return without error carries the point of the last evaluation, which succeeded:
   a point that was only computed (x1 - t1) but never evaluated cannot be returned with
   a nil error — this is what makes the back-tracking exit an error return *)
Definition nw_point_evaluated (tr : nw_trace) (o : nw_out (A := A)) : Prop :=
  match o with
  | NwConv x | NwHook x | NwCap x => exists a, last_eval tr = Some (x, a) /\ n_err a = false
  | _ => True
  end.

(* (5) caps *)
Definition nv_is_eval (e : nw_event (A := A)) : bool := match e with NvEval _ _ => true | _ => false end.
Definition nv_is_hook (e : nw_event (A := A)) : bool := match e with NvHook _ _ => true | _ => false end.
Definition nv_is_dir (e : nw_event (A := A)) : bool := match e with NvDir _ _ _ _ => true | _ => false end.
Definition nw_n_evals (tr : nw_trace) : nat := length (filter nv_is_eval tr).
Definition nw_n_hooks (tr : nw_trace) : nat := length (filter nv_is_hook tr).
Definition nw_n_dirs (tr : nw_trace) : nat := length (filter nv_is_dir tr).

(* the step after k reductions  t1.VmulS(t1, c) *)
Fixpoint nw_shrunk (c : A) (k : nat) (t : vec) : vec :=
  match k with O => t | S k' => nw_shrunk c k' (vmuls NM t c) end.
(* "the back-tracking loop is exhausted": some reduced step no longer changes x1 *)
Definition nw_step_vanished (c : A) (x1 t1 : vec) : Prop :=
  exists k, vequal NM x1 (vsub NM x1 (nw_shrunk c k t1)) = true.

End SpecNewton.
