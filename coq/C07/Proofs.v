(* C07 — final form of the lemmas quoted by Props.v. *)
From Coq Require Import ZArith List Bool Reals Lra Lia.
From ADV Require Import Base.Num C07.Model C07.Spec C07.ProofsBase C07.ProofsRprop C07.ProofsGD
  C07.ProofsLS C07.ProofsBfgs C07.ProofsDense C07.ProofsAdam.
Import ListNotations.
Open Scope Z_scope.

Section Final.
Context {A : Type} (NM : Num A).
Variable K : consts (A := A).
Variable F : nat -> query (A := A) -> answer (A := A).
Variable HK : nat -> hookargs (A := A) -> bool.
Variable CS : nat -> list A -> bool.
Notation wf := (wf F HK CS).

(* ---------------------------------------------------------------- rprop *)
Lemma rprop_stop_l (P : rp_params) fuel x0 x tr :
  rprop NM F HK CS P fuel x0 = (Converged x, tr) -> wf tr /\ stop_ok NM (rp_eps P) tr x.
Proof.
  intros H. pose proof (rprop_ok NM F HK CS P fuel x0) as R. rewrite H in R.
  destruct R as (G & S & _). split; [apply (good_wf _ _ _ _ G) | apply S; reflexivity].
Qed.
Lemma rprop_hooks_l (P : rp_params) fuel x0 : hooks_ok (snd (rprop NM F HK CS P fuel x0)).
Proof. destruct (rprop_ok NM F HK CS P fuel x0) as (G & _). apply (good_hooks_ok _ _ _ _ G). Qed.
Lemma rprop_cons_l (P : rp_params) fuel x0 :
  point_accepted (rp_cons P) (snd (rprop NM F HK CS P fuel x0)) (fst (rprop NM F HK CS P fuel x0)).
Proof. apply (rprop_ok NM F HK CS P fuel x0). Qed.
Lemma rprop_wf_l (P : rp_params) fuel x0 : wf (snd (rprop NM F HK CS P fuel x0)).
Proof. destruct (rprop_ok NM F HK CS P fuel x0) as (G & _). apply (good_wf _ _ _ _ G). Qed.

(* ---------------------------------------------------------------- gradient descent *)
Lemma gd_stop_l (P : gd_params) fuel x0 x tr :
  gradient_descent NM F HK P fuel x0 = (Converged x, tr) -> wf tr /\ stop_ok NM (gd_eps P) tr x.
Proof.
  intros H. pose proof (gd_ok NM F HK CS P fuel x0) as R. rewrite H in R.
  destruct R as (G & S). split; [apply (good_wf _ _ _ _ G) | apply S; reflexivity].
Qed.
Lemma gd_hooks_l (P : gd_params) fuel x0 : hooks_ok (snd (gradient_descent NM F HK P fuel x0)).
Proof. destruct (gd_ok NM F HK CS P fuel x0) as (G & _). apply (good_hooks_ok _ _ _ _ G). Qed.

(* ---------------------------------------------------------------- bfgs *)
Lemma bfgs_stop_l (P : bf_params) fuel x0 x tr :
  bfgs NM K F HK CS P fuel x0 = (Converged x, tr) -> wf tr /\ stop_ok NM (bf_eps P) tr x.
Proof.
  intros H. pose proof (bfgs_ok NM K F HK CS P fuel x0) as R. rewrite H in R.
  destruct R as (G & S). split; [apply (good_wf _ _ _ _ G) | apply S; reflexivity].
Qed.
Lemma bfgs_hooks_l (P : bf_params) fuel x0 : hooks_ok (snd (bfgs NM K F HK CS P fuel x0)).
Proof. destruct (bfgs_ok NM K F HK CS P fuel x0) as (G & _). apply (good_hooks_ok _ _ _ _ G). Qed.

(* ---------------------------------------------------------------- line search (lineSearch.Run) *)
Lemma lshm_ext : forall (tr tr' : trace (A := A)) h,
  ext tr tr' -> ls_hook_matched NM ls_scalar_query tr h -> ls_hook_matched NM ls_scalar_query tr' h.
Proof.
  intros tr tr' h E (al & a & H1 & H2 & H3 & H4 & H5). exists al, a. ssplit; auto. eapply ext_in; eauto.
Qed.
Lemma lshm_ls (hk : bool) : hk = true -> forall (tr : trace (A := A)) aj a,
  In (EvEval (ls_scalar_query aj) a) tr -> a_err a = false ->
  ls_hook_matched NM ls_scalar_query tr (mkHook [aj] [hd (zero NM) (a_g a)] (Some (a_y a)) []).
Proof. intros _ tr aj a Hin He. exists aj, a. ssplit; auto. Qed.

Lemma ls_run_ok hk cs fuel alpha1 maxEval :
  ls_full_post NM K F HK CS ls_scalar_query (ls_hook_matched NM ls_scalar_query) []
    (fst (line_search_run NM K F HK CS hk cs fuel alpha1 maxEval))
    (snd (line_search_run NM K F HK CS hk cs fuel alpha1 maxEval)).
Proof.
  unfold line_search_run.
  apply (line_search_ok NM K F HK CS ls_scalar_query (ls_scalar_point (A := A)) hk cs (ls_hook_matched NM ls_scalar_query) lshm_ext (lshm_ls hk)).
  apply goodH_nil.
Qed.
Lemma ls_stop_l hk cs fuel alpha1 maxEval al tr :
  line_search_run NM K F HK CS hk cs fuel alpha1 maxEval = (LSConv al, tr) ->
  wf tr /\ ls_stop_ok NM K ls_scalar_query tr al.
Proof.
  intros H. pose proof (ls_run_ok hk cs fuel alpha1 maxEval) as R. rewrite H in R.
  destruct R as ((W & _) & _ & S). split; [exact W | apply S; reflexivity].
Qed.
Lemma ls_hooks_l hk cs fuel alpha1 maxEval :
  ls_hooks_ok NM ls_scalar_query (snd (line_search_run NM K F HK CS hk cs fuel alpha1 maxEval)).
Proof. destruct (ls_run_ok hk cs fuel alpha1 maxEval) as ((_ & H) & _). exact H. Qed.
Lemma ls_cap_l hk cs fuel alpha1 maxEval :
  (n_evals (snd (line_search_run NM K F HK CS hk cs fuel alpha1 maxEval)) <= Z.to_nat maxEval + 2)%nat.
Proof.
  unfold line_search_run.
  pose proof (line_search_evals NM K F HK CS ls_scalar_query (ls_scalar_point (A := A)) hk cs fuel alpha1 maxEval []) as H.
  exact H.
Qed.

(* ---------------------------------------------------------------- rprop_dense *)
Lemma rprop_dense_cons_l (P : rp_params) fuel x0 :
  point_accepted (rp_cons P) (snd (rprop_dense NM F HK CS P fuel x0)) (fst (rprop_dense NM F HK CS P fuel x0)).
Proof. apply (rprop_dense_ok NM F HK CS P fuel x0). Qed.
Lemma rprop_dense_cap_l (P : rp_params) fuel x0 :
  (n_hooks (snd (rprop_dense NM F HK CS P fuel x0)) <= Z.to_nat (rp_maxit P))%nat.
Proof.
  destruct (rprop_dense_ok NM F HK CS P fuel x0) as (_ & _ & _ & H). rewrite Z.sub_0_r in H. exact H.
Qed.
Lemma rprop_dense_stop_l (P : rp_params) fuel x0 x tr :
  rprop_dense NM F HK CS P fuel x0 = (Converged x, tr) ->
  wf tr /\ stop_ok NM (rp_eps P) tr x.
Proof.
  intros H. pose proof (rprop_dense_ok NM F HK CS P fuel x0) as R. rewrite H in R.
  destruct R as (G & _ & S & _). split; [apply (good_wf _ _ _ _ G) | apply S; reflexivity].
Qed.
Lemma rprop_dense_hooks_l (P : rp_params) fuel x0 : hooks_ok (snd (rprop_dense NM F HK CS P fuel x0)).
Proof. destruct (rprop_dense_ok NM F HK CS P fuel x0) as (G & _). apply (good_hooks_ok _ _ _ _ G). Qed.

(* ---------------------------------------------------------------- adam (dense, with gradient) *)
Lemma adam_stop_l (P : ad_params) fuel x0 x tr :
  adam_dense NM F HK CS P fuel x0 = (Converged x, tr) -> wf tr /\ stop_ok NM (ad_eps P) tr x.
Proof.
  intros H. pose proof (adam_ok NM F HK CS P fuel x0) as R. rewrite H in R.
  destruct R as (G & S & _). split; [apply (good_wf _ _ _ _ G) | apply S; reflexivity].
Qed.
Lemma adam_hooks_l (P : ad_params) fuel x0 : hooks_ok (snd (adam_dense NM F HK CS P fuel x0)).
Proof. destruct (adam_ok NM F HK CS P fuel x0) as (G & _). apply (good_hooks_ok _ _ _ _ G). Qed.
Lemma adam_cons_l (P : ad_params) fuel x0 :
  point_accepted (ad_cons P) (snd (adam_dense NM F HK CS P fuel x0)) (fst (adam_dense NM F HK CS P fuel x0)).
Proof. apply (adam_ok NM F HK CS P fuel x0). Qed.
Lemma adam_cap_l (P : ad_params) fuel x0 :
  (n_evals (snd (adam_dense NM F HK CS P fuel x0)) <= Z.to_nat (ad_maxit P))%nat.
Proof.
  destruct (adam_ok NM F HK CS P fuel x0) as (_ & _ & _ & H). rewrite Z.sub_0_r in H. exact H.
Qed.

(* ---------------------------------------------------------------- pure oracles:
   "re-evaluated there": with F k = f the logged answer IS f at the point *)
Lemma stop_ok_pure (f : query -> answer) eps tr x :
  (forall k q, F k q = f q) -> wf tr -> stop_ok NM eps tr x ->
  a_err (f (QGrad x)) = false /\ ltb NM (norm NM (a_g (f (QGrad x)))) eps = true.
Proof.
  intros Hp W (a & Hin & He & Hn).
  destruct (wf_eval_answer F HK CS tr _ _ W Hin) as (k & ->). rewrite Hp in He, Hn. auto.
Qed.
Lemma hooks_ok_pure (f : query -> answer) tr h b :
  (forall k q, F k q = f q) -> wf tr -> hooks_ok tr -> In (EvHook h b) tr ->
  h_g h = a_g (f (QGrad (h_x h))) /\ match h_y h with Some y => y = a_y (f (QGrad (h_x h))) | None => True end.
Proof.
  intros Hp W H Hin. destruct (H h b Hin) as (a & Hin' & _ & Hg & Hy).
  destruct (wf_eval_answer F HK CS tr _ _ W Hin') as (k & ->). rewrite Hp in Hg, Hy. auto.
Qed.
Lemma accepted_pure (c : list A -> bool) tr x :
  (forall k y, CS k y = c y) -> wf tr -> accepted true tr x -> c x = true.
Proof.
  intros Hp W H. specialize (H eq_refl).
  destruct (wf_cons_answer F HK CS tr _ _ W H) as (k & E). rewrite Hp in E. auto.
Qed.

End Final.

(* ---------------------------------------------------------------- strong Wolfe over R *)
Lemma wolfe_R_iff y0 g0 al ya ga : wolfe NumR KR y0 g0 al ya ga <-> wolfe_R y0 g0 al ya ga.
Proof.
  unfold wolfe, wolfe_R, armijo_fails, curvature_ok; simpl.
  unfold Rltb, Rleb.
  destruct (Rlt_dec (y0 + 1 / 10000 * al * g0) ya); destruct (Rle_dec (Rabs ga) (- (9 / 10) * g0)); split;
    intros [H1 H2]; try discriminate; try (split; lra); try (exfalso; lra).
Qed.

Lemma ls_wolfe_R (f : query (A := R) -> answer (A := R)) HK CS hk cs fuel alpha1 maxEval al tr :
  line_search_run NumR KR (fun _ => f) HK CS hk cs fuel alpha1 maxEval = (LSConv al, tr) ->
  let y a := a_y (f (QGrad [a])) in
  let g a := hd 0%R (a_g (f (QGrad [a]))) in
  wolfe_R (y 0%R) (g 0%R) al (y al) (g al).
Proof.
  intros H y g.
  destruct (ls_stop_l NumR KR (fun _ => f) HK CS hk cs fuel alpha1 maxEval al tr H) as (W & a0 & aa & H0 & Ha & _ & _ & Hw).
  destruct (wf_eval_answer _ _ _ _ _ _ W H0) as (k0 & ->).
  destruct (wf_eval_answer _ _ _ _ _ _ W Ha) as (ka & ->).
  apply wolfe_R_iff. exact Hw.
Qed.
