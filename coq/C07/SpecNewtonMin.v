(* C07 (round 3) — what the property says for newton_min (RunMin and the back-tracking
   variant), as predicates on (outcome, trace) of the oracle machine in ModelNewtonMin.v. *)
From Coq Require Import ZArith List Bool.
From ADV Require Import Base.Num C07.Model C07.ModelNewton C07.ModelNewtonMin.
Import ListNotations.

Section SpecNewtonMin.
Context {A : Type} (NM : Num A).
Notation vec := (list A).
Notation mat := (list (list A)).
Notation nm_trace := (@ModelNewtonMin.nm_trace A).
Variable MF : nat -> vec -> nm_answer (A := A).
Variable MPHI : nat -> vec -> vec -> A -> phi_answer (A := A).
Variable ND : nat -> Z -> vec -> mat -> dir_ans (A := A).
Variable MHK : nat -> nm_hookargs (A := A) -> bool.
Variable NCS : nat -> vec -> bool.

(* honest log *)
Inductive nmf : nm_trace -> Prop :=
| nmf_nil : nmf []
| nmf_eval tr x : nmf tr -> nmf (MvEval x (MF (length tr) x) :: tr)
| nmf_phi tr x p al : nmf tr -> nmf (MvPhi x p al (MPHI (length tr) x p al) :: tr)
| nmf_dir tr m g H : nmf tr -> nmf (MvDir m g H (ND (length tr) m g H) :: tr)
| nmf_hook tr h : nmf tr -> nmf (MvHook h (MHK (length tr) h) :: tr)
| nmf_cons tr x : nmf tr -> nmf (MvCons x (NCS (length tr) x) :: tr).

(* the newest evaluation of f (Variables(2): value, gradient, Hessian) in the log; the
   line-search evaluations MvPhi in between are evaluations of phi, not of f *)
Fixpoint m_last_eval (tr : nm_trace) : option (vec * nm_answer (A := A)) :=
  match tr with
  | [] => None
  | MvEval x a :: _ => Some (x, a)
  | _ :: tr' => m_last_eval tr'
  end.

(* (1) stop condition at the returned point: the LAST evaluation of f was at x, it
   succeeded, and its gradient passes |g| < epsilon *)
Definition nm_passes (eps : A) (a : nm_answer (A := A)) : Prop :=
  m_err a = false /\ ltb NM (norm NM (m_g a)) eps = true.
Definition nm_stop_ok (eps : A) (tr : nm_trace) (x : vec) : Prop :=
  exists a, m_last_eval tr = Some (x, a) /\ nm_passes eps a.

(* (2) hook arguments: (g, H, y) handed to the hook are f's answer for the point handed to it *)
Definition nm_hook_matched (tr : nm_trace) (h : nm_hookargs (A := A)) : Prop :=
  exists a, In (MvEval (mh_x h) a) tr /\ m_err a = false /\
            mh_g h = m_g a /\ mh_H h = m_H a /\ mh_y h = m_y a.
Definition nm_hooks_ok (tr : nm_trace) : Prop :=
  forall h b, In (MvHook h b) tr -> nm_hook_matched tr h.

(* (3) constraints *)
Definition nm_accepted (has_cons : bool) (tr : nm_trace) (x : vec) : Prop :=
  has_cons = true -> In (MvCons x true) tr.
Definition nm_success (o : nm_out (A := A)) : bool :=
  match o with NmConv _ | NmHook _ | NmCap _ => true | _ => false end.
Definition nm_point_accepted (has_cons : bool) (tr : nm_trace) (o : nm_out (A := A)) : Prop :=
  match o with
  | NmConv x | NmHook x | NmCap x => nm_accepted has_cons tr x
  | _ => True
  end.
(* every return with a nil error carries the point of the last evaluation of f, which
   succeeded *)
Definition nm_point_evaluated (tr : nm_trace) (o : nm_out (A := A)) : Prop :=
  match o with
  | NmConv x | NmHook x | NmCap x => exists a, m_last_eval tr = Some (x, a) /\ m_err a = false
  | _ => True
  end.

(* (5) caps *)
Definition mv_is_eval (e : nm_event (A := A)) : bool := match e with MvEval _ _ => true | _ => false end.
Definition mv_is_hook (e : nm_event (A := A)) : bool := match e with MvHook _ _ => true | _ => false end.
Definition mv_is_dir (e : nm_event (A := A)) : bool := match e with MvDir _ _ _ _ => true | _ => false end.
Definition mv_is_phi (e : nm_event (A := A)) : bool := match e with MvPhi _ _ _ _ => true | _ => false end.
Definition nm_n_evals (tr : nm_trace) : nat := length (filter mv_is_eval tr).
Definition nm_n_hooks (tr : nm_trace) : nat := length (filter mv_is_hook tr).
Definition nm_n_dirs (tr : nm_trace) : nat := length (filter mv_is_dir tr).
Definition nm_n_phis (tr : nm_trace) : nat := length (filter mv_is_phi tr).

End SpecNewtonMin.
