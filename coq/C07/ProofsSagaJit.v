(* C07 (round 4) — sagaJit (ModelSagaJit.v): the statements of ProofsSaga.v for the just-in-time
   variant: on a converged return the stop test over ALL coordinates holds for the returned iterate
   and was evaluated on it against the previous epoch's iterate; hook arguments; caps on epochs,
   calls of f and hook calls.  The epoch loop has the shape of saga's; only the inner loop differs
   (sgj_inner_quiet: it appends at most n calls of f and no hook call). *)
From Coq Require Import ZArith List Bool Lia.
From ADV Require Import Base.Num C07.Model C07.ModelSaga C07.ModelSagaJit C07.SpecSaga C07.ProofsSaga.
Import ListNotations.
Open Scope Z_scope.

Section PSJ.
Context {A : Type} (NM : Num A).
Notation vec := (list A).
Variable SF : nat -> nat -> vec -> sg_answer (A := A).
Variable RJ : nat -> nat.
Variable SHK : nat -> sg_hookargs (A := A) -> bool.
Variable P : sg_params (A := A).
Variable x0 : vec.

Notation sg_trace := (@ModelSaga.sg_trace A).
Notation epoch_log := (@ModelSaga.epoch_log A).
Notation entry_ok := (entry_ok NM P).
Notation chained := (chained x0).
Notation last_it := (last_it x0).
Notation sg_hooks_ok := (sg_hooks_ok NM P).

(* only calls of f were appended: at most k of them *)
Definition quiet (tr tr' : sg_trace) (k : nat) : Prop :=
  (forall h b, In (SvHook h b) tr' -> In (SvHook h b) tr) /\
  (sg_n_evals tr' <= sg_n_evals tr + k)%nat /\ sg_n_hooks tr' = sg_n_hooks tr.

Lemma quiet_refl tr k : quiet tr tr k.
Proof. unfold quiet; ssplit; auto; lia. Qed.
Lemma quiet_eval tr tr' k j x a : quiet (SvEval j x a :: tr) tr' k -> quiet tr tr' (S k).
Proof.
  intros (H & E & K). unfold quiet; ssplit.
  - intros h b Hin. destruct (H h b Hin) as [X | X]; [discriminate | exact X].
  - unfold sg_n_evals in *; simpl in *; lia.
  - unfold sg_n_hooks in *; simpl in *; lia.
Qed.

Lemma sg_init_quiet k : forall i x1 s d tr,
  quiet tr (snd (sg_init NM SF P k i x1 s d tr)) k /\
  (forall r tr2, fst (sg_init NM SF P k i x1 s d tr) = Some (r, tr2) -> tr2 = snd (sg_init NM SF P k i x1 s d tr)).
Proof.
  induction k as [|k IH]; intros i x1 s d tr; cbn [sg_init].
  { split; [apply quiet_refl | intros r tr2 E; inversion E; reflexivity]. }
  destruct (s_err (SF (length tr) i x1)); cbn [fst snd].
  { split; [eapply quiet_eval, quiet_refl | intros r tr2 E; discriminate E]. }
  match goal with |- context [sg_init NM SF P k ?i' ?x' ?s' ?d' ?t'] => destruct (IH i' x' s' d' t') as [Q E] end.
  split; [eapply quiet_eval; exact Q | exact E].
Qed.

Lemma sgj_inner_quiet k : forall i_ x1 s d xk tr,
  quiet tr (snd (sgj_inner NM SF RJ P k i_ x1 s d xk tr)) k.
Proof.
  induction k as [|k IH]; intros i_ x1 s d xk tr; cbn [sgj_inner].
  { apply quiet_refl. }
  match goal with |- context [s_err ?a] => destruct (s_err a) end; cbn [fst snd].
  { eapply quiet_eval, quiet_refl. }
  eapply quiet_eval, IH.
Qed.

Lemma hooks_ok_quiet tr tr' k el : quiet tr tr' k -> sg_hooks_ok tr el -> sg_hooks_ok tr' el.
Proof. intros (H & _) Hk h b Hin. eapply Hk, H, Hin. Qed.
Lemma hook_ok_more el e h : sg_hook_ok NM P el h -> sg_hook_ok NM P (e :: el) h.
Proof. intros ([xs Hin] & L & R). split; [exists xs; right; exact Hin | split; assumption]. Qed.
Lemma hooks_ok_more tr el e : sg_hooks_ok tr el -> sg_hooks_ok tr (e :: el).
Proof. intros Hk h b Hin. apply hook_ok_more. eapply Hk, Hin. Qed.

Definition sg_post (tr0 : sg_trace) (epoch : Z) (r : sg_out (A := A) * sg_trace * epoch_log) : Prop :=
  let '(o, tr', el') := r in
  Forall entry_ok el' /\ chained el' /\ sg_hooks_ok tr' el' /\
  (length el' <= Z.to_nat (Z.max epoch (sg_maxit P)))%nat /\
  (forall x, o = SgConv x -> exists xs d rest, el' = (xs, x, d, true) :: rest /\ all_go rest) /\
  (forall x, o = SgHook x \/ o = SgCap x -> x = last_it el' /\ all_go el') /\
  (sg_n_evals tr' <= sg_n_evals tr0 + sg_n P * Z.to_nat (sg_maxit P - epoch))%nat /\
  (sg_n_hooks tr' <= sg_n_hooks tr0 + Z.to_nat (sg_maxit P - epoch))%nat /\
  (sg_hook P = true -> sg_lambda NM P = None -> sg_n_hooks tr' = sg_n_hooks tr0 /\ forall x, o <> SgHook x).

Ltac triv Qk :=
  unfold sg_post; ssplit; auto; try lia; try (simpl; lia); try apply Nat.le_add_r;
  try (intros x X; discriminate X); try (intros x [X | X]; discriminate X);
  try (intros _ _; split; [first [exact Qk | reflexivity] | intros x X; discriminate X]);
  try (intros _ X; discriminate X); try (intros X; discriminate X);
  try (intros X; congruence); try (intros _ X; congruence).

Lemma sgj_loop_ok fuel : forall epoch x1 s d tr el,
  0 <= epoch -> length el = Z.to_nat epoch -> x1 = last_it el ->
  Forall entry_ok el -> chained el -> all_go el -> sg_hooks_ok tr el ->
  sg_post tr epoch (sgj_loop NM SF RJ SHK P fuel epoch x1 x1 s d tr el).
Proof.
  induction fuel as [|f IH]; intros epoch x1 s d tr el He Hl Hx Hok Hch Hgo Hhk; cbn [sgj_loop].
  { triv Hl. }
  destruct (epoch <? sg_maxit P) eqn:Hi.
  2:{ apply Z.ltb_ge in Hi. triv Hl.
      intros x [X | X]; inversion X; subst; auto. }
  apply Z.ltb_lt in Hi.
  assert (Hz : Z.to_nat (sg_maxit P - epoch) = S (Z.to_nat (sg_maxit P - (epoch + 1)))) by lia.
  assert (Hm : (sg_n P * Z.to_nat (sg_maxit P - epoch) =
                sg_n P * Z.to_nat (sg_maxit P - (epoch + 1)) + sg_n P)%nat)
    by (rewrite Hz; apply Nat.mul_succ_r).
  pose proof (sgj_inner_quiet (sg_n P) 0 x1 s d (map (fun _ => 0) x1) tr) as Q.
  destruct (sgj_inner NM SF RJ P (sg_n P) 0 x1 s d (map (fun _ => 0) x1) tr) as [[o xr] tr1]; cbn [snd] in Q.
  assert (Hhk1 : sg_hooks_ok tr1 el) by (eapply hooks_ok_quiet; eauto).
  destruct Q as (Qh & Qe & Qk).
  destruct o as [[[x1' s'] d']|].
  2:{ triv Qk. }
  destruct (sg_eval_stop NM x1 x1' (mul NM (sg_eps P) (sg_gamma P))) as [|delta|delta] eqn:Hst.
  - triv Qk.
  - (* the stop test fired *)
    assert (Hok1 : Forall entry_ok ((x1, x1', delta, true) :: el)) by (constructor; [exact Hst | exact Hok]).
    assert (Hch1 : chained ((x1, x1', delta, true) :: el)) by (constructor; [exact Hch | exact Hx]).
    assert (Hhk2 : sg_hooks_ok tr1 ((x1, x1', delta, true) :: el)) by (apply hooks_ok_more; exact Hhk1).
    triv Qk.
    intros x X; inversion X; subst. eauto.
  - set (el1 := (x1, x1', delta, false) :: el).
    assert (Hok1 : Forall entry_ok el1) by (constructor; [exact Hst | exact Hok]).
    assert (Hch1 : chained el1) by (constructor; [exact Hch | exact Hx]).
    assert (Hgo1 : all_go el1) by (constructor; [reflexivity | exact Hgo]).
    assert (Hl1 : length el1 = Z.to_nat (epoch + 1)) by (simpl; lia).
    assert (Hhk2 : sg_hooks_ok tr1 el1) by (apply hooks_ok_more; exact Hhk1).
    destruct (sg_hook P) eqn:Hh.
    2:{ specialize (IH (epoch + 1) x1' s' d' tr1 el1 ltac:(lia) Hl1 eq_refl Hok1 Hch1 Hgo1 Hhk2).
        destruct (sgj_loop NM SF RJ SHK P f (epoch + 1) x1' x1' s' d' tr1 el1) as [[o2 tr2] el2].
        destruct IH as (I1 & I2 & I3 & I4 & I5 & I6 & I7 & I8 & I9).
        triv Qk. }
    destruct (sg_lambda NM P) as [lam|] eqn:Hlam.
    2:{ triv Qk. }
    set (h := mkSgHook x1' delta (div NM (mul NM (sg_tn NM P) lam) (sg_gamma P)) epoch).
    assert (Hh1 : sg_hook_ok NM P el1 h).
    { split; [exists x1; left; reflexivity | split; [exists lam; split; [exact Hlam | reflexivity] | simpl; lia]]. }
    assert (Hhk3 : sg_hooks_ok (SvHook h (SHK (length tr1) h) :: tr1) el1).
    { intros h' b [E | Hin]; [inversion E; subst; exact Hh1 | eapply Hhk2, Hin]. }
    assert (Nh : sg_n_hooks (SvHook h (SHK (length tr1) h) :: tr1) = S (sg_n_hooks tr1)) by reflexivity.
    assert (Ne : sg_n_evals (SvHook h (SHK (length tr1) h) :: tr1) = sg_n_evals tr1) by reflexivity.
    destruct (SHK (length tr1) h) eqn:Hs.
    { triv Qk.
      intros x [X | X]; inversion X; subst; auto. }
    specialize (IH (epoch + 1) x1' s' d' _ el1 ltac:(lia) Hl1 eq_refl Hok1 Hch1 Hgo1 Hhk3).
    destruct (sgj_loop NM SF RJ SHK P f (epoch + 1) x1' x1' s' d' (SvHook h false :: tr1) el1) as [[o2 tr2] el2].
    destruct IH as (I1 & I2 & I3 & I4 & I5 & I6 & I7 & I8 & I9).
    triv Qk.
Qed.

Theorem sagajit_ok fuel :
  let r := saga_jit NM SF RJ SHK P fuel x0 in
  let o := fst (fst r) in let tr := snd (fst r) in let el := snd r in
  Forall entry_ok el /\ chained el /\ sg_hooks_ok tr el /\
  (length el <= Z.to_nat (sg_maxit P))%nat /\
  (forall x, o = SgConv x -> exists xs d rest, el = (xs, x, d, true) :: rest /\ all_go rest) /\
  (forall x, o = SgHook x \/ o = SgCap x -> x = last_it el /\ all_go el) /\
  (sg_n_evals tr <= sg_n P + sg_n P * Z.to_nat (sg_maxit P))%nat /\
  (sg_n_hooks tr <= Z.to_nat (sg_maxit P))%nat /\
  (sg_hook P = true -> sg_lambda NM P = None -> sg_n_hooks tr = 0%nat /\ forall x, o <> SgHook x).
Proof.
  unfold saga_jit.
  pose proof (sg_init_quiet (sg_n P) 0 x0 (map (fun _ => zero NM) x0) [] []) as [Q E].
  destruct (sg_init NM SF P (sg_n P) 0 x0 (map (fun _ => zero NM) x0) [] []) as [o tr0]; cbn [fst snd] in *.
  destruct Q as (Qh & Qe & Qk). unfold sg_n_evals, sg_n_hooks in Qe, Qk; simpl in Qe, Qk.
  destruct o as [[[s d] tr1]|]; cbn [fst snd].
  2:{ assert (Hhk : sg_hooks_ok tr0 []) by (intros hh bb Hin; destruct (Qh hh bb Hin)).
      ssplit; auto; try (apply Forall_nil); try (apply ch_nil); try (simpl; lia);
        try (unfold sg_n_evals, sg_n_hooks; lia);
        try (intros x X; discriminate X); try (intros x [X | X]; discriminate X).
      intros _ _. split; [unfold sg_n_hooks; lia | intros x X; discriminate X]. }
  specialize (E _ _ eq_refl). subst tr1.
  assert (Hhk : sg_hooks_ok tr0 []) by (intros hh bb Hin; destruct (Qh hh bb Hin)).
  pose proof (sgj_loop_ok fuel 0 x0 s d tr0 [] ltac:(lia) eq_refl eq_refl
                (Forall_nil _) (ch_nil x0) (Forall_nil _) Hhk) as L.
  destruct (sgj_loop NM SF RJ SHK P fuel 0 x0 x0 s d tr0 []) as [[o2 tr2] el2]; cbn [fst snd].
  destruct L as (I1 & I2 & I3 & I4 & I5 & I6 & I7 & I8 & I9).
  rewrite Z.sub_0_r in *. unfold sg_n_evals, sg_n_hooks in *.
  ssplit; auto; try lia.
  intros X Y. destruct (I9 X Y) as [Z1 Z2]. split; [lia | exact Z2].
Qed.

(* ---------------------------------------------------------------- the statements of Props.v *)
Lemma sagajit_stop_l fuel x tr el :
  saga_jit NM SF RJ SHK P fuel x0 = (SgConv x, tr, el) ->
  exists xs d rest, el = (xs, x, d, true) :: rest /\ xs = last_it rest /\ all_go rest /\
    sg_eval_stop NM xs x (sg_tol NM P) = SStop d.
Proof.
  intros H. pose proof (sagajit_ok fuel) as K. rewrite H in K. cbn [fst snd] in K.
  destruct K as (I1 & I2 & _ & _ & I5 & _).
  destruct (I5 x eq_refl) as (xs & d & rest & -> & G).
  exists xs, d, rest. ssplit; auto.
  - inversion I2; subst; auto.
  - inversion I1; subst. assumption.
Qed.
Lemma sagajit_tests_l fuel :
  Forall entry_ok (snd (saga_jit NM SF RJ SHK P fuel x0)) /\ chained (snd (saga_jit NM SF RJ SHK P fuel x0)).
Proof. pose proof (sagajit_ok fuel) as K. cbv zeta in K. split; apply K. Qed.
Lemma sagajit_other_returns_l fuel x :
  fst (fst (saga_jit NM SF RJ SHK P fuel x0)) = SgHook x \/ fst (fst (saga_jit NM SF RJ SHK P fuel x0)) = SgCap x ->
  x = last_it (snd (saga_jit NM SF RJ SHK P fuel x0)) /\ all_go (snd (saga_jit NM SF RJ SHK P fuel x0)).
Proof. pose proof (sagajit_ok fuel) as K. cbv zeta in K. apply K. Qed.
Lemma sagajit_hooks_l fuel :
  sg_hooks_ok (snd (fst (saga_jit NM SF RJ SHK P fuel x0))) (snd (saga_jit NM SF RJ SHK P fuel x0)).
Proof. pose proof (sagajit_ok fuel) as K. cbv zeta in K. apply K. Qed.
Lemma sagajit_caps_l fuel :
  (length (snd (saga_jit NM SF RJ SHK P fuel x0)) <= Z.to_nat (sg_maxit P))%nat /\
  (sg_n_evals (snd (fst (saga_jit NM SF RJ SHK P fuel x0))) <= sg_n P + sg_n P * Z.to_nat (sg_maxit P))%nat /\
  (sg_n_hooks (snd (fst (saga_jit NM SF RJ SHK P fuel x0))) <= Z.to_nat (sg_maxit P))%nat.
Proof. pose proof (sagajit_ok fuel) as K. cbv zeta in K. ssplit; apply K. Qed.
Lemma sagajit_hook_nil_l fuel : sg_hook P = true -> sg_lambda NM P = None ->
  sg_n_hooks (snd (fst (saga_jit NM SF RJ SHK P fuel x0))) = 0%nat /\
  forall x, fst (fst (saga_jit NM SF RJ SHK P fuel x0)) <> SgHook x.
Proof. pose proof (sagajit_ok fuel) as K. cbv zeta in K. apply K. Qed.

(* the stop theorem at full strength: the test over ALL coordinates holds at the returned point *)
Lemma sagajit_stop_all_l fuel x tr el :
  saga_jit NM SF RJ SHK P fuel x0 = (SgConv x, tr, el) ->
  exists xs d rest, el = (xs, x, d, true) :: rest /\ xs = last_it rest /\ all_go rest /\
    sg_eval_stop_all NM xs x (sg_tol NM P) = SStop d.
Proof.
  intros H. destruct (sagajit_stop_l fuel x tr el H) as (xs & d & rest & E1 & E2 & E3 & E4).
  exists xs, d, rest. ssplit; auto. rewrite <- (sg_eval_stop_all_agree NM). exact E4.
Qed.

End PSJ.
