(* C07 — gradientDescent.go: bookkeeping invariants. *)
From Coq Require Import ZArith List Bool Lia.
From ADV Require Import Base.Num C07.Model C07.Spec C07.ProofsBase.
Import ListNotations.

Section GD.
Context {A : Type} (NM : Num A).
Variable F : nat -> query (A := A) -> answer (A := A).
Variable HK : nat -> hookargs (A := A) -> bool.
Variable CS : nat -> list A -> bool.
Variable P : gd_params (A := A).

Notation good := (good F HK CS).
Notation trace := (trace (A := A)).
Ltac nonconv := let x := fresh "x" in let X := fresh "X" in intros x X; discriminate X.

Definition gd_post (o : outcome (A := A)) (tr : trace) : Prop :=
  good tr /\ (forall x, o = Converged x -> stop_ok NM (gd_eps P) tr x).

Lemma gd_loop_ok fuel : forall x tr, good tr ->
  gd_post (fst (gd_loop NM F HK P fuel x tr)) (snd (gd_loop NM F HK P fuel x tr)).
Proof.
  unfold gd_post.
  induction fuel as [|f IH]; intros x tr G; simpl.
  { ssplit; [exact G | nonconv]. }
  remember (F (length tr) (QGrad x)) as a eqn:Ha.
  assert (G1 : good (EvEval (QGrad x) a :: tr)) by (subst a; apply good_eval; auto).
  destruct (a_err a) eqn:Herr; simpl.
  { ssplit; [exact G1 | nonconv]. }
  remember (mkHook x (a_g a) (Some (a_y a)) []) as h eqn:Hh.
  assert (M : hook_matched (EvEval (QGrad x) a :: tr) h).
  { exists a. subst h; simpl. ssplit; auto. }
  remember (if gd_hook P then EvHook h (if gd_hook P then HK (S (length tr)) h else false) :: EvEval (QGrad x) a :: tr
            else EvEval (QGrad x) a :: tr) as tr2 eqn:Htr2.
  assert (G2 : good tr2).
  { subst tr2. exact (good_opt_hook F HK CS (gd_hook P) (EvEval (QGrad x) a :: tr) h G1 M). }
  assert (E2 : ext (EvEval (QGrad x) a :: tr) tr2) by (subst tr2; apply ext_opt).
  clear Htr2.
  destruct (if gd_hook P then HK (S (length tr)) h else false); simpl.
  { ssplit; [exact G2 | nonconv]. }
  destruct (ltb NM (norm NM (a_g a)) (gd_eps P)) eqn:Hn; simpl.
  { ssplit; [exact G2|]. intros x' X. inversion X; subst x'. exists a. ssplit; auto.
    eapply ext_in; [exact E2 | left; reflexivity]. }
  destruct (gd_upd NM P x (a_g a)) as [x'|]; simpl.
  - apply IH; exact G2.
  - ssplit; [exact G2 | nonconv].
Qed.

Theorem gd_ok fuel x0 :
  gd_post (fst (gradient_descent NM F HK P fuel x0)) (snd (gradient_descent NM F HK P fuel x0)).
Proof. unfold gradient_descent. apply gd_loop_ok. apply good_nil. Qed.

End GD.
