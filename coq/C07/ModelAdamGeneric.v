(* C07 (round 3) — oracle-machine model of adam() in /repo/algorithm/adam/adam.go (adam.Run:
   objective through AD on Real64 vectors, options StepSize / Constraints / Hook).
   Differs from adam_dense.go (modelled as [adam_dense] in Model.v, repaired by f6a3a16):
   here x1.Set(x2) is still done at the END of the iteration, so x1 = x2 whenever the
   objective is evaluated, the hook receives (x1, gradient, value) of that point, but when
   MaxIterations is exhausted the UPDATED point — neither evaluated nor submitted to the
   constraints — is returned with a nil error.  No proofs in this file. *)
From Coq Require Import ZArith List Bool.
From ADV Require Import Base.Num C07.Model.
Import ListNotations.
Open Scope Z_scope.

Section ModelAdamGeneric.
Context {A : Type} (NM : Num A).
Variable F : nat -> query (A := A) -> answer (A := A).
Variable HK : nat -> hookargs (A := A) -> bool.
Variable CS : nat -> list A -> bool.
Variable P : ad_params (A := A).

Fixpoint ag_loop (fuel : nat) (i : Z) (x m v : list A) (b1t b2t : A) (tr : trace (A := A))
  : outcome (A := A) * trace (A := A) :=
  match fuel with
  | O => (OutOfFuel, tr)
  | S f =>
    if i <? ad_maxit P then
      let a := F (length tr) (QGrad x) in
      let tr1 := EvEval (QGrad x) a :: tr in
      if a_err a then (Err x, tr1)
      else
        let g := a_g a in
        if any_nan NM g then (Err x, tr1)
        else
          let ok := if ad_cons P then CS (length tr1) x else true in
          let tr2 := if ad_cons P then EvCons x ok :: tr1 else tr1 in
          if negb ok then (Err x, tr2)
          else
            let h := mkHook x g (Some (a_y a)) [] in
            let stop := if ad_hook P then HK (length tr2) h else false in
            let tr3 := if ad_hook P then EvHook h stop :: tr2 else tr2 in
            if stop then (HookStop x, tr3)
            else if ltb NM (norm NM g) (ad_eps P) then (Converged x, tr3)
            else match ad_upd NM P x m v g b1t b2t with
                 | None => (Err x, tr3)
                 | Some (x', m', v') =>
                     (* beta1_t *= beta1; beta2_t *= beta2; x1.Set(x2) *)
                     ag_loop f (i + 1) x' m' v' (mul NM b1t (ad_beta1 P)) (mul NM b2t (ad_beta2 P)) tr3
                 end
    else (Cap x, tr)
  end.

Definition adam_generic (fuel : nat) (x0 : list A) : outcome (A := A) * trace (A := A) :=
  let n := length x0 in
  let ok := if ad_cons P then CS 0 x0 else true in
  let tr0 := if ad_cons P then [EvCons x0 ok] else [] in
  if negb ok then (Err x0, tr0)
  else ag_loop fuel 0 x0 (repeat (zero NM) n) (repeat (zero NM) n) (ad_beta1 P) (ad_beta2 P) tr0.

End ModelAdamGeneric.
