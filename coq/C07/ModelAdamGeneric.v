(* C07 (round 3, re-modelled at HEAD d91fb9b) — oracle-machine model of adam() in
   /repo/algorithm/adam/adam.go (adam.Run: objective through AD on Real64 vectors, options
   StepSize / Constraints / Hook).  Since d91fb9b x1.Set(x2) comes directly after the NaN /
   constraints checks (as copy(x1, x2) in adam_dense.go since f6a3a16): x1 is always the last
   evaluated and accepted point, errors raised before the copy return the PREVIOUS x1, the hook
   receives (x1, gradient, value) of the point just evaluated, and when MaxIterations is
   exhausted the last evaluated and accepted point is returned (not the updated x2).
   Differences to [adam_dense] that remain: the hook gets the function value, StepSize is an
   option.  No proofs in this file. *)
From Coq Require Import ZArith List Bool.
From ADV Require Import Base.Num C07.Model.
Import ListNotations.
Open Scope Z_scope.

Section ModelAdamGeneric.
Context {A : Type} (NM : Num A).
Variable F : nat -> query (A := A) -> answer (A := A).
Variable HK : nat -> hookargs (A := A) -> bool.
Variable CS : nat -> list A -> bool.
Variable P : ad_params (A := A).

Fixpoint ag_loop (fuel : nat) (i : Z) (x1 x2 m v : list A) (b1t b2t : A) (tr : trace (A := A))
  : outcome (A := A) * trace (A := A) :=
  match fuel with
  | O => (OutOfFuel, tr)
  | S f =>
    if i <? ad_maxit P then
      let a := F (length tr) (QGrad x2) in
      let tr1 := EvEval (QGrad x2) a :: tr in
      if a_err a then (Err x1, tr1)
      else
        let g := a_g a in
        if any_nan NM g then (Err x1, tr1)
        else
          let ok := if ad_cons P then CS (length tr1) x2 else true in
          let tr2 := if ad_cons P then EvCons x2 ok :: tr1 else tr1 in
          if negb ok then (Err x1, tr2)
          else
            (* x2 is evaluated and accepted: x1.Set(x2) *)
            let h := mkHook x2 g (Some (a_y a)) [] in
            let stop := if ad_hook P then HK (length tr2) h else false in
            let tr3 := if ad_hook P then EvHook h stop :: tr2 else tr2 in
            if stop then (HookStop x2, tr3)
            else if ltb NM (norm NM g) (ad_eps P) then (Converged x2, tr3)
            else match ad_upd NM P x2 m v g b1t b2t with
                 | None => (Err x2, tr3)
                 | Some (x2', m', v') =>
                     (* beta1_t *= beta1; beta2_t *= beta2 *)
                     ag_loop f (i + 1) x2 x2' m' v' (mul NM b1t (ad_beta1 P)) (mul NM b2t (ad_beta2 P)) tr3
                 end
    else (Cap x1, tr)
  end.

Definition adam_generic (fuel : nat) (x0 : list A) : outcome (A := A) * trace (A := A) :=
  let n := length x0 in
  let ok := if ad_cons P then CS 0 x0 else true in
  let tr0 := if ad_cons P then [EvCons x0 ok] else [] in
  if negb ok then (Err x0, tr0)
  else ag_loop fuel 0 x0 x0 (repeat (zero NM) n) (repeat (zero NM) n) (ad_beta1 P) (ad_beta2 P) tr0.

End ModelAdamGeneric.
