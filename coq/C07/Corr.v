(* C07 correspondence: oracle replay.  The Go harness logs, in order, every
   evaluation of the objective (point, AD seeds, error flag, value, derivatives),
   every hook call (arguments, verdict) and every constraint call (point, verdict).
   The model is run on primitive floats with the logged answers as the oracle
   table; it must issue bit-identical queries in the same order, pass the same
   hook arguments and return the same point and outcome kind, and the caller's
   start vector must be unchanged. *)
From Coq Require Import ZArith List Bool Floats.
From ADV Require Import Base.Num Base.Corr C07.Model C07.ModelNewton C07.ModelNewtonDir C07.ModelNewtonMin C07.ModelSaga C07.ModelSagaJit C07.ModelBlahut C07.ModelAdamGeneric.
Import ListNotations.
Open Scope Z_scope.

Inductive lev :=
| LEval (x : list float) (seeds : list (list float)) (err : bool) (y : float) (g : list float)
| LHook (x g : list float) (hasy : bool) (y : float) (step : list float) (stop : bool)
| LCons (x : list float) (ok : bool)
(* newton (round 2): vector-valued answers (y, J), hook (x, J, y), and the answer of
   getDirection: st = 0 direction t computed, 1 error returned, 2 panic inside the solver *)
| LEvalV (x : list float) (seeds : list (list float)) (err : bool) (y : list float) (J : list (list float))
| LHookV (x : list float) (J : list (list float)) (y : list float) (stop : bool)
| LDir (st : Z) (t : list float)
(* newton_min (round 3): f answers (y, g, H), phi answers (value, d/dalpha) at the logged
   point x1 - alpha*t1 with seeds -t1, hook (x, g, H, y) *)
| LEvalM (x : list float) (seeds : list (list float)) (err : bool) (y : float) (g : list float) (H : list (list float))
| LPhi (x : list float) (seeds : list (list float)) (err : bool) (y d : float)
| LHookM (x g : list float) (H : list (list float)) (y : float) (stop : bool)
(* saga (round 3): call of f(j, x1) with answer (w, g); hook (x1, delta, n*lambda/gamma, epoch) *)
| LSgEval (j : Z) (x : list float) (err : bool) (w : float) (g : list float)
| LSgHook (x : list float) (delta lam : float) (epoch : Z) (stop : bool)
(* blahut (round 3): one iteration of the body on p: (J, p') as computed by the harness's lock-step
   re-implementation; hook call of the LIBRARY *)
| LBStep (p : list float) (J : float) (p' : list float)
| LBHook (p : list float) (J : float) (stop : bool).

Inductive routine :=
| RRprop (p : rp_params (A := float))
| RRpropDense (p : rp_params (A := float))
| RGD (p : gd_params (A := float))
| RLS (hook cons : bool) (alpha1 : float) (maxEval : Z)
| RBfgs (p : bf_params (A := float))
| RAdam (p : ad_params (A := float))
| RAdamG (p : ad_params (A := float))                   (* adam.Run (adam.go), round 3 *)
| RNewton (crit : bool) (p : nw_params (A := float))    (* crit: RunCrit (y = gradient, J = Hessian) *)
| RNewtonMin (p : nm_params (A := float))               (* nm_phi: RunMin; else the back-tracking variant *)
| RSaga (p : sg_params (A := float))
| RSagaJit (p : sg_params (A := float))                 (* sagaJit (JitUpdateL1), round 4: sg_prox_op = PL1 lambda *)
| RBlahut (p : bl_params).

Record case := mkCase {
  c_routine : routine;
  c_x0 : list float;
  c_table : list lev;
  c_kind : Z;                 (* 0 returned without error, 1 hook stop, 2 error, 3 panic *)
  c_point : list float;
  c_x0_after : list float
}.

Section Replay.
Variable tbl : list lev.

Definition bad_ans : answer (A := float) := mkAns true nan [].
Definition oF (k : nat) (q : query (A := float)) : answer :=
  match nth_error tbl k with Some (LEval _ _ e y g) => mkAns e y g | _ => bad_ans end.
Definition oHK (k : nat) (h : hookargs (A := float)) : bool :=
  match nth_error tbl k with Some (LHook _ _ _ _ _ b) => b | _ => true end.
Definition oCS (k : nat) (x : list float) : bool :=
  match nth_error tbl k with Some (LCons _ b) => b | _ => true end.
End Replay.

Fixpoint list_match {X Y} (e : X -> Y -> bool) (a : list X) (b : list Y) : bool :=
  match a, b with
  | [], [] => true
  | x :: a', y :: b' => e x y && list_match e a' b'
  | _, _ => false
  end.
Fixpoint first_mis {X Y} (e : X -> Y -> bool) (n : nat) (a : list X) (b : list Y) : option nat :=
  match a, b with
  | [], [] => None
  | x :: a', y :: b' => if e x y then first_mis e (S n) a' b' else Some n
  | _, _ => Some n
  end.

Definition vfeqb (a b : list float) : bool := list_eqb feqb a b.
(* numeric equality, NaN = NaN, +0 = -0 (AD seeds only) *)
Definition fnumeq (a b : float) : bool :=
  PrimFloat.eqb a b || (negb (PrimFloat.eqb a a) && negb (PrimFloat.eqb b b)).

Definition seeds_of (q : query (A := float)) : list (list float) :=
  match q with
  | QGrad x => ident NumF (length x)
  | QDir x p => map (fun pi => [pi]) p
  end.
Definition qpoint (q : query (A := float)) : list float :=
  match q with QGrad x => x | QDir x _ => x end.

Definition ev_match (e : event (A := float)) (l : lev) : bool :=
  match e, l with
  | EvEval q a, LEval x sd _ _ _ =>
      vfeqb (qpoint q) x && list_eqb (list_eqb fnumeq) (seeds_of q) sd
  | EvHook h b, LHook x g hasy y st b' =>
      vfeqb (h_x h) x && vfeqb (h_g h) g && vfeqb (h_step h) st && Bool.eqb b b' &&
      match h_y h with Some v => hasy && feqb v y | None => negb hasy end
  | EvCons x b, LCons x' b' => vfeqb x x' && Bool.eqb b b'
  | _, _ => false
  end.

Definition out_kind (o : outcome (A := float)) : Z :=
  match o with
  | Converged _ | Cap _ => 0 | HookStop _ => 1 | Err _ => 2 | Panicked => 3 | OutOfFuel => 99
  end.
Definition out_point (o : outcome (A := float)) : list float :=
  match o with Converged x | Cap x | HookStop x | Err x => x | _ => [] end.

Definition ls_to_outcome (o : ls_out (A := float)) : outcome (A := float) :=
  match o with
  | LSConv a => Converged [a] | LSHook a => HookStop [a] | LSCap a => Cap [a]
  | LSErr a => Err [a] | LSFuel => OutOfFuel
  end.

Definition run_case (c : case) : outcome (A := float) * trace (A := float) :=
  let tbl := c_table c in
  let fuel := (length tbl + 3)%nat in
  let F := oF tbl in let HK := oHK tbl in let CS := oCS tbl in
  match c_routine c with
  | RRprop p => rprop NumF F HK CS p fuel (c_x0 c)
  | RRpropDense p => rprop_dense NumF F HK CS p fuel (c_x0 c)
  | RGD p => gradient_descent NumF F HK p fuel (c_x0 c)
  | RLS hk cs a1 me =>
      let r := line_search_run NumF KF F HK CS hk cs fuel a1 me in (ls_to_outcome (fst r), snd r)
  | RBfgs p => bfgs NumF KF F HK CS p fuel (c_x0 c)
  | RAdam p => adam_dense NumF F HK CS p fuel (c_x0 c)
  | RAdamG p => adam_generic NumF F HK CS p fuel (c_x0 c)
  | RNewton _ _ => (OutOfFuel, [])     (* replayed by run_newton / check_newton below *)
  | RNewtonMin _ => (OutOfFuel, [])    (* replayed by run_newton_min / check_newton_min below *)
  | RSaga _ => (OutOfFuel, [])         (* replayed by run_saga / check_saga below *)
  | RSagaJit _ => (OutOfFuel, [])      (* replayed by run_saga_jit / check_saga_jit below *)
  | RBlahut _ => (OutOfFuel, [])       (* replayed by run_blahut / check_blahut below *)
  end.

(* ---- newton (round 2): c_kind 0 nil error, 1 hook stop, 3 panic, 20 invalid initial
   value, 21 objective error, 22 NaN, 23 getDirection error, 24 line search failed *)
Section ReplayNewton.
Variable tbl : list lev.
Definition oNF (k : nat) (x : list float) : nw_answer (A := float) :=
  match nth_error tbl k with Some (LEvalV _ _ e y J) => mkNwAns e y J | _ => mkNwAns true [] [] end.
Definition oNHK (k : nat) (h : nw_hookargs (A := float)) : bool :=
  match nth_error tbl k with Some (LHookV _ _ _ b) => b | _ => true end.
End ReplayNewton.

Definition mfeqb (a b : list (list float)) : bool := list_eqb vfeqb a b.

(* round 6: getDirection is no longer an oracle of the replay.  The machines are run CLOSED over
   ModelNewtonDir.get_direction (binary64 instance); the direction the Go routine left in
   InSitu.T1 — or its error / panic — is only COMPARED, bit for bit, with what the model computed
   from the (mode, y, J) it had at that moment *)
Definition dir_eqb (a b : dir_ans (A := float)) : bool :=
  match a, b with
  | DirOk t, DirOk t' => vfeqb t t'
  | DirErr, DirErr => true
  | DirPanic, DirPanic => true
  | _, _ => false
  end.
Definition dir_logged (st : Z) (t : list float) : dir_ans (A := float) :=
  if st =? 0 then DirOk t else if st =? 1 then DirErr else DirPanic.
Definition mND (k : nat) (mode : Z) (y : list float) (J : list (list float)) : dir_ans (A := float) :=
  get_direction_F mode y J.

Definition nev_match (e : nw_event (A := float)) (l : lev) : bool :=
  match e, l with
  | NvEval x a, LEvalV x' sd _ _ _ =>
      vfeqb x x' && list_eqb (list_eqb fnumeq) (ident NumF (length x)) sd
  | NvHook h b, LHookV x J y b' =>
      vfeqb (nh_x h) x && mfeqb (nh_J h) J && vfeqb (nh_y h) y && Bool.eqb b b'
  | NvDir _ _ _ d, LDir st t => dir_eqb d (dir_logged st t)
  | NvCons x b, LCons x' b' => vfeqb x x' && Bool.eqb b b'
  | _, _ => false
  end.

Definition nw_kind (o : nw_out (A := float)) : Z :=
  match o with
  | NwConv _ | NwCap _ => 0 | NwHook _ => 1 | NwPanic => 3 | NwFuel => 99
  | NwErr NEInit _ => 20 | NwErr NEObj _ => 21 | NwErr NENaN _ => 22
  | NwErr NEDir _ => 23 | NwErr NELineSearch _ => 24
  end.
Definition nw_point (o : nw_out (A := float)) : list float :=
  match o with NwConv x | NwCap x | NwHook x | NwErr _ x => x | _ => [] end.

Definition run_newton (c : case) (p : nw_params (A := float)) : nw_out (A := float) * nw_trace (A := float) :=
  let tbl := c_table c in
  newton_root NumF (oNF tbl) mND (oNHK tbl) (oCS tbl) p (length tbl + 5)%nat (c_x0 c).

Definition check_newton (c : case) (p : nw_params (A := float)) : bool :=
  let r := run_newton c p in
  let o := fst r in
  list_match nev_match (rev (snd r)) (c_table c)
  && (nw_kind o =? c_kind c)
  && ((c_kind c =? 3) || vfeqb (nw_point o) (c_point c))
  && vfeqb (c_x0 c) (c_x0_after c).

(* ---- newton_min (round 3): c_kind as for newton plus 24 back-tracking failed (getPhi == nil),
   25 lineSearch.Run returned an error (getPhi != nil) *)
Section ReplayNewtonMin.
Variable tbl : list lev.
Definition oMF (k : nat) (x : list float) : nm_answer (A := float) :=
  match nth_error tbl k with Some (LEvalM _ _ e y g H) => mkNmAns e y g H | _ => mkNmAns true nan [] [] end.
Definition oMPHI (k : nat) (x p : list float) (al : float) : phi_answer (A := float) :=
  match nth_error tbl k with Some (LPhi _ _ e y d) => mkPhiAns e y d | _ => mkPhiAns true nan nan end.
Definition oMHK (k : nat) (h : nm_hookargs (A := float)) : bool :=
  match nth_error tbl k with Some (LHookM _ _ _ _ b) => b | _ => true end.
End ReplayNewtonMin.

(* P.VmulS(p, alpha); X.VsubV(x, P): the point phi is evaluated at, and d X_i / d alpha = 0 - p_i *)
Definition phi_point (x p : list float) (al : float) : list float :=
  zipw (fun xi pi => xi - pi * al)%float x p.
Definition phi_seeds (p : list float) : list (list float) := map (fun pi => [0 - pi]%float) p.

Definition mev_match (e : nm_event (A := float)) (l : lev) : bool :=
  match e, l with
  | MvEval x a, LEvalM x' sd _ _ _ _ =>
      vfeqb x x' && list_eqb (list_eqb fnumeq) (ident NumF (length x)) sd
  | MvPhi x p al a, LPhi x' sd _ _ _ =>
      vfeqb (phi_point x p al) x' && list_eqb (list_eqb fnumeq) (phi_seeds p) sd
  | MvHook h b, LHookM x g H y b' =>
      vfeqb (mh_x h) x && vfeqb (mh_g h) g && mfeqb (mh_H h) H && feqb (mh_y h) y && Bool.eqb b b'
  | MvDir _ _ _ d, LDir st t => dir_eqb d (dir_logged st t)
  | MvCons x b, LCons x' b' => vfeqb x x' && Bool.eqb b b'
  | _, _ => false
  end.

Definition nm_kind (o : nm_out (A := float)) : Z :=
  match o with
  | NmConv _ | NmCap _ => 0 | NmHook _ => 1 | NmPanic => 3 | NmFuel => 99
  | NmErr MEInit _ => 20 | NmErr MEObj _ => 21 | NmErr MENaN _ => 22
  | NmErr MEDir _ => 23 | NmErr MEBacktrack _ => 24 | NmErr MELineSearch _ => 25
  end.
Definition nm_point (o : nm_out (A := float)) : list float :=
  match o with NmConv x | NmCap x | NmHook x | NmErr _ x => x | _ => [] end.

Definition run_newton_min (c : case) (p : nm_params (A := float)) : nm_out (A := float) * nm_trace (A := float) :=
  let tbl := c_table c in
  newton_min NumF KF (oMF tbl) (oMPHI tbl) mND (oMHK tbl) (oCS tbl) p (length tbl + 5)%nat (c_x0 c).

Definition check_newton_min (c : case) (p : nm_params (A := float)) : bool :=
  let r := run_newton_min c p in
  let o := fst r in
  list_match mev_match (rev (snd r)) (c_table c)
  && (nm_kind o =? c_kind c)
  && ((c_kind c =? 3) || vfeqb (nm_point o) (c_point c))
  && vfeqb (c_x0 c) (c_x0_after c).

Definition diverge_newton_min (c : case) : option nat * Z * list float :=
  match c_routine c with
  | RNewtonMin p =>
      let r := run_newton_min c p in
      (first_mis mev_match 0 (rev (snd r)) (c_table c), nm_kind (fst r), nm_point (fst r))
  | _ => (None, 0, [])
  end.

(* ---- saga (round 3): c_kind 0 nil error, 1 hook stop, 2 error, 3 panic *)
Section ReplaySaga.
Variable tbl : list lev.
Definition oSF (k : nat) (j : nat) (x : list float) : sg_answer (A := float) :=
  match nth_error tbl k with Some (LSgEval _ _ e w g) => mkSgAns e w g | _ => mkSgAns true nan [] end.
Definition oRJ (k : nat) : nat :=
  match nth_error tbl k with Some (LSgEval j _ _ _ _) => Z.to_nat j | _ => 0%nat end.
Definition oSHK (k : nat) (h : sg_hookargs (A := float)) : bool :=
  match nth_error tbl k with Some (LSgHook _ _ _ _ b) => b | _ => true end.
End ReplaySaga.

Definition sev_match (e : sg_event (A := float)) (l : lev) : bool :=
  match e, l with
  | SvEval j x a, LSgEval j' x' _ _ _ => (Z.of_nat j =? j') && vfeqb x x'
  | SvHook h b, LSgHook x d lam ep b' =>
      vfeqb (sh_x h) x && feqb (sh_delta h) d && feqb (sh_lam h) lam && (sh_epoch h =? ep) && Bool.eqb b b'
  | _, _ => false
  end.
Definition sg_kind (o : sg_out (A := float)) : Z :=
  match o with SgConv _ | SgCap _ => 0 | SgHook _ => 1 | SgErr _ => 2 | SgPanic => 3 | SgFuel => 99 end.
Definition sg_point (o : sg_out (A := float)) : list float :=
  match o with SgConv x | SgCap x | SgHook x | SgErr x => x | _ => [] end.
Definition run_saga (c : case) (p : sg_params (A := float)) :=
  let tbl := c_table c in
  saga NumF (oSF tbl) (oRJ tbl) (oSHK tbl) p (length tbl + 5)%nat (c_x0 c).
Definition check_saga (c : case) (p : sg_params (A := float)) : bool :=
  let r := run_saga c p in
  let o := fst (fst r) in
  list_match sev_match (rev (snd (fst r))) (c_table c)
  && (sg_kind o =? c_kind c)
  && ((c_kind c =? 3) || vfeqb (sg_point o) (c_point c))
  && vfeqb (c_x0 c) (c_x0_after c).
Definition run_saga_jit (c : case) (p : sg_params (A := float)) :=
  let tbl := c_table c in
  saga_jit NumF (oSF tbl) (oRJ tbl) (oSHK tbl) p (length tbl + 5)%nat (c_x0 c).
Definition check_saga_jit (c : case) (p : sg_params (A := float)) : bool :=
  let r := run_saga_jit c p in
  let o := fst (fst r) in
  list_match sev_match (rev (snd (fst r))) (c_table c)
  && (sg_kind o =? c_kind c)
  && ((c_kind c =? 3) || vfeqb (sg_point o) (c_point c))
  && vfeqb (c_x0 c) (c_x0_after c).
Definition diverge_saga (c : case) : option nat * Z * list float :=
  match c_routine c with
  | RSaga p =>
      let r := run_saga c p in
      (first_mis sev_match 0 (rev (snd (fst r))) (c_table c), sg_kind (fst (fst r)), sg_point (fst (fst r)))
  | RSagaJit p =>
      let r := run_saga_jit c p in
      (first_mis sev_match 0 (rev (snd (fst r))) (c_table c), sg_kind (fst (fst r)), sg_point (fst (fst r)))
  | _ => (None, 0, [])
  end.

(* ---- blahut (round 3): c_kind 0 step cap, 1 hook stop *)
Definition oBSTEP (tbl : list lev) (k : nat) (p : list float) : float * list float :=
  match nth_error tbl k with Some (LBStep _ J p') => (J, p') | _ => (nan, []) end.
Definition oBHK (tbl : list lev) (k : nat) (p : list float) (J : float) : bool :=
  match nth_error tbl k with Some (LBHook _ _ b) => b | _ => true end.
Definition bev_match (e : bl_event (A := float)) (l : lev) : bool :=
  match e, l with
  | BvStep p _ _, LBStep q _ _ => vfeqb p q
  | BvHook p J b, LBHook q Jq b' => vfeqb p q && feqb J Jq && Bool.eqb b b'
  | _, _ => false
  end.
Definition bl_kind (o : bl_out (A := float)) : Z := match o with BlCap _ => 0 | BlHook _ => 1 | BlFuel => 99 end.
Definition bl_point (o : bl_out (A := float)) : list float := match o with BlCap p | BlHook p => p | BlFuel => [] end.
Definition run_blahut (c : case) (p : bl_params) :=
  blahut (oBSTEP (c_table c)) (oBHK (c_table c)) p (length (c_table c) + 5)%nat (c_x0 c).
Definition check_blahut (c : case) (p : bl_params) : bool :=
  let r := run_blahut c p in
  list_match bev_match (rev (snd r)) (c_table c)
  && (bl_kind (fst r) =? c_kind c)
  && vfeqb (bl_point (fst r)) (c_point c)
  && vfeqb (c_x0 c) (c_x0_after c).

Definition check (c : case) : bool :=
  match c_routine c with
  | RBlahut p => check_blahut c p
  | RSaga p => check_saga c p
  | RSagaJit p => check_saga_jit c p
  | RNewton _ p => check_newton c p
  | RNewtonMin p => check_newton_min c p
  | _ =>
  let r := run_case c in
  let o := fst r in
  list_match ev_match (rev (snd r)) (c_table c)
  && (out_kind o =? c_kind c)
  && ((c_kind c =? 3) || vfeqb (out_point o) (c_point c))
  && vfeqb (c_x0 c) (c_x0_after c)
  end.

Definition diverge_newton (c : case) : option nat * Z * list float :=
  match c_routine c with
  | RNewton _ p =>
      let r := run_newton c p in
      (first_mis nev_match 0 (rev (snd r)) (c_table c), nw_kind (fst r), nw_point (fst r))
  | _ => (None, 0, [])
  end.

Definition mism (cs : list case) : list nat := mismatches check cs.

(* debugging aid: first trace position that differs, model outcome kind *)
Definition diverge (c : case) : option nat * Z * list float :=
  let r := run_case c in
  (first_mis ev_match 0 (rev (snd r)) (c_table c), out_kind (fst r), out_point (fst r)).
