(* C07 correspondence: oracle replay.  The Go harness logs, in order, every
   evaluation of the objective (point, AD seeds, error flag, value, derivatives),
   every hook call (arguments, verdict) and every constraint call (point, verdict).
   The model is run on primitive floats with the logged answers as the oracle
   table; it must issue bit-identical queries in the same order, pass the same
   hook arguments and return the same point and outcome kind, and the caller's
   start vector must be unchanged. *)
From Coq Require Import ZArith List Bool Floats.
From ADV Require Import Base.Num Base.Corr C07.Model.
Import ListNotations.
Open Scope Z_scope.

Inductive lev :=
| LEval (x : list float) (seeds : list (list float)) (err : bool) (y : float) (g : list float)
| LHook (x g : list float) (hasy : bool) (y : float) (step : list float) (stop : bool)
| LCons (x : list float) (ok : bool).

Inductive routine :=
| RRprop (p : rp_params (A := float))
| RRpropDense (p : rp_params (A := float))
| RGD (p : gd_params (A := float))
| RLS (hook cons : bool) (alpha1 : float) (maxEval : Z)
| RBfgs (p : bf_params (A := float))
| RAdam (p : ad_params (A := float)).

Record case := mkCase {
  c_routine : routine;
  c_x0 : list float;
  c_table : list lev;
  c_kind : Z;                 (* 0 returned without error, 1 hook stop, 2 error, 3 panic *)
  c_point : list float;
  c_x0_after : list float
}.

Section Replay.
Variable tbl : list lev.

Definition bad_ans : answer (A := float) := mkAns true nan [].
Definition oF (k : nat) (q : query (A := float)) : answer :=
  match nth_error tbl k with Some (LEval _ _ e y g) => mkAns e y g | _ => bad_ans end.
Definition oHK (k : nat) (h : hookargs (A := float)) : bool :=
  match nth_error tbl k with Some (LHook _ _ _ _ _ b) => b | _ => true end.
Definition oCS (k : nat) (x : list float) : bool :=
  match nth_error tbl k with Some (LCons _ b) => b | _ => true end.
End Replay.

Fixpoint list_match {X Y} (e : X -> Y -> bool) (a : list X) (b : list Y) : bool :=
  match a, b with
  | [], [] => true
  | x :: a', y :: b' => e x y && list_match e a' b'
  | _, _ => false
  end.
Fixpoint first_mis {X Y} (e : X -> Y -> bool) (n : nat) (a : list X) (b : list Y) : option nat :=
  match a, b with
  | [], [] => None
  | x :: a', y :: b' => if e x y then first_mis e (S n) a' b' else Some n
  | _, _ => Some n
  end.

Definition vfeqb (a b : list float) : bool := list_eqb feqb a b.
(* numeric equality, NaN = NaN, +0 = -0 (AD seeds only) *)
Definition fnumeq (a b : float) : bool :=
  PrimFloat.eqb a b || (negb (PrimFloat.eqb a a) && negb (PrimFloat.eqb b b)).

Definition seeds_of (q : query (A := float)) : list (list float) :=
  match q with
  | QGrad x => ident NumF (length x)
  | QDir x p => map (fun pi => [pi]) p
  end.
Definition qpoint (q : query (A := float)) : list float :=
  match q with QGrad x => x | QDir x _ => x end.

Definition ev_match (e : event (A := float)) (l : lev) : bool :=
  match e, l with
  | EvEval q a, LEval x sd _ _ _ =>
      vfeqb (qpoint q) x && list_eqb (list_eqb fnumeq) (seeds_of q) sd
  | EvHook h b, LHook x g hasy y st b' =>
      vfeqb (h_x h) x && vfeqb (h_g h) g && vfeqb (h_step h) st && Bool.eqb b b' &&
      match h_y h with Some v => hasy && feqb v y | None => negb hasy end
  | EvCons x b, LCons x' b' => vfeqb x x' && Bool.eqb b b'
  | _, _ => false
  end.

Definition out_kind (o : outcome (A := float)) : Z :=
  match o with
  | Converged _ | Cap _ => 0 | HookStop _ => 1 | Err _ => 2 | Panicked => 3 | OutOfFuel => 99
  end.
Definition out_point (o : outcome (A := float)) : list float :=
  match o with Converged x | Cap x | HookStop x | Err x => x | _ => [] end.

Definition ls_to_outcome (o : ls_out (A := float)) : outcome (A := float) :=
  match o with
  | LSConv a => Converged [a] | LSHook a => HookStop [a] | LSCap a => Cap [a]
  | LSErr a => Err [a] | LSFuel => OutOfFuel
  end.

Definition run_case (c : case) : outcome (A := float) * trace (A := float) :=
  let tbl := c_table c in
  let fuel := (length tbl + 3)%nat in
  let F := oF tbl in let HK := oHK tbl in let CS := oCS tbl in
  match c_routine c with
  | RRprop p => rprop NumF F HK CS p fuel (c_x0 c)
  | RRpropDense p => rprop_dense NumF F HK CS p fuel (c_x0 c)
  | RGD p => gradient_descent NumF F HK p fuel (c_x0 c)
  | RLS hk cs a1 me =>
      let r := line_search_run NumF KF F HK CS hk cs fuel a1 me in (ls_to_outcome (fst r), snd r)
  | RBfgs p => bfgs NumF KF F HK CS p fuel (c_x0 c)
  | RAdam p => adam_dense NumF F HK CS p fuel (c_x0 c)
  end.

Definition check (c : case) : bool :=
  let r := run_case c in
  let o := fst r in
  list_match ev_match (rev (snd r)) (c_table c)
  && (out_kind o =? c_kind c)
  && ((c_kind c =? 3) || vfeqb (out_point o) (c_point c))
  && vfeqb (c_x0 c) (c_x0_after c).

Definition mism (cs : list case) : list nat := mismatches check cs.

(* debugging aid: first trace position that differs, model outcome kind *)
Definition diverge (c : case) : option nat * Z * list float :=
  let r := run_case c in
  (first_mis ev_match 0 (rev (snd r)) (c_table c), out_kind (fst r), out_point (fst r)).
