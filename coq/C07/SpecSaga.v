(* C07 (round 3) — what the property says for saga, as predicates on the result
   (outcome, trace of external calls, log of stop-test evaluations) of ModelSaga.v. *)
From Coq Require Import ZArith List Bool.
From ADV Require Import Base.Num C07.Model C07.ModelSaga.
Import ListNotations.
Open Scope Z_scope.

Section SpecSaga.
Context {A : Type} (NM : Num A).
Notation vec := (list A).
Notation sg_trace := (@ModelSaga.sg_trace A).
Notation epoch_log := (@ModelSaga.epoch_log A).
Variable P : sg_params (A := A).
Variable x0 : vec.

(* the tolerance EvalStopping is called with: epsilon.Value*gamma.Value *)
Definition sg_tol : A := mul NM (sg_eps P) (sg_gamma P).

(* the iterate after the epochs logged so far *)
Definition last_it (el : epoch_log) : vec :=
  match el with [] => x0 | (_, x1, _, _) :: _ => x1 end.

(* the stopping rule over ALL coordinates, stated by index and independently of the model's
   walk: coordinate i for every i below the longer dimension, a missing entry reads as zero *)
Definition all_coords (xs x1 : vec) : list (A * A) :=
  map (fun i => (nth i xs (zero NM), nth i x1 (zero NM))) (seq 0 (Nat.max (length xs) (length x1))).
Definition sg_eval_stop_all (xs x1 : vec) (eps : A) : stop_res (A := A) :=
  sg_decide NM eps (sg_scan NM (all_coords xs x1) (zero NM) (zero NM)).

(* a log entry (xs, x1, delta, stop) IS the coded test evaluated on (xs, x1) *)
Definition entry_ok (e : vec * vec * A * bool) : Prop :=
  let '(xs, x1, d, b) := e in
  sg_eval_stop NM xs x1 sg_tol = if b then SStop d else SGo d.

(* each epoch's test compares with the iterate the previous epoch ended with (x0 first) *)
Inductive chained : epoch_log -> Prop :=
| ch_nil : chained []
| ch_cons xs x1 d b rest : chained rest -> xs = last_it rest -> chained ((xs, x1, d, b) :: rest).

Definition all_go (el : epoch_log) : Prop := Forall (fun e => snd e = false) el.

(* hook arguments: x1 and delta are those of a logged (non-stopping) test, lambda is the
   regulariser's constant as rescaled and scaled back by the code, the epoch is in range *)
Definition sg_hook_ok (el : epoch_log) (h : sg_hookargs (A := A)) : Prop :=
  (exists xs, In (xs, sh_x h, sh_delta h, false) el) /\
  (exists lam, sg_lambda NM P = Some lam /\ sh_lam h = div NM (mul NM (sg_tn NM P) lam) (sg_gamma P)) /\
  0 <= sh_epoch h < sg_maxit P.
Definition sg_hooks_ok (tr : sg_trace) (el : epoch_log) : Prop :=
  forall h b, In (SvHook h b) tr -> sg_hook_ok el h.

Definition sv_is_eval (e : sg_event (A := A)) : bool := match e with SvEval _ _ _ => true | _ => false end.
Definition sv_is_hook (e : sg_event (A := A)) : bool := match e with SvHook _ _ => true | _ => false end.
Definition sg_n_evals (tr : sg_trace) : nat := length (filter sv_is_eval tr).
Definition sg_n_hooks (tr : sg_trace) : nat := length (filter sv_is_hook tr).

End SpecSaga.
