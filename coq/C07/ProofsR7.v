(* C07 (round 7) — two statements over R about pieces of the model that the round-7
   correspondence streams exercise:
   (a) the shared stop test  norm g < eps  (algorithm.Norm, Model.norm) bounds EVERY
       coordinate of the gradient, whatever the length of the vector;
   (b) saga with the built-in regularisation options: the proximal step that
       Run installs (ModelSaga.sg_apply_prox, lambda rescaled to gamma*lambda/n AFTER the
       option was turned into a proximal operator) has exactly the stationary points of
       the regularised objective as fixed points (Tikhonov and L1), with the closed-form
       minimiser in one dimension. *)
From Coq Require Import ZArith List Bool Reals Lra Lia.
From ADV Require Import Base.Num C07.Model C07.ModelSaga C07.ProofsQuad.
Import ListNotations.
Open Scope R_scope.

(* ---------------------------------------------------------------- (a) *)

Lemma ssq_ge_in v g : In g v -> g * g <= ssq v.
Proof.
  induction v as [|x v IH]; simpl; [tauto|]. intros [E | Hin].
  - subst x. pose proof (ssq_nonneg v). lra.
  - specialize (IH Hin). pose proof (Rle_0_sqr x) as H; unfold Rsqr in H. lra.
Qed.

Lemma norm_stop_every_coord v eps :
  ltb NumR (norm NumR v) eps = true -> forall g, In g v -> Rabs g < eps.
Proof.
  intros H g Hin. change (Rltb (norm NumR v) eps = true) in H. apply Rltb_true in H. rewrite norm_sqrt in H.
  apply Rle_lt_trans with (2 := H).
  rewrite <- sqrt_Rsqr_abs. apply sqrt_le_1_alt. unfold Rsqr. now apply ssq_ge_in.
Qed.

(* and a vector all of whose coordinates are small passes the test with eps * sqrt(length) *)
Lemma ssq_le_bound v c : 0 <= c -> (forall g, In g v -> Rabs g <= c) -> ssq v <= INR (length v) * (c * c).
Proof.
  intros Hc. induction v as [|x v IH]; intros H.
  - simpl. lra.
  - change (length (x :: v)) with (S (length v)). rewrite S_INR. simpl ssq.
    assert (Hx : Rabs x <= c) by (apply H; now left).
    assert (IHv : ssq v <= INR (length v) * (c * c)) by (apply IH; intros g Hg; apply H; now right).
    assert (x * x <= c * c).
    { rewrite <- (Rabs_pos_eq c Hc) in *. replace (x * x) with (Rabs x * Rabs x).
      - pose proof (Rabs_pos x). rewrite (Rabs_pos_eq c Hc) in *. nra.
      - unfold Rabs; destruct (Rcase_abs x); lra. }
    lra.
Qed.

(* ---------------------------------------------------------------- (b) *)

Lemma map_zipw_fix (f : R -> R) (h : R -> R -> R) :
  forall x g, length x = length g ->
  (map f (zipw h x g) = x <-> Forall2 (fun xi gi => f (h xi gi) = xi) x g).
Proof.
  induction x as [|a x IH]; intros [|b g] L; simpl in *; try discriminate.
  - split; auto.
  - injection L as L. specialize (IH g L). split.
    + intros E. injection E as E1 E2. constructor; [exact E1 | now apply IH].
    + intros F. inversion F as [|? ? ? ? F1 F2]; subst. f_equal; [exact F1 | now apply IH].
Qed.

Section SagaReg.
Variable P : sg_params (A := R).
Variable lam : R.          (* the user's regularisation constant *)
Hypothesis Hn : (0 < sg_n P)%nat.
Hypothesis Hg : 0 < sg_gamma P.
Hypothesis Hl : 0 <= lam.

Let gam := sg_gamma P.
Let nn := INR (sg_n P).
(* the gradient step the proximal operator is applied to, with the exact mean gradient g *)
Definition gstep (x g : list R) : list R := zipw (fun xi gi => xi - gam * gi) x g.

Lemma sg_tn_R : sg_tn NumR P = nn.
Proof. unfold sg_tn, nn. simpl. now rewrite <- INR_IZR_INZ. Qed.
Lemma nn_pos : 0 < nn.
Proof. unfold nn. apply lt_0_INR. exact Hn. Qed.
Lemma sg_lam_R : sg_lam NumR P lam = gam * (lam / nn).
Proof. unfold sg_lam. rewrite sg_tn_R. simpl. unfold gam. pose proof nn_pos. field. lra. Qed.

(* Tikhonov, one coordinate *)
Lemma ti_coord x g : (x - gam * g) * (1 / (gam * (lam / nn) + 1)) = x <-> g + lam / nn * x = 0.
Proof.
  pose proof nn_pos as Hp. unfold gam.
  assert (Hm : 0 <= lam / nn) by (apply Rmult_le_pos; [lra | left; now apply Rinv_0_lt_compat]).
  set (m := lam / nn) in *.
  assert (Hd : 0 < sg_gamma P * m + 1) by nra.
  split; intros H.
  - assert (E : x - sg_gamma P * g = x * (sg_gamma P * m + 1)).
    { rewrite <- H at 2. field. lra. }
    assert (sg_gamma P * (g + m * x) = 0) by lra.
    apply Rmult_integral in H0. destruct H0; lra.
  - replace (x - sg_gamma P * g) with (x * (sg_gamma P * m + 1)) by nra. field. lra.
Qed.

Theorem saga_tikhonov_fixed_point x g :
  sg_prox_op P = PTi lam -> length x = length g ->
  (sg_apply_prox NumR P (gstep x g) = x <-> Forall2 (fun xi gi => gi + lam / nn * xi = 0) x g).
Proof.
  intros Hp L. unfold sg_apply_prox. rewrite Hp. unfold prox_ti, vmuls, gstep. rewrite sg_lam_R. simpl.
  rewrite map_zipw_fix by exact L.
  split; intros F; induction F; constructor; auto; now apply ti_coord.
Qed.

(* L1, one coordinate: soft threshold at gamma*lambda/n *)
Definition soft (t w : R) : R :=
  if Rltb w 0 then (if Rltb (- w) t then 0 else w + t) else (if Rltb w t then 0 else w - t).
Definition kkt_l1 (m x g : R) : Prop :=
  (0 < x /\ g + m = 0) \/ (x < 0 /\ g - m = 0) \/ (x = 0 /\ Rabs g <= m).

Lemma l1_coord x g : soft (gam * (lam / nn)) (x - gam * g) = x <-> kkt_l1 (lam / nn) x g.
Proof.
  pose proof nn_pos as Hp. unfold gam.
  assert (Hm : 0 <= lam / nn) by (apply Rmult_le_pos; [lra | left; now apply Rinv_0_lt_compat]).
  set (m := lam / nn) in *. set (c := sg_gamma P) in *.
  assert (Hc : 0 < c) by exact Hg.
  assert (Hcm : 0 <= c * m) by nra.
  unfold soft, kkt_l1.
  assert (K : forall a b, c * a < c * b <-> a < b).
  { intros a b; split; intros; nra. }
  destruct (Rltb (x - c * g) 0) eqn:E1.
  - apply Rltb_true in E1. destruct (Rltb (- (x - c * g)) (c * m)) eqn:E2.
    + apply Rltb_true in E2. split.
      * intros E; subst x. right; right. split; [reflexivity|].
        assert (0 < g) by nra. assert (g < m) by (apply K; lra).
        rewrite Rabs_pos_eq; lra.
      * intros [[H1 H2] | [[H1 H2] | [H1 H2]]]; try nra.
    + assert (E2' : ~ (- (x - c * g) < c * m)) by (intros X; apply Rltb_true in X; congruence).
      split.
      * intros E. assert (c * (g - m) = 0) by lra.
        apply Rmult_integral in H. destruct H as [H | H]; [lra|].
        destruct (Rtotal_order x 0) as [X | [X | X]].
        -- right; left; lra.
        -- right; right. split; [exact X|]. subst x. assert (g = m) by lra. subst g.
           rewrite Rabs_pos_eq; lra.
        -- exfalso. nra.
      * intros [[H1 H2] | [[H1 H2] | [H1 H2]]]; try nra.
        subst x. unfold Rabs in H2; destruct (Rcase_abs g); [nra|].
        assert (~ g < m) by (intros X; apply (proj2 (K g m)) in X; lra).
        assert (g = m) by lra. subst g. lra.
  - assert (E1' : ~ (x - c * g < 0)) by (intros X; apply Rltb_true in X; congruence).
    destruct (Rltb (x - c * g) (c * m)) eqn:E2.
    + apply Rltb_true in E2. split.
      * intros E; subst x. right; right. split; [reflexivity|].
        assert (g <= 0) by nra. assert (- g < m) by (apply K; lra).
        rewrite Rabs_left1; lra.
      * intros [[H1 H2] | [[H1 H2] | [H1 H2]]]; try nra.
    + assert (E2' : ~ (x - c * g < c * m)) by (intros X; apply Rltb_true in X; congruence).
      split.
      * intros E. assert (c * (g + m) = 0) by lra.
        apply Rmult_integral in H. destruct H as [H | H]; [lra|].
        destruct (Rtotal_order x 0) as [X | [X | X]].
        -- exfalso. nra.
        -- right; right. split; [exact X|]. subst x. assert (g = - m) by lra. subst g.
           rewrite Rabs_Ropp, Rabs_pos_eq; lra.
        -- left; lra.
      * intros [[H1 H2] | [[H1 H2] | [H1 H2]]]; try nra.
        subst x. unfold Rabs in H2; destruct (Rcase_abs g); [|nra].
        assert (~ - g < m) by (intros X; apply (proj2 (K (- g) m)) in X; lra).
        assert (g = - m) by lra. subst g. lra.
Qed.

Theorem saga_l1_fixed_point x g :
  sg_prox_op P = PL1 lam -> length x = length g ->
  (sg_apply_prox NumR P (gstep x g) = x <-> Forall2 (kkt_l1 (lam / nn)) x g).
Proof.
  intros Hp L. unfold sg_apply_prox. rewrite Hp. unfold prox_l1, gstep. rewrite sg_lam_R.
  change (map _ (zipw (fun xi gi => xi - gam * gi) x g))
    with (map (soft (gam * (lam / nn))) (zipw (fun xi gi => xi - gam * gi) x g)).
  rewrite map_zipw_fix by exact L.
  split; intros F; induction F; constructor; auto; now apply l1_coord.
Qed.

(* one dimension, least squares  sum_j 1/2 (a_j x - b_j)^2 : mean gradient (saa x - sab)/n *)
Theorem saga_tikhonov_closed_form_1d saa sab x :
  sg_prox_op P = PTi lam -> 0 < saa + lam ->
  (sg_apply_prox NumR P (gstep [x] [(saa * x - sab) / nn]) = [x] <-> x = sab / (saa + lam)).
Proof.
  intros Hp Hs. rewrite saga_tikhonov_fixed_point by auto.
  pose proof nn_pos as Hpn. split.
  - intros F. inversion F as [|? ? ? ? F1 _]; subst.
    assert (E : (saa + lam) * x = sab).
    { apply Rmult_eq_reg_l with (r := / nn); [|apply Rinv_neq_0_compat; lra].
      unfold Rdiv in F1. lra. }
    rewrite <- E. field. lra.
  - intros E. constructor; [|constructor]. subst x. field. split; lra.
Qed.

End SagaReg.

(* ---------------------------------------------------------------- instances (non-vacuity) *)

Lemma norm_stop_instance_l :
  ltb NumR (norm NumR [0; 0; 1]) 2 = true /\ ltb NumR (norm NumR [0; 0; 3]) 2 = false /\
  ltb NumR (norm NumR [0; 0]) 2 = true.
Proof.
  change (Rltb (norm NumR [0; 0; 1]) 2 = true /\ Rltb (norm NumR [0; 0; 3]) 2 = false /\ Rltb (norm NumR [0; 0]) 2 = true).
  rewrite !norm_sqrt. simpl ssq.
  replace (0 * 0 + (0 * 0 + (1 * 1 + 0))) with 1 by lra.
  replace (0 * 0 + (0 * 0 + (3 * 3 + 0))) with (3 * 3) by lra.
  replace (0 * 0 + (0 * 0 + 0)) with 0 by lra.
  rewrite sqrt_1, sqrt_0, sqrt_square by lra.
  repeat split.
  - apply Rltb_true. lra.
  - destruct (Rltb 3 2) eqn:E; [apply Rltb_true in E; lra | reflexivity].
  - apply Rltb_true. lra.
Qed.

Definition PTi_ex : sg_params (A := R) := mkSg 2%nat (1 / 10) (1 / 1000) 100%Z false (PTi 1) false false.
Definition PL1_ex : sg_params (A := R) := mkSg 2%nat (1 / 10) (1 / 1000) 100%Z false (PL1 1) false false.

Lemma saga_tikhonov_instance_l :
  sg_apply_prox NumR PTi_ex (gstep PTi_ex [1 / 2] [(3 * (1 / 2) - 2) / INR 2]) = [1 / 2] /\
  sg_apply_prox NumR PTi_ex (gstep PTi_ex [1] [(3 * 1 - 2) / INR 2]) <> [1].
Proof.
  assert (Hn : (0 < sg_n PTi_ex)%nat) by (simpl; lia).
  assert (Hg : 0 < sg_gamma PTi_ex) by (simpl; lra).
  split.
  - apply (proj2 (saga_tikhonov_closed_form_1d PTi_ex 1 Hn Hg ltac:(lra) 3 2 (1 / 2) eq_refl ltac:(lra))). lra.
  - intros E. apply (proj1 (saga_tikhonov_closed_form_1d PTi_ex 1 Hn Hg ltac:(lra) 3 2 1 eq_refl ltac:(lra))) in E. lra.
Qed.

Lemma saga_l1_instance_l :
  sg_apply_prox NumR PL1_ex (gstep PL1_ex [0; 1] [1 / 4; - (1 / 2)]) = [0; 1] /\
  sg_apply_prox NumR PL1_ex (gstep PL1_ex [0; 1] [1; - (1 / 2)]) <> [0; 1].
Proof.
  assert (Hn : (0 < sg_n PL1_ex)%nat) by (simpl; lia).
  assert (Hg : 0 < sg_gamma PL1_ex) by (simpl; lra).
  assert (N2 : INR (sg_n PL1_ex) = 2) by (simpl; lra).
  split.
  - apply (proj2 (saga_l1_fixed_point PL1_ex 1 Hn Hg ltac:(lra) [0; 1] [1 / 4; - (1 / 2)] eq_refl eq_refl)).
    rewrite N2. constructor; [|constructor; [|constructor]].
    + right; right. split; [reflexivity|]. rewrite Rabs_pos_eq; lra.
    + left. lra.
  - intros E. apply (proj1 (saga_l1_fixed_point PL1_ex 1 Hn Hg ltac:(lra) [0; 1] [1; - (1 / 2)] eq_refl eq_refl)) in E.
    rewrite N2 in E. inversion E as [|? ? ? ? F1 _]; subst.
    destruct F1 as [[H _] | [[H _] | [_ H]]]; try lra.
    rewrite Rabs_pos_eq in H; lra.
Qed.
