(* C07 (round 6) — proofs about the CLOSED newton machines (getDirection = ModelNewtonDir.get_direction,
   no direction oracle) and about Newton's iteration on strictly convex quadratics over R:
     - mdotv is linear on well-shaped matrices (discharges the linearity hypothesis of the quadratic
       corollaries of round 2);
     - one Newton step from ANY start point lands exactly on the critical point, the stop test fires
       there, and the run returns it as converged: no "within the cap" assumption, no oracle left
       except the objective itself. *)
From Coq Require Import ZArith List Bool Reals Lra Lia.
From ADV Require Import Base.Num C07.Model C07.Spec C07.ModelNewton C07.SpecNewton C07.ModelNewtonDir
  C07.ModelNewtonMin C07.SpecNewtonMin C07.ProofsNewton C07.ProofsNewtonMin C07.ProofsQuad.
Import ListNotations.
Open Scope R_scope.

(* ------------------------------------------------------------------ shapes and linearity *)
Definition rows_ok (n : nat) (A : matR) : Prop := Forall (fun r => length r = n) A.

Lemma rdot_rsub r : forall x t, length x = length r -> length t = length r ->
  rdot r (rsub x t) = rdot r x - rdot r t.
Proof.
  induction r as [|a r IH]; intros [|x xs] [|t ts] Hx Ht; simpl in *; try discriminate; try lra.
  injection Hx as Hx. injection Ht as Ht. rewrite (IH xs ts Hx Ht). lra.
Qed.

Lemma mdotv_cons (r : vecR) (A : matR) v : mdotv NumR (r :: A) v = dot NumR r v :: mdotv NumR A v.
Proof. reflexivity. Qed.

Lemma mdotv_linear n (A : matR) : rows_ok n A -> forall x t, length x = n -> length t = n ->
  mdotv NumR A (vsub NumR x t) = vsub NumR (mdotv NumR A x) (mdotv NumR A t).
Proof.
  intros HA x t Hx Ht. induction HA as [|r A Hr HA IH]; [reflexivity|].
  rewrite !mdotv_cons, IH.
  change (vsub NumR (dot NumR r x :: mdotv NumR A x) (dot NumR r t :: mdotv NumR A t))
    with ((dot NumR r x - dot NumR r t) :: vsub NumR (mdotv NumR A x) (mdotv NumR A t)).
  f_equal. rewrite !dot_rdot, vsub_rsub. apply rdot_rsub; congruence.
Qed.

(* the quadratic corollary of round 2 without its linearity hypothesis *)
Theorem quadratic_distance_shaped_l n (A : matR) (b xs : vecR) mu :
  0 < mu -> length A = n -> rows_ok n A -> length xs = n -> mdotv NumR A xs = b ->
  (forall v, length v = n -> mu * dot NumR v v <= dot NumR v (mdotv NumR A v)) ->
  forall x eps, length x = n ->
  norm NumR (qgrad A b x) < eps -> norm NumR (vsub NumR x xs) < eps / mu.
Proof.
  intros Hmu HA Hrows Hxs Hcrit Hco x eps Hx.
  apply (quadratic_distance_l n A b xs mu Hmu HA Hxs Hcrit Hco); [|exact Hx].
  intros y Hy. apply (mdotv_linear n A Hrows); assumption.
Qed.

(* ------------------------------------------------------------------ vector facts over R *)
Definition zerosR (n : nat) : vecR := repeat 0 n.

Lemma ssq_zeros n : ssq (zerosR n) = 0.
Proof. induction n as [|n IH]; simpl; [reflexivity|]. unfold zerosR in IH. rewrite IH. lra. Qed.
Lemma norm_zeros n : norm NumR (zerosR n) = 0.
Proof. rewrite norm_sqrt, ssq_zeros. apply sqrt_0. Qed.

(* (u - (u - b)) - b = 0 *)
Lemma rsub_cancel : forall u b : vecR, length u = length b ->
  rsub (rsub u (rsub u b)) b = zerosR (length b).
Proof.
  induction u as [|a u IH]; intros [|c b] H; simpl in *; try discriminate; [reflexivity|].
  injection H as H. rewrite (IH b H). unfold zerosR. simpl. f_equal. lra.
Qed.

Lemma vequal_cons (a c : R) (u w : vecR) :
  vequal NumR (a :: u) (c :: w) = Reqb a c && vequal NumR u w.
Proof. reflexivity. Qed.

(* x1 - t == x1 (Vequals) forces t = 0 *)
Lemma vequal_sub_zero : forall x t : vecR, length x = length t ->
  vequal NumR x (vsub NumR x t) = true -> t = zerosR (length t).
Proof.
  induction x as [|a x IH]; intros [|c t] H E; simpl in H; try discriminate; [reflexivity|].
  injection H as H.
  change (vsub NumR (a :: x) (c :: t)) with ((a - c) :: vsub NumR x t) in E.
  rewrite vequal_cons in E. apply andb_true_iff in E as [E1 E2].
  apply Reqb_true in E1. simpl. unfold zerosR in *. simpl. f_equal; [lra | apply IH; assumption].
Qed.

Lemma rdot_zeros_r : forall (r : vecR) n, rdot r (zerosR n) = 0.
Proof.
  induction r as [|a r IH]; intros [|n]; simpl; try reflexivity.
  unfold zerosR in IH. rewrite IH. lra.
Qed.
Lemma mdotv_zeros (A : matR) n : mdotv NumR A (zerosR n) = zerosR (length A).
Proof.
  induction A as [|r A IH]; [reflexivity|]. rewrite mdotv_cons, IH, dot_rdot, rdot_zeros_r. reflexivity.
Qed.

(* ------------------------------------------------------------------ Newton on a quadratic *)
Section NewtonQuadratic.
Variable n : nat.
Variable A : matR.
Variable b : vecR.
Hypothesis A_len : length A = n.
Hypothesis A_rows : rows_ok n A.
Hypothesis b_len : length b = n.

(* RunCrit on f(x) = 1/2 x'Ax - b'x: the AD answer is y = grad f x = A x - b, J = Hessian = A *)
Definition quad_answer (x : vecR) : nw_answer (A := R) := mkNwAns false (qgrad A b x) A.

Variable ND : nat -> Z -> vecR -> matR -> dir_ans (A := R).
Variable NHK : nat -> nw_hookargs (A := R) -> bool.
Variable NCS : nat -> vecR -> bool.
Variable P : nw_params (A := R).
Hypothesis P_hook : nw_hook P = false.
Hypothesis P_cons : nw_cons P = false.
Hypothesis P_eps : 0 < nw_eps P.
Hypothesis P_maxit : (2 <= nw_maxit P)%Z.

Lemma qgrad_len x : length (qgrad A b x) = n.
Proof. unfold qgrad. rewrite vsub_len; rewrite mdotv_len; congruence. Qed.

(* the step: if t solves the Newton equation A t = grad f x0, then x0 - t is the critical point *)
Lemma newton_step_hits_critical_point x0 t : length x0 = n -> length t = n ->
  mdotv NumR A t = qgrad A b x0 -> qgrad A b (vsub NumR x0 t) = zerosR n.
Proof.
  intros Hx Ht Heq. unfold qgrad at 1. rewrite (mdotv_linear n A A_rows x0 t Hx Ht), Heq.
  unfold qgrad. rewrite !vsub_rsub. rewrite rsub_cancel; [now rewrite b_len|].
  rewrite mdotv_len. congruence.
Qed.

Lemma critical_point_equation x : length x = n -> qgrad A b x = zerosR n -> mdotv NumR A x = b.
Proof.
  intros Hx E. unfold qgrad in E. rewrite vsub_rsub in E.
  assert (L : length (mdotv NumR A x) = length b) by (rewrite mdotv_len; congruence).
  revert L E. generalize (mdotv NumR A x) as u. generalize n as m. clear.
  intros m u; revert m b. induction u as [|a u IH]; intros m [|c b] L E; simpl in *; try discriminate; [reflexivity|].
  injection L as L. destruct m as [|m]; [discriminate|]. unfold zerosR in E. simpl in E.
  injection E as E1 E2. f_equal; [lra | eapply IH; eauto].
Qed.

Theorem newton_crit_quadratic_converges_l fuel x0 t :
  length x0 = n -> length t = n ->
  (* getDirection's answer for (grad f x0, A) solves the Newton equation *)
  (forall k, ND k (nw_mode P) (qgrad A b x0) A = DirOk t) -> mdotv NumR A t = qgrad A b x0 ->
  nw_mode_valid (nw_mode P) = true ->
  exists x tr, newton_root NumR (fun _ => quad_answer) ND NHK NCS P (S (S fuel)) x0 = (NwConv x, tr) /\
    norm NumR (qgrad A b x) < nw_eps P /\
    (nw_eps P <= norm NumR (qgrad A b x0) -> x = vsub NumR x0 t /\ mdotv NumR A x = b).
Proof.
  intros Hx Ht Hdir Heq Hmode.
  unfold newton_root. rewrite P_cons. cbn [negb].
  change (n_err (quad_answer x0)) with false. cbn iota.
  cbn [nw_loop].
  assert (M0 : (0 <? nw_maxit P)%Z = true) by (apply Z.ltb_lt; lia).
  assert (M1 : (0 + 1 <? nw_maxit P)%Z = true) by (apply Z.ltb_lt; lia).
  rewrite M0, P_hook.
  change (n_y (quad_answer x0)) with (qgrad A b x0). change (n_J (quad_answer x0)) with A.
  destruct (ltb NumR (norm NumR (qgrad A b x0)) (nw_eps P)) eqn:E0.
  - exists x0. eexists. split; [reflexivity|]. split.
    + now apply Rltb_true in E0.
    + intros Hge. apply Rltb_true in E0. lra.
  - cbn [is_nan NumR]. rewrite Hmode. cbn [negb]. rewrite Hdir.
    unfold nw_advance. cbn [nw_backtrack].
    destruct (vequal NumR x0 (vsub NumR x0 t)) eqn:EV.
    + exfalso. apply vequal_sub_zero in EV; [|congruence].
      rewrite EV, mdotv_zeros in Heq. rewrite <- Heq, A_len, norm_zeros in E0.
      assert (Hlt : Rltb 0 (nw_eps P) = true) by (apply Rltb_true; exact P_eps).
      simpl in E0. congruence.
    + rewrite P_cons. change (n_err (quad_answer (vsub NumR x0 t))) with false. cbn iota.
      pose proof (newton_step_hits_critical_point x0 t Hx Ht Heq) as Hz.
      rewrite M1.
      change (n_y (quad_answer (vsub NumR x0 t))) with (qgrad A b (vsub NumR x0 t)). rewrite Hz, norm_zeros.
      assert (Hlt : ltb NumR 0 (nw_eps P) = true) by (apply Rltb_true; exact P_eps).
      rewrite Hlt. exists (vsub NumR x0 t). eexists. split; [reflexivity|]. split.
      * rewrite Hz, norm_zeros. exact P_eps.
      * intros _. split; [reflexivity|]. apply critical_point_equation; [|exact Hz].
        rewrite vsub_len; congruence.
Qed.
End NewtonQuadratic.

(* ------------------------------------------------------------------ the closed machine in one dimension *)
Require ADV.C05.Model.
Notation NumXR := ADV.C05.Model.NumXR.

(* getDirection "None" on a 1x1 system over R: t = 0 + (1/h) g — what matrixInverse.Run (C04's
   Gauss-Jordan model) and MdotV compute; over R there is no NaN, so no "singular" outcome *)
Lemma get_direction_none_1d bf dl (g h : R) :
  get_direction NumXR bf dl 0 [g] [[h]] = DirOk [0 + 1 / h * g].
Proof. unfold get_direction. cbn [Z.eqb]. unfold dir_none, dir_of_inverse. cbn -[Rabs]. reflexivity. Qed.

Theorem newton_crit_1d_closed_l (a b0 x eps c bf dl : R) (maxit : Z) NHK NCS fuel :
  a <> 0 -> 0 < eps -> (2 <= maxit)%Z ->
  exists x' tr,
    newton_root NumR (fun _ => quad_answer [[a]] [b0]) (ND_model NumXR bf dl) NHK NCS
      (mkNw eps maxit false false 0%Z c) (S (S fuel)) [x] = (NwConv x', tr) /\
    norm NumR (qgrad [[a]] [b0] x') < eps /\
    (eps <= norm NumR (qgrad [[a]] [b0] [x]) -> x' = [b0 / a]).
Proof.
  intros Ha He Hm.
  set (g0 := 0 + a * x - b0).
  assert (Hq : qgrad [[a]] [b0] [x] = [g0]) by reflexivity.
  assert (Hrows : rows_ok 1 [[a]]) by (repeat constructor).
  destruct (newton_crit_quadratic_converges_l 1 [[a]] [b0] eq_refl Hrows eq_refl
              (ND_model NumXR bf dl) NHK NCS (mkNw eps maxit false false 0%Z c)
              eq_refl eq_refl He Hm fuel [x] [0 + 1 / a * g0] eq_refl eq_refl)
    as (x' & tr & Hrun & Hn & Hpt).
  - intros k. unfold ND_model. rewrite Hq. apply get_direction_none_1d.
  - rewrite Hq. change (mdotv NumR [[a]] [0 + 1 / a * g0]) with [0 + a * (0 + 1 / a * g0)].
    f_equal. field. exact Ha.
  - reflexivity.
  - exists x', tr. split; [exact Hrun|]. split; [exact Hn|].
    intros Hge. destruct (Hpt Hge) as [Hx' _]. rewrite Hx'.
    change (vsub NumR [x] [0 + 1 / a * g0]) with [x - (0 + 1 / a * g0)]. f_equal. unfold g0. field. exact Ha.
Qed.

(* ------------------------------------------------------------------ the closed machines: every logged
   direction IS get_direction of the (mode, y, J) logged with it — for every carrier *)
Section Closed.
Context {T : Type} (X : ADV.C05.Model.NumX T).
Variable bf dl : T.
Notation NMX := (ADV.C05.Model.nx X).
Notation NDm := (ND_model X bf dl).

Lemma nwf_closed_dir NF NHK NCS (tr : nw_trace (A := T)) m y J d :
  nwf NF NDm NHK NCS tr -> In (NvDir m y J d) tr -> d = get_direction X bf dl m y J.
Proof.
  induction 1; intros Hin.
  - destruct Hin.
  - destruct Hin as [E | Hin]; [discriminate | auto].
  - destruct Hin as [E | Hin]; [inversion E; subst; reflexivity | auto].
  - destruct Hin as [E | Hin]; [discriminate | auto].
  - destruct Hin as [E | Hin]; [discriminate | auto].
Qed.

Lemma newton_closed_directions_l NF NHK NCS (P : nw_params (A := T)) fuel x0 m y J d :
  In (NvDir m y J d) (snd (newton_root NMX NF NDm NHK NCS P fuel x0)) -> d = get_direction X bf dl m y J.
Proof.
  intros Hin. destruct (newton_root_ok NMX NF NDm NHK NCS P fuel x0) as [[W _] _].
  eapply nwf_closed_dir; eauto.
Qed.

Lemma nmf_closed_dir MF MPHI MHK NCS (tr : nm_trace (A := T)) m g H d :
  nmf MF MPHI NDm MHK NCS tr -> In (MvDir m g H d) tr -> d = get_direction X bf dl m g H.
Proof.
  induction 1; intros Hin.
  - destruct Hin.
  - destruct Hin as [E | Hin]; [discriminate | auto].
  - destruct Hin as [E | Hin]; [discriminate | auto].
  - destruct Hin as [E | Hin]; [inversion E; subst; reflexivity | auto].
  - destruct Hin as [E | Hin]; [discriminate | auto].
  - destruct Hin as [E | Hin]; [discriminate | auto].
Qed.

Lemma newton_min_closed_directions_l K MF MPHI MHK NCS (P : nm_params (A := T)) fuel x0 m g H d :
  In (MvDir m g H d) (snd (newton_min NMX K MF MPHI NDm MHK NCS P fuel x0)) -> d = get_direction X bf dl m g H.
Proof.
  intros Hin. destruct (newton_min_ok NMX K MF MPHI NDm MHK NCS P fuel x0) as [[W _] _].
  eapply nmf_closed_dir; eauto.
Qed.

(* "Eigenvalue" (mode 2) never yields a direction: F-NEWTON-EIGENVALUE-MODE at model level *)
Lemma get_direction_eigenvalue_l g H : get_direction X bf dl 2 g H = DirPanic.
Proof. reflexivity. Qed.
End Closed.

(* with HessianModification{"Eigenvalue"} the closed newton_root machine never takes a step: a nil-error
   return can only carry the start point (stop test / hook stop / cap hit at x0), everything else is
   an error return or the panic *)
Lemma newton_closed_eigenvalue_no_step_l {T : Type} (X : ADV.C05.Model.NumX T) (bf dl : T)
  NF NHK NCS (P : nw_params (A := T)) fuel x0 x :
  nw_mode P = 2%Z ->
  (let o := fst (newton_root (ADV.C05.Model.nx X) NF (ND_model X bf dl) NHK NCS P fuel x0) in
   o = NwConv x \/ o = NwHook x \/ o = NwCap x) -> x = x0.
Proof.
  intros Hm. unfold newton_root.
  destruct (negb (if nw_cons P then NCS 0%nat x0 else true)); cbn [fst].
  { intros [E | [E | E]]; discriminate E. }
  destruct (n_err (NF _ x0)); cbn [fst].
  { intros [E | [E | E]]; discriminate E. }
  destruct fuel as [|f]; cbn [nw_loop fst].
  { intros [E | [E | E]]; discriminate E. }
  destruct (0 <? nw_maxit P)%Z; cbn [fst].
  2:{ intros [E | [E | E]]; inversion E; reflexivity. }
  destruct (if nw_hook P then NHK _ _ else false); cbn [fst].
  { intros [E | [E | E]]; inversion E; reflexivity. }
  destruct (ltb _ _ _); cbn [fst].
  { intros [E | [E | E]]; inversion E; reflexivity. }
  destruct (is_nan _ _); cbn [fst].
  { intros [E | [E | E]]; discriminate E. }
  rewrite Hm. cbn [nw_mode_valid Z.eqb orb negb]. unfold ND_model at 1. rewrite get_direction_eigenvalue_l.
  cbn [fst]. intros [E | [E | E]]; discriminate E.
Qed.
