(* C07 (round 2) — newton_root (RunRoot / RunCrit): stop condition at the returned point,
   the back-tracking exit is an error return, hook arguments, constraints, caps. *)
From Coq Require Import ZArith List Bool Lia.
From ADV Require Import Base.Num C07.Model C07.ModelNewton C07.SpecNewton.
Import ListNotations.
Open Scope Z_scope.

Ltac nsplit := repeat match goal with |- _ /\ _ => split end.

Section PN.
Context {A : Type} (NM : Num A).
Notation vec := (list A).
Notation mat := (list (list A)).
Variable NF : nat -> vec -> nw_answer (A := A).
Variable ND : nat -> Z -> vec -> mat -> dir_ans (A := A).
Variable NHK : nat -> nw_hookargs (A := A) -> bool.
Variable NCS : nat -> vec -> bool.
Variable P : nw_params (A := A).

Notation nw_trace := (@ModelNewton.nw_trace A).
Notation nwf := (nwf NF ND NHK NCS).

Definition next (tr tr' : nw_trace) : Prop := exists l, tr' = l ++ tr.
Lemma next_refl tr : next tr tr.
Proof. exists []; reflexivity. Qed.
Lemma next_nil tr : next [] tr.
Proof. exists tr; now rewrite app_nil_r. Qed.
Lemma next_cons e tr tr' : next tr tr' -> next tr (e :: tr').
Proof. intros [l ->]. exists (e :: l); reflexivity. Qed.
Lemma next_step e tr : next tr (e :: tr).
Proof. apply next_cons, next_refl. Qed.
Lemma next_trans a b c : next a b -> next b c -> next a c.
Proof. intros [l ->] [m ->]. exists (m ++ l). now rewrite app_assoc. Qed.
Lemma next_in e tr tr' : next tr tr' -> In e tr -> In e tr'.
Proof. intros [l ->] H. apply in_or_app; now right. Qed.

Lemma nhm_next tr tr' h : next tr tr' -> nw_hook_matched tr h -> nw_hook_matched tr' h.
Proof. intros E (a & Hin & H1 & H2 & H3). exists a; nsplit; auto. eapply next_in; eauto. Qed.
Lemma nacc_next c tr tr' x : next tr tr' -> nw_accepted c tr x -> nw_accepted c tr' x.
Proof. intros E H Hc. eapply next_in; eauto. Qed.

(* honest log in which every hook call so far was matched *)
Definition ngood (tr : nw_trace) : Prop := nwf tr /\ nw_hooks_ok tr.

Lemma ngood_nil : ngood [].
Proof. split; [constructor | intros h b []]. Qed.
Lemma ngood_eval tr x : ngood tr -> ngood (NvEval x (NF (length tr) x) :: tr).
Proof.
  intros [W H]. split; [now constructor|].
  intros h b [E | Hin]; [discriminate|]. eapply nhm_next; [apply next_step | eauto].
Qed.
Lemma ngood_dir tr m y J : ngood tr -> ngood (NvDir m y J (ND (length tr) m y J) :: tr).
Proof.
  intros [W H]. split; [now constructor|].
  intros h b [E | Hin]; [discriminate|]. eapply nhm_next; [apply next_step | eauto].
Qed.
Lemma ngood_cons tr x : ngood tr -> ngood (NvCons x (NCS (length tr) x) :: tr).
Proof.
  intros [W H]. split; [now constructor|].
  intros h b [E | Hin]; [discriminate|]. eapply nhm_next; [apply next_step | eauto].
Qed.
Lemma ngood_hook tr h : ngood tr -> nw_hook_matched tr h -> ngood (NvHook h (NHK (length tr) h) :: tr).
Proof.
  intros [W H] M. split; [now constructor|].
  intros h' b [E | Hin].
  - inversion E; subst. eapply nhm_next; [apply next_step | eauto].
  - eapply nhm_next; [apply next_step | eauto].
Qed.

Lemma last_eval_in (tr : nw_trace) x a : last_eval tr = Some (x, a) -> In (NvEval x a) tr.
Proof.
  induction tr as [|e tr IH]; simpl; [discriminate|].
  destruct e as [x' a'| | |]; intros H; [|right; auto ..].
  inversion H; subst. now left.
Qed.

Definition same_counts (tr tr' : nw_trace) : Prop :=
  nw_n_evals tr' = nw_n_evals tr /\ nw_n_hooks tr' = nw_n_hooks tr /\ nw_n_dirs tr' = nw_n_dirs tr.

Lemma same_counts_refl tr : same_counts tr tr.
Proof. repeat split. Qed.
Lemma same_counts_cons tr tr' x b : same_counts (NvCons x b :: tr) tr' -> same_counts tr tr'.
Proof. unfold same_counts, nw_n_evals, nw_n_hooks, nw_n_dirs; simpl; auto. Qed.

(* ---------------------------------------------------------------- back-tracking loop *)

Definition bt_post (x1 t1 : vec) (tr : nw_trace) (r : bt_res (A := A)) : Prop :=
  match r with
  | BTFuel => True
  | BTFail tr' =>
      ngood tr' /\ next tr tr' /\ last_eval tr' = last_eval tr /\ same_counts tr tr' /\
      nw_step_vanished NM (nw_c P) x1 t1
  | BTOk x2 tr' =>
      ngood tr' /\ next tr tr' /\ last_eval tr' = last_eval tr /\ same_counts tr tr' /\
      nw_accepted (nw_cons P) tr' x2 /\
      exists k, x2 = vsub NM x1 (nw_shrunk NM (nw_c P) k t1) /\ vequal NM x1 x2 = false
  end.

Lemma nw_backtrack_ok fuel : forall x1 t1 tr, ngood tr ->
  bt_post x1 t1 tr (nw_backtrack NM NCS P fuel x1 t1 tr).
Proof.
  induction fuel as [|f IH]; intros x1 t1 tr G; simpl; [exact I|].
  destruct (vequal NM x1 (vsub NM x1 t1)) eqn:Hv.
  { simpl. nsplit; auto using next_refl, same_counts_refl. exists 0%nat; exact Hv. }
  destruct (nw_cons P) eqn:Hc.
  2:{ simpl. nsplit; auto using next_refl, same_counts_refl.
      - intros X; congruence.
      - exists 0%nat; split; [reflexivity | exact Hv]. }
  remember (NCS (length tr) (vsub NM x1 t1)) as ok eqn:Hok.
  assert (G1 : ngood (NvCons (vsub NM x1 t1) ok :: tr)) by (subst ok; apply ngood_cons; exact G).
  destruct ok.
  { simpl. nsplit; auto using next_step.
    - repeat split.
    - intros _; left; reflexivity.
    - exists 0%nat; split; [reflexivity | exact Hv]. }
  specialize (IH x1 (vmuls NM t1 (nw_c P)) _ G1).
  destruct (nw_backtrack NM NCS P f x1 (vmuls NM t1 (nw_c P)) (NvCons (vsub NM x1 t1) false :: tr))
    as [|tr'|x2 tr']; simpl in *; [exact I| |].
  - destruct IH as (G2 & E2 & L2 & SC & [k Hk]).
    nsplit; auto; try (eapply next_trans; [apply next_step | exact E2]);
      try (eapply same_counts_cons; exact SC).
    exists (S k); exact Hk.
  - destruct IH as (G2 & E2 & L2 & SC & Acc & [k [Hk1 Hk2]]).
    nsplit; auto; try (eapply next_trans; [apply next_step | exact E2]);
      try (eapply same_counts_cons; exact SC).
    exists (S k); split; [exact Hk1 | exact Hk2].
Qed.

(* ---------------------------------------------------------------- from direction to next point *)

Definition adv_post (x1 t1 : vec) (tr : nw_trace) (r : adv_res (A := A)) : Prop :=
  match r with
  | AdvStop o tr' =>
      ngood tr' /\ next tr tr' /\ nw_success o = false /\
      (nw_n_evals tr' <= S (nw_n_evals tr))%nat /\ nw_n_hooks tr' = nw_n_hooks tr /\ nw_n_dirs tr' = nw_n_dirs tr
  | AdvNext x2 a tr' =>
      ngood tr' /\ next tr tr' /\ last_eval tr' = Some (x2, a) /\ n_err a = false /\
      nw_accepted (nw_cons P) tr' x2 /\
      nw_n_evals tr' = S (nw_n_evals tr) /\ nw_n_hooks tr' = nw_n_hooks tr /\ nw_n_dirs tr' = nw_n_dirs tr
  end.

Lemma nw_advance_ok fuel x1 t1 tr : ngood tr ->
  adv_post x1 t1 tr (nw_advance NM NF NCS P fuel x1 t1 tr).
Proof.
  intros G. unfold nw_advance.
  pose proof (nw_backtrack_ok fuel x1 t1 tr G) as B.
  destruct (nw_backtrack NM NCS P fuel x1 t1 tr) as [|tr1|x2 tr1]; simpl in *.
  - nsplit; auto using next_refl.
  - destruct B as (G1 & E1 & L1 & (C1 & C2 & C3) & _). nsplit; auto. lia.
  - destruct B as (G1 & E1 & L1 & (C1 & C2 & C3) & Acc & _).
    remember (NF (length tr1) x2) as a eqn:Ha.
    assert (G2 : ngood (NvEval x2 a :: tr1)) by (subst a; apply ngood_eval; exact G1).
    assert (E2 : next tr (NvEval x2 a :: tr1)) by (apply next_cons; exact E1).
    destruct (n_err a) eqn:He; simpl.
    + nsplit; auto. unfold nw_n_evals in *; simpl; lia.
    + nsplit; auto.
      * eapply nacc_next; [apply next_step | exact Acc].
      * unfold nw_n_evals in *; simpl; lia.
Qed.

(* the back-tracking exit is an error return (and nothing else is returned there) *)
Lemma nw_backtrack_exit_is_error_l fuel x1 t1 tr tr' :
  nw_backtrack NM NCS P fuel x1 t1 tr = BTFail tr' ->
  nw_advance NM NF NCS P fuel x1 t1 tr = AdvStop (NwErr NELineSearch x1) tr' /\
  nw_is_err (NwErr NELineSearch x1) = true /\ nw_step_vanished NM (nw_c P) x1 t1.
Proof.
  intros H. unfold nw_advance. rewrite H. nsplit; auto.
  destruct (nw_cons P) eqn:Hc.
  - (* re-derive the vanishing step from the loop itself *)
    clear NF ND NHK.
    revert t1 tr H. induction fuel as [|f IH]; intros t1 tr H; simpl in H; [discriminate|].
    destruct (vequal NM x1 (vsub NM x1 t1)) eqn:Hv; [exists 0%nat; exact Hv|].
    rewrite Hc in H. destruct (NCS (length tr) (vsub NM x1 t1)); [discriminate|].
    destruct (IH _ _ H) as [k Hk]. exists (S k); exact Hk.
  - destruct fuel as [|f]; simpl in H; [discriminate|].
    destruct (vequal NM x1 (vsub NM x1 t1)) eqn:Hv; [exists 0%nat; exact Hv|].
    rewrite Hc in H. discriminate.
Qed.

(* ---------------------------------------------------------------- main loop *)

Local Arguments nw_advance : simpl never.

Definition nw_post (tr0 : nw_trace) (i : Z) (o : nw_out (A := A)) (tr : nw_trace) : Prop :=
  ngood tr /\ next tr0 tr /\
  (forall x, o = NwConv x -> nw_stop_ok NM (nw_eps P) tr x) /\
  nw_point_accepted (nw_cons P) tr o /\ nw_point_evaluated tr o /\
  (nw_n_evals tr <= nw_n_evals tr0 + Z.to_nat (nw_maxit P - i))%nat /\
  (nw_n_hooks tr <= nw_n_hooks tr0 + Z.to_nat (nw_maxit P - i))%nat /\
  (nw_n_dirs tr <= nw_n_dirs tr0 + Z.to_nat (nw_maxit P - i))%nat.

Lemma nosuccess_post tr0 i o tr : ngood tr -> next tr0 tr -> nw_success o = false ->
  (nw_n_evals tr <= nw_n_evals tr0 + Z.to_nat (nw_maxit P - i))%nat ->
  (nw_n_hooks tr <= nw_n_hooks tr0 + Z.to_nat (nw_maxit P - i))%nat ->
  (nw_n_dirs tr <= nw_n_dirs tr0 + Z.to_nat (nw_maxit P - i))%nat ->
  nw_post tr0 i o tr.
Proof.
  intros G E S C1 C2 C3. unfold nw_post. nsplit; auto.
  - intros x X; subst o; discriminate S.
  - destruct o; simpl in S; try discriminate S; exact I.
  - destruct o; simpl in S; try discriminate S; exact I.
Qed.

Lemma nw_loop_ok fuel : forall i x1 a tr, ngood tr ->
  last_eval tr = Some (x1, a) -> n_err a = false -> nw_accepted (nw_cons P) tr x1 ->
  nw_post tr i (fst (nw_loop NM NF ND NHK NCS P fuel i x1 a tr))
               (snd (nw_loop NM NF ND NHK NCS P fuel i x1 a tr)).
Proof.
  induction fuel as [|f IH]; intros i x1 a tr G L Ha Acc; simpl.
  { apply nosuccess_post; auto using next_refl; lia. }
  destruct (i <? nw_maxit P) eqn:Hi; simpl.
  2:{ unfold nw_post. nsplit; auto using next_refl; try lia.
      - intros x X; discriminate X.
      - simpl. exists a; auto. }
  apply Z.ltb_lt in Hi.
  assert (Hz : Z.to_nat (nw_maxit P - i) = S (Z.to_nat (nw_maxit P - (i + 1)))) by lia.
  remember (mkNwHook x1 (n_J a) (n_y a)) as h eqn:Hh.
  assert (M : nw_hook_matched tr h).
  { exists a. subst h; simpl. nsplit; auto. apply last_eval_in; exact L. }
  remember (if nw_hook P then NHK (length tr) h else false) as stop eqn:Hstop.
  remember (if nw_hook P then NvHook h stop :: tr else tr) as tr1 eqn:Htr1.
  assert (G1 : ngood tr1).
  { subst tr1. destruct (nw_hook P); [|exact G]. subst stop. apply ngood_hook; auto. }
  assert (E1 : next tr tr1) by (subst tr1; destruct (nw_hook P); [apply next_step | apply next_refl]).
  assert (L1 : last_eval tr1 = Some (x1, a)) by (subst tr1; destruct (nw_hook P); simpl; exact L).
  assert (N1 : nw_n_evals tr1 = nw_n_evals tr /\ (nw_n_hooks tr1 <= S (nw_n_hooks tr))%nat /\ nw_n_dirs tr1 = nw_n_dirs tr).
  { subst tr1. destruct (nw_hook P); unfold nw_n_evals, nw_n_hooks, nw_n_dirs; simpl; lia. }
  destruct N1 as (N1e & N1h & N1d).
  assert (Acc1 : nw_accepted (nw_cons P) tr1 x1) by (eapply nacc_next; eauto).
  clear Htr1 Hstop.
  destruct stop; simpl.
  { unfold nw_post. nsplit; auto; try lia.
    - intros x X; discriminate X.
    - simpl. exists a; auto. }
  destruct (ltb NM (norm NM (n_y a)) (nw_eps P)) eqn:Hn; simpl.
  { unfold nw_post. nsplit; auto; try lia.
    - intros x X. inversion X; subst x. exists a. split; [exact L1 | split; auto].
    - simpl. exists a; auto. }
  destruct (is_nan NM (norm NM (n_y a))); simpl.
  { apply nosuccess_post; auto; lia. }
  destruct (nw_mode_valid (nw_mode P)); simpl.
  2:{ apply nosuccess_post; auto; lia. }
  remember (ND (length tr1) (nw_mode P) (n_y a) (n_J a)) as d eqn:Hd.
  assert (G2 : ngood (NvDir (nw_mode P) (n_y a) (n_J a) d :: tr1)) by (subst d; apply ngood_dir; exact G1).
  assert (E2 : next tr (NvDir (nw_mode P) (n_y a) (n_J a) d :: tr1)) by (apply next_cons; exact E1).
  assert (N2 : nw_n_evals (NvDir (nw_mode P) (n_y a) (n_J a) d :: tr1) = nw_n_evals tr /\
               (nw_n_hooks (NvDir (nw_mode P) (n_y a) (n_J a) d :: tr1) <= S (nw_n_hooks tr))%nat /\
               nw_n_dirs (NvDir (nw_mode P) (n_y a) (n_J a) d :: tr1) = S (nw_n_dirs tr)).
  { unfold nw_n_evals, nw_n_hooks, nw_n_dirs in *; simpl; lia. }
  destruct N2 as (N2e & N2h & N2d).
  clear Hd.
  destruct d as [t1| |]; simpl.
  2:{ apply nosuccess_post; auto; lia. }
  2:{ apply nosuccess_post; auto; lia. }
  pose proof (nw_advance_ok f x1 t1 _ G2) as Adv.
  destruct (nw_advance NM NF NCS P f x1 t1 (NvDir (nw_mode P) (n_y a) (n_J a) (DirOk t1) :: tr1))
    as [o tr3 | x2 a' tr3]; simpl in *.
  - destruct Adv as (G3 & E3 & S3 & C1 & C2 & C3).
    apply nosuccess_post; auto; try lia. eapply next_trans; eauto.
  - destruct Adv as (G3 & E3 & L3 & Ha' & Acc3 & C1 & C2 & C3).
    specialize (IH (i + 1) x2 a' tr3 G3 L3 Ha' Acc3).
    destruct IH as (G4 & E4 & S4 & A4 & P4 & K1 & K2 & K3).
    unfold nw_post. nsplit; auto; try lia.
    eapply next_trans; [|exact E4]. eapply next_trans; eauto.
Qed.

Definition nw_final (o : nw_out (A := A)) (tr : nw_trace) : Prop :=
  ngood tr /\
  (forall x, o = NwConv x -> nw_stop_ok NM (nw_eps P) tr x) /\
  nw_point_accepted (nw_cons P) tr o /\ nw_point_evaluated tr o /\
  (nw_n_evals tr <= 1 + Z.to_nat (nw_maxit P))%nat /\
  (nw_n_hooks tr <= Z.to_nat (nw_maxit P))%nat /\
  (nw_n_dirs tr <= Z.to_nat (nw_maxit P))%nat.

Lemma nosuccess_final o tr : ngood tr -> nw_success o = false ->
  (nw_n_evals tr <= 1)%nat -> nw_n_hooks tr = 0%nat -> nw_n_dirs tr = 0%nat -> nw_final o tr.
Proof.
  intros G S C1 C2 C3. unfold nw_final. nsplit; auto; try lia.
  - intros x X; subst o; discriminate S.
  - destruct o; simpl in S; try discriminate S; exact I.
  - destruct o; simpl in S; try discriminate S; exact I.
Qed.

Theorem newton_root_ok fuel x0 :
  nw_final (fst (newton_root NM NF ND NHK NCS P fuel x0)) (snd (newton_root NM NF ND NHK NCS P fuel x0)).
Proof.
  unfold newton_root.
  remember (if nw_cons P then NCS 0 x0 else true) as ok eqn:Hok.
  remember (if nw_cons P then [NvCons x0 ok] else []) as tr0 eqn:Htr0.
  assert (G0 : ngood tr0).
  { subst tr0. destruct (nw_cons P); [|apply ngood_nil]. subst ok.
    apply (ngood_cons [] x0). apply ngood_nil. }
  assert (N0 : nw_n_evals tr0 = 0%nat /\ nw_n_hooks tr0 = 0%nat /\ nw_n_dirs tr0 = 0%nat)
    by (subst tr0; destruct (nw_cons P); auto).
  destruct N0 as (N0e & N0h & N0d).
  assert (Acc0 : ok = true -> nw_accepted (nw_cons P) tr0 x0).
  { intros -> Hc. subst tr0. rewrite Hc. left; reflexivity. }
  clear Htr0 Hok.
  destruct ok; cbn [negb fst snd].
  2:{ apply nosuccess_final; auto; lia. }
  specialize (Acc0 eq_refl).
  remember (NF (length tr0) x0) as a eqn:Ha.
  assert (G1 : ngood (NvEval x0 a :: tr0)) by (subst a; apply ngood_eval; exact G0).
  assert (N1 : nw_n_evals (NvEval x0 a :: tr0) = 1%nat /\ nw_n_hooks (NvEval x0 a :: tr0) = 0%nat /\
               nw_n_dirs (NvEval x0 a :: tr0) = 0%nat).
  { unfold nw_n_evals, nw_n_hooks, nw_n_dirs in *; simpl; lia. }
  destruct N1 as (N1e & N1h & N1d).
  destruct (n_err a) eqn:He; cbn [fst snd].
  { apply nosuccess_final; auto; lia. }
  assert (Acc1 : nw_accepted (nw_cons P) (NvEval x0 a :: tr0) x0)
    by (eapply nacc_next; [apply next_step | exact Acc0]).
  pose proof (nw_loop_ok fuel 0 x0 a (NvEval x0 a :: tr0) G1 eq_refl He Acc1) as L.
  destruct L as (G4 & E4 & S4 & A4 & P4 & K1 & K2 & K3).
  rewrite N1e in K1. rewrite N1h in K2. rewrite N1d in K3. rewrite Z.sub_0_r in *.
  unfold nw_final. nsplit; auto; simpl; lia.
Qed.

(* ---------------------------------------------------------------- pure callbacks: re-evaluation *)

Lemma nwf_eval_answer (tr : nw_trace) x a : nwf tr -> In (NvEval x a) tr -> exists k, a = NF k x.
Proof.
  induction 1; intros Hin.
  - destruct Hin.
  - destruct Hin as [E | Hin]; [inversion E; subst; eauto | auto].
  - destruct Hin as [E | Hin]; [discriminate | auto].
  - destruct Hin as [E | Hin]; [discriminate | auto].
  - destruct Hin as [E | Hin]; [discriminate | auto].
Qed.
Lemma nwf_cons_answer (tr : nw_trace) x b : nwf tr -> In (NvCons x b) tr -> exists k, b = NCS k x.
Proof.
  induction 1; intros Hin.
  - destruct Hin.
  - destruct Hin as [E | Hin]; [discriminate | auto].
  - destruct Hin as [E | Hin]; [discriminate | auto].
  - destruct Hin as [E | Hin]; [discriminate | auto].
  - destruct Hin as [E | Hin]; [inversion E; subst; eauto | auto].
Qed.

Theorem nw_stop_pure (f : vec -> nw_answer (A := A)) eps (tr : nw_trace) x :
  (forall k y, NF k y = f y) -> nwf tr -> nw_stop_ok NM eps tr x ->
  n_err (f x) = false /\ ltb NM (norm NM (n_y (f x))) eps = true.
Proof.
  intros Hp W (a & L & He & Hn). apply last_eval_in in L.
  destruct (nwf_eval_answer _ _ _ W L) as [k ->]. rewrite Hp in *. auto.
Qed.
Theorem nw_hooks_pure (f : vec -> nw_answer (A := A)) (tr : nw_trace) h b :
  (forall k y, NF k y = f y) -> nwf tr -> nw_hooks_ok tr -> In (NvHook h b) tr ->
  nh_J h = n_J (f (nh_x h)) /\ nh_y h = n_y (f (nh_x h)).
Proof.
  intros Hp W H Hin. destruct (H h b Hin) as (a & Ha & _ & HJ & Hy).
  destruct (nwf_eval_answer _ _ _ W Ha) as [k ->]. rewrite Hp in *. auto.
Qed.
Theorem nw_accepted_pure (c : vec -> bool) (tr : nw_trace) x :
  (forall k y, NCS k y = c y) -> nwf tr -> nw_accepted true tr x -> c x = true.
Proof.
  intros Hp W H. specialize (H eq_refl).
  destruct (nwf_cons_answer _ _ _ W H) as [k Hk]. rewrite Hp in Hk. auto.
Qed.

(* ---------------------------------------------------------------- the statements of Props.v *)
Lemma newton_stop_l fuel x0 x tr :
  newton_root NM NF ND NHK NCS P fuel x0 = (NwConv x, tr) ->
  nwf tr /\ nw_stop_ok NM (nw_eps P) tr x.
Proof.
  intros H. pose proof (newton_root_ok fuel x0) as K.
  rewrite H in K. destruct K as ((W & _) & S & _). split; [exact W | apply S; reflexivity].
Qed.
Lemma newton_evaluated_l fuel x0 :
  nw_point_evaluated (snd (newton_root NM NF ND NHK NCS P fuel x0)) (fst (newton_root NM NF ND NHK NCS P fuel x0)).
Proof. apply (newton_root_ok fuel x0). Qed.
Lemma newton_hooks_l fuel x0 : nw_hooks_ok (snd (newton_root NM NF ND NHK NCS P fuel x0)).
Proof. apply (newton_root_ok fuel x0). Qed.
Lemma newton_cons_l fuel x0 :
  nw_point_accepted (nw_cons P) (snd (newton_root NM NF ND NHK NCS P fuel x0)) (fst (newton_root NM NF ND NHK NCS P fuel x0)).
Proof. apply (newton_root_ok fuel x0). Qed.
Lemma newton_caps_l fuel x0 :
  (nw_n_evals (snd (newton_root NM NF ND NHK NCS P fuel x0)) <= 1 + Z.to_nat (nw_maxit P))%nat /\
  (nw_n_hooks (snd (newton_root NM NF ND NHK NCS P fuel x0)) <= Z.to_nat (nw_maxit P))%nat /\
  (nw_n_dirs (snd (newton_root NM NF ND NHK NCS P fuel x0)) <= Z.to_nat (nw_maxit P))%nat.
Proof. apply (newton_root_ok fuel x0). Qed.

End PN.
