(* C07 — places where the code violates the property (F-LS-ZOOM-CONS, the uncapped inner
   loop of rprop) and REGRESSION witnesses of four defects that were repaired in /repo
   (c65a3ee, 8bc6fe7 dense rprop; f6a3a16 dense adam; c75edfb bfgs): concrete oracles on the
   faithful model, carrier = primitive binary64 floats, decided by computation.
   Each is reproduced on the Go implementation by corpus/C07/corpus.jsonl. *)
From Coq Require Import ZArith List Bool Floats.
From ADV Require Import Base.Num Base.Corr C07.Model C07.Spec C07.Corr.
Import ListNotations.
Open Scope float_scope.

Definition noHK : nat -> hookargs (A := float) -> bool := fun _ _ => false.
Definition noCS : nat -> list float -> bool := fun _ _ => true.

(* pure objective f(x) = x^2 in one dimension, through AD: value x*x, gradient [2x] *)
Definition sq (q : query (A := float)) : answer :=
  match q with
  | QGrad [x] => mkAns false (x * x) [2 * x]
  | QDir [x] [p] => mkAns false (x * x) [2 * x * p]
  | _ => mkAns true 0 []
  end.
Definition Fsq : nat -> query -> answer := fun _ => sq.

(* ---- regression (was F-RPROP-DENSE-STOP, fixed by c65a3ee): the returned point now passes *)
Definition P1 : rp_params := mkRp 0.5 1.25 0.5 0.25 100%Z false false.

Lemma rprop_dense_stop_regression :
  exists x tr, rprop_dense NumF Fsq noHK noCS P1 50 [1] = (Converged x, tr) /\
     PrimFloat.ltb (norm NumF (a_g (sq (QGrad x)))) (rp_eps P1) = true.
Proof. eexists; eexists; split; vm_compute; reflexivity. Qed.

(* ---- regression (was F-RPROP-DENSE-HOOK0, fixed by 8bc6fe7): the first hook call carries
   the gradient of x0 *)
Definition hook_gradients_honest (f : query -> answer) (tr : trace (A := float)) : bool :=
  forallb (fun e => match e with
                    | EvHook h _ => vfeqb (h_g h) (a_g (f (QGrad (h_x h))))
                    | _ => true end) tr.
Definition P2 : rp_params := mkRp 0.5 1.25 0.5 0.25 100%Z true false.

Lemma rprop_dense_first_hook_regression :
  hook_gradients_honest sq (snd (rprop_dense NumF Fsq noHK noCS P2 50 [1])) = true /\
  nth 1 (rev (snd (rprop_dense NumF Fsq noHK noCS P2 50 [1]))) (EvCons [] true)
    = EvHook (mkHook [1] [2] None [0.5]) false.   (* g = [2] = f'(1) passed for x = [1] *)
Proof. split; vm_compute; reflexivity. Qed.

(* the same oracle on rprop(): every hook call is honest and the returned point passes *)
Example rprop_same_oracle_ok :
  hook_gradients_honest sq (snd (rprop NumF Fsq noHK noCS P2 50 [1])) = true /\
  exists x tr, rprop NumF Fsq noHK noCS P2 50 [1] = (Converged x, tr) /\
     PrimFloat.ltb (norm NumF (a_g (sq (QGrad x)))) (rp_eps P2) = true.
Proof. split; [vm_compute; reflexivity | eexists; eexists; split; vm_compute; reflexivity]. Qed.

(* ---- regression (was F-BFGS-CONS, fixed by c75edfb): the constraints reach the line search;
   the old witness now ends with an error at the boundary instead of returning the rejected 3 *)
Definition submitted_and_accepted (tr : trace (A := float)) (x : list float) : bool :=
  existsb (fun e => match e with EvCons x' true => vfeqb x x' | _ => false end) tr.
(* f(x) = (x-3)^2 *)
Definition sh (q : query (A := float)) : answer :=
  match q with
  | QGrad [x] => mkAns false ((x - 3) * (x - 3)) [2 * (x - 3)]
  | QDir [x] [p] => mkAns false ((x - 3) * (x - 3)) [2 * (x - 3) * p]
  | _ => mkAns true 0 []
  end.
Definition le1 : nat -> list float -> bool := fun _ x => match x with [v] => PrimFloat.leb v 1 | _ => false end.
Definition P3 : bf_params := mkBf 0x1p-20 50%Z false true [[1]].

Lemma bfgs_constraints_regression :
  exists x tr, bfgs NumF KF (fun _ => sh) noHK le1 P3 400 [0] = (Err x, tr) /\
     le1 0%nat x = true /\ submitted_and_accepted tr x = true.
Proof. eexists; eexists; split; [vm_compute; reflexivity | split; vm_compute; reflexivity]. Qed.

(* ---- F-LS-ZOOM-CONS: zoom never submits its trial steps to the constraint callback *)
(* phi(a) = -a + 2 a^2,  Alpha1 = 1, constraint 0.875 <= a <= 1.125 *)
Definition phi (q : query (A := float)) : answer :=
  match q with
  | QGrad [a] => mkAns false (- a + 2 * a * a) [-1 + 4 * a]
  | _ => mkAns true 0 []
  end.
Definition near1 : nat -> list float -> bool :=
  fun _ x => match x with [v] => PrimFloat.leb 0.875 v && PrimFloat.leb v 1.125 | _ => false end.

Lemma linesearch_constraints_refuted :
  exists al tr, line_search_run NumF KF (fun _ => phi) noHK near1 false true 100 1 20%Z = (LSConv al, tr) /\
     near1 0%nat [al] = false /\ submitted_and_accepted tr [al] = false.
Proof. eexists; eexists; split; [vm_compute; reflexivity | split; vm_compute; reflexivity]. Qed.

(* ---- no iteration cap: the inner "for { }" of rprop() never ends when the objective
   fails everywhere but at x0 (every fuel is exhausted) — checked here for fuel 400 *)
Definition fail_after_first : nat -> query (A := float) -> answer :=
  fun k q => match k with O => sq q | _ => mkAns true 0 [] end.
Lemma rprop_inner_loop_uncapped_refuted :
  forall fuel, In fuel [1; 10; 100; 400; 1500]%nat ->
  fst (rprop NumF fail_after_first noHK noCS (mkRp 0.5 1.25 0.5 0.25 1%Z false false) fuel [1]) = OutOfFuel.
Proof. intros fuel H. simpl in H. repeat (destruct H as [<- | H]; [vm_compute; reflexivity|]). destruct H. Qed.

(* ---- regression (was F-ADAM-CAP-CONS, fixed by f6a3a16): at the iteration cap adam returns
   the last evaluated and accepted point *)
Definition ge1 : nat -> list float -> bool := fun _ x => match x with [v] => PrimFloat.leb 1 v | _ => false end.
Definition P4 : ad_params := mkAd 0x1.0624dd2f1a9fcp-10 0.5 0.5 0x1p-20 0x1.5798ee2308c3ap-27 1%Z false true.
Lemma adam_cap_constraints_regression :
  exists x tr, adam_dense NumF Fsq noHK ge1 P4 10 [1] = (Cap x, tr) /\
     ge1 0%nat x = true /\ submitted_and_accepted tr x = true.
Proof. eexists; eexists; split; [vm_compute; reflexivity | split; vm_compute; reflexivity]. Qed.
