(* C02, round 7 — the INTEGER receivers at the two places where an integer type meets float operands:
   (1) Pow / POW: the power is taken of the operands' float64 readings (Ext.epow, the whole table) and truncated toward
       zero afterwards — never of a truncated base; negative integral exponents give 0 for |x| >= 2, 1 for x = 1;
   (2) LogAdd / LogSub with -oo (the neutral element of the log-scale sum) held in a float operand: the result is the other
       operand as the receiver reads it; the infinity is never converted to an integer.
   Carrier ER (Ext.CarE), every integer-based receiver type. *)
From Coq Require Import Reals ZArith List Bool Lra Lia.
From ADV Require Import Base.Num C02.Model C02.Spec C02.ProofsInt C02.ProofsReal C02.Ext C02.ProofsExt C02.ProofsPow.
Import ListNotations.
Open Scope R_scope.

Definition ibase (t : ty) : Prop := is_fbase (base_of t) = false.

Section R7.
Variable sp : specials.
Let C := CarE sp.

(* ---- (1) Pow *)
Lemma int_pow_ext t a k : ibase t ->
  pow C t a k = (z <- f2i C (bits (base_of t)) (epow (getf64 C a) (getf64 C k)) ;; Val (VI z)).
Proof. unfold ibase, pow, store. destruct (base_of t); simpl; intros H; try discriminate; reflexivity. Qed.

Lemma int_pow_finite t a k r : ibase t -> epow (getf64 C a) (getf64 C k) = EFin r ->
  inrange (bits (base_of t)) (Rtrunc r) = true -> pow C t a k = Val (VI (Rtrunc r)).
Proof.
  intros Ht E I. rewrite int_pow_ext by assumption. rewrite E. unfold f2i. cbn [ctoZ C CarE]. rewrite I. reflexivity.
Qed.

Lemma ibase_inrange0 t : ibase t -> inrange (bits (base_of t)) 0 = true.
Proof. unfold ibase. destruct (base_of t); simpl; intros H; try discriminate; reflexivity. Qed.
Lemma ibase_inrange1 t : ibase t -> inrange (bits (base_of t)) 1 = true.
Proof. unfold ibase. destruct (base_of t); simpl; intros H; try discriminate; reflexivity. Qed.

Lemma Rtrunc_open_unit y : -1 < y < 1 -> Rtrunc y = 0%Z.
Proof.
  intros [H0 H1]. destruct (Rle_dec 0 y) as [P|N].
  - apply Rtrunc_small. lra.
  - unfold Rtrunc. destruct (Rle_dec 0 y); [contradiction|].
    assert (E : Int_part (- y) = 0%Z).
    { unfold Int_part. replace (up (- y)) with (0 + 1)%Z; [reflexivity|]. apply up_tech; simpl; lra. }
    rewrite E. reflexivity.
Qed.
Lemma Rtrunc_IZR z : Rtrunc (IZR z) = z.
Proof.
  unfold Rtrunc. destruct (Rle_dec 0 (IZR z)).
  - apply Int_part_IZR.
  - rewrite <- opp_IZR, Int_part_IZR. lia.
Qed.
Lemma Rtrunc_floor y z : 0 <= y -> IZR z <= y < IZR z + 1 -> Rtrunc y = z.
Proof.
  intros P [L U]. unfold Rtrunc. destruct (Rle_dec 0 y); [|contradiction].
  unfold Int_part. replace (up y) with (z + 1)%Z; [ring|]. apply tech_up; rewrite plus_IZR; simpl; lra.
Qed.

(* |x| >= 2, n < 0: |x^n| <= 1/2 *)
Lemma epow_int_negative_small x n : (2 <= x \/ x <= -2)%Z -> (n < 0)%Z ->
  exists r, epow (EFin (IZR x)) (EFin (IZR n)) = EFin r /\ -1 < r < 1.
Proof.
  intros Hx Hn.
  assert (Hn' : IZR n <= -1). { apply IZR_le. lia. }
  destruct Hx as [Hx|Hx].
  - assert (X : 2 <= IZR x). { apply IZR_le. assumption. }
    rewrite epow_positive by lra. eexists; split; [reflexivity|].
    pose proof (exp_pos (IZR n * ln (IZR x))) as P.
    assert (L : 0 < ln (IZR x)). { rewrite <- ln_1. apply ln_increasing; lra. }
    assert (M : IZR n * ln (IZR x) < 0). { nra. }
    assert (E : exp (IZR n * ln (IZR x)) < 1). { rewrite <- exp_0. apply exp_increasing. assumption. }
    lra.
  - assert (X : IZR x <= -2). { apply IZR_le. assumption. }
    rewrite epow_negative_integer by lra. eexists; split; [reflexivity|].
    destruct n as [|p|p]; [lia|lia|]. cbn [powerRZ].
    set (m := Pos.to_nat p). assert (Hm : (0 < m)%nat) by (subst m; apply Pos2Nat.is_pos).
    assert (A : 1 < Rabs (IZR x)). { rewrite Rabs_left by lra. lra. }
    pose proof (Rlt_pow_R1 _ _ A Hm) as B. rewrite RPow_abs in B.
    assert (NZ : IZR x ^ m <> 0). { intros Z. rewrite Z, Rabs_R0 in B. lra. }
    assert (D : Rabs (/ IZR x ^ m) < 1).
    { rewrite Rabs_inv. rewrite <- Rinv_1. apply Rinv_lt_contravar; [rewrite Rmult_1_l|]; lra. }
    apply Rabs_def2 in D. lra.
Qed.

Lemma int_pow_negative_exponent t x n : ibase t -> (2 <= x \/ x <= -2)%Z -> (n < 0)%Z ->
  pow C t (VI x) (VI n) = Val (VI 0).
Proof.
  intros Ht Hx Hn. destruct (epow_int_negative_small x n Hx Hn) as [r [E R]].
  rewrite (int_pow_finite t (VI x) (VI n) r Ht).
  - rewrite (Rtrunc_open_unit r R). reflexivity.
  - exact E.
  - rewrite (Rtrunc_open_unit r R). apply ibase_inrange0. assumption.
Qed.

(* 1^k = 1 for every exponent (also NaN and the infinities held in a float operand) *)
Lemma int_pow_unit_base t k : ibase t -> pow C t (VI 1) k = Val (VI 1).
Proof.
  intros Ht. rewrite (int_pow_finite t (VI 1) k 1 Ht).
  - change 1 with (IZR 1). rewrite Rtrunc_IZR. reflexivity.
  - cbn [getf64 cofZ64 C CarE]. apply epow_one_base.
  - change 1 with (IZR 1). rewrite Rtrunc_IZR. apply ibase_inrange1. assumption.
Qed.

(* a positive NON-INTEGRAL base held in a float operand is not truncated before the power is taken *)
Lemma int_pow_float_base t x (n : nat) : ibase t -> 0 < x ->
  inrange (bits (base_of t)) (Rtrunc (x ^ n)) = true ->
  pow C t (VF (EFin x)) (VI (Z.of_nat n)) = Val (VI (Rtrunc (x ^ n))).
Proof.
  intros Ht P I. apply int_pow_finite; [assumption| |assumption].
  cbn [getf64 cofZ64 C CarE]. rewrite epow_positive by assumption.
  rewrite <- INR_IZR_INZ. fold (Rpower x (INR n)). rewrite Rpower_pow by assumption. reflexivity.
Qed.

Lemma int_pow_two_and_a_half_squared t : ibase t ->
  pow C t (VF (EFin (5 / 2))) (VI 2) = Val (VI 6) /\ pow C t (VI 2) (VI 2) = Val (VI 4).
Proof.
  intros Ht.
  assert (T6 : Rtrunc ((5 / 2) ^ 2) = 6%Z). { apply Rtrunc_floor; simpl; lra. }
  assert (T4 : Rtrunc (2 ^ 2) = 4%Z). { apply Rtrunc_floor; simpl; lra. }
  assert (I6 : inrange (bits (base_of t)) 6 = true).
  { unfold ibase in Ht. destruct (base_of t); simpl in *; try discriminate; reflexivity. }
  assert (I4 : inrange (bits (base_of t)) 4 = true).
  { unfold ibase in Ht. destruct (base_of t); simpl in *; try discriminate; reflexivity. }
  split.
  - change (pow C t (VF (EFin (5 / 2))) (VI (Z.of_nat 2)) = Val (VI 6)).
    rewrite int_pow_float_base; rewrite ?T6; try assumption; [reflexivity | lra].
  - rewrite (int_pow_finite t (VI 2) (VI 2) (2 ^ 2) Ht); rewrite ?T4; try assumption; [reflexivity|].
    cbn [getf64 cofZ64 C CarE]. rewrite epow_positive by lra.
    change (IZR 2) with (INR 2) at 1. fold (Rpower 2 (INR 2)). rewrite Rpower_pow by lra. reflexivity.
Qed.

(* 0.5^-2 = 4: negative integral exponent with a float base below one *)
Lemma int_pow_half_minus_two t : ibase t -> pow C t (VF (EFin (/ 2))) (VI (-2)) = Val (VI 4).
Proof.
  intros Ht.
  assert (E : epow (EFin (/ 2)) (EFin (IZR (-2))) = EFin 4).
  { rewrite epow_positive by lra. f_equal.
    replace (IZR (-2) * ln (/ 2)) with (INR 2 * ln 2) by (rewrite ln_Rinv by lra; simpl; lra).
    fold (Rpower 2 (INR 2)). rewrite Rpower_pow by lra. simpl. lra. }
  assert (T4 : Rtrunc 4 = 4%Z). { apply Rtrunc_floor; simpl; lra. }
  rewrite (int_pow_finite t _ _ 4 Ht); rewrite ?T4.
  - reflexivity.
  - exact E.
  - unfold ibase in Ht. destruct (base_of t); simpl in *; try discriminate; reflexivity.
Qed.

(* ---- (2) LogAdd / LogSub: -oo in a float operand *)
Lemma eltb_ninf_right x : eltb x ENInf = false.
Proof. destruct x; reflexivity. Qed.

Lemma logadd_ninf_left tc tq ta b : fty ta ->
  logadd C tc tq (ta, VF ENInf) b = set C tc (snd b).
Proof.
  intros Ha. unfold logadd. cbn [fst snd].
  assert (E : cmp C ta RGt (VF ENInf) (snd b) = Val false).
  { unfold fty, is_float_ty in Ha. unfold cmp. destruct (base_of ta); simpl in Ha; try discriminate;
      cbn [getf64 getf32 cr32 cltb C CarE]; rewrite eltb_ninf_right; reflexivity. }
  rewrite E. cbn [bind getf64 snd cisinf C CarE eisinf]. reflexivity.
Qed.
Lemma logadd_ninf_right tc tq ta tb x : fty ta ->
  logadd C tc tq (ta, VF (EFin x)) (tb, VF ENInf) = set C tc (VF (EFin x)).
Proof.
  intros Ha. unfold logadd. cbn [fst snd].
  assert (E : cmp C ta RGt (VF (EFin x)) (VF ENInf) = Val true).
  { unfold fty, is_float_ty in Ha. unfold cmp. destruct (base_of ta); simpl in Ha; try discriminate; reflexivity. }
  rewrite E. cbn [bind getf64 snd cisinf C CarE eisinf]. reflexivity.
Qed.
Lemma logsub_ninf tc tq a tb : logsub C tc tq a (tb, VF ENInf) = set C tc (snd a).
Proof. unfold logsub. cbn [fst snd getf64 cisinf C CarE eisinf]. reflexivity. Qed.

(* the integer receivers: the other operand as the receiver reads it *)
Lemma int_logadd_neutral_int tc tq ta tb z : ibase tc -> fty ta ->
  logadd C tc tq (ta, VF ENInf) (tb, VI z) = Val (VI (wrap (bits (base_of tc)) z)).
Proof.
  intros Hc Ha. rewrite logadd_ninf_left by assumption. cbn [snd]. unfold set, get, ibase in *.
  destruct (base_of tc); simpl in *; try discriminate; reflexivity.
Qed.
Lemma int_logadd_neutral_float tc tq ta tb x : ibase tc -> fty ta -> inrange (bits (base_of tc)) (Rtrunc x) = true ->
  logadd C tc tq (ta, VF ENInf) (tb, VF (EFin x)) = Val (VI (Rtrunc x))
  /\ logadd C tc tq (ta, VF (EFin x)) (tb, VF ENInf) = Val (VI (Rtrunc x))
  /\ logsub C tc tq (ta, VF (EFin x)) (tb, VF ENInf) = Val (VI (Rtrunc x)).
Proof.
  intros Hc Ha I. rewrite logadd_ninf_left, logadd_ninf_right, logsub_ninf by assumption. cbn [snd].
  assert (S : set C tc (VF (EFin x)) = Val (VI (Rtrunc x))).
  { unfold set, get, ibase in *. destruct (base_of tc); simpl in *; try discriminate;
      unfold f2i; cbn [ctoZ C CarE]; rewrite I; reflexivity. }
  rewrite S. auto.
Qed.
Lemma int_logsub_neutral_int tc tq ta tb z : ibase tc ->
  logsub C tc tq (ta, VI z) (tb, VF ENInf) = Val (VI (wrap (bits (base_of tc)) z)).
Proof.
  intros Hc. rewrite logsub_ninf. cbn [snd]. unfold set, get, ibase in *.
  destruct (base_of tc); simpl in *; try discriminate; reflexivity.
Qed.

(* ---- (3) pairs of infinities on the float receivers, spelled out *)
Lemma ext_log_scale_infinite_pairs tc tq ta tb : fty tc -> fty tq -> fty ta ->
  logadd C tc tq (ta, VF EPInf) (tb, VF EPInf) = Val (VF EPInf)
  /\ logadd C tc tq (ta, VF EPInf) (tb, VF ENInf) = Val (VF EPInf)
  /\ logadd C tc tq (ta, VF ENInf) (tb, VF EPInf) = Val (VF EPInf)
  /\ logadd C tc tq (ta, VF ENInf) (tb, VF ENInf) = Val (VF ENInf)
  /\ logsub C tc tq (ta, VF EPInf) (tb, VF EPInf) = Val (VF ENaN)
  /\ logsub C tc tq (ta, VF EPInf) (tb, VF ENInf) = Val (VF EPInf)
  /\ logsub C tc tq (ta, VF ENInf) (tb, VF EPInf) = Val (VF ENaN).
Proof.
  intros Hc Hq Ha. unfold C. rewrite !ext_logadd, !ext_logsub by assumption.
  unfold elogadd_spec, elogsub_spec. cbn [eexp eadd esub eneg eln].
  destruct (Req_EM_T (0 + 0) 0) as [_|N]; [|exfalso; apply N; lra]. repeat split.
Qed.
Lemma ext_logadd_pinf_finite tc tq ta tb x : fty tc -> fty tq -> fty ta ->
  logadd C tc tq (ta, VF EPInf) (tb, VF (EFin x)) = Val (VF EPInf)
  /\ logadd C tc tq (ta, VF (EFin x)) (tb, VF EPInf) = Val (VF EPInf)
  /\ logsub C tc tq (ta, VF EPInf) (tb, VF (EFin x)) = Val (VF EPInf)
  /\ logsub C tc tq (ta, VF (EFin x)) (tb, VF EPInf) = Val (VF ENaN).
Proof.
  intros Hc Hq Ha. unfold C. rewrite !ext_logadd, !ext_logsub by assumption.
  unfold elogadd_spec, elogsub_spec. cbn [eexp eadd esub eneg eln]. repeat split.
Qed.

End R7.
