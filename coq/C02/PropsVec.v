(* C02, round 5 — the scalar methods that take a VECTOR or MATRIX operand return the named function of ALL
   elements of the operand, for every representation of the operand (coq/C02/ModelVec.v):
   dense, sparse (stored entries incl. explicit zeros; implicit zeros everywhere else), slices of either,
   rows / columns / diagonals of dense, sparse, transposed and sliced matrices.
   [velems x] / [mat_at a i j] is the abstract element sequence (x.ConstAt(i) for i < x.Dim());
   the model of each call ([vrun]) reads the operand the way the Go method does (index loop, or the
   iterator that skips the zeros of a sparse operand for Vnorm) and is tied to /repo by bit-exact replay
   on dense, sparse and view operands for all nine receiver types.
   Carrier XR (reals + -oo) resp. ER (reals, +-oo, NaN: needed where an implicit zero meets a logarithm);
   all four float receiver / temporary types; universally over the opaque special functions sp. *)
From Coq Require Import Reals ZArith List Bool Lra.
From ADV Require Import Base.Num C02.Model C02.ModelVec C02.Spec C02.ProofsReal C02.ProofsRed C02.Ext C02.ProofsExt C02.ProofsVec.
Import ListNotations.
Open Scope R_scope.

(* ---- what the elements of an operand are *)
Theorem C02_sparse_vector_has_n_elements : forall (E : Type) (z : E) n ent, length (velems (VSparse z n ent)) = n.
Proof. exact @velems_sparse_length. Qed.
Theorem C02_sparse_vector_element : forall (E : Type) (z : E) n ent i d, (i < n)%nat ->
  nth i (velems (VSparse z n ent)) d = match lookup1 i ent with Some x => x | None => z end.
Proof. exact @velems_sparse_nth. Qed.
Theorem C02_slice_elements : forall (E : Type) (v : vrep E) i j, velems (VSlice v i j) = firstn (j - i) (skipn i (velems v)).
Proof. exact @velems_slice. Qed.
Theorem C02_row_element : forall (E : Type) (a : mrep E) i j d, (j < snd (mdims a))%nat -> nth j (velems (VRow a i)) d = mat_at a i j.
Proof. exact @velems_row_nth. Qed.
Theorem C02_matrix_elements_row_major : forall (E : Type) (a : mrep E) i j d, (i < fst (mdims a))%nat -> (j < snd (mdims a))%nat ->
  nth (i * snd (mdims a) + j) (melems a) d = mat_at a i j.
Proof. exact @melems_nth. Qed.
Theorem C02_transposed_element : forall (E : Type) (a : mrep E) i j, mat_at (MT a) i j = mat_at a j i.
Proof. exact @mat_at_T. Qed.
Theorem C02_matrix_slice_element : forall (E : Type) (a : mrep E) r0 r1 c0 c1 i j,
  mat_at (MSlice a r0 r1 c0 c1) i j = mat_at a (r0 + i) (c0 + j).
Proof. exact @mat_at_slice. Qed.
Theorem C02_sparse_matrix_element : forall (E : Type) (z : E) n m ent i j,
  mat_at (MSparse z n m ent) i j = match lookup2 i j ent with Some v => v | None => z end.
Proof. exact @mat_at_sparse. Qed.

(* ---- the named functions of ALL elements, every representation *)
Theorem C02_vec_smoothmax : forall sp tr t0 t1 alpha (x : vrep R), fty tr -> fty t0 -> fty t1 ->
  vrun (CarX sp) (VcSmoothMax tr t0 t1 (vmap inj x) (Some alpha)) = OVal tr (VF (Some (smoothmax_spec alpha (velems x)))).
Proof. exact vec_smoothmax. Qed.
Theorem C02_vec_logsmoothmax_positive : forall sp tr t0 t1 t2 tx alpha (x : vrep R) e es,
  fty tr -> fty t0 -> fty t1 -> fty t2 -> velems x = e :: es -> List.Forall (fun x => 0 < x) (velems x) ->
  vrun (CarX sp) (VcLogSmoothMax tr t0 t1 t2 tx (vmap inj x) (Some alpha)) = OVal tr (VF (Some (smoothmax_spec alpha (velems x)))).
Proof. exact vec_logsmoothmax. Qed.
(* operands with zeros (every sparse operand with an implicit zero): each zero adds e^(alpha 0) = 1 to the denominator *)
Theorem C02_vec_ext_smoothmax : forall sp tr t0 t1 alpha (x : vrep R) e es, fty tr -> fty t0 -> fty t1 -> velems x = e :: es ->
  vrun (CarE sp) (VcSmoothMax tr t0 t1 (vmap einj x) (EFin alpha)) = OVal tr (VF (EFin (smoothmax_spec alpha (velems x)))).
Proof. exact vec_ext_smoothmax. Qed.
Theorem C02_vec_ext_logsmoothmax_nonnegative : forall sp tr t0 t1 t2 tx alpha (x : vrep R) e es,
  fty tr -> fty t0 -> fty t1 -> fty t2 -> velems x = e :: es -> List.Forall (fun x => 0 <= x) (velems x) ->
  vrun (CarE sp) (VcLogSmoothMax tr t0 t1 t2 tx (vmap einj x) (EFin alpha)) = OVal tr (VF (EFin (smoothmax_spec alpha (velems x)))).
Proof. exact vec_ext_logsmoothmax. Qed.
Theorem C02_vec_vmean : forall sp tr (x : vrep R), fty tr ->
  vrun (CarX sp) (VcVmean tr (vmap inj x)) = OVal tr (VF (Some (Rsum (velems x) / INR (length (velems x))))).
Proof. exact vec_vmean. Qed.
Theorem C02_vec_vdotv : forall sp tr (x y : vrep R), fty tr -> length (velems x) = length (velems y) ->
  vrun (CarX sp) (VcVdotV tr (vmap inj x) (vmap inj y)) = OVal tr (VF (Some (dot (velems x) (velems y)))).
Proof. exact vec_vdotv. Qed.
(* Vnorm walks the operand's iterator (a sparse operand yields its non-null stored entries only) and still returns
   the Euclidean norm of all elements *)
Theorem C02_vec_vnorm : forall sp tr (x : vrep R), fty tr ->
  vrun (CarX sp) (VcVnorm tr (vmap inj x)) = OVal tr (VF (Some (sqrt (sumsq (velems x))))).
Proof. exact vec_vnorm. Qed.
Theorem C02_mat_mtrace : forall sp tr (a : mrep R) n, fty tr -> n <> O -> mdims a = (n, n) ->
  vrun (CarX sp) (VcMtrace tr (mmap inj a)) = OVal tr (VF (Some (Rsum (mdiag a)))).
Proof. exact mat_mtrace. Qed.
Theorem C02_mat_mtrace_not_square_panics : forall sp tr (a : mrep (sval XR)), fst (mdims a) <> snd (mdims a) ->
  vrun (CarX sp) (VcMtrace tr a) = OPanic.
Proof. exact mat_mtrace_not_square. Qed.
(* Mnorm = sum of squares of all elements (not the Frobenius norm: known finding F-MNORM-SQRT) *)
Theorem C02_mat_mnorm_is_sum_of_squares : forall sp tr (a : mrep R), fty tr -> fst (mdims a) <> O -> snd (mdims a) <> O ->
  vrun (CarX sp) (VcMnorm tr (mmap inj a)) = OVal tr (VF (Some (sumsq (melems a)))).
Proof. exact mat_mnorm. Qed.

(* non-vacuity: a sparse vector of dimension 4 with one stored entry and one explicit zero has four elements, three of them
   zero; its iterator visits one; a slice cuts implicit zeros in; a column of a transposed slice of a sparse matrix *)
Example C02_vec_nonvacuous :
  velems (VSparse 0 4 [(2%nat, 3); (1%nat, 0)]) = [0; 0; 3; 0]
  /\ visited rnull (VSparse 0 4 [(2%nat, 3); (1%nat, 0)]) = [3]
  /\ velems (VSlice (VSparse 0 5 [(4%nat, 7); (0%nat, 5)]) 1 5) = [0; 0; 0; 7]
  /\ velems (VCol (MT (MSlice (MSparse 0 3 3 [(1%nat, 2%nat, 9)]) 1 3 0 3)) 0) = [0; 0; 9]
  /\ mdims (MT (MSlice (MSparse 0 3 3 [(1%nat, 2%nat, 9)]) 1 3 0 3)) = (3%nat, 2%nat).
Proof.
  unfold visited, rnull. cbn. unfold Reqb.
  destruct (Req_EM_T 0 0) as [_|N]; [|exfalso; apply N; reflexivity].
  destruct (Req_EM_T 3 0) as [E|_]; [exfalso; lra|]. cbn. repeat split; reflexivity.
Qed.
Print Assumptions C02_vec_vnorm.
Print Assumptions C02_vec_ext_logsmoothmax_nonnegative.
