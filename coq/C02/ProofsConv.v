(* C02 lemmas: conversions / constructors, "tracking derivatives does not change values"
   (Real64 value path = Float64 value path, for every carrier), and the refutations that
   document the genuine defects of the unchanged library. *)
From Coq Require Import Reals ZArith List Bool Lra Lia.
From ADV Require Import Base.Num C02.Model C02.Spec C02.ProofsInt C02.ProofsReal.
Import ListNotations.
Open Scope Z_scope.

Lemma ty_eqb_refl t : ty_eqb t t = true.
Proof. destruct t; reflexivity. Qed.
Lemma ty_eqb_eq t u : ty_eqb t u = true -> t = u.
Proof. destruct t, u; simpl; intros; try discriminate; reflexivity. Qed.
Lemma ty_eqb_neq t u : t <> u -> ty_eqb t u = false.
Proof. intros H. destruct (ty_eqb t u) eqn:E; auto. apply ty_eqb_eq in E. contradiction. Qed.

Section Conv.
Context {A : Type} (C : Car A).
Hypothesis zero_trunc : ctoZ C (clit C L0) = Some 0.

Lemma null_scalar_ok t : registered t = true -> exists v, null_scalar C t = Val (t, v).
Proof.
  intros R. unfold null_scalar, new_scalar. rewrite R. unfold store, f2i. rewrite zero_trunc.
  destruct t; simpl in *; try discriminate; eexists; reflexivity.
Qed.

(* ConvertScalar: the requested type, holding the operand read through that type's getter *)
Lemma convert_scalar_spec a t : registered t = true ->
  convert_scalar C a t = if ty_eqb t (fst a) then Val a else (v <- get C (base_of t) (snd a) ;; Val (t, v)).
Proof.
  intros R. unfold convert_scalar. destruct (ty_eqb t (fst a)); [reflexivity|].
  destruct (null_scalar_ok t R) as [v ->]. reflexivity.
Qed.
Lemma convert_scalar_type a t r : registered t = true -> convert_scalar C a t = Val r -> fst r = t.
Proof.
  intros R. rewrite convert_scalar_spec by auto.
  destruct (ty_eqb t (fst a)) eqn:E.
  - intros H; inversion H; subst. symmetry. apply ty_eqb_eq. exact E.
  - destruct (get C (base_of t) (snd a)); simpl; intros H; inversion H; reflexivity.
Qed.
Lemma convert_scalar_unregistered a t : registered t = false -> t <> fst a -> convert_scalar C a t = Panic.
Proof.
  intros R N. unfold convert_scalar. rewrite ty_eqb_neq by auto.
  unfold null_scalar, new_scalar. rewrite R. reflexivity.
Qed.

(* ConvertConstScalar goes through float64 and NewConstScalar *)
Lemma convert_const_scalar_spec a t : registered t = true -> t <> fst a ->
  convert_const_scalar C a t = (v <- store C (base_of t) (getf64 C (snd a)) ;; Val (t, v)).
Proof.
  intros R N. unfold convert_const_scalar. rewrite ty_eqb_neq by auto.
  unfold new_const_scalar. rewrite R. reflexivity.
Qed.
(* F-NEWCONST: NewConstScalar consults the registry of the mutable types, so the seven constant
   types — the only ones registered as ConstScalar constructors — cannot be constructed *)
Lemma new_const_scalar_refuted t x : is_const t = true -> new_const_scalar C t x = Panic.
Proof. intros H. unfold new_const_scalar, registered. rewrite H. reflexivity. Qed.
Lemma convert_const_scalar_refuted a t : is_const t = true -> t <> fst a -> convert_const_scalar C a t = Panic.
Proof.
  intros H N. unfold convert_const_scalar. rewrite ty_eqb_neq by auto. apply new_const_scalar_refuted; auto.
Qed.

(* ConvertMagicScalar converts into a temporary and returns the receiver *)
Lemma convert_magic_scalar_refuted a t r : convert_magic_scalar C a t = Val r -> r = a.
Proof.
  unfold convert_magic_scalar. destruct (ty_eqb t (fst a)); [intros H; inversion H; reflexivity|].
  destruct (null_scalar C t); simpl; try discriminate.
  destruct (set C t (snd a)); simpl; try discriminate. intros H; inversion H; reflexivity.
Qed.

(* ---- Real64 value path = Float64 value path (every carrier) *)
Lemma real64_arith o a b : arith C TReal64 o a b = arith C TFloat64 o a b.
Proof. reflexivity. Qed.
Lemma real64_un f a : un C TReal64 f a = un C TFloat64 f a.
Proof. reflexivity. Qed.
(* the concrete SQRT is the one method whose two bodies differ (math.Pow(x, 0.5) vs math.Sqrt(x)) *)
Lemma real64_run_un o a : o <> USQRT -> run_un C o TReal64 a = run_un C o TFloat64 a.
Proof. intros N. destruct o; try reflexivity. contradiction. Qed.
Lemma real64_run_bin o a b : run_bin C o TReal64 a b = run_bin C o TFloat64 a b.
Proof. destruct o; reflexivity. Qed.
Lemma real64_logadd a b : logadd C TReal64 TReal64 a b = logadd C TFloat64 TFloat64 a b.
Proof. reflexivity. Qed.
Lemma real64_logsub a b : logsub C TReal64 TReal64 a b = logsub C TFloat64 TFloat64 a b.
Proof. reflexivity. Qed.
Lemma real64_sigmoid a : sigmoid C TReal64 TReal64 a = sigmoid C TFloat64 TFloat64 a.
Proof. reflexivity. Qed.
Lemma real64_par f p a : par C TReal64 f p a = par C TFloat64 f p a.
Proof. reflexivity. Qed.
Lemma real64_sum_loop xs r : sum_loop C TReal64 xs r = sum_loop C TFloat64 xs r.
Proof. revert r. induction xs as [|x xs IH]; intros r; [reflexivity|]. cbn. apply IH. Qed.
Lemma real64_vmean xs : vmean C TReal64 xs = vmean C TFloat64 xs.
Proof. unfold vmean. rewrite real64_sum_loop. reflexivity. Qed.
Lemma real64_vdotv_loop xs ys r : vdotv_loop C TReal64 xs ys r = vdotv_loop C TFloat64 xs ys r.
Proof.
  revert ys r. induction xs as [|x xs IH]; intros [|y ys] r; try reflexivity. cbn. apply IH.
Qed.
Lemma real64_vdotv xs ys : vdotv C TReal64 xs ys = vdotv C TFloat64 xs ys.
Proof. unfold vdotv. rewrite real64_vdotv_loop. reflexivity. Qed.
Lemma real64_sumsq_loop xs r : sumsq_loop C TReal64 xs r = sumsq_loop C TFloat64 xs r.
Proof. revert r. induction xs as [|x xs IH]; intros r; [reflexivity|]. cbn. apply IH. Qed.
Lemma real64_vnorm xs : vnorm C TReal64 xs = vnorm C TFloat64 xs.
Proof. unfold vnorm. rewrite real64_sumsq_loop. reflexivity. Qed.
Lemma real64_mnorm n m xs : mnorm C TReal64 n m xs = mnorm C TFloat64 n m xs.
Proof. unfold mnorm. destruct (_ || _); [reflexivity|]. destruct xs; [reflexivity|]. cbn. apply real64_sumsq_loop. Qed.
Lemma real64_mtrace n m xs : mtrace C TReal64 n m xs = mtrace C TFloat64 n m xs.
Proof. unfold mtrace. rewrite real64_sum_loop. reflexivity. Qed.
Lemma real64_smoothmax_loop al xs r s :
  smoothmax_loop C TReal64 TReal64 TReal64 al xs r s = smoothmax_loop C TFloat64 TFloat64 TFloat64 al xs r s.
Proof. revert r s. induction xs as [|x xs IH]; intros r s; [reflexivity|]. cbn. apply IH. Qed.
Lemma real64_smoothmax xs al :
  smoothmax C TReal64 TReal64 TReal64 xs al = smoothmax C TFloat64 TFloat64 TFloat64 xs al.
Proof. unfold smoothmax. rewrite real64_smoothmax_loop. reflexivity. Qed.

End Conv.

(* ---- concrete ABS (fix 2fc8894 in /repo): the sign of the ARGUMENT decides, the receiver's previous value is irrelevant *)
Lemma ABS_is_abs {A} (C : Car A) t cold a : ABS_ C t cold a = abs_ C t (t, a).
Proof. reflexivity. Qed.
Lemma ABS_ignores_receiver {A} (C : Car A) t cold cold' a : ABS_ C t cold a = ABS_ C t cold' a.
Proof. reflexivity. Qed.
Lemma ABS_named sp t cold x : fty t -> ABS_ (CarX sp) t cold (VF (Some x)) = Val (VF (Some (Rabs x))).
Proof. intros H. unfold ABS_. apply abs_named; auto. Qed.
Lemma ABS_int {A} (C : Car A) t cold x : int_ty t -> wrap (bits (base_of t)) x = x ->
  ABS_ C t cold (VI x) = Val (VI (wrap (bits (base_of t)) (Z.abs x))).
Proof. intros Ht Hx. unfold ABS_. apply int_abs; auto. destruct Ht; auto. Qed.
(* the witness of the retired finding F-ABS-CONCRETE (fresh receiver, operand -3) now gives 3 *)
Lemma ABS_regression sp : ABS_ (CarX sp) TFloat64 (VF (Some 0%R)) (VF (Some (-3)%R)) = Val (VF (Some 3%R)).
Proof. rewrite ABS_named by reflexivity. rewrite Rabs_left by lra. do 3 f_equal. lra. Qed.
