(* C02, round 5 — the vector / matrix taking scalar methods compute the named function of ALL elements of the
   operand, whatever its representation (dense, sparse with implicit and explicit zeros, views). *)
From Coq Require Import Reals ZArith List Bool Lra Lia.
From Coquelicot Require Import Coquelicot.
From ADV Require Import Base.Num C02.Model C02.ModelVec C02.Spec C02.ProofsReal C02.ProofsRed C02.Ext C02.ProofsExt.
Import ListNotations.

(* ------------------------------------------------------------------ representations, any element type *)
Section RepLemmas.
Context {E : Type}.

Lemma velems_sparse_length (z : E) n ent : length (velems (VSparse z n ent)) = n.
Proof. simpl. rewrite map_length, seq_length. reflexivity. Qed.

(* every position of a sparse vector is an element: the stored scalar, or the zero the container answers with *)
Lemma velems_sparse_nth (z : E) n ent i d : (i < n)%nat ->
  nth i (velems (VSparse z n ent)) d = match lookup1 i ent with Some x => x | None => z end.
Proof.
  intros Hi. simpl. set (g := fun i => match lookup1 i ent with Some x => x | None => z end).
  rewrite (nth_indep _ d (g O)) by (rewrite map_length, seq_length; exact Hi).
  rewrite (map_nth g). rewrite seq_nth by exact Hi. reflexivity.
Qed.

Lemma velems_slice (v : vrep E) i j : velems (VSlice v i j) = firstn (j - i) (skipn i (velems v)).
Proof. reflexivity. Qed.

Lemma velems_row_nth (a : mrep E) i j d : (j < snd (mdims a))%nat -> nth j (velems (VRow a i)) d = mat_at a i j.
Proof.
  intros Hj. simpl. rewrite (nth_indep _ d (mat_at a i O)) by (rewrite map_length, seq_length; exact Hj).
  rewrite (map_nth (mat_at a i)). rewrite seq_nth by exact Hj. reflexivity.
Qed.

Lemma mat_at_T (a : mrep E) i j : mat_at (MT a) i j = mat_at a j i.
Proof. reflexivity. Qed.
Lemma mat_at_slice (a : mrep E) r0 r1 c0 c1 i j : mat_at (MSlice a r0 r1 c0 c1) i j = mat_at a (r0 + i) (c0 + j).
Proof. reflexivity. Qed.
Lemma mat_at_sparse (z : E) n m ent i j :
  mat_at (MSparse z n m ent) i j = match lookup2 i j ent with Some v => v | None => z end.
Proof. reflexivity. Qed.

(* row-major enumeration *)
Lemma nth_flat_rows (g : nat -> nat -> E) m n s i j d : (i < n)%nat -> (j < m)%nat ->
  nth (i * m + j) (flat_map (fun i => map (g i) (seq 0 m)) (seq s n)) d = g (s + i)%nat j.
Proof.
  revert s i. induction n as [|n IH]; intros s i Hi Hj; [lia|].
  simpl. destruct i as [|i].
  - simpl. rewrite app_nth1 by (rewrite map_length, seq_length; exact Hj).
    rewrite (nth_indep _ d (g s O)) by (rewrite map_length, seq_length; exact Hj).
    rewrite (map_nth (g s)). rewrite seq_nth by exact Hj. rewrite Nat.add_0_r. reflexivity.
  - rewrite app_nth2 by (rewrite map_length, seq_length; simpl; lia).
    rewrite map_length, seq_length.
    replace (S i * m + j - m)%nat with (i * m + j)%nat by (simpl; lia).
    rewrite IH by lia. f_equal. lia.
Qed.
Lemma melems_nth (a : mrep E) i j d : (i < fst (mdims a))%nat -> (j < snd (mdims a))%nat ->
  nth (i * snd (mdims a) + j) (melems a) d = mat_at a i j.
Proof. intros Hi Hj. unfold melems. rewrite nth_flat_rows by assumption. reflexivity. Qed.
Lemma length_flat_rows (g : nat -> nat -> E) m n s :
  length (flat_map (fun i => map (g i) (seq 0 m)) (seq s n)) = (n * m)%nat.
Proof.
  revert s. induction n as [|n IH]; intros s; simpl; [reflexivity|].
  rewrite app_length, map_length, seq_length, IH. reflexivity.
Qed.
Lemma melems_length (a : mrep E) : length (melems a) = (fst (mdims a) * snd (mdims a))%nat.
Proof. apply length_flat_rows. Qed.
End RepLemmas.

Section MapLemmas.
Context {E F : Type} (f : E -> F).

Lemma lookup1_map i (ent : list (nat * E)) :
  lookup1 i (map (fun e => (fst e, f (snd e))) ent) = option_map f (lookup1 i ent).
Proof.
  induction ent as [|[k v] ent IH]; simpl; [reflexivity|].
  destruct (Nat.eqb k i); [reflexivity|exact IH].
Qed.
Lemma lookup2_map i j (ent : list (nat * nat * E)) :
  lookup2 i j (map (fun e => (fst e, f (snd e))) ent) = option_map f (lookup2 i j ent).
Proof.
  induction ent as [|[[k l] v] ent IH]; simpl; [reflexivity|].
  destruct (Nat.eqb k i && Nat.eqb l j); [reflexivity|exact IH].
Qed.
Lemma mdims_mmap (a : mrep E) : mdims (mmap f a) = mdims a.
Proof. induction a as [z n m xs|z n m ent|a IH|a IH r0 r1 c0 c1]; simpl; try reflexivity. rewrite IH. reflexivity. Qed.
Lemma msparse_mmap (a : mrep E) : msparse (mmap f a) = msparse a.
Proof. induction a; simpl; auto. Qed.
Lemma mat_at_mmap (a : mrep E) i j : mat_at (mmap f a) i j = f (mat_at a i j).
Proof.
  revert i j. induction a as [z n m xs|z n m ent|a IH|a IH r0 r1 c0 c1]; intros i j; simpl.
  - apply map_nth.
  - rewrite lookup2_map. destruct (lookup2 i j ent); reflexivity.
  - apply IH.
  - apply IH.
Qed.
Lemma melems_mmap (a : mrep E) : melems (mmap f a) = map f (melems a).
Proof.
  unfold melems. rewrite mdims_mmap. generalize (seq 0 (fst (mdims a))) as rows. intros rows.
  induction rows as [|i rows IH]; simpl; [reflexivity|].
  rewrite map_app, IH. f_equal. rewrite map_map. apply map_ext. intros j. apply mat_at_mmap.
Qed.
Lemma velems_vmap (v : vrep E) : velems (vmap f v) = map f (velems v).
Proof.
  induction v as [xs|z n ent|v IH i j|a i|a j|a]; simpl.
  - reflexivity.
  - rewrite map_map. apply map_ext. intros i. rewrite lookup1_map. destruct (lookup1 i ent); reflexivity.
  - rewrite IH. rewrite skipn_map, firstn_map. reflexivity.
  - rewrite mdims_mmap, map_map. apply map_ext. intros j. apply mat_at_mmap.
  - rewrite mdims_mmap, map_map. apply map_ext. intros k. apply mat_at_mmap.
  - rewrite mdims_mmap, map_map. apply map_ext. intros k. apply mat_at_mmap.
Qed.
Lemma vsparse_vmap (v : vrep E) : vsparse (vmap f v) = vsparse v.
Proof. induction v; simpl; auto using msparse_mmap. Qed.
Lemma filter_map_comm (p : F -> bool) (q : E -> bool) (l : list E) : (forall x, p (f x) = q x) ->
  filter p (map f l) = map f (filter q l).
Proof.
  intros H. induction l as [|x l IH]; simpl; [reflexivity|]. rewrite H. destruct (q x); simpl; rewrite IH; reflexivity.
Qed.
Lemma visited_vmap (nf : F -> bool) (ne : E -> bool) (v : vrep E) : (forall x, nf (f x) = ne x) ->
  visited nf (vmap f v) = map f (visited ne v).
Proof.
  intros H. unfold visited. rewrite vsparse_vmap, velems_vmap. destruct (vsparse v); [|reflexivity].
  apply filter_map_comm. intros x. rewrite H. reflexivity.
Qed.
End MapLemmas.

(* ------------------------------------------------------------------ the named functions, real carrier *)
Open Scope R_scope.

(* real-valued operands enter the carrier of the theorems as Float64-like scalars holding that real *)
Definition inj (x : R) : sval XR := VF (Fin x).
Definition einj (x : R) : sval ER := VF (EFin x).
Definition rnull (x : R) : bool := Reqb x 0.

Lemma fins_inj xs : map inj xs = fins xs. Proof. reflexivity. Qed.
Lemma efins_einj xs : map einj xs = efins xs. Proof. reflexivity. Qed.

Lemma sumsq_skip_zeros xs : sumsq (filter (fun x => negb (rnull x)) xs) = sumsq xs.
Proof.
  unfold sumsq, rnull. induction xs as [|x xs IH]; simpl; [reflexivity|].
  destruct (Reqb x 0) eqn:Ex; simpl; rewrite IH; [apply Reqb_true in Ex; subst x; lra | lra].
Qed.

Section Named.
Variable sp : specials.
Local Notation C := (CarX sp).
Local Notation CE := (CarE sp).

Lemma isnull_inj x : isnull C (inj x) = rnull x.
Proof. reflexivity. Qed.

Lemma vec_smoothmax tr t0 t1 alpha (x : vrep R) : fty tr -> fty t0 -> fty t1 ->
  vrun C (VcSmoothMax tr t0 t1 (vmap inj x) (Fin alpha)) = OVal tr (VF (Fin (smoothmax_spec alpha (velems x)))).
Proof.
  intros. unfold vrun. cbn [vcall_of run]. rewrite velems_vmap, fins_inj, smoothmax_named by assumption. reflexivity.
Qed.
Lemma vec_logsmoothmax tr t0 t1 t2 tx alpha (x : vrep R) e es :
  fty tr -> fty t0 -> fty t1 -> fty t2 -> velems x = e :: es -> List.Forall (fun x => 0 < x) (velems x) ->
  vrun C (VcLogSmoothMax tr t0 t1 t2 tx (vmap inj x) (Fin alpha)) = OVal tr (VF (Fin (smoothmax_spec alpha (velems x)))).
Proof.
  intros Hr H0 H1 H2 Hx HF. unfold vrun. cbn [vcall_of run]. rewrite velems_vmap, fins_inj. rewrite Hx in *.
  rewrite logsmoothmax_named by assumption. reflexivity.
Qed.
(* implicit zeros need ln 0 = -oo: the extended carrier *)
Lemma vec_ext_smoothmax tr t0 t1 alpha (x : vrep R) e es : fty tr -> fty t0 -> fty t1 -> velems x = e :: es ->
  vrun CE (VcSmoothMax tr t0 t1 (vmap einj x) (EFin alpha)) = OVal tr (VF (EFin (smoothmax_spec alpha (velems x)))).
Proof.
  intros Hr H0 H1 Hx. unfold vrun. cbn [vcall_of run]. rewrite velems_vmap, efins_einj, Hx.
  rewrite ext_smoothmax by assumption. reflexivity.
Qed.
Lemma vec_ext_logsmoothmax tr t0 t1 t2 tx alpha (x : vrep R) e es :
  fty tr -> fty t0 -> fty t1 -> fty t2 -> velems x = e :: es -> List.Forall (fun x => 0 <= x) (velems x) ->
  vrun CE (VcLogSmoothMax tr t0 t1 t2 tx (vmap einj x) (EFin alpha)) = OVal tr (VF (EFin (smoothmax_spec alpha (velems x)))).
Proof.
  intros Hr H0 H1 H2 Hx HF. unfold vrun. cbn [vcall_of run]. rewrite velems_vmap, efins_einj. rewrite Hx in *.
  rewrite ext_logsmoothmax by assumption. reflexivity.
Qed.
Lemma vec_vmean tr (x : vrep R) : fty tr ->
  vrun C (VcVmean tr (vmap inj x)) = OVal tr (VF (Fin (Rsum (velems x) / INR (length (velems x))))).
Proof. intros. unfold vrun. cbn [vcall_of run]. rewrite velems_vmap, fins_inj, vmean_named by assumption. reflexivity. Qed.
Lemma vec_vdotv tr (x y : vrep R) : fty tr -> length (velems x) = length (velems y) ->
  vrun C (VcVdotV tr (vmap inj x) (vmap inj y)) = OVal tr (VF (Fin (dot (velems x) (velems y)))).
Proof. intros. unfold vrun. cbn [vcall_of run]. rewrite !velems_vmap, !fins_inj, vdotv_named by assumption. reflexivity. Qed.
(* Vnorm reads the operand through its iterator, which skips the zeros of a sparse operand: the result is
   nevertheless the Euclidean norm of ALL elements *)
Lemma vec_vnorm tr (x : vrep R) : fty tr ->
  vrun C (VcVnorm tr (vmap inj x)) = OVal tr (VF (Fin (sqrt (sumsq (velems x))))).
Proof.
  intros. unfold vrun. cbn [vcall_of run].
  rewrite (visited_vmap inj (isnull C) rnull) by exact isnull_inj.
  rewrite fins_inj, vnorm_named by assumption. unfold visited.
  destruct (vsparse x); [rewrite sumsq_skip_zeros|]; reflexivity.
Qed.

Definition mdiag (a : mrep R) : list R := map (fun i => mat_at a i i) (seq 0 (fst (mdims a))).
Lemma rdiag_melems (a : mrep R) n : mdims a = (n, n) -> rdiag n n (melems a) = mdiag a.
Proof.
  intros Hd. unfold rdiag, mdiag. rewrite Hd. simpl fst. apply map_ext_in. intros i Hi. apply in_seq in Hi.
  pose proof (melems_nth a i i 0) as Hn. rewrite Hd in Hn. simpl in Hn. apply Hn; lia.
Qed.
Lemma mat_mtrace tr (a : mrep R) n : fty tr -> n <> O -> mdims a = (n, n) ->
  vrun C (VcMtrace tr (mmap inj a)) = OVal tr (VF (Fin (Rsum (mdiag a)))).
Proof.
  intros Hr Hn Hd. unfold vrun. cbn [vcall_of run]. rewrite mdims_mmap, melems_mmap, fins_inj, Hd. simpl fst. simpl snd.
  rewrite mtrace_named; auto.
  - rewrite (rdiag_melems a n Hd). reflexivity.
  - rewrite melems_length, Hd. reflexivity.
Qed.
Lemma mat_mtrace_not_square tr (a : mrep (sval XR)) : fst (mdims a) <> snd (mdims a) -> vrun C (VcMtrace tr a) = OPanic.
Proof.
  intros Hd. unfold vrun. cbn [vcall_of run]. unfold mtrace. apply Nat.eqb_neq in Hd. rewrite Hd. reflexivity.
Qed.
Lemma mat_mnorm tr (a : mrep R) : fty tr -> fst (mdims a) <> O -> snd (mdims a) <> O ->
  vrun C (VcMnorm tr (mmap inj a)) = OVal tr (VF (Fin (sumsq (melems a)))).
Proof.
  intros Hr Hn Hm. unfold vrun. cbn [vcall_of run]. rewrite mdims_mmap, melems_mmap, fins_inj.
  rewrite mnorm_named; auto.
  intros E. apply (f_equal (@length R)) in E. rewrite melems_length in E. simpl in E. nia.
Qed.

End Named.
