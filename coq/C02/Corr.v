(* C02 correspondence: the binary64 instance of the carrier and the comparison
   of the model's result with what the Go code returned.

   + - * / abs neg sqrt-free arithmetic and comparisons: Coq primitive floats (bit-exact).
   float32(x): the value is rounded to binary32 by SpecFloat.binary_normalize 24 128
     (round to nearest even with the binary32 exponent range, incl. subnormals and
     overflow to infinity); every binary32 number is a binary64 number, so the
     result is carried as a float. Float32 + - * / are computed as
     round32 (x op64 y): the double rounding is innocuous because 53 >= 2*24+2.
   float64(int), float32(int): binary_normalize of the integer (one rounding).
   intK(float): truncation of the exact value m*2^e toward zero.
   math.* / special.* calls: answered from the oracle table of the case (the
   harness records (function, argument bits, result bits) of the calls Go makes);
   a missing entry yields a sentinel value and therefore a mismatch. The oracle
   entries themselves are certified against the real functions in separate
   Coq-Interval goals (runs/C02/cert_*.v). *)
From Coq Require Import ZArith List Bool Floats SpecFloat.
From ADV Require Import Base.Num Base.Corr C02.Model.
Import ListNotations.
Open Scope Z_scope.

Definition sf_of_float_round (prec emax : Z) (x : float) : float :=
  match Prim2SF x with
  | S754_finite s m e => SF2Prim (binary_normalize prec emax (if s then Zneg m else Zpos m) e s)
  | _ => x
  end.
Definition r32 (x : float) : float := sf_of_float_round 24 128 x.
Definition ofZ64 (z : Z) : float := SF2Prim (binary_normalize 53 1024 z 0 false).
Definition ofZ32 (z : Z) : float := SF2Prim (binary_normalize 24 128 z 0 false).
Definition toZ (x : float) : option Z :=
  match Prim2SF x with
  | S754_zero _ => Some 0
  | S754_finite s m e =>
      let mag := if 0 <=? e then Zpos m * 2 ^ e else Zpos m / 2 ^ (- e) in
      Some (if s then - mag else mag)
  | _ => None
  end.
Definition fisinf (x : float) (s : Z) : bool :=
  match Prim2SF x with
  | S754_infinity neg => if s =? 0 then true else if 0 <? s then negb neg else neg
  | _ => false
  end.
Definition fisnan (x : float) : bool := negb (PrimFloat.eqb x x).

(* ---- oracle *)
Definition ufn_id (f : ufn) : Z :=
  match f with FExp => 1 | FLog => 2 | FLog1p => 3 | FSin => 4 | FCos => 5 | FTan => 6 | FSinh => 7 | FCosh => 8
             | FTanh => 9 | FErf => 10 | FErfc => 11 | FLogErfc => 12 | FGamma => 13 | FSqrt => 14 end.
Definition pfn_id (f : pfn) : Z :=
  match f with PMlgamma => 30 | PGammaP => 31 | PBesselI => 32 | PLogBesselI => 33 end.
Definition id_lgamma := 20. Definition id_lgsign := 21. Definition id_pow := 22.
Definition oentry := (Z * float * float * float)%type.   (* function id, arg1, arg2 (0 if unary), result *)
Definition sentinel : float := 0x1.badbadbadbadp+600%float.
Fixpoint lookup (o : list oentry) (id : Z) (a b : float) : float :=
  match o with
  | [] => sentinel
  | (i, x, y, r) :: o' => if (i =? id) && feqb x a && feqb y b then r else lookup o' id a b
  end.

Definition flit (l : lit) : float :=
  match l with
  | L0 => 0%float | L1 => 1%float | L2 => 2%float | Lhalf => 0x1p-1%float
  | Lm37 => (-0x1.28p+5)%float | L18 => 0x1.2p+4%float | L33_3 => 0x1.0a66666666666p+5%float
  end.

Definition CarF (o : list oentry) : Car float :=
  mkCar float flit PrimFloat.add PrimFloat.sub PrimFloat.mul PrimFloat.div PrimFloat.opp PrimFloat.abs
        PrimFloat.ltb PrimFloat.leb PrimFloat.eqb fisnan fisinf
        (fun s => if 0 <=? s then infinity else neg_infinity) nan
        ofZ64 ofZ32 r32 toZ
        (fun f x => match f with FSqrt => PrimFloat.sqrt x | _ => lookup o (ufn_id f) x 0%float end)
        (fun x => lookup o id_lgamma x 0%float)
        (fun x => if PrimFloat.ltb (lookup o id_lgsign x 0%float) 0%float then -1 else 1)
        (fun x y => lookup o id_pow x y)
        (fun f p x => lookup o (pfn_id f) p x).

(* ---- comparison of observables *)
Definition sval_eqb (a b : sval float) : bool :=
  match a, b with
  | VF x, VF y => feqb x y
  | VI x, VI y => x =? y
  | _, _ => false
  end.
Definition obs_match (model observed : obs (A:=float)) : bool :=
  match model, observed with
  | OExcl, _ => true                                   (* implementation-defined conversion: excluded, counted *)
  | OVal t v, OVal t' v' => ty_eqb t t' && sval_eqb v v'
  | OBool b, OBool b' => Bool.eqb b b'
  | OInt z, OInt z' => z =? z'
  | OPanic, OPanic => true
  | ONil, ONil => true
  | _, _ => false
  end.

Definition case := (call (A:=float) * list oentry * obs (A:=float))%type.
Definition model_of (c : case) : obs := let '(cl, o, _) := c in run (CarF o) cl.
Definition check (c : case) : bool := let '(cl, o, ob) := c in obs_match (run (CarF o) cl) ob.
Definition mism (cs : list case) : list nat := mismatches check cs.
Definition is_excl (c : case) : bool := match model_of c with OExcl => true | _ => false end.
Definition excluded (cs : list case) : nat := length (filter is_excl cs).

(* ---- certification helpers for oracle entries of math.Pow that are exact in binary64 *)
(* Pow(x, 0.5) = Sqrt(x) for finite x > 0;  Pow(x, 2) = x*x when the square is a normal number *)
Definition pow_half_ok (x r : float) : bool := feqb (PrimFloat.sqrt x) r.
Definition pow_two_ok (x r : float) : bool := feqb (PrimFloat.mul x x) r.
