(* C02 lemmas: on the real carrier XR every float scalar type (Float64, Float32, Real64,
   Real32) computes the named real function. *)
From Coq Require Import Reals ZArith List Bool Lra Lia.
From Coquelicot Require Import Coquelicot.
From Interval Require Import Tactic.
From ADV Require Import Base.Num C02.Model C02.Spec.
Import ListNotations.
Open Scope R_scope.

Section RealOps.
Variable sp : specials.
Let C := CarX sp.

Definition fty (t : ty) : Prop := is_float_ty t = true.
Ltac fin_eq := apply f_equal; apply f_equal; apply f_equal.

Lemma store_f t x : fty t -> store C (base_of t) x = Val (VF x).
Proof. unfold fty, is_float_ty. destruct (base_of t); simpl; intros; try discriminate; reflexivity. Qed.
Lemma arith_f t o x y : fty t -> arith C t o (VF x) (VF y) = Val (VF (fop C o x y)).
Proof.
  unfold fty, is_float_ty, arith. intros H.
  destruct (is_real t); destruct (base_of t); simpl in *; try discriminate; reflexivity.
Qed.
Lemma neg_f t x : fty t -> neg C t (VF x) = Val (VF (xl1 Ropp x)).
Proof.
  unfold fty, is_float_ty, neg. intros H.
  destruct (is_real t); destruct (base_of t); simpl in *; try discriminate; reflexivity.
Qed.
Lemma un_f t f x : fty t -> un C t f (VF x) = Val (VF (cfn C f x)).
Proof. intros H. unfold un. simpl. apply store_f; auto. Qed.
Lemma set_f t x : fty t -> set C t (VF x) = Val (VF x).
Proof. unfold fty, is_float_ty, set, get. destruct (base_of t); simpl; intros; try discriminate; reflexivity. Qed.
Lemma cmp_f t r x y : fty t ->
  cmp C t r (VF x) (VF y) = Val (match r with RGt => xltb y x | RLt => xltb x y end).
Proof. unfold fty, is_float_ty, cmp. destruct (base_of t); simpl; intros; try discriminate; reflexivity. Qed.
Lemma one_f t : fty t -> snd (one_c C t) = VF (Fin 1).
Proof. unfold fty, is_float_ty, one_c. intros ->. reflexivity. Qed.
Lemma two_f t : fty t -> snd (two_c C t) = VF (Fin 2).
Proof. unfold fty, is_float_ty, two_c. intros ->. reflexivity. Qed.
Lemma zero_f t : fty t -> zero_of C (base_of t) = VF (Fin 0).
Proof. unfold fty, is_float_ty, zero_of. intros ->. reflexivity. Qed.

(* ---- elementary functions *)
Lemma un_named t f x : fty t -> un C t f (VF (Fin x)) = Val (VF (Fin (rfn sp f x))).
Proof. intros H. rewrite un_f by auto. reflexivity. Qed.

Lemma arith_named t o x y : fty t ->
  arith C t o (VF (Fin x)) (VF (Fin y))
  = Val (VF (Fin (match o with OAdd => x + y | OSub => x - y | OMul => x * y | ODiv => x / y end))).
Proof. intros H. rewrite arith_f by auto. destruct o; reflexivity. Qed.

Lemma neg_named t x : fty t -> neg C t (VF (Fin x)) = Val (VF (Fin (- x))).
Proof. intros H. rewrite neg_f by auto. reflexivity. Qed.

Lemma pow_named t x y : fty t -> pow C t (VF (Fin x)) (VF (Fin y)) = Val (VF (Fin (rpow x y))).
Proof. intros H. unfold pow. simpl. apply store_f; auto. Qed.

(* ---- Abs *)
Lemma sign_f t x : fty t ->
  sign C (t, VF (Fin x)) = Val (if Rlt_dec x 0 then (-1)%Z else if Rlt_dec 0 x then 1%Z else 0%Z).
Proof.
  intros H. unfold sign. simpl fst; simpl snd. rewrite zero_f by auto. rewrite !cmp_f by auto. simpl.
  unfold Rltb. destruct (Rlt_dec x 0); [reflexivity|]. simpl. destruct (Rlt_dec 0 x); reflexivity.
Qed.
Lemma abs_named t ta x : fty t -> fty ta -> abs_ C t (ta, VF (Fin x)) = Val (VF (Fin (Rabs x))).
Proof.
  intros H Ha. unfold abs_. rewrite sign_f by auto.
  destruct (Rlt_dec x 0) as [N|NN]; simpl.
  - rewrite neg_named by auto. rewrite Rabs_left by lra. reflexivity.
  - destruct (Rlt_dec 0 x) as [P|NP]; simpl.
    + rewrite set_f by auto. rewrite Rabs_right by lra. reflexivity.
    + rewrite zero_f by auto. replace x with 0 by lra. rewrite Rabs_R0. reflexivity.
Qed.

(* ---- Sigmoid / Logistic *)
Lemma exp_ne0 x : exp x <> 0.
Proof. pose proof (exp_pos x). lra. Qed.
Lemma sig_id x : exp x / (exp x + 1) = / (1 + exp (- x)).
Proof. rewrite exp_Ropp. pose proof (exp_pos x). field. lra. Qed.

Lemma sigmoid_named tc tq x : fty tc -> fty tq ->
  sigmoid C tc tq (VF (Fin x)) = Val (VF (Fin (/ (1 + exp (- x))))).
Proof.
  intros Hc Hq. unfold sigmoid. rewrite !one_f by auto.
  simpl getf64. simpl cleb. unfold xleb. simpl rlit.
  unfold Rleb. destruct (Rle_dec 0 x) as [P|N].
  - rewrite neg_named by auto. cbn [bind]. rewrite un_named by auto. cbn [bind rfn].
    rewrite arith_named by auto. cbn [bind]. rewrite arith_named by auto.
    fin_eq. unfold Rdiv. rewrite Rmult_1_l, Rplus_comm. reflexivity.
  - rewrite un_named by auto. cbn [bind rfn]. rewrite set_f by auto. cbn [bind].
    rewrite arith_named by auto. cbn [bind]. rewrite arith_named by auto.
    fin_eq. apply sig_id.
Qed.

Lemma logistic_named tc x : fty tc -> logistic C tc (VF (Fin x)) = Val (VF (Fin (/ (1 + exp (- x))))).
Proof.
  intros Hc. unfold logistic. rewrite !one_f by auto.
  rewrite neg_named by auto. cbn [bind]. rewrite un_named by auto. cbn [bind rfn].
  rewrite arith_named by auto. cbn [bind]. rewrite arith_named by auto.
  fin_eq. unfold Rdiv. apply Rmult_1_l.
Qed.

(* ---- LogAdd / LogSub *)
Lemma ln_1p_exp_shift a b : ln (1 + exp (a - b)) + b = ln (exp a + exp b).
Proof.
  rewrite <- (ln_exp b) at 2. rewrite <- ln_mult.
  - f_equal. unfold Rminus. rewrite exp_plus, exp_Ropp. pose proof (exp_pos b). field. lra.
  - pose proof (exp_pos (a - b)). lra.
  - apply exp_pos.
Qed.

Lemma logadd_named tc tq ta tb a b : fty tc -> fty tq -> fty ta ->
  logadd C tc tq (ta, VF (Fin a)) (tb, VF (Fin b)) = Val (VF (Fin (ln (exp a + exp b)))).
Proof.
  intros Hc Hq Ha. unfold logadd. simpl fst; simpl snd. rewrite cmp_f by auto. simpl.
  unfold Rltb. destruct (Rlt_dec b a) as [G|NG]; simpl.
  - rewrite arith_named by auto. simpl. rewrite un_named by auto. simpl. rewrite un_named by auto. simpl.
    rewrite arith_named by auto. fin_eq. unfold Rlog1p. rewrite ln_1p_exp_shift. f_equal. apply Rplus_comm.
  - rewrite arith_named by auto. simpl. rewrite un_named by auto. simpl. rewrite un_named by auto. simpl.
    rewrite arith_named by auto. fin_eq. unfold Rlog1p. apply ln_1p_exp_shift.
Qed.

(* -oo is the neutral element: ln(0 + e^b) = b *)
Lemma logadd_neginf_l tc tq ta tb b : fty tc -> fty ta ->
  logadd C tc tq (ta, VF NegInf) (tb, VF (Fin b)) = Val (VF (Fin b)).
Proof.
  intros Hc Ha. unfold logadd. simpl fst; simpl snd. rewrite cmp_f by auto. simpl.
  apply set_f; auto.
Qed.
Lemma logadd_neginf_r tc tq ta tb a : fty tc -> fty ta ->
  logadd C tc tq (ta, VF (Fin a)) (tb, VF NegInf) = Val (VF (Fin a)).
Proof.
  intros Hc Ha. unfold logadd. simpl fst; simpl snd. rewrite cmp_f by auto. simpl.
  apply set_f; auto.
Qed.

Lemma logsub_named tc tq ta tb a b : fty tc -> fty tq -> b < a ->
  logsub C tc tq (ta, VF (Fin a)) (tb, VF (Fin b)) = Val (VF (Fin (ln (exp a - exp b)))).
Proof.
  intros Hc Hq Hab. unfold logsub. simpl fst; simpl snd. simpl cisinf. cbv iota.
  rewrite arith_named by auto. simpl. rewrite un_named by auto. simpl. rewrite neg_named by auto. simpl.
  rewrite un_named by auto. simpl. rewrite arith_named by auto. fin_eq.
  unfold Rlog1p.
  assert (E : exp (b - a) < 1). { rewrite <- exp_0. apply exp_increasing. lra. }
  rewrite <- (ln_exp a) at 2. rewrite <- ln_mult.
  - f_equal. unfold Rminus. rewrite exp_plus, exp_Ropp. pose proof (exp_pos a). field. lra.
  - lra.
  - apply exp_pos.
Qed.
Lemma logsub_neginf tc tq ta tb a : fty tc ->
  logsub C tc tq (ta, VF (Fin a)) (tb, VF NegInf) = Val (VF (Fin a)).
Proof. intros Hc. unfold logsub. simpl. apply set_f; auto. Qed.

(* ---- Log1pExp *)
Lemma ln_le_sub1 v : 0 < v -> ln v <= v - 1.
Proof.
  intros Hv. pose proof (exp_ineq1_le (v - 1)) as X.
  replace (1 + (v - 1)) with v in X by lra.
  destruct X as [X|X].
  - left. rewrite <- (ln_exp (v - 1)). apply ln_increasing; lra.
  - right. rewrite X at 1. apply ln_exp.
Qed.
Lemma ln1p_le u : 0 <= u -> ln (1 + u) <= u.
Proof. intros Hu. pose proof (ln_le_sub1 (1 + u) ltac:(lra)). lra. Qed.
Lemma ln1p_ge u : 0 <= u -> u - u * u <= ln (1 + u).
Proof.
  intros Hu.
  assert (H1 : 0 < 1 + u) by lra.
  assert (E : ln (1 + u) = - ln (/ (1 + u))) by (rewrite ln_Rinv by lra; lra).
  assert (P : 0 < / (1 + u)) by (apply Rinv_0_lt_compat; lra).
  pose proof (ln_le_sub1 (/ (1 + u)) P) as L.
  assert (F : / (1 + u) - 1 = - (u / (1 + u))) by (field; lra).
  assert (G : u - u * u <= u / (1 + u)).
  { apply (Rmult_le_reg_r (1 + u)); [lra|]. unfold Rdiv. rewrite Rmult_assoc, Rinv_l by lra. nra. }
  lra.
Qed.

(* the value is within l1pe_err x of ln(1+e^x), on every branch, for every x *)
Lemma log1pexp_named tc x : fty tc ->
  exists y, log1pexp C tc (VF (Fin x)) = Val (VF (Fin y)) /\ Rabs (y - ln (1 + exp x)) <= l1pe_err x.
Proof.
  intros Hc. unfold log1pexp, l1pe_err. simpl getf64. simpl cleb. unfold xleb. simpl rlit. unfold Rleb.
  pose proof (exp_pos x) as Ex. pose proof (exp_pos (- x)) as Enx.
  destruct (Rle_dec x (-37)) as [B1|B1].
  - (* e^x for ln(1+e^x) *)
    exists (exp x). split; [apply un_named; auto|].
    pose proof (ln1p_le (exp x) ltac:(lra)). pose proof (ln1p_ge (exp x) ltac:(lra)).
    rewrite Rabs_right by lra. lra.
  - destruct (Rle_dec x 18) as [B2|B2].
    + exists (ln (1 + exp x)). split.
      * rewrite un_named by auto. simpl. rewrite un_named by auto. reflexivity.
      * replace (ln (1 + exp x) - ln (1 + exp x)) with 0 by lra. rewrite Rabs_R0. lra.
    + assert (S : ln (1 + exp x) = x + ln (1 + exp (- x))).
      { rewrite <- (ln_exp x) at 2. rewrite <- ln_mult by lra. f_equal.
        rewrite exp_Ropp. field. lra. }
      destruct (Rle_dec x lit33_3) as [B3|B3].
      * exists (x + exp (- x)). split.
        { rewrite neg_named by auto. simpl. rewrite un_named by auto. simpl. rewrite arith_named by auto. reflexivity. }
        pose proof (ln1p_le (exp (- x)) ltac:(lra)). pose proof (ln1p_ge (exp (- x)) ltac:(lra)).
        rewrite S. rewrite Rabs_right by lra. lra.
      * exists x. split; [apply set_f; auto|].
        pose proof (ln1p_le (exp (- x)) ltac:(lra)).
        assert (0 <= ln (1 + exp (- x))).
        { rewrite <- ln_1. destruct (Req_dec (exp (- x)) 0); [lra|]. left. apply ln_increasing; lra. }
        rewrite S. rewrite Rabs_left1 by lra. lra.
Qed.

(* the branch errors are below 2^-48 everywhere *)
Lemma l1pe_err_small x : l1pe_err x <= / IZR (2 ^ 48).
Proof.
  unfold l1pe_err.
  destruct (Rle_dec x (-37)) as [B1|B1].
  - assert (exp x <= exp (-37)) by (destruct B1; [left; apply exp_increasing; auto|subst; lra]).
    pose proof (exp_pos x). assert (exp (-37) <= / IZR (2 ^ 50)) by interval.
    assert (/ IZR (2 ^ 50) <= 1) by interval.
    assert (/ IZR (2 ^ 50) <= / IZR (2 ^ 48)) by interval. nra.
  - destruct (Rle_dec x 18) as [B2|B2]; [interval|].
    assert (Hx : exp (- x) <= exp (-18)) by (left; apply exp_increasing; lra).
    pose proof (exp_pos (- x)).
    destruct (Rle_dec x lit33_3) as [B3|B3].
    + assert (exp (-18) <= / IZR (2 ^ 25)) by interval.
      assert (/ IZR (2 ^ 25) * / IZR (2 ^ 25) <= / IZR (2 ^ 48)) by interval. nra.
    + assert (Hy : exp (- x) <= exp (- lit33_3)) by (left; apply exp_increasing; lra).
      assert (exp (- lit33_3) <= / IZR (2 ^ 48)) by (unfold lit33_3; interval).
      lra.
Qed.

End RealOps.
