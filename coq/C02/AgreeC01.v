(* Stretch: the value table of the C01 model (coq/C01/Model.v: m_v0 / d_v0, the value
   half of the Real32/Real64 derivative model built by another builder) agrees with the C02 op table.
   Every Fl carrier of C01 induces a C02 carrier; on it the C02 elementary methods of Real64
   compute exactly m_v0 / d_v0.  This file is an OPTIONAL target: it depends on another
   property's model and is not part of the decision of C02. *)
From Coq Require Import ZArith QArith List Bool.
From ADV Require Import Base.Fl C01.Model C02.Model.
Import ListNotations.
Open Scope Z_scope.

Section Agree.
Context {A : Type} (F : Fl A) (r32 : A -> A) (toZ : A -> option Z) (sq : A -> A).

Definition car_of_fl : Car A :=
  mkCar A (fun l => match l with
                    | L0 => fofZ F 0 | L1 => fofZ F 1 | L2 => fofZ F 2 | Lhalf => fofQ F (1 # 2)%Q
                    | Lm37 => fofZ F (-37) | L18 => fofZ F 18 | L33_3 => fofQ F (333 # 10)%Q end)
        (fadd F) (fsub F) (fmul F) (fdiv F) (fneg F) (fAbs F)
        (fltb F) (fleb F) (feq F) (fisnan F) (fisinf F) (finf F) (fnan F)
        (fofZ F) (fofZ F) r32 toZ
        (fun f => match f with
                  | FExp => fExp F | FLog => fLog F | FLog1p => fLog1p F | FSin => fSin F | FCos => fCos F
                  | FTan => fTan F | FSinh => fSinh F | FCosh => fCosh F | FTanh => fTanh F | FErf => fErf F
                  | FErfc => fErfc F | FLogErfc => fLogErfc F | FGamma => fGamma F | FSqrt => fSqrt F end)
        (fLgamma F) (fLgammaSign F) (fPow F)
        (fun f p x => match f with
                      | PMlgamma => fMlgamma F x (match toZ p with Some k => k | None => 0 end)
                      | PGammaP => fGammaP F p x | PBesselI => fBesselI F p x | PLogBesselI => fLogBesselI F p x end).

Definition ufn_of_mop (o : mop A) : option ufn :=
  match o with
  | OSin => Some FSin | OSinh => Some FSinh | OCos => Some FCos | OCosh => Some FCosh | OTan => Some FTan
  | OTanh => Some FTanh | OExp => Some FExp | OLog => Some FLog | OLog1p => Some FLog1p | OErf => Some FErf
  | OErfc => Some FErfc | OLogErfc => Some FLogErfc | OGamma => Some FGamma | _ => None
  end.

Lemma agree_elementary o f x : ufn_of_mop o = Some f ->
  un car_of_fl TReal64 f (VF x) = Val (VF (m_v0 F o x)).
Proof. destruct o; simpl; intros H; inversion H; subst; reflexivity. Qed.
Lemma agree_neg x : neg car_of_fl TReal64 (VF x) = Val (VF (m_v0 F ONeg x)).
Proof. reflexivity. Qed.
Lemma agree_lgamma x : lgamma car_of_fl TReal64 (VF x) = Val (VF (m_v0 F OLgamma x)).
Proof. unfold lgamma. simpl. destruct (fLgammaSign F x =? -1); reflexivity. Qed.
Lemma agree_pow x y : pow car_of_fl TReal64 (VF x) (VF y) = Val (VF (m_v0 F (OPowC y) x)).
Proof. reflexivity. Qed.
Lemma agree_gammap a x : par car_of_fl TReal64 PGammaP a (VF x) = Val (VF (m_v0 F (OGammaP a) x)).
Proof. reflexivity. Qed.
Lemma agree_besseli v x : par car_of_fl TReal64 PBesselI v (VF x) = Val (VF (m_v0 F (OBesselI v) x)).
Proof. reflexivity. Qed.
Lemma agree_logbesseli v x : par car_of_fl TReal64 PLogBesselI v (VF x) = Val (VF (m_v0 F (OLogBesselI v) x)).
Proof. reflexivity. Qed.
Lemma agree_arith o x y :
  arith car_of_fl TReal64 o (VF x) (VF y)
  = Val (VF (d_v0 F (match o with C02.Model.OAdd => C01.Model.OAdd | C02.Model.OSub => C01.Model.OSub
                              | C02.Model.OMul => C01.Model.OMul | C02.Model.ODiv => C01.Model.ODiv end) x y)).
Proof. destruct o; reflexivity. Qed.

End Agree.
