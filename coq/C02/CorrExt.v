(* C02, round 2 — the tie of the special-value table of coq/C02/Ext.v (fn_special, fn_edge) to Go's package math:
   every recorded math.* call (function id, argument bits, result bits) whose argument is +Inf, -Inf or NaN, or lies on
   a domain edge of Log / Log1p, is checked against the table by vm_compute (runs/C02/cert_special.v); and the
   binary64 witnesses of the known finding F-EQUALS-INT. *)
From Coq Require Import ZArith List Bool Floats.
From ADV Require Import Base.Num Base.Corr C02.Model C02.Corr C02.Ext.
Import ListNotations.
Open Scope Z_scope.

Definition ufn_of_id (i : Z) : option ufn :=
  match i with
  | 1 => Some FExp | 2 => Some FLog | 3 => Some FLog1p | 4 => Some FSin | 5 => Some FCos | 6 => Some FTan
  | 7 => Some FSinh | 8 => Some FCosh | 9 => Some FTanh | 10 => Some FErf | 11 => Some FErfc | 12 => Some FLogErfc
  | 13 => Some FGamma | 14 => Some FSqrt | _ => None
  end.
Definition xarg_of_float (x : float) : option xarg :=
  if fisnan x then Some XNaN else if fisinf x 1 then Some XPInf else if fisinf x (-1) then Some XNInf else None.
Definition xres_matches (y : xres) (r : float) : bool :=
  match y with
  | YNaN => fisnan r | YPInf => fisinf r 1 | YNInf => fisinf r (-1)
  | YZ z => PrimFloat.eqb r (ofZ64 z)
  end.
(* Ext.fn_edge on binary64 arguments (the comparisons with 0 and -1 are exact) *)
Definition fedge (f : ufn) (a : float) : edge :=
  match f with
  | FLog => if PrimFloat.eqb a 0%float then EdgeNInf else if PrimFloat.ltb a 0%float then EdgeNaN else EdgeNone
  | FLog1p => if PrimFloat.eqb a (-1)%float then EdgeNInf else if PrimFloat.ltb a (-1)%float then EdgeNaN else EdgeNone
  | FSqrt => if PrimFloat.ltb a 0%float then EdgeNaN else EdgeNone
  | _ => EdgeNone
  end.
(* functions that are finite-valued or +-Inf (never NaN) at every finite argument of their domain *)
Definition total_fn (f : ufn) : bool :=
  match f with FGamma => false | _ => true end.   (* LogErfc: ln(erfc x) is finite at every finite x (-Inf once erfc underflows), never NaN *)
Definition special_ok (e : oentry) : bool :=
  let '(id, a, _, r) := e in
  match ufn_of_id id with
  | None => true
  | Some f =>
      match xarg_of_float a with
      | Some xa => match fn_special f xa with Some y => xres_matches y r | None => true end
      | None => match fedge f a with
                | EdgeNInf => fisinf r (-1)
                | EdgeNaN => fisnan r
                | EdgeNone => negb (total_fn f) || negb (fisnan r)
                end
      end
  end.

Local Notation "'F' x" := (x%float) (at level 0, x at level 0, only parsing).
Example special_ok_examples :
  map special_ok [(1, neg_infinity, F 0, F 0); (1, infinity, F 0, infinity); (2, F 0, F 0, neg_infinity); (2, F (-2), F 0, nan);
                  (3, F (-1), F 0, neg_infinity); (9, neg_infinity, F 0, F (-1)); (11, neg_infinity, F 0, F 2); (4, infinity, F 0, nan)]
  = [true; true; true; true; true; true; true; true]
  /\ map special_ok [(1, neg_infinity, F 0, F 1); (2, F 0, F 0, F 0); (9, infinity, F 0, F (-1)); (2, F (-2), F 0, F 0x1p-1)]
     = [false; false; false; false].
Proof. split; vm_compute; reflexivity. Qed.

(* F-EQUALS-INT on binary64: two distinct Int64 values above 2^53 are Equal for epsilon = 1e-8; 5 is not Equal to 5 for epsilon 0 *)
Example int64_equals_above_2p53 :
  equals (CarF []) (TInt64, VI 9007199254740993) (TInt64, VI 9007199254740992) 0x1.5798ee2308c3ap-27%float = Val true
  /\ equals (CarF []) (TInt, VI 5) (TInt, VI 5) 0%float = Val false.
Proof. split; vm_compute; reflexivity. Qed.
