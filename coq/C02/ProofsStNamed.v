(* C02, round 6 — the named-function theorems of Props.v lifted to the state-passing model: from EVERY content of the
   receiver and of the scratch scalars a call leaves the named function of its operands in the receiver. *)
From Coq Require Import Reals ZArith List Bool Lra.
From ADV Require Import Base.Num C02.Model C02.Spec C02.ProofsReal C02.ProofsRed C02.Ext C02.ProofsExt C02.ModelSt C02.ProofsSt.
Import ListNotations.
Open Scope R_scope.

Section Named.
Variable sp : specials.
Let CXs := CarX sp.
Let CEs := CarE sp.

Lemma st_smoothmax_named tr B s alpha xs : fty tr -> fty (bt0 B) -> fty (bt1 B) ->
  rmap (@sr XR) (step CXs tr B s (QSmoothMax (fins xs) (Fin alpha))) = Val (VF (Fin (smoothmax_spec alpha xs))).
Proof. intros. rewrite step_recv. cbn [fresh]. apply smoothmax_named; assumption. Qed.
Lemma st_logsmoothmax_named tr B s alpha x xs : fty tr -> fty (bt0 B) -> fty (bt1 B) -> fty (bt2 B) ->
  List.Forall (fun x => 0 < x) (x :: xs) ->
  rmap (@sr XR) (step CXs tr B s (QLogSmoothMax (fins (x :: xs)) (Fin alpha))) = Val (VF (Fin (smoothmax_spec alpha (x :: xs)))).
Proof. intros. rewrite step_recv. cbn [fresh]. apply logsmoothmax_named; assumption. Qed.
Lemma st_ext_logsmoothmax_named tr B s alpha x xs : fty tr -> fty (bt0 B) -> fty (bt1 B) -> fty (bt2 B) ->
  List.Forall (fun x => 0 <= x) (x :: xs) ->
  rmap (@sr ER) (step CEs tr B s (QLogSmoothMax (efins (x :: xs)) (EFin alpha))) = Val (VF (EFin (smoothmax_spec alpha (x :: xs)))).
Proof. intros. rewrite step_recv. cbn [fresh]. apply ext_logsmoothmax; assumption. Qed.
Lemma st_ext_smoothmax_named tr B s alpha x xs : fty tr -> fty (bt0 B) -> fty (bt1 B) ->
  rmap (@sr ER) (step CEs tr B s (QSmoothMax (efins (x :: xs)) (EFin alpha))) = Val (VF (EFin (smoothmax_spec alpha (x :: xs)))).
Proof. intros. rewrite step_recv. cbn [fresh]. apply ext_smoothmax; assumption. Qed.
Lemma st_ext_logadd_named tr B s k ta tb a b : fty tr -> fty (kty B k) -> fty ta ->
  rmap (@sr ER) (step CEs tr B s (QLogAdd k (OC (ta, VF a)) (OC (tb, VF b)))) = Val (VF (elogadd_spec a b)).
Proof. intros. rewrite step_recv. cbn [fresh resolve]. apply ext_logadd; assumption. Qed.
(* accumulation on log scale, c.LogAdd(c, b, t): the receiver's own value is the first operand *)
Lemma st_ext_logadd_accumulate tr B r u0 u1 u2 k tb b : fty tr -> fty (kty B k) ->
  rmap (@sr ER) (step CEs tr B (mkSt (VF r) u0 u1 u2) (QLogAdd k OR (OC (tb, VF b)))) = Val (VF (elogadd_spec r b)).
Proof. intros. rewrite step_recv. cbn [fresh resolve sr]. apply ext_logadd; assumption. Qed.
Lemma st_ext_logsub_named tr B s k ta tb a b : fty tr -> fty (kty B k) ->
  rmap (@sr ER) (step CEs tr B s (QLogSub k (OC (ta, VF a)) (OC (tb, VF b)))) = Val (VF (elogsub_spec a b)).
Proof. intros. rewrite step_recv. cbn [fresh resolve]. apply ext_logsub; assumption. Qed.
Lemma st_ext_sigmoid_named tr B s k ta a : fty tr -> fty (kty B k) ->
  rmap (@sr ER) (step CEs tr B s (QSigmoid k (OC (ta, VF a)))) = Val (VF (esigmoid_spec a)).
Proof. intros. rewrite step_recv. cbn [fresh resolve snd]. apply ext_sigmoid; assumption. Qed.
Lemma st_vmean_named tr B s xs : fty tr ->
  rmap (@sr XR) (step CXs tr B s (QVmean (fins xs))) = Val (VF (Fin (Rsum xs / INR (length xs)))).
Proof. intros. rewrite step_recv. cbn [fresh]. apply vmean_named; assumption. Qed.
Lemma st_vdotv_named tr B s xs ys : fty tr -> length xs = length ys ->
  rmap (@sr XR) (step CXs tr B s (QVdotV (fins xs) (fins ys))) = Val (VF (Fin (dot xs ys))).
Proof. intros. rewrite step_recv. cbn [fresh]. apply vdotv_named; assumption. Qed.
Lemma st_vnorm_named tr B s xs : fty tr ->
  rmap (@sr XR) (step CXs tr B s (QVnorm (fins xs))) = Val (VF (Fin (sqrt (sumsq xs)))).
Proof. intros. rewrite step_recv. cbn [fresh]. apply vnorm_named; assumption. Qed.

End Named.
