(* C02, round 6 — correspondence of the state-passing model coq/C02/ModelSt.v: a history of calls on one receiver and
   one bank of three scratch scalars, started from the (dirty) content the harness put there; after every step the
   harness reports the receiver and the three scratch scalars (or panic / nil, which ends the history). *)
From Coq Require Import ZArith List Bool Floats.
From ADV Require Import Base.Corr C02.Model C02.ModelSt C02.Corr.
Import ListNotations.
Open Scope Z_scope.

Definition scase := (ty * bank * st (A:=float) * list (sop (A:=float)) * list oentry * list (list (obs (A:=float))))%type.

Definition obs_of_step (tr : ty) (B : bank) (m : res (st (A:=float))) : list (obs (A:=float)) :=
  match m with
  | Val s => [OVal tr (sr s); OVal (bt0 B) (s0 s); OVal (bt1 B) (s1 s); OVal (bt2 B) (s2 s)]
  | Panic => [OPanic] | Excl => [OExcl] | NilRet => [ONil]
  end.
Fixpoint all2 (m o : list (obs (A:=float))) : bool :=
  match m, o with
  | [], [] => true
  | x :: m', y :: o' => obs_match x y && all2 m' o'
  | _, _ => false
  end.
(* an excluded (implementation-defined) conversion ends the comparison of the history *)
Fixpoint seq_match (m : list (list (obs (A:=float)))) (o : list (list (obs (A:=float)))) : bool :=
  match m, o with
  | [OExcl] :: _, _ => true
  | [], [] => true
  | x :: m', y :: o' => all2 x y && seq_match m' o'
  | _, _ => false
  end.
Definition model_seq (c : scase) : list (list (obs (A:=float))) :=
  let '(tr, B, s, qs, o, _) := c in map (obs_of_step tr B) (run_seq (CarF o) tr B s qs).
Definition check_seq (c : scase) : bool := let '(_, _, _, _, _, ob) := c in seq_match (model_seq c) ob.
Definition mism_seq (cs : list scase) : list nat := mismatches check_seq cs.
Definition is_excl_seq (c : scase) : bool := existsb (fun l => match l with [OExcl] => true | _ => false end) (model_seq c).
Definition excluded_seq (cs : list scase) : nat := length (filter is_excl_seq cs).
