(* C02, round 6 — the tie of the special-case table of x^y (Ext.epow) to Go's math.Pow: EVERY math.Pow call recorded by the
   harness (function id 22: base bits, exponent bits, result bits) is classified on its binary64 operands by the same table
   (fpow_expect) and the recorded result must be the table's value; outside the table (finite regular case) the result of a
   negative base with an integer exponent must carry the sign (-1)^n and must not be NaN, and a positive base never gives NaN.
   Evaluated by vm_compute in runs/C02/cert_pow.v. *)
From Coq Require Import ZArith List Bool Floats.
From ADV Require Import Base.Corr C02.Model C02.Corr C02.Ext C02.CorrExt.
Import ListNotations.
Open Scope Z_scope.

Definition f_is_int (y : float) : bool := match toZ y with Some z => PrimFloat.eqb (ofZ64 z) y | None => false end.
Definition f_is_odd (y : float) : bool := match toZ y with Some z => PrimFloat.eqb (ofZ64 z) y && Z.odd z | None => false end.
Definition f_negzero (x : float) : bool := PrimFloat.eqb x 0%float && PrimFloat.ltb (PrimFloat.div 1%float x) 0%float.

Definition fpow_expect (x y : float) : option xres :=
  if PrimFloat.eqb y 0%float then Some (YZ 1)
  else if PrimFloat.eqb x 1%float then Some (YZ 1)
  else if fisnan x || fisnan y then Some YNaN
  else if PrimFloat.eqb x 0%float then
    (if PrimFloat.ltb y 0%float then (if f_is_odd y && f_negzero x then Some YNInf else Some YPInf) else Some (YZ 0))
  else if fisinf y 0 then
    (let ax := PrimFloat.abs x in
     if PrimFloat.eqb ax 1%float then Some (YZ 1)
     else if Bool.eqb (PrimFloat.ltb ax 1%float) (fisinf y 1) then Some (YZ 0) else Some YPInf)
  else if fisinf x 0 then
    (if fisinf x (-1) && f_is_odd y then (if PrimFloat.ltb y 0%float then Some (YZ 0) else Some YNInf)
     else if PrimFloat.ltb y 0%float then Some (YZ 0) else Some YPInf)
  else if PrimFloat.ltb x 0%float && negb (f_is_int y) then Some YNaN
  else None.

Definition pow_special_ok (e : oentry) : bool :=
  let '(id, x, y, r) := e in
  if negb (id =? id_pow) then true
  else match fpow_expect x y with
       | Some v => xres_matches v r
       | None =>
           negb (fisnan r)
           && (if PrimFloat.ltb x 0%float then (if f_is_odd y then PrimFloat.leb r 0%float else PrimFloat.leb 0%float r)
               else PrimFloat.leb 0%float r)
       end.

Local Notation "'F' x" := (x%float) (at level 0, x at level 0, only parsing).
Example pow_special_ok_examples :
  map pow_special_ok [(22, F (-2), F 3, F (-8)); (22, F (-2), F 2, F 4); (22, F 0, F 0, F 1); (22, nan, F 0, F 1); (22, F 1, infinity, F 1);
                      (22, F 1, nan, F 1); (22, neg_infinity, F 3, neg_infinity); (22, neg_infinity, F 2, infinity); (22, neg_infinity, F (-3), F (-0));
                      (22, F (-1), neg_infinity, F 1); (22, F (-2), F 0x1p-1, nan); (22, F (-0), F (-3), neg_infinity); (22, F 0, F (-3), infinity);
                      (22, F 0x1p-1, infinity, F 0); (22, F (-2), F 0x1.fffffffffffffp+52, F (-0x1p+1000)); (22, F (-1), F 0x1p+60, F 1)]
  = repeat true 16
  /\ map pow_special_ok [(22, F (-2), F 3, nan); (22, F (-2), F 3, F 8); (22, F 0, F 0, nan); (22, F 1, infinity, nan); (22, neg_infinity, F 3, infinity);
                         (22, F (-2), F 2, F (-4)); (22, F (-8), F 0x1.5555555555555p-2, F (-2)); (22, nan, F 0, nan); (22, F 2, F 3, nan)]
     = repeat false 9.
Proof. split; vm_compute; reflexivity. Qed.
