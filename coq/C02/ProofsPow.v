(* C02, round 6 — Pow on the extended carrier ER: every float scalar type computes Ext.epow, the named function x^y with
   the whole special-case table of C99 Annex F / Go's math.Pow; consequences spelled out case by case. *)
From Coq Require Import Reals ZArith List Bool Lra.
From ADV Require Import Base.Num C02.Model C02.Spec C02.ProofsReal C02.Ext C02.ProofsExt.
Import ListNotations.
Open Scope R_scope.

Section PowOps.
Variable sp : specials.
Let C := CarE sp.

Lemma ext_pow_named t a b : fty t -> pow C t (VF a) (VF b) = Val (VF (epow a b)).
Proof. intros H. unfold pow. cbn [getf64]. apply store_e; assumption. Qed.
(* the concrete SQRT of the Real types and the generic Sqrt are x^(1/2) *)
Lemma ext_sqrt_is_pow_half t a : fty t -> sqrt_ C t (VF a) = Val (VF (epow a (EFin (/ 2)))).
Proof. intros H. unfold sqrt_, half_c. cbn [snd]. apply ext_pow_named; assumption. Qed.

Lemma epow_zero_exponent a : epow a (EFin 0) = EFin 1.
Proof. unfold epow. destruct (Req_EM_T 0 0) as [_|N]; [reflexivity | exfalso; apply N; reflexivity]. Qed.
Lemma epow_one_base b : epow (EFin 1) b = EFin 1.
Proof.
  destruct b as [y| | |]; cbn [epow].
  - destruct (Req_EM_T y 0); [reflexivity|]. destruct (Rlt_dec 0 1) as [_|N]; [|exfalso; apply N; lra].
    unfold Rpower. rewrite ln_1, Rmult_0_r, exp_0. reflexivity.
  - rewrite Rabs_R1. destruct (Req_EM_T 1 1) as [_|N]; [reflexivity | exfalso; apply N; reflexivity].
  - rewrite Rabs_R1. destruct (Req_EM_T 1 1) as [_|N]; [reflexivity | exfalso; apply N; reflexivity].
  - destruct (Req_EM_T 1 1) as [_|N]; [reflexivity | exfalso; apply N; reflexivity].
Qed.
Lemma epow_nan_base b : b <> EFin 0 -> epow ENaN b = ENaN.
Proof.
  destruct b as [y| | |]; cbn [epow]; intros H; try reflexivity.
  destruct (Req_EM_T y 0) as [E|_]; [exfalso; apply H; rewrite E; reflexivity | reflexivity].
Qed.
Lemma epow_nan_exponent x : x <> 1 -> epow (EFin x) ENaN = ENaN.
Proof. intros H. cbn [epow]. destruct (Req_EM_T x 1); [contradiction | reflexivity]. Qed.
Lemma epow_positive x y : 0 < x -> epow (EFin x) (EFin y) = EFin (exp (y * ln x)).
Proof.
  intros P. cbn [epow]. destruct (Req_EM_T y 0) as [->|_].
  - rewrite Rmult_0_l, exp_0. reflexivity.
  - destruct (Rlt_dec 0 x) as [_|N]; [reflexivity | contradiction].
Qed.
Lemma Int_part_IZR n : Int_part (IZR n) = n.
Proof.
  unfold Int_part. assert (up (IZR n) = (n + 1)%Z) as ->; [|ring].
  symmetry. apply tech_up; rewrite plus_IZR; simpl; lra.
Qed.
Lemma Rint_IZR n : Rint (IZR n) = true.
Proof. unfold Rint. rewrite Int_part_IZR. unfold Reqb. destruct (Req_EM_T (IZR n) (IZR n)); [reflexivity | contradiction]. Qed.
(* negative base, integer exponent: the integer power, sign (-1)^n included; 0^0-style case n = 0 gives 1 *)
Lemma epow_negative_integer x n : x < 0 -> epow (EFin x) (EFin (IZR n)) = EFin (powerRZ x n).
Proof.
  intros N. cbn [epow]. destruct (Req_EM_T (IZR n) 0) as [E|NE].
  - apply eq_IZR_R0 in E. subst n. reflexivity.
  - destruct (Rlt_dec 0 x) as [P|_]; [lra|]. destruct (Req_EM_T x 0) as [Z|_]; [lra|].
    rewrite Rint_IZR, Int_part_IZR. reflexivity.
Qed.
Lemma epow_negative_noninteger x y : x < 0 -> Rint y = false -> epow (EFin x) (EFin y) = ENaN.
Proof.
  intros N I. cbn [epow]. destruct (Req_EM_T y 0) as [->|_].
  - exfalso. change 0 with (IZR 0) in I. rewrite Rint_IZR in I. discriminate.
  - destruct (Rlt_dec 0 x) as [P|_]; [lra|]. destruct (Req_EM_T x 0) as [Z|_]; [lra|]. rewrite I. reflexivity.
Qed.
Lemma epow_zero_base y : epow (EFin 0) (EFin y) = if Req_EM_T y 0 then EFin 1 else if Rlt_dec 0 y then EFin 0 else EPInf.
Proof.
  cbn [epow]. destruct (Req_EM_T y 0); [reflexivity|].
  destruct (Rlt_dec 0 0) as [P|_]; [lra|]. destruct (Req_EM_T 0 0) as [_|N]; [reflexivity | exfalso; apply N; reflexivity].
Qed.
Lemma epow_inf_exponent x (u : bool) : epow (EFin x) (if u then EPInf else ENInf)
  = if Req_EM_T (Rabs x) 1 then EFin 1 else if Bool.eqb (Rltb (Rabs x) 1) u then EFin 0 else EPInf.
Proof. destruct u; reflexivity. Qed.
Lemma epow_pinf_base y : y <> 0 -> epow EPInf (EFin y) = if Rlt_dec 0 y then EPInf else EFin 0.
Proof. intros H. cbn [epow]. destruct (Req_EM_T y 0); [contradiction | reflexivity]. Qed.
Lemma epow_ninf_base y : y <> 0 ->
  epow ENInf (EFin y) = if Rlt_dec 0 y then (if Rodd y then ENInf else EPInf) else EFin 0.
Proof. intros H. cbn [epow]. destruct (Req_EM_T y 0); [contradiction | reflexivity]. Qed.

(* on the domain where Spec.rpow is meaningful the two agree *)
Lemma epow_rpow x y : 0 < x \/ (x = 0 /\ 0 <= y) \/ (x < 0 /\ Rint y = true) -> epow (EFin x) (EFin y) = EFin (rpow x y).
Proof.
  intros D. cbn [epow]. unfold rpow. destruct (Req_EM_T y 0) as [->|NZ].
  - destruct (Rlt_dec 0 x) as [P|NP].
    + unfold Rpower. rewrite Rmult_0_l, exp_0. reflexivity.
    + destruct (Req_EM_T x 0) as [_|NX].
      * destruct (Rlt_dec 0 0) as [F|_]; [lra | reflexivity].
      * change 0 with (IZR 0). rewrite Int_part_IZR.
        destruct (Req_EM_T (IZR 0) (IZR 0)) as [_|F]; [reflexivity | exfalso; apply F; reflexivity].
  - destruct (Rlt_dec 0 x) as [P|NP]; [reflexivity|].
    destruct (Req_EM_T x 0) as [Z|NX].
    + destruct (Rlt_dec 0 y) as [_|NY]; [reflexivity|].
      exfalso. destruct D as [D|[[_ D]|[D _]]]; [lra | | lra]. apply NZ. lra.
    + destruct D as [D|[[D _]|[_ D]]]; [lra | lra |].
      rewrite D. unfold Rint, Reqb in D. destruct (Req_EM_T y (IZR (Int_part y))) as [_|F]; [reflexivity | discriminate].
Qed.

End PowOps.
