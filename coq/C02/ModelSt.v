(* C02, round 6 — STATE-PASSING model of the scalar methods that work on caller-supplied scratch scalars
   (LogAdd / LogSub / Sigmoid: t Scalar;  SmoothMax: t [2]Scalar;  LogSmoothMax: t [3]Scalar) and of the
   reductions that overwrite a receiver which already holds a value (Vmean, VdotV, Vnorm, Mtrace, Mnorm),
   scalar_template_math.in / scalar_real_template_math.in and their _concrete twins.

   coq/C02/Model.v gives each of these methods as a function of its OPERANDS only.  The Go methods are
   procedures on mutable objects: the receiver and the scratch scalars hold whatever a previous call left in
   them.  Here a method is a transition of the state
        (value of the receiver, values of t[0], t[1], t[2])
   written statement by statement in the order of the Go body: every scratch scalar is READ where the code
   reads it and WRITTEN where the code writes it, `r.Reset()`, `t[1].Reset()` and
   `t[2].SetFloat64(math.Inf(-1))` are explicit steps that receive the old content, and the state after the
   call holds what the code leaves behind (so that the next call of a sequence starts from it).
   A history is a list of calls on ONE receiver and ONE bank of three scratch scalars; an operand may be the
   receiver itself (c.LogAdd(c, b, t), c.Log1pExp(c), ...).
   No proofs in this file. *)
From Coq Require Import ZArith List Bool.
From ADV Require Import C02.Model.
Import ListNotations.
Open Scope Z_scope.

Inductive reg3 := K0 | K1 | K2.

Section St.
Context {A : Type} (C : Car A).

Record st := mkSt { sr : sval A; s0 : sval A; s1 : sval A; s2 : sval A }.
Record bank := mkBank { bt0 : ty; bt1 : ty; bt2 : ty }.     (* dynamic types of t[0], t[1], t[2] *)
Definition kty (B : bank) (k : reg3) : ty := match k with K0 => bt0 B | K1 => bt1 B | K2 => bt2 B end.
Definition kget (s : st) (k : reg3) : sval A := match k with K0 => s0 s | K1 => s1 s | K2 => s2 s end.
Definition kset (s : st) (k : reg3) (v : sval A) : st :=
  match k with
  | K0 => mkSt (sr s) v (s1 s) (s2 s)
  | K1 => mkSt (sr s) (s0 s) v (s2 s)
  | K2 => mkSt (sr s) (s0 s) (s1 s) v
  end.
Definition rset (s : st) (v : sval A) : st := mkSt v (s0 s) (s1 s) (s2 s).

(* x.Reset(): the old content [old] is discarded;  x.SetFloat64(v): likewise *)
Definition reset_ (t : ty) (old : sval A) : sval A := zero_of C (base_of t).
Definition setf_ (t : ty) (old : sval A) (x : A) : res (sval A) := store C (base_of t) x.

(* ---- c.LogAdd(a, b, t): returns (c, t) after the call; [t] is the content of the scratch on entry *)
Definition logadd_st (tc tq : ty) (a b : sc A) (t : sval A) : res (sval A * sval A) :=
  g <- cmp C (fst a) RGt (snd a) (snd b) ;;
  let a' := if g then b else a in
  let b' := if g then a else b in
  if cisinf C (getf64 C (snd a')) 0 then (c <- set C tc (snd b') ;; Val (c, t))       (* early return: t untouched *)
  else
    t <- arith C tq OSub (snd a') (snd b') ;;          (* t.Sub(a, b): first access to t is a write *)
    t <- un C tq FExp t ;;
    t <- un C tq FLog1p t ;;
    c <- arith C tc OAdd t (snd b') ;;
    Val (c, t).
Definition logsub_st (tc tq : ty) (a b : sc A) (t : sval A) : res (sval A * sval A) :=
  if cisinf C (getf64 C (snd b)) (-1) then (c <- set C tc (snd a) ;; Val (c, t))
  else
    t <- arith C tq OSub (snd b) (snd a) ;;
    t <- un C tq FExp t ;;
    t <- neg C tq t ;;
    t <- un C tq FLog1p t ;;
    c <- arith C tc OAdd t (snd a) ;;
    Val (c, t).
Definition sigmoid_st (tc tq : ty) (a : sval A) (t : sval A) : res (sval A * sval A) :=
  if cleb C (clit C L0) (getf64 C a) then
    c <- neg C tc a ;; c <- un C tc FExp c ;; c <- arith C tc OAdd c (snd (one_c C tc)) ;;
    c <- arith C tc ODiv (snd (one_c C tc)) c ;;
    Val (c, t)                                          (* non-negative branch: t untouched *)
  else
    t <- un C tq FExp a ;; c <- set C tc t ;; t <- arith C tq OAdd t (snd (one_c C tc)) ;;
    c <- arith C tc ODiv c t ;;
    Val (c, t).

(* ---- r.SmoothMax(x, alpha, t [2]Scalar) *)
Fixpoint smoothmax_loop_st (tr t0 t1 : ty) (alpha : sval A) (xs : list (sval A)) (r u s : sval A)
  : res (sval A * sval A * sval A) :=
  match xs with
  | [] => Val (r, u, s)
  | x :: xs' =>
      u <- arith C t0 OMul alpha x ;;                   (* t[0].Mul(alpha, x_i): written before it is read *)
      u <- un C t0 FExp u ;;
      s <- arith C t1 OAdd s u ;;                       (* t[1].Add(t[1], t[0]): READS t[1] *)
      u <- arith C t0 OMul u x ;;
      r <- arith C tr OAdd r u ;;                       (* r.Add(r, t[0]): READS r *)
      smoothmax_loop_st tr t0 t1 alpha xs' r u s
  end.
Definition smoothmax_st (tr : ty) (B : bank) (xs : list (sval A)) (alpha : sval A) (s : st) : res st :=
  let r := reset_ tr (sr s) in                          (* r.Reset() *)
  let t1 := reset_ (bt1 B) (s1 s) in                    (* t[1].Reset() *)
  p <- smoothmax_loop_st tr (bt0 B) (bt1 B) alpha xs r (s0 s) t1 ;;
  let '(r, u, t1) := p in
  r <- arith C tr ODiv r t1 ;;
  Val (mkSt r u t1 (s2 s)).

(* ---- r.LogSmoothMax(x, alpha, t [3]Scalar) *)
Fixpoint logsmoothmax_loop_st (tr t0 t1 t2 : ty) (alpha : sval A) (xs : list (sval A)) (r u l w : sval A)
  : res (sval A * sval A * sval A * sval A) :=
  match xs with
  | [] => Val (r, u, l, w)
  | x :: xs' =>
      u <- arith C t0 OMul x alpha ;;                              (* t[0].Mul(x_i, alpha) *)
      p <- logadd_st t2 t1 (t2, w) (t0, u) l ;;                    (* t[2].LogAdd(t[2], t[0], t[1]) *)
      let '(w, l) := p in
      l <- un C t1 FLog x ;;                                       (* t[1].Log(x_i) *)
      u <- arith C t0 OAdd u l ;;                                  (* t[0].Add(t[0], t[1]) *)
      p <- logadd_st tr t1 (tr, r) (t0, u) l ;;                    (* r.LogAdd(r, t[0], t[1]) *)
      let '(r, l) := p in
      logsmoothmax_loop_st tr t0 t1 t2 alpha xs' r u l w
  end.
Definition logsmoothmax_st (tr : ty) (B : bank) (xs : list (sval A)) (alpha : sval A) (s : st) : res st :=
  r <- setf_ tr (sr s) (cinf C (-1)) ;;                 (* r.SetFloat64(math.Inf(-1)) *)
  w <- setf_ (bt2 B) (s2 s) (cinf C (-1)) ;;            (* t[2].SetFloat64(math.Inf(-1)) *)
  p <- logsmoothmax_loop_st tr (bt0 B) (bt1 B) (bt2 B) alpha xs r (s0 s) (s1 s) w ;;
  let '(r, u, l, w) := p in
  r <- arith C tr OSub r w ;;
  r <- un C tr FExp r ;;
  Val (mkSt r u l w).

(* ---- the reductions: r.Reset() (Mnorm: r.Pow(a00, 2)) overwrites whatever the receiver held; internal
        temporaries are freshly allocated (NullReal64(), NewScalar(r.Type(), 0.0)) *)
Definition vmean_st (tr : ty) (xs : list (sval A)) (s : st) : res st :=
  r <- sum_loop C tr xs (reset_ tr (sr s)) ;;
  r <- arith C tr ODiv r (dim_c C tr (Z.of_nat (length xs))) ;; Val (rset s r).
Definition vdotv_st (tr : ty) (xs ys : list (sval A)) (s : st) : res st :=
  if negb (Nat.eqb (length xs) (length ys)) then Panic
  else r <- vdotv_loop C tr xs ys (reset_ tr (sr s)) ;; Val (rset s r).
Definition vnorm_st (tr : ty) (xs : list (sval A)) (s : st) : res st :=
  r <- sumsq_loop C tr xs (reset_ tr (sr s)) ;; r <- sqrt_ C tr r ;; Val (rset s r).
Definition mtrace_st (tr : ty) (n m : nat) (xs : list (sval A)) (s : st) : res st :=
  if negb (Nat.eqb n m) then Panic
  else if Nat.eqb n 0 then NilRet
  else r <- sum_loop C tr (diag m 0 n xs) (reset_ tr (sr s)) ;; Val (rset s r).
Definition mnorm_st (tr : ty) (n m : nat) (xs : list (sval A)) (s : st) : res st :=
  if Nat.eqb n 0 || Nat.eqb m 0 then NilRet
  else match xs with
       | [] => NilRet
       | x :: xs' => r <- pow C tr x (snd (two_c C tr)) ;; r <- sumsq_loop C tr xs' r ;; Val (rset s r)
       end.

(* ---- histories *)
Inductive opnd := OC (a : sc A) | OR.                  (* an operand held elsewhere / the receiver itself *)
Inductive sop :=
  | QLogAdd (k : reg3) (a b : opnd)
  | QLogSub (k : reg3) (a b : opnd)
  | QSigmoid (k : reg3) (a : opnd)
  | QSmoothMax (xs : list (sval A)) (alpha : A)
  | QLogSmoothMax (xs : list (sval A)) (alpha : A)
  | QVmean (xs : list (sval A))
  | QVdotV (xs ys : list (sval A))
  | QVnorm (xs : list (sval A))
  | QMtrace (n m : nat) (xs : list (sval A))
  | QMnorm (n m : nat) (xs : list (sval A))
  | QUn (o : uop) (a : opnd)
  | QBin (o : bop) (a b : opnd).

Definition resolve (tr : ty) (r : sval A) (o : opnd) : sc A := match o with OC a => a | OR => (tr, r) end.

Definition step (tr : ty) (B : bank) (s : st) (q : sop) : res st :=
  let rv := resolve tr (sr s) in
  match q with
  | QLogAdd k a b => p <- logadd_st tr (kty B k) (rv a) (rv b) (kget s k) ;; Val (kset (rset s (fst p)) k (snd p))
  | QLogSub k a b => p <- logsub_st tr (kty B k) (rv a) (rv b) (kget s k) ;; Val (kset (rset s (fst p)) k (snd p))
  | QSigmoid k a => p <- sigmoid_st tr (kty B k) (snd (rv a)) (kget s k) ;; Val (kset (rset s (fst p)) k (snd p))
  | QSmoothMax xs alpha => smoothmax_st tr B xs (VF alpha) s
  | QLogSmoothMax xs alpha => logsmoothmax_st tr B xs (VF alpha) s
  | QVmean xs => vmean_st tr xs s
  | QVdotV xs ys => vdotv_st tr xs ys s
  | QVnorm xs => vnorm_st tr xs s
  | QMtrace n m xs => mtrace_st tr n m xs s
  | QMnorm n m xs => mnorm_st tr n m xs s
  | QUn o a => r <- run_un C o tr (rv a) ;; Val (rset s r)
  | QBin o a b => r <- run_bin C o tr (rv a) (rv b) ;; Val (rset s r)
  end.

(* the same call described by coq/C02/Model.v: a function of the operands only (the receiver's value [r] is
   needed only to resolve an operand that IS the receiver) *)
Definition fresh (tr : ty) (B : bank) (r : sval A) (q : sop) : res (sval A) :=
  let rv := resolve tr r in
  match q with
  | QLogAdd k a b => logadd C tr (kty B k) (rv a) (rv b)
  | QLogSub k a b => logsub C tr (kty B k) (rv a) (rv b)
  | QSigmoid k a => sigmoid C tr (kty B k) (snd (rv a))
  | QSmoothMax xs alpha => smoothmax C tr (bt0 B) (bt1 B) xs (VF alpha)
  | QLogSmoothMax xs alpha => logsmoothmax C tr (bt0 B) (bt1 B) (bt2 B) tr xs (VF alpha)
  | QVmean xs => vmean C tr xs
  | QVdotV xs ys => vdotv C tr xs ys
  | QVnorm xs => vnorm C tr xs
  | QMtrace n m xs => mtrace C tr n m xs
  | QMnorm n m xs => mnorm C tr n m xs
  | QUn o a => run_un C o tr (rv a)
  | QBin o a b => run_bin C o tr (rv a) (rv b)
  end.

(* a history stops at the first call that does not return a value (panic, nil, excluded conversion) *)
Fixpoint run_seq (tr : ty) (B : bank) (s : st) (qs : list sop) : list (res st) :=
  match qs with
  | [] => []
  | q :: qs' => match step tr B s q with
                | Val s' => Val s' :: run_seq tr B s' qs'
                | e => [e]
                end
  end.
Fixpoint run_fresh (tr : ty) (B : bank) (r : sval A) (qs : list sop) : list (res (sval A)) :=
  match qs with
  | [] => []
  | q :: qs' => match fresh tr B r q with
                | Val r' => Val r' :: run_fresh tr B r' qs'
                | e => [e]
                end
  end.
Definition rmap {X Y} (f : X -> Y) (m : res X) : res Y :=
  match m with Val x => Val (f x) | Panic => Panic | Excl => Excl | NilRet => NilRet end.

(* no operand of the call is the receiver: the call is then a function of its explicit operands *)
Definition closed_opnd (o : opnd) : bool := match o with OC _ => true | OR => false end.
Definition closed (q : sop) : bool :=
  match q with
  | QLogAdd _ a b | QLogSub _ a b | QBin _ a b => closed_opnd a && closed_opnd b
  | QSigmoid _ a | QUn _ a => closed_opnd a
  | _ => true
  end.

End St.
Arguments OR {A}.
