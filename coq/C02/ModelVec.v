(* C02, round 5 — operand REPRESENTATIONS of the scalar methods that take a vector or a matrix
   (SmoothMax, LogSmoothMax, Vmean, VdotV, Vnorm, Mtrace, Mnorm).

   The op table of coq/C02/Model.v takes the operand as the list of its elements; until round 4 the tie
   only ever built DENSE operands, for which "the list of elements" is the backing slice.  The property
   speaks of the named function of the operand, i.e. of ALL its elements whatever the container:
     - a sparse vector / matrix stores some positions in a map (possibly explicit zeros: At(i) creates an
       entry) and answers ConstAt with the constant zero of the element type everywhere else; its iterator
       visits the stored NON-NULL entries in index order;
     - a view (Slice of a vector; Slice / T() of a matrix; Row / Col / Diag of a matrix) contributes exactly
       the elements it selects.
   [velems] / [mat_at] give the abstract element sequence; [visited] is what ConstIterator yields.
   The Go methods read the operand through x.Dim() + x.ConstAt(i) (SmoothMax, LogSmoothMax, Vmean, VdotV),
   a.ConstIterator() (Vnorm) and a.Dims() + a.ConstAt(i,j) (Mtrace, Mnorm): [vrun] says so.
   Not modelled: Row / Col / Diag of a SPARSE matrix copy the non-null entries only, so an explicit stored -0 reads
   back as +0 through them (same value; the generators store +0 in sparse matrices); matrices without columns.
   Generic in the element type E (sval float for the replay, R for the theorems).  No proofs here. *)
From Coq Require Import ZArith List Bool.
From ADV Require Import C02.Model.
Import ListNotations.
Local Open Scope nat_scope.

Section Rep.
Context {E : Type}.

(* stored entries of a sparse container: (position, stored scalar); the first entry of a position wins *)
Fixpoint lookup1 (i : nat) (ent : list (nat * E)) : option E :=
  match ent with
  | [] => None
  | (k, v) :: ent' => if Nat.eqb k i then Some v else lookup1 i ent'
  end.
Fixpoint lookup2 (i j : nat) (ent : list (nat * nat * E)) : option E :=
  match ent with
  | [] => None
  | (k, l, v) :: ent' => if Nat.eqb k i && Nat.eqb l j then Some v else lookup2 i j ent'
  end.

Inductive mrep :=
  | MDense (z : E) (n m : nat) (xs : list E)                (* row-major backing array; z: the null scalar of the element type (pads a too short array: never happens) *)
  | MSparse (z : E) (n m : nat) (ent : list (nat * nat * E))
  | MT (a : mrep)                                          (* a.T() *)
  | MSlice (a : mrep) (r0 r1 c0 c1 : nat).                 (* a.Slice(r0, r1, c0, c1) *)

Inductive vrep :=
  | VDense (xs : list E)
  | VSparse (z : E) (n : nat) (ent : list (nat * E))       (* z: what ConstAt returns where nothing is stored *)
  | VSlice (v : vrep) (i j : nat)                          (* v.Slice(i, j) *)
  | VRow (a : mrep) (i : nat)                              (* a.Row(i) *)
  | VCol (a : mrep) (j : nat)                              (* a.Col(j) *)
  | VDiag (a : mrep).                                      (* a.Diag() *)

Fixpoint mdims (a : mrep) : nat * nat :=
  match a with
  | MDense _ n m _ => (n, m)
  | MSparse _ n m _ => (n, m)
  | MT a => let '(n, m) := mdims a in (m, n)
  | MSlice _ r0 r1 c0 c1 => (r1 - r0, c1 - c0)
  end.
(* a.ConstAt(i, j) *)
Fixpoint mat_at (a : mrep) (i j : nat) : E :=
  match a with
  | MDense z n m xs => nth (i * m + j) xs z
  | MSparse z n m ent => match lookup2 i j ent with Some v => v | None => z end
  | MT a => mat_at a j i
  | MSlice a r0 _ c0 _ => mat_at a (r0 + i) (c0 + j)
  end.
Fixpoint msparse (a : mrep) : bool :=
  match a with MDense _ _ _ _ => false | MSparse _ _ _ _ => true | MT a => msparse a | MSlice a _ _ _ _ => msparse a end.
(* all elements, row-major *)
Definition melems (a : mrep) : list E :=
  flat_map (fun i => map (mat_at a i) (seq 0 (snd (mdims a)))) (seq 0 (fst (mdims a))).

(* the abstract element sequence of a vector operand: x.ConstAt(0), ..., x.ConstAt(x.Dim()-1) *)
Fixpoint velems (v : vrep) : list E :=
  match v with
  | VDense xs => xs
  | VSparse z n ent => map (fun i => match lookup1 i ent with Some x => x | None => z end) (seq 0 n)
  | VSlice v i j => firstn (j - i) (skipn i (velems v))
  | VRow a i => map (mat_at a i) (seq 0 (snd (mdims a)))
  | VCol a j => map (fun i => mat_at a i j) (seq 0 (fst (mdims a)))
  | VDiag a => map (fun i => mat_at a i i) (seq 0 (fst (mdims a)))
  end.
Fixpoint vsparse (v : vrep) : bool :=
  match v with
  | VDense _ => false | VSparse _ _ _ => true | VSlice v _ _ => vsparse v
  | VRow a _ | VCol a _ | VDiag a => msparse a
  end.
(* what x.ConstIterator() visits: every position of a dense vector; of a sparse one the stored entries whose
   scalar is not null (the iterator skips, and deletes, explicit zeros), in index order *)
Definition visited (isnull : E -> bool) (v : vrep) : list E :=
  if vsparse v then filter (fun x => negb (isnull x)) (velems v) else velems v.

(* change of element type (used to inject real-valued operands into the carrier of the theorems) *)
End Rep.
Arguments mrep : clear implicits.
Arguments vrep : clear implicits.

Section Map.
Context {E F : Type} (f : E -> F).
Fixpoint mmap (a : mrep E) : mrep F :=
  match a with
  | MDense z n m xs => MDense (f z) n m (map f xs)
  | MSparse z n m ent => MSparse (f z) n m (map (fun e => (fst e, f (snd e))) ent)
  | MT a => MT (mmap a)
  | MSlice a r0 r1 c0 c1 => MSlice (mmap a) r0 r1 c0 c1
  end.
Fixpoint vmap (v : vrep E) : vrep F :=
  match v with
  | VDense xs => VDense (map f xs)
  | VSparse z n ent => VSparse (f z) n (map (fun e => (fst e, f (snd e))) ent)
  | VSlice v i j => VSlice (vmap v) i j
  | VRow a i => VRow (mmap a) i
  | VCol a j => VCol (mmap a) j
  | VDiag a => VDiag (mmap a)
  end.
End Map.

(* ------------------------------------------------------------------ the calls *)
Section VOps.
Context {A : Type} (C : Car A).

(* Scalar.nullScalar() on the value: *ptr == 0 (true for -0, false for NaN) *)
Definition isnull (x : sval A) : bool :=
  match x with VF x => ceqb C x (clit C L0) | VI z => Z.eqb z 0 end.

Inductive vcall :=
  | VcSmoothMax (tr t0 t1 : ty) (x : vrep (sval A)) (alpha : A)
  | VcLogSmoothMax (tr t0 t1 t2 tx : ty) (x : vrep (sval A)) (alpha : A)
  | VcVmean (tr : ty) (x : vrep (sval A))
  | VcVdotV (tr : ty) (x y : vrep (sval A))
  | VcVnorm (tr : ty) (x : vrep (sval A))
  | VcMtrace (tr : ty) (a : mrep (sval A))
  | VcMnorm (tr : ty) (a : mrep (sval A)).

Definition vcall_of (c : vcall) : call (A:=A) :=
  match c with
  | VcSmoothMax tr t0 t1 x alpha => CSmoothMax tr t0 t1 (velems x) alpha
  | VcLogSmoothMax tr t0 t1 t2 tx x alpha => CLogSmoothMax tr t0 t1 t2 tx (velems x) alpha
  | VcVmean tr x => CVmean tr (velems x)
  | VcVdotV tr x y => CVdotV tr (velems x) (velems y)
  | VcVnorm tr x => CVnorm tr (visited isnull x)
  | VcMtrace tr a => CMtrace tr (fst (mdims a)) (snd (mdims a)) (melems a)
  | VcMnorm tr a => CMnorm tr (fst (mdims a)) (snd (mdims a)) (melems a)
  end.
Definition vrun (c : vcall) : obs := run C (vcall_of c).

End VOps.
