(* C02 specification: the named real functions, the real instance of the carrier,
   and what "computes the mathematical function its method names" means.

   Carrier for the theorems: XR = R extended by -oo (the only non-finite value the
   composite programs LogAdd / LogSub / LogSmoothMax create on purpose).
   [None] is -oo.  Storage rounding is the identity on this carrier ("up to the
   precision of the storage type" is the statement of the property; the step to
   binary32/binary64 is covered per sampled case by the bit-exact correspondence).
   Special functions not definable here (Gamma, lgamma, multivariate lgamma,
   regularised incomplete gamma, Bessel I) are a record parameter [specials]:
   every theorem is universally quantified over it. *)
From Coq Require Import Reals ZArith List Bool Lra.
From Coquelicot Require Import Coquelicot.
From ADV Require Import Base.Num C02.Model.
Import ListNotations.
Open Scope R_scope.

(* ---- named functions *)
Definition erfR (x : R) : R := 2 / sqrt PI * RInt (fun t => exp (- (t * t))) 0 x.
Definition erfcR (x : R) : R := 1 - erfR x.
Definition Rlog1p (x : R) : R := ln (1 + x).
Definition Rtrunc (x : R) : Z := if Rle_dec 0 x then Int_part x else (- Int_part (- x))%Z.

Record specials := mkSpecials {
  sp_gamma : R -> R; sp_lgamma : R -> R; sp_lgsign : R -> Z; sp_pfn : pfn -> R -> R -> R
}.

(* x^y as math.Pow means it on the reals: exp(y ln x) for x > 0; 0^y = 0 for y > 0;
   negative bases only with integer exponents *)
Definition rpow (x y : R) : R :=
  if Rlt_dec 0 x then Rpower x y
  else if Req_EM_T x 0 then (if Rlt_dec 0 y then 0 else 1)
  else if Req_EM_T y (IZR (Int_part y)) then powerRZ x (Int_part y) else 0.

Definition rfn (sp : specials) (f : ufn) (x : R) : R :=
  match f with
  | FExp => exp x | FLog => ln x | FLog1p => Rlog1p x
  | FSin => sin x | FCos => cos x | FTan => tan x
  | FSinh => sinh x | FCosh => cosh x | FTanh => tanh x
  | FErf => erfR x | FErfc => erfcR x | FLogErfc => ln (erfcR x)
  | FGamma => sp_gamma sp x | FSqrt => sqrt x
  end.

(* exact value of the float64 literal 33.3 *)
Definition lit33_3 : R := IZR 0x10a66666666666 / IZR (2 ^ 47).
Definition rlit (l : lit) : R :=
  match l with L0 => 0 | L1 => 1 | L2 => 2 | Lhalf => / 2 | Lm37 => -37 | L18 => 18 | L33_3 => lit33_3 end.

(* ---- XR *)
Definition XR := option R.
Notation Fin x := (@Some R x) (only parsing).
Definition NegInf : XR := None.
Definition xl1 (f : R -> R) (a : XR) : XR := match a with Some x => Some (f x) | None => None end.
Definition xl2 (f : R -> R -> R) (a b : XR) : XR :=
  match a, b with Some x, Some y => Some (f x y) | _, _ => None end.
Definition xltb (a b : XR) : bool :=
  match a, b with Some x, Some y => Rltb x y | None, Some _ => true | _, None => false end.
Definition xleb (a b : XR) : bool :=
  match a, b with Some x, Some y => Rleb x y | None, _ => true | Some _, None => false end.
Definition xeqb (a b : XR) : bool :=
  match a, b with Some x, Some y => Reqb x y | None, None => true | _, _ => false end.

Definition CarX (sp : specials) : Car XR :=
  mkCar XR (fun l => Fin (rlit l))
        (xl2 Rplus) (xl2 Rminus) (xl2 Rmult) (xl2 Rdiv) (xl1 Ropp) (xl1 Rabs)
        xltb xleb xeqb
        (fun _ => false)
        (fun a s => match a with None => (s <=? 0)%Z | Some _ => false end)
        (fun _ => NegInf) NegInf
        (fun z => Fin (IZR z)) (fun z => Fin (IZR z)) (fun a => a)
        (fun a => match a with Some x => Some (Rtrunc x) | None => None end)
        (fun f a => match a with Some x => Fin (rfn sp f x)
                              | None => match f with FExp => Fin 0 | _ => NegInf end end)
        (xl1 (sp_lgamma sp))
        (fun a => match a with Some x => sp_lgsign sp x | None => 1%Z end)
        (xl2 rpow)
        (fun f => xl2 (sp_pfn sp f)).

(* ---- what the reductions are named after *)
Definition Rsum (l : list R) : R := fold_right Rplus 0 l.
Definition smoothmax_spec (alpha : R) (xs : list R) : R :=
  Rsum (map (fun x => x * exp (alpha * x)) xs) / Rsum (map (fun x => exp (alpha * x)) xs).
Definition sumsq (xs : list R) : R := Rsum (map (fun x => x * x) xs).
Definition dot (xs ys : list R) : R := Rsum (map (fun p => fst p * snd p) (combine xs ys)).
Definition fins (xs : list R) : list (sval XR) := map (fun x => VF (Fin x)) xs.

(* Log1pExp approximates ln(1+e^x) outside (-37, 18]; the error of each branch *)
Definition l1pe_err (x : R) : R :=
  if Rle_dec x (-37) then exp x * exp x
  else if Rle_dec x 18 then 0
  else if Rle_dec x lit33_3 then exp (- x) * exp (- x)
  else exp (- x).

Definition is_float_ty (t : ty) : bool := is_fbase (base_of t).
Definition is_int_ty (t : ty) : bool := negb (is_fbase (base_of t)).
