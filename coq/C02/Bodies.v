(* C02, round 6 — the BODIES of the scalar methods that work on scratch scalars, as syntax.

   A small statement language for the Go bodies of LogAdd, LogSub, Sigmoid, Logistic, Log1pExp, SmoothMax,
   LogSmoothMax and Vmean (scalar_template_math.in / scalar_real_template_math.in and the _concrete twins
   LOGADD / LOGSUB): method calls on the receiver, on the scratch scalars t / t[k] and on a local temporary,
   if / else-if chains, the swap `a, b = b, a`, early return, and the loop over the elements of the vector
   operand.  [exec_body] is its interpreter on the state of coq/C02/ModelSt.v (receiver and scratch scalars
   with arbitrary content on entry).

   The programs [P_...] below are the expected bodies.  go2coq_c02 (go/parser + go/ast) regenerates the body
   of every one of these methods from the 18 files scalar_<type>_math.go / scalar_<type>_math_concrete.go of
   /repo on every run and Coq checks, by reflexivity, that each regenerated body IS the expected program of its
   receiver type (runs/C02/gen_bodies.v); coq/C02/ProofsBodies.v proves that the interpreter run on the expected
   programs is the state-passing model (ModelSt.v) the theorems of PropsSt.v are about.
   No proofs in this file. *)
From Coq Require Import ZArith List Bool.
From ADV Require Import C02.Model C02.ModelSt.
Import ListNotations.
Open Scope Z_scope.

Inductive dreg := Dc | Dt (k : reg3) | Dtmp.      (* receiver c / r;  scratch t (= t[0]) / t[k];  t := NewScalar(c.Type(), 0.0) *)
Inductive arg :=
  | AD (d : dreg)                                  (* a scalar object of the call *)
  | AA | AB                                        (* the operands a, b (swappable) *)
  | AX                                             (* x.ConstAt(i) / a.ConstAt(i) inside the loop *)
  | AAlpha
  | AOne (t : ty)                                  (* ConstFloat64(1.0), ConstInt8(1.0), ... *)
  | ADim (t : ty).                                 (* ConstFloat64(float64(a.Dim())), ... *)
Inductive meth := MAr (o : aop) | MNeg | MFn (f : ufn) | MSet | MReset | MSetNegInf | MLogAdd.
Inductive cnd :=
  | CGreater                                       (* a.Greater(b) *)
  | CIsInf (x : arg) (s : Z)                       (* math.IsInf(x.GetFloat64(), s) *)
  | CLe (x : arg) (l : lit)                        (* x.GetFloat64() <= l *)
  | CGe0 (x : arg).                                (* x.GetFloat64() >= 0 *)
Inductive simple := ICall (d : dreg) (m : meth) (args : list arg) | ISwapAB | IRet | INewTmp.
Inductive stmt :=
  | SS (s : simple)
  | SChain (arms : list (cnd * list simple)) (dflt : list simple)     (* if c1 {..} else if c2 {..} ... else {dflt} *)
  | SFor (body : list simple).                                         (* for i := 0; i < x.Dim(); i++ {..} *)
Definition body := list stmt.

Section Exec.
Context {A : Type} (C : Car A).
Variables (tc : ty) (B : bank).

Record env := mkEnv { ec : sval A; et0 : sval A; et1 : sval A; et2 : sval A; etmp : sval A;
                      ea : sc A; eb : sc A; ex : sval A; ealpha : sval A; edim : Z }.
Definition dty (d : dreg) : ty := match d with Dc | Dtmp => tc | Dt k => kty B k end.
Definition dget (d : dreg) (e : env) : sval A :=
  match d with Dc => ec e | Dtmp => etmp e | Dt K0 => et0 e | Dt K1 => et1 e | Dt K2 => et2 e end.
Definition dset (d : dreg) (v : sval A) (e : env) : env :=
  match d with
  | Dc => mkEnv v (et0 e) (et1 e) (et2 e) (etmp e) (ea e) (eb e) (ex e) (ealpha e) (edim e)
  | Dt K0 => mkEnv (ec e) v (et1 e) (et2 e) (etmp e) (ea e) (eb e) (ex e) (ealpha e) (edim e)
  | Dt K1 => mkEnv (ec e) (et0 e) v (et2 e) (etmp e) (ea e) (eb e) (ex e) (ealpha e) (edim e)
  | Dt K2 => mkEnv (ec e) (et0 e) (et1 e) v (etmp e) (ea e) (eb e) (ex e) (ealpha e) (edim e)
  | Dtmp => mkEnv (ec e) (et0 e) (et1 e) (et2 e) v (ea e) (eb e) (ex e) (ealpha e) (edim e)
  end.
Definition setx (x : sval A) (e : env) : env :=
  mkEnv (ec e) (et0 e) (et1 e) (et2 e) (etmp e) (ea e) (eb e) x (ealpha e) (edim e).
Definition swapab (e : env) : env :=
  mkEnv (ec e) (et0 e) (et1 e) (et2 e) (etmp e) (eb e) (ea e) (ex e) (ealpha e) (edim e).

Definition ev (x : arg) (e : env) : sc A :=
  match x with
  | AD d => (dty d, dget d e)
  | AA => ea e | AB => eb e
  | AX => (tc, ex e)
  | AAlpha => (TCFloat64, ealpha e)
  | AOne t => (t, if is_fbase (base_of t) then VF (clit C L1) else VI 1)
  | ADim t => (t, if is_fbase (base_of t) then VF (cofZ64 C (edim e)) else VI (edim e))
  end.

Definition exec_call (d : dreg) (m : meth) (args : list arg) (e : env) : res env :=
  match m, args with
  | MAr o, [x; y] => v <- arith C (dty d) o (snd (ev x e)) (snd (ev y e)) ;; Val (dset d v e)
  | MNeg, [x] => v <- neg C (dty d) (snd (ev x e)) ;; Val (dset d v e)
  | MFn f, [x] => v <- un C (dty d) f (snd (ev x e)) ;; Val (dset d v e)
  | MSet, [x] => v <- set C (dty d) (snd (ev x e)) ;; Val (dset d v e)
  | MReset, [] => Val (dset d (reset_ C (dty d) (dget d e)) e)
  | MSetNegInf, [] => v <- setf_ C (dty d) (dget d e) (cinf C (-1)) ;; Val (dset d v e)
  | MLogAdd, [x; y; AD ts] =>
      p <- logadd_st C (dty d) (dty ts) (ev x e) (ev y e) (dget ts e) ;; Val (dset d (fst p) (dset ts (snd p) e))
  | _, _ => Panic
  end.
(* the flag says: the method has returned *)
Definition exec_simple (s : simple) (e : env) : res (env * bool) :=
  match s with
  | ICall d m args => e' <- exec_call d m args e ;; Val (e', false)
  | ISwapAB => Val (swapab e, false)
  | IRet => Val (e, true)
  | INewTmp => Val (dset Dtmp (zero_of C (base_of tc)) e, false)
  end.
Fixpoint exec_block (l : list simple) (e : env) : res (env * bool) :=
  match l with
  | [] => Val (e, false)
  | s :: l' => p <- exec_simple s e ;; if snd p then Val p else exec_block l' (fst p)
  end.
Definition eval_cnd (c : cnd) (e : env) : res bool :=
  match c with
  | CGreater => cmp C (fst (ea e)) RGt (snd (ea e)) (snd (eb e))
  | CIsInf x s => Val (cisinf C (getf64 C (snd (ev x e))) s)
  | CLe x l => Val (cleb C (getf64 C (snd (ev x e))) (clit C l))
  | CGe0 x => Val (cleb C (clit C L0) (getf64 C (snd (ev x e))))
  end.
Fixpoint exec_chain (arms : list (cnd * list simple)) (dflt : list simple) (e : env) : res (env * bool) :=
  match arms with
  | [] => exec_block dflt e
  | (c, blk) :: rest => b <- eval_cnd c e ;; if b then exec_block blk e else exec_chain rest dflt e
  end.
Fixpoint exec_for (blk : list simple) (xs : list (sval A)) (e : env) : res (env * bool) :=
  match xs with
  | [] => Val (e, false)
  | x :: xs' => p <- exec_block blk (setx x e) ;; if snd p then Val p else exec_for blk xs' (fst p)
  end.
Definition exec_stmt (xs : list (sval A)) (s : stmt) (e : env) : res (env * bool) :=
  match s with
  | SS s => exec_simple s e
  | SChain arms dflt => exec_chain arms dflt e
  | SFor blk => exec_for blk xs e
  end.
Fixpoint exec_body (xs : list (sval A)) (p : body) (e : env) : res (env * bool) :=
  match p with
  | [] => Val (e, false)
  | s :: p' => q <- exec_stmt xs s e ;; if snd q then Val q else exec_body xs p' (fst q)
  end.
Definition st_of (e : env) : st := mkSt (ec e) (et0 e) (et1 e) (et2 e).
Definition env_of (s : st (A:=A)) (a b : sc A) (alpha : sval A) (n : Z) : env :=
  mkEnv (sr s) (s0 s) (s1 s) (s2 s) (VI 0) a b (VI 0) alpha n.

End Exec.

(* ------------------------------------------------------------------ the expected bodies *)
Definition t0 := Dt K0.  Definition t1 := Dt K1.  Definition t2 := Dt K2.
Definition call d m args := SS (ICall d m args).

Definition P_LogAdd : body :=
  [ SChain [(CGreater, [ISwapAB])] [];
    SChain [(CIsInf AA 0, [ICall Dc MSet [AB]; IRet])] [];
    call t0 (MAr OSub) [AA; AB];
    call t0 (MFn FExp) [AD t0];
    call t0 (MFn FLog1p) [AD t0];
    call Dc (MAr OAdd) [AD t0; AB];
    SS IRet ].
Definition P_LogSub : body :=
  [ SChain [(CIsInf AB (-1), [ICall Dc MSet [AA]; IRet])] [];
    call t0 (MAr OSub) [AB; AA];
    call t0 (MFn FExp) [AD t0];
    call t0 MNeg [AD t0];
    call t0 (MFn FLog1p) [AD t0];
    call Dc (MAr OAdd) [AD t0; AA];
    SS IRet ].
Definition P_Log1pExp : body :=
  [ SChain [ (CLe AA Lm37, [ICall Dc (MFn FExp) [AA]]);
             (CLe AA L18, [ICall Dc (MFn FExp) [AA]; ICall Dc (MFn FLog1p) [AD Dc]]);
             (CLe AA L33_3, [INewTmp; ICall Dtmp MNeg [AA]; ICall Dtmp (MFn FExp) [AD Dtmp]; ICall Dc (MAr OAdd) [AA; AD Dtmp]]) ]
           [ICall Dc MSet [AA]];
    SS IRet ].
Definition P_Sigmoid (tc : ty) : body :=
  let one := AOne (const_of tc) in
  [ SChain [ (CGe0 AA, [ICall Dc MNeg [AA]; ICall Dc (MFn FExp) [AD Dc]; ICall Dc (MAr OAdd) [AD Dc; one];
                        ICall Dc (MAr ODiv) [one; AD Dc]]) ]
           [ICall t0 (MFn FExp) [AA]; ICall Dc MSet [AD t0]; ICall t0 (MAr OAdd) [AD t0; one]; ICall Dc (MAr ODiv) [AD Dc; AD t0]];
    SS IRet ].
Definition P_Logistic (tc : ty) : body :=
  let one := AOne (const_of tc) in
  [ call Dc MNeg [AA]; call Dc (MFn FExp) [AD Dc]; call Dc (MAr OAdd) [one; AD Dc]; call Dc (MAr ODiv) [one; AD Dc]; SS IRet ].
Definition P_SmoothMax : body :=
  [ call Dc MReset [];
    call t1 MReset [];
    SFor [ ICall t0 (MAr OMul) [AAlpha; AX];
           ICall t0 (MFn FExp) [AD t0];
           ICall t1 (MAr OAdd) [AD t1; AD t0];
           ICall t0 (MAr OMul) [AD t0; AX];
           ICall Dc (MAr OAdd) [AD Dc; AD t0] ];
    call Dc (MAr ODiv) [AD Dc; AD t1];
    SS IRet ].
Definition P_LogSmoothMax : body :=
  [ call Dc MSetNegInf [];
    call t2 MSetNegInf [];
    SFor [ ICall t0 (MAr OMul) [AX; AAlpha];
           ICall t2 MLogAdd [AD t2; AD t0; AD t1];
           ICall t1 (MFn FLog) [AX];
           ICall t0 (MAr OAdd) [AD t0; AD t1];
           ICall Dc MLogAdd [AD Dc; AD t0; AD t1] ];
    call Dc (MAr OSub) [AD Dc; AD t2];
    call Dc (MFn FExp) [AD Dc];
    SS IRet ].
Definition P_Vmean (tc : ty) : body :=
  [ call Dc MReset [];
    SFor [ ICall Dc (MAr OAdd) [AD Dc; AX] ];
    call Dc (MAr ODiv) [AD Dc; ADim (const_of tc)];
    SS IRet ].
