(* C02, round 6 — the interpreter of coq/C02/Bodies.v run on the expected bodies IS the state-passing model
   coq/C02/ModelSt.v: for every carrier, every receiver type and scratch bank, every state and operands. *)
From Coq Require Import ZArith List Bool.
From ADV Require Import C02.Model C02.ModelSt C02.Bodies.
Import ListNotations.

Section PB.
Context {A : Type} (C : Car A).
Variables (tc : ty) (B : bank).

Ltac rdx := cbn [exec_body exec_stmt exec_chain exec_block exec_simple exec_call eval_cnd exec_for bind rmap fst snd
                 ev dty dget dset swapab setx kty call t0 t1 t2 st_of env_of
                 ec et0 et1 et2 etmp ea eb ex ealpha edim sr s0 s1 s2 bt0 bt1 bt2].
(* destruct the atom at the head of the left-hand side (program order), on both sides at once *)
Ltac hd t k :=
  lazymatch t with
  | bind ?m _ => hd m k
  | rmap _ ?m => hd m k
  | (if ?b then _ else _) => hd b k
  | Val _ => fail | Panic => fail | Excl => fail | NilRet => fail | true => fail | false => fail
  | _ => k t
  end.
Ltac step := rdx; match goal with |- ?L = _ => hd L ltac:(fun a => destruct a) end.
Ltac dres := repeat step; rdx; try reflexivity.

Definition ct (p : env (A:=A) * bool) : sval A * sval A := (ec (fst p), et0 (fst p)).

Lemma P_LogAdd_ok xs e : rmap ct (exec_body C tc B xs P_LogAdd e) = logadd_st C tc (bt0 B) (ea e) (eb e) (et0 e).
Proof. unfold P_LogAdd, logadd_st, ct. dres. Qed.
Lemma P_LogSub_ok xs e : rmap ct (exec_body C tc B xs P_LogSub e) = logsub_st C tc (bt0 B) (ea e) (eb e) (et0 e).
Proof. unfold P_LogSub, logsub_st, ct. dres. Qed.

Definition cr (p : env (A:=A) * bool) : sval A := ec (fst p).
Lemma P_Log1pExp_ok xs e : rmap cr (exec_body C tc B xs P_Log1pExp e) = log1pexp C tc (snd (ea e)).
Proof. unfold P_Log1pExp, log1pexp, cr. dres. Qed.

Lemma base_const t : base_of (const_of t) = base_of t.
Proof. destruct t; reflexivity. Qed.
Lemma ev_one e : ev C tc B (AOne (const_of tc)) e = one_c C tc.
Proof. unfold ev, one_c. rewrite base_const. reflexivity. Qed.
Lemma ev_dim e : snd (ev C tc B (ADim (const_of tc)) e) = dim_c C tc (edim e).
Proof. unfold ev, dim_c. rewrite base_const. reflexivity. Qed.
Ltac stepw H := rdx; rewrite ?H; match goal with |- ?L = _ => hd L ltac:(fun a => destruct a) end.

Lemma P_Sigmoid_ok xs e : rmap ct (exec_body C tc B xs (P_Sigmoid tc) e) = sigmoid_st C tc (bt0 B) (snd (ea e)) (et0 e).
Proof.
  unfold P_Sigmoid, sigmoid_st, ct. pose proof ev_one as H1. set (one := AOne (const_of tc)) in *. clearbody one.
  repeat stepw H1; rdx; rewrite ?H1; try reflexivity.
Qed.
Lemma P_Logistic_ok xs e : rmap cr (exec_body C tc B xs (P_Logistic tc) e) = logistic C tc (snd (ea e)).
Proof.
  unfold P_Logistic, logistic, cr. pose proof ev_one as H1. set (one := AOne (const_of tc)) in *. clearbody one.
  repeat stepw H1; rdx; rewrite ?H1; try reflexivity.
Qed.

(* ---- loops *)
Lemma last_cons (x : sval A) l d : last (x :: l) d = last l x.
Proof. revert x d. induction l as [|y l IH]; intros x d; [reflexivity|]. change (last (x :: y :: l) d) with (last (y :: l) d). rewrite (IH y d), (IH y x). reflexivity. Qed.

Definition smoothmax_blk : list simple :=
  [ ICall t0 (MAr OMul) [AAlpha; AX]; ICall t0 (MFn FExp) [AD t0]; ICall t1 (MAr OAdd) [AD t1; AD t0];
    ICall t0 (MAr OMul) [AD t0; AX]; ICall Dc (MAr OAdd) [AD Dc; AD t0] ].
Lemma for_smoothmax xs : forall e,
  exec_for C tc B smoothmax_blk xs e
  = rmap (fun q : sval A * sval A * sval A =>
            (mkEnv (fst (fst q)) (snd (fst q)) (snd q) (et2 e) (etmp e) (ea e) (eb e) (last xs (ex e)) (ealpha e) (edim e), false))
         (smoothmax_loop_st C tc (bt0 B) (bt1 B) (ealpha e) xs (ec e) (et0 e) (et1 e)).
Proof.
  induction xs as [|x xs IH]; intros e; [destruct e; reflexivity|].
  cbn [exec_for smoothmax_loop_st]. set (K := exec_for C tc B smoothmax_blk xs) in *. unfold smoothmax_blk. rdx.
  destruct (arith C (bt0 B) OMul (ealpha e) x) as [u1| | |]; rdx; try reflexivity.
  destruct (un C (bt0 B) FExp u1) as [u2| | |]; rdx; try reflexivity.
  destruct (arith C (bt1 B) OAdd (et1 e) u2) as [s'| | |]; rdx; try reflexivity.
  destruct (arith C (bt0 B) OMul u2 x) as [u3| | |]; rdx; try reflexivity.
  destruct (arith C tc OAdd (ec e) u3) as [r'| | |]; rdx; try reflexivity.
  subst K. rewrite IH. rdx. rewrite last_cons. reflexivity.
Qed.
Lemma P_SmoothMax_ok xs e : rmap (fun p => st_of (fst p)) (exec_body C tc B xs P_SmoothMax e) = smoothmax_st C tc B xs (ealpha e) (st_of e).
Proof.
  unfold P_SmoothMax, smoothmax_st. rdx. match goal with |- context [exec_for C tc B ?blk xs ?e'] => change (exec_for C tc B blk xs e') with (exec_for C tc B smoothmax_blk xs e') end. rewrite for_smoothmax. rdx.
  destruct (smoothmax_loop_st C tc (bt0 B) (bt1 B) (ealpha e) xs _ _ _) as [[[r u] s]| | |]; rdx; try reflexivity.
  destruct (arith C tc ODiv r s); reflexivity.
Qed.

Definition logsmoothmax_blk : list simple :=
  [ ICall t0 (MAr OMul) [AX; AAlpha]; ICall t2 MLogAdd [AD t2; AD t0; AD t1]; ICall t1 (MFn FLog) [AX];
    ICall t0 (MAr OAdd) [AD t0; AD t1]; ICall Dc MLogAdd [AD Dc; AD t0; AD t1] ].
Lemma for_logsmoothmax xs : forall e,
  exec_for C tc B logsmoothmax_blk xs e
  = rmap (fun q : sval A * sval A * sval A * sval A =>
            (mkEnv (fst (fst (fst q))) (snd (fst (fst q))) (snd (fst q)) (snd q) (etmp e) (ea e) (eb e) (last xs (ex e)) (ealpha e) (edim e), false))
         (logsmoothmax_loop_st C tc (bt0 B) (bt1 B) (bt2 B) (ealpha e) xs (ec e) (et0 e) (et1 e) (et2 e)).
Proof.
  induction xs as [|x xs IH]; intros e; [destruct e; reflexivity|].
  cbn [exec_for logsmoothmax_loop_st]. set (K := exec_for C tc B logsmoothmax_blk xs) in *. unfold logsmoothmax_blk. rdx.
  destruct (arith C (bt0 B) OMul x (ealpha e)) as [u1| | |]; rdx; try reflexivity.
  destruct (logadd_st C (bt2 B) (bt1 B) (bt2 B, et2 e) (bt0 B, u1) (et1 e)) as [[w l1]| | |]; rdx; try reflexivity.
  destruct (un C (bt1 B) FLog x) as [l2| | |]; rdx; try reflexivity.
  destruct (arith C (bt0 B) OAdd u1 l2) as [u2| | |]; rdx; try reflexivity.
  destruct (logadd_st C tc (bt1 B) (tc, ec e) (bt0 B, u2) l2) as [[r' l3]| | |]; rdx; try reflexivity.
  subst K. rewrite IH. rdx. rewrite last_cons. reflexivity.
Qed.
Lemma P_LogSmoothMax_ok xs e :
  rmap (fun p => st_of (fst p)) (exec_body C tc B xs P_LogSmoothMax e) = logsmoothmax_st C tc B xs (ealpha e) (st_of e).
Proof.
  unfold P_LogSmoothMax, logsmoothmax_st. rdx. unfold setf_.
  destruct (store C (base_of tc) (cinf C (-1))) as [r| | |]; rdx; try reflexivity.
  unfold setf_. destruct (store C (base_of (bt2 B)) (cinf C (-1))) as [w| | |]; rdx; try reflexivity.
  match goal with |- context [exec_for C tc B ?blk xs ?e'] => change (exec_for C tc B blk xs e') with (exec_for C tc B logsmoothmax_blk xs e') end. rewrite for_logsmoothmax. rdx.
  destruct (logsmoothmax_loop_st C tc (bt0 B) (bt1 B) (bt2 B) (ealpha e) xs r (et0 e) (et1 e) w) as [[[[r' u] l] w']| | |]; rdx; try reflexivity.
  destruct (arith C tc OSub r' w') as [r2| | |]; rdx; try reflexivity.
  destruct (un C tc FExp r2); reflexivity.
Qed.

Definition vmean_blk : list simple := [ ICall Dc (MAr OAdd) [AD Dc; AX] ].
Lemma for_vmean xs : forall e,
  exec_for C tc B vmean_blk xs e
  = rmap (fun r : sval A => (mkEnv r (et0 e) (et1 e) (et2 e) (etmp e) (ea e) (eb e) (last xs (ex e)) (ealpha e) (edim e), false))
         (sum_loop C tc xs (ec e)).
Proof.
  induction xs as [|x xs IH]; intros e; [destruct e; reflexivity|].
  cbn [exec_for sum_loop]. set (K := exec_for C tc B vmean_blk xs) in *. unfold vmean_blk. rdx.
  destruct (arith C tc OAdd (ec e) x) as [r'| | |]; rdx; try reflexivity.
  subst K. rewrite IH. rdx. rewrite last_cons. reflexivity.
Qed.
Lemma P_Vmean_ok xs e : edim e = Z.of_nat (length xs) ->
  rmap (fun p => st_of (fst p)) (exec_body C tc B xs (P_Vmean tc) e) = vmean_st C tc xs (st_of e).
Proof.
  intros D. unfold P_Vmean, vmean_st, rset. rdx. match goal with |- context [exec_for C tc B ?blk xs ?e'] => change (exec_for C tc B blk xs e') with (exec_for C tc B vmean_blk xs e') end. rewrite for_vmean. rdx.
  unfold reset_. destruct (sum_loop C tc xs (zero_of C (base_of tc))) as [r| | |]; rdx; try reflexivity.
  rewrite base_const, D. unfold dim_c. destruct (arith C tc ODiv r _); reflexivity.
Qed.

End PB.

(* ---- value expressions (coq/C02/Values.v) *)
From ADV Require Import C02.Values.
Section PV.
Context {A : Type} (C : Car A).
Lemma V_un_ok t f a : all_paths_store C t (getf64 C a) (getf64 C a) (V_un f) (un C t f a).
Proof. repeat constructor. Qed.
Lemma V_Pow_bare_ok t a k : all_paths_store C t (getf64 C a) (getf64 C k) V_Pow_bare (pow C t a k).
Proof. repeat constructor. Qed.
Lemma V_Pow_real_ok t a k : all_paths_store C t (getf64 C a) (getf64 C k) V_Pow_real (pow C t a k).
Proof. repeat constructor. Qed.
Lemma V_Sqrt_ok t a : all_paths_store C t (getf64 C a) (getf64 C a) V_Sqrt (sqrt_ C t a).
Proof. repeat constructor. Qed.
Lemma V_SQRT_bare_ok t a : is_real t = false -> all_paths_store C t (getf64 C a) (getf64 C a) V_SQRT_bare (SQRT_ C t a).
Proof. intros H. unfold SQRT_. rewrite H. repeat constructor. Qed.
Lemma V_SQRT_real_ok t a : is_real t = true -> all_paths_store C t (getf64 C a) (getf64 C a) V_SQRT_real (SQRT_ C t a).
Proof. intros H. unfold SQRT_. rewrite H. repeat constructor. Qed.
End PV.
