(* C02, round 7 — statements only.
   (1) Pow / POW of the INTEGER receivers: the power is taken of the operands' float64 readings (Ext.epow, the whole
       special-case table) and truncated toward zero afterwards; negative integral exponents; non-integral bases held in
       a float operand are not truncated before the power is taken.
   (2) LogAdd / LogSub of the integer receivers with -oo (neutral element) held in a float operand.
   (3) LogAdd / LogSub of the float receivers at every pair of infinities, spelled out.
   Carrier ER = R + {+oo, -oo, NaN} (Ext.CarE), every receiver type with an integer base, every operand holder. *)
From Coq Require Import Reals ZArith List Bool Lra.
From ADV Require Import Base.Num C02.Model C02.Spec C02.ProofsReal C02.Ext C02.ProofsExt C02.ProofsPow C02.ProofsR7.
Import ListNotations.
Open Scope R_scope.
Notation CE := CarE.

Theorem C02_int_pow_ext : forall sp t a k, ibase t ->
  pow (CE sp) t a k = (z <- f2i (CE sp) (bits (base_of t)) (epow (getf64 (CE sp) a) (getf64 (CE sp) k)) ;; Val (VI z)).
Proof. exact int_pow_ext. Qed.
Theorem C02_int_pow_truncates_the_power : forall sp t a k r, ibase t ->
  epow (getf64 (CE sp) a) (getf64 (CE sp) k) = EFin r -> inrange (bits (base_of t)) (Rtrunc r) = true ->
  pow (CE sp) t a k = Val (VI (Rtrunc r)).
Proof. exact int_pow_finite. Qed.
Theorem C02_int_pow_negative_exponent : forall sp t x n, ibase t -> (2 <= x \/ x <= -2)%Z -> (n < 0)%Z ->
  pow (CE sp) t (VI x) (VI n) = Val (VI 0).
Proof. exact int_pow_negative_exponent. Qed.
Theorem C02_int_pow_unit_base : forall sp t k, ibase t -> pow (CE sp) t (VI 1) k = Val (VI 1).
Proof. exact int_pow_unit_base. Qed.
Theorem C02_int_pow_float_base_not_truncated : forall sp t x (n : nat), ibase t -> 0 < x ->
  inrange (bits (base_of t)) (Rtrunc (x ^ n)) = true ->
  pow (CE sp) t (VF (EFin x)) (VI (Z.of_nat n)) = Val (VI (Rtrunc (x ^ n))).
Proof. exact int_pow_float_base. Qed.
(* 2.5^2 = 6 (not 2^2 = 4) and 0.5^-2 = 4 on every integer receiver *)
Theorem C02_int_pow_values : forall sp t, ibase t ->
  (pow (CE sp) t (VF (EFin (5 / 2))) (VI 2) = Val (VI 6) /\ pow (CE sp) t (VI 2) (VI 2) = Val (VI 4))
  /\ pow (CE sp) t (VF (EFin (/ 2))) (VI (-2)) = Val (VI 4).
Proof. exact (fun sp t H => conj (int_pow_two_and_a_half_squared sp t H) (int_pow_half_minus_two sp t H)). Qed.

Theorem C02_int_logadd_neutral_int : forall sp tc tq ta tb z, ibase tc -> fty ta ->
  logadd (CE sp) tc tq (ta, VF ENInf) (tb, VI z) = Val (VI (wrap (bits (base_of tc)) z)).
Proof. exact int_logadd_neutral_int. Qed.
Theorem C02_int_logsub_neutral_int : forall sp tc tq ta tb z, ibase tc ->
  logsub (CE sp) tc tq (ta, VI z) (tb, VF ENInf) = Val (VI (wrap (bits (base_of tc)) z)).
Proof. exact int_logsub_neutral_int. Qed.
Theorem C02_int_log_scale_neutral_float : forall sp tc tq ta tb x, ibase tc -> fty ta ->
  inrange (bits (base_of tc)) (Rtrunc x) = true ->
  logadd (CE sp) tc tq (ta, VF ENInf) (tb, VF (EFin x)) = Val (VI (Rtrunc x))
  /\ logadd (CE sp) tc tq (ta, VF (EFin x)) (tb, VF ENInf) = Val (VI (Rtrunc x))
  /\ logsub (CE sp) tc tq (ta, VF (EFin x)) (tb, VF ENInf) = Val (VI (Rtrunc x)).
Proof. exact int_logadd_neutral_float. Qed.
(* every receiver type (float or integer), every first operand: subtracting e^-oo = 0 leaves the first operand *)
Theorem C02_logsub_neutral : forall sp tc tq a tb, logsub (CE sp) tc tq a (tb, VF ENInf) = set (CE sp) tc (snd a).
Proof. exact logsub_ninf. Qed.

Theorem C02_ext_log_scale_infinite_pairs : forall sp tc tq ta tb, fty tc -> fty tq -> fty ta ->
  logadd (CE sp) tc tq (ta, VF EPInf) (tb, VF EPInf) = Val (VF EPInf)
  /\ logadd (CE sp) tc tq (ta, VF EPInf) (tb, VF ENInf) = Val (VF EPInf)
  /\ logadd (CE sp) tc tq (ta, VF ENInf) (tb, VF EPInf) = Val (VF EPInf)
  /\ logadd (CE sp) tc tq (ta, VF ENInf) (tb, VF ENInf) = Val (VF ENInf)
  /\ logsub (CE sp) tc tq (ta, VF EPInf) (tb, VF EPInf) = Val (VF ENaN)
  /\ logsub (CE sp) tc tq (ta, VF EPInf) (tb, VF ENInf) = Val (VF EPInf)
  /\ logsub (CE sp) tc tq (ta, VF ENInf) (tb, VF EPInf) = Val (VF ENaN).
Proof. exact ext_log_scale_infinite_pairs. Qed.
Theorem C02_ext_log_scale_pinf_finite : forall sp tc tq ta tb x, fty tc -> fty tq -> fty ta ->
  logadd (CE sp) tc tq (ta, VF EPInf) (tb, VF (EFin x)) = Val (VF EPInf)
  /\ logadd (CE sp) tc tq (ta, VF (EFin x)) (tb, VF EPInf) = Val (VF EPInf)
  /\ logsub (CE sp) tc tq (ta, VF EPInf) (tb, VF (EFin x)) = Val (VF EPInf)
  /\ logsub (CE sp) tc tq (ta, VF (EFin x)) (tb, VF EPInf) = Val (VF ENaN).
Proof. exact ext_logadd_pinf_finite. Qed.

(* non-vacuity: the hypotheses are satisfiable by the five integer receiver types, the float holders and concrete operands *)
Example C02_r7_nonvacuous :
  ibase TInt8 /\ ibase TInt16 /\ ibase TInt32 /\ ibase TInt64 /\ ibase TInt /\ fty TFloat64 /\ fty TReal32 /\ fty TCFloat32
  /\ ((2 <= 2 \/ 2 <= -2) /\ (-1 < 0))%Z /\ ((2 <= -3 \/ -3 <= -2) /\ (-2 < 0))%Z
  /\ 0 < 5 / 2 /\ inrange (bits (base_of TInt8)) 6 = true /\ inrange (bits (base_of TInt8)) 0 = true
  /\ (exists r, epow (EFin (IZR 3)) (EFin (IZR 2)) = EFin r).
Proof.
  repeat match goal with |- _ /\ _ => split end;
    try reflexivity; try lra; try (left; intro H; discriminate H); try (right; intro H; discriminate H).
  eexists. rewrite epow_positive by lra. reflexivity.
Qed.
