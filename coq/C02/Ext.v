(* C02, round 2 — the EXTENDED carrier  ER = R + {+oo, -oo, NaN}  (specification side).

   coq/C02/Spec.v's carrier XR knows the reals and -oo only, and answers ln 0 / ln(negative) with Coq's
   junk values; the behaviour of the transcendental methods at the IEEE special operands was therefore
   compared bit-exactly per sampled case only.  On ER the same op table (coq/C02/Model.v, unchanged) is
   instantiated with IEEE 754 arithmetic on the infinities and NaN and with the value C99 Annex F / Go's
   package math assign to each elementary function at +Inf, -Inf, NaN and at the domain edges
   (Log 0 = -Inf, Log(x<0) = NaN, Log1p(-1) = -Inf, Log1p(x<-1) = NaN, Sqrt(x<0) = NaN).

   The table at the non-finite arguments is the COMPUTABLE function [fn_special]; the correspondence run
   checks every recorded math.* call with a non-finite argument (and the domain-edge calls) against it
   (CorrExt.special_ok, evaluated by vm_compute in runs/C02/cert_special.v), so the table is tied to what
   Go's math package returns on the machine that runs the check.

   Limits of this carrier: R has one zero (no -0: x/0 takes the +0 reading and no theorem uses it);
   storage rounding is the identity (no overflow to Inf, no underflow), as in Spec.v. *)
From Coq Require Import Reals ZArith List Bool Lra.
From ADV Require Import Base.Num C02.Model C02.Spec.
Import ListNotations.
Open Scope R_scope.

Inductive ER := EFin (x : R) | EPInf | ENInf | ENaN.

(* ---- the special-value table of the elementary functions (computable) *)
Inductive xarg := XPInf | XNInf | XNaN.
Inductive xres := YPInf | YNInf | YNaN | YZ (z : Z).
(* None: not claimed (special.LogErfc at +-Inf: the value at -Inf is ln 2, the one at +Inf is C13's business) *)
Definition fn_special (f : ufn) (a : xarg) : option xres :=
  match a with
  | XNaN => Some YNaN
  | XPInf =>
      match f with
      | FExp | FLog | FLog1p | FSinh | FCosh | FGamma | FSqrt => Some YPInf
      | FSin | FCos | FTan => Some YNaN
      | FTanh | FErf => Some (YZ 1)
      | FErfc => Some (YZ 0)
      | FLogErfc => None
      end
  | XNInf =>
      match f with
      | FExp => Some (YZ 0)
      | FLog | FLog1p | FSqrt | FGamma | FSin | FCos | FTan => Some YNaN
      | FSinh => Some YNInf
      | FCosh => Some YPInf
      | FTanh | FErf => Some (YZ (-1))
      | FErfc => Some (YZ 2)
      | FLogErfc => None
      end
  end.
Definition er_of_xres (y : xres) : ER :=
  match y with YPInf => EPInf | YNInf => ENInf | YNaN => ENaN | YZ z => EFin (IZR z) end.
Definition er_of_xarg (a : xarg) : ER := match a with XPInf => EPInf | XNInf => ENInf | XNaN => ENaN end.

(* domain edges at finite arguments *)
Inductive edge := EdgeNInf | EdgeNaN | EdgeNone.
Definition fn_edge (f : ufn) (x : R) : edge :=
  match f with
  | FLog => if Req_EM_T x 0 then EdgeNInf else if Rlt_dec x 0 then EdgeNaN else EdgeNone
  | FLog1p => if Req_EM_T x (-1) then EdgeNInf else if Rlt_dec x (-1) then EdgeNaN else EdgeNone
  | FSqrt => if Rlt_dec x 0 then EdgeNaN else EdgeNone
  | _ => EdgeNone
  end.

Definition efn (sp : specials) (f : ufn) (a : ER) : ER :=
  match a with
  | EFin x => match fn_edge f x with EdgeNInf => ENInf | EdgeNaN => ENaN | EdgeNone => EFin (rfn sp f x) end
  | EPInf => match fn_special f XPInf with Some y => er_of_xres y | None => ENaN end
  | ENInf => match f with
             | FLogErfc => EFin (ln 2)
             | _ => match fn_special f XNInf with Some y => er_of_xres y | None => ENaN end
             end
  | ENaN => ENaN
  end.

(* ---- IEEE 754 arithmetic on ER *)
Definition esgn (x : R) : Z := if Rlt_dec 0 x then 1%Z else if Rlt_dec x 0 then (-1)%Z else 0%Z.
Definition einf_of_sign (s : Z) : ER := if (0 <? s)%Z then EPInf else if (s <? 0)%Z then ENInf else ENaN.
Definition esign (a : ER) : Z :=
  match a with EFin x => esgn x | EPInf => 1%Z | ENInf => (-1)%Z | ENaN => 0%Z end.

Definition eneg (a : ER) : ER :=
  match a with EFin x => EFin (- x) | EPInf => ENInf | ENInf => EPInf | ENaN => ENaN end.
Definition eabs (a : ER) : ER :=
  match a with EFin x => EFin (Rabs x) | EPInf | ENInf => EPInf | ENaN => ENaN end.
Definition eadd (a b : ER) : ER :=
  match a with
  | ENaN => ENaN
  | EFin x => match b with EFin y => EFin (x + y) | _ => b end
  | EPInf => match b with ENaN | ENInf => ENaN | _ => EPInf end
  | ENInf => match b with ENaN | EPInf => ENaN | _ => ENInf end
  end.
Definition esub (a b : ER) : ER :=
  match a, b with
  | EFin x, EFin y => EFin (x - y)
  | _, _ => eadd a (eneg b)
  end.
Definition emul (a b : ER) : ER :=
  match a, b with
  | EFin x, EFin y => EFin (x * y)
  | ENaN, _ | _, ENaN => ENaN
  | _, _ => einf_of_sign (esign a * esign b)        (* Inf * 0 = NaN *)
  end.
Definition ediv (a b : ER) : ER :=
  match a, b with
  | ENaN, _ | _, ENaN => ENaN
  | EFin x, EFin y => if Req_EM_T y 0 then einf_of_sign (esgn x)      (* x/+0; 0/0 = NaN *)
                      else EFin (x / y)
  | EFin _, _ => EFin 0                                                (* finite / Inf *)
  | _, EFin y => einf_of_sign (esign a * (if Req_EM_T y 0 then 1 else esgn y))
  | _, _ => ENaN                                                       (* Inf / Inf *)
  end.
Definition eltb (a b : ER) : bool :=
  match a, b with
  | ENaN, _ | _, ENaN => false
  | EFin x, EFin y => Rltb x y
  | ENInf, ENInf => false
  | ENInf, _ => true
  | EPInf, _ => false
  | EFin _, EPInf => true
  | EFin _, ENInf => false
  end.
Definition eeqb (a b : ER) : bool :=
  match a, b with
  | EFin x, EFin y => Reqb x y
  | EPInf, EPInf | ENInf, ENInf => true
  | _, _ => false
  end.
Definition eleb (a b : ER) : bool := eltb a b || eeqb a b.
Definition eisinf (a : ER) (s : Z) : bool :=
  match a with
  | EPInf => (0 <=? s)%Z
  | ENInf => (s <=? 0)%Z
  | _ => false
  end.

Definition el1 (f : R -> R) (a : ER) : ER := match a with EFin x => EFin (f x) | _ => ENaN end.
Definition el2 (f : R -> R -> R) (a b : ER) : ER := match a, b with EFin x, EFin y => EFin (f x y) | _, _ => ENaN end.

(* math.Pow on ER (round 6: the WHOLE special-case table of C99 Annex F / Go's math.Pow; before, only the cases reached
   with the constant exponents 0.5 and 2 were given):
     x^0 = 1 for every x (NaN included);  1^y = 1 for every y (NaN, +-Inf included);  NaN otherwise propagates;
     x > 0: exp(y ln x);  0^y = 0 for y > 0, +oo for y < 0 (R has one zero: the sign IEEE gives to (-0)^odd is not represented);
     x < 0: x^n for an integer exponent n (sign (-1)^n), NaN for a non-integer exponent;
     x^(+oo) = 0 / 1 / +oo for |x| < 1 / = 1 / > 1 (also x = -1: 1), x^(-oo) the reverse;
     (+oo)^y = +oo / 0 for y > 0 / y < 0;  (-oo)^y = -oo for odd integers y > 0, +oo for other y > 0, 0 for y < 0.
   It agrees with Spec.rpow wherever rpow is meaningful (ProofsPow.epow_rpow). *)
Definition Rint (y : R) : bool := Reqb y (IZR (Int_part y)).
Definition Rodd (y : R) : bool := Rint y && Z.odd (Int_part y).
Definition epow (a b : ER) : ER :=
  match b with
  | EFin y =>
      if Req_EM_T y 0 then EFin 1
      else match a with
           | ENaN => ENaN
           | EFin x =>
               if Rlt_dec 0 x then EFin (Rpower x y)
               else if Req_EM_T x 0 then (if Rlt_dec 0 y then EFin 0 else EPInf)
               else if Rint y then EFin (powerRZ x (Int_part y)) else ENaN
           | EPInf => if Rlt_dec 0 y then EPInf else EFin 0
           | ENInf => if Rlt_dec 0 y then (if Rodd y then ENInf else EPInf) else EFin 0
           end
  | ENaN => match a with EFin x => if Req_EM_T x 1 then EFin 1 else ENaN | _ => ENaN end
  | EPInf | ENInf =>
      let up := match b with EPInf => true | _ => false end in
      match a with
      | ENaN => ENaN
      | EFin x => if Req_EM_T (Rabs x) 1 then EFin 1
                  else if Bool.eqb (Rltb (Rabs x) 1) up then EFin 0 else EPInf
      | _ => if up then EPInf else EFin 0
      end
  end.

Definition CarE (sp : specials) : Car ER :=
  mkCar ER (fun l => EFin (rlit l))
        eadd esub emul ediv eneg eabs
        eltb eleb eeqb
        (fun a => match a with ENaN => true | _ => false end)
        eisinf
        (fun s => if (0 <=? s)%Z then EPInf else ENInf) ENaN
        (fun z => EFin (IZR z)) (fun z => EFin (IZR z)) (fun a => a)
        (fun a => match a with EFin x => Some (Rtrunc x) | _ => None end)
        (efn sp)
        (el1 (sp_lgamma sp))
        (fun a => match a with EFin x => sp_lgsign sp x | _ => 1%Z end)
        epow
        (fun f => el2 (sp_pfn sp f)).

(* ---- what the log-scale programs are named after, on ER:  ln(e^a + e^b),  ln(e^a - e^b),  ln(1 + e^a),
        1/(1+e^-a)  with  e^-oo = 0, e^+oo = +oo, ln 0 = -oo, ln +oo = +oo, ln(negative) = oo - oo = NaN *)
Definition eexp (a : ER) : ER :=       (* values in [0, +oo] *)
  match a with EFin x => EFin (exp x) | EPInf => EPInf | ENInf => EFin 0 | ENaN => ENaN end.
Definition eln (a : ER) : ER :=
  match a with
  | EFin x => if Req_EM_T x 0 then ENInf else if Rlt_dec x 0 then ENaN else EFin (ln x)
  | EPInf => EPInf | ENInf => ENaN | ENaN => ENaN
  end.
Definition elogadd_spec (a b : ER) : ER := eln (eadd (eexp a) (eexp b)).
Definition elogsub_spec (a b : ER) : ER := eln (esub (eexp a) (eexp b)).
Definition elog1pexp_limit (a : ER) : ER := eln (eadd (EFin 1) (eexp a)).
Definition esigmoid_spec (a : ER) : ER := ediv (EFin 1) (eadd (EFin 1) (eexp (eneg a))).

Definition efins (xs : list R) : list (sval ER) := map (fun x => VF (EFin x)) xs.
