(* C02, round 6 — Pow computes x^y WITH its special cases on every float scalar type (carrier ER = R + {+oo, -oo, NaN}),
   on every code path that computes a power; equal operands give equal values whether or not derivatives are tracked.
   Ext.epow is the whole table of C99 Annex F / Go's math.Pow; it is tied to the recorded math.Pow calls of every run by
   CorrPow.pow_special_ok (runs/C02/cert_pow.v). *)
From Coq Require Import Reals ZArith List Bool Lra.
From ADV Require Import Base.Num C02.Model C02.Spec C02.ProofsReal C02.ProofsConv C02.Ext C02.ProofsExt C02.ProofsPow.
Import ListNotations.
Open Scope R_scope.
Notation CE := CarE.

Theorem C02_pow_ext : forall sp t a b, fty t -> pow (CE sp) t (VF a) (VF b) = Val (VF (epow a b)).
Proof. exact ext_pow_named. Qed.
Theorem C02_sqrt_is_pow_half : forall sp t a, fty t -> sqrt_ (CE sp) t (VF a) = Val (VF (epow a (EFin (/ 2)))).
Proof. exact ext_sqrt_is_pow_half. Qed.
(* the Real types: ONE value for both branches of Pow / POW (exponent with or without derivatives) — the model has no
   derivative order in the value path, and the value path of a Real type is that of the bare type, for every carrier *)
Theorem C02_pow_tracking_irrelevant : forall A (C : Car A) a b, run_bin C BPow TReal64 a b = run_bin C BPow TFloat64 a b.
Proof. exact (fun A C => @real64_run_bin A C BPow). Qed.
(* the table *)
Theorem C02_pow_zero_exponent : forall a, epow a (EFin 0) = EFin 1.                       (* x^0 = 1, also NaN^0, (+-oo)^0, 0^0 *)
Proof. exact epow_zero_exponent. Qed.
Theorem C02_pow_one_base : forall b, epow (EFin 1) b = EFin 1.                            (* 1^y = 1, also 1^NaN, 1^(+-oo) *)
Proof. exact epow_one_base. Qed.
Theorem C02_pow_nan_base : forall b, b <> EFin 0 -> epow ENaN b = ENaN.
Proof. exact epow_nan_base. Qed.
Theorem C02_pow_nan_exponent : forall x, x <> 1 -> epow (EFin x) ENaN = ENaN.
Proof. exact epow_nan_exponent. Qed.
Theorem C02_pow_positive_base : forall x y, 0 < x -> epow (EFin x) (EFin y) = EFin (exp (y * ln x)).
Proof. exact epow_positive. Qed.
Theorem C02_pow_negative_base_integer_exponent : forall x n, x < 0 -> epow (EFin x) (EFin (IZR n)) = EFin (powerRZ x n).
Proof. exact epow_negative_integer. Qed.
Theorem C02_pow_negative_base_noninteger_exponent : forall x y, x < 0 -> Rint y = false -> epow (EFin x) (EFin y) = ENaN.
Proof. exact epow_negative_noninteger. Qed.
Theorem C02_pow_zero_base : forall y,
  epow (EFin 0) (EFin y) = if Req_EM_T y 0 then EFin 1 else if Rlt_dec 0 y then EFin 0 else EPInf.
Proof. exact epow_zero_base. Qed.
Theorem C02_pow_infinite_exponent : forall x (u : bool), epow (EFin x) (if u then EPInf else ENInf)
  = if Req_EM_T (Rabs x) 1 then EFin 1 else if Bool.eqb (Rltb (Rabs x) 1) u then EFin 0 else EPInf.
Proof. exact epow_inf_exponent. Qed.
Theorem C02_pow_pinf_base : forall y, y <> 0 -> epow EPInf (EFin y) = if Rlt_dec 0 y then EPInf else EFin 0.
Proof. exact epow_pinf_base. Qed.
Theorem C02_pow_ninf_base : forall y, y <> 0 ->
  epow ENInf (EFin y) = if Rlt_dec 0 y then (if Rodd y then ENInf else EPInf) else EFin 0.
Proof. exact epow_ninf_base. Qed.
Theorem C02_pow_agrees_with_rpow : forall x y, 0 < x \/ (x = 0 /\ 0 <= y) \/ (x < 0 /\ Rint y = true) ->
  epow (EFin x) (EFin y) = EFin (rpow x y).
Proof. exact epow_rpow. Qed.

Example C02_pow_nonvacuous :
  epow (EFin (-2)) (EFin (IZR 3)) = EFin (-8) /\ epow (EFin (-2)) (EFin (IZR 2)) = EFin 4 /\ epow (EFin 0) (EFin 0) = EFin 1
  /\ epow (EFin 1) EPInf = EFin 1 /\ epow ENaN (EFin 0) = EFin 1 /\ epow (EFin (-1)) ENInf = EFin 1
  /\ (-2 < 0) /\ EPInf <> EFin 0 /\ (-2 <> 1) /\ Rint (IZR 3) = true /\ (0 < 2 \/ (2 = 0 /\ 0 <= 3) \/ (2 < 0 /\ Rint 3 = true)).
Proof.
  rewrite !epow_negative_integer by lra. rewrite epow_zero_exponent, !epow_one_base, epow_zero_exponent.
  change ENInf with (if false then EPInf else ENInf). rewrite epow_inf_exponent.
  replace (Rabs (-1)) with 1 by (rewrite Rabs_left; lra).
  destruct (Req_EM_T 1 1) as [_|N]; [|exfalso; apply N; reflexivity].
  repeat split; try (f_equal; simpl; lra); try lra; try discriminate. apply Rint_IZR.
Qed.
