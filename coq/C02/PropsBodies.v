(* C02, round 6 — the Go bodies of the scratch-taking scalar methods, regenerated from /repo on every run by go2coq_c02
   (runs/C02/gen_bodies.v: every regenerated body = the expected program P_... of its receiver type, by reflexivity, for
   the 9 receiver types, generic and concrete twins: 90 bodies), interpreted by Bodies.exec_body on the state
   (receiver, t[0], t[1], t[2]) with arbitrary content on entry, ARE the state-passing model coq/C02/ModelSt.v — for every
   carrier, receiver type, scratch bank, state and operands.  Together with PropsSt.v: the value each of these bodies
   leaves in the receiver is the named function of the operands, whatever the receiver and the scratch held. *)
From Coq Require Import ZArith List Bool Floats.
From ADV Require Import Base.Num C02.Model C02.ModelSt C02.Bodies C02.Values C02.ProofsBodies C02.Corr.
Import ListNotations.

Theorem C02_body_logadd : forall A (C : Car A) tc B xs e,
  rmap (@ct A) (exec_body C tc B xs P_LogAdd e) = logadd_st C tc (bt0 B) (ea e) (eb e) (et0 e).
Proof. exact @P_LogAdd_ok. Qed.
Theorem C02_body_logsub : forall A (C : Car A) tc B xs e,
  rmap (@ct A) (exec_body C tc B xs P_LogSub e) = logsub_st C tc (bt0 B) (ea e) (eb e) (et0 e).
Proof. exact @P_LogSub_ok. Qed.
Theorem C02_body_sigmoid : forall A (C : Car A) tc B xs e,
  rmap (@ct A) (exec_body C tc B xs (P_Sigmoid tc) e) = sigmoid_st C tc (bt0 B) (snd (ea e)) (et0 e).
Proof. exact @P_Sigmoid_ok. Qed.
Theorem C02_body_logistic : forall A (C : Car A) tc B xs e,
  rmap (@cr A) (exec_body C tc B xs (P_Logistic tc) e) = logistic C tc (snd (ea e)).
Proof. exact @P_Logistic_ok. Qed.
Theorem C02_body_log1pexp : forall A (C : Car A) tc B xs e,
  rmap (@cr A) (exec_body C tc B xs P_Log1pExp e) = log1pexp C tc (snd (ea e)).
Proof. exact @P_Log1pExp_ok. Qed.
Theorem C02_body_smoothmax : forall A (C : Car A) tc B xs e,
  rmap (fun p => st_of (fst p)) (exec_body C tc B xs P_SmoothMax e) = smoothmax_st C tc B xs (ealpha e) (st_of e).
Proof. exact @P_SmoothMax_ok. Qed.
Theorem C02_body_logsmoothmax : forall A (C : Car A) tc B xs e,
  rmap (fun p => st_of (fst p)) (exec_body C tc B xs P_LogSmoothMax e) = logsmoothmax_st C tc B xs (ealpha e) (st_of e).
Proof. exact @P_LogSmoothMax_ok. Qed.
Theorem C02_body_vmean : forall A (C : Car A) tc B xs e, edim e = Z.of_nat (length xs) ->
  rmap (fun p => st_of (fst p)) (exec_body C tc B xs (P_Vmean tc) e) = vmean_st C tc xs (st_of e).
Proof. exact @P_Vmean_ok. Qed.

(* ---- value expressions of the elementary methods (coq/C02/Values.v; 180 tables regenerated per run): the value stored on
   EVERY return path is the op table's function of the operands — for Pow / POW of the Real types both the path taken when
   the exponent carries derivatives (k.GetOrder() >= 1, dyadicLazy) and the one taken when it does not (monadicLazy) *)
Theorem C02_values_elementary : forall A (C : Car A) t f a, all_paths_store C t (getf64 C a) (getf64 C a) (V_un f) (un C t f a).
Proof. exact @V_un_ok. Qed.
Theorem C02_values_pow_bare : forall A (C : Car A) t a k, all_paths_store C t (getf64 C a) (getf64 C k) V_Pow_bare (pow C t a k).
Proof. exact @V_Pow_bare_ok. Qed.
Theorem C02_values_pow_real_all_paths : forall A (C : Car A) t a k, all_paths_store C t (getf64 C a) (getf64 C k) V_Pow_real (pow C t a k).
Proof. exact @V_Pow_real_ok. Qed.
Theorem C02_values_sqrt : forall A (C : Car A) t a, all_paths_store C t (getf64 C a) (getf64 C a) V_Sqrt (sqrt_ C t a).
Proof. exact @V_Sqrt_ok. Qed.
Theorem C02_values_SQRT_bare : forall A (C : Car A) t a, is_real t = false ->
  all_paths_store C t (getf64 C a) (getf64 C a) V_SQRT_bare (SQRT_ C t a).
Proof. exact @V_SQRT_bare_ok. Qed.
Theorem C02_values_SQRT_real : forall A (C : Car A) t a, is_real t = true ->
  all_paths_store C t (getf64 C a) (getf64 C a) V_SQRT_real (SQRT_ C t a).
Proof. exact @V_SQRT_real_ok. Qed.
Example C02_values_nonvacuous : length V_Pow_real = 2%nat /\ is_real TReal32 = true /\ is_real TFloat32 = false
  /\ map fst V_Pow_real = [[GOrdY true]; [GOrdY false]].
Proof. repeat split. Qed.

(* non-vacuity on binary64: the Vmean body started from a receiver holding NaN *)
Example C02_body_nonvacuous :
  let e := env_of (mkSt (VF nan) (VF infinity) (VF nan) (VF nan)) (TFloat64, VF 0%float) (TFloat64, VF 0%float) (VF 0%float) 3 in
  rmap (fun p => sr (st_of (fst p))) (exec_body (CarF []) TFloat64 (mkBank TFloat64 TFloat64 TFloat64) [VF 1%float; VF 2%float; VF 3%float] (P_Vmean TFloat64) e)
  = Val (VF 2%float)
  /\ edim e = Z.of_nat (length [VF 1%float; VF 2%float; VF 3%float]).
Proof. vm_compute. split; reflexivity. Qed.
