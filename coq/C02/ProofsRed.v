(* C02 lemmas: the vector / matrix reductions on the real carrier. *)
From Coq Require Import Reals ZArith List Bool Lra Lia.
From Coquelicot Require Import Coquelicot.
From ADV Require Import Base.Num C02.Model C02.Spec C02.ProofsReal.
Import ListNotations.
Open Scope R_scope.

Section Red.
Variable sp : specials.
Local Notation C := (CarX sp).

Ltac fin_eq := apply f_equal; apply f_equal; apply f_equal.

(* ---- powers used by the norms *)
Lemma Int_part_2 : Int_part 2 = 2%Z.
Proof.
  unfold Int_part. replace (up 2) with (2 + 1)%Z; [lia|].
  apply up_tech; simpl; lra.
Qed.
Lemma rpow_2 x : rpow x 2 = x * x.
Proof.
  unfold rpow. destruct (Rlt_dec 0 x) as [P|NP].
  - replace 2 with (INR 2) by (simpl; lra). rewrite Rpower_pow by auto. simpl. ring.
  - destruct (Req_EM_T x 0) as [->|NZ].
    + destruct (Rlt_dec 0 2); lra.
    + rewrite Int_part_2. destruct (Req_EM_T 2 (IZR 2)) as [_|N]; [|exfalso; apply N; reflexivity].
      simpl. ring.
Qed.
Lemma rpow_half s : 0 <= s -> rpow s (/ 2) = sqrt s.
Proof.
  intros Hs. unfold rpow. destruct (Rlt_dec 0 s) as [P|NP].
  - apply Rpower_sqrt. auto.
  - destruct (Req_EM_T s 0) as [->|NZ]; [|lra].
    destruct (Rlt_dec 0 (/ 2)); [|lra]. rewrite sqrt_0. reflexivity.
Qed.

Lemma sumsq_nonneg xs : 0 <= sumsq xs.
Proof. unfold sumsq. induction xs; simpl; [lra|]. nra. Qed.

(* ---- plain sums *)
Lemma sum_loop_named tr xs a : fty tr ->
  sum_loop C tr (fins xs) (VF (Fin a)) = Val (VF (Fin (a + Rsum xs))).
Proof.
  intros H. revert a. induction xs as [|x xs IH]; intros a; simpl.
  - fin_eq. lra.
  - rewrite arith_named by auto. cbn [bind]. rewrite IH. fin_eq. lra.
Qed.

Lemma length_fins xs : length (fins xs) = length xs.
Proof. apply map_length. Qed.

Lemma vmean_named tr xs : fty tr ->
  vmean C tr (fins xs) = Val (VF (Fin (Rsum xs / INR (length xs)))).
Proof.
  intros H. unfold vmean. rewrite zero_f by auto. rewrite sum_loop_named by auto. cbn [bind].
  unfold dim_c. unfold fty, is_float_ty in H. rewrite H. simpl cofZ64.
  rewrite arith_named by exact H. fin_eq. rewrite length_fins, <- INR_IZR_INZ. f_equal. lra.
Qed.

Lemma vdotv_loop_named tr xs ys a : fty tr -> length xs = length ys ->
  vdotv_loop C tr (fins xs) (fins ys) (VF (Fin a)) = Val (VF (Fin (a + dot xs ys))).
Proof.
  intros H. revert ys a. induction xs as [|x xs IH]; intros [|y ys] a L; simpl in L; try discriminate; simpl.
  - fin_eq. unfold dot. simpl. lra.
  - rewrite arith_named by auto. cbn [bind]. rewrite arith_named by auto. cbn [bind].
    rewrite IH by lia. fin_eq. unfold dot. simpl. lra.
Qed.
Lemma vdotv_named tr xs ys : fty tr -> length xs = length ys ->
  vdotv C tr (fins xs) (fins ys) = Val (VF (Fin (dot xs ys))).
Proof.
  intros H L. unfold vdotv. rewrite !length_fins, L, Nat.eqb_refl. simpl negb. cbv iota.
  rewrite zero_f by auto. rewrite vdotv_loop_named by auto. fin_eq. lra.
Qed.
Lemma vdotv_mismatch tr (xs ys : list (sval XR)) : length xs <> length ys -> vdotv C tr xs ys = Panic.
Proof. intros L. unfold vdotv. apply Nat.eqb_neq in L. rewrite L. reflexivity. Qed.

(* ---- sums of squares *)
Lemma sumsq_loop_named tr xs a : fty tr ->
  sumsq_loop C tr (fins xs) (VF (Fin a)) = Val (VF (Fin (a + sumsq xs))).
Proof.
  intros H. revert a. induction xs as [|x xs IH]; intros a; cbn [sumsq_loop fins map].
  - fin_eq. unfold sumsq. simpl. lra.
  - rewrite two_f by auto. rewrite pow_named by auto. cbn [bind]. rewrite arith_named by auto. cbn [bind].
    rewrite IH. fin_eq. unfold sumsq. simpl. rewrite rpow_2. lra.
Qed.

Lemma vnorm_named tr xs : fty tr -> vnorm C tr (fins xs) = Val (VF (Fin (sqrt (sumsq xs)))).
Proof.
  intros H. unfold vnorm. rewrite zero_f by auto. rewrite sumsq_loop_named by auto. cbn [bind].
  unfold sqrt_, half_c. simpl snd. simpl clit. simpl rlit.
  rewrite pow_named by auto. fin_eq. rewrite Rplus_0_l. apply rpow_half. apply sumsq_nonneg.
Qed.

(* Mnorm returns the SUM OF SQUARES of the elements *)
Lemma mnorm_named tr n m xs : fty tr -> n <> O -> m <> O -> xs <> [] ->
  mnorm C tr n m (fins xs) = Val (VF (Fin (sumsq xs))).
Proof.
  intros H Hn Hm Hx. unfold mnorm.
  apply Nat.eqb_neq in Hn. apply Nat.eqb_neq in Hm. rewrite Hn, Hm. simpl orb. cbv iota.
  destruct xs as [|x xs]; [congruence|]. cbn [fins map].
  rewrite two_f by auto. rewrite pow_named by auto. cbn [bind]. rewrite sumsq_loop_named by auto.
  fin_eq. unfold sumsq. simpl. rewrite rpow_2. lra.
Qed.
(* ... which is not the Frobenius norm its documentation names *)
Lemma mnorm_refuted_aux : sumsq [3; 0; 0; 4] <> sqrt (sumsq [3; 0; 0; 4]).
Proof.
  unfold sumsq. simpl. replace (3 * 3 + (0 * 0 + (0 * 0 + (4 * 4 + 0)))) with (5 * 5) by lra.
  rewrite sqrt_square by lra. lra.
Qed.

(* ---- SmoothMax *)
Lemma smoothmax_loop_named tr t0 t1 alpha xs N D : fty tr -> fty t0 -> fty t1 ->
  smoothmax_loop C tr t0 t1 (VF (Fin alpha)) (fins xs) (VF (Fin N)) (VF (Fin D))
  = Val (VF (Fin (N + Rsum (map (fun x => x * exp (alpha * x)) xs))),
         VF (Fin (D + Rsum (map (fun x => exp (alpha * x)) xs)))).
Proof.
  intros Hr H0 H1. revert N D. induction xs as [|x xs IH]; intros N D; simpl.
  - rewrite !Rplus_0_r. reflexivity.
  - rewrite arith_named by auto. cbn [bind]. rewrite un_named by auto. cbn [bind rfn].
    rewrite arith_named by auto. cbn [bind]. rewrite arith_named by auto. cbn [bind].
    rewrite arith_named by auto. cbn [bind]. rewrite IH.
    apply f_equal. apply f_equal2; apply f_equal; apply f_equal; ring.
Qed.
Lemma smoothmax_named tr t0 t1 alpha xs : fty tr -> fty t0 -> fty t1 ->
  smoothmax C tr t0 t1 (fins xs) (VF (Fin alpha)) = Val (VF (Fin (smoothmax_spec alpha xs))).
Proof.
  intros Hr H0 H1. unfold smoothmax. rewrite !zero_f by auto.
  rewrite smoothmax_loop_named by auto. cbn [bind fst snd].
  rewrite arith_named by auto. fin_eq. unfold smoothmax_spec. rewrite !Rplus_0_l. reflexivity.
Qed.

(* ---- LogSmoothMax: the same quotient, accumulated on log scale from -oo *)
Lemma logsmoothmax_loop_named tr t0 t1 t2 tx alpha xs N D :
  fty tr -> fty t0 -> fty t1 -> fty t2 -> 0 < N -> 0 < D -> List.Forall (fun x => 0 < x) xs ->
  logsmoothmax_loop C tr t0 t1 t2 tx (VF (Fin alpha)) (fins xs) (VF (Fin (ln N))) (VF (Fin (ln D)))
  = Val (VF (Fin (ln (N + Rsum (map (fun x => x * exp (alpha * x)) xs)))),
         VF (Fin (ln (D + Rsum (map (fun x => exp (alpha * x)) xs))))).
Proof.
  intros Hr H0 H1 H2. revert N D. induction xs as [|x xs IH]; intros N D HN HD HF; simpl.
  - rewrite !Rplus_0_r. reflexivity.
  - inversion HF as [|? ? Hx HF']; subst.
    rewrite arith_named by auto. cbn [bind]. rewrite logadd_named by auto. cbn [bind].
    rewrite un_named by auto. cbn [bind rfn]. rewrite arith_named by auto. cbn [bind].
    rewrite logadd_named by auto. cbn [bind].
    pose proof (exp_pos (alpha * x)) as Ep.
    assert (E1 : exp (ln D) + exp (x * alpha) = D + exp (alpha * x)).
    { rewrite exp_ln by auto. rewrite (Rmult_comm x alpha). reflexivity. }
    assert (E2 : exp (ln N) + exp (x * alpha + ln x) = N + x * exp (alpha * x)).
    { rewrite exp_ln by auto. rewrite exp_plus, exp_ln by auto. rewrite (Rmult_comm x alpha). lra. }
    rewrite E1, E2. rewrite IH; auto; try nra.
    apply f_equal. apply f_equal2; apply f_equal; apply f_equal; apply f_equal; ring.
Qed.

Lemma exp_ln_quot N D : 0 < N -> 0 < D -> exp (ln N - ln D) = N / D.
Proof. intros. unfold Rminus, Rdiv. rewrite exp_plus, exp_Ropp, !exp_ln by auto. reflexivity. Qed.

Lemma Rsum_pos_map (f : R -> R) xs : (forall x, 0 < f x) -> 0 <= Rsum (map f xs).
Proof. intros Hf. induction xs; simpl; [lra|]. specialize (Hf a). lra. Qed.
Lemma Rsum_pos_map' (f : R -> R) xs : List.Forall (fun x => 0 < x) xs -> (forall x, 0 < x -> 0 < f x) -> 0 <= Rsum (map f xs).
Proof. intros HF Hf. induction HF; simpl; [lra|]. specialize (Hf x H). lra. Qed.

Lemma logsmoothmax_named tr t0 t1 t2 tx alpha x xs :
  fty tr -> fty t0 -> fty t1 -> fty t2 -> List.Forall (fun x => 0 < x) (x :: xs) ->
  logsmoothmax C tr t0 t1 t2 tx (fins (x :: xs)) (VF (Fin alpha))
  = Val (VF (Fin (smoothmax_spec alpha (x :: xs)))).
Proof.
  intros Hr H0 H1 H2 HF. inversion HF as [|? ? Hx HF']; subst.
  unfold logsmoothmax. simpl cinf. rewrite !store_f by auto. cbn [bind].
  cbn [fins map logsmoothmax_loop]. fold (fins xs).
  rewrite arith_named by auto. cbn [bind]. rewrite logadd_neginf_l by auto. cbn [bind].
  rewrite un_named by auto. cbn [bind rfn]. rewrite arith_named by auto. cbn [bind].
  rewrite logadd_neginf_l by auto. cbn [bind].
  pose proof (exp_pos (alpha * x)) as Ep.
  replace (x * alpha + ln x) with (ln (x * exp (alpha * x)))
    by (rewrite ln_mult by auto; rewrite ln_exp; lra).
  replace (x * alpha) with (ln (exp (alpha * x))) by (rewrite ln_exp; apply Rmult_comm).
  assert (PN : 0 < x * exp (alpha * x)) by nra.
  rewrite logsmoothmax_loop_named; auto. cbn [bind fst snd].
  rewrite arith_named by auto. cbn [bind]. rewrite un_named by auto. cbn [rfn].
  fin_eq.
  assert (S1 : 0 <= Rsum (map (fun x0 => x0 * exp (alpha * x0)) xs)).
  { apply Rsum_pos_map'; auto. intros y Hy. pose proof (exp_pos (alpha * y)). nra. }
  assert (S2 : 0 <= Rsum (map (fun x0 => exp (alpha * x0)) xs)).
  { apply Rsum_pos_map. intros y. apply exp_pos. }
  rewrite exp_ln_quot by lra. unfold smoothmax_spec. simpl. reflexivity.
Qed.

(* LogSmoothMax and SmoothMax agree on positive vectors *)
Lemma logsmoothmax_agrees tr t0 t1 t2 tx s0 s1 alpha x xs :
  fty tr -> fty t0 -> fty t1 -> fty t2 -> fty s0 -> fty s1 -> List.Forall (fun x => 0 < x) (x :: xs) ->
  logsmoothmax C tr t0 t1 t2 tx (fins (x :: xs)) (VF (Fin alpha))
  = smoothmax C tr s0 s1 (fins (x :: xs)) (VF (Fin alpha)).
Proof. intros. rewrite logsmoothmax_named by auto. rewrite smoothmax_named by auto. reflexivity. Qed.

(* ---- Mtrace *)
Definition rdiag (m n : nat) (xs : list R) : list R := map (fun i => nth (i * m + i) xs 0) (seq 0 n).

Lemma diag_fins m xs n i : (forall j, (i <= j < i + n)%nat -> (j * m + j < length xs)%nat) ->
  diag m i n (fins xs) = fins (map (fun j => nth (j * m + j) xs 0) (seq i n)).
Proof.
  revert i. induction n as [|n IH]; intros i Hb; simpl; [reflexivity|].
  f_equal.
  - unfold fins. rewrite (nth_indep _ (VI 0) (VF (Fin 0))) by (rewrite map_length; apply Hb; lia).
    apply (map_nth (fun x => VF (Fin x))).
  - apply IH. intros j Hj. apply Hb. lia.
Qed.

Lemma mtrace_named tr n xs : fty tr -> n <> O -> length xs = (n * n)%nat ->
  mtrace C tr n n (fins xs) = Val (VF (Fin (Rsum (rdiag n n xs)))).
Proof.
  intros H Hn L. unfold mtrace. rewrite Nat.eqb_refl. simpl negb. cbv iota.
  apply Nat.eqb_neq in Hn. rewrite Hn.
  rewrite diag_fins by (intros j Hj; rewrite L; nia).
  rewrite zero_f by auto. rewrite sum_loop_named by auto. fin_eq. unfold rdiag. lra.
Qed.

End Red.
