(* C02 lemmas: integer scalar types follow Go's wrap-around integer arithmetic.
   All statements hold for EVERY carrier (integer operands never touch it). *)
From Coq Require Import ZArith List Bool Lia.
From ADV Require Import C02.Model.
Import ListNotations.
Open Scope Z_scope.

Definition int_base (b : base) : Prop := is_fbase b = false.
Definition int_ty (t : ty) : Prop := is_fbase (base_of t) = false /\ is_real t = false.

Lemma bits_pos b : int_base b -> 1 <= bits b.
Proof. destruct b; unfold int_base; simpl; intros; try discriminate; lia. Qed.

(* ---- wrap *)
Lemma wrap_range k z : 1 <= k -> - 2 ^ (k - 1) <= wrap k z < 2 ^ (k - 1).
Proof.
  intros Hk. unfold wrap.
  assert (H2 : 2 ^ k = 2 * 2 ^ (k - 1)).
  { replace k with (1 + (k - 1)) at 1 by lia. rewrite Z.pow_add_r by lia. reflexivity. }
  assert (Hp : 0 < 2 ^ (k - 1)) by (apply Z.pow_pos_nonneg; lia).
  pose proof (Z.mod_pos_bound (z + 2 ^ (k - 1)) (2 ^ k) ltac:(lia)). lia.
Qed.

Lemma wrap_id k z : 1 <= k -> - 2 ^ (k - 1) <= z < 2 ^ (k - 1) -> wrap k z = z.
Proof.
  intros Hk Hz. unfold wrap.
  assert (H2 : 2 ^ k = 2 * 2 ^ (k - 1)).
  { replace k with (1 + (k - 1)) at 1 by lia. rewrite Z.pow_add_r by lia. reflexivity. }
  rewrite Z.mod_small by lia. lia.
Qed.

Lemma wrap_congr k z : 1 <= k -> (wrap k z) mod 2 ^ k = z mod 2 ^ k.
Proof.
  intros Hk. unfold wrap.
  assert (Hp : 0 < 2 ^ k) by (apply Z.pow_pos_nonneg; lia).
  assert (H2 : 2 ^ k = 2 * 2 ^ (k - 1)).
  { replace k with (1 + (k - 1)) at 1 by lia. rewrite Z.pow_add_r by lia. reflexivity. }
  rewrite Zminus_mod, Z.mod_mod by lia. rewrite <- Zminus_mod. f_equal. lia.
Qed.

Lemma wrap_eq_of_congr k a b : 1 <= k -> a mod 2 ^ k = b mod 2 ^ k -> wrap k a = wrap k b.
Proof.
  intros Hk H. unfold wrap. f_equal.
  assert (Hp : 0 < 2 ^ k) by (apply Z.pow_pos_nonneg; lia).
  rewrite (Zplus_mod a), (Zplus_mod b), H. reflexivity.
Qed.

Lemma wrap_idem k z : 1 <= k -> wrap k (wrap k z) = wrap k z.
Proof. intros Hk. apply wrap_eq_of_congr; auto. apply wrap_congr; auto. Qed.

Lemma wrap_add k x y : 1 <= k -> wrap k (wrap k x + wrap k y) = wrap k (x + y).
Proof.
  intros Hk. apply wrap_eq_of_congr; auto.
  rewrite Zplus_mod, !wrap_congr by auto. rewrite <- Zplus_mod. reflexivity.
Qed.
Lemma wrap_sub k x y : 1 <= k -> wrap k (wrap k x - wrap k y) = wrap k (x - y).
Proof.
  intros Hk. apply wrap_eq_of_congr; auto.
  rewrite Zminus_mod, !wrap_congr by auto. rewrite <- Zminus_mod. reflexivity.
Qed.
Lemma wrap_mul k x y : 1 <= k -> wrap k (wrap k x * wrap k y) = wrap k (x * y).
Proof.
  intros Hk. apply wrap_eq_of_congr; auto.
  rewrite Zmult_mod, !wrap_congr by auto. rewrite <- Zmult_mod. reflexivity.
Qed.
Lemma wrap_opp k x : 1 <= k -> wrap k (- wrap k x) = wrap k (- x).
Proof.
  intros Hk. replace (- wrap k x) with (0 - wrap k x) by lia. replace (- x) with (0 - x) by lia.
  apply wrap_eq_of_congr; auto.
  rewrite Zminus_mod, wrap_congr by auto. rewrite <- Zminus_mod. reflexivity.
Qed.

(* MinInt / -1 wraps back to MinInt *)
Lemma wrap_minint_div k : 1 <= k -> wrap k (Z.quot (- 2 ^ (k - 1)) (-1)) = - 2 ^ (k - 1).
Proof.
  intros Hk.
  assert (Hp : 0 < 2 ^ (k - 1)) by (apply Z.pow_pos_nonneg; lia).
  replace (Z.quot (- 2 ^ (k - 1)) (-1)) with (2 ^ (k - 1)).
  2:{ rewrite Z.quot_opp_l, <- Z.quot_opp_r by lia. simpl. rewrite Z.quot_1_r. reflexivity. }
  unfold wrap.
  assert (H2 : 2 ^ k = 2 * 2 ^ (k - 1)).
  { replace k with (1 + (k - 1)) at 1 by lia. rewrite Z.pow_add_r by lia. reflexivity. }
  replace (2 ^ (k - 1) + 2 ^ (k - 1)) with (1 * 2 ^ k) by lia.
  rewrite Z.mod_mul by lia. lia.
Qed.

(* Z.quot is division truncated toward zero: the remainder is smaller than the divisor in
   magnitude, has the sign of the dividend, and the quotient never overshoots *)
Lemma quot_truncates x y : y <> 0 ->
  Z.abs (x - Z.quot x y * y) < Z.abs y /\ 0 <= (x - Z.quot x y * y) * x /\ Z.abs (Z.quot x y * y) <= Z.abs x.
Proof.
  intros Hy.
  assert (R : x - Z.quot x y * y = Z.rem x y) by (pose proof (Z.quot_rem' x y); lia).
  assert (B := Z.rem_bound_abs x y Hy). assert (S := Z.rem_sign_mul x y Hy).
  assert (L : Z.abs (Z.rem x y) <= Z.abs x).
  { rewrite <- Z.rem_abs by auto. apply Z.rem_le; lia. }
  rewrite R. split; [exact B|split; [exact S|]].
  replace (Z.quot x y * y) with (x - Z.rem x y) by lia.
  assert (Hs : 0 <= x /\ 0 <= Z.rem x y \/ x <= 0 /\ Z.rem x y <= 0) by nia.
  lia.
Qed.

(* ---- the model's integer operations *)
Section IntOps.
Context {A : Type} (C : Car A).

Lemma int_ty_bits t : int_ty t -> 1 <= bits (base_of t).
Proof. intros [H _]. apply bits_pos. exact H. Qed.

Lemma arith_int t o x y : int_ty t ->
  arith C t o (VI x) (VI y) = iop (bits (base_of t)) o (wrap (bits (base_of t)) x) (wrap (bits (base_of t)) y).
Proof.
  intros [Hb Hr]. unfold arith. rewrite Hr.
  destruct (base_of t); simpl in Hb; try discriminate; reflexivity.
Qed.

Lemma int_add t x y : int_ty t ->
  arith C t OAdd (VI x) (VI y) = Val (VI (wrap (bits (base_of t)) (x + y))).
Proof. intros H. rewrite arith_int by auto. simpl. rewrite wrap_add by (apply int_ty_bits; auto). reflexivity. Qed.
Lemma int_sub t x y : int_ty t ->
  arith C t OSub (VI x) (VI y) = Val (VI (wrap (bits (base_of t)) (x - y))).
Proof. intros H. rewrite arith_int by auto. simpl. rewrite wrap_sub by (apply int_ty_bits; auto). reflexivity. Qed.
Lemma int_mul t x y : int_ty t ->
  arith C t OMul (VI x) (VI y) = Val (VI (wrap (bits (base_of t)) (x * y))).
Proof. intros H. rewrite arith_int by auto. simpl. rewrite wrap_mul by (apply int_ty_bits; auto). reflexivity. Qed.
Lemma int_div t x y : int_ty t -> wrap (bits (base_of t)) y <> 0 ->
  arith C t ODiv (VI x) (VI y)
  = Val (VI (wrap (bits (base_of t)) (Z.quot (wrap (bits (base_of t)) x) (wrap (bits (base_of t)) y)))).
Proof.
  intros H Hy. rewrite arith_int by auto. simpl.
  destruct (Z.eqb_spec (wrap (bits (base_of t)) y) 0); [contradiction|reflexivity].
Qed.
Lemma int_div_zero t x y : int_ty t -> wrap (bits (base_of t)) y = 0 ->
  arith C t ODiv (VI x) (VI y) = Panic.
Proof. intros H Hy. rewrite arith_int by auto. simpl. rewrite Hy. reflexivity. Qed.

Lemma int_neg t x : int_ty t -> neg C t (VI x) = Val (VI (wrap (bits (base_of t)) (- x))).
Proof.
  intros [Hb Hr]. unfold neg. rewrite Hr.
  assert (Hk := bits_pos _ Hb).
  destruct (base_of t); simpl in Hb; try discriminate; simpl; rewrite wrap_opp by (simpl in Hk; lia); reflexivity.
Qed.

Lemma int_cmp t r x y : int_base (base_of t) ->
  cmp C t r (VI x) (VI y)
  = Val (match r with RGt => wrap (bits (base_of t)) y <? wrap (bits (base_of t)) x
                    | RLt => wrap (bits (base_of t)) x <? wrap (bits (base_of t)) y end).
Proof. intros Hb. unfold cmp. destruct (base_of t); simpl in Hb; try discriminate; reflexivity. Qed.

Lemma int_set t x : int_base (base_of t) -> set C t (VI x) = Val (VI (wrap (bits (base_of t)) x)).
Proof. intros Hb. unfold set, get. destruct (base_of t); simpl in Hb; try discriminate; reflexivity. Qed.

Lemma int_min t x y : int_base (base_of t) ->
  min_ C t (VI x) (VI y) = Val (VI (Z.min (wrap (bits (base_of t)) x) (wrap (bits (base_of t)) y))).
Proof.
  intros Hb. unfold min_. rewrite int_cmp by auto. simpl.
  destruct (Z.ltb_spec (wrap (bits (base_of t)) x) (wrap (bits (base_of t)) y)); rewrite int_set by auto.
  - rewrite Z.min_l by lia. reflexivity.
  - rewrite Z.min_r by lia. reflexivity.
Qed.
Lemma int_max t x y : int_base (base_of t) ->
  max_ C t (VI x) (VI y) = Val (VI (Z.max (wrap (bits (base_of t)) x) (wrap (bits (base_of t)) y))).
Proof.
  intros Hb. unfold max_. rewrite int_cmp by auto. simpl.
  destruct (Z.ltb_spec (wrap (bits (base_of t)) y) (wrap (bits (base_of t)) x)); rewrite int_set by auto.
  - rewrite Z.max_l by lia. reflexivity.
  - rewrite Z.max_r by lia. reflexivity.
Qed.

Lemma zero_of_int b : int_base b -> zero_of C b = VI 0.
Proof. unfold zero_of, int_base. intros ->. reflexivity. Qed.

Lemma wrap_0 k : 1 <= k -> wrap k 0 = 0.
Proof. intros. apply wrap_id; auto. assert (0 < 2 ^ (k - 1)) by (apply Z.pow_pos_nonneg; lia). lia. Qed.

Lemma int_sign t x : int_base (base_of t) -> sign C (t, VI x) = Val (Z.sgn (wrap (bits (base_of t)) x)).
Proof.
  intros Hb. unfold sign. simpl fst; simpl snd.
  rewrite zero_of_int by auto. rewrite !int_cmp by auto. simpl.
  rewrite wrap_0 by (apply bits_pos; auto).
  destruct (Z.ltb_spec (wrap (bits (base_of t)) x) 0).
  - rewrite Z.sgn_neg by lia. reflexivity.
  - destruct (Z.ltb_spec 0 (wrap (bits (base_of t)) x)).
    + rewrite Z.sgn_pos by lia. reflexivity.
    + replace (wrap (bits (base_of t)) x) with 0 by lia. reflexivity.
Qed.

(* |x| in the receiver type; Abs(MinInt) wraps to MinInt as in Go *)
Lemma int_abs t ta x : int_ty t -> int_base (base_of ta) ->
  wrap (bits (base_of ta)) x = x -> wrap (bits (base_of t)) x = x ->
  abs_ C t (ta, VI x) = Val (VI (wrap (bits (base_of t)) (Z.abs x))).
Proof.
  intros Ht Hta Hx Hx'. unfold abs_. rewrite int_sign by auto. rewrite Hx. simpl.
  assert (Hk := int_ty_bits _ Ht).
  destruct (Z.lt_trichotomy x 0) as [N|[Z0|P]].
  - rewrite Z.sgn_neg by lia. simpl. rewrite int_neg by auto. rewrite Z.abs_neq by lia. reflexivity.
  - subst x. simpl. rewrite zero_of_int by (destruct Ht; auto). rewrite wrap_0 by auto. reflexivity.
  - rewrite Z.sgn_pos by lia. simpl. destruct Ht as [Hb Hr]. rewrite int_set by auto.
    rewrite Z.abs_eq by lia. reflexivity.
Qed.

End IntOps.
