(* C02, round 2 — lemmas on the extended carrier ER = R + {+oo, -oo, NaN} (coq/C02/Ext.v):
   the transcendental methods at the IEEE special operands as THEOREMS, LogAdd / LogSub / Sigmoid /
   Logistic for ALL operands of ER, LogSmoothMax on vectors containing zeros, and what the
   integer Equals computes. *)
From Coq Require Import Reals ZArith List Bool Lra Lia.
From Coquelicot Require Import Coquelicot.
From Interval Require Import Tactic.
From ADV Require Import Base.Num C02.Model C02.Spec C02.Ext C02.ProofsInt C02.ProofsReal.
Import ListNotations.
Open Scope R_scope.

Section ExtOps.
Variable sp : specials.
Let C := CarE sp.

Ltac fin_eq := apply f_equal; apply f_equal; apply f_equal.

Lemma store_e t x : fty t -> store C (base_of t) x = Val (VF x).
Proof. unfold fty, is_float_ty. destruct (base_of t); simpl; intros; try discriminate; reflexivity. Qed.
Lemma arith_e t o x y : fty t -> arith C t o (VF x) (VF y) = Val (VF (fop C o x y)).
Proof.
  unfold fty, is_float_ty, arith. intros H.
  destruct (is_real t); destruct (base_of t); simpl in *; try discriminate; reflexivity.
Qed.
Lemma neg_e t x : fty t -> neg C t (VF x) = Val (VF (eneg x)).
Proof.
  unfold fty, is_float_ty, neg. intros H.
  destruct (is_real t); destruct (base_of t); simpl in *; try discriminate; reflexivity.
Qed.
Lemma un_e t f x : fty t -> un C t f (VF x) = Val (VF (efn sp f x)).
Proof. intros H. unfold un. simpl. apply store_e; auto. Qed.
Lemma set_e t x : fty t -> set C t (VF x) = Val (VF x).
Proof. unfold fty, is_float_ty, set, get. destruct (base_of t); simpl; intros; try discriminate; reflexivity. Qed.
Lemma cmp_e t r x y : fty t ->
  cmp C t r (VF x) (VF y) = Val (match r with RGt => eltb y x | RLt => eltb x y end).
Proof. unfold fty, is_float_ty, cmp. destruct (base_of t); simpl; intros; try discriminate; reflexivity. Qed.
Lemma one_e t : fty t -> snd (one_c C t) = VF (EFin 1).
Proof. unfold fty, is_float_ty, one_c. intros ->. reflexivity. Qed.
Lemma zero_e t : fty t -> zero_of C (base_of t) = VF (EFin 0).
Proof. unfold fty, is_float_ty, zero_of. intros ->. reflexivity. Qed.

(* ---- elementary methods: the special-value table, the domain edges, the named function elsewhere *)
Lemma ext_un_special t f a y : fty t -> fn_special f a = Some y ->
  un C t f (VF (er_of_xarg a)) = Val (VF (er_of_xres y)).
Proof.
  intros H E. rewrite un_e by auto. do 2 f_equal.
  destruct a, f; simpl in *; try discriminate; inversion E; reflexivity.
Qed.
Lemma ext_un_finite t f x : fty t -> fn_edge f x = EdgeNone ->
  un C t f (VF (EFin x)) = Val (VF (EFin (rfn sp f x))).
Proof. intros H E. rewrite un_e by auto. simpl. rewrite E. reflexivity. Qed.
Lemma ext_un_nan t f : fty t -> un C t f (VF ENaN) = Val (VF ENaN).
Proof. intros H. rewrite un_e by auto. reflexivity. Qed.
Lemma ext_log_zero t : fty t -> un C t FLog (VF (EFin 0)) = Val (VF ENInf).
Proof. intros H. rewrite un_e by auto. simpl. destruct (Req_EM_T 0 0); [reflexivity|lra]. Qed.
Lemma ext_log_negative t x : fty t -> x < 0 -> un C t FLog (VF (EFin x)) = Val (VF ENaN).
Proof.
  intros H Hx. rewrite un_e by auto. simpl. destruct (Req_EM_T x 0); [lra|]. destruct (Rlt_dec x 0); [reflexivity|lra].
Qed.
Lemma ext_log1p_minus_one t : fty t -> un C t FLog1p (VF (EFin (-1))) = Val (VF ENInf).
Proof. intros H. rewrite un_e by auto. simpl. destruct (Req_EM_T (-1) (-1)); [reflexivity|lra]. Qed.
Lemma ext_log1p_below t x : fty t -> x < -1 -> un C t FLog1p (VF (EFin x)) = Val (VF ENaN).
Proof.
  intros H Hx. rewrite un_e by auto. simpl. destruct (Req_EM_T x (-1)); [lra|]. destruct (Rlt_dec x (-1)); [reflexivity|lra].
Qed.

(* helpers about exp / log1p on ER *)
Lemma efn_exp_fin x : efn sp FExp (EFin x) = EFin (exp x).
Proof. reflexivity. Qed.
Lemma efn_exp a : efn sp FExp a = match a with ENInf => EFin (IZR 0) | _ => eexp a end.
Proof. destruct a; reflexivity. Qed.
Lemma efn_log1p_fin u : -1 < u -> efn sp FLog1p (EFin u) = EFin (ln (1 + u)).
Proof.
  intros Hu. simpl. destruct (Req_EM_T u (-1)); [lra|]. destruct (Rlt_dec u (-1)); [lra|]. reflexivity.
Qed.


(* ---- LogAdd = ln(e^a + e^b) for ALL a, b of ER *)
Lemma eln_pos v : 0 < v -> eln (EFin v) = EFin (ln v).
Proof. intros Hv. simpl. destruct (Req_EM_T v 0); [lra|]. destruct (Rlt_dec v 0); [lra|]. reflexivity. Qed.
Lemma eln_zero v : v = 0 -> eln (EFin v) = ENInf.
Proof. intros ->. simpl. destruct (Req_EM_T 0 0); [reflexivity|lra]. Qed.
Lemma eln_neg v : v < 0 -> eln (EFin v) = ENaN.
Proof. intros Hv. simpl. destruct (Req_EM_T v 0); [lra|]. destruct (Rlt_dec v 0); [reflexivity|lra]. Qed.
Lemma efn_log1p_zero : efn sp FLog1p (EFin (IZR 0)) = EFin (ln (1 + 0)).
Proof. apply efn_log1p_fin. lra. Qed.

Ltac run := repeat (progress (rewrite ?set_e, ?arith_e, ?un_e, ?neg_e, ?efn_exp_fin by assumption;
                              cbn [bind fop cadd csub cmul cdiv C CarE eadd esub eneg emul])).
Ltac special := cbn [efn fn_special fn_edge er_of_xres eadd esub eneg eln].

Lemma ext_logadd tc tq ta tb a b : fty tc -> fty tq -> fty ta ->
  logadd C tc tq (ta, VF a) (tb, VF b) = Val (VF (elogadd_spec a b)).
Proof.
  intros Hc Hq Ha. unfold logadd. cbn [fst snd]. rewrite cmp_e by auto. cbn [bind].
  unfold elogadd_spec.
  destruct a as [x| | |], b as [y| | |]; cbn [eltb eexp eadd getf64 snd fst cisinf C CarE eisinf Z.leb];
    try (run; special; reflexivity).
  - (* finite, finite *)
    pose proof (exp_pos x) as Ex. pose proof (exp_pos y) as Ey.
    rewrite eln_pos by lra. unfold Rltb. destruct (Rlt_dec y x) as [G|NG]; cbn [snd fst getf64 eisinf].
    + run. rewrite efn_log1p_fin by (pose proof (exp_pos (y - x)); lra). run.
      fin_eq. rewrite ln_1p_exp_shift. f_equal. apply Rplus_comm.
    + run. rewrite efn_log1p_fin by (pose proof (exp_pos (x - y)); lra). run.
      fin_eq. apply ln_1p_exp_shift.
  - run. special. destruct (Req_EM_T 0 (-1)); [lra|]. destruct (Rlt_dec 0 (-1)); [lra|]. reflexivity.
  - simpl Z.leb. cbv iota. run. pose proof (exp_pos x). rewrite eln_pos by lra. rewrite Rplus_0_r, ln_exp. reflexivity.
  - run. special. destruct (Req_EM_T 0 (-1)); [lra|]. destruct (Rlt_dec 0 (-1)); [lra|]. reflexivity.
  - simpl Z.leb. cbv iota. run. pose proof (exp_pos y). rewrite eln_pos by lra. rewrite Rplus_0_l, ln_exp. reflexivity.
  - simpl Z.leb. cbv iota. run. rewrite eln_zero by lra. reflexivity.
Qed.

(* ---- LogSub = ln(e^a - e^b) for ALL a, b of ER (a < b gives NaN, a = b gives -oo) *)
Lemma ext_logsub tc tq ta tb a b : fty tc -> fty tq ->
  logsub C tc tq (ta, VF a) (tb, VF b) = Val (VF (elogsub_spec a b)).
Proof.
  intros Hc Hq. unfold logsub, elogsub_spec. cbn [fst snd getf64 cisinf C CarE].
  destruct a as [x| | |], b as [y| | |]; cbn [eisinf Z.leb Z.compare eexp];
    try (run; special; reflexivity).
  - (* finite, finite: the sign of e^x - e^y decides *)
    pose proof (exp_pos x) as Ex. pose proof (exp_pos (y - x)) as Eyx.
    assert (F : exp y = exp x * exp (y - x)).
    { unfold Rminus. rewrite exp_plus, exp_Ropp. field. lra. }
    run. cbn [efn fn_edge]. cbn [esub].
    destruct (Req_EM_T (- exp (y - x)) (-1)) as [E1|N1].
    + (* x = y *) run. rewrite eln_zero by (rewrite F; nra). reflexivity.
    + destruct (Rlt_dec (- exp (y - x)) (-1)) as [L|NL].
      * run. rewrite eln_neg by (rewrite F; nra). reflexivity.
      * run. rewrite eln_pos by (rewrite F; nra). fin_eq. cbn [rfn]. unfold Rlog1p.
        rewrite <- (ln_exp x) at 2. rewrite <- ln_mult by (try apply exp_pos; lra).
        f_equal. rewrite F. ring.
  - run. cbn [esub]. pose proof (exp_pos x). rewrite eln_pos by lra. rewrite Rminus_0_r, ln_exp. reflexivity.
  - run. special. destruct (Req_EM_T (- 0) (-1)); [lra|]. destruct (Rlt_dec (- 0) (-1)); [lra|]. reflexivity.
  - run. special. pose proof (exp_pos y). destruct (Req_EM_T (0 - exp y) 0); [lra|]. destruct (Rlt_dec (0 - exp y) 0); [reflexivity|lra].
  - run. cbn [esub]. rewrite eln_zero by lra. reflexivity.
Qed.

(* ---- Log1pExp at the special operands, and on the finite ones as on XR *)
Lemma eleb_fin x y : eleb (EFin x) (EFin y) = Rleb x y.
Proof.
  unfold eleb, eltb, eeqb, Rltb, Reqb, Rleb.
  destruct (Rlt_dec x y), (Req_EM_T x y), (Rle_dec x y); simpl; try reflexivity; lra.
Qed.
Lemma ext_log1pexp_special tc a : fty tc -> (forall x, a <> EFin x) ->
  log1pexp C tc (VF a) = Val (VF (elog1pexp_limit a)).
Proof.
  intros Hc Ha. unfold log1pexp, elog1pexp_limit. cbn [getf64 cleb clit C CarE].
  destruct a as [x| | |]; [exfalso; apply (Ha x); reflexivity| | |]; cbn [eleb eltb eeqb orb eexp eadd].
  - run. reflexivity.
  - run. rewrite eln_pos by lra. cbn [efn fn_special er_of_xres]. fin_eq. rewrite Rplus_0_r, ln_1. reflexivity.
  - run. reflexivity.
Qed.
Lemma ext_log1pexp_finite tc x : fty tc ->
  exists y, log1pexp C tc (VF (EFin x)) = Val (VF (EFin y)) /\ Rabs (y - ln (1 + exp x)) <= l1pe_err x.
Proof.
  intros Hc. unfold log1pexp, l1pe_err. cbn [getf64 cleb clit C CarE]. rewrite !eleb_fin. simpl rlit. unfold Rleb.
  pose proof (exp_pos x) as Ex. pose proof (exp_pos (- x)) as Enx.
  destruct (Rle_dec x (-37)) as [B1|B1].
  - exists (exp x). split; [run; reflexivity|].
    pose proof (ln1p_le (exp x) ltac:(lra)). pose proof (ln1p_ge (exp x) ltac:(lra)).
    rewrite Rabs_right by lra. lra.
  - destruct (Rle_dec x 18) as [B2|B2].
    + exists (ln (1 + exp x)). split.
      * run. rewrite efn_log1p_fin by lra. reflexivity.
      * replace (ln (1 + exp x) - ln (1 + exp x)) with 0 by lra. rewrite Rabs_R0. lra.
    + assert (S : ln (1 + exp x) = x + ln (1 + exp (- x))).
      { rewrite <- (ln_exp x) at 2. rewrite <- ln_mult by lra. f_equal.
        rewrite exp_Ropp. field. lra. }
      destruct (Rle_dec x lit33_3) as [B3|B3].
      * exists (x + exp (- x)). split; [run; reflexivity|].
        pose proof (ln1p_le (exp (- x)) ltac:(lra)). pose proof (ln1p_ge (exp (- x)) ltac:(lra)).
        rewrite S. rewrite Rabs_right by lra. lra.
      * exists x. split; [run; reflexivity|].
        pose proof (ln1p_le (exp (- x)) ltac:(lra)).
        assert (0 <= ln (1 + exp (- x))).
        { rewrite <- ln_1. left. apply ln_increasing; lra. }
        rewrite S. rewrite Rabs_left1 by lra. lra.
Qed.

(* ---- Sigmoid / Logistic = 1/(1+e^-a) for ALL a of ER: 1 at +oo, 0 at -oo, NaN at NaN *)
Lemma ext_sigmoid tc tq a : fty tc -> fty tq ->
  sigmoid C tc tq (VF a) = Val (VF (esigmoid_spec a)).
Proof.
  intros Hc Hq. unfold sigmoid, esigmoid_spec. rewrite !one_e by auto. cbn [getf64 cleb clit C CarE].
  destruct a as [x| | |]; cbn [eleb eltb eeqb orb eneg eexp eadd].
  - rewrite eleb_fin. simpl rlit. unfold Rleb. pose proof (exp_pos x). pose proof (exp_pos (- x)).
    cbn [ediv]. destruct (Req_EM_T (1 + exp (- x)) 0); [lra|].
    destruct (Rle_dec 0 x).
    + run. cbn [ediv]. destruct (Req_EM_T (exp (- x) + 1) 0); [lra|]. fin_eq. f_equal. lra.
    + run. cbn [ediv]. destruct (Req_EM_T (exp x + 1) 0); [lra|]. fin_eq.
      unfold Rdiv. rewrite Rmult_1_l. apply sig_id.
  - run. special. cbn [ediv]. destruct (Req_EM_T (IZR 0 + 1) 0); [lra|]. destruct (Req_EM_T (1 + 0) 0); [lra|].
    fin_eq. lra.
  - run. special. cbn [ediv]. destruct (Req_EM_T (IZR 0 + 1) 0); [lra|]. fin_eq. lra.
  - run. reflexivity.
Qed.
Lemma ext_logistic tc a : fty tc -> logistic C tc (VF a) = Val (VF (esigmoid_spec a)).
Proof.
  intros Hc. unfold logistic, esigmoid_spec. rewrite !one_e by auto.
  destruct a as [x| | |]; run; special; reflexivity.
Qed.
Lemma esigmoid_values x :
  esigmoid_spec (EFin x) = EFin (/ (1 + exp (- x))) /\ esigmoid_spec EPInf = EFin 1 /\ esigmoid_spec ENInf = EFin 0
  /\ esigmoid_spec ENaN = ENaN.
Proof.
  unfold esigmoid_spec. cbn [eneg eexp eadd ediv]. pose proof (exp_pos (- x)).
  destruct (Req_EM_T (1 + exp (- x)) 0); [lra|]. destruct (Req_EM_T (1 + 0) 0); [lra|].
  repeat split; f_equal; unfold Rdiv; try rewrite Rmult_1_l; try reflexivity. rewrite Rplus_0_r. apply Rinv_1.
Qed.

(* ---- SmoothMax on ER: every real vector (zeros and negative elements included); the empty vector gives 0/0 = NaN *)
Lemma ext_smoothmax_loop tr t0 t1 alpha xs N D : fty tr -> fty t0 -> fty t1 ->
  smoothmax_loop C tr t0 t1 (VF (EFin alpha)) (efins xs) (VF (EFin N)) (VF (EFin D))
  = Val (VF (EFin (N + Rsum (map (fun x => x * exp (alpha * x)) xs))),
         VF (EFin (D + Rsum (map (fun x => exp (alpha * x)) xs)))).
Proof.
  intros Hr H0 H1. revert N D. induction xs as [|x xs IH]; intros N D; cbn [efins map smoothmax_loop].
  - cbn [Rsum fold_right]. rewrite !Rplus_0_r. reflexivity.
  - run. fold (efins xs). rewrite IH.
    apply f_equal. unfold Rsum. cbn [map fold_right]. apply f_equal2; apply f_equal; apply f_equal; ring.
Qed.
Lemma Rsum_exp_pos alpha x xs : 0 < Rsum (map (fun x => exp (alpha * x)) (x :: xs)).
Proof.
  revert x. induction xs as [|y ys IH]; intros x; cbn [map Rsum fold_right].
  - pose proof (exp_pos (alpha * x)). lra.
  - pose proof (exp_pos (alpha * x)). specialize (IH y). cbn [map Rsum fold_right] in IH. lra.
Qed.
Lemma ext_smoothmax tr t0 t1 alpha x xs : fty tr -> fty t0 -> fty t1 ->
  smoothmax C tr t0 t1 (efins (x :: xs)) (VF (EFin alpha)) = Val (VF (EFin (smoothmax_spec alpha (x :: xs)))).
Proof.
  intros Hr H0 H1. unfold smoothmax. rewrite !zero_e by auto.
  rewrite ext_smoothmax_loop by auto. cbn [bind fst snd]. run. cbn [ediv].
  pose proof (Rsum_exp_pos alpha x xs) as P.
  destruct (Req_EM_T _ 0) as [E|NE]; [lra|]. fin_eq. unfold smoothmax_spec. rewrite !Rplus_0_l. reflexivity.
Qed.
Lemma ext_smoothmax_empty tr t0 t1 alpha : fty tr -> fty t0 -> fty t1 ->
  smoothmax C tr t0 t1 [] (VF (EFin alpha)) = Val (VF ENaN).
Proof.
  intros Hr H0 H1. unfold smoothmax. rewrite !zero_e by auto. cbn [smoothmax_loop bind fst snd]. run. cbn [ediv].
  destruct (Req_EM_T 0 0); [|lra]. unfold esgn. destruct (Rlt_dec 0 0); [lra|]. reflexivity.
Qed.

(* ---- LogSmoothMax on ER for vectors of NON-NEGATIVE elements: a zero element contributes ln 0 = -oo, i.e. nothing,
        to the numerator; the all-zero vector gives e^(-oo) = 0 *)
Lemma eexp_eln v : 0 <= v -> eexp (eln (EFin v)) = EFin v.
Proof.
  intros Hv. destruct (Req_dec v 0) as [->|NZ].
  - rewrite eln_zero by reflexivity. reflexivity.
  - rewrite eln_pos by lra. cbn [eexp]. rewrite exp_ln by lra. reflexivity.
Qed.
Lemma ext_logsmoothmax_loop tr t0 t1 t2 tx alpha xs N D :
  fty tr -> fty t0 -> fty t1 -> fty t2 -> 0 <= N -> 0 <= D -> List.Forall (fun x => 0 <= x) xs ->
  logsmoothmax_loop C tr t0 t1 t2 tx (VF (EFin alpha)) (efins xs) (VF (eln (EFin N))) (VF (eln (EFin D)))
  = Val (VF (eln (EFin (N + Rsum (map (fun x => x * exp (alpha * x)) xs)))),
         VF (eln (EFin (D + Rsum (map (fun x => exp (alpha * x)) xs))))).
Proof.
  intros Hr H0 H1 H2. revert N D. induction xs as [|x xs IH]; intros N D HN HD HF; cbn [efins map logsmoothmax_loop].
  - cbn [Rsum fold_right]. rewrite !Rplus_0_r. reflexivity.
  - inversion HF as [|? ? Hx HF']; subst. fold (efins xs).
    pose proof (exp_pos (alpha * x)) as Eax.
    run. rewrite ext_logadd by auto. cbn [bind].
    unfold elogadd_spec at 1. rewrite eexp_eln by auto. cbn [eexp eadd].
    run.
    assert (EU : eexp (eadd (EFin (x * alpha)) (efn sp FLog (EFin x))) = EFin (x * exp (alpha * x))).
    { cbn [efn fn_edge]. destruct (Req_EM_T x 0) as [->|NZ].
      - cbn [eadd eexp]. f_equal. ring.
      - destruct (Rlt_dec x 0); [lra|]. cbn [eadd eexp rfn]. f_equal.
        rewrite exp_plus, exp_ln by lra. rewrite (Rmult_comm x alpha). ring. }
    rewrite ext_logadd by auto. cbn [bind]. unfold elogadd_spec. rewrite eexp_eln by auto. cbn [eadd] in EU. rewrite EU. cbn [eadd].
    replace (exp (x * alpha)) with (exp (alpha * x)) by (f_equal; ring).
    rewrite IH; auto; try nra.
    unfold Rsum. cbn [map fold_right]. apply f_equal. apply f_equal2; apply f_equal; apply f_equal; apply f_equal; ring.
Qed.
Lemma Rsum_xexp_nonneg alpha xs : List.Forall (fun x => 0 <= x) xs -> 0 <= Rsum (map (fun x => x * exp (alpha * x)) xs).
Proof.
  intros HF. induction HF as [|y ys Hy _ IH]; unfold Rsum in *; cbn [map fold_right]; [lra|].
  pose proof (exp_pos (alpha * y)). nra.
Qed.
Lemma ext_logsmoothmax tr t0 t1 t2 tx alpha x xs :
  fty tr -> fty t0 -> fty t1 -> fty t2 -> List.Forall (fun x => 0 <= x) (x :: xs) ->
  logsmoothmax C tr t0 t1 t2 tx (efins (x :: xs)) (VF (EFin alpha)) = Val (VF (EFin (smoothmax_spec alpha (x :: xs)))).
Proof.
  intros Hr H0 H1 H2 HF. unfold logsmoothmax. rewrite !store_e by auto. cbn [bind cinf C CarE Z.leb Z.compare].
  rewrite <- (eln_zero 0) by reflexivity.
  rewrite (ext_logsmoothmax_loop tr t0 t1 t2 tx alpha (x :: xs) 0 0) by (try assumption; lra). cbn [bind fst snd]. rewrite !Rplus_0_l.
  pose proof (Rsum_exp_pos alpha x xs) as PD.
  pose proof (Rsum_xexp_nonneg alpha (x :: xs) HF) as PN.
  set (Nn := Rsum (map (fun x => x * exp (alpha * x)) (x :: xs))) in *.
  set (Dd := Rsum (map (fun x => exp (alpha * x)) (x :: xs))) in *.
  rewrite (eln_pos Dd) by auto. unfold smoothmax_spec. fold Nn Dd.
  destruct (Req_dec Nn 0) as [E0|NZ].
  - rewrite eln_zero by auto. run. cbn [efn fn_special er_of_xres]. fin_eq. rewrite E0. unfold Rdiv. ring.
  - rewrite eln_pos by lra. run. fin_eq.
    unfold Rminus. rewrite exp_plus, exp_Ropp, !exp_ln by lra. reflexivity.
Qed.

(* a negative element is outside the domain of the log-scale computation: the result is NaN (never a wrong number) *)
Lemma elogadd_nan_l u : elogadd_spec ENaN u = ENaN.
Proof. reflexivity. Qed.
Lemma elogadd_nan_r r : elogadd_spec r ENaN = ENaN.
Proof. destruct r; reflexivity. Qed.
Lemma ext_logsmoothmax_loop_nan tr t0 t1 t2 tx alpha xs : fty tr -> fty t0 -> fty t1 -> fty t2 ->
  forall r s, List.Exists (fun x => x < 0) xs \/ r = ENaN ->
  exists s', logsmoothmax_loop C tr t0 t1 t2 tx (VF (EFin alpha)) (efins xs) (VF r) (VF s) = Val (VF ENaN, VF s').
Proof.
  intros Hr H0 H1 H2. induction xs as [|x xs IH]; intros r s Hy; cbn [efins map logsmoothmax_loop].
  - destruct Hy as [Hy| ->]; [inversion Hy|]. exists s. reflexivity.
  - fold (efins xs). run. rewrite ext_logadd by auto. cbn [bind]. run.
    rewrite ext_logadd by auto. cbn [bind]. apply IH.
    destruct Hy as [Hy| ->]; [|right; apply elogadd_nan_l].
    inversion Hy as [? ? Hx|? ? Hx]; subst; [|left; exact Hx].
    right. cbn [efn fn_edge]. destruct (Req_EM_T x 0); [lra|]. destruct (Rlt_dec x 0); [|lra].
    apply elogadd_nan_r.
Qed.
Lemma ext_logsmoothmax_negative tr t0 t1 t2 tx alpha xs : fty tr -> fty t0 -> fty t1 -> fty t2 ->
  List.Exists (fun x => x < 0) xs ->
  logsmoothmax C tr t0 t1 t2 tx (efins xs) (VF (EFin alpha)) = Val (VF ENaN).
Proof.
  intros Hr H0 H1 H2 Hx. unfold logsmoothmax. rewrite !store_e by auto. cbn [bind].
  destruct (ext_logsmoothmax_loop_nan tr t0 t1 t2 tx alpha xs Hr H0 H1 H2 (cinf C (-1)) (cinf C (-1)) (or_introl Hx)) as [s' E].
  rewrite E. cbn [bind fst snd]. run. destruct s'; reflexivity.
Qed.

End ExtOps.

(* ---- what Equals computes on the integer types: the epsilon test on the float64 readings (known finding F-EQUALS-INT:
        the template's exact branch  a.GetK() == b.GetK()  is never generated) *)
Lemma int_equals_is_epsilon_test sp ta tb x y e :
  equals (CarX sp) (ta, VI x) (tb, VI y) (Some e) = Val (Rltb (Rabs (IZR x - IZR y)) e).
Proof. unfold equals. simpl. rewrite !orb_false_r. reflexivity. Qed.
(* identical integers are NOT Equal for epsilon <= 0 *)
Lemma int_equals_refuted sp ta tb x e : e <= 0 -> equals (CarX sp) (ta, VI x) (tb, VI x) (Some e) = Val false.
Proof.
  intros He. rewrite int_equals_is_epsilon_test. f_equal. unfold Rltb.
  destruct (Rlt_dec _ e) as [L|]; [|reflexivity]. pose proof (Rabs_pos (IZR x - IZR x)). lra.
Qed.

(* ---- Log1pExp on the INTEGER receivers, middle branch (since fix 7035970 the temporary has the receiver's type) *)
Lemma Rtrunc_small y : 0 <= y < 1 -> Rtrunc y = 0%Z.
Proof.
  intros [H0 H1]. unfold Rtrunc. destruct (Rle_dec 0 y); [|lra].
  unfold Int_part. replace (up y) with (0 + 1)%Z; [reflexivity|]. apply up_tech; simpl; lra.
Qed.

(* integer receivers on (18, 33.3]: the temporary t has the receiver's type, e^-x truncates to 0, the result is x *)
Lemma int_log1pexp_middle sp t x : int_ty t -> (18 < x <= 33)%Z -> wrap (bits (base_of t)) x = x ->
  log1pexp (CarX sp) t (VI x) = Val (VI x).
Proof.
  intros Ht Hx Hw. pose proof (int_ty_bits _ Ht) as Hk. destruct Ht as [Hb Hr].
  unfold log1pexp. cbn [getf64 cofZ64 CarX cleb clit]. unfold xleb. simpl rlit. unfold Rleb.
  assert (X1 : 18 < IZR x) by (apply IZR_lt; lia).
  assert (X2 : IZR x <= 33) by (apply IZR_le; lia).
  destruct (Rle_dec (IZR x) (-37)); [lra|]. destruct (Rle_dec (IZR x) 18); [lra|].
  destruct (Rle_dec (IZR x) lit33_3) as [_|N]; [|exfalso; apply N; unfold lit33_3; interval].
  rewrite int_neg by (split; auto). cbn [bind].
  unfold un. cbn [getf64 cofZ64 CarX cfn].
  assert (W : wrap (bits (base_of t)) (- x) = (- x)%Z).
  { destruct (base_of t); simpl in Hb; try discriminate; cbn [bits]; unfold wrap; rewrite Z.mod_small by lia; lia. }
  rewrite W.
  assert (E : Rtrunc (rfn sp FExp (IZR (- x))) = 0%Z).
  { apply Rtrunc_small. cbn [rfn]. pose proof (exp_pos (IZR (- x))). split; [lra|].
    rewrite <- exp_0. apply exp_increasing. rewrite opp_IZR. lra. }
  assert (S : store (CarX sp) (base_of t) (Some (rfn sp FExp (IZR (- x)))) = Val (VI 0%Z)).
  { unfold store, f2i. cbn [ctoZ CarX]. rewrite E.
    destruct (base_of t); simpl in Hb; try discriminate; reflexivity. }
  match goal with |- bind ?m _ = _ => replace m with (@Val (sval XR) (VI 0%Z)) by (symmetry; exact S) end. cbn [bind]. rewrite int_add by (split; auto). rewrite Z.add_0_r, Hw. reflexivity.
Qed.
