(* C02, round 6 — lemmas about the state-passing model coq/C02/ModelSt.v: for EVERY carrier, every receiver and
   scratch type, every content of the receiver and of the scratch scalars on entry, the value a call leaves in
   the receiver is the value coq/C02/Model.v assigns to the call (a function of the operands only); lifted to
   histories of calls on one receiver and one scratch bank by induction; frame lemmas. *)
From Coq Require Import ZArith List Bool.
From ADV Require Import C02.Model C02.ModelSt.
Import ListNotations.

Section StProofs.
Context {A : Type} (C : Car A).

Ltac dres :=
  repeat (cbn [bind fst snd rmap];
          match goal with
          | |- context [bind ?m _] =>
              lazymatch m with
              | Val _ => fail | Panic => fail | Excl => fail | NilRet => fail
              | _ => destruct m eqn:?
              end
          | |- context [if ?b then _ else _] => destruct b eqn:?
          end);
  cbn [bind fst snd rmap]; try reflexivity.

Lemma logadd_st_fst tc tq a b t : rmap fst (logadd_st C tc tq a b t) = logadd C tc tq a b.
Proof. unfold logadd_st, logadd. dres. Qed.
Lemma logsub_st_fst tc tq a b t : rmap fst (logsub_st C tc tq a b t) = logsub C tc tq a b.
Proof. unfold logsub_st, logsub. dres. Qed.
Lemma sigmoid_st_fst tc tq a t : rmap fst (sigmoid_st C tc tq a t) = sigmoid C tc tq a.
Proof. unfold sigmoid_st, sigmoid. dres. Qed.

(* the scratch content on entry never reaches the result: two runs from different contents agree on c *)
Lemma logadd_st_scratch tc tq a b t t' : rmap fst (logadd_st C tc tq a b t) = rmap fst (logadd_st C tc tq a b t').
Proof. rewrite !logadd_st_fst. reflexivity. Qed.

Definition p3 (q : sval A * sval A * sval A) : sval A * sval A := (fst (fst q), snd q).
Lemma smoothmax_loop_st_proj tr t0 t1 alpha xs : forall r u s,
  rmap p3 (smoothmax_loop_st C tr t0 t1 alpha xs r u s) = smoothmax_loop C tr t0 t1 alpha xs r s.
Proof.
  induction xs as [|x xs IH]; intros r u s; [reflexivity|].
  cbn [smoothmax_loop_st smoothmax_loop].
  destruct (arith C t0 OMul alpha x) as [u1| | |]; cbn [bind]; try reflexivity.
  destruct (un C t0 FExp u1) as [u2| | |]; cbn [bind]; try reflexivity.
  destruct (arith C t1 OAdd s u2) as [s'| | |]; cbn [bind]; try reflexivity.
  destruct (arith C t0 OMul u2 x) as [u3| | |]; cbn [bind]; try reflexivity.
  destruct (arith C tr OAdd r u3) as [r'| | |]; cbn [bind]; try reflexivity.
  apply IH.
Qed.
Lemma smoothmax_st_recv tr B xs alpha s :
  rmap (@sr A) (smoothmax_st C tr B xs alpha s) = smoothmax C tr (bt0 B) (bt1 B) xs alpha.
Proof.
  unfold smoothmax_st, smoothmax, reset_.
  rewrite <- (smoothmax_loop_st_proj tr (bt0 B) (bt1 B) alpha xs (zero_of C (base_of tr)) (s0 s) (zero_of C (base_of (bt1 B)))).
  destruct (smoothmax_loop_st C tr (bt0 B) (bt1 B) alpha xs _ _ _) as [[[r u] t1]| | |]; cbn [bind rmap p3 fst snd]; try reflexivity.
  destruct (arith C tr ODiv r t1); reflexivity.
Qed.

Definition p4 (q : sval A * sval A * sval A * sval A) : sval A * sval A := (fst (fst (fst q)), snd q).
Lemma logsmoothmax_loop_st_proj tr t0 t1 t2 tx alpha xs : forall r u l w,
  rmap p4 (logsmoothmax_loop_st C tr t0 t1 t2 alpha xs r u l w) = logsmoothmax_loop C tr t0 t1 t2 tx alpha xs r w.
Proof.
  induction xs as [|x xs IH]; intros r u l w; [reflexivity|].
  cbn [logsmoothmax_loop_st logsmoothmax_loop].
  destruct (arith C t0 OMul x alpha) as [u1| | |]; cbn [bind]; try reflexivity.
  rewrite <- (logadd_st_fst t2 t1 (t2, w) (t0, u1) l).
  destruct (logadd_st C t2 t1 (t2, w) (t0, u1) l) as [[w' l1]| | |]; cbn [bind rmap fst snd]; try reflexivity.
  destruct (un C t1 FLog x) as [l2| | |]; cbn [bind]; try reflexivity.
  destruct (arith C t0 OAdd u1 l2) as [u2| | |]; cbn [bind]; try reflexivity.
  rewrite <- (logadd_st_fst tr t1 (tr, r) (t0, u2) l2).
  destruct (logadd_st C tr t1 (tr, r) (t0, u2) l2) as [[r' l3]| | |]; cbn [bind rmap fst snd]; try reflexivity.
  apply IH.
Qed.
Lemma logsmoothmax_st_recv tr B tx xs alpha s :
  rmap (@sr A) (logsmoothmax_st C tr B xs alpha s) = logsmoothmax C tr (bt0 B) (bt1 B) (bt2 B) tx xs alpha.
Proof.
  unfold logsmoothmax_st, logsmoothmax, setf_.
  destruct (store C (base_of tr) (cinf C (-1))) as [r| | |]; cbn [bind rmap]; try reflexivity.
  destruct (store C (base_of (bt2 B)) (cinf C (-1))) as [w| | |]; cbn [bind rmap]; try reflexivity.
  rewrite <- (logsmoothmax_loop_st_proj tr (bt0 B) (bt1 B) (bt2 B) tx alpha xs r (s0 s) (s1 s) w).
  destruct (logsmoothmax_loop_st C tr (bt0 B) (bt1 B) (bt2 B) alpha xs r (s0 s) (s1 s) w) as [[[[r' u] l] w']| | |];
    cbn [bind rmap p4 fst snd]; try reflexivity.
  destruct (arith C tr OSub r' w') as [r2| | |]; cbn [bind rmap]; try reflexivity.
  destruct (un C tr FExp r2); reflexivity.
Qed.

Lemma vmean_st_recv tr xs s : rmap (@sr A) (vmean_st C tr xs s) = vmean C tr xs.
Proof. unfold vmean_st, vmean, reset_. dres. Qed.
Lemma vdotv_st_recv tr xs ys s : rmap (@sr A) (vdotv_st C tr xs ys s) = vdotv C tr xs ys.
Proof. unfold vdotv_st, vdotv, reset_. dres. Qed.
Lemma vnorm_st_recv tr xs s : rmap (@sr A) (vnorm_st C tr xs s) = vnorm C tr xs.
Proof. unfold vnorm_st, vnorm, reset_. dres. Qed.
Lemma mtrace_st_recv tr n m xs s : rmap (@sr A) (mtrace_st C tr n m xs s) = mtrace C tr n m xs.
Proof. unfold mtrace_st, mtrace, reset_. dres. Qed.
Lemma mnorm_st_recv tr n m xs s : rmap (@sr A) (mnorm_st C tr n m xs s) = mnorm C tr n m xs.
Proof. unfold mnorm_st, mnorm. destruct (Nat.eqb n 0 || Nat.eqb m 0); [reflexivity|]. destruct xs; [reflexivity|]. dres. Qed.

Lemma sr_kset (s : st (A:=A)) k v : sr (kset s k v) = sr s.
Proof. destruct k; reflexivity. Qed.

(* ---- one call *)
Lemma step_recv tr B s q : rmap (@sr A) (step C tr B s q) = fresh C tr B (sr s) q.
Proof.
  destruct q; cbn [step fresh].
  - rewrite <- (logadd_st_fst tr (kty B k) _ _ (kget s k)).
    destruct (logadd_st C tr (kty B k) _ _ (kget s k)) as [[c t]| | |]; cbn [bind rmap fst snd]; try reflexivity.
    rewrite sr_kset. reflexivity.
  - rewrite <- (logsub_st_fst tr (kty B k) _ _ (kget s k)).
    destruct (logsub_st C tr (kty B k) _ _ (kget s k)) as [[c t]| | |]; cbn [bind rmap fst snd]; try reflexivity.
    rewrite sr_kset. reflexivity.
  - rewrite <- (sigmoid_st_fst tr (kty B k) _ (kget s k)).
    destruct (sigmoid_st C tr (kty B k) _ (kget s k)) as [[c t]| | |]; cbn [bind rmap fst snd]; try reflexivity.
    rewrite sr_kset. reflexivity.
  - apply smoothmax_st_recv.
  - apply logsmoothmax_st_recv.
  - apply vmean_st_recv.
  - apply vdotv_st_recv.
  - apply vnorm_st_recv.
  - apply mtrace_st_recv.
  - apply mnorm_st_recv.
  - destruct (run_un C o tr _); reflexivity.
  - destruct (run_bin C o tr _ _); reflexivity.
Qed.

(* two states that agree on the receiver give the same result, whatever the scratch scalars hold *)
Lemma step_scratch_independent tr B s s' q : sr s = sr s' ->
  rmap (@sr A) (step C tr B s q) = rmap (@sr A) (step C tr B s' q).
Proof. intros E. rewrite !step_recv, E. reflexivity. Qed.

Lemma fresh_closed tr B r r' q : closed q = true -> fresh C tr B r q = fresh C tr B r' q.
Proof.
  destruct q; cbn [closed fresh]; try reflexivity;
    repeat match goal with o : opnd (A:=A) |- _ => destruct o end; cbn; try discriminate; reflexivity.
Qed.
(* no operand is the receiver: the result does not depend on ANY part of the state on entry *)
Lemma step_state_independent tr B s s' q : closed q = true ->
  rmap (@sr A) (step C tr B s q) = rmap (@sr A) (step C tr B s' q).
Proof. intros H. rewrite !step_recv. apply fresh_closed; assumption. Qed.

(* ---- histories *)
Lemma seq_recv tr B qs : forall s, map (rmap (@sr A)) (run_seq C tr B s qs) = run_fresh C tr B (sr s) qs.
Proof.
  induction qs as [|q qs IH]; intros s; [reflexivity|].
  cbn [run_seq run_fresh]. rewrite <- (step_recv tr B s q).
  destruct (step C tr B s q) as [s'| | |]; cbn [rmap map]; try reflexivity.
  f_equal. apply IH.
Qed.
Lemma seq_scratch_independent tr B qs s s' : sr s = sr s' ->
  map (rmap (@sr A)) (run_seq C tr B s qs) = map (rmap (@sr A)) (run_seq C tr B s' qs).
Proof. intros E. rewrite !seq_recv, E. reflexivity. Qed.

Lemma fresh_seq_closed tr B qs : forallb (@closed A) qs = true -> forall r r', run_fresh C tr B r qs = run_fresh C tr B r' qs.
Proof.
  induction qs as [|q qs IH]; intros H r r'; [reflexivity|].
  cbn [forallb] in H. apply andb_prop in H. destruct H as [Hq Hqs].
  cbn [run_fresh]. rewrite (fresh_closed tr B r r' q Hq).
  destruct (fresh C tr B r' q); reflexivity.
Qed.
Lemma seq_state_independent tr B qs s s' : forallb (@closed A) qs = true ->
  map (rmap (@sr A)) (run_seq C tr B s qs) = map (rmap (@sr A)) (run_seq C tr B s' qs).
Proof. intros H. rewrite !seq_recv. apply fresh_seq_closed; assumption. Qed.

(* ---- frame: a call writes the receiver and the scratch scalars it was given, nothing else *)
Definition touches (q : sop (A:=A)) (k : reg3) : bool :=
  match q with
  | QLogAdd k' _ _ | QLogSub k' _ _ | QSigmoid k' _ =>
      match k, k' with K0, K0 | K1, K1 | K2, K2 => true | _, _ => false end
  | QSmoothMax _ _ => match k with K2 => false | _ => true end
  | QLogSmoothMax _ _ => true
  | _ => false
  end.
Lemma kget_kset_other (s : st (A:=A)) k k' v : (match k, k' with K0, K0 | K1, K1 | K2, K2 => true | _, _ => false end) = false ->
  kget (kset s k' v) k = kget s k.
Proof. destruct k, k'; cbn; intros; try discriminate; reflexivity. Qed.
Lemma kget_rset (s : st (A:=A)) k v : kget (rset s v) k = kget s k.
Proof. destruct k; reflexivity. Qed.
Lemma step_frame tr B s q s' k : step C tr B s q = Val s' -> touches q k = false -> kget s' k = kget s k.
Proof.
  destruct q; cbn [step touches]; intros H T; try discriminate.
  - destruct (logadd_st C tr (kty B k0) _ _ (kget s k0)) as [[c t]| | |]; cbn [bind] in H; try discriminate.
    injection H as <-. rewrite kget_kset_other by assumption. apply kget_rset.
  - destruct (logsub_st C tr (kty B k0) _ _ (kget s k0)) as [[c t]| | |]; cbn [bind] in H; try discriminate.
    injection H as <-. rewrite kget_kset_other by assumption. apply kget_rset.
  - destruct (sigmoid_st C tr (kty B k0) _ (kget s k0)) as [[c t]| | |]; cbn [bind] in H; try discriminate.
    injection H as <-. rewrite kget_kset_other by assumption. apply kget_rset.
  - unfold smoothmax_st in H.
    destruct (smoothmax_loop_st C tr (bt0 B) (bt1 B) (VF alpha) xs _ _ _) as [[[r u] t1]| | |]; cbn [bind] in H; try discriminate.
    destruct (arith C tr ODiv r t1); cbn [bind] in H; try discriminate. injection H as <-.
    destruct k; try discriminate. reflexivity.
  - unfold vmean_st in H. destruct (sum_loop C tr xs _); cbn [bind] in H; try discriminate.
    destruct (arith C tr ODiv _ _); cbn [bind] in H; try discriminate. injection H as <-. apply kget_rset.
  - unfold vdotv_st in H. destruct (negb _); try discriminate.
    destruct (vdotv_loop C tr xs ys _); cbn [bind] in H; try discriminate. injection H as <-. apply kget_rset.
  - unfold vnorm_st in H. destruct (sumsq_loop C tr xs _); cbn [bind] in H; try discriminate.
    destruct (sqrt_ C tr _); cbn [bind] in H; try discriminate. injection H as <-. apply kget_rset.
  - unfold mtrace_st in H. destruct (negb _); try discriminate. destruct (Nat.eqb n 0); try discriminate.
    destruct (sum_loop C tr _ _); cbn [bind] in H; try discriminate. injection H as <-. apply kget_rset.
  - unfold mnorm_st in H. destruct (_ || _); try discriminate. destruct xs; try discriminate.
    destruct (pow C tr _ _); cbn [bind] in H; try discriminate.
    destruct (sumsq_loop C tr _ _); cbn [bind] in H; try discriminate. injection H as <-. apply kget_rset.
  - destruct (run_un C o tr _); cbn [bind] in H; try discriminate. injection H as <-. apply kget_rset.
  - destruct (run_bin C o tr _ _); cbn [bind] in H; try discriminate. injection H as <-. apply kget_rset.
Qed.

End StProofs.
